package codecgen

import (
	"encoding/base64"
	"fmt"
	"math"
	"strconv"
	"strings"
	"time"

	"verifharness/vh"
)

// J is a JSON tree annotated with the schema position it was generated for.
type J struct {
	K       string // null bool num str arr obj raw
	B       bool
	S       string // num literal / string content / raw text
	Items   []*J
	Members []*Member
	// annotations
	Ty     *Ty     // the field type this value was generated for (nil at a root)
	Schema *Schema // obj: the object / oneof schema (nil for maps and any)
}

type Member struct {
	Key string
	Val *J
}

func Null() *J           { return &J{K: "null"} }
func Str(s string) *J    { return &J{K: "str", S: s} }
func Num(s string) *J    { return &J{K: "num", S: s} }
func Bool(b bool) *J     { return &J{K: "bool", B: b} }
func Raw(s string) *J    { return &J{K: "raw", S: s} }
func Arr(items ...*J) *J { return &J{K: "arr", Items: items} }
func Obj() *J            { return &J{K: "obj"} }
func (j *J) Add(k string, v *J) *J {
	j.Members = append(j.Members, &Member{k, v})
	return j
}

// Clone copies the tree (annotations are shared).
func (j *J) Clone() *J {
	c := *j
	c.Items = make([]*J, len(j.Items))
	for i, it := range j.Items {
		c.Items[i] = it.Clone()
	}
	c.Members = make([]*Member, len(j.Members))
	for i, m := range j.Members {
		c.Members[i] = &Member{m.Key, m.Val.Clone()}
	}
	return &c
}

// Style controls the surface form of a printed document.
type Style struct {
	R        *vh.Rand // nil: compact, canonical escapes
	Spaces   bool     // random insignificant whitespace
	Unicode  bool     // sometimes spell characters as \uXXXX
	Shuffle  bool     // permute members of objects (not applied to oneof "!type" placement rules: any order is legal)
	NullsFor []string // unused
}

func quoteJSON(s string, st *Style) string {
	var sb strings.Builder
	sb.WriteByte('"')
	for _, r := range s {
		switch {
		case r == '"':
			sb.WriteString(`\"`)
		case r == '\\':
			sb.WriteString(`\\`)
		case r == '\n':
			sb.WriteString(`\n`)
		case r == '\t':
			sb.WriteString(`\t`)
		case r < 32:
			fmt.Fprintf(&sb, `\u%04x`, r)
		case r == 0xFFFD:
			sb.WriteString(`�`)
		case st != nil && st.Unicode && st.R != nil && st.R.Chance(15):
			if r >= 0x10000 {
				r2 := r - 0x10000
				fmt.Fprintf(&sb, `\u%04x\u%04X`, 0xD800+(r2>>10), 0xDC00+(r2&0x3ff))
			} else {
				fmt.Fprintf(&sb, `\u%04X`, r)
			}
		case r == '/' && st != nil && st.Unicode && st.R != nil && st.R.Chance(30):
			sb.WriteString(`\/`)
		default:
			sb.WriteRune(r)
		}
	}
	sb.WriteByte('"')
	return sb.String()
}

func ws(st *Style) string {
	if st == nil || !st.Spaces || st.R == nil || !st.R.Chance(30) {
		return ""
	}
	return vh.Pick(st.R, []string{" ", "  ", "\n", "\t", "\r\n", " \n "})
}

// Print renders the tree.
func (j *J) Print(st *Style) string {
	var sb strings.Builder
	j.print(&sb, st)
	return sb.String()
}

func (j *J) print(sb *strings.Builder, st *Style) {
	switch j.K {
	case "null":
		sb.WriteString("null")
	case "bool":
		sb.WriteString(strconv.FormatBool(j.B))
	case "num", "raw":
		sb.WriteString(j.S)
	case "str":
		sb.WriteString(quoteJSON(j.S, st))
	case "arr":
		sb.WriteString("[" + ws(st))
		for i, it := range j.Items {
			if i > 0 {
				sb.WriteString(ws(st) + "," + ws(st))
			}
			it.print(sb, st)
		}
		sb.WriteString(ws(st) + "]")
	case "obj":
		ms := j.Members
		if j.Ty != nil && j.Ty.Class == "any" && st != nil && st.Shuffle {
			// the value of an any is stored as text: member order inside it is significant
			st2 := *st
			st2.Shuffle = false
			st = &st2
		}
		if st != nil && st.Shuffle && st.R != nil && len(ms) > 1 {
			ms = append([]*Member(nil), ms...)
			for i := len(ms) - 1; i > 0; i-- {
				k := st.R.Intn(i + 1)
				ms[i], ms[k] = ms[k], ms[i]
			}
		}
		sb.WriteString("{" + ws(st))
		for i, m := range ms {
			if i > 0 {
				sb.WriteString(ws(st) + "," + ws(st))
			}
			sb.WriteString(quoteJSON(m.Key, st) + ws(st) + ":" + ws(st))
			m.Val.print(sb, st)
		}
		sb.WriteString(ws(st) + "}")
	}
}

// ---------------------------------------------------------------- generator

// Gen draws documents for an environment.
type Gen struct {
	R        *vh.Rand
	Env      *Env
	MaxDepth int
	// Canonical: only the spellings the encoder itself produces
	Canonical bool
	// PropChance is the percentage with which an object property is present
	PropChance int
	// AnyTypes are type names to use in "!type" of any-values
	AnyTypes []string
	// Budget bounds the number of values generated for one document (0: 150)
	Budget int
	used   int
}

func NewGen(r *vh.Rand, env *Env) *Gen {
	return &Gen{R: r, Env: env, MaxDepth: 4, PropChance: 35}
}

// Root generates a document for the root schema.
func (g *Gen) Root() *J {
	g.used = 0
	if g.Budget == 0 {
		g.Budget = 150
	}
	return g.Container(g.Env.Lookup(g.Env.Root), 0)
}

func (g *Gen) Container(s *Schema, depth int) *J {
	switch s.Class {
	case "object":
		return g.Object(s, depth)
	case "oneof":
		return g.Oneof(s, depth)
	}
	return Null()
}

func (g *Gen) heavy(t *Ty) bool {
	switch t.Class {
	case "object", "oneof", "any":
		return true
	case "array", "map":
		return g.heavy(t.Item)
	}
	return false
}

func (g *Gen) Object(s *Schema, depth int) *J {
	o := Obj()
	o.Schema = s
	for _, p := range s.Props {
		chance := g.PropChance
		if (depth >= g.MaxDepth || g.used > g.Budget) && g.heavy(p.Ty) {
			continue
		}
		if g.used > 2*g.Budget {
			break
		}
		if g.Canonical && (p.Ty.Class == "any" && p.Ty.PB || p.Ty.Unsupported != "" || (p.Ty.Item != nil && p.Ty.Item.Unsupported != "")) {
			continue // google.protobuf.Any needs the WithProtoToAny codec option
		}
		if depth > 0 {
			chance = chance * 3 / 2
			if n := len(s.Props); n > 12 {
				chance = chance * 12 / n
				if chance < 2 {
					chance = 2
				}
			}
		}
		if !g.R.Chance(chance) {
			continue
		}
		// members of one unexposed proto oneof exclude each other
		clash := false
		for _, m := range o.Members {
			for _, q := range s.Props {
				if q.JSON == m.Key && len(p.Siblings) > 0 && len(q.Path) == len(p.Path) && len(q.Path) > 0 {
					for _, sib := range p.Siblings {
						if sib == q.Path[len(q.Path)-1] && samePrefix(p.Path, q.Path) {
							clash = true
						}
					}
				}
			}
		}
		if clash {
			continue
		}
		o.Add(p.JSON, g.Value(p.Ty, depth+1))
	}
	return o
}

func samePrefix(a, b []int32) bool {
	for i := 0; i < len(a)-1; i++ {
		if a[i] != b[i] {
			return false
		}
	}
	return true
}

func (g *Gen) Oneof(s *Schema, depth int) *J {
	o := Obj()
	o.Schema = s
	if len(s.Props) == 0 || g.R.Chance(8) {
		return o
	}
	var cands []*Prop
	for _, p := range s.Props {
		if depth >= g.MaxDepth && g.heavy(p.Ty) {
			continue
		}
		cands = append(cands, p)
	}
	if len(cands) == 0 {
		return o
	}
	p := vh.Pick(g.R, cands)
	withType := g.Canonical || g.R.Chance(50)
	if withType && (g.Canonical || g.R.Bool()) {
		o.Add("!type", Str(p.JSON))
		withType = false
	}
	o.Add(p.JSON, g.Value(p.Ty, depth+1))
	if withType {
		o.Add("!type", Str(p.JSON))
	}
	return o
}

func (g *Gen) Value(t *Ty, depth int) *J {
	g.used++
	var j *J
	switch t.Class {
	case "scalar":
		j = g.Scalar(t.Kind)
	case "enum":
		s := g.Env.Lookup(t.Ref)
		if t.Unsupported != "" {
			j = Str(vh.Pick(g.R, []string{"90s", "1.5s", "", "1h"}))
		} else if len(s.Options) == 0 {
			j = Str("")
		} else {
			o := vh.Pick(g.R, s.Options)
			if !g.Canonical && g.R.Chance(40) && !s.PrefixedIsShort(o.Name) {
				j = Str(s.Prefix + o.Name)
			} else {
				j = Str(o.Name)
			}
		}
	case "object", "oneof":
		j = g.Container(g.Env.Lookup(t.Ref), depth)
	case "array":
		j = Arr()
		n := g.R.Intn(4)
		if depth >= g.MaxDepth && g.heavy(t.Item) {
			n = 0
		}
		for i := 0; i < n; i++ {
			j.Items = append(j.Items, g.Value(t.Item, depth+1))
		}
	case "map":
		j = Obj()
		n := g.R.Intn(4)
		if depth >= g.MaxDepth && g.heavy(t.Item) {
			n = 0
		}
		for i := 0; i < n; i++ {
			k := vh.Pick(g.R, []string{"a", "b", "key", "K-1", "", "ü", "x.y", "!type"})
			dup := false
			for _, m := range j.Members {
				if m.Key == k {
					dup = true
				}
			}
			if dup {
				continue
			}
			j.Add(k, g.Value(t.Item, depth+1))
		}
	case "any":
		j = Obj()
		tn := "test.schema.v1.Bar"
		if len(g.AnyTypes) > 0 {
			tn = vh.Pick(g.R, g.AnyTypes)
		}
		j.Add("!type", Str(tn))
		inner := Obj().Add("barId", Str(g.text())).Add("n", Num(vh.Pick(g.R, []string{"1", "-2.50", "1e3"})))
		if g.R.Chance(30) {
			inner.Add("deep", Arr(Obj().Add("k", Null()), Bool(true), Str("a\"b")))
		}
		j.Add("value", inner)
	default:
		j = Null()
	}
	j.Ty = t
	return j
}

var texts = []string{"", "a", "nameVal", "hello world", "quote\"d", "back\\slash", "tab\there", "line\nbreak",
	"ünïcödé", "日本語", "emoji 😀", "\u0000nul", "\u001f", "/slash/", "<html>&amp;", "�", "ab cd", "123", "true", "null"}

func (g *Gen) text() string {
	if g.R.Chance(20) {
		n := g.R.Intn(12)
		b := make([]rune, n)
		for i := range b {
			switch g.R.Intn(6) {
			case 0:
				b[i] = rune(g.R.Range(0x20, 0x7e))
			case 1:
				b[i] = rune(g.R.Range(0xa0, 0x7ff))
			case 2:
				b[i] = rune(g.R.Range(0x800, 0xd7ff))
			case 3:
				b[i] = rune(g.R.Range(0x10000, 0x10ffff))
			default:
				b[i] = rune(g.R.Range('a', 'z'))
			}
		}
		return string(b)
	}
	return vh.Pick(g.R, texts)
}

func (g *Gen) quoteMaybe(lit string, canonicalQuoted bool) *J {
	q := canonicalQuoted
	if !g.Canonical && g.R.Chance(40) {
		q = !q
	}
	if q {
		return Str(lit)
	}
	return Num(lit)
}

func (g *Gen) int64In(lo, hi int64) int64 {
	switch g.R.Intn(6) {
	case 0:
		return vh.Pick(g.R, []int64{lo, hi, 0, 1, -1, lo + 1, hi - 1})
	case 1:
		return int64(g.R.Range(-100, 100))
	default:
		span := uint64(hi - lo)
		if span == math.MaxUint64 {
			return int64(g.R.U64())
		}
		return lo + int64(g.R.U64()%(span+1))
	}
}

func clampInt(v, lo, hi int64) int64 {
	if v < lo {
		return lo
	}
	if v > hi {
		return hi
	}
	return v
}

// Scalar draws a valid value of the kind in one of its accepted spellings.
func (g *Gen) Scalar(k Kind) *J {
	switch k {
	case "KInt32":
		return g.quoteMaybe(strconv.FormatInt(clampInt(g.int64In(math.MinInt32, math.MaxInt32), math.MinInt32, math.MaxInt32), 10), false)
	case "KInt64":
		return g.quoteMaybe(strconv.FormatInt(g.int64In(math.MinInt64, math.MaxInt64), 10), true)
	case "KUint32":
		return g.quoteMaybe(strconv.FormatInt(clampInt(g.int64In(0, math.MaxUint32), 0, math.MaxUint32), 10), false)
	case "KUint64":
		var v uint64
		switch g.R.Intn(4) {
		case 0:
			v = vh.Pick(g.R, []uint64{0, 1, math.MaxInt64, math.MaxInt64 + 1, math.MaxUint64})
		case 1:
			v = uint64(g.R.Intn(1000))
		default:
			v = g.R.U64()
		}
		return g.quoteMaybe(strconv.FormatUint(v, 10), true)
	case "KFloat32", "KFloat64":
		var lit string
		switch g.R.Intn(5) {
		case 0:
			lit = vh.Pick(g.R, []string{"0", "-0", "1.5", "-2.25", "1e10", "1E-5", "3.4028234e38", "0.1", "100", "1.0", "123456.789"})
		case 1:
			lit = strconv.FormatFloat(float64(float32(math.Float32frombits(uint32(g.R.U64())&0x7f7fffff|uint32(g.R.U64())&0x80000000))), 'g', -1, 32)
		case 2:
			lit = strconv.FormatFloat(float64(g.R.Range(-1000000, 1000000))/1000, 'f', -1, 64)
		case 3:
			if k == "KFloat64" {
				f := math.Float64frombits(g.R.U64())
				if math.IsNaN(f) || math.IsInf(f, 0) {
					f = 1
				}
				lit = strconv.FormatFloat(f, 'g', -1, 64)
			} else {
				lit = "16777217"
			}
		default:
			lit = strconv.Itoa(g.R.Range(-50, 50))
		}
		return g.quoteMaybe(lit, false)
	case "KBool":
		return Bool(g.R.Bool())
	case "KString", "KKey":
		return Str(g.text())
	case "KBytes":
		b := g.R.Bytes(g.R.Intn(9))
		if g.Canonical {
			return Str(base64.StdEncoding.EncodeToString(b))
		}
		switch g.R.Intn(4) {
		case 0:
			return Str(base64.StdEncoding.EncodeToString(b))
		case 1:
			return Str(base64.RawStdEncoding.EncodeToString(b))
		case 2:
			return Str(base64.URLEncoding.EncodeToString(b))
		default:
			return Str(base64.RawURLEncoding.EncodeToString(b))
		}
	case "KDate":
		y, m, d := g.R.Range(1, 9999), g.R.Range(1, 12), g.R.Range(1, 28)
		if g.R.Chance(30) {
			y = g.R.Range(1990, 2030)
		}
		return Str(fmt.Sprintf("%04d-%02d-%02d", y, m, d))
	case "KDecimal":
		var lit string
		pick := g.R.Intn(4)
		if g.Canonical && pick == 0 {
			pick = 1
			if g.R.Bool() {
				return Str(vh.Pick(g.R, []string{"0", "1.50", "-0.001", "100", "123456789012345678901234567890.123456789", "-7"}))
			}
		}
		switch pick {
		case 0:
			lit = vh.Pick(g.R, []string{"0", "1.50", "-0.001", "100", "123456789012345678901234567890.123456789", "1e3", "-1E-2", ".5", "5."})
		default:
			lit = fmt.Sprintf("%d.%02d", g.R.Range(-1000, 1000), g.R.Intn(100))
		}
		if g.Canonical {
			return Str(lit)
		}
		return Str(lit)
	case "KTimestamp":
		sec := int64(g.R.Range(-2000000000, 4000000000))
		if g.R.Chance(10) {
			sec = vh.Pick(g.R, []int64{0, -62135596800, 253402300799, 1})
		}
		t := time.Unix(sec, 0).UTC()
		if g.R.Chance(40) {
			t = t.Add(time.Duration(g.R.Intn(1000000000)))
		}
		if !g.Canonical && g.R.Chance(40) {
			off := g.R.Range(-14*60, 14*60) * 60
			if l := t.In(time.FixedZone("", off)); l.Year() >= 1 && l.Year() <= 9999 {
				t = l
			}
		}
		return Str(t.Format(time.RFC3339Nano))
	}
	return Null()
}

// ---------------------------------------------------------------- tree walks

// Node is a position in a document: the value, and how to replace it.
type Node struct {
	J      *J
	Parent *J
	Index  int // index in Parent.Items or Parent.Members
	Where  string
}

// Walk lists every value position below (and including) the root.
func Walk(root *J) []Node {
	var out []Node
	var rec func(j, parent *J, idx int, where string)
	rec = func(j, parent *J, idx int, where string) {
		out = append(out, Node{j, parent, idx, where})
		for i, it := range j.Items {
			rec(it, j, i, "array element")
		}
		for i, m := range j.Members {
			w := "nested object"
			if j.Schema != nil && j.Schema.Class == "oneof" {
				w = "oneof arm"
			} else if j.Ty != nil && j.Ty.Class == "map" {
				w = "map value"
			} else if parent == nil {
				w = "top level"
			}
			rec(m.Val, j, i, w)
		}
	}
	rec(root, nil, 0, "root")
	return out
}

// Replace puts v at the node's position.
func (n Node) Replace(v *J) {
	if n.Parent == nil {
		return
	}
	if n.Parent.K == "arr" {
		n.Parent.Items[n.Index] = v
	} else {
		n.Parent.Members[n.Index].Val = v
	}
}

package codecgen

import (
	"encoding/base64"
	"fmt"
	"strings"
	"time"

	"verifharness/vh"
)

// ---------------------------------------------------------------- documented spelling variations

// Respell returns a copy of a canonical document in which a random subset of
// leaves is written in another documented spelling, members of (non-oneof...)
// objects may be permuted by the printer, and explicit nulls are added for
// absent members. kinds lists the variations applied ("int64 bare", ...).
func Respell(r *vh.Rand, env *Env, root *J) (*J, []string) {
	c := root.Clone()
	var kinds []string
	for _, n := range Walk(c) {
		j := n.J
		if j.Ty == nil || n.Parent == nil {
			continue
		}
		if j.Ty.Class == "scalar" && r.Chance(60) {
			switch j.Ty.Kind {
			case "KInt32", "KUint32", "KFloat32", "KFloat64":
				if j.K == "num" {
					j.K = "str"
					kinds = append(kinds, strings.ToLower(string(j.Ty.Kind)[1:])+" quoted")
				}
			case "KInt64", "KUint64":
				if j.K == "str" {
					j.K = "num"
					kinds = append(kinds, strings.ToLower(string(j.Ty.Kind)[1:])+" bare")
				}
			case "KDecimal":
				if j.K == "str" && numRe.MatchString(j.S) {
					j.K = "num"
					kinds = append(kinds, "decimal bare")
				}
			case "KBytes":
				b, err := base64.StdEncoding.DecodeString(j.S)
				if err == nil {
					switch r.Intn(3) {
					case 0:
						j.S = base64.RawStdEncoding.EncodeToString(b)
						kinds = append(kinds, "bytes std unpadded")
					case 1:
						j.S = base64.URLEncoding.EncodeToString(b)
						kinds = append(kinds, "bytes url padded")
					default:
						j.S = base64.RawURLEncoding.EncodeToString(b)
						kinds = append(kinds, "bytes url unpadded")
					}
				}
			case "KTimestamp":
				t, err := time.Parse(time.RFC3339Nano, j.S)
				if err == nil {
					off := r.Range(-14*60, 14*60) * 60
					if l := t.In(time.FixedZone("", off)); l.Year() >= 1 && l.Year() <= 9999 {
						j.S = l.Format(time.RFC3339Nano)
						kinds = append(kinds, "timestamp at an offset")
					}
				}
			}
		}
		if j.Ty.Class == "enum" && j.K == "str" && r.Chance(60) {
			s := env.Lookup(j.Ty.Ref)
			for _, o := range s.Options {
				if j.S == o.Name && !s.PrefixedIsShort(o.Name) {
					j.S = s.Prefix + o.Name
					kinds = append(kinds, "enum with prefix")
					break
				}
			}
		}
	}
	// explicit nulls for absent members
	for _, n := range Walk(c) {
		j := n.J
		if j.K != "obj" || j.Schema == nil || j.Schema.Class != "object" || !r.Chance(40) {
			continue
		}
		for _, p := range j.Schema.Props {
			present := false
			for _, m := range j.Members {
				if m.Key == p.JSON {
					present = true
				}
			}
			if !present && r.Chance(25) {
				pos := r.Intn(len(j.Members) + 1)
				nm := &Member{p.JSON, Null()}
				j.Members = append(j.Members[:pos], append([]*Member{nm}, j.Members[pos:]...)...)
				kinds = append(kinds, "explicit null for an absent member")
			}
		}
	}
	return c, kinds
}

// ---------------------------------------------------------------- fault injection

// Fault describes one injected fault.
type Fault struct {
	Class string // one of the property's fault classes
	Where string // top level / nested object / array element / map value / oneof arm
	Kind  string // field kind at the position
}

func tyName(t *Ty) string {
	if t == nil {
		return "root"
	}
	switch t.Class {
	case "scalar":
		return strings.ToLower(string(t.Kind)[1:])
	case "array", "map":
		return t.Class + " of " + tyName(t.Item)
	}
	return t.Class
}

// position classes of the property's quantifier
func whereOf(root *J, n Node) string {
	if n.Parent == nil {
		return "top level"
	}
	p := n.Parent
	switch {
	case p.K == "arr":
		return "array element"
	case p.Ty != nil && p.Ty.Class == "map":
		return "map value"
	case p.Schema != nil && p.Schema.Class == "oneof":
		return "oneof arm"
	case p == root:
		return "top level"
	}
	return "nested object"
}

var wrongTypeFor = map[string][]func() *J{
	"str":  {func() *J { return Num("1") }, func() *J { return Bool(true) }, func() *J { return Arr() }, func() *J { return Obj() }},
	"num":  {func() *J { return Bool(false) }, func() *J { return Arr(Num("1")) }, func() *J { return Obj() }},
	"bool": {func() *J { return Num("1") }, func() *J { return Str("true") }, func() *J { return Arr() }},
	"arr":  {func() *J { return Num("1") }, func() *J { return Str("x") }, func() *J { return Obj() }, func() *J { return Bool(true) }},
	"obj":  {func() *J { return Num("1") }, func() *J { return Str("x") }, func() *J { return Arr() }, func() *J { return Bool(true) }},
}

// InjectFault returns a copy of a valid document with exactly one fault from
// the property's list at a random position, or nil when the document offers no
// position for any class.
func InjectFault(r *vh.Rand, env *Env, root *J) (*J, *Fault) {
	for attempt := 0; attempt < 12; attempt++ {
		c := root.Clone()
		nodes := Walk(c)
		class := vh.Pick(r, []string{"wrong JSON type", "wrong JSON type", "unparsable number", "out-of-range number", "invalid base64", "invalid date",
			"invalid decimal", "invalid timestamp", "unknown enum name", "unknown key", "unknown key", "more than one key in a oneof", `"!type" contradicts the key present`})
		var cands []Node
		for _, n := range nodes {
			j := n.J
			t := j.Ty
			switch class {
			case "wrong JSON type":
				if n.Parent != nil && t != nil && t.Class != "any" && j.K != "null" {
					cands = append(cands, n)
				}
			case "unparsable number", "out-of-range number":
				if t != nil && t.Class == "scalar" && strings.Contains("KInt32 KInt64 KUint32 KUint64 KFloat32 KFloat64", string(t.Kind)) && n.Parent != nil {
					cands = append(cands, n)
				}
			case "invalid base64":
				if t != nil && t.Class == "scalar" && t.Kind == "KBytes" {
					cands = append(cands, n)
				}
			case "invalid date":
				if t != nil && t.Class == "scalar" && t.Kind == "KDate" {
					cands = append(cands, n)
				}
			case "invalid decimal":
				if t != nil && t.Class == "scalar" && t.Kind == "KDecimal" {
					cands = append(cands, n)
				}
			case "invalid timestamp":
				if t != nil && t.Class == "scalar" && t.Kind == "KTimestamp" {
					cands = append(cands, n)
				}
			case "unknown enum name":
				if t != nil && t.Class == "enum" {
					cands = append(cands, n)
				}
			case "unknown key":
				if j.K == "obj" && j.Schema != nil {
					cands = append(cands, n)
				}
			case "more than one key in a oneof", `"!type" contradicts the key present`:
				if j.K == "obj" && j.Schema != nil && j.Schema.Class == "oneof" && len(j.Schema.Props) > 1 {
					has := false
					for _, m := range j.Members {
						if m.Key != "!type" {
							has = true
						}
					}
					if has {
						cands = append(cands, n)
					}
				}
			}
		}
		if len(cands) == 0 {
			continue
		}
		n := vh.Pick(r, cands)
		j := n.J
		f := &Fault{Class: class, Where: whereOf(c, n), Kind: tyName(j.Ty)}
		keep := func(v *J) *J { v.Ty = j.Ty; return v }
		switch class {
		case "wrong JSON type":
			k := j.K
			if j.Ty.Class == "scalar" {
				switch j.Ty.Kind {
				case "KInt32", "KInt64", "KUint32", "KUint64", "KFloat32", "KFloat64", "KDecimal":
					k = "num" // both num and str are legal: use a type that is neither
				}
			}
			n.Replace(keep(vh.Pick(r, wrongTypeFor[k])()))
		case "unparsable number":
			lit := vh.Pick(r, []string{"abc", "", "1x", "--1", "1.2.3", "0x10", "1,5", "١٢", "one"})
			if strings.HasPrefix(string(j.Ty.Kind), "KInt") || strings.HasPrefix(string(j.Ty.Kind), "KUint") {
				lit = vh.Pick(r, []string{"abc", "", "1x", "--1", "1.5", "0x10", "1,5", "0.1", "one"})
				if r.Chance(25) {
					n.Replace(keep(Num(vh.Pick(r, []string{"1.5", "0.1", "-2.25", "1e-1"}))))
					break
				}
			}
			n.Replace(keep(Str(lit)))
		case "out-of-range number":
			var lit string
			switch j.Ty.Kind {
			case "KInt32":
				lit = vh.Pick(r, []string{"2147483648", "-2147483649", "99999999999", "1e10"})
			case "KInt64":
				lit = vh.Pick(r, []string{"9223372036854775808", "-9223372036854775809", "1e19"})
			case "KUint32":
				lit = vh.Pick(r, []string{"4294967296", "-1", "1e10"})
			case "KUint64":
				lit = vh.Pick(r, []string{"18446744073709551616", "-1", "1e20"})
			case "KFloat32":
				lit = vh.Pick(r, []string{"3.5e38", "-1e39", "1e400"})
			case "KFloat64":
				lit = vh.Pick(r, []string{"1e309", "-1.8e308", "1e400"})
			}
			if r.Bool() && !strings.ContainsAny(lit, "e") {
				n.Replace(keep(Str(lit)))
			} else {
				n.Replace(keep(Num(lit)))
			}
		case "invalid base64":
			n.Replace(keep(Str(vh.Pick(r, []string{"****", "A", "AQ=", "AQID=", "A===", "AQ==AQ==", "é", "AQ I"}))))
		case "invalid date":
			n.Replace(keep(Str(vh.Pick(r, []string{"2024-13-45", "2024-02-30", "2023-02-29", "2024-00-10", "2024-01-00", "2024-01", "01/02/2024", "2024-01-02-03", "yesterday", ""}))))
		case "invalid decimal":
			n.Replace(keep(Str(vh.Pick(r, []string{"abc", "1.2.3", "", "1,5", "--1", "1x", "$5"}))))
		case "invalid timestamp":
			n.Replace(keep(Str(vh.Pick(r, []string{"2020-13-01T00:00:00Z", "2020-02-30T00:00:00Z", "2020-01-01T25:00:00Z", "2020-01-01T00:61:00Z", "2020-01-01", "yesterday", "", "2020-01-01T00:00:00", "1577836800", "2020-01-01T00:00:00+25:00"}))))
		case "unknown enum name":
			// names that look like options but are not in the schema: the dropped zero option of a no_default enum,
			// with and without the prefix (for other enums the reader sees a valid name and the case is not judged)
			names := []string{"NOPE", "", "value1", "ENUM_", "MODE_", "UNSPECIFIED_X", "0", "1", "UNSPECIFIED", "unspecified"}
			if es := env.Lookup(j.Ty.Ref); es != nil {
				names = append(names, es.Prefix+"UNSPECIFIED", es.Prefix+"UNSPECIFIED", es.Prefix, es.Prefix+es.Prefix)
				for _, o := range es.Options {
					names = append(names, strings.ToLower(o.Name), es.Prefix+es.Prefix+o.Name, o.Name+" ")
				}
			}
			n.Replace(keep(Str(vh.Pick(r, names))))
		case "unknown key":
			key := vh.Pick(r, []string{"unknown", "s_string", "", "SString", "x.y", "!other"})
			if j.Schema.Class == "oneof" && len(j.Members) > 0 {
				// replace the arm rather than adding a second key
				for i, m := range j.Members {
					if m.Key != "!type" {
						j.Members[i] = &Member{key, m.Val}
					}
				}
				// "!type" naming the old arm would be a second fault
				var ms []*Member
				for _, m := range j.Members {
					if m.Key != "!type" {
						ms = append(ms, m)
					}
				}
				j.Members = ms
			} else {
				pos := r.Intn(len(j.Members) + 1)
				nm := &Member{key, vh.Pick(r, []*J{Num("1"), Str("x"), Null(), Obj(), Arr()})}
				if nm.Val.K == "null" {
					nm.Val = Str("x")
				}
				j.Members = append(j.Members[:pos], append([]*Member{nm}, j.Members[pos:]...)...)
			}
			f.Kind = j.Schema.Class
		case "more than one key in a oneof":
			var present string
			for _, m := range j.Members {
				if m.Key != "!type" {
					present = m.Key
				}
			}
			var others []*Prop
			for _, p := range j.Schema.Props {
				if p.JSON != present && p.Ty.Class == "scalar" || p.JSON != present && p.Ty.Class == "enum" {
					others = append(others, p)
				}
			}
			if len(others) == 0 {
				continue
			}
			p := vh.Pick(r, others)
			g := NewGen(r, env)
			g.Canonical = true
			j.Add(p.JSON, g.Value(p.Ty, 99))
			f.Kind = "oneof"
		case `"!type" contradicts the key present`:
			var present string
			var ms []*Member
			for _, m := range j.Members {
				if m.Key != "!type" {
					present = m.Key
					ms = append(ms, m)
				}
			}
			var others []string
			for _, p := range j.Schema.Props {
				if p.JSON != present {
					others = append(others, p.JSON)
				}
			}
			t := &Member{"!type", Str(vh.Pick(r, others))}
			if r.Bool() {
				ms = append([]*Member{t}, ms...)
			} else {
				ms = append(ms, t)
			}
			j.Members = ms
			f.Kind = "oneof"
		}
		return c, f
	}
	return nil, nil
}

func (f *Fault) String() string { return fmt.Sprintf("%s at %s (%s)", f.Class, f.Where, f.Kind) }

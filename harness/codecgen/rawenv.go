package codecgen

// rawenv.go (encoder family): the schema environment BEFORE the reflector's two derivation steps
// that C08 speaks about — enum values under their full proto names (buildEnum trims the prefix) and
// ObjectSchema.Properties with the flatten marks (ClientProperties hoists the children). Rendered
// as a term of model/CodecEnvDerive.v rawenv; the Coq side recomputes the client environment from
// it (derive_env) and compares with the dump of the real ClientProperties / EnumSchema.Options.

import (
	"fmt"
	"strings"

	"github.com/pentops/j5/gen/j5/ext/v1/ext_j5pb"
	"github.com/pentops/j5/lib/j5schema"
	"google.golang.org/protobuf/proto"
	"google.golang.org/protobuf/reflect/protoreflect"
)

// BuildRawEnv is BuildEnv over ObjectSchema.Properties (no hoisting).
func BuildRawEnv(desc protoreflect.MessageDescriptor) (*Env, error) {
	cache := j5schema.NewSchemaCache()
	root, err := cache.Schema(desc)
	if err != nil {
		return nil, err
	}
	e := &Env{byName: map[string]*Schema{}, byPtr: map[j5schema.RootSchema]string{}, Raw: true}
	name, err := e.visit(root, desc)
	if err != nil {
		return nil, err
	}
	e.Root = name
	return e, nil
}

// RawCoq renders a raw environment as a CodecEnvDerive.rawenv term.
func (e *Env) RawCoq() string {
	var sb strings.Builder
	sb.WriteString("[\n")
	for i, s := range e.Schemas {
		if i > 0 {
			sb.WriteString(";\n")
		}
		fmt.Fprintf(&sb, " (%s,\n  ", BytesTerm(s.Name))
		switch s.Class {
		case "object":
			sb.WriteString("RObject [")
			for j, p := range s.Props {
				if j > 0 {
					sb.WriteString(";")
				}
				fmt.Fprintf(&sb, "\n   (%s, %s)", p.Coq(), boolTerm(p.Flatten))
			}
			sb.WriteString("])")
		case "oneof":
			sb.WriteString("ROneof [")
			for j, p := range s.Props {
				if j > 0 {
					sb.WriteString(";")
				}
				sb.WriteString("\n   " + p.Coq())
			}
			sb.WriteString("])")
		case "enum":
			ed := e.EnumDesc[s.Name]
			if ed == nil {
				// the marker schema of a type the codec cannot carry: kept as it is
				fmt.Fprintf(&sb, "RKeep (SEnum %s [", BytesTerm(s.Prefix))
				for j, o := range s.Options {
					if j > 0 {
						sb.WriteString(";")
					}
					fmt.Fprintf(&sb, "(%s, (%d)%%Z)", BytesTerm(o.Name), o.Number)
				}
				sb.WriteString("]))")
				break
			}
			nodef := false
			if o, ok := proto.GetExtension(ed.Options(), ext_j5pb.E_Enum).(*ext_j5pb.EnumOptions); ok && o != nil && o.NoDefault {
				nodef = true
			}
			fmt.Fprintf(&sb, "REnum %s [", boolTerm(nodef))
			for j := 0; j < ed.Values().Len(); j++ {
				if j > 0 {
					sb.WriteString(";")
				}
				v := ed.Values().Get(j)
				fmt.Fprintf(&sb, "(%s, (%d)%%Z)", BytesTerm(string(v.Name())), v.Number())
			}
			sb.WriteString("])")
		}
	}
	sb.WriteString("\n]")
	return sb.String()
}

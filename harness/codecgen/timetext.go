package codecgen

import (
	"fmt"
	"strings"
	"time"

	"verifharness/vh"
)

// TimeText draws one timestamp text: a valid RFC 3339 text of a random instant in years 0..9999 in
// one of the forms Go's time.Parse(time.RFC3339, ·) is known to accept (offsets, fractions after '.'
// or ',', one-digit hours), or a near miss (field out of range, day the month does not have, lower
// case letters, missing or malformed zone, extra text, a byte edit).
func TimeText(r *vh.Rand) string {
	year := r.Range(0, 9999)
	if r.Chance(20) {
		year = vh.Pick(r, []int{0, 1, 1600, 1900, 1970, 2000, 2024, 2100, 9999})
	}
	month := r.Range(1, 12)
	dim := []int{31, 28, 31, 30, 31, 30, 31, 31, 30, 31, 30, 31}[month-1]
	day := r.Range(1, dim)
	if r.Chance(25) {
		month = 2
		day = vh.Pick(r, []int{28, 29, 30})
	}
	if r.Chance(10) {
		day = vh.Pick(r, []int{0, 29, 30, 31, 32})
	}
	if r.Chance(6) {
		month = vh.Pick(r, []int{0, 13, 12, 1})
	}
	hour, min, sec := r.Range(0, 23), r.Range(0, 59), r.Range(0, 59)
	if r.Chance(8) {
		hour = vh.Pick(r, []int{0, 23, 24, 25})
	}
	if r.Chance(8) {
		min = vh.Pick(r, []int{0, 59, 60})
	}
	if r.Chance(8) {
		sec = vh.Pick(r, []int{0, 59, 60, 61})
	}
	hs := fmt.Sprintf("%02d", hour)
	if hour < 10 && r.Chance(15) {
		hs = fmt.Sprintf("%d", hour)
	}
	frac := ""
	if r.Chance(45) {
		n := vh.Pick(r, []int{1, 2, 3, 6, 9, 9, 10, 12, 20})
		var sb strings.Builder
		for i := 0; i < n; i++ {
			sb.WriteByte(byte('0' + r.Intn(10)))
		}
		sep := "."
		if r.Chance(20) {
			sep = ","
		}
		if r.Chance(5) {
			sep = vh.Pick(r, []string{":", ";", " ", ""})
		}
		frac = sep + sb.String()
		if r.Chance(4) {
			frac = sep
		}
	}
	zone := "Z"
	switch {
	case r.Chance(50):
		sign := vh.Pick(r, []string{"+", "-"})
		zh, zm := r.Range(0, 14), vh.Pick(r, []int{0, 0, 30, 45, 59})
		if r.Chance(12) {
			zh = vh.Pick(r, []int{23, 24, 25, 99})
		}
		if r.Chance(8) {
			zm = vh.Pick(r, []int{59, 60, 61, 99})
		}
		zone = fmt.Sprintf("%s%02d:%02d", sign, zh, zm)
		if r.Chance(6) {
			zone = vh.Pick(r, []string{fmt.Sprintf("%s%02d%02d", sign, zh, zm), fmt.Sprintf("%s%02d", sign, zh), fmt.Sprintf("%s%d:%02d", sign, zh%10, zm), fmt.Sprintf(" %02d:%02d", zh, zm), fmt.Sprintf("%s%02d:%02d:00", sign, zh, zm), fmt.Sprintf("%s%02d.%02d", sign, zh, zm)})
		}
	case r.Chance(10):
		zone = vh.Pick(r, []string{"", "z", "UTC", "ZZ", "Z ", " Z", "+", "GMT", "Z+00:00"})
	}
	t := "T"
	if r.Chance(4) {
		t = vh.Pick(r, []string{"t", " ", "", "TT"})
	}
	ys := fmt.Sprintf("%04d", year)
	if r.Chance(4) {
		ys = vh.Pick(r, []string{fmt.Sprintf("%d", year), fmt.Sprintf("+%03d", year%1000), fmt.Sprintf("-%03d", year%1000), fmt.Sprintf("%05d", year), " " + fmt.Sprintf("%03d", year%1000)})
	}
	s := fmt.Sprintf("%s-%02d-%02d%s%s:%02d:%02d%s%s", ys, month, day, t, hs, min, sec, frac, zone)
	if r.Chance(5) {
		s = fmt.Sprintf("%s-%d-%d%s%s:%d:%d%s%s", ys, month, day, t, hs, min, sec, frac, zone)
	}
	if r.Chance(6) {
		s = ByteMutation(s, r)
	}
	if r.Chance(3) {
		s = s[:r.Intn(len(s)+1)]
	}
	return s
}

// TimeTerm is the Coq term of what time.Parse(time.RFC3339, s) returns.
func TimeTerm(s string) (term string, ok bool) {
	t, err := time.Parse(time.RFC3339, s)
	if err != nil {
		return "None", false
	}
	return fmt.Sprintf("(Some ((%d)%%Z, (%d)%%Z))", t.Unix(), t.Nanosecond()), true
}

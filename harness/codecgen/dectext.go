package codecgen

import (
	"fmt"
	"strings"

	"verifharness/vh"
)

// DecimalText draws one decimal text: sign, digits, optional point, optional exponent in the forms
// decimal.NewFromString is known to accept, or a near miss (two points, empty mantissa or exponent,
// exponent out of the int32 range, foreign characters, a byte edit).
func DecimalText(r *vh.Rand) string {
	digits := func(n int) string {
		var sb strings.Builder
		for i := 0; i < n; i++ {
			sb.WriteByte(byte('0' + r.Intn(10)))
		}
		return sb.String()
	}
	sign := vh.Pick(r, []string{"", "", "", "-", "-", "+"})
	ip := digits(vh.Pick(r, []int{0, 1, 1, 2, 3, 6, 17, 18, 19, 25, 40}))
	if r.Chance(20) {
		ip = strings.Repeat("0", r.Intn(4)) + ip
	}
	fp := ""
	if r.Chance(55) {
		fp = "." + digits(vh.Pick(r, []int{0, 1, 2, 3, 6, 12, 18, 19, 30}))
		if r.Chance(25) {
			fp += strings.Repeat("0", r.Range(1, 5))
		}
	}
	ex := ""
	if r.Chance(35) {
		e := vh.Pick(r, []string{"e", "E"})
		es := vh.Pick(r, []string{"", "", "-", "+"})
		ev := vh.Pick(r, []string{"0", "1", "2", "5", "10", "18", "19", "30", "999", "1000", "1001", "4999", "2147483647", "2147483648", "99999999999", "007", ""})
		ex = e + es + ev
		if r.Chance(5) {
			ex += vh.Pick(r, []string{"e1", ".5", " ", "x"})
		}
	}
	s := sign + ip + fp + ex
	switch {
	case r.Chance(4):
		s = vh.Pick(r, []string{"", ".", "-", "+", "e", "e5", ".e5", "-.", "1..2", "1.2.3", "--1", "+-1", "1,5", "1_000", "0x10", "NaN", "Inf", "-Infinity", " 1", "1 ", "١٢", "1e", "1e+", "1E-", "1e1e1", "1.e1", ".5", "5.", "-.5", "+.5e-3", "00", "-0", "-0.0", "0.000", "1e-1000", "1e-1001", "123456789012345678", "1234567890123456789", "-999999999999999999", "0.1e2147483647", "0.12e-2147483647", "0.12e-2147483648"})
	case r.Chance(6):
		s = ByteMutation(s, r)
	}
	return s
}

// DecimalTerm is the Coq term of what decimal.NewFromString(s) returns: (String(), Exponent()).
func DecimalTerm(s string) (term string, ok bool) {
	d, err := safeDecimal(s)
	if err != nil {
		return "None", false
	}
	return fmt.Sprintf("(Some (%s, (%d)%%Z))", BytesTerm(d.Canon), d.Exp), true
}

// Package codecgen holds what the codec families (dec: C06 C03, enc: C08 C01)
// share on the Go side: the schema environment the real reflector derives for
// a message type, rendered as a Coq term of model/CodecTypes.v; canonical dumps
// of protoreflect messages as Coq [msg] terms; and seeded generators of
// documents for a schema.
package codecgen

import (
	"fmt"
	"sort"
	"strings"

	"github.com/pentops/j5/gen/j5/schema/v1/schema_j5pb"
	"github.com/pentops/j5/lib/j5schema"
	"google.golang.org/protobuf/reflect/protoreflect"
)

// Kind names are the constructors of CodecTypes.scalar_kind.
type Kind string

// Ty mirrors CodecTypes.field_ty.
type Ty struct {
	Class string // scalar enum object oneof array map any
	Kind  Kind   // scalar
	Ref   string // enum object oneof
	Item  *Ty    // array map
	PB    bool   // any: google.protobuf.Any
	// Unsupported names a well-known type the codec cannot carry (an enum without options in the model)
	Unsupported string
}

type Prop struct {
	JSON     string
	Path     []int32
	Required bool
	Explicit bool
	Siblings []int32
	Ty       *Ty
	// the proto field a value for this property ends up in (nil for an exposed oneof)
	Field protoreflect.FieldDescriptor
	// Flatten: (raw environments only) the object field is marked flatten: ClientProperties replaces it
	// by the client properties of its schema
	Flatten bool
}

type Schema struct {
	Name    string
	Class   string // object oneof enum
	Props   []*Prop
	Prefix  string
	Options []EnumOpt
	Desc    protoreflect.MessageDescriptor // object / oneof
}

type EnumOpt struct {
	Name   string
	Number int32
}

// Env is the closure of schemas reachable from one root message type.
type Env struct {
	Root    string
	Schemas []*Schema // in discovery order, root first
	byName  map[string]*Schema
	byPtr   map[j5schema.RootSchema]string
	// problems found while dumping (assumptions of the model that the schema breaks)
	Problems []string
	// Raw: list ObjectSchema.Properties (before ClientProperties hoists flattened children) instead of
	// ClientProperties(); used by the encoder family's reflector-derivation tie (rawenv.go)
	Raw bool
	// EnumDesc: the proto enum descriptor behind each enum schema that a field refers to
	EnumDesc map[string]protoreflect.EnumDescriptor
}

func (e *Env) Lookup(name string) *Schema { return e.byName[name] }

// BuildEnv derives the environment through the real j5schema reflector.
func BuildEnv(desc protoreflect.MessageDescriptor) (*Env, error) {
	cache := j5schema.NewSchemaCache()
	root, err := cache.Schema(desc)
	if err != nil {
		return nil, err
	}
	e := &Env{byName: map[string]*Schema{}, byPtr: map[j5schema.RootSchema]string{}}
	name, err := e.visit(root, desc)
	if err != nil {
		return nil, err
	}
	e.Root = name
	return e, nil
}

func (e *Env) visit(rs j5schema.RootSchema, desc protoreflect.MessageDescriptor) (string, error) {
	if n, ok := e.byPtr[rs]; ok {
		return n, nil
	}
	name := rs.FullName()
	for i := 1; e.byName[name] != nil; i++ {
		name = fmt.Sprintf("%s#%d", rs.FullName(), i)
	}
	s := &Schema{Name: name, Desc: desc}
	e.byPtr[rs] = name
	e.byName[name] = s
	e.Schemas = append(e.Schemas, s)
	var props []*j5schema.ObjectProperty
	switch st := rs.(type) {
	case *j5schema.ObjectSchema:
		s.Class = "object"
		props = st.ClientProperties()
		if e.Raw {
			props = st.Properties
		}
	case *j5schema.OneofSchema:
		s.Class = "oneof"
		props = st.ClientProperties()
	case *j5schema.EnumSchema:
		s.Class = "enum"
		s.Prefix = st.NamePrefix
		for _, o := range st.Options {
			s.Options = append(s.Options, EnumOpt{Name: o.Name(), Number: o.Number()})
		}
		return name, nil
	default:
		return "", fmt.Errorf("unsupported root schema %T", rs)
	}
	if desc == nil {
		return "", fmt.Errorf("schema %s has no message descriptor", name)
	}
	for _, ps := range props {
		p := &Prop{JSON: ps.JSONName, Required: ps.Required}
		if of, ok := ps.Schema.(*j5schema.ObjectField); ok && of.Flatten {
			p.Flatten = true
		}
		walk := desc
		var fd protoreflect.FieldDescriptor
		for idx, num := range ps.ProtoField {
			p.Path = append(p.Path, int32(num))
			fd = walk.Fields().ByNumber(num)
			if fd == nil {
				return "", fmt.Errorf("%s.%s: field %d not in %s", name, ps.JSONName, num, walk.FullName())
			}
			if idx < len(ps.ProtoField)-1 {
				if fd.Message() == nil || fd.IsList() || fd.IsMap() {
					return "", fmt.Errorf("%s.%s: path through non-message field", name, ps.JSONName)
				}
				if oo := fd.ContainingOneof(); oo != nil && !oo.IsSynthetic() {
					e.Problems = append(e.Problems, fmt.Sprintf("%s.%s: flattened through a oneof member", name, ps.JSONName))
				}
				walk = fd.Message()
			}
		}
		p.Field = fd
		if fd != nil {
			p.Explicit = fd.HasPresence()
			if oo := fd.ContainingOneof(); oo != nil && !oo.IsSynthetic() {
				for i := 0; i < oo.Fields().Len(); i++ {
					sib := oo.Fields().Get(i)
					if sib.Number() != fd.Number() {
						p.Siblings = append(p.Siblings, int32(sib.Number()))
					}
				}
			}
		}
		ty, err := e.ty(ps.Schema, fd, desc)
		if err != nil {
			return "", fmt.Errorf("%s.%s: %w", name, ps.JSONName, err)
		}
		p.Ty = ty
		s.Props = append(s.Props, p)
	}
	return name, nil
}

// unsupported returns the type standing for a scalar the codec has no conversion for:
// an enum schema without options, registered once per well-known type name.
func (e *Env) unsupported(wkt string) *Ty {
	name := "<no codec support: " + wkt + ">"
	if e.byName[name] == nil {
		s := &Schema{Name: name, Class: "enum"}
		e.byName[name] = s
		e.Schemas = append(e.Schemas, s)
	}
	return &Ty{Class: "enum", Ref: name, Unsupported: wkt}
}

func msgOf(fd protoreflect.FieldDescriptor) protoreflect.MessageDescriptor {
	if fd == nil {
		return nil
	}
	if fd.IsMap() {
		return fd.MapValue().Message()
	}
	return fd.Message()
}

func (e *Env) ty(fs j5schema.FieldSchema, fd protoreflect.FieldDescriptor, holder protoreflect.MessageDescriptor) (*Ty, error) {
	switch st := fs.(type) {
	case *j5schema.ScalarSchema:
		if _, isString := st.Proto.Type.(*schema_j5pb.Field_String_); isString && st.WellKnownTypeName != "" {
			// a message-backed "string" scalar (google.protobuf.Duration): the reflector accepts the
			// field but the codec has no conversion for it, so no text is acceptable. In the model this
			// is an enum without options: strings are "not found", other JSON types are type errors,
			// null is skipped, empty arrays / maps of it are fine
			return e.unsupported(string(st.WellKnownTypeName)), nil
		}
		k, err := scalarKind(st.Proto)
		if err != nil {
			return nil, err
		}
		return &Ty{Class: "scalar", Kind: k}, nil
	case *j5schema.EnumField:
		n, err := e.visit(st.Schema(), nil)
		if err != nil {
			return nil, err
		}
		if fd != nil {
			ed := fd.Enum()
			if fd.IsMap() {
				ed = fd.MapValue().Enum()
			}
			if ed != nil {
				if e.EnumDesc == nil {
					e.EnumDesc = map[string]protoreflect.EnumDescriptor{}
				}
				e.EnumDesc[n] = ed
			}
		}
		return &Ty{Class: "enum", Ref: n}, nil
	case *j5schema.ObjectField:
		n, err := e.visit(st.Schema(), msgOf(fd))
		if err != nil {
			return nil, err
		}
		return &Ty{Class: "object", Ref: n}, nil
	case *j5schema.OneofField:
		d := msgOf(fd)
		if fd == nil {
			d = holder // exposed oneof: same message
		}
		n, err := e.visit(st.Schema(), d)
		if err != nil {
			return nil, err
		}
		return &Ty{Class: "oneof", Ref: n}, nil
	case *j5schema.ArrayField:
		it, err := e.ty(st.Schema, fd, holder)
		if err != nil {
			return nil, err
		}
		return &Ty{Class: "array", Item: it}, nil
	case *j5schema.MapField:
		it, err := e.ty(st.Schema, fd, holder)
		if err != nil {
			return nil, err
		}
		return &Ty{Class: "map", Item: it}, nil
	case *j5schema.AnyField:
		pb := false
		if d := msgOf(fd); d != nil && d.FullName() == "google.protobuf.Any" {
			pb = true
		}
		return &Ty{Class: "any", PB: pb}, nil
	}
	return nil, fmt.Errorf("unsupported field schema %T", fs)
}

func scalarKind(f *schema_j5pb.Field) (Kind, error) {
	switch t := f.Type.(type) {
	case *schema_j5pb.Field_Integer:
		switch t.Integer.Format {
		case schema_j5pb.IntegerField_FORMAT_INT32:
			return "KInt32", nil
		case schema_j5pb.IntegerField_FORMAT_INT64:
			return "KInt64", nil
		case schema_j5pb.IntegerField_FORMAT_UINT32:
			return "KUint32", nil
		case schema_j5pb.IntegerField_FORMAT_UINT64:
			return "KUint64", nil
		}
		return "", fmt.Errorf("integer format %v", t.Integer.Format)
	case *schema_j5pb.Field_Float:
		switch t.Float.Format {
		case schema_j5pb.FloatField_FORMAT_FLOAT32:
			return "KFloat32", nil
		case schema_j5pb.FloatField_FORMAT_FLOAT64:
			return "KFloat64", nil
		}
		return "", fmt.Errorf("float format %v", t.Float.Format)
	case *schema_j5pb.Field_Bool:
		return "KBool", nil
	case *schema_j5pb.Field_String_:
		return "KString", nil
	case *schema_j5pb.Field_Key:
		return "KKey", nil
	case *schema_j5pb.Field_Bytes:
		return "KBytes", nil
	case *schema_j5pb.Field_Timestamp:
		return "KTimestamp", nil
	case *schema_j5pb.Field_Decimal:
		return "KDecimal", nil
	case *schema_j5pb.Field_Date:
		return "KDate", nil
	}
	return "", fmt.Errorf("scalar type %T", f.Type)
}

// ---------------------------------------------------------------- Coq rendering

// Packed selects the compact rendering of byte strings (lib/Pack.v: P len [words]%uint63),
// which Coq reads several times faster than a list of N numerals. Files using it need
// `From Coq Require Uint63.` and `From J5V.lib Require Import Pack.`
var Packed = false

func BytesTerm(s string) string {
	if Packed && len(s) > 10 {
		var sb strings.Builder
		fmt.Fprintf(&sb, "(P %d [", len(s))
		for k := 0; k < len(s); k += 7 {
			var v uint64
			for j := 0; j < 7 && k+j < len(s); j++ {
				v |= uint64(s[k+j]) << (8 * uint(j))
			}
			if k > 0 {
				sb.WriteByte(';')
			}
			fmt.Fprintf(&sb, "%d", v)
		}
		sb.WriteString("]%uint63)")
		return sb.String()
	}
	var sb strings.Builder
	sb.WriteByte('[')
	for i := 0; i < len(s); i++ {
		if i > 0 {
			sb.WriteByte(';')
		}
		fmt.Fprintf(&sb, "%d", s[i])
	}
	sb.WriteByte(']')
	return sb.String()
}

func nums(xs []int32) string {
	var parts []string
	for _, x := range xs {
		parts = append(parts, fmt.Sprint(x))
	}
	return "[" + strings.Join(parts, ";") + "]"
}

func boolTerm(b bool) string {
	if b {
		return "true"
	}
	return "false"
}

func (t *Ty) Coq() string {
	switch t.Class {
	case "scalar":
		return "FScalar " + string(t.Kind)
	case "enum":
		return "FEnum " + BytesTerm(t.Ref)
	case "object":
		return "FObject " + BytesTerm(t.Ref)
	case "oneof":
		return "FOneof " + BytesTerm(t.Ref)
	case "array":
		return "FArray (" + t.Item.Coq() + ")"
	case "map":
		return "FMap (" + t.Item.Coq() + ")"
	case "any":
		return "FAny " + boolTerm(t.PB)
	}
	return "?"
}

func (p *Prop) Coq() string {
	return fmt.Sprintf("mkProp %s %s %s %s %s (%s)", BytesTerm(p.JSON), nums(p.Path), boolTerm(p.Required), boolTerm(p.Explicit), nums(p.Siblings), p.Ty.Coq())
}

// Coq renders the environment as a term of type CodecTypes.env (N_scope and Z literals marked).
func (e *Env) Coq() string {
	var sb strings.Builder
	sb.WriteString("[\n")
	for i, s := range e.Schemas {
		if i > 0 {
			sb.WriteString(";\n")
		}
		fmt.Fprintf(&sb, " (%s (* %s *),\n  ", BytesTerm(s.Name), strings.ReplaceAll(s.Name, "*", "_"))
		switch s.Class {
		case "object", "oneof":
			if s.Class == "object" {
				sb.WriteString("SObject [")
			} else {
				sb.WriteString("SOneof [")
			}
			for j, p := range s.Props {
				if j > 0 {
					sb.WriteString(";")
				}
				sb.WriteString("\n   " + p.Coq())
			}
			sb.WriteString("])")
		case "enum":
			fmt.Fprintf(&sb, "SEnum %s [", BytesTerm(s.Prefix))
			for j, o := range s.Options {
				if j > 0 {
					sb.WriteString(";")
				}
				fmt.Fprintf(&sb, "(%s, (%d)%%Z)", BytesTerm(o.Name), o.Number)
			}
			sb.WriteString("])")
		}
	}
	sb.WriteString("\n]")
	return sb.String()
}

// ---------------------------------------------------------------- message dump

// MsgTerm renders the populated fields of m as a CodecTypes.msg term
// (ascending field numbers, map entries by ascending key).
func MsgTerm(m protoreflect.Message) string {
	type fv struct {
		fd protoreflect.FieldDescriptor
		v  protoreflect.Value
	}
	var fs []fv
	m.Range(func(fd protoreflect.FieldDescriptor, v protoreflect.Value) bool {
		fs = append(fs, fv{fd, v})
		return true
	})
	sort.Slice(fs, func(i, j int) bool { return fs[i].fd.Number() < fs[j].fd.Number() })
	var parts []string
	for _, f := range fs {
		if m.Descriptor().FullName() == "j5.types.any.v1.Any" && f.fd.Number() == 3 {
			// j5_json is compared token-wise: canonical re-print of the stored text
			parts = append(parts, fmt.Sprintf("(3, VBytes %s)", BytesTerm(CanonJSON(f.v.Bytes()))))
			continue
		}
		parts = append(parts, fmt.Sprintf("(%d, %s)", f.fd.Number(), fieldTerm(f.fd, f.v)))
	}
	return "[" + strings.Join(parts, "; ") + "]"
}

func fieldTerm(fd protoreflect.FieldDescriptor, v protoreflect.Value) string {
	switch {
	case fd.IsList():
		l := v.List()
		var parts []string
		for i := 0; i < l.Len(); i++ {
			parts = append(parts, singleTerm(fd, l.Get(i)))
		}
		return "VList [" + strings.Join(parts, "; ") + "]"
	case fd.IsMap():
		type kv struct {
			k string
			v protoreflect.Value
		}
		var kvs []kv
		v.Map().Range(func(k protoreflect.MapKey, v protoreflect.Value) bool {
			kvs = append(kvs, kv{k.String(), v})
			return true
		})
		sort.Slice(kvs, func(i, j int) bool { return kvs[i].k < kvs[j].k })
		var parts []string
		for _, e := range kvs {
			parts = append(parts, fmt.Sprintf("(%s, %s)", BytesTerm(e.k), singleTerm(fd.MapValue(), e.v)))
		}
		return "VMap [" + strings.Join(parts, "; ") + "]"
	}
	return singleTerm(fd, v)
}

func singleTerm(fd protoreflect.FieldDescriptor, v protoreflect.Value) string {
	switch fd.Kind() {
	case protoreflect.BoolKind:
		return "VBool " + boolTerm(v.Bool())
	case protoreflect.Int32Kind, protoreflect.Sint32Kind, protoreflect.Sfixed32Kind,
		protoreflect.Int64Kind, protoreflect.Sint64Kind, protoreflect.Sfixed64Kind:
		return fmt.Sprintf("VInt (%d)%%Z", v.Int())
	case protoreflect.Uint32Kind, protoreflect.Fixed32Kind, protoreflect.Uint64Kind, protoreflect.Fixed64Kind:
		return fmt.Sprintf("VInt (%d)%%Z", v.Uint())
	case protoreflect.FloatKind:
		return fmt.Sprintf("VFloat %d", Float32Bits(float32(v.Float())))
	case protoreflect.DoubleKind:
		return fmt.Sprintf("VFloat %d", Float64Bits(v.Float()))
	case protoreflect.StringKind:
		return "VStr " + BytesTerm(v.String())
	case protoreflect.BytesKind:
		return "VBytes " + BytesTerm(string(v.Bytes()))
	case protoreflect.EnumKind:
		return fmt.Sprintf("VEnum (%d)%%Z", v.Enum())
	case protoreflect.MessageKind, protoreflect.GroupKind:
		return "VMsg " + MsgTerm(v.Message())
	}
	return "?"
}

// PrefixedIsShort reports whether the prefixed spelling of the short name is itself the short name of an
// option (enum Mode {MODE_MODE_X, MODE_X}: "MODE_X" is the short name of the first and the prefixed
// spelling of the second; the short name as written takes precedence, so the second has no prefixed form).
func (s *Schema) PrefixedIsShort(name string) bool {
	for _, o := range s.Options {
		if o.Name == s.Prefix+name {
			return true
		}
	}
	return false
}

package codecgen

import (
	"strings"

	"verifharness/vh"
)

// Malformed-document helpers shared by the totality stream (C06) and the fault stream (C03).

// Prefixes returns doc truncated at every byte (or at most max evenly sampled positions).
func Prefixes(doc string, max int, r *vh.Rand) []string {
	var out []string
	if len(doc) <= max {
		for i := 0; i < len(doc); i++ {
			out = append(out, doc[:i])
		}
		return out
	}
	for i := 0; i < max; i++ {
		out = append(out, doc[:r.Intn(len(doc))])
	}
	return out
}

const structural = "{}[],:\"\\ \n09-.eEtfnu+/x\x00\x7f\xc3\xff"

// ByteMutation applies one random byte-level edit.
func ByteMutation(doc string, r *vh.Rand) string {
	if len(doc) == 0 {
		return string(structural[r.Intn(len(structural))])
	}
	i := r.Intn(len(doc))
	switch r.Intn(5) {
	case 0: // delete
		return doc[:i] + doc[i+1:]
	case 1: // duplicate
		return doc[:i] + doc[i:i+1] + doc[i:]
	case 2: // replace by a structural byte
		return doc[:i] + string(structural[r.Intn(len(structural))]) + doc[i+1:]
	case 3: // insert a structural byte
		return doc[:i] + string(structural[r.Intn(len(structural))]) + doc[i:]
	default: // swap two bytes
		j := r.Intn(len(doc))
		b := []byte(doc)
		b[i], b[j] = b[j], b[i]
		return string(b)
	}
}

// NullEverywhere returns, for every value position of root (except the root
// itself), a copy of the document with null at that position.
func NullEverywhere(root *J) []*J {
	var out []*J
	n := len(Walk(root))
	for i := 1; i < n; i++ {
		c := root.Clone()
		nodes := Walk(c)
		nodes[i].Replace(Null())
		out = append(out, c)
	}
	return out
}

// DuplicateMember repeats one member of one object of the document (same key twice).
func DuplicateMember(root *J, r *vh.Rand) *J {
	c := root.Clone()
	var objs []*J
	for _, n := range Walk(c) {
		if n.J.K == "obj" && len(n.J.Members) > 0 {
			objs = append(objs, n.J)
		}
	}
	if len(objs) == 0 {
		return c
	}
	o := vh.Pick(r, objs)
	m := vh.Pick(r, o.Members)
	pos := r.Intn(len(o.Members) + 1)
	dup := &Member{m.Key, m.Val.Clone()}
	o.Members = append(o.Members[:pos], append([]*Member{dup}, o.Members[pos:]...)...)
	return c
}

var hugeNumbers = []string{
	"1e400", "-1e400", "1e-400", "99999999999999999999999999999999999999", "-99999999999999999999999999999999999999",
	"0." + strings.Repeat("0", 400) + "1", strings.Repeat("9", 400), "1" + strings.Repeat("0", 400) + ".5", "1e2147483648", "1e-2147483649",
	"18446744073709551616", "9223372036854775808", "-9223372036854775809", "4294967296", "2147483648", "-2147483649", "3.5e38", "1.8e308",
	"1e1000000", "1e60000000", "-1e60000000", "0e-2000000000", "1e-60000000", "0e2000000000", "5e-1", "1e0", "10e-1", "1.0e1", "12.50e2",
}

// HugeNumber replaces one scalar of the document by a huge / extreme number, bare or quoted.
func HugeNumber(root *J, r *vh.Rand) *J {
	c := root.Clone()
	var leaves []Node
	for _, n := range Walk(c) {
		if n.Parent != nil && (n.J.K == "num" || n.J.K == "str" || n.J.K == "bool") {
			leaves = append(leaves, n)
		}
	}
	if len(leaves) == 0 {
		return c
	}
	n := vh.Pick(r, leaves)
	lit := vh.Pick(r, hugeNumbers)
	if r.Chance(30) {
		n.Replace(Str(lit))
	} else {
		n.Replace(Num(lit))
	}
	return c
}

// WrongShape replaces one value by a value of another JSON type.
func WrongShape(root *J, r *vh.Rand) *J {
	c := root.Clone()
	nodes := Walk(c)
	if len(nodes) < 2 {
		return c
	}
	n := nodes[1+r.Intn(len(nodes)-1)]
	alts := []*J{Num("1"), Str("x"), Str(""), Str(" "), Str("null"), Num("0"), Num("-0"), Num("1.5"), Bool(false), Bool(true), Arr(), Obj(), Arr(Null()), Obj().Add("k", Null()), Arr(Num("1"), Str("a")), Obj().Add("!type", Str("x")), Null(), Arr(Arr()), Obj().Add("", Obj())}
	n.Replace(vh.Pick(r, alts))
	return c
}

// OddValues are values of every JSON shape that a member position may be confronted with.
func OddValues() []*J {
	return []*J{Null(), Str(""), Str(" "), Str("x"), Str("0"), Str("null"), Str("true"), Num("0"), Num("-0"), Num("1"), Num("1.5"), Num("1e3"), Num("1e60000000"), Num("0e-2000000000"),
		Str("1e60000000"), Bool(true), Bool(false), Arr(), Obj(), Arr(Null()), Arr(Str("")), Obj().Add("k", Null()), Obj().Add("k", Str("")), Obj().Add("!type", Str("")), Arr(Arr()), Arr(Obj())}
}

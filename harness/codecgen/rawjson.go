package codecgen

import (
	"bytes"
	"encoding/json"
	"fmt"
	"strings"

	"verifharness/vh"
)

// RawJSON draws the text of one JSON value the way a client might write it: object members in no
// particular order, repeated member names, insignificant whitespace, string escapes of every kind
// (\n, \/, A, surrogate pairs, raw UTF-8), numbers in several spellings. The text is valid JSON.
func RawJSON(r *vh.Rand, depth int) string {
	ws := func() string {
		if r.Chance(70) {
			return ""
		}
		return vh.Pick(r, []string{" ", "  ", "\n", "\t", " \r\n "})
	}
	str := func() string {
		parts := []string{"a", "B", "zeta", "é", "\\u00e9", "\\n", "\\t", "\\/", "\\\\", "\\\"", "\\u0041", "\\ud83d\\ude00", "😀", " ", "x.y", "0", "\\u000a", "\\b"}
		n := r.Intn(4)
		var sb strings.Builder
		sb.WriteByte('"')
		for i := 0; i < n; i++ {
			sb.WriteString(vh.Pick(r, parts))
		}
		sb.WriteByte('"')
		return sb.String()
	}
	var val func(d int) string
	val = func(d int) string {
		k := r.Intn(10)
		if d <= 0 && k >= 6 {
			k = r.Intn(6)
		}
		switch k {
		case 0:
			return vh.Pick(r, []string{"0", "-0", "1", "-17", "1.50", "1e5", "1E-2", "0.000", "123456789012345678901234567890", "2.5e+3"})
		case 1, 2:
			return str()
		case 3:
			return vh.Pick(r, []string{"true", "false"})
		case 4:
			return "null"
		case 5:
			return vh.Pick(r, []string{"{}", "[]", "{ }", "[ ]"})
		case 6, 7:
			n := r.Range(1, 3)
			var sb strings.Builder
			sb.WriteString("[" + ws())
			for i := 0; i < n; i++ {
				if i > 0 {
					sb.WriteString(ws() + "," + ws())
				}
				sb.WriteString(val(d - 1))
			}
			sb.WriteString(ws() + "]")
			return sb.String()
		default:
			keys := []string{`"zeta"`, `"alpha"`, `"m"`, `"b"`, `"a"`, `"Z"`, `"barId"`, `"barField"`, `"a"`, `""`, `"x y"`}
			n := r.Range(2, 4)
			var sb strings.Builder
			sb.WriteString("{" + ws())
			for i := 0; i < n; i++ {
				if i > 0 {
					sb.WriteString(ws() + "," + ws())
				}
				sb.WriteString(vh.Pick(r, keys) + ws() + ":" + ws() + val(d-1))
			}
			sb.WriteString(ws() + "}")
			return sb.String()
		}
	}
	return val(depth)
}

// CompactJSON is json.Compact of a valid text (what decodeAny stores for the value of a j5 Any).
func CompactJSON(raw string) (string, error) {
	var buf bytes.Buffer
	if err := json.Compact(&buf, []byte(raw)); err != nil {
		return "", fmt.Errorf("compact: %w", err)
	}
	return buf.String(), nil
}

package codecgen

import (
	"fmt"

	"github.com/pentops/j5/gen/j5/ext/v1/ext_j5pb"
	_ "github.com/pentops/j5/j5types/any_j5t"
	_ "github.com/pentops/j5/j5types/date_j5t"
	_ "github.com/pentops/j5/j5types/decimal_j5t"
	"google.golang.org/protobuf/proto"
	"google.golang.org/protobuf/reflect/protodesc"
	"google.golang.org/protobuf/reflect/protoreflect"
	"google.golang.org/protobuf/reflect/protoregistry"
	"google.golang.org/protobuf/types/descriptorpb"
	_ "google.golang.org/protobuf/types/known/anypb"
	_ "google.golang.org/protobuf/types/known/durationpb"
	_ "google.golang.org/protobuf/types/known/timestamppb"
)

// A dynamically built message family ("verif.wide.v1") that has every field class
// the codec distinguishes: each scalar kind as singular / optional / repeated /
// map value; enums, objects and oneof wrappers as singular / repeated / map;
// a recursive member; two levels of flattening; an unexposed and an exposed
// proto oneof; both any flavours. Messages are dynamicpb values.

type fieldSpec struct {
	name     string
	num      int32
	typ      descriptorpb.FieldDescriptorProto_Type
	typeName string
	label    descriptorpb.FieldDescriptorProto_Label
	optional bool
	oneof    int32 // index+1 into the message's oneofs; 0 = none
	opts     *ext_j5pb.FieldOptions
}

func (f fieldSpec) build(oneofCount *int32, msg *descriptorpb.DescriptorProto) *descriptorpb.FieldDescriptorProto {
	fd := &descriptorpb.FieldDescriptorProto{
		Name:   proto.String(f.name),
		Number: proto.Int32(f.num),
		Type:   f.typ.Enum(),
		Label:  f.label.Enum(),
	}
	if f.label == 0 {
		fd.Label = descriptorpb.FieldDescriptorProto_LABEL_OPTIONAL.Enum()
	}
	if f.typeName != "" {
		fd.TypeName = proto.String(f.typeName)
	}
	if f.oneof > 0 {
		fd.OneofIndex = proto.Int32(f.oneof - 1)
	}
	if f.opts != nil {
		o := &descriptorpb.FieldOptions{}
		proto.SetExtension(o, ext_j5pb.E_Field, f.opts)
		fd.Options = o
	}
	return fd
}

const (
	tInt32  = descriptorpb.FieldDescriptorProto_TYPE_INT32
	tInt64  = descriptorpb.FieldDescriptorProto_TYPE_INT64
	tUint32 = descriptorpb.FieldDescriptorProto_TYPE_UINT32
	tUint64 = descriptorpb.FieldDescriptorProto_TYPE_UINT64
	tSint32 = descriptorpb.FieldDescriptorProto_TYPE_SINT32
	tSint64 = descriptorpb.FieldDescriptorProto_TYPE_SINT64
	tFloat  = descriptorpb.FieldDescriptorProto_TYPE_FLOAT
	tDouble = descriptorpb.FieldDescriptorProto_TYPE_DOUBLE
	tBool   = descriptorpb.FieldDescriptorProto_TYPE_BOOL
	tString = descriptorpb.FieldDescriptorProto_TYPE_STRING
	tBytes  = descriptorpb.FieldDescriptorProto_TYPE_BYTES
	tMsg    = descriptorpb.FieldDescriptorProto_TYPE_MESSAGE
	tEnum   = descriptorpb.FieldDescriptorProto_TYPE_ENUM
	rep     = descriptorpb.FieldDescriptorProto_LABEL_REPEATED
)

type scalarSpec struct {
	name     string
	typ      descriptorpb.FieldDescriptorProto_Type
	typeName string
	opts     *ext_j5pb.FieldOptions
	noOpt    bool // no `optional` variant (message-typed)
}

func keyOpts() *ext_j5pb.FieldOptions {
	return &ext_j5pb.FieldOptions{Type: &ext_j5pb.FieldOptions_Key{Key: &ext_j5pb.KeyField{}}}
}

var wideScalars = []scalarSpec{
	{"int32", tInt32, "", nil, false},
	{"int64", tInt64, "", nil, false},
	{"uint32", tUint32, "", nil, false},
	{"uint64", tUint64, "", nil, false},
	{"sint32", tSint32, "", nil, false},
	{"sint64", tSint64, "", nil, false},
	{"float", tFloat, "", nil, false},
	{"double", tDouble, "", nil, false},
	{"bool", tBool, "", nil, false},
	{"string", tString, "", nil, false},
	{"bytes", tBytes, "", nil, false},
	{"key", tString, "", keyOpts(), false},
	{"date", tMsg, ".j5.types.date.v1.Date", nil, true},
	{"decimal", tMsg, ".j5.types.decimal.v1.Decimal", nil, true},
	{"ts", tMsg, ".google.protobuf.Timestamp", nil, true},
	{"duration", tMsg, ".google.protobuf.Duration", nil, true},
}

func mapEntry(parent string, field string, val fieldSpec) (*descriptorpb.DescriptorProto, string) {
	name := ""
	up := true
	for _, c := range field {
		if c == '_' {
			up = true
			continue
		}
		if up && c >= 'a' && c <= 'z' {
			c = c - 'a' + 'A'
		}
		up = false
		name += string(c)
	}
	name += "Entry"
	val.name, val.num = "value", 2
	return &descriptorpb.DescriptorProto{
		Name: proto.String(name),
		Field: []*descriptorpb.FieldDescriptorProto{
			fieldSpec{name: "key", num: 1, typ: tString}.build(nil, nil),
			val.build(nil, nil),
		},
		Options: &descriptorpb.MessageOptions{MapEntry: proto.Bool(true)},
	}, ".verif.wide.v1." + parent + "." + name
}

// WideFile builds the verif.wide.v1 file descriptor.
func WideFile() (protoreflect.FileDescriptor, error) {
	pkg := "verif.wide.v1"
	q := func(n string) string { return "." + pkg + "." + n }

	wide := &descriptorpb.DescriptorProto{Name: proto.String("Wide")}
	addField := func(m *descriptorpb.DescriptorProto, f fieldSpec) {
		m.Field = append(m.Field, f.build(nil, m))
	}
	addOptional := func(m *descriptorpb.DescriptorProto, f fieldSpec) {
		idx := int32(len(m.OneofDecl))
		m.OneofDecl = append(m.OneofDecl, &descriptorpb.OneofDescriptorProto{Name: proto.String("_" + f.name)})
		fd := f.build(nil, m)
		fd.OneofIndex = proto.Int32(idx)
		fd.Proto3Optional = proto.Bool(true)
		m.Field = append(m.Field, fd)
	}
	addMap := func(m *descriptorpb.DescriptorProto, name string, num int32, val fieldSpec) {
		entry, tn := mapEntry(m.GetName(), name, val)
		m.NestedType = append(m.NestedType, entry)
		addField(m, fieldSpec{name: name, num: num, typ: tMsg, typeName: tn, label: rep})
	}

	// real oneofs must be declared before the synthetic ones of proto3 optional fields
	wide.OneofDecl = append(wide.OneofDecl, &descriptorpb.OneofDescriptorProto{Name: proto.String("anon")})
	exposed := &descriptorpb.OneofDescriptorProto{Name: proto.String("exposed"), Options: &descriptorpb.OneofOptions{}}
	proto.SetExtension(exposed.Options, ext_j5pb.E_Oneof, &ext_j5pb.OneofOptions{Expose: true})
	wide.OneofDecl = append(wide.OneofDecl, exposed)

	for i, s := range wideScalars {
		n := int32(i + 1)
		addField(wide, fieldSpec{name: "s_" + s.name, num: n, typ: s.typ, typeName: s.typeName, opts: s.opts})
		addField(wide, fieldSpec{name: "r_" + s.name, num: 40 + n, typ: s.typ, typeName: s.typeName, label: rep, opts: s.opts})
		addMap(wide, "m_"+s.name, 60+n, fieldSpec{typ: s.typ, typeName: s.typeName})
	}
	for i, s := range wideScalars {
		if !s.noOpt {
			addOptional(wide, fieldSpec{name: "o_" + s.name, num: 20 + int32(i+1), typ: s.typ, typeName: s.typeName, opts: s.opts})
		}
	}
	addField(wide, fieldSpec{name: "s_enum", num: 80, typ: tEnum, typeName: q("Mode")})
	addField(wide, fieldSpec{name: "r_enum", num: 81, typ: tEnum, typeName: q("Mode"), label: rep})
	addMap(wide, "m_enum", 82, fieldSpec{typ: tEnum, typeName: q("Mode")})
	// an enum whose zero option is dropped from the schema (no_default): its name must be rejected like any unknown name
	addField(wide, fieldSpec{name: "s_tone", num: 83, typ: tEnum, typeName: q("Tone")})
	addField(wide, fieldSpec{name: "r_tone", num: 84, typ: tEnum, typeName: q("Tone"), label: rep})
	addMap(wide, "m_tone", 85, fieldSpec{typ: tEnum, typeName: q("Tone")})
	addField(wide, fieldSpec{name: "s_leaf", num: 90, typ: tMsg, typeName: q("Leaf")})
	addField(wide, fieldSpec{name: "r_leaf", num: 91, typ: tMsg, typeName: q("Leaf"), label: rep})
	addMap(wide, "m_leaf", 92, fieldSpec{typ: tMsg, typeName: q("Leaf")})
	addField(wide, fieldSpec{name: "s_choice", num: 100, typ: tMsg, typeName: q("Choice")})
	addField(wide, fieldSpec{name: "r_choice", num: 101, typ: tMsg, typeName: q("Choice"), label: rep})
	addMap(wide, "m_choice", 102, fieldSpec{typ: tMsg, typeName: q("Choice")})
	addField(wide, fieldSpec{name: "child", num: 110, typ: tMsg, typeName: q("Wide")})
	addField(wide, fieldSpec{name: "children", num: 111, typ: tMsg, typeName: q("Wide"), label: rep})
	addMap(wide, "kids", 112, fieldSpec{typ: tMsg, typeName: q("Wide")})
	addField(wide, fieldSpec{name: "flat", num: 120, typ: tMsg, typeName: q("Flat"),
		opts: &ext_j5pb.FieldOptions{Type: &ext_j5pb.FieldOptions_Message{Message: &ext_j5pb.MessageFieldOptions{Flatten: true}}}})
	addField(wide, fieldSpec{name: "a_str", num: 130, typ: tString, oneof: 1})
	addField(wide, fieldSpec{name: "a_leaf", num: 131, typ: tMsg, typeName: q("Leaf"), oneof: 1})
	addField(wide, fieldSpec{name: "a_int", num: 132, typ: tInt64, oneof: 1})
	addField(wide, fieldSpec{name: "a_mode", num: 133, typ: tEnum, typeName: q("Mode"), oneof: 1})
	addField(wide, fieldSpec{name: "e_str", num: 140, typ: tString, oneof: 2})
	addField(wide, fieldSpec{name: "e_leaf", num: 141, typ: tMsg, typeName: q("Leaf"), oneof: 2})
	addField(wide, fieldSpec{name: "e_flag", num: 142, typ: tBool, oneof: 2})
	addField(wide, fieldSpec{name: "j5any", num: 150, typ: tMsg, typeName: ".j5.types.any.v1.Any"})
	addField(wide, fieldSpec{name: "pbany", num: 151, typ: tMsg, typeName: ".google.protobuf.Any"})

	leaf := &descriptorpb.DescriptorProto{Name: proto.String("Leaf")}
	addField(leaf, fieldSpec{name: "id", num: 10, typ: tString})
	addField(leaf, fieldSpec{name: "n", num: 11, typ: tInt64})
	addField(leaf, fieldSpec{name: "flags", num: 12, typ: tBool, label: rep})

	choice := &descriptorpb.DescriptorProto{Name: proto.String("Choice"), Options: &descriptorpb.MessageOptions{}}
	proto.SetExtension(choice.Options, ext_j5pb.E_Message, &ext_j5pb.MessageOptions{IsOneofWrapper: true})
	choice.OneofDecl = append(choice.OneofDecl, &descriptorpb.OneofDescriptorProto{Name: proto.String("type")})
	addField(choice, fieldSpec{name: "c_str", num: 1, typ: tString, oneof: 1})
	addField(choice, fieldSpec{name: "c_leaf", num: 2, typ: tMsg, typeName: q("Leaf"), oneof: 1})
	addField(choice, fieldSpec{name: "c_int", num: 3, typ: tInt32, oneof: 1})
	addField(choice, fieldSpec{name: "c_mode", num: 4, typ: tEnum, typeName: q("Mode"), oneof: 1})
	addField(choice, fieldSpec{name: "c_wide", num: 5, typ: tMsg, typeName: q("Wide"), oneof: 1})
	addField(choice, fieldSpec{name: "c_choice", num: 6, typ: tMsg, typeName: q("Choice"), oneof: 1})
	addField(choice, fieldSpec{name: "c_bool", num: 7, typ: tBool, oneof: 1})
	addField(choice, fieldSpec{name: "c_ts", num: 8, typ: tMsg, typeName: ".google.protobuf.Timestamp", oneof: 1})

	flat := &descriptorpb.DescriptorProto{Name: proto.String("Flat")}
	addField(flat, fieldSpec{name: "f_a", num: 1, typ: tString})
	addField(flat, fieldSpec{name: "f_b", num: 2, typ: tInt32})
	addField(flat, fieldSpec{name: "f_leaf", num: 3, typ: tMsg, typeName: q("Leaf")})
	addField(flat, fieldSpec{name: "deeper", num: 4, typ: tMsg, typeName: q("DeepFlat"),
		opts: &ext_j5pb.FieldOptions{Type: &ext_j5pb.FieldOptions_Message{Message: &ext_j5pb.MessageFieldOptions{Flatten: true}}}})
	addField(flat, fieldSpec{name: "f_list", num: 5, typ: tString, label: rep})

	deep := &descriptorpb.DescriptorProto{Name: proto.String("DeepFlat")}
	addField(deep, fieldSpec{name: "d_a", num: 1, typ: tString})
	addOptional(deep, fieldSpec{name: "d_b", num: 2, typ: tInt64})
	// a third level of flattening with several properties innermost: proto paths of length four from Wide
	addField(deep, fieldSpec{name: "deepest", num: 3, typ: tMsg, typeName: q("Deepest"),
		opts: &ext_j5pb.FieldOptions{Type: &ext_j5pb.FieldOptions_Message{Message: &ext_j5pb.MessageFieldOptions{Flatten: true}}}})

	deepest := &descriptorpb.DescriptorProto{Name: proto.String("Deepest")}
	addField(deepest, fieldSpec{name: "z_a", num: 1, typ: tString})
	addField(deepest, fieldSpec{name: "z_b", num: 2, typ: tInt64})
	addField(deepest, fieldSpec{name: "z_list", num: 3, typ: tString, label: rep})
	addField(deepest, fieldSpec{name: "z_leaf", num: 4, typ: tMsg, typeName: q("Leaf")})

	mode := &descriptorpb.EnumDescriptorProto{
		Name: proto.String("Mode"),
		Value: []*descriptorpb.EnumValueDescriptorProto{
			{Name: proto.String("MODE_UNSPECIFIED"), Number: proto.Int32(0)},
			{Name: proto.String("MODE_ONE"), Number: proto.Int32(1)},
			{Name: proto.String("MODE_TWO"), Number: proto.Int32(2)},
			{Name: proto.String("MODE_MODE_X"), Number: proto.Int32(7)},
			// full name = the short name of the option before it: "MODE_X" must decode to 7 (short name as
			// written first), "X" to 8; a name index built as one map would answer 8 for "MODE_X"
			{Name: proto.String("MODE_X"), Number: proto.Int32(8)},
		},
	}

	tone := &descriptorpb.EnumDescriptorProto{
		Name: proto.String("Tone"),
		Value: []*descriptorpb.EnumValueDescriptorProto{
			{Name: proto.String("TONE_UNSPECIFIED"), Number: proto.Int32(0)},
			{Name: proto.String("TONE_LOW"), Number: proto.Int32(1)},
			{Name: proto.String("TONE_HIGH"), Number: proto.Int32(2)},
		},
		Options: &descriptorpb.EnumOptions{},
	}
	proto.SetExtension(tone.Options, ext_j5pb.E_Enum, &ext_j5pb.EnumOptions{NoDefault: true})

	fdp := &descriptorpb.FileDescriptorProto{
		Name:    proto.String("verif/wide/v1/wide.proto"),
		Package: proto.String(pkg),
		Syntax:  proto.String("proto3"),
		Dependency: []string{
			"google/protobuf/any.proto", "google/protobuf/duration.proto", "google/protobuf/timestamp.proto", "j5/ext/v1/annotations.proto",
			"j5/types/any/v1/any.proto", "j5/types/date/v1/date.proto", "j5/types/decimal/v1/decimal.proto",
		},
		MessageType: []*descriptorpb.DescriptorProto{wide, leaf, choice, flat, deep, deepest},
		EnumType:    []*descriptorpb.EnumDescriptorProto{mode, tone},
	}
	fd, err := protodesc.NewFile(fdp, protoregistry.GlobalFiles)
	if err != nil {
		return nil, fmt.Errorf("verif.wide.v1: %w", err)
	}
	return fd, nil
}

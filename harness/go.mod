module verifharness

go 1.24.0

toolchain go1.24.1

require (
	buf.build/gen/go/bufbuild/protovalidate/protocolbuffers/go v1.36.6-20250307204501-0409229c3780.1
	github.com/bufbuild/protocompile v0.14.1
	github.com/bufbuild/protovalidate-go v0.9.2
	github.com/iancoleman/strcase v0.3.0
	github.com/pentops/j5 v0.0.0
	github.com/shopspring/decimal v1.4.0
	google.golang.org/genproto/googleapis/api v0.0.0-20250324211829-b45e905df463
	google.golang.org/protobuf v1.36.6
)

require (
	buf.build/go/protoyaml v0.3.1 // indirect
	cel.dev/expr v0.22.0 // indirect
	github.com/antlr4-go/antlr/v4 v4.13.1 // indirect
	github.com/aws/aws-sdk-go-v2 v1.36.3 // indirect
	github.com/aws/aws-sdk-go-v2/config v1.29.9 // indirect
	github.com/aws/aws-sdk-go-v2/credentials v1.17.62 // indirect
	github.com/aws/aws-sdk-go-v2/feature/ec2/imds v1.16.30 // indirect
	github.com/aws/aws-sdk-go-v2/internal/configsources v1.3.34 // indirect
	github.com/aws/aws-sdk-go-v2/internal/endpoints/v2 v2.6.34 // indirect
	github.com/aws/aws-sdk-go-v2/internal/ini v1.8.3 // indirect
	github.com/aws/aws-sdk-go-v2/service/ecr v1.43.0 // indirect
	github.com/aws/aws-sdk-go-v2/service/internal/accept-encoding v1.12.3 // indirect
	github.com/aws/aws-sdk-go-v2/service/internal/presigned-url v1.12.15 // indirect
	github.com/aws/aws-sdk-go-v2/service/sso v1.25.1 // indirect
	github.com/aws/aws-sdk-go-v2/service/ssooidc v1.29.1 // indirect
	github.com/aws/aws-sdk-go-v2/service/sts v1.33.17 // indirect
	github.com/aws/smithy-go v1.22.3 // indirect
	github.com/distribution/reference v0.6.0 // indirect
	github.com/docker/docker v28.0.2+incompatible // indirect
	github.com/docker/go-connections v0.5.0 // indirect
	github.com/docker/go-units v0.5.0 // indirect
	github.com/fatih/color v1.18.0 // indirect
	github.com/felixge/httpsnoop v1.0.4 // indirect
	github.com/go-logr/logr v1.4.2 // indirect
	github.com/go-logr/stdr v1.2.2 // indirect
	github.com/gogo/protobuf v1.3.2 // indirect
	github.com/google/cel-go v0.24.1 // indirect
	github.com/google/uuid v1.6.0 // indirect
	github.com/mattn/go-colorable v0.1.14 // indirect
	github.com/mattn/go-isatty v0.0.20 // indirect
	github.com/moby/docker-image-spec v1.3.1 // indirect
	github.com/opencontainers/go-digest v1.0.0 // indirect
	github.com/opencontainers/image-spec v1.1.1 // indirect
	github.com/pentops/golib v0.0.0-20250107012216-1b5307b3bfe0 // indirect
	github.com/pentops/log.go v0.0.0-20250304233315-e0210b7a6dc3 // indirect
	github.com/pentops/runner v0.0.0-20250116202335-8635b2a42547 // indirect
	github.com/pkg/errors v0.9.1 // indirect
	github.com/ryanuber/go-glob v1.0.0 // indirect
	github.com/segmentio/asm v1.2.0 // indirect
	github.com/segmentio/encoding v0.4.1 // indirect
	github.com/stoewer/go-strcase v1.3.0 // indirect
	go.lsp.dev/jsonrpc2 v0.10.0 // indirect
	go.lsp.dev/pkg v0.0.0-20210717090340-384b27a52fb2 // indirect
	go.lsp.dev/protocol v0.12.0 // indirect
	go.lsp.dev/uri v0.3.0 // indirect
	go.opentelemetry.io/auto/sdk v1.1.0 // indirect
	go.opentelemetry.io/contrib/instrumentation/net/http/otelhttp v0.60.0 // indirect
	go.opentelemetry.io/otel v1.35.0 // indirect
	go.opentelemetry.io/otel/metric v1.35.0 // indirect
	go.opentelemetry.io/otel/trace v1.35.0 // indirect
	go.uber.org/multierr v1.11.0 // indirect
	go.uber.org/zap v1.27.0 // indirect
	golang.org/x/exp v0.0.0-20250305212735-054e65f0b394 // indirect
	golang.org/x/mod v0.24.0 // indirect
	golang.org/x/sync v0.12.0 // indirect
	golang.org/x/sys v0.31.0 // indirect
	golang.org/x/text v0.23.0 // indirect
	google.golang.org/genproto/googleapis/rpc v0.0.0-20250324211829-b45e905df463 // indirect
	google.golang.org/grpc v1.71.0 // indirect
	gopkg.in/yaml.v3 v3.0.1 // indirect
)

replace github.com/pentops/j5 => /repo

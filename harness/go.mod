module verifharness

go 1.24.0

toolchain go1.24.1

require github.com/pentops/j5 v0.0.0

require github.com/google/uuid v1.6.0 // indirect

replace github.com/pentops/j5 => /repo

package descgen

import (
	"fmt"
	"hash/fnv"
	"math"
	"sort"
	"strings"

	"buf.build/gen/go/bufbuild/protovalidate/protocolbuffers/go/buf/validate"
	"github.com/iancoleman/strcase"
	"github.com/pentops/j5/gen/j5/ext/v1/ext_j5pb"
	"github.com/pentops/j5/gen/j5/list/v1/list_j5pb"
	"github.com/pentops/j5/gen/j5/schema/v1/schema_j5pb"
	"github.com/pentops/j5/gen/j5/source/v1/source_j5pb"
	"github.com/pentops/j5/lib/j5schema"
	"google.golang.org/protobuf/proto"
	"google.golang.org/protobuf/reflect/protoreflect"
	"google.golang.org/protobuf/reflect/protoregistry"
	"google.golang.org/protobuf/types/known/timestamppb"
)

// ---------------------------------------------------------------- term helpers

func Str(s string) string {
	var sb strings.Builder
	sb.WriteByte('[')
	for i := 0; i < len(s); i++ {
		if i > 0 {
			sb.WriteByte(';')
		}
		fmt.Fprintf(&sb, "%d", s[i])
	}
	sb.WriteByte(']')
	return sb.String()
}

func list(items []string) string { return "[" + strings.Join(items, "; ") + "]" }

func strList(ss []string) string {
	var it []string
	for _, s := range ss {
		it = append(it, Str(s))
	}
	return list(it)
}

func some(s string) string { return "(Some " + s + ")" }

func optBool(b *bool) string {
	if b == nil {
		return "None"
	}
	return some(boolT(*b))
}
func boolT(b bool) string {
	if b {
		return "true"
	}
	return "false"
}
func optN(v *uint64) string {
	if v == nil {
		return "None"
	}
	return some(fmt.Sprintf("%d", *v))
}
func optStr(s *string) string {
	if s == nil {
		return "None"
	}
	return some(Str(*s))
}
func zT(v int64) string { return fmt.Sprintf("(%d)%%Z", v) }
func zU(v uint64) string { return fmt.Sprintf("(%d)%%Z", v) }
func optZ(v *int64) string {
	if v == nil {
		return "None"
	}
	return some(zT(*v))
}
func fbits(f float64) string { return fmt.Sprintf("(%d)%%Z", math.Float64bits(f)) }

// Tok is the opaque payload token of a message the reader copies through unchanged.
func Tok(m proto.Message) string {
	b, err := proto.MarshalOptions{Deterministic: true}.Marshal(m)
	if err != nil {
		panic(err)
	}
	h := fnv.New32a()
	h.Write([]byte(m.ProtoReflect().Descriptor().FullName()))
	h.Write(b)
	return fmt.Sprintf("%d", h.Sum32())
}

func isNilMsg(m proto.Message) bool {
	return m == nil || !m.ProtoReflect().IsValid()
}

func optTok(m proto.Message) string {
	if isNilMsg(m) {
		return "None"
	}
	return some(Tok(m))
}

// ---------------------------------------------------------------- descriptor -> Coq

var kindNames = map[protoreflect.Kind]string{
	protoreflect.BoolKind: "KBool", protoreflect.EnumKind: "KEnum", protoreflect.Int32Kind: "KInt32", protoreflect.Sint32Kind: "KSint32",
	protoreflect.Uint32Kind: "KUint32", protoreflect.Int64Kind: "KInt64", protoreflect.Sint64Kind: "KSint64", protoreflect.Uint64Kind: "KUint64",
	protoreflect.Sfixed32Kind: "KSfixed32", protoreflect.Fixed32Kind: "KFixed32", protoreflect.FloatKind: "KFloat", protoreflect.Sfixed64Kind: "KSfixed64",
	protoreflect.Fixed64Kind: "KFixed64", protoreflect.DoubleKind: "KDouble", protoreflect.StringKind: "KString", protoreflect.BytesKind: "KBytes",
	protoreflect.MessageKind: "KMessage", protoreflect.GroupKind: "KGroup", protoreflect.Kind(0): "KInvalid",
}

// Description is the text the reader derives from the source comments of a
// descriptor (buildComment / appendCommentLines as of /repo f0aec6c: leading then
// trailing comment block; per block the lines trimmed, lines starting with '#'
// dropped, blank lines between two kept lines of the block kept as paragraph
// breaks, blank lines at either end of the block dropped; joined by newline).
func Description(d protoreflect.Descriptor) string {
	loc := d.ParentFile().SourceLocations().ByDescriptor(d)
	var out []string
	for _, block := range []string{loc.LeadingComments, loc.TrailingComments} {
		if block == "" {
			continue
		}
		blank := 0
		first := true
		for _, c := range strings.Split(block, "\n") {
			c = strings.TrimSpace(c)
			if c == "" {
				if !first {
					blank++
				}
				continue
			}
			if strings.HasPrefix(c, "#") {
				continue
			}
			for ; blank > 0; blank-- {
				out = append(out, "")
			}
			first = false
			out = append(out, c)
		}
	}
	return strings.Join(out, "\n")
}

func KindTerm(k protoreflect.Kind) string { return kindNames[k] }

// handled by wktSchema / rejected by prefix before any descriptor is looked at
func readerOpaque(full string) bool {
	switch full {
	case "j5.types.date.v1.Date", "j5.types.decimal.v1.Decimal", "j5.types.any.v1.Any":
		return true
	}
	return strings.HasPrefix(full, "google.protobuf.")
}

func splitName(d protoreflect.Descriptor) (string, []string) {
	var path []string
	cur := d
	for {
		path = append([]string{string(cur.Name())}, path...)
		p := cur.Parent()
		if f, ok := p.(protoreflect.FileDescriptor); ok {
			return string(f.Package()), path
		}
		cur = p
	}
}

func numRules(hasConst, hasIn, hasNotIn bool, lt, gt string) string {
	return fmt.Sprintf("(NumRules %s %s %s %s %s)", boolT(hasConst), boolT(hasIn), boolT(hasNotIn), lt, gt)
}

func dumpFCon(fc *validate.FieldConstraints) string {
	if fc == nil {
		return "None"
	}
	return some(fconTerm(fc))
}

func fconTerm(fc *validate.FieldConstraints) string {
	ign := "None"
	if fc.Ignore != nil {
		ign = some(fmt.Sprintf("%d", int32(*fc.Ignore)))
	}
	return fmt.Sprintf("(FCon %s %s %s)", optBool(fc.Required), ign, vtyTerm(fc))
}

func vtyTerm(fc *validate.FieldConstraints) string {
	switch t := fc.Type.(type) {
	case nil:
		return "VNone"
	case *validate.FieldConstraints_Float:
		r := t.Float
		lt, gt := "BNone", "BNone"
		switch b := r.LessThan.(type) {
		case *validate.FloatRules_Lt:
			lt = "(BExcl " + fbits(float64(b.Lt)) + ")"
		case *validate.FloatRules_Lte:
			lt = "(BIncl " + fbits(float64(b.Lte)) + ")"
		case nil:
		default:
			lt = "BOther"
		}
		switch b := r.GreaterThan.(type) {
		case *validate.FloatRules_Gt:
			gt = "(BExcl " + fbits(float64(b.Gt)) + ")"
		case *validate.FloatRules_Gte:
			gt = "(BIncl " + fbits(float64(b.Gte)) + ")"
		case nil:
		default:
			gt = "BOther"
		}
		return "(VFloat " + numRules(r.Const != nil, r.In != nil, r.NotIn != nil, lt, gt) + ")"
	case *validate.FieldConstraints_Double:
		r := t.Double
		lt, gt := "BNone", "BNone"
		switch b := r.LessThan.(type) {
		case *validate.DoubleRules_Lt:
			lt = "(BExcl " + fbits(b.Lt) + ")"
		case *validate.DoubleRules_Lte:
			lt = "(BIncl " + fbits(b.Lte) + ")"
		case nil:
		default:
			lt = "BOther"
		}
		switch b := r.GreaterThan.(type) {
		case *validate.DoubleRules_Gt:
			gt = "(BExcl " + fbits(b.Gt) + ")"
		case *validate.DoubleRules_Gte:
			gt = "(BIncl " + fbits(b.Gte) + ")"
		case nil:
		default:
			gt = "BOther"
		}
		return "(VDouble " + numRules(r.Const != nil, r.In != nil, r.NotIn != nil, lt, gt) + ")"
	case *validate.FieldConstraints_Int32:
		r := t.Int32
		lt, gt := "BNone", "BNone"
		switch b := r.LessThan.(type) {
		case *validate.Int32Rules_Lt:
			lt = "(BExcl " + zT(int64(b.Lt)) + ")"
		case *validate.Int32Rules_Lte:
			lt = "(BIncl " + zT(int64(b.Lte)) + ")"
		case nil:
		default:
			lt = "BOther"
		}
		switch b := r.GreaterThan.(type) {
		case *validate.Int32Rules_Gt:
			gt = "(BExcl " + zT(int64(b.Gt)) + ")"
		case *validate.Int32Rules_Gte:
			gt = "(BIncl " + zT(int64(b.Gte)) + ")"
		case nil:
		default:
			gt = "BOther"
		}
		return "(VInt32 " + numRules(r.Const != nil, r.In != nil, r.NotIn != nil, lt, gt) + ")"
	case *validate.FieldConstraints_Int64:
		r := t.Int64
		lt, gt := "BNone", "BNone"
		switch b := r.LessThan.(type) {
		case *validate.Int64Rules_Lt:
			lt = "(BExcl " + zT(b.Lt) + ")"
		case *validate.Int64Rules_Lte:
			lt = "(BIncl " + zT(b.Lte) + ")"
		case nil:
		default:
			lt = "BOther"
		}
		switch b := r.GreaterThan.(type) {
		case *validate.Int64Rules_Gt:
			gt = "(BExcl " + zT(b.Gt) + ")"
		case *validate.Int64Rules_Gte:
			gt = "(BIncl " + zT(b.Gte) + ")"
		case nil:
		default:
			gt = "BOther"
		}
		return "(VInt64 " + numRules(r.Const != nil, r.In != nil, r.NotIn != nil, lt, gt) + ")"
	case *validate.FieldConstraints_Uint32:
		r := t.Uint32
		lt, gt := "BNone", "BNone"
		switch b := r.LessThan.(type) {
		case *validate.UInt32Rules_Lt:
			lt = "(BExcl " + zT(int64(b.Lt)) + ")"
		case *validate.UInt32Rules_Lte:
			lt = "(BIncl " + zT(int64(b.Lte)) + ")"
		case nil:
		default:
			lt = "BOther"
		}
		switch b := r.GreaterThan.(type) {
		case *validate.UInt32Rules_Gt:
			gt = "(BExcl " + zT(int64(b.Gt)) + ")"
		case *validate.UInt32Rules_Gte:
			gt = "(BIncl " + zT(int64(b.Gte)) + ")"
		case nil:
		default:
			gt = "BOther"
		}
		return "(VUint32 " + numRules(r.Const != nil, r.In != nil, r.NotIn != nil, lt, gt) + ")"
	case *validate.FieldConstraints_Uint64:
		// raw (non-negative) values: the model performs the int64(...) conversion
		r := t.Uint64
		lt, gt := "BNone", "BNone"
		switch b := r.LessThan.(type) {
		case *validate.UInt64Rules_Lt:
			lt = "(BExcl " + zU(b.Lt) + ")"
		case *validate.UInt64Rules_Lte:
			lt = "(BIncl " + zU(b.Lte) + ")"
		case nil:
		default:
			lt = "BOther"
		}
		switch b := r.GreaterThan.(type) {
		case *validate.UInt64Rules_Gt:
			gt = "(BExcl " + zU(b.Gt) + ")"
		case *validate.UInt64Rules_Gte:
			gt = "(BIncl " + zU(b.Gte) + ")"
		case nil:
		default:
			gt = "BOther"
		}
		return "(VUint64 " + numRules(r.Const != nil, r.In != nil, r.NotIn != nil, lt, gt) + ")"
	case *validate.FieldConstraints_Bool:
		return "(VBool " + optBool(t.Bool.Const) + ")"
	case *validate.FieldConstraints_String_:
		r := t.String_
		wk := "WkNone"
		switch w := r.WellKnown.(type) {
		case nil:
		case *validate.StringRules_Uuid:
			wk = "(WkUuid " + boolT(w.Uuid) + ")"
		case *validate.StringRules_Email:
			wk = "(WkEmail " + boolT(w.Email) + ")"
		case *validate.StringRules_Hostname:
			wk = "(WkHostname " + boolT(w.Hostname) + ")"
		case *validate.StringRules_Ipv4:
			wk = "(WkIpv4 " + boolT(w.Ipv4) + ")"
		case *validate.StringRules_Ipv6:
			wk = "(WkIpv6 " + boolT(w.Ipv6) + ")"
		case *validate.StringRules_Uri:
			wk = "(WkUri " + boolT(w.Uri) + ")"
		default:
			wk = "WkOther"
		}
		return fmt.Sprintf("(VString (StrRules %s %s %s %s))", optN(r.MinLen), optN(r.MaxLen), optStr(r.Pattern), wk)
	case *validate.FieldConstraints_Enum:
		var in, notin []string
		for _, v := range t.Enum.In {
			in = append(in, zT(int64(v)))
		}
		for _, v := range t.Enum.NotIn {
			notin = append(notin, zT(int64(v)))
		}
		return fmt.Sprintf("(VEnum %s %s)", list(in), list(notin))
	case *validate.FieldConstraints_Timestamp:
		r := t.Timestamp
		tb := func(c string, ts *timestamppb.Timestamp) string {
			return fmt.Sprintf("(%s %s %s)", c, zT(ts.GetSeconds()), zT(int64(ts.GetNanos())))
		}
		lt, gt := "TBNone", "TBNone"
		switch b := r.LessThan.(type) {
		case *validate.TimestampRules_Lt:
			lt = tb("TBExcl", b.Lt)
		case *validate.TimestampRules_Lte:
			lt = tb("TBIncl", b.Lte)
		case nil:
		default:
			lt = "TBOther"
		}
		switch b := r.GreaterThan.(type) {
		case *validate.TimestampRules_Gt:
			gt = tb("TBExcl", b.Gt)
		case *validate.TimestampRules_Gte:
			gt = tb("TBIncl", b.Gte)
		case nil:
		default:
			gt = "TBOther"
		}
		return fmt.Sprintf("(VTimestamp %s %s %s %s)", boolT(r.Const != nil), boolT(r.Within != nil), lt, gt)
	case *validate.FieldConstraints_Repeated:
		r := t.Repeated
		return fmt.Sprintf("(VRepeated %s %s %s %s)", optN(r.MinItems), optN(r.MaxItems), optBool(r.Unique), dumpFCon(r.Items))
	case *validate.FieldConstraints_Map:
		r := t.Map
		return fmt.Sprintf("(VMap %s %s %s)", optN(r.MinPairs), optN(r.MaxPairs), dumpFCon(r.Values))
	case *validate.FieldConstraints_Bytes:
		return fmt.Sprintf("(VBytes %s %s)", optN(t.Bytes.MinLen), optN(t.Bytes.MaxLen))
	default:
		return "VOther"
	}
}

func dumpList(lc *list_j5pb.FieldConstraint) string {
	if lc == nil {
		return "None"
	}
	one := func(c string, m proto.Message) string { return some("(" + c + " " + Tok(m) + ")") }
	switch t := lc.Type.(type) {
	case nil:
		return some("LNone")
	case *list_j5pb.FieldConstraint_Bool:
		return one("LBool", t.Bool)
	case *list_j5pb.FieldConstraint_Int32:
		return one("LInt32", t.Int32)
	case *list_j5pb.FieldConstraint_Uint32:
		return one("LUint32", t.Uint32)
	case *list_j5pb.FieldConstraint_Int64:
		return one("LInt64", t.Int64)
	case *list_j5pb.FieldConstraint_Uint64:
		return one("LUint64", t.Uint64)
	case *list_j5pb.FieldConstraint_Float:
		return one("LFloat", t.Float)
	case *list_j5pb.FieldConstraint_Double:
		return one("LDouble", t.Double)
	case *list_j5pb.FieldConstraint_Timestamp:
		return one("LTimestamp", t.Timestamp)
	case *list_j5pb.FieldConstraint_Date:
		return one("LDate", t.Date)
	case *list_j5pb.FieldConstraint_Decimal:
		return one("LDecimal", t.Decimal)
	case *list_j5pb.FieldConstraint_Any:
		return one("LAny", t.Any)
	case *list_j5pb.FieldConstraint_Enum:
		return one("LEnum", t.Enum)
	case *list_j5pb.FieldConstraint_Oneof:
		return one("LOneof", t.Oneof)
	case *list_j5pb.FieldConstraint_String_:
		s := "LSNone"
		switch w := t.String_.WellKnown.(type) {
		case nil:
		case *list_j5pb.StringRules_OpenText:
			s = "(LSOpenText " + Tok(w.OpenText) + ")"
		case *list_j5pb.StringRules_Date:
			s = "LSDate"
		case *list_j5pb.StringRules_ForeignKey:
			switch k := w.ForeignKey.Type.(type) {
			case nil:
				s = "LSFkNone"
			case *list_j5pb.ForeignKeyRules_UniqueString:
				s = "(LSFkUnique " + Tok(k.UniqueString) + ")"
			case *list_j5pb.ForeignKeyRules_Uuid:
				s = "(LSFkUuid " + Tok(k.Uuid) + ")"
			case *list_j5pb.ForeignKeyRules_Id62:
				s = "(LSFkId62 " + Tok(k.Id62) + ")"
			}
		}
		return some("(LString " + s + ")")
	default:
		return some("LOther")
	}
}

func strBounds(mn, mx *string, emn, emx *bool) string {
	return fmt.Sprintf("(StrBounds %s %s %s %s)", optStr(mn), optStr(mx), optBool(emn), optBool(emx))
}

func dumpJ5(fo *ext_j5pb.FieldOptions) string {
	if fo == nil {
		return "None"
	}
	switch t := fo.Type.(type) {
	case nil:
		return some("JNone")
	case *ext_j5pb.FieldOptions_Message:
		return some("(JMessage " + boolT(t.Message.Flatten) + ")")
	case *ext_j5pb.FieldOptions_Object:
		return some("(JObject " + boolT(t.Object.Flatten) + ")")
	case *ext_j5pb.FieldOptions_Array:
		return some("(JArray " + optStr(t.Array.SingleForm) + ")")
	case *ext_j5pb.FieldOptions_Map:
		return some("(JMap " + optStr(t.Map.SingleForm) + ")")
	case *ext_j5pb.FieldOptions_Date:
		if t.Date.Rules == nil {
			return some("(JDate None)")
		}
		r := t.Date.Rules
		return some("(JDate " + some(strBounds(r.Minimum, r.Maximum, r.ExclusiveMinimum, r.ExclusiveMaximum)) + ")")
	case *ext_j5pb.FieldOptions_Decimal:
		if t.Decimal.Rules == nil {
			return some("(JDecimal None)")
		}
		dr := t.Decimal.Rules
		return some("(JDecimal " + some(strBounds(dr.Minimum, dr.Maximum, dr.ExclusiveMinimum, dr.ExclusiveMaximum)) + ")")
	case *ext_j5pb.FieldOptions_Key:
		switch k := t.Key.Type.(type) {
		case nil:
			return some("(JKey KeyTypeNone)")
		case *ext_j5pb.KeyField_Pattern:
			return some("(JKey (KeyPattern " + Str(k.Pattern) + "))")
		case *ext_j5pb.KeyField_Format_:
			return some(fmt.Sprintf("(JKey (KeyFormat %d))", int32(k.Format)))
		}
		return some("JOther")
	case *ext_j5pb.FieldOptions_Any:
		return some("(JAny " + boolT(t.Any.OnlyDefined) + " " + strList(t.Any.Types) + ")")
	default:
		return some("JOther")
	}
}

func dumpPsmKey(k *ext_j5pb.PSMKeyFieldOptions) string {
	if k == nil {
		return "None"
	}
	return some(fmt.Sprintf("(PsmKey %s %s %s)", boolT(k.PrimaryKey), optTok(k.ForeignKey), optStr(k.TenantType)))
}

func fieldOpts(fd protoreflect.FieldDescriptor, keySrc protoreflect.FieldDescriptor) string {
	v, _ := proto.GetExtension(fd.Options(), validate.E_Field).(*validate.FieldConstraints)
	l, _ := proto.GetExtension(fd.Options(), list_j5pb.E_Field).(*list_j5pb.FieldConstraint)
	j, _ := proto.GetExtension(fd.Options(), ext_j5pb.E_Field).(*ext_j5pb.FieldOptions)
	k, _ := proto.GetExtension(keySrc.Options(), ext_j5pb.E_Key).(*ext_j5pb.PSMKeyFieldOptions)
	return fmt.Sprintf("(FOpts %s %s %s %s)", dumpFCon(v), dumpList(l), dumpJ5(j), dumpPsmKey(k))
}

func fieldTerm(fd protoreflect.FieldDescriptor) string {
	typed := fd
	card := "CSingle"
	switch {
	case fd.IsMap():
		card = "(CMap " + KindTerm(fd.MapKey().Kind()) + ")"
		typed = fd.MapValue()
	case fd.IsList():
		card = "CRepeated"
	case fd.HasOptionalKeyword():
		card = "COptional"
	}
	ty := "TNone"
	switch typed.Kind() {
	case protoreflect.MessageKind, protoreflect.GroupKind:
		ty = "(TMsg " + Str(string(typed.Message().FullName())) + ")"
	case protoreflect.EnumKind:
		ty = "(TEnum " + Str(string(typed.Enum().FullName())) + ")"
	}
	oneof := "None"
	if o := fd.ContainingOneof(); o != nil {
		oneof = some(fmt.Sprintf("%d", o.Index()))
	}
	return fmt.Sprintf("Fld %s %s %d %s %s %s %s %s %s", Str(string(fd.Name())), Str(fd.JSONName()), fd.Number(),
		KindTerm(typed.Kind()), card, oneof, ty, fieldOpts(fd, typed), Str(Description(fd)))
}

func msgTerm(md protoreflect.MessageDescriptor) string {
	pkg, path := splitName(md)
	var fields, oneofs []string
	for i := 0; i < md.Fields().Len(); i++ {
		fields = append(fields, fieldTerm(md.Fields().Get(i)))
	}
	for i := 0; i < md.Oneofs().Len(); i++ {
		o := md.Oneofs().Get(i)
		ext := "None"
		if oo, _ := proto.GetExtension(o.Options(), ext_j5pb.E_Oneof).(*ext_j5pb.OneofOptions); oo != nil {
			ext = some(boolT(oo.Expose))
		}
		oneofs = append(oneofs, fmt.Sprintf("Oneof %s %s %s %s %s", Str(string(o.Name())), Str(strcase.ToLowerCamel(string(o.Name()))), boolT(o.IsSynthetic()), ext, Str(Description(o))))
	}
	mo := "None"
	if m, _ := proto.GetExtension(md.Options(), ext_j5pb.E_Message).(*ext_j5pb.MessageOptions); m != nil {
		t := "MTNone"
		switch tt := m.Type.(type) {
		case *ext_j5pb.MessageOptions_Object:
			t = "(MTObject " + strList(tt.Object.AnyMember) + ")"
		case *ext_j5pb.MessageOptions_Oneof:
			t = "MTOneof"
		}
		mo = some(fmt.Sprintf("(MsgOpt %s %s)", boolT(m.IsOneofWrapper), t))
	}
	psm := "None"
	if p, _ := proto.GetExtension(md.Options(), ext_j5pb.E_Psm).(*ext_j5pb.PSMOptions); p != nil {
		part := "None"
		if p.EntityPart != nil {
			part = some(fmt.Sprintf("%d", int32(*p.EntityPart)))
		}
		psm = some(fmt.Sprintf("(PsmOpt %s %s)", Str(p.EntityName), part))
	}
	return fmt.Sprintf("Msg %s %s %s\n      %s\n      %s %s %s %s", Str(string(md.FullName())), Str(pkg), strList(path), list(fields), list(oneofs), mo, psm, Str(Description(md)))
}

func infoTerm(m map[string]string) string {
	if m == nil {
		return "None"
	}
	keys := make([]string, 0, len(m))
	for k := range m {
		keys = append(keys, k)
	}
	sort.Strings(keys)
	var it []string
	for _, k := range keys {
		it = append(it, "("+Str(k)+", "+Str(m[k])+")")
	}
	return some(list(it))
}

func enumTerm(ed protoreflect.EnumDescriptor) string {
	pkg, path := splitName(ed)
	var vals []string
	for i := 0; i < ed.Values().Len(); i++ {
		v := ed.Values().Get(i)
		info := "None"
		if o, _ := proto.GetExtension(v.Options(), ext_j5pb.E_EnumValue).(*ext_j5pb.EnumValueOptions); o != nil && o.Info != nil {
			info = infoTerm(o.Info)
		}
		vals = append(vals, fmt.Sprintf("EnumVal %s %s %s %s", Str(string(v.Name())), zT(int64(v.Number())), info, Str(Description(v))))
	}
	eo := "None"
	if o, _ := proto.GetExtension(ed.Options(), ext_j5pb.E_Enum).(*ext_j5pb.EnumOptions); o != nil {
		var fs []string
		for _, f := range o.InfoFields {
			fs = append(fs, fmt.Sprintf("(%s, %s, %s)", Str(f.Name), Str(f.Label), Str(f.Description)))
		}
		eo = some(fmt.Sprintf("(EnumOpt %s %s)", boolT(o.NoDefault), list(fs)))
	}
	return fmt.Sprintf("Enum %s %s %s %s %s %s", Str(string(ed.FullName())), Str(pkg), strList(path), list(vals), eo, Str(Description(ed)))
}

// DescTerm dumps the generated files of a linked set, plus every message / enum
// reachable from them that the reader may descend into, as a Coq [desc].
func DescTerm(files *protoregistry.Files, genPaths []string) (string, error) {
	seenM := map[protoreflect.FullName]bool{}
	seenE := map[protoreflect.FullName]bool{}
	var msgs, enums, fileTerms []string
	var addMsg func(md protoreflect.MessageDescriptor)
	addEnum := func(ed protoreflect.EnumDescriptor) {
		if seenE[ed.FullName()] {
			return
		}
		seenE[ed.FullName()] = true
		enums = append(enums, enumTerm(ed))
	}
	addMsg = func(md protoreflect.MessageDescriptor) {
		if seenM[md.FullName()] || md.IsMapEntry() || readerOpaque(string(md.FullName())) {
			return
		}
		seenM[md.FullName()] = true
		msgs = append(msgs, msgTerm(md))
		for i := 0; i < md.Fields().Len(); i++ {
			f := md.Fields().Get(i)
			if f.IsMap() {
				f = f.MapValue()
			}
			if f.Message() != nil {
				addMsg(f.Message())
			}
			if f.Enum() != nil {
				addEnum(f.Enum())
			}
		}
	}
	for _, p := range genPaths {
		fd, err := files.FindFileByPath(p)
		if err != nil {
			return "", err
		}
		var tm, te []string
		for i := 0; i < fd.Messages().Len(); i++ {
			tm = append(tm, Str(string(fd.Messages().Get(i).FullName())))
		}
		for i := 0; i < fd.Enums().Len(); i++ {
			te = append(te, Str(string(fd.Enums().Get(i).FullName())))
		}
		fileTerms = append(fileTerms, fmt.Sprintf("File %s %s %s %s", Str(p), Str(string(fd.Package())), list(tm), list(te)))
		for _, m := range AllMessages(fd) {
			addMsg(m)
		}
		for _, e := range AllEnums(fd) {
			addEnum(e)
		}
	}
	return fmt.Sprintf("{| d_msgs := [\n    %s];\n  d_enums := [\n    %s];\n  d_files := %s |}",
		strings.Join(msgs, ";\n    "), strings.Join(enums, ";\n    "), list(fileTerms)), nil
}

// ---------------------------------------------------------------- exported schema -> Coq

func refTerm(r *schema_j5pb.Ref) string {
	return "(" + Str(r.GetPackage()) + ", " + Str(r.GetSchema()) + ")"
}

func zbounds(mn, mx *int64, emn, emx *bool) string {
	return fmt.Sprintf("(ZBounds %s %s %s %s)", optZ(mn), optZ(mx), optBool(emn), optBool(emx))
}

func optF(v *float64) string {
	if v == nil {
		return "None"
	}
	return some(fbits(*v))
}

func optTs(t *timestamppb.Timestamp) string {
	if t == nil {
		return "None"
	}
	return some(fmt.Sprintf("(%s, %s)", zT(t.Seconds), zT(int64(t.Nanos))))
}

// schemaTerm renders the `schema` oneof of an enum / object / oneof field of the source form.
func schemaTerm(ref *schema_j5pb.Ref, inline bool) string {
	switch {
	case ref != nil:
		return "(XRef " + refTerm(ref) + ")"
	case inline:
		return "XInline"
	}
	return "XUnset"
}

// FieldTerm renders a schema_j5pb.Field as a Coq [xfield] (coq/model/ExportForm.v).
func FieldTerm(f *schema_j5pb.Field) (string, error) { return j5FieldTerm(f, true) }

// j5FieldTerm: x = true renders the source form ([xfield]); x = false renders the same message as the
// reader's [fschema] with the scalar Kind / WellKnownTypeName absent (FScalar None), for the direct
// comparison with the reader's own objects (inline schemas are not representable there).
func j5FieldTerm(f *schema_j5pb.Field, x bool) (string, error) {
	con := func(name string) string {
		if x {
			return "X" + name
		}
		return "F" + name
	}
	sch := func(ref *schema_j5pb.Ref, inline bool, what string) (string, error) {
		if x {
			return schemaTerm(ref, inline), nil
		}
		if ref == nil {
			return "", fmt.Errorf("inline or unset %s", what)
		}
		return refTerm(ref), nil
	}
	switch t := f.Type.(type) {
	case *schema_j5pb.Field_Any:
		return fmt.Sprintf("(%s %s %s %s)", con("Any"), boolT(t.Any.OnlyDefined), strList(t.Any.Types), optTok(t.Any.ListRules)), nil
	case *schema_j5pb.Field_Enum:
		var ref *schema_j5pb.Ref
		if r, ok := t.Enum.Schema.(*schema_j5pb.EnumField_Ref); ok {
			ref = r.Ref
		}
		_, inline := t.Enum.Schema.(*schema_j5pb.EnumField_Enum)
		st, err := sch(ref, inline, "enum")
		if err != nil {
			return "", err
		}
		rules := "None"
		if t.Enum.Rules != nil {
			rules = some("(" + strList(t.Enum.Rules.In) + ", " + strList(t.Enum.Rules.NotIn) + ")")
		}
		return fmt.Sprintf("(%s %s %s %s %s)", con("Enum"), st, rules, optTok(t.Enum.ListRules), optTok(t.Enum.Ext)), nil
	case *schema_j5pb.Field_Object:
		var ref *schema_j5pb.Ref
		if r, ok := t.Object.Schema.(*schema_j5pb.ObjectField_Ref); ok {
			ref = r.Ref
		}
		_, inline := t.Object.Schema.(*schema_j5pb.ObjectField_Object)
		st, err := sch(ref, inline, "object")
		if err != nil {
			return "", err
		}
		return fmt.Sprintf("(%s %s %s %s %s)", con("Object"), st, boolT(t.Object.Flatten), optTok(t.Object.Rules), optTok(t.Object.Ext)), nil
	case *schema_j5pb.Field_Oneof:
		var ref *schema_j5pb.Ref
		if r, ok := t.Oneof.Schema.(*schema_j5pb.OneofField_Ref); ok {
			ref = r.Ref
		}
		_, inline := t.Oneof.Schema.(*schema_j5pb.OneofField_Oneof)
		st, err := sch(ref, inline, "oneof")
		if err != nil {
			return "", err
		}
		return fmt.Sprintf("(%s %s %s %s %s)", con("Oneof"), st, optTok(t.Oneof.Rules), optTok(t.Oneof.ListRules), optTok(t.Oneof.Ext)), nil
	case *schema_j5pb.Field_Map:
		item, err := j5FieldTerm(t.Map.ItemSchema, x)
		if err != nil {
			return "", err
		}
		rules := "None"
		if t.Map.Rules != nil {
			rules = some("(" + optN(t.Map.Rules.MinPairs) + ", " + optN(t.Map.Rules.MaxPairs) + ")")
		}
		ext := "None"
		if t.Map.Ext != nil {
			ext = some(optStr(t.Map.Ext.SingleForm))
		}
		return fmt.Sprintf("(%s %s %s %s)", con("Map"), item, rules, ext), nil
	case *schema_j5pb.Field_Array:
		item, err := j5FieldTerm(t.Array.Items, x)
		if err != nil {
			return "", err
		}
		rules := "None"
		if t.Array.Rules != nil {
			rules = some("(" + optN(t.Array.Rules.MinItems) + ", " + optN(t.Array.Rules.MaxItems) + ", " + optBool(t.Array.Rules.UniqueItems) + ")")
		}
		ext := "None"
		if t.Array.Ext != nil {
			ext = some(optStr(t.Array.Ext.SingleForm))
		}
		return fmt.Sprintf("(%s %s %s %s)", con("Array"), item, rules, ext), nil
	}
	p, err := sprotoTerm(f)
	if err != nil {
		return "", err
	}
	if x {
		return "(XScalar " + p + ")", nil
	}
	return "(FScalar None " + p + ")", nil
}

func sprotoTerm(f *schema_j5pb.Field) (string, error) {
	switch t := f.Type.(type) {
	case *schema_j5pb.Field_Bool:
		rules := "None"
		if t.Bool.Rules != nil {
			rules = some(optBool(t.Bool.Rules.Const))
		}
		return fmt.Sprintf("(PBool %s %s)", rules, optTok(t.Bool.ListRules)), nil
	case *schema_j5pb.Field_Integer:
		rules := "None"
		if r := t.Integer.Rules; r != nil {
			rules = some(zbounds(r.Minimum, r.Maximum, r.ExclusiveMinimum, r.ExclusiveMaximum))
		}
		return fmt.Sprintf("(PInteger %d %s %s)", int32(t.Integer.Format), rules, optTok(t.Integer.ListRules)), nil
	case *schema_j5pb.Field_Float:
		rules := "None"
		if r := t.Float.Rules; r != nil {
			rules = some(fmt.Sprintf("(ZBounds %s %s %s %s)", optF(r.Minimum), optF(r.Maximum), optBool(r.ExclusiveMinimum), optBool(r.ExclusiveMaximum)))
		}
		return fmt.Sprintf("(PFloat %d %s %s)", int32(t.Float.Format), rules, optTok(t.Float.ListRules)), nil
	case *schema_j5pb.Field_Bytes:
		rules := "None"
		if r := t.Bytes.Rules; r != nil {
			rules = some("(" + optN(r.MinLength) + ", " + optN(r.MaxLength) + ")")
		}
		return fmt.Sprintf("(PBytes %s)", rules), nil
	case *schema_j5pb.Field_String_:
		rules := "None"
		if r := t.String_.Rules; r != nil {
			rules = some(fmt.Sprintf("(StrLen %s %s %s)", optStr(r.Pattern), optN(r.MinLength), optN(r.MaxLength)))
		}
		return fmt.Sprintf("(PString %s %s %s)", optStr(t.String_.Format), rules, optTok(t.String_.ListRules)), nil
	case *schema_j5pb.Field_Key:
		format := "None"
		if t.Key.Format != nil {
			switch k := t.Key.Format.Type.(type) {
			case *schema_j5pb.KeyFormat_Informal_:
				format = some("KFInformal")
			case *schema_j5pb.KeyFormat_Custom_:
				format = some("(KFCustom " + Str(k.Custom.Pattern) + ")")
			case *schema_j5pb.KeyFormat_Uuid:
				format = some("KFUuid")
			case *schema_j5pb.KeyFormat_Id62:
				format = some("KFId62")
			default:
				return "", fmt.Errorf("key format without a type")
			}
		}
		entity := "None"
		if t.Key.Entity != nil {
			ek := "EKNone"
			switch e := t.Key.Entity.Type.(type) {
			case *schema_j5pb.EntityKey_PrimaryKey:
				ek = "EKPrimary"
			case *schema_j5pb.EntityKey_ForeignKey:
				ek = "(EKForeign " + Tok(e.ForeignKey) + ")"
			}
			entity = some("(EntityK " + ek + " " + optStr(t.Key.Entity.TenantKey) + ")")
		}
		return fmt.Sprintf("(PKey %s %s %s)", format, entity, optTok(t.Key.ListRules)), nil
	case *schema_j5pb.Field_Timestamp:
		rules := "None"
		if r := t.Timestamp.Rules; r != nil {
			rules = some(fmt.Sprintf("(TsBounds %s %s %s %s)", optTs(r.Minimum), optTs(r.Maximum), optBool(r.ExclusiveMinimum), optBool(r.ExclusiveMaximum)))
		}
		return fmt.Sprintf("(PTimestamp %s %s)", rules, optTok(t.Timestamp.ListRules)), nil
	case *schema_j5pb.Field_Date:
		rules := "None"
		if r := t.Date.Rules; r != nil {
			rules = some(strBounds(r.Minimum, r.Maximum, r.ExclusiveMinimum, r.ExclusiveMaximum))
		}
		return fmt.Sprintf("(PDate %s %s)", rules, optTok(t.Date.ListRules)), nil
	case *schema_j5pb.Field_Decimal:
		rules := "None"
		if r := t.Decimal.Rules; r != nil {
			rules = some(strBounds(r.Minimum, r.Maximum, r.ExclusiveMinimum, r.ExclusiveMaximum))
		}
		return fmt.Sprintf("(PDecimal %s %s)", rules, optTok(t.Decimal.ListRules)), nil
	}
	return "", fmt.Errorf("field without a known type: %T", f.Type)
}

func propTerm(p *schema_j5pb.ObjectProperty, x bool) (string, error) {
	s, err := j5FieldTerm(p.Schema, x)
	if err != nil {
		return "", err
	}
	var path []string
	for _, n := range p.ProtoField {
		path = append(path, fmt.Sprintf("%d", n))
	}
	con := "Prop_"
	if x {
		con = "XProp"
	}
	return fmt.Sprintf("%s %s %s %s %s %s %s", con, Str(p.Name), list(path), boolT(p.Required), boolT(p.ExplicitlyOptional), Str(p.Description), s), nil
}

// RootTerm renders an exported RootSchema as a Coq [xroot] (the source form, coq/model/ExportForm.v).
func RootTerm(r *schema_j5pb.RootSchema) (string, error) { return rootTerm(r, true) }

// RootTermAsReflected renders an exported RootSchema with the constructors of the reader's [root]
// (scalars as FScalar None): what the reader's own object must look like apart from Kind / WKT name.
func RootTermAsReflected(r *schema_j5pb.RootSchema) (string, error) { return rootTerm(r, false) }

func rootTerm(r *schema_j5pb.RootSchema, x bool) (string, error) {
	props := func(ps []*schema_j5pb.ObjectProperty) (string, error) {
		var it []string
		for _, p := range ps {
			s, err := propTerm(p, x)
			if err != nil {
				return "", err
			}
			it = append(it, s)
		}
		return list(it), nil
	}
	con := func(xname, rname string) string {
		if x {
			return xname
		}
		return rname
	}
	switch t := r.Type.(type) {
	case *schema_j5pb.RootSchema_Object:
		ps, err := props(t.Object.Properties)
		if err != nil {
			return "", err
		}
		ent := "None"
		if t.Object.Entity != nil {
			ent = some(fmt.Sprintf("(%s, %d)", Str(t.Object.Entity.Entity), int32(t.Object.Entity.Part)))
		}
		return fmt.Sprintf("%s %s %s %s %s %s", con("XObjectR", "RObject"), Str(t.Object.Name), Str(t.Object.Description), ent, strList(t.Object.AnyMember), ps), nil
	case *schema_j5pb.RootSchema_Oneof:
		ps, err := props(t.Oneof.Properties)
		if err != nil {
			return "", err
		}
		return fmt.Sprintf("%s %s %s %s", con("XOneofR", "ROneof"), Str(t.Oneof.Name), Str(t.Oneof.Description), ps), nil
	case *schema_j5pb.RootSchema_Enum:
		var opts, info []string
		for _, o := range t.Enum.Options {
			opts = append(opts, fmt.Sprintf("%s %s %s %s %s", con("XOption", "EnumOption"), Str(o.Name), zT(int64(o.Number)), Str(o.Description), infoTerm(o.Info)))
		}
		for _, f := range t.Enum.Info {
			info = append(info, fmt.Sprintf("(%s, %s, %s)", Str(f.Name), Str(f.Label), Str(f.Description)))
		}
		return fmt.Sprintf("%s %s %s %s %s %s", con("XEnumR", "REnum"), Str(t.Enum.Name), Str(t.Enum.Description), Str(t.Enum.Prefix), list(opts), list(info)), nil
	}
	return "", fmt.Errorf("root without a type")
}

// ---------------------------------------------------------------- what of schema.proto the export form covers

const (
	covDescend = iota // rendered member by member
	covOpaque         // rendered as a token of the whole deterministic encoding
	covKeyConst       // MapField.key_schema: must be the constant unconstrained string schema
)

func covSet(mode int, names ...string) map[string]int {
	m := map[string]int{}
	for _, n := range names {
		m[n] = mode
	}
	return m
}

func covMerge(ms ...map[string]int) map[string]int {
	out := map[string]int{}
	for _, m := range ms {
		for k, v := range m {
			out[k] = v
		}
	}
	return out
}

var bounds4 = covSet(covDescend, "minimum", "maximum", "exclusive_minimum", "exclusive_maximum")

// exportCovered lists, per message of j5.schema.v1, the fields RootTerm renders (and so the Coq export
// form carries). A populated field outside this table is invisible to the model.
var exportCovered = map[string]map[string]int{
	"j5.schema.v1.RootSchema":            covSet(covDescend, "oneof", "object", "enum"),
	"j5.schema.v1.Object":                covSet(covDescend, "name", "description", "entity", "properties", "any_member"),
	"j5.schema.v1.EntityObject":          covSet(covDescend, "entity", "part"),
	"j5.schema.v1.Oneof":                 covSet(covDescend, "name", "description", "properties"),
	"j5.schema.v1.Enum":                  covSet(covDescend, "name", "description", "prefix", "options", "info"),
	"j5.schema.v1.Enum.Option":           covSet(covDescend, "name", "number", "description", "info"),
	"j5.schema.v1.Enum.OptionInfoField":  covSet(covDescend, "name", "label", "description"),
	"j5.schema.v1.ObjectProperty":        covSet(covDescend, "schema", "name", "required", "explicitly_optional", "description", "proto_field"),
	"j5.schema.v1.Field":                 covSet(covDescend, "any", "oneof", "object", "enum", "array", "map", "string", "integer", "float", "bool", "bytes", "decimal", "date", "timestamp", "key"),
	"j5.schema.v1.Ref":                   covSet(covDescend, "package", "schema"),
	"j5.schema.v1.AnyField":              covMerge(covSet(covDescend, "only_defined", "types"), covSet(covOpaque, "list_rules")),
	"j5.schema.v1.ObjectField":           covMerge(covSet(covDescend, "ref", "flatten"), covSet(covOpaque, "rules", "ext")),
	"j5.schema.v1.OneofField":            covMerge(covSet(covDescend, "ref"), covSet(covOpaque, "rules", "list_rules", "ext")),
	"j5.schema.v1.EnumField":             covMerge(covSet(covDescend, "ref", "rules"), covSet(covOpaque, "list_rules", "ext")),
	"j5.schema.v1.EnumField.Rules":       covSet(covDescend, "in", "not_in"),
	"j5.schema.v1.ArrayField":            covSet(covDescend, "rules", "items", "ext"),
	"j5.schema.v1.ArrayField.Rules":      covSet(covDescend, "min_items", "max_items", "unique_items"),
	"j5.schema.v1.ArrayField.Ext":        covSet(covDescend, "single_form"),
	"j5.schema.v1.MapField":              covMerge(covSet(covDescend, "item_schema", "rules", "ext"), covSet(covKeyConst, "key_schema")),
	"j5.schema.v1.MapField.Rules":        covSet(covDescend, "min_pairs", "max_pairs"),
	"j5.schema.v1.MapField.Ext":          covSet(covDescend, "single_form"),
	"j5.schema.v1.StringField":           covMerge(covSet(covDescend, "format", "rules"), covSet(covOpaque, "list_rules")),
	"j5.schema.v1.StringField.Rules":     covSet(covDescend, "pattern", "min_length", "max_length"),
	"j5.schema.v1.FloatField":            covMerge(covSet(covDescend, "format", "rules"), covSet(covOpaque, "list_rules")),
	"j5.schema.v1.FloatField.Rules":      bounds4,
	"j5.schema.v1.IntegerField":          covMerge(covSet(covDescend, "format", "rules"), covSet(covOpaque, "list_rules")),
	"j5.schema.v1.IntegerField.Rules":    bounds4,
	"j5.schema.v1.BoolField":             covMerge(covSet(covDescend, "rules"), covSet(covOpaque, "list_rules")),
	"j5.schema.v1.BoolField.Rules":       covSet(covDescend, "const"),
	"j5.schema.v1.BytesField":            covSet(covDescend, "rules"),
	"j5.schema.v1.BytesField.Rules":      covSet(covDescend, "min_length", "max_length"),
	"j5.schema.v1.DecimalField":          covMerge(covSet(covDescend, "rules"), covSet(covOpaque, "list_rules")),
	"j5.schema.v1.DecimalField.Rules":    bounds4,
	"j5.schema.v1.DateField":             covMerge(covSet(covDescend, "rules"), covSet(covOpaque, "list_rules")),
	"j5.schema.v1.DateField.Rules":       bounds4,
	"j5.schema.v1.TimestampField":        covMerge(covSet(covDescend, "rules"), covSet(covOpaque, "list_rules")),
	"j5.schema.v1.TimestampField.Rules":  bounds4,
	"j5.schema.v1.KeyField":              covMerge(covSet(covDescend, "format", "entity"), covSet(covOpaque, "list_rules")),
	"j5.schema.v1.KeyFormat":             covSet(covDescend, "informal", "custom", "uuid", "id62"),
	"j5.schema.v1.KeyFormat.Custom":      covSet(covDescend, "pattern"),
	"j5.schema.v1.KeyFormat.Informal":    {},
	"j5.schema.v1.KeyFormat.UUID":        {},
	"j5.schema.v1.KeyFormat.ID62":        {},
	"j5.schema.v1.EntityKey":             covMerge(covSet(covDescend, "primary_key", "tenant_key"), covSet(covOpaque, "foreign_key")),
}

// ExportCoverage walks an exported schema and returns every populated field of a j5.schema.v1 message
// that the Coq export form does not carry (sorted, each once), e.g. "j5.schema.v1.IntegerField.Rules.multiple_of".
func ExportCoverage(m proto.Message) []string {
	seen := map[string]bool{}
	var walk func(msg protoreflect.Message)
	walk = func(msg protoreflect.Message) {
		md := msg.Descriptor()
		if md.ParentFile().Package() != "j5.schema.v1" {
			return
		}
		allowed, known := exportCovered[string(md.FullName())]
		msg.Range(func(fd protoreflect.FieldDescriptor, v protoreflect.Value) bool {
			name := string(fd.Name())
			mode, ok := allowed[name]
			if !known || !ok {
				seen[string(md.FullName())+"."+name] = true
				return true
			}
			switch mode {
			case covOpaque:
			case covKeyConst:
				want := &schema_j5pb.Field{Type: &schema_j5pb.Field_String_{}}
				got, _ := v.Message().Interface().(*schema_j5pb.Field)
				if got == nil || !(proto.Equal(got, want) || proto.Equal(got, &schema_j5pb.Field{Type: &schema_j5pb.Field_String_{String_: &schema_j5pb.StringField{}}})) {
					seen[string(md.FullName())+"."+name+" (not the constant string schema)"] = true
				}
			default:
				switch {
				case fd.IsMap():
				case fd.IsList() && fd.Message() != nil:
					l := v.List()
					for i := 0; i < l.Len(); i++ {
						walk(l.Get(i).Message())
					}
				case fd.Message() != nil:
					walk(v.Message())
				}
			}
			return true
		})
	}
	walk(m.ProtoReflect())
	var out []string
	for k := range seen {
		out = append(out, k)
	}
	sort.Strings(out)
	return out
}

// APITerm renders the packages of a source_j5pb.API as a Coq [xapi] (coq/model/ExportApi.v): packages in
// the order of the API, schema maps sorted by name.
func APITerm(api *source_j5pb.API) (string, error) {
	schemas := func(m map[string]*schema_j5pb.RootSchema) (string, error) {
		var names []string
		for n := range m {
			names = append(names, n)
		}
		sort.Strings(names)
		var it []string
		for _, n := range names {
			t, err := RootTerm(m[n])
			if err != nil {
				return "", fmt.Errorf("%s: %w", n, err)
			}
			it = append(it, fmt.Sprintf("(%s, %s)", Str(n), t))
		}
		return "[" + strings.Join(it, ";\n      ") + "]", nil
	}
	var pkgs []string
	for _, p := range api.Packages {
		ps, err := schemas(p.Schemas)
		if err != nil {
			return "", fmt.Errorf("%s: %w", p.Name, err)
		}
		var subs []string
		for _, sp := range p.SubPackages {
			ss, err := schemas(sp.Schemas)
			if err != nil {
				return "", fmt.Errorf("%s.%s: %w", p.Name, sp.Name, err)
			}
			subs = append(subs, fmt.Sprintf("XSub %s %s", Str(sp.Name), ss))
		}
		pkgs = append(pkgs, fmt.Sprintf("XPackage %s %s %s %s", Str(p.Name), boolT(p.Indirect), ps, list(subs)))
	}
	return "[" + strings.Join(pkgs, ";\n    ") + "]", nil
}

// ---------------------------------------------------------------- reflected schema objects -> Coq

// InternalFieldTerm renders a j5schema.FieldSchema (the reader's own objects,
// including ScalarSchema.Kind / WellKnownTypeName) as a Coq [fschema].
func InternalFieldTerm(fs j5schema.FieldSchema) (string, error) {
	switch t := fs.(type) {
	case *j5schema.ScalarSchema:
		p, err := sprotoTerm(t.Proto)
		if err != nil {
			return "", err
		}
		return fmt.Sprintf("(FScalar (Some (%s, %s)) %s)", KindTerm(t.Kind), Str(string(t.WellKnownTypeName)), p), nil
	case *j5schema.AnyField:
		var types []string
		for _, n := range t.Types {
			types = append(types, string(n))
		}
		return fmt.Sprintf("(FAny %s %s %s)", boolT(t.OnlyDefined), strList(types), optTok(t.ListRules)), nil
	case *j5schema.EnumField:
		rules := "None"
		if t.Rules != nil {
			rules = some("(" + strList(t.Rules.In) + ", " + strList(t.Rules.NotIn) + ")")
		}
		return fmt.Sprintf("(FEnum (%s, %s) %s %s %s)", Str(t.Ref.Package.Name), Str(t.Ref.Schema), rules, optTok(t.ListRules), optTok(t.Ext)), nil
	case *j5schema.ObjectField:
		return fmt.Sprintf("(FObject (%s, %s) %s %s %s)", Str(t.Ref.Package.Name), Str(t.Ref.Schema), boolT(t.Flatten), optTok(t.Rules), optTok(t.Ext)), nil
	case *j5schema.OneofField:
		return fmt.Sprintf("(FOneof (%s, %s) %s %s %s)", Str(t.Ref.Package.Name), Str(t.Ref.Schema), optTok(t.Rules), optTok(t.ListRules), optTok(t.Ext)), nil
	case *j5schema.MapField:
		item, err := InternalFieldTerm(t.Schema)
		if err != nil {
			return "", err
		}
		rules := "None"
		if t.Rules != nil {
			rules = some("(" + optN(t.Rules.MinPairs) + ", " + optN(t.Rules.MaxPairs) + ")")
		}
		ext := "None"
		if t.Ext != nil {
			ext = some(optStr(t.Ext.SingleForm))
		}
		return fmt.Sprintf("(FMap %s %s %s)", item, rules, ext), nil
	case *j5schema.ArrayField:
		item, err := InternalFieldTerm(t.Schema)
		if err != nil {
			return "", err
		}
		rules := "None"
		if t.Rules != nil {
			rules = some("(" + optN(t.Rules.MinItems) + ", " + optN(t.Rules.MaxItems) + ", " + optBool(t.Rules.UniqueItems) + ")")
		}
		ext := "None"
		if t.Ext != nil {
			ext = some(optStr(t.Ext.SingleForm))
		}
		return fmt.Sprintf("(FArray %s %s %s)", item, rules, ext), nil
	}
	return "", fmt.Errorf("unknown field schema %T", fs)
}

func internalProps(ps j5schema.PropertySet) (string, error) {
	var it []string
	for _, p := range ps {
		s, err := InternalFieldTerm(p.Schema)
		if err != nil {
			return "", err
		}
		var path []string
		for _, n := range p.ProtoField {
			path = append(path, fmt.Sprintf("%d", n))
		}
		it = append(it, fmt.Sprintf("Prop_ %s %s %s %s %s %s", Str(p.JSONName), list(path), boolT(p.Required), boolT(p.ExplicitlyOptional), Str(p.Description), s))
	}
	return list(it), nil
}

// InternalRootTerm renders a j5schema.RootSchema as a Coq [root].
func InternalRootTerm(r j5schema.RootSchema) (string, error) {
	switch t := r.(type) {
	case *j5schema.ObjectSchema:
		ps, err := internalProps(t.Properties)
		if err != nil {
			return "", err
		}
		ent := "None"
		if t.Entity != nil {
			ent = some(fmt.Sprintf("(%s, %d)", Str(t.Entity.Entity), int32(t.Entity.Part)))
		}
		return fmt.Sprintf("RObject %s %s %s %s %s", Str(t.Name()), Str(t.Description()), ent, strList(t.AnyMember), ps), nil
	case *j5schema.OneofSchema:
		ps, err := internalProps(t.Properties)
		if err != nil {
			return "", err
		}
		return fmt.Sprintf("ROneof %s %s %s", Str(t.Name()), Str(t.Description()), ps), nil
	case *j5schema.EnumSchema:
		var opts, info []string
		for _, o := range t.Options {
			opts = append(opts, fmt.Sprintf("EnumOption %s %s %s %s", Str(o.Name()), zT(int64(o.Number())), Str(o.Description()), infoTerm(o.Info)))
		}
		for _, f := range t.InfoFields {
			info = append(info, fmt.Sprintf("(%s, %s, %s)", Str(f.Name), Str(f.Label), Str(f.Description)))
		}
		return fmt.Sprintf("REnum %s %s %s %s %s", Str(t.Name()), Str(t.Description()), Str(t.NamePrefix), list(opts), list(info)), nil
	}
	return "", fmt.Errorf("unknown root schema %T", r)
}

// SetTerm renders a whole schema set as a Coq list ((package, name), root), sorted by key.
func SetTerm(ss *j5schema.SchemaSet) (string, error) {
	type ent struct{ pkg, name, term string }
	var ents []ent
	for _, pkg := range ss.Packages {
		for name, ref := range pkg.Schemas {
			if ref.To == nil {
				ents = append(ents, ent{pkg.Name, name, "None"})
				continue
			}
			t, err := InternalRootTerm(ref.To)
			if err != nil {
				return "", err
			}
			ents = append(ents, ent{pkg.Name, name, some("(" + t + ")")})
		}
	}
	sort.Slice(ents, func(i, j int) bool {
		if ents[i].pkg != ents[j].pkg {
			return ents[i].pkg < ents[j].pkg
		}
		return ents[i].name < ents[j].name
	})
	var it []string
	for _, e := range ents {
		it = append(it, fmt.Sprintf("((%s, %s), %s)", Str(e.pkg), Str(e.name), e.term))
	}
	return "[" + strings.Join(it, ";\n    ") + "]", nil
}

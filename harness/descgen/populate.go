package descgen

import (
	"github.com/pentops/j5/gen/j5/ext/v1/ext_j5pb"
	"google.golang.org/protobuf/proto"
	"google.golang.org/protobuf/reflect/protoreflect"
	"google.golang.org/protobuf/types/dynamicpb"
)

// Populate returns a dynamic message of md with every field set to a benign,
// non-default value; of every real oneof the member number (variant mod size) is
// set; when single is true (the message is read as a J5 oneof) exactly one field,
// number (variant mod fields), is set. Nested messages are populated down to
// depth levels, below that left empty (value types such as Timestamp / Date /
// Decimal / Duration / Any always get a valid content).
func Populate(md protoreflect.MessageDescriptor, depth, variant int, single bool) *dynamicpb.Message {
	msg := dynamicpb.NewMessage(md)
	fill(msg, depth, variant, single)
	return msg
}

// PopulateField returns a message in which only field number i (by index) is set.
func PopulateField(md protoreflect.MessageDescriptor, i int) *dynamicpb.Message {
	msg := dynamicpb.NewMessage(md)
	fillOnly(msg, 0, 0, false, i)
	return msg
}

// PopulatePath returns a message in which only the field reached by the proto field
// path (through singular message fields) is set.
func PopulatePath(md protoreflect.MessageDescriptor, path []protoreflect.FieldNumber) *dynamicpb.Message {
	msg := dynamicpb.NewMessage(md)
	var cur protoreflect.Message = msg
	for i, n := range path {
		fd := cur.Descriptor().Fields().ByNumber(n)
		if fd == nil {
			return msg
		}
		if i == len(path)-1 {
			if dm, ok := cur.(*dynamicpb.Message); ok {
				fillOnly(dm, 0, 0, false, fd.Index())
			}
			return msg
		}
		if fd.Kind() != protoreflect.MessageKind || fd.IsList() || fd.IsMap() {
			return msg
		}
		cur = cur.Mutable(fd).Message()
	}
	return msg
}

// Variants is the number of variants needed to set every field of md at least once.
func Variants(md protoreflect.MessageDescriptor, single bool) int {
	n := 1
	if single {
		n = md.Fields().Len()
	}
	for i := 0; i < md.Oneofs().Len(); i++ {
		o := md.Oneofs().Get(i)
		if !o.IsSynthetic() && o.Fields().Len() > n {
			n = o.Fields().Len()
		}
	}
	if n < 1 {
		n = 1
	}
	return n
}

func scalarValue(fd protoreflect.FieldDescriptor, depth int) (protoreflect.Value, bool) {
	switch fd.Kind() {
	case protoreflect.BoolKind:
		return protoreflect.ValueOfBool(true), true
	case protoreflect.EnumKind:
		vals := fd.Enum().Values()
		n := vals.Get(0).Number()
		if vals.Len() > 1 {
			n = vals.Get(1).Number()
		} else if eo, _ := proto.GetExtension(fd.Enum().Options(), ext_j5pb.E_Enum).(*ext_j5pb.EnumOptions); eo != nil && eo.NoDefault {
			return protoreflect.Value{}, false // the enum has no value a J5 message may carry
		}
		return protoreflect.ValueOfEnum(n), true
	case protoreflect.Int32Kind, protoreflect.Sint32Kind, protoreflect.Sfixed32Kind:
		return protoreflect.ValueOfInt32(7), true
	case protoreflect.Uint32Kind, protoreflect.Fixed32Kind:
		return protoreflect.ValueOfUint32(7), true
	case protoreflect.Int64Kind, protoreflect.Sint64Kind, protoreflect.Sfixed64Kind:
		return protoreflect.ValueOfInt64(7), true
	case protoreflect.Uint64Kind, protoreflect.Fixed64Kind:
		return protoreflect.ValueOfUint64(7), true
	case protoreflect.FloatKind:
		return protoreflect.ValueOfFloat32(1.5), true
	case protoreflect.DoubleKind:
		return protoreflect.ValueOfFloat64(2.5), true
	case protoreflect.StringKind:
		return protoreflect.ValueOfString("abc"), true
	case protoreflect.BytesKind:
		return protoreflect.ValueOfBytes([]byte{1, 2, 3}), true
	case protoreflect.MessageKind, protoreflect.GroupKind:
		m := dynamicpb.NewMessage(fd.Message())
		if !fillWellKnown(m) && depth > 0 {
			fill(m, depth-1, 0, false)
		}
		return protoreflect.ValueOfMessage(m), true
	}
	return protoreflect.Value{}, false
}

func setByName(m *dynamicpb.Message, name string, v protoreflect.Value) {
	if fd := m.Descriptor().Fields().ByName(protoreflect.Name(name)); fd != nil {
		m.Set(fd, v)
	}
}

// fillWellKnown gives the value types the codec special-cases a valid content.
func fillWellKnown(m *dynamicpb.Message) bool {
	switch m.Descriptor().FullName() {
	case "google.protobuf.Timestamp":
		setByName(m, "seconds", protoreflect.ValueOfInt64(1700000000))
		return true
	case "google.protobuf.Duration":
		setByName(m, "seconds", protoreflect.ValueOfInt64(90))
		return true
	case "j5.types.date.v1.Date":
		setByName(m, "year", protoreflect.ValueOfInt32(2024))
		setByName(m, "month", protoreflect.ValueOfInt32(2))
		setByName(m, "day", protoreflect.ValueOfInt32(29))
		return true
	case "j5.types.decimal.v1.Decimal":
		setByName(m, "value", protoreflect.ValueOfString("12.5"))
		return true
	case "j5.types.any.v1.Any":
		setByName(m, "type_name", protoreflect.ValueOfString("j5.schema.v1.Ref"))
		setByName(m, "j5_json", protoreflect.ValueOfBytes([]byte(`{"package":"a","schema":"B"}`)))
		return true
	case "google.protobuf.Any":
		setByName(m, "type_url", protoreflect.ValueOfString("type.googleapis.com/j5.schema.v1.Ref"))
		setByName(m, "value", protoreflect.ValueOfBytes([]byte{0x0a, 0x01, 'a', 0x12, 0x01, 'B'}))
		return true
	case "google.protobuf.Struct", "google.protobuf.Empty", "google.protobuf.Value":
		return true // left empty
	}
	return false
}

func fill(msg *dynamicpb.Message, depth, variant int, single bool) {
	fillOnly(msg, depth, variant, single, -1)
}

func fillOnly(msg *dynamicpb.Message, depth, variant int, single bool, only int) {
	md := msg.Descriptor()
	if fillWellKnown(msg) {
		return
	}
	for i := 0; i < md.Fields().Len(); i++ {
		fd := md.Fields().Get(i)
		if only >= 0 && i != only {
			continue
		}
		if only < 0 && single && i != variant%md.Fields().Len() {
			continue
		}
		if o := fd.ContainingOneof(); only < 0 && o != nil && !o.IsSynthetic() {
			if o.Fields().Get(variant%o.Fields().Len()).Number() != fd.Number() {
				continue
			}
		}
		switch {
		case fd.IsMap():
			mv := msg.Mutable(fd).Map()
			var key protoreflect.MapKey
			switch fd.MapKey().Kind() {
			case protoreflect.StringKind:
				key = protoreflect.ValueOfString("k").MapKey()
			case protoreflect.BoolKind:
				key = protoreflect.ValueOfBool(true).MapKey()
			case protoreflect.Int32Kind, protoreflect.Sint32Kind, protoreflect.Sfixed32Kind:
				key = protoreflect.ValueOfInt32(1).MapKey()
			case protoreflect.Int64Kind, protoreflect.Sint64Kind, protoreflect.Sfixed64Kind:
				key = protoreflect.ValueOfInt64(1).MapKey()
			case protoreflect.Uint32Kind, protoreflect.Fixed32Kind:
				key = protoreflect.ValueOfUint32(1).MapKey()
			default:
				key = protoreflect.ValueOfUint64(1).MapKey()
			}
			if v, ok := scalarValue(fd.MapValue(), depth); ok {
				mv.Set(key, v)
			}
		case fd.IsList():
			lv := msg.Mutable(fd).List()
			for k := 0; k < 2; k++ {
				if v, ok := scalarValue(fd, depth); ok {
					lv.Append(v)
				}
			}
		default:
			if v, ok := scalarValue(fd, depth); ok {
				msg.Set(fd, v)
			}
		}
	}
}

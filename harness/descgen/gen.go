// Package descgen generates raw proto3 FileDescriptorProtos for the schema
// reader (C18, C15): every scalar kind including the ones J5 does not support,
// well-known types, real and proto3-optional oneofs, maps, repeated fields,
// self / mutual recursion, nested types, name shapes the reader is sensitive
// to, and arbitrary combinations of (buf.validate.field), (j5.list.v1.field)
// and (j5.ext.v1.*) options — consistent with the annotated field or not.
package descgen

import (
	"fmt"
	"strings"

	"buf.build/gen/go/bufbuild/protovalidate/protocolbuffers/go/buf/validate"
	"github.com/pentops/j5/gen/j5/ext/v1/ext_j5pb"
	"github.com/pentops/j5/gen/j5/list/v1/list_j5pb"
	"github.com/pentops/j5/gen/j5/schema/v1/schema_j5pb"
	_ "github.com/pentops/j5/j5types/any_j5t"
	_ "github.com/pentops/j5/j5types/date_j5t"
	_ "github.com/pentops/j5/j5types/decimal_j5t"
	"google.golang.org/genproto/googleapis/api/annotations"
	_ "google.golang.org/genproto/googleapis/api/httpbody"
	"google.golang.org/protobuf/proto"
	"google.golang.org/protobuf/reflect/protodesc"
	"google.golang.org/protobuf/reflect/protoreflect"
	"google.golang.org/protobuf/reflect/protoregistry"
	"google.golang.org/protobuf/types/descriptorpb"
	_ "google.golang.org/protobuf/types/known/anypb"
	_ "google.golang.org/protobuf/types/known/durationpb"
	_ "google.golang.org/protobuf/types/known/emptypb"
	_ "google.golang.org/protobuf/types/known/structpb"
	"google.golang.org/protobuf/types/known/timestamppb"
	_ "google.golang.org/protobuf/types/known/wrapperspb"
	"verifharness/vh"
)

// DepPaths are the files every generated file imports.
var DepPaths = []string{
	"google/protobuf/timestamp.proto",
	"google/protobuf/duration.proto",
	"google/protobuf/struct.proto",
	"google/protobuf/any.proto",
	"google/protobuf/empty.proto",
	"google/protobuf/wrappers.proto",
	"j5/types/date/v1/date.proto",
	"j5/types/decimal/v1/decimal.proto",
	"j5/types/any/v1/any.proto",
	"buf/validate/validate.proto",
	"j5/ext/v1/annotations.proto",
	"j5/list/v1/annotations.proto",
}

// well-known message types a field may refer to (full names)
var wktTypes = []string{
	"google.protobuf.Timestamp", "google.protobuf.Timestamp", "google.protobuf.Duration",
	"google.protobuf.Struct", "google.protobuf.Any", "j5.types.any.v1.Any",
	"j5.types.date.v1.Date", "j5.types.date.v1.Date", "j5.types.decimal.v1.Decimal", "j5.types.decimal.v1.Decimal",
}
var unsupportedGoogle = []string{"google.protobuf.Empty", "google.protobuf.StringValue", "google.protobuf.Int32Value", "google.protobuf.Value"}

// DepFiles returns the transitive closure of DepPaths as FileDescriptorProtos in
// dependency order.
func DepFiles() ([]*descriptorpb.FileDescriptorProto, error) {
	var out []*descriptorpb.FileDescriptorProto
	seen := map[string]bool{}
	var add func(path string) error
	add = func(path string) error {
		if seen[path] {
			return nil
		}
		seen[path] = true
		fd, err := protoregistry.GlobalFiles.FindFileByPath(path)
		if err != nil {
			return fmt.Errorf("dependency %s: %w", path, err)
		}
		imps := fd.Imports()
		for i := 0; i < imps.Len(); i++ {
			if err := add(imps.Get(i).Path()); err != nil {
				return err
			}
		}
		out = append(out, protodesc.ToFileDescriptorProto(fd))
		return nil
	}
	for _, p := range DepPaths {
		if err := add(p); err != nil {
			return nil, err
		}
	}
	// available to every set, imported only by files that get services (addServices)
	for _, p := range ServiceDepPaths {
		if err := add(p); err != nil {
			return nil, err
		}
	}
	return out, nil
}

// ServiceDepPaths are the extra imports of a generated file with services.
var ServiceDepPaths = []string{"google/api/annotations.proto", "google/api/httpbody.proto"}

// Profile selects the input class.
type Profile struct {
	Wild      int  // percent chance per feature site of something unsupported / inconsistent
	Supported bool // J5-supported subset only (C15): no unsupported kinds, no inconsistent annotations
	MaxFiles  int
	Comments  bool // attach leading comments (descriptions)
	CrossPkg  bool // bias towards several files, a sub-package first, and references across files
	Collide   int  // >0: add descriptors whose split names (path joined by "_") coincide (variant 1..5, see addCollision)
	Clash     bool // add a message whose exposed oneof and a field get the same JSON property name
	FlatCycle int  // >0: add a crafted cycle of that many messages each flattening the next (negative: with a chain leading into it)
	Services  int  // percent chance that a generated file gets services / topics (addServices; C15)
	FlatDeep  int  // >0: add a crafted chain of that many nested flatten levels, several properties of differing kinds at every level
	FlatClash int  // >0: add crafted objects whose client property names clash through flattening (variant 1..4, see addFlattenClash)
	OddPkg    bool // some package names APIFromImage cannot file: no version part, two version parts, two parts after the version
}

// Case is one generated descriptor set.
type Case struct {
	Gen  []*descriptorpb.FileDescriptorProto // generated files, dependency order
	Deps []*descriptorpb.FileDescriptorProto
	Tags map[string]int // feature tags present in this case (for distribution evidence)
}

func (c *Case) Set() *descriptorpb.FileDescriptorSet {
	fds := &descriptorpb.FileDescriptorSet{}
	fds.File = append(fds.File, c.Deps...)
	fds.File = append(fds.File, c.Gen...)
	return fds
}

func (c *Case) GenPaths() []string {
	var out []string
	for _, f := range c.Gen {
		out = append(out, f.GetName())
	}
	return out
}

type typeRef struct {
	full   string // .pkg.Name
	isEnum bool
	file   int
	self   bool
}

type gen struct {
	r    *vh.Rand
	p    Profile
	tags map[string]int
	// declared types so far (all files)
	msgs  []typeRef
	enums []typeRef
	psm   []typeRef // messages carrying the psm option
}

func (g *gen) tag(s string)        { g.tags[s]++ }
func (g *gen) wild() bool          { return !g.p.Supported && g.r.Chance(g.p.Wild) }
func (g *gen) chance(p int) bool   { return g.r.Chance(p) }
func pick[T any](g *gen, xs []T) T { return xs[g.r.Intn(len(xs))] }

var pkgNames = []string{"gen.a.v1", "gen.b.v1", "gen.a.v1.sub", "gen.c.v2", "gen.b.v1.topic", "gen.c.v2.service", "gen.d.v1.sandbox"}

// package names around splitPackageParts: unversioned, "v1beta" (not a version part), two version parts,
// two parts after the version, a bare version, a two-digit version with a sub-package
var oddPkgNames = []string{"gen.x", "gen.f.v1beta", "gen.e.v1.v2", "gen.a.v1.s.t", "v3", "gen.g.v10.sub", "gen.h.v1x.v2"}
var msgNames = []string{"Foo", "Bar", "Baz", "Qux", "FooKeys", "FooState", "FooData", "FooEvent", "Foo_Bar", "Thing", "Wrapper", "Node", "Tree", "Item", "Bar_Kind"}
var nestedNames = []string{"Bar", "Inner", "Kind", "Part", "Keys", "Leaf"}
var enumNames = []string{"Kind", "Status", "Color", "Bar_Kind", "Mode"}
var fieldNames = []string{"id", "name", "keys", "value", "foo_id", "bar", "baz", "kind", "status", "created_at", "items", "tags", "child", "parent", "data", "amount", "count", "flag", "type", "a_b", "a1", "fooBar", "x", "y", "z", "note", "ref", "when", "meta", "extra"}
var oneofNames = []string{"type", "type", "choice", "kind_of", "opt", "foo_bar"}

// Generate builds one descriptor set.
func Generate(r *vh.Rand, p Profile, deps []*descriptorpb.FileDescriptorProto) *Case {
	g := &gen{r: r, p: p, tags: map[string]int{}}
	c := &Case{Deps: deps, Tags: g.tags}
	nFiles := 1
	if p.MaxFiles > 1 && g.chance(45) {
		nFiles = 1 + r.Intn(p.MaxFiles)
	}
	if p.CrossPkg && p.MaxFiles > 1 {
		nFiles = 2 + r.Intn(p.MaxFiles-1)
	}
	usedPkg := map[string]int{}
	for fi := 0; fi < nFiles; fi++ {
		pkg := pkgNames[r.Intn(len(pkgNames))]
		if fi == 0 {
			pkg = pkgNames[r.Intn(2)]
			if p.CrossPkg && g.chance(60) {
				pkg = pick(g, []string{"gen.b.v1.topic", "gen.c.v2.service", "gen.d.v1.sandbox", "gen.a.v1.sub"})
			}
		}
		if p.OddPkg && g.chance(50) {
			pkg = pick(g, oddPkgNames)
			g.tag("odd-package-name")
		}
		usedPkg[pkg]++
		path := fmt.Sprintf("%s/f%d.proto", dotToSlash(pkg), fi)
		fd := &descriptorpb.FileDescriptorProto{
			Name:    proto.String(path),
			Package: proto.String(pkg),
			Syntax:  proto.String("proto3"),
		}
		fd.Dependency = append(fd.Dependency, DepPaths...)
		for _, prev := range c.Gen {
			fd.Dependency = append(fd.Dependency, prev.GetName())
		}
		g.fillFile(fd, fi, usedPkg[pkg] > 1)
		c.Gen = append(c.Gen, fd)
	}
	if nFiles > 1 {
		g.tag("multi-file")
	}
	if p.Collide > 0 {
		addCollision(c.Gen[0], p.Collide)
		g.tag(fmt.Sprintf("split-name-collision-crafted-%d", p.Collide))
	}
	if p.Clash {
		addOneofClash(c.Gen[0])
		g.tag("exposed-oneof-json-name-clash-crafted")
	}
	if p.Supported {
		repairSupported(c.Gen)
	}
	if p.Services > 0 {
		for fi, fd := range c.Gen {
			// a service in a package without a sub-package part is an error of its own ("missing
			// sub-package name"): mostly put them where they belong
			parts := strings.Split(fd.GetPackage(), ".")
			last := parts[len(parts)-1]
			inSub := len(last) > 0 && !(last[0] == 'v' && len(last) > 1 && last[1] >= '0' && last[1] <= '9')
			if r.Chance(p.Services) && (inSub || r.Chance(35)) {
				addServices(g, fd, fi)
			}
		}
	}
	if p.FlatDeep > 0 {
		addFlattenChain(c.Gen[0], p.FlatDeep)
		g.tag(fmt.Sprintf("flatten-chain-crafted-%d", p.FlatDeep))
	}
	if p.FlatClash > 0 {
		addFlattenClash(c.Gen[0], p.FlatClash)
		g.tag(fmt.Sprintf("flatten-name-clash-crafted-%d", p.FlatClash))
	}
	if p.FlatCycle != 0 {
		n, lead := p.FlatCycle, false
		if n < 0 {
			n, lead = -n, true
		}
		addFlattenCycle(c.Gen[0], n, lead)
		g.tag(fmt.Sprintf("flatten-cycle-crafted-%d", n))
	}
	return c
}

func dotToSlash(s string) string {
	b := []byte(s)
	for i := range b {
		if b[i] == '.' {
			b[i] = '/'
		}
	}
	return string(b)
}

// shell of a message before its fields are filled
type shell struct {
	d      *descriptorpb.DescriptorProto
	full   string
	nested []*shell
}

func (g *gen) fillFile(fd *descriptorpb.FileDescriptorProto, fi int, pkgSeen bool) {
	pkg := fd.GetPackage()
	suffix := ""
	if pkgSeen {
		suffix = fmt.Sprintf("%d", fi) // avoid duplicate full names across files of one package
	}
	usedTop := map[string]bool{}
	var shells []*shell
	var all []*shell
	nMsg := 1 + g.r.Intn(5)
	for i := 0; i < nMsg; i++ {
		name := pick(g, msgNames) + suffix
		if usedTop[name] {
			name = fmt.Sprintf("%sX%d", name, i)
		}
		usedTop[name] = true
		sh := &shell{d: &descriptorpb.DescriptorProto{Name: proto.String(name)}, full: "." + pkg + "." + name}
		shells = append(shells, sh)
		all = append(all, sh)
		// nested messages
		if g.chance(30) {
			usedN := map[string]bool{}
			for k := g.r.Range(1, 2); k > 0; k-- {
				nn := pick(g, nestedNames)
				if usedN[nn] {
					continue
				}
				usedN[nn] = true
				nsh := &shell{d: &descriptorpb.DescriptorProto{Name: proto.String(nn)}, full: sh.full + "." + nn}
				sh.nested = append(sh.nested, nsh)
				sh.d.NestedType = append(sh.d.NestedType, nsh.d)
				all = append(all, nsh)
				g.tag("nested-message")
			}
			// nested enum
			if g.chance(50) {
				en := pick(g, []string{"Kind", "Mode", "Bar"})
				if !usedN[en] {
					usedN[en] = true
					ed := g.genEnum(en)
					sh.d.EnumType = append(sh.d.EnumType, ed)
					g.enums = append(g.enums, typeRef{full: sh.full + "." + en, isEnum: true, file: fi})
					g.tag("nested-enum")
				}
			}
		}
	}
	// top-level enums
	for k := g.r.Intn(3); k > 0; k-- {
		en := pick(g, enumNames) + suffix
		if usedTop[en] {
			continue
		}
		usedTop[en] = true
		fd.EnumType = append(fd.EnumType, g.genEnum(en))
		g.enums = append(g.enums, typeRef{full: "." + pkg + "." + en, isEnum: true, file: fi})
	}
	for _, sh := range all {
		g.msgs = append(g.msgs, typeRef{full: sh.full, file: fi})
	}
	// message options first (psm needed by "keys" fields)
	for _, sh := range all {
		g.genMsgOptions(sh)
	}
	for _, sh := range all {
		g.fillMessage(sh, fi)
	}
	for _, sh := range shells {
		fd.MessageType = append(fd.MessageType, sh.d)
	}
	if g.p.Comments {
		g.addComments(fd)
	}
}

func (g *gen) genEnum(name string) *descriptorpb.EnumDescriptorProto {
	ed := &descriptorpb.EnumDescriptorProto{Name: proto.String(name)}
	prefix := upperSnake(name) + "_"
	first := prefix + "UNSPECIFIED"
	if g.wild() {
		first = pick(g, []string{prefix + "UNKNOWN", "UNSPECIFIED", prefix + "UNSPECIFIED_X", "X"})
		g.tag("enum-no-unspecified")
	}
	n := g.r.Range(1, 4)
	vals := []string{first}
	for i := 1; i < n; i++ {
		v := fmt.Sprintf("%sV%d", prefix, i)
		if g.wild() {
			v = fmt.Sprintf("OTHER_%s_%d", name, i) // value not carrying the prefix
		}
		vals = append(vals, v)
	}
	for i, v := range vals {
		num := int32(i)
		if i > 0 && g.chance(15) {
			num = int32(i) + 10
		}
		evd := &descriptorpb.EnumValueDescriptorProto{Name: proto.String(v), Number: proto.Int32(num)}
		if g.chance(20) {
			opt := &ext_j5pb.EnumValueOptions{}
			if g.chance(70) {
				opt.Info = map[string]string{"label": fmt.Sprintf("L%d", i)}
				if g.chance(40) {
					opt.Info["hint"] = "h"
				}
			}
			evd.Options = &descriptorpb.EnumValueOptions{}
			proto.SetExtension(evd.Options, ext_j5pb.E_EnumValue, opt)
			g.tag("enum-value-info")
		}
		ed.Value = append(ed.Value, evd)
	}
	if g.chance(25) {
		opt := &ext_j5pb.EnumOptions{NoDefault: g.chance(40)}
		if g.chance(60) {
			opt.InfoFields = append(opt.InfoFields, &ext_j5pb.EnumInfoField{Name: "label", Label: "Label", Description: "the label"})
			if g.chance(40) {
				opt.InfoFields = append(opt.InfoFields, &ext_j5pb.EnumInfoField{Name: "hint"})
			}
		}
		ed.Options = &descriptorpb.EnumOptions{}
		proto.SetExtension(ed.Options, ext_j5pb.E_Enum, opt)
		g.tag("enum-options")
	}
	return ed
}

func upperSnake(s string) string {
	var out []byte
	for i := 0; i < len(s); i++ {
		c := s[i]
		if c >= 'A' && c <= 'Z' && i > 0 && s[i-1] != '_' {
			out = append(out, '_')
		}
		if c >= 'a' && c <= 'z' {
			c -= 32
		}
		out = append(out, c)
	}
	return string(out)
}

func hasSuffix(s, suf string) bool { return len(s) >= len(suf) && s[len(s)-len(suf):] == suf }

func (g *gen) genMsgOptions(sh *shell) {
	name := sh.d.GetName()
	psmLike := hasSuffix(name, "Keys") || hasSuffix(name, "State") || hasSuffix(name, "Data") || hasSuffix(name, "Event")
	if (psmLike && g.chance(50)) || g.wild() && g.chance(30) {
		opt := &ext_j5pb.PSMOptions{EntityName: "foo"}
		if g.chance(30) {
			part := schema_j5pb.EntityPart(g.r.Range(0, 6))
			opt.EntityPart = &part
		}
		if sh.d.Options == nil {
			sh.d.Options = &descriptorpb.MessageOptions{}
		}
		proto.SetExtension(sh.d.Options, ext_j5pb.E_Psm, opt)
		g.psm = append(g.psm, typeRef{full: sh.full})
		g.tag("psm-option")
	}
	if g.chance(12) {
		opt := &ext_j5pb.MessageOptions{}
		switch g.r.Intn(5) {
		case 0:
			opt.IsOneofWrapper = true
			g.tag("msgopt-is-oneof-wrapper")
		case 1:
			opt.Type = &ext_j5pb.MessageOptions_Oneof{Oneof: &ext_j5pb.OneofMessageOptions{}}
			g.tag("msgopt-oneof")
		case 2, 3:
			o := &ext_j5pb.ObjectMessageOptions{}
			if g.chance(60) {
				o.AnyMember = []string{"membership"}
			}
			opt.Type = &ext_j5pb.MessageOptions_Object{Object: o}
			g.tag("msgopt-object")
		case 4:
			// extension present, nothing set
		}
		if sh.d.Options == nil {
			sh.d.Options = &descriptorpb.MessageOptions{}
		}
		proto.SetExtension(sh.d.Options, ext_j5pb.E_Message, opt)
	}
}

var scalarKinds = []descriptorpb.FieldDescriptorProto_Type{
	descriptorpb.FieldDescriptorProto_TYPE_STRING, descriptorpb.FieldDescriptorProto_TYPE_STRING, descriptorpb.FieldDescriptorProto_TYPE_STRING,
	descriptorpb.FieldDescriptorProto_TYPE_BOOL,
	descriptorpb.FieldDescriptorProto_TYPE_INT32, descriptorpb.FieldDescriptorProto_TYPE_SINT32, descriptorpb.FieldDescriptorProto_TYPE_UINT32,
	descriptorpb.FieldDescriptorProto_TYPE_INT64, descriptorpb.FieldDescriptorProto_TYPE_SINT64, descriptorpb.FieldDescriptorProto_TYPE_UINT64,
	descriptorpb.FieldDescriptorProto_TYPE_FLOAT, descriptorpb.FieldDescriptorProto_TYPE_DOUBLE,
	descriptorpb.FieldDescriptorProto_TYPE_BYTES,
}
var unsupportedKinds = []descriptorpb.FieldDescriptorProto_Type{
	descriptorpb.FieldDescriptorProto_TYPE_FIXED32, descriptorpb.FieldDescriptorProto_TYPE_SFIXED32,
	descriptorpb.FieldDescriptorProto_TYPE_FIXED64, descriptorpb.FieldDescriptorProto_TYPE_SFIXED64,
}

func (g *gen) fillMessage(sh *shell, fi int) {
	d := sh.d
	used := map[string]bool{}
	for _, n := range d.NestedType {
		used[n.GetName()] = true
	}
	for _, e := range d.EnumType {
		used[e.GetName()] = true
	}
	num := int32(0)
	nextNum := func() int32 {
		num++
		if g.chance(10) {
			num += int32(g.r.Range(1, 5))
		}
		return num
	}
	freshName := func() string {
		for tries := 0; tries < 20; tries++ {
			n := pick(g, fieldNames)
			if !used[n] {
				used[n] = true
				return n
			}
		}
		n := fmt.Sprintf("f%d", len(used))
		used[n] = true
		return n
	}

	// shape: plain object, auto oneof wrapper ("type" oneof of messages only), or mixed
	shape := g.r.Intn(10)
	mo, _ := proto.GetExtension(d.GetOptions(), ext_j5pb.E_Message).(*ext_j5pb.MessageOptions)
	if mo != nil && (mo.IsOneofWrapper || mo.GetOneof() != nil) && g.chance(80) {
		shape = 0
	}
	if shape == 0 && len(g.msgs) > 0 {
		// oneof wrapper
		g.tag("shape-oneof-wrapper")
		d.OneofDecl = append(d.OneofDecl, &descriptorpb.OneofDescriptorProto{Name: proto.String("type")})
		used["type"] = true
		for k := g.r.Range(1, 3); k > 0; k-- {
			f := g.genField(sh, fi, freshName(), nextNum(), true)
			f.Label = descriptorpb.FieldDescriptorProto_LABEL_OPTIONAL.Enum()
			f.OneofIndex = proto.Int32(0)
			d.Field = append(d.Field, f)
		}
		if g.wild() {
			// a scalar member, or a field outside the oneof, breaks the automatic detection
			f := g.genField(sh, fi, freshName(), nextNum(), false)
			if f.Label != nil && f.GetLabel() == descriptorpb.FieldDescriptorProto_LABEL_REPEATED || f.GetProto3Optional() {
				f.Label = descriptorpb.FieldDescriptorProto_LABEL_OPTIONAL.Enum()
				f.Proto3Optional = nil
			}
			if isMapField(d, f) {
				return
			}
			if g.chance(50) {
				f.OneofIndex = proto.Int32(0)
			}
			d.Field = append(d.Field, f)
		}
		g.finishOptionalOneofs(d)
		return
	}

	nFields := g.r.Range(0, 6)
	if g.chance(5) {
		nFields = 0
	}
	for i := 0; i < nFields; i++ {
		name := freshName()
		f := g.genField(sh, fi, name, nextNum(), false)
		d.Field = append(d.Field, f)
	}
	// real oneofs
	if shape >= 7 {
		for k := g.r.Range(1, 2); k > 0; k-- {
			on := pick(g, oneofNames)
			if used[on] {
				continue
			}
			used[on] = true
			od := &descriptorpb.OneofDescriptorProto{Name: proto.String(on)}
			if g.chance(65) {
				opt := &ext_j5pb.OneofOptions{Expose: g.chance(75)}
				od.Options = &descriptorpb.OneofOptions{}
				proto.SetExtension(od.Options, ext_j5pb.E_Oneof, opt)
				if opt.Expose {
					g.tag("oneof-exposed")
				} else {
					g.tag("oneof-ext-not-exposed")
				}
			} else {
				g.tag("oneof-plain")
			}
			idx := int32(len(d.OneofDecl))
			d.OneofDecl = append(d.OneofDecl, od)
			members := g.r.Range(1, 3)
			for m := 0; m < members; m++ {
				f := g.genField(sh, fi, freshName(), nextNum(), g.chance(50))
				if isMapField(d, f) {
					// a map cannot be a oneof member: keep it as an ordinary field
					d.Field = append(d.Field, f)
					continue
				}
				f.Label = descriptorpb.FieldDescriptorProto_LABEL_OPTIONAL.Enum()
				f.Proto3Optional = nil
				f.OneofIndex = proto.Int32(idx)
				d.Field = append(d.Field, f)
			}
			// a oneof must have at least one member
			has := false
			for _, f := range d.Field {
				if f.OneofIndex != nil && f.GetOneofIndex() == idx {
					has = true
				}
			}
			if !has {
				f := g.genScalarField(freshName(), nextNum())
				f.OneofIndex = proto.Int32(idx)
				d.Field = append(d.Field, f)
			}
		}
		// interleave: oneof members need not be contiguous
		if g.chance(30) {
			g.shuffleFields(d)
		}
	}
	g.finishOptionalOneofs(d)
}

func isMapField(d *descriptorpb.DescriptorProto, f *descriptorpb.FieldDescriptorProto) bool {
	if f.GetType() != descriptorpb.FieldDescriptorProto_TYPE_MESSAGE || f.GetLabel() != descriptorpb.FieldDescriptorProto_LABEL_REPEATED {
		return false
	}
	for _, n := range d.NestedType {
		if n.GetOptions().GetMapEntry() && hasSuffix(f.GetTypeName(), "."+n.GetName()) {
			return true
		}
	}
	return false
}

func (g *gen) shuffleFields(d *descriptorpb.DescriptorProto) {
	for i := len(d.Field) - 1; i > 0; i-- {
		j := g.r.Intn(i + 1)
		d.Field[i], d.Field[j] = d.Field[j], d.Field[i]
	}
}

// synthetic oneofs for proto3 optional fields must come after all real oneofs
func (g *gen) finishOptionalOneofs(d *descriptorpb.DescriptorProto) {
	for _, f := range d.Field {
		if f.GetProto3Optional() {
			idx := int32(len(d.OneofDecl))
			d.OneofDecl = append(d.OneofDecl, &descriptorpb.OneofDescriptorProto{Name: proto.String("_" + f.GetName())})
			f.OneofIndex = proto.Int32(idx)
		}
	}
}

func (g *gen) genScalarField(name string, num int32) *descriptorpb.FieldDescriptorProto {
	return &descriptorpb.FieldDescriptorProto{
		Name:   proto.String(name),
		Number: proto.Int32(num),
		Label:  descriptorpb.FieldDescriptorProto_LABEL_OPTIONAL.Enum(),
		Type:   descriptorpb.FieldDescriptorProto_TYPE_STRING.Enum(),
	}
}

func camelTitle(s string) string {
	out := []byte{}
	up := true
	for i := 0; i < len(s); i++ {
		c := s[i]
		if c == '_' {
			up = true
			continue
		}
		if up && c >= 'a' && c <= 'z' {
			c -= 32
		}
		up = false
		out = append(out, c)
	}
	return string(out)
}

// genField generates one field (and, for maps, its entry message inside sh.d).
func (g *gen) genField(sh *shell, fi int, name string, num int32, forceMessage bool) *descriptorpb.FieldDescriptorProto {
	f := &descriptorpb.FieldDescriptorProto{
		Name:   proto.String(name),
		Number: proto.Int32(num),
		Label:  descriptorpb.FieldDescriptorProto_LABEL_OPTIONAL.Enum(),
	}
	if g.wild() && g.chance(30) {
		// explicit JSON name; kept distinct from every other name of the message
		// (protoc rejects JSON-name conflicts, protodesc does not check them)
		f.JsonName = proto.String(fmt.Sprintf("j%s%d", camelTitle(name), num))
		g.tag("explicit-json-name")
	}
	// ---- type
	g.pickType(sh, fi, f, forceMessage, name)
	if forceMessage {
		g.annotate(f, f, false)
		return f
	}
	// ---- cardinality
	switch c := g.r.Intn(20); {
	case c < 3: // repeated
		f.Label = descriptorpb.FieldDescriptorProto_LABEL_REPEATED.Enum()
		g.tag("repeated")
		g.annotate(f, f, true)
		return f
	case c < 5: // map
		entryName := camelTitle(name) + "Entry"
		keyType := descriptorpb.FieldDescriptorProto_TYPE_STRING
		if g.wild() {
			keyType = pick(g, []descriptorpb.FieldDescriptorProto_Type{descriptorpb.FieldDescriptorProto_TYPE_INT32, descriptorpb.FieldDescriptorProto_TYPE_BOOL, descriptorpb.FieldDescriptorProto_TYPE_UINT64})
			g.tag("map-nonstring-key")
		}
		val := &descriptorpb.FieldDescriptorProto{
			Name: proto.String("value"), Number: proto.Int32(2), Label: descriptorpb.FieldDescriptorProto_LABEL_OPTIONAL.Enum(),
			Type: f.Type, TypeName: f.TypeName, JsonName: proto.String("value"),
		}
		entry := &descriptorpb.DescriptorProto{
			Name: proto.String(entryName),
			Field: []*descriptorpb.FieldDescriptorProto{
				{Name: proto.String("key"), Number: proto.Int32(1), Label: descriptorpb.FieldDescriptorProto_LABEL_OPTIONAL.Enum(), Type: keyType.Enum(), JsonName: proto.String("key")},
				val,
			},
			Options: &descriptorpb.MessageOptions{MapEntry: proto.Bool(true)},
		}
		sh.d.NestedType = append(sh.d.NestedType, entry)
		f.Label = descriptorpb.FieldDescriptorProto_LABEL_REPEATED.Enum()
		f.Type = descriptorpb.FieldDescriptorProto_TYPE_MESSAGE.Enum()
		f.TypeName = proto.String(sh.full + "." + entryName)
		g.tag("map")
		g.annotateMap(f, val)
		return f
	case c < 8:
		f.Proto3Optional = proto.Bool(true)
		g.tag("proto3-optional")
	}
	g.annotate(f, f, false)
	return f
}

func (g *gen) pickType(sh *shell, fi int, f *descriptorpb.FieldDescriptorProto, forceMessage bool, name string) {
	c := g.r.Intn(100)
	if forceMessage {
		c = 50
		if g.chance(25) {
			c = 70
		}
	}
	if name == "keys" && len(g.psm) > 0 && g.chance(70) {
		f.Type = descriptorpb.FieldDescriptorProto_TYPE_MESSAGE.Enum()
		f.TypeName = proto.String(pick(g, g.psm).full)
		g.tag("keys-field-psm")
		return
	}
	switch {
	case c < 45:
		if g.wild() {
			f.Type = pick(g, unsupportedKinds).Enum()
			g.tag("unsupported-kind:" + f.GetType().String())
			return
		}
		f.Type = pick(g, scalarKinds).Enum()
	case c < 67: // message
		f.Type = descriptorpb.FieldDescriptorProto_TYPE_MESSAGE.Enum()
		// candidates: any message of this file (incl. self and later ones: recursion) and of earlier files
		var cands []typeRef
		for _, m := range g.msgs {
			if m.file <= fi {
				cands = append(cands, m)
			}
		}
		if len(cands) == 0 {
			f.TypeName = proto.String(".google.protobuf.Timestamp")
			return
		}
		t := pick(g, cands)
		if g.p.CrossPkg && g.chance(45) {
			var other []typeRef
			for _, m := range cands {
				if m.file != fi {
					other = append(other, m)
				}
			}
			if len(other) > 0 {
				t = pick(g, other)
			}
		}
		if g.chance(12) {
			t = typeRef{full: sh.full, file: fi}
			g.tag("self-reference")
		}
		f.TypeName = proto.String(t.full)
		if t.file != fi {
			g.tag("cross-file-ref")
		}
	case c < 82: // well-known
		f.Type = descriptorpb.FieldDescriptorProto_TYPE_MESSAGE.Enum()
		if g.wild() {
			f.TypeName = proto.String("." + pick(g, unsupportedGoogle))
			g.tag("unsupported-google-type")
			return
		}
		f.TypeName = proto.String("." + pick(g, wktTypes))
		g.tag("wkt:" + f.GetTypeName())
	default: // enum
		var cands []typeRef
		for _, e := range g.enums {
			if e.file <= fi {
				cands = append(cands, e)
			}
		}
		if len(cands) == 0 {
			f.Type = descriptorpb.FieldDescriptorProto_TYPE_STRING.Enum()
			return
		}
		f.Type = descriptorpb.FieldDescriptorProto_TYPE_ENUM.Enum()
		f.TypeName = proto.String(pick(g, cands).full)
	}
}

func ensureOpts(f *descriptorpb.FieldDescriptorProto) *descriptorpb.FieldOptions {
	if f.Options == nil {
		f.Options = &descriptorpb.FieldOptions{}
	}
	return f.Options
}

// annotateMap puts map-level annotations on the map field and value annotations
// through (buf.validate.field).map.values.
func (g *gen) annotateMap(f, val *descriptorpb.FieldDescriptorProto) {
	if g.chance(35) {
		fc := &validate.FieldConstraints{}
		mr := &validate.MapRules{}
		if g.chance(50) {
			mr.MinPairs = proto.Uint64(uint64(g.r.Intn(3)))
		}
		if g.chance(50) {
			mr.MaxPairs = proto.Uint64(uint64(g.r.Range(3, 9)))
		}
		if g.chance(50) {
			mr.Values = g.validateFor(val, g.wild())
		}
		if g.chance(45) {
			// constraints on the KEYS of the map
			sr := &validate.StringRules{}
			switch g.r.Intn(4) {
			case 0:
				sr.Pattern = proto.String("^[a-z]+$")
			case 1:
				sr.MinLen, sr.MaxLen = proto.Uint64(1), proto.Uint64(uint64(g.r.Range(2, 40)))
			case 2:
				sr.WellKnown = &validate.StringRules_Uuid{Uuid: true}
			case 3:
				sr.MaxLen = proto.Uint64(uint64(g.r.Range(1, 64)))
			}
			mr.Keys = &validate.FieldConstraints{Type: &validate.FieldConstraints_String_{String_: sr}}
			g.tag("validate-map-keys")
		}
		fc.Type = &validate.FieldConstraints_Map{Map: mr}
		if g.wild() {
			fc = g.validateFor(val, true) // not a map constraint at all
		}
		if g.wild() {
			fc = &validate.FieldConstraints{Type: &validate.FieldConstraints_Repeated{Repeated: &validate.RepeatedRules{MinItems: proto.Uint64(1)}}}
			if g.chance(50) {
				fc.GetRepeated().Items = g.validateFor(val, false)
			}
			g.tag("validate-repeated-on-map")
		}
		if g.chance(20) {
			fc.Required = proto.Bool(g.chance(70))
		}
		if g.chance(10) || (fc.GetRepeated() != nil && g.chance(50)) {
			ig := validate.Ignore(g.r.Range(0, 3))
			fc.Ignore = &ig
			g.tag(fmt.Sprintf("validate-ignore-%d", int32(ig)))
		}
		proto.SetExtension(ensureOpts(f), validate.E_Field, fc)
		g.tag("validate-map")
	}
	if g.chance(15) {
		opt := &ext_j5pb.FieldOptions{Type: &ext_j5pb.FieldOptions_Map{Map: &ext_j5pb.MapField{}}}
		if g.chance(60) {
			opt.GetMap().SingleForm = proto.String("pair")
		}
		if g.wild() {
			opt = g.j5For(val, true)
		}
		proto.SetExtension(ensureOpts(f), ext_j5pb.E_Field, opt)
		g.tag("j5-map")
	}
	if g.wild() && g.chance(30) {
		proto.SetExtension(ensureOpts(f), list_j5pb.E_Field, g.listFor(val, true))
	}
}

// annotate attaches a random combination of the three option extensions. [typed]
// carries the element type (== f except for maps).
func (g *gen) annotate(f, typed *descriptorpb.FieldDescriptorProto, repeated bool) {
	if g.chance(40) {
		inconsistent := g.wild()
		if inconsistent {
			g.tag("validate-inconsistent")
		}
		fc := g.validateFor(typed, inconsistent)
		if repeated && !(inconsistent && g.chance(50)) {
			rr := &validate.RepeatedRules{}
			if g.chance(50) {
				rr.MinItems = proto.Uint64(uint64(g.r.Intn(3)))
			}
			if g.chance(40) {
				rr.MaxItems = proto.Uint64(uint64(g.r.Range(3, 9)))
			}
			if g.chance(30) {
				rr.Unique = proto.Bool(g.chance(70))
			}
			if g.chance(60) {
				rr.Items = fc
			}
			fc = &validate.FieldConstraints{Type: &validate.FieldConstraints_Repeated{Repeated: rr}}
			g.tag("validate-repeated")
		}
		if !repeated && g.wild() {
			// a container rule on a singular field, with or without items / values
			switch g.r.Intn(4) {
			case 0:
				fc = &validate.FieldConstraints{Type: &validate.FieldConstraints_Repeated{Repeated: &validate.RepeatedRules{MinItems: proto.Uint64(1)}}}
			case 1:
				fc = &validate.FieldConstraints{Type: &validate.FieldConstraints_Repeated{Repeated: &validate.RepeatedRules{Items: fc}}}
			case 2:
				fc = &validate.FieldConstraints{Type: &validate.FieldConstraints_Map{Map: &validate.MapRules{MinPairs: proto.Uint64(1)}}}
			case 3:
				fc = &validate.FieldConstraints{Type: &validate.FieldConstraints_Map{Map: &validate.MapRules{Values: fc, Keys: &validate.FieldConstraints{}}}}
			}
			g.tag("validate-container-on-singular")
		}
		if g.chance(25) {
			fc.Required = proto.Bool(g.chance(75))
			g.tag("validate-required")
		}
		if g.chance(8) || (fc.GetRepeated() != nil && g.chance(35)) {
			ig := validate.Ignore(g.r.Range(0, 3))
			fc.Ignore = &ig
			g.tag(fmt.Sprintf("validate-ignore-%d", int32(ig)))
			if fc.GetRepeated() != nil {
				if fc.GetRepeated().Items == nil {
					g.tag("validate-ignore-on-repeated-without-items")
				} else {
					g.tag("validate-ignore-on-repeated-with-items")
				}
			}
		}
		proto.SetExtension(ensureOpts(f), validate.E_Field, fc)
	}
	if g.chance(25) {
		inconsistent := g.wild()
		if inconsistent {
			g.tag("list-inconsistent")
		}
		proto.SetExtension(ensureOpts(f), list_j5pb.E_Field, g.listFor(typed, inconsistent))
	}
	if g.chance(25) || (typed.GetType() == descriptorpb.FieldDescriptorProto_TYPE_MESSAGE && !repeated && g.chance(25)) {
		inconsistent := g.wild()
		if inconsistent {
			g.tag("j5-inconsistent")
		}
		opt := g.j5For(typed, inconsistent)
		if repeated && g.chance(60) {
			opt = &ext_j5pb.FieldOptions{Type: &ext_j5pb.FieldOptions_Array{Array: &ext_j5pb.ArrayField{}}}
			if g.chance(60) {
				opt.GetArray().SingleForm = proto.String("item")
			}
		}
		proto.SetExtension(ensureOpts(f), ext_j5pb.E_Field, opt)
	}
	if typed.GetType() == descriptorpb.FieldDescriptorProto_TYPE_STRING && g.chance(15) || g.wild() && g.chance(10) {
		k := &ext_j5pb.PSMKeyFieldOptions{PrimaryKey: g.chance(50)}
		if g.chance(40) {
			k.ForeignKey = &schema_j5pb.EntityRef{Package: "gen.a.v1", Entity: "foo"}
		}
		if g.chance(25) {
			k.TenantType = proto.String("org")
		}
		proto.SetExtension(ensureOpts(f), ext_j5pb.E_Key, k)
		g.tag("psm-key")
	}
}

func (g *gen) bound32(i int) (lt, lte, gt, gte *int32) {
	v := int32(g.r.Range(-5, 100))
	if g.chance(10) {
		v = pick(g, []int32{-2147483648, 2147483647, 0})
	}
	switch i {
	case 0:
		lt = &v
	case 1:
		lte = &v
	case 2:
		gt = &v
	case 3:
		gte = &v
	}
	return
}

func (g *gen) validateFor(f *descriptorpb.FieldDescriptorProto, inconsistent bool) *validate.FieldConstraints {
	t := f.GetType()
	if inconsistent {
		t = pick(g, []descriptorpb.FieldDescriptorProto_Type{
			descriptorpb.FieldDescriptorProto_TYPE_STRING, descriptorpb.FieldDescriptorProto_TYPE_BOOL, descriptorpb.FieldDescriptorProto_TYPE_INT32,
			descriptorpb.FieldDescriptorProto_TYPE_INT64, descriptorpb.FieldDescriptorProto_TYPE_UINT32, descriptorpb.FieldDescriptorProto_TYPE_UINT64,
			descriptorpb.FieldDescriptorProto_TYPE_FLOAT, descriptorpb.FieldDescriptorProto_TYPE_DOUBLE, descriptorpb.FieldDescriptorProto_TYPE_ENUM,
			descriptorpb.FieldDescriptorProto_TYPE_MESSAGE, descriptorpb.FieldDescriptorProto_TYPE_BYTES, descriptorpb.FieldDescriptorProto_TYPE_SINT32,
			descriptorpb.FieldDescriptorProto_TYPE_FIXED64, descriptorpb.FieldDescriptorProto_TYPE_GROUP,
		})
	}
	fc := &validate.FieldConstraints{}
	unsupportedRule := !g.p.Supported && g.chance(g.p.Wild/2+1)
	switch t {
	case descriptorpb.FieldDescriptorProto_TYPE_STRING:
		sr := &validate.StringRules{}
		if g.chance(40) {
			sr.MinLen = proto.Uint64(uint64(g.r.Intn(4)))
		}
		if g.chance(40) {
			sr.MaxLen = proto.Uint64(uint64(g.r.Range(4, 100)))
		}
		if g.chance(30) {
			sr.Pattern = proto.String(pick(g, []string{`^\d{4}-\d{2}-\d{2}$`, `^\d(.?\d)?$`, "^[0-9A-Za-z]{22}$", "^[a-z]+$", ""}))
		}
		switch g.r.Intn(12) {
		case 0:
			sr.WellKnown = &validate.StringRules_Uuid{Uuid: g.chance(85)}
		case 1:
			sr.WellKnown = &validate.StringRules_Email{Email: g.chance(85)}
		case 2:
			sr.WellKnown = &validate.StringRules_Hostname{Hostname: true}
		case 3:
			sr.WellKnown = &validate.StringRules_Ipv4{Ipv4: true}
		case 4:
			sr.WellKnown = &validate.StringRules_Ipv6{Ipv6: g.chance(85)}
		case 5:
			sr.WellKnown = &validate.StringRules_Uri{Uri: true}
		case 6:
			if unsupportedRule {
				sr.WellKnown = &validate.StringRules_Address{Address: true}
				g.tag("string-wellknown-unsupported")
			}
		}
		fc.Type = &validate.FieldConstraints_String_{String_: sr}
	case descriptorpb.FieldDescriptorProto_TYPE_BOOL:
		br := &validate.BoolRules{}
		if g.chance(50) {
			br.Const = proto.Bool(g.chance(50))
			g.tag("bool-const")
		}
		fc.Type = &validate.FieldConstraints_Bool{Bool: br}
	case descriptorpb.FieldDescriptorProto_TYPE_INT32, descriptorpb.FieldDescriptorProto_TYPE_SINT32:
		r := &validate.Int32Rules{}
		lt, lte, gt, gte := g.bound32(g.r.Intn(6))
		if lt != nil {
			r.LessThan = &validate.Int32Rules_Lt{Lt: *lt}
		}
		if lte != nil {
			r.LessThan = &validate.Int32Rules_Lte{Lte: *lte}
		}
		if gt != nil || g.chance(30) {
			if gt == nil {
				_, _, gt, _ = g.bound32(2)
			}
			r.GreaterThan = &validate.Int32Rules_Gt{Gt: *gt}
		}
		if gte != nil {
			r.GreaterThan = &validate.Int32Rules_Gte{Gte: *gte}
		}
		if unsupportedRule {
			switch g.r.Intn(3) {
			case 0:
				r.Const = proto.Int32(3)
			case 1:
				r.In = []int32{1, 2}
			case 2:
				r.NotIn = []int32{0}
			}
			g.tag("numeric-const-in-notin")
		}
		fc.Type = &validate.FieldConstraints_Int32{Int32: r}
		if t == descriptorpb.FieldDescriptorProto_TYPE_SINT32 && g.chance(50) {
			fc.Type = &validate.FieldConstraints_Sint32{Sint32: &validate.SInt32Rules{LessThan: &validate.SInt32Rules_Lt{Lt: 5}}}
		}
	case descriptorpb.FieldDescriptorProto_TYPE_UINT32:
		r := &validate.UInt32Rules{}
		v := uint32(g.r.Intn(1000))
		if g.chance(10) {
			v = 4294967295
		}
		switch g.r.Intn(5) {
		case 0:
			r.LessThan = &validate.UInt32Rules_Lt{Lt: v}
		case 1:
			r.LessThan = &validate.UInt32Rules_Lte{Lte: v}
		case 2:
			r.GreaterThan = &validate.UInt32Rules_Gt{Gt: v}
		case 3:
			r.GreaterThan = &validate.UInt32Rules_Gte{Gte: v}
			r.LessThan = &validate.UInt32Rules_Lt{Lt: v + 5}
		}
		if unsupportedRule {
			switch g.r.Intn(3) {
			case 0:
				r.Const = proto.Uint32(3)
			case 1:
				r.In = []uint32{1, 2}
			case 2:
				r.NotIn = []uint32{0}
			}
			g.tag("numeric-const-in-notin")
		}
		fc.Type = &validate.FieldConstraints_Uint32{Uint32: r}
	case descriptorpb.FieldDescriptorProto_TYPE_INT64, descriptorpb.FieldDescriptorProto_TYPE_SINT64:
		r := &validate.Int64Rules{}
		v := int64(g.r.Range(-5, 1000))
		if g.chance(10) {
			v = pick(g, []int64{-9223372036854775808, 9223372036854775807})
		}
		switch g.r.Intn(5) {
		case 0:
			r.LessThan = &validate.Int64Rules_Lt{Lt: v}
		case 1:
			r.LessThan = &validate.Int64Rules_Lte{Lte: v}
		case 2:
			r.GreaterThan = &validate.Int64Rules_Gt{Gt: v}
		case 3:
			r.GreaterThan = &validate.Int64Rules_Gte{Gte: v}
			r.LessThan = &validate.Int64Rules_Lte{Lte: 2000}
		}
		if unsupportedRule {
			switch g.r.Intn(3) {
			case 0:
				r.Const = proto.Int64(3)
			case 1:
				r.In = []int64{1, 2}
			case 2:
				r.NotIn = []int64{0}
			}
			g.tag("numeric-const-in-notin")
		}
		fc.Type = &validate.FieldConstraints_Int64{Int64: r}
	case descriptorpb.FieldDescriptorProto_TYPE_UINT64:
		r := &validate.UInt64Rules{}
		v := uint64(g.r.Intn(1000))
		if g.chance(15) {
			v = pick(g, []uint64{18446744073709551615, 9223372036854775808})
			g.tag("uint64-bound-above-int64")
		}
		switch g.r.Intn(5) {
		case 0:
			r.LessThan = &validate.UInt64Rules_Lt{Lt: v}
		case 1:
			r.LessThan = &validate.UInt64Rules_Lte{Lte: v}
		case 2:
			r.GreaterThan = &validate.UInt64Rules_Gt{Gt: v}
		case 3:
			r.GreaterThan = &validate.UInt64Rules_Gte{Gte: v}
		}
		if unsupportedRule {
			switch g.r.Intn(3) {
			case 0:
				r.Const = proto.Uint64(3)
			case 1:
				r.In = []uint64{1, 2}
			case 2:
				r.NotIn = []uint64{0}
			}
			g.tag("numeric-const-in-notin")
		}
		fc.Type = &validate.FieldConstraints_Uint64{Uint64: r}
	case descriptorpb.FieldDescriptorProto_TYPE_FLOAT:
		r := &validate.FloatRules{}
		v := float32(g.r.Range(-5, 100)) / 4
		switch g.r.Intn(5) {
		case 0:
			r.LessThan = &validate.FloatRules_Lt{Lt: v}
		case 1:
			r.LessThan = &validate.FloatRules_Lte{Lte: v}
		case 2:
			r.GreaterThan = &validate.FloatRules_Gt{Gt: v}
		case 3:
			r.GreaterThan = &validate.FloatRules_Gte{Gte: v}
			r.LessThan = &validate.FloatRules_Lt{Lt: 0.1}
		}
		if unsupportedRule {
			switch g.r.Intn(3) {
			case 0:
				r.Const = proto.Float32(3)
			case 1:
				r.In = []float32{1, 2}
			case 2:
				r.NotIn = []float32{0}
			}
			g.tag("numeric-const-in-notin")
		}
		fc.Type = &validate.FieldConstraints_Float{Float: r}
	case descriptorpb.FieldDescriptorProto_TYPE_DOUBLE:
		r := &validate.DoubleRules{}
		v := float64(g.r.Range(-5, 100)) / 8
		switch g.r.Intn(5) {
		case 0:
			r.LessThan = &validate.DoubleRules_Lt{Lt: v}
		case 1:
			r.LessThan = &validate.DoubleRules_Lte{Lte: v}
		case 2:
			r.GreaterThan = &validate.DoubleRules_Gt{Gt: v}
		case 3:
			r.GreaterThan = &validate.DoubleRules_Gte{Gte: v}
		}
		if unsupportedRule {
			switch g.r.Intn(3) {
			case 0:
				r.Const = proto.Float64(3)
			case 1:
				r.In = []float64{1, 2}
			case 2:
				r.NotIn = []float64{0}
			}
			g.tag("numeric-const-in-notin")
		}
		fc.Type = &validate.FieldConstraints_Double{Double: r}
	case descriptorpb.FieldDescriptorProto_TYPE_ENUM:
		r := &validate.EnumRules{}
		switch g.r.Intn(4) {
		case 0:
			r.In = []int32{1}
			if g.chance(40) {
				r.In = append(r.In, 2)
			}
		case 1:
			r.NotIn = []int32{0}
			if g.chance(40) {
				r.NotIn = append(r.NotIn, 1)
			}
		case 2:
			r.DefinedOnly = proto.Bool(true)
		}
		if unsupportedRule {
			r.In = append(r.In, 77) // a number the enum does not define
			g.tag("enum-in-undefined")
		}
		fc.Type = &validate.FieldConstraints_Enum{Enum: r}
	case descriptorpb.FieldDescriptorProto_TYPE_MESSAGE:
		// timestamp rules (the only message rules the reader looks at), or any/duration
		switch g.r.Intn(4) {
		case 0, 1:
			r := &validate.TimestampRules{}
			ts := &timestamppb.Timestamp{Seconds: int64(g.r.Intn(2000000000)), Nanos: int32(g.r.Intn(2)) * 500}
			switch g.r.Intn(6) {
			case 0:
				r.LessThan = &validate.TimestampRules_Lt{Lt: ts}
			case 1:
				r.LessThan = &validate.TimestampRules_Lte{Lte: ts}
			case 2:
				r.GreaterThan = &validate.TimestampRules_Gt{Gt: ts}
			case 3:
				r.GreaterThan = &validate.TimestampRules_Gte{Gte: ts}
			case 4:
				r.LessThan = &validate.TimestampRules_LtNow{LtNow: true}
			}
			if unsupportedRule {
				if g.chance(50) {
					r.Const = ts
				} else {
					r.Within = nil
					r.Const = ts
				}
				g.tag("timestamp-const")
			}
			fc.Type = &validate.FieldConstraints_Timestamp{Timestamp: r}
		case 2:
			fc.Type = &validate.FieldConstraints_Any{Any: &validate.AnyRules{In: []string{"x"}}}
		case 3:
			// required only
		}
	case descriptorpb.FieldDescriptorProto_TYPE_BYTES:
		fc.Type = &validate.FieldConstraints_Bytes{Bytes: &validate.BytesRules{MinLen: proto.Uint64(1)}}
	case descriptorpb.FieldDescriptorProto_TYPE_FIXED64:
		fc.Type = &validate.FieldConstraints_Fixed64{Fixed64: &validate.Fixed64Rules{}}
	default:
		// no type
	}
	return fc
}

func (g *gen) filtering() *list_j5pb.FilteringConstraint {
	if g.chance(20) {
		return nil
	}
	f := &list_j5pb.FilteringConstraint{Filterable: g.chance(80)}
	if g.chance(20) {
		f.DefaultFilters = []string{"a"}
	}
	return f
}
func (g *gen) sorting() *list_j5pb.SortingConstraint {
	if g.chance(40) {
		return nil
	}
	return &list_j5pb.SortingConstraint{Sortable: g.chance(80), DefaultSort: g.chance(20)}
}

func (g *gen) listFor(f *descriptorpb.FieldDescriptorProto, inconsistent bool) *list_j5pb.FieldConstraint {
	t := f.GetType()
	tn := f.GetTypeName()
	if inconsistent {
		t = pick(g, []descriptorpb.FieldDescriptorProto_Type{
			descriptorpb.FieldDescriptorProto_TYPE_STRING, descriptorpb.FieldDescriptorProto_TYPE_BOOL, descriptorpb.FieldDescriptorProto_TYPE_INT32,
			descriptorpb.FieldDescriptorProto_TYPE_INT64, descriptorpb.FieldDescriptorProto_TYPE_UINT32, descriptorpb.FieldDescriptorProto_TYPE_UINT64,
			descriptorpb.FieldDescriptorProto_TYPE_FLOAT, descriptorpb.FieldDescriptorProto_TYPE_DOUBLE, descriptorpb.FieldDescriptorProto_TYPE_ENUM,
			descriptorpb.FieldDescriptorProto_TYPE_MESSAGE, descriptorpb.FieldDescriptorProto_TYPE_FIXED32, descriptorpb.FieldDescriptorProto_TYPE_GROUP,
		})
		tn = pick(g, []string{".google.protobuf.Timestamp", ".j5.types.date.v1.Date", ".j5.types.decimal.v1.Decimal", ".j5.types.any.v1.Any", ".x"})
	}
	ir := func() *list_j5pb.IntegerRules {
		return &list_j5pb.IntegerRules{Filtering: g.filtering(), Sorting: g.sorting()}
	}
	fr := func() *list_j5pb.FloatRules {
		return &list_j5pb.FloatRules{Filtering: g.filtering(), Sorting: g.sorting()}
	}
	fc := &list_j5pb.FieldConstraint{}
	switch t {
	case descriptorpb.FieldDescriptorProto_TYPE_STRING:
		sr := &list_j5pb.StringRules{}
		kr := func() *list_j5pb.KeyRules { return &list_j5pb.KeyRules{Filtering: g.filtering()} }
		switch g.r.Intn(7) {
		case 0:
			sr.WellKnown = &list_j5pb.StringRules_OpenText{OpenText: &list_j5pb.OpenTextRules{Searching: &list_j5pb.SearchingConstraint{Searchable: g.chance(80)}}}
			g.tag("list-open-text")
		case 1:
			sr.WellKnown = &list_j5pb.StringRules_Date{Date: &list_j5pb.DateRules{Filtering: g.filtering()}}
		case 2:
			sr.WellKnown = &list_j5pb.StringRules_ForeignKey{ForeignKey: &list_j5pb.ForeignKeyRules{Type: &list_j5pb.ForeignKeyRules_UniqueString{UniqueString: kr()}}}
			g.tag("list-fk-unique")
		case 3:
			sr.WellKnown = &list_j5pb.StringRules_ForeignKey{ForeignKey: &list_j5pb.ForeignKeyRules{Type: &list_j5pb.ForeignKeyRules_Uuid{Uuid: kr()}}}
			g.tag("list-fk-uuid")
		case 4:
			sr.WellKnown = &list_j5pb.StringRules_ForeignKey{ForeignKey: &list_j5pb.ForeignKeyRules{Type: &list_j5pb.ForeignKeyRules_Id62{Id62: kr()}}}
			g.tag("list-fk-id62")
		case 5:
			sr.WellKnown = &list_j5pb.StringRules_ForeignKey{ForeignKey: &list_j5pb.ForeignKeyRules{}}
		}
		fc.Type = &list_j5pb.FieldConstraint_String_{String_: sr}
	case descriptorpb.FieldDescriptorProto_TYPE_BOOL:
		fc.Type = &list_j5pb.FieldConstraint_Bool{Bool: &list_j5pb.BoolRules{Filtering: g.filtering()}}
	case descriptorpb.FieldDescriptorProto_TYPE_INT32:
		fc.Type = &list_j5pb.FieldConstraint_Int32{Int32: ir()}
	case descriptorpb.FieldDescriptorProto_TYPE_SINT32:
		if g.chance(50) {
			fc.Type = &list_j5pb.FieldConstraint_Int32{Int32: ir()}
		} else {
			fc.Type = &list_j5pb.FieldConstraint_Sint32{Sint32: ir()}
		}
	case descriptorpb.FieldDescriptorProto_TYPE_UINT32:
		fc.Type = &list_j5pb.FieldConstraint_Uint32{Uint32: ir()}
	case descriptorpb.FieldDescriptorProto_TYPE_INT64, descriptorpb.FieldDescriptorProto_TYPE_SINT64:
		fc.Type = &list_j5pb.FieldConstraint_Int64{Int64: ir()}
	case descriptorpb.FieldDescriptorProto_TYPE_UINT64:
		if g.chance(50) {
			fc.Type = &list_j5pb.FieldConstraint_Uint64{Uint64: ir()}
		} else {
			fc.Type = &list_j5pb.FieldConstraint_Int64{Int64: ir()}
		}
	case descriptorpb.FieldDescriptorProto_TYPE_FLOAT:
		fc.Type = &list_j5pb.FieldConstraint_Float{Float: fr()}
	case descriptorpb.FieldDescriptorProto_TYPE_DOUBLE:
		fc.Type = &list_j5pb.FieldConstraint_Double{Double: fr()}
	case descriptorpb.FieldDescriptorProto_TYPE_ENUM:
		fc.Type = &list_j5pb.FieldConstraint_Enum{Enum: &list_j5pb.EnumRules{Filtering: g.filtering()}}
	case descriptorpb.FieldDescriptorProto_TYPE_FIXED32:
		fc.Type = &list_j5pb.FieldConstraint_Fixed32{Fixed32: ir()}
	case descriptorpb.FieldDescriptorProto_TYPE_MESSAGE:
		switch tn {
		case ".google.protobuf.Timestamp":
			fc.Type = &list_j5pb.FieldConstraint_Timestamp{Timestamp: &list_j5pb.TimestampRules{Filtering: g.filtering(), Sorting: g.sorting()}}
		case ".j5.types.date.v1.Date":
			fc.Type = &list_j5pb.FieldConstraint_Date{Date: &list_j5pb.DateRules{Filtering: g.filtering()}}
		case ".j5.types.decimal.v1.Decimal":
			fc.Type = &list_j5pb.FieldConstraint_Decimal{Decimal: &list_j5pb.DecimalRules{Filtering: g.filtering(), Sorting: g.sorting()}}
		case ".j5.types.any.v1.Any", ".google.protobuf.Any":
			fc.Type = &list_j5pb.FieldConstraint_Any{Any: &list_j5pb.AnyRules{Filtering: g.filtering()}}
		default:
			fc.Type = &list_j5pb.FieldConstraint_Oneof{Oneof: &list_j5pb.OneofRules{Filtering: g.filtering()}}
		}
	}
	return fc
}

func (g *gen) j5For(f *descriptorpb.FieldDescriptorProto, inconsistent bool) *ext_j5pb.FieldOptions {
	t := f.GetType()
	tn := f.GetTypeName()
	if inconsistent {
		t = pick(g, []descriptorpb.FieldDescriptorProto_Type{
			descriptorpb.FieldDescriptorProto_TYPE_STRING, descriptorpb.FieldDescriptorProto_TYPE_MESSAGE, descriptorpb.FieldDescriptorProto_TYPE_MESSAGE,
			descriptorpb.FieldDescriptorProto_TYPE_INT32, descriptorpb.FieldDescriptorProto_TYPE_ENUM, descriptorpb.FieldDescriptorProto_TYPE_GROUP,
		})
		tn = pick(g, []string{".google.protobuf.Timestamp", ".j5.types.date.v1.Date", ".j5.types.decimal.v1.Decimal", ".j5.types.any.v1.Any", ".x", ".y"})
	}
	opt := &ext_j5pb.FieldOptions{}
	strb := func() (mn, mx *string, emn, emx *bool) {
		if g.chance(50) {
			mn = proto.String("2020-01-01")
		}
		if g.chance(50) {
			mx = proto.String("2030-12-31")
		}
		if g.chance(30) {
			emn = proto.Bool(g.chance(50))
		}
		if g.chance(30) {
			emx = proto.Bool(g.chance(50))
		}
		return
	}
	switch t {
	case descriptorpb.FieldDescriptorProto_TYPE_STRING:
		k := &ext_j5pb.KeyField{}
		switch g.r.Intn(6) {
		case 0:
			k.Type = &ext_j5pb.KeyField_Pattern{Pattern: "^[a-z]{3}$"}
		case 1:
			k.Type = &ext_j5pb.KeyField_Format_{Format: ext_j5pb.KeyField_FORMAT_UUID}
		case 2:
			k.Type = &ext_j5pb.KeyField_Format_{Format: ext_j5pb.KeyField_FORMAT_ID62}
		case 3:
			k.Type = &ext_j5pb.KeyField_Format_{Format: ext_j5pb.KeyField_FORMAT_UNSPECIFIED}
			g.tag("key-format-unspecified")
		case 4:
			if !g.p.Supported && g.chance(50) {
				k.Type = &ext_j5pb.KeyField_Format_{Format: ext_j5pb.KeyField_Format(1)}
				g.tag("key-format-unknown-number")
			}
		}
		if g.chance(70) {
			opt.Type = &ext_j5pb.FieldOptions_Key{Key: k}
			g.tag("j5-key")
		} else {
			opt.Type = &ext_j5pb.FieldOptions_String_{String_: &ext_j5pb.StringField{}}
		}
	case descriptorpb.FieldDescriptorProto_TYPE_MESSAGE:
		switch tn {
		case ".j5.types.date.v1.Date", ".j5.types.decimal.v1.Decimal":
			df := &ext_j5pb.DateField{}
			if g.chance(75) {
				mn, mx, emn, emx := strb()
				df.Rules = &ext_j5pb.DateField_Rules{Minimum: mn, Maximum: mx, ExclusiveMinimum: emn, ExclusiveMaximum: emx}
			}
			if tn == ".j5.types.decimal.v1.Decimal" && g.chance(50) {
				mn, mx, emn, emx := strb()
				opt.Type = &ext_j5pb.FieldOptions_Decimal{Decimal: &ext_j5pb.DecimalField{Rules: &ext_j5pb.DecimalField_Rules{Minimum: mn, Maximum: mx, ExclusiveMinimum: emn, ExclusiveMaximum: emx}}}
				g.tag("j5-decimal")
			} else {
				opt.Type = &ext_j5pb.FieldOptions_Date{Date: df}
				g.tag("j5-date")
			}
		case ".j5.types.any.v1.Any", ".google.protobuf.Any":
			a := &ext_j5pb.AnyField{OnlyDefined: g.chance(50)}
			if g.chance(60) {
				a.Types = []string{"gen.a.v1.Foo"}
			}
			opt.Type = &ext_j5pb.FieldOptions_Any{Any: a}
			g.tag("j5-any")
		case ".google.protobuf.Timestamp":
			opt.Type = &ext_j5pb.FieldOptions_Timestamp{Timestamp: &ext_j5pb.TimestampField{}}
		default:
			switch g.r.Intn(4) {
			case 0:
				opt.Type = &ext_j5pb.FieldOptions_Message{Message: &ext_j5pb.MessageFieldOptions{Flatten: g.chance(75)}}
				g.tag("j5-message-flatten")
			case 1, 2:
				opt.Type = &ext_j5pb.FieldOptions_Object{Object: &ext_j5pb.ObjectField{Flatten: g.chance(75)}}
				g.tag("j5-object-flatten")
			case 3:
				opt.Type = &ext_j5pb.FieldOptions_Oneof{Oneof: &ext_j5pb.OneofField{}}
			}
		}
	case descriptorpb.FieldDescriptorProto_TYPE_INT32:
		opt.Type = &ext_j5pb.FieldOptions_Integer{Integer: &ext_j5pb.IntegerField{}}
	case descriptorpb.FieldDescriptorProto_TYPE_ENUM:
		opt.Type = &ext_j5pb.FieldOptions_Enum{Enum: &ext_j5pb.EnumField{}}
	}
	return opt
}

// addComments attaches leading comments to messages, fields and enums through
// SourceCodeInfo (paths as protoc writes them).
func (g *gen) addComments(fd *descriptorpb.FileDescriptorProto) {
	sci := &descriptorpb.SourceCodeInfo{}
	add := func(path []int32, text string) {
		sci.Location = append(sci.Location, &descriptorpb.SourceCodeInfo_Location{Path: path, Span: []int32{0, 0, 0}, LeadingComments: proto.String(text)})
	}
	for mi, m := range fd.MessageType {
		if g.chance(50) {
			if g.chance(25) {
				// two paragraphs, a hidden line, blank lines at both ends (the reader keeps the inner blank line)
				add([]int32{4, int32(mi)}, "\n "+m.GetName()+" is a message\n\n # hidden\n second paragraph\n\n")
			} else {
				add([]int32{4, int32(mi)}, " "+m.GetName()+" is a message\n # hidden\n")
			}
		}
		for fi := range m.Field {
			if g.chance(30) {
				add([]int32{4, int32(mi), 2, int32(fi)}, " field comment")
			}
		}
	}
	for ei, e := range fd.EnumType {
		if g.chance(50) {
			add([]int32{5, int32(ei)}, " enum "+e.GetName())
		}
		for vi := range e.Value {
			if g.chance(30) {
				add([]int32{5, int32(ei), 2, int32(vi)}, " value comment")
			}
		}
	}
	if len(sci.Location) > 0 {
		fd.SourceCodeInfo = sci
		g.tag("comments")
	}
}

// Link marshals the set and links it the way structure.APIFromImage does
// (FileDescriptorSet -> protodesc.NewFiles); extension values therefore are the
// generated Go types. Returns the bytes that were linked.
func Link(set *descriptorpb.FileDescriptorSet) (*protoregistry.Files, []byte, error) {
	b, err := proto.MarshalOptions{Deterministic: true}.Marshal(set)
	if err != nil {
		return nil, nil, err
	}
	files, err := LinkBytes(b)
	return files, b, err
}

func LinkBytes(b []byte) (*protoregistry.Files, error) {
	set := &descriptorpb.FileDescriptorSet{}
	if err := proto.Unmarshal(b, set); err != nil {
		return nil, err
	}
	return protodesc.NewFiles(set)
}

// AllMessages lists every message of the file (nested included, map entries excluded), outer first.
func AllMessages(fd protoreflect.FileDescriptor) []protoreflect.MessageDescriptor {
	var out []protoreflect.MessageDescriptor
	var walk func(ms protoreflect.MessageDescriptors)
	walk = func(ms protoreflect.MessageDescriptors) {
		for i := 0; i < ms.Len(); i++ {
			m := ms.Get(i)
			if m.IsMapEntry() {
				continue
			}
			out = append(out, m)
			walk(m.Messages())
		}
	}
	walk(fd.Messages())
	return out
}

func AllEnums(fd protoreflect.FileDescriptor) []protoreflect.EnumDescriptor {
	var out []protoreflect.EnumDescriptor
	es := fd.Enums()
	for i := 0; i < es.Len(); i++ {
		out = append(out, es.Get(i))
	}
	var walk func(ms protoreflect.MessageDescriptors)
	walk = func(ms protoreflect.MessageDescriptors) {
		for i := 0; i < ms.Len(); i++ {
			m := ms.Get(i)
			es := m.Enums()
			for j := 0; j < es.Len(); j++ {
				out = append(out, es.Get(j))
			}
			walk(m.Messages())
		}
	}
	walk(fd.Messages())
	return out
}

// ---------------------------------------------------------------- supported-subset repair

// repairSupported rewrites annotation combinations the reader rejects into
// ones it accepts, so that descriptor sets of the Supported profile mostly
// reflect (C15 needs successful exports): flatten cycles, enum rules naming
// undefined numbers, legacy "keys" entity inference on a message without a
// known suffix, and string format / list rule
// combinations that exclude each other.
func repairSupported(files []*descriptorpb.FileDescriptorProto) {
	type msgInfo struct {
		d    *descriptorpb.DescriptorProto
		full string
	}
	msgs := map[string]*msgInfo{}
	enumVals := map[string][]int32{}
	enumNoDefault := map[string]bool{}
	var order []*msgInfo
	var walk func(prefix string, ms []*descriptorpb.DescriptorProto)
	addEnums := func(prefix string, es []*descriptorpb.EnumDescriptorProto) {
		for _, e := range es {
			full := prefix + "." + e.GetName()
			for _, v := range e.Value {
				enumVals[full] = append(enumVals[full], v.GetNumber())
			}
			if eo, _ := proto.GetExtension(e.GetOptions(), ext_j5pb.E_Enum).(*ext_j5pb.EnumOptions); eo != nil && eo.NoDefault {
				enumNoDefault[full] = true
			}
		}
	}
	walk = func(prefix string, ms []*descriptorpb.DescriptorProto) {
		for _, m := range ms {
			mi := &msgInfo{d: m, full: prefix + "." + m.GetName()}
			msgs[mi.full] = mi
			order = append(order, mi)
			addEnums(mi.full, m.EnumType)
			walk(mi.full, m.NestedType)
		}
	}
	for _, f := range files {
		addEnums("."+f.GetPackage(), f.EnumType)
		walk("."+f.GetPackage(), f.MessageType)
	}
	// flatten edges: drop those closing a cycle
	edges := map[string][]string{}
	var reaches func(from, to string, seen map[string]bool) bool
	reaches = func(from, to string, seen map[string]bool) bool {
		if from == to {
			return true
		}
		if seen[from] {
			return false
		}
		seen[from] = true
		for _, n := range edges[from] {
			if reaches(n, to, seen) {
				return true
			}
		}
		return false
	}
	for _, mi := range order {
		for _, f := range mi.d.Field {
			fo, _ := proto.GetExtension(f.GetOptions(), ext_j5pb.E_Field).(*ext_j5pb.FieldOptions)
			if fo == nil || f.GetType() != descriptorpb.FieldDescriptorProto_TYPE_MESSAGE {
				continue
			}
			flat := fo.GetMessage().GetFlatten() || fo.GetObject().GetFlatten()
			if !flat || f.GetLabel() == descriptorpb.FieldDescriptorProto_LABEL_REPEATED {
				continue
			}
			target := f.GetTypeName()
			if reaches(target, mi.full, map[string]bool{}) {
				if fo.GetMessage() != nil {
					fo.GetMessage().Flatten = false
				}
				if fo.GetObject() != nil {
					fo.GetObject().Flatten = false
				}
				proto.SetExtension(f.Options, ext_j5pb.E_Field, fo)
				continue
			}
			edges[mi.full] = append(edges[mi.full], target)
		}
	}
	for _, mi := range order {
		name := mi.d.GetName()
		suffixed := hasSuffix(name, "Keys") || hasSuffix(name, "State") || hasSuffix(name, "Data") || hasSuffix(name, "Event")
		for _, f := range mi.d.Field {
			// legacy entity inference through a "keys" field
			if f.GetName() == "keys" && f.GetType() == descriptorpb.FieldDescriptorProto_TYPE_MESSAGE && !suffixed {
				if t := msgs[f.GetTypeName()]; t != nil && proto.HasExtension(t.d.GetOptions(), ext_j5pb.E_Psm) && !proto.HasExtension(mi.d.GetOptions(), ext_j5pb.E_Psm) {
					part := schema_j5pb.EntityPart_STATE
					if mi.d.Options == nil {
						mi.d.Options = &descriptorpb.MessageOptions{}
					}
					proto.SetExtension(mi.d.Options, ext_j5pb.E_Psm, &ext_j5pb.PSMOptions{EntityName: "foo", EntityPart: &part})
				}
			}
			if f.Options == nil {
				continue
			}
			vc, _ := proto.GetExtension(f.Options, validate.E_Field).(*validate.FieldConstraints)
			lc, _ := proto.GetExtension(f.Options, list_j5pb.E_Field).(*list_j5pb.FieldConstraint)
			// enum rules name defined numbers only
			fixEnum := func(er *validate.EnumRules, tn string) {
				if er == nil {
					return
				}
				vals := enumVals[tn]
				var nonzero []int32
				for _, v := range vals {
					if v != 0 {
						nonzero = append(nonzero, v)
					}
				}
				if len(er.In) > 0 {
					if len(nonzero) > 0 {
						er.In = nonzero[:1]
					} else if enumNoDefault[tn] {
						er.In = nil
					} else {
						er.In = []int32{0}
					}
				}
				if len(er.NotIn) > 0 {
					er.NotIn = []int32{0}
				}
			}
			if vc != nil {
				fixEnum(vc.GetEnum(), f.GetTypeName())
				fixEnum(vc.GetRepeated().GetItems().GetEnum(), f.GetTypeName())
				if mv := vc.GetMap().GetValues().GetEnum(); mv != nil {
					// the value type of a map is that of the entry's value field
					if e := msgs[f.GetTypeName()]; e != nil && len(e.d.Field) == 2 {
						fixEnum(mv, e.d.Field[1].GetTypeName())
					}
				}
				proto.SetExtension(f.Options, validate.E_Field, vc)
			}
			if f.GetType() == descriptorpb.FieldDescriptorProto_TYPE_STRING && lc.GetString_() != nil {
				sr := vc.GetString()
				if vc.GetRepeated() != nil {
					sr = vc.GetRepeated().GetItems().GetString()
				}
				format := ""
				if sr != nil {
					switch sr.GetPattern() {
					case `^\d{4}-\d{2}-\d{2}$`:
						format = "date"
					case `^\d(.?\d)?$`:
						format = "number"
					case "^[0-9A-Za-z]{22}$":
						format = "id62"
					}
					switch {
					case sr.GetUuid():
						format = "uuid"
					case sr.GetEmail():
						format = "email"
					case sr.GetHostname():
						format = "hostname"
					case sr.GetIpv4():
						format = "ipv4"
					case sr.GetIpv6():
						format = "ipv6"
					case sr.GetUri():
						format = "uri"
					}
				}
				ok := true
				ls := lc.GetString_()
				switch {
				case ls.GetOpenText() != nil:
					ok = format == "" && !proto.HasExtension(f.Options, ext_j5pb.E_Key)
				case ls.GetForeignKey().GetUniqueString() != nil:
					ok = format == ""
				case ls.GetForeignKey().GetId62() != nil:
					ok = format == "" || format == "id62"
				case ls.GetForeignKey().GetUuid() != nil:
					ok = format == "" || format == "uuid"
				}
				if !ok {
					proto.ClearExtension(f.Options, list_j5pb.E_Field)
				}
			}
		}
	}
}

// addCollision appends `message Col { enum Kind; message Inner }`, `message Col_Kind` (with a field
// of type Col.Kind, optionally carrying an enum rule) and `message Col_Inner` (with a field of type
// Col.Inner): an enum and a message, and two messages, whose schema names coincide.
func addCollision(fd *descriptorpb.FileDescriptorProto, variant int) {
	pkg := "." + fd.GetPackage()
	opt := descriptorpb.FieldDescriptorProto_LABEL_OPTIONAL.Enum()
	col := &descriptorpb.DescriptorProto{
		Name: proto.String("Col"),
		EnumType: []*descriptorpb.EnumDescriptorProto{{
			Name: proto.String("Kind"),
			Value: []*descriptorpb.EnumValueDescriptorProto{
				{Name: proto.String("KIND_UNSPECIFIED"), Number: proto.Int32(0)},
				{Name: proto.String("KIND_A"), Number: proto.Int32(1)},
			},
		}},
		NestedType: []*descriptorpb.DescriptorProto{{
			Name: proto.String("Inner"),
			Field: []*descriptorpb.FieldDescriptorProto{
				{Name: proto.String("n"), Number: proto.Int32(1), Label: opt, Type: descriptorpb.FieldDescriptorProto_TYPE_INT32.Enum()},
			},
		}},
	}
	k := &descriptorpb.FieldDescriptorProto{Name: proto.String("k"), Number: proto.Int32(1), Label: opt,
		Type: descriptorpb.FieldDescriptorProto_TYPE_ENUM.Enum(), TypeName: proto.String(pkg + ".Col.Kind")}
	if variant == 2 {
		// variant 2: the enum field carries a rule (until the guard in buildEnumFieldSchema: a panic)
		k.Options = &descriptorpb.FieldOptions{}
		proto.SetExtension(k.Options, validate.E_Field, &validate.FieldConstraints{Type: &validate.FieldConstraints_Enum{Enum: &validate.EnumRules{In: []int32{1}}}})
	}
	colKind := &descriptorpb.DescriptorProto{Name: proto.String("Col_Kind"), Field: []*descriptorpb.FieldDescriptorProto{k}}
	colInner := &descriptorpb.DescriptorProto{Name: proto.String("Col_Inner"), Field: []*descriptorpb.FieldDescriptorProto{
		{Name: proto.String("i"), Number: proto.Int32(1), Label: opt, Type: descriptorpb.FieldDescriptorProto_TYPE_MESSAGE.Enum(), TypeName: proto.String(pkg + ".Col.Inner")},
		{Name: proto.String("s"), Number: proto.Int32(2), Label: opt, Type: descriptorpb.FieldDescriptorProto_TYPE_STRING.Enum()},
	}}
	switch variant {
	case 3:
		// variant 3: the enum is referred to (and its schema registered) before the message with the
		// same split name is read: that message is then answered with the enum schema
		col.Field = append(col.Field, &descriptorpb.FieldDescriptorProto{Name: proto.String("kind"), Number: proto.Int32(1), Label: opt,
			Type: descriptorpb.FieldDescriptorProto_TYPE_ENUM.Enum(), TypeName: proto.String(pkg + ".Col.Kind")})
		colKind.Field = []*descriptorpb.FieldDescriptorProto{
			{Name: proto.String("x"), Number: proto.Int32(1), Label: opt, Type: descriptorpb.FieldDescriptorProto_TYPE_STRING.Enum()},
		}
	case 5:
		// variant 5: as 3, and a message-typed FIELD of the message with the enum's name after the enum
		// field (buildMessageFieldSchema finds the ref linked to the enum schema: an error since d286176,
		// before that an ObjectField whose Ref.To is the EnumSchema and a panic in ObjectField.Schema())
		col.Field = append(col.Field,
			&descriptorpb.FieldDescriptorProto{Name: proto.String("kind"), Number: proto.Int32(1), Label: opt,
				Type: descriptorpb.FieldDescriptorProto_TYPE_ENUM.Enum(), TypeName: proto.String(pkg + ".Col.Kind")},
			&descriptorpb.FieldDescriptorProto{Name: proto.String("ck"), Number: proto.Int32(2), Label: descriptorpb.FieldDescriptorProto_LABEL_REPEATED.Enum(),
				Type: descriptorpb.FieldDescriptorProto_TYPE_MESSAGE.Enum(), TypeName: proto.String(pkg + ".Col_Kind")})
		colKind.Field = []*descriptorpb.FieldDescriptorProto{
			{Name: proto.String("note"), Number: proto.Int32(1), Label: opt, Type: descriptorpb.FieldDescriptorProto_TYPE_STRING.Enum()},
		}
	case 4:
		// variant 4: an exposed real oneof Col.pick and a message Col_pick
		oo := &descriptorpb.OneofOptions{}
		proto.SetExtension(oo, ext_j5pb.E_Oneof, &ext_j5pb.OneofOptions{Expose: true})
		col.OneofDecl = []*descriptorpb.OneofDescriptorProto{{Name: proto.String("pick"), Options: oo}}
		col.Field = append(col.Field,
			&descriptorpb.FieldDescriptorProto{Name: proto.String("a"), Number: proto.Int32(1), Label: opt, Type: descriptorpb.FieldDescriptorProto_TYPE_STRING.Enum(), OneofIndex: proto.Int32(0)},
			&descriptorpb.FieldDescriptorProto{Name: proto.String("b"), Number: proto.Int32(2), Label: opt, Type: descriptorpb.FieldDescriptorProto_TYPE_INT64.Enum(), OneofIndex: proto.Int32(0)})
		fd.MessageType = append(fd.MessageType, &descriptorpb.DescriptorProto{Name: proto.String("Col_pick"), Field: []*descriptorpb.FieldDescriptorProto{
			{Name: proto.String("y"), Number: proto.Int32(1), Label: opt, Type: descriptorpb.FieldDescriptorProto_TYPE_BOOL.Enum()},
		}})
	}
	fd.MessageType = append(fd.MessageType, col, colKind, colInner)
}

// addFlattenCycle appends messages Cyc0 .. Cyc<n-1>, each with a flattened object field of the next
// (the last of the first) and one scalar; with lead, a message CycLead flattens Cyc0 (a chain into
// the cycle, itself not on it). The reader must refuse the cycle (checkFlattenCycle); if it does not,
// ClientProperties recurses without end.
func addFlattenCycle(fd *descriptorpb.FileDescriptorProto, n int, lead bool) {
	opt := descriptorpb.FieldDescriptorProto_LABEL_OPTIONAL.Enum()
	flat := func(target string) *descriptorpb.FieldDescriptorProto {
		fo := &descriptorpb.FieldOptions{}
		proto.SetExtension(fo, ext_j5pb.E_Field, &ext_j5pb.FieldOptions{Type: &ext_j5pb.FieldOptions_Object{Object: &ext_j5pb.ObjectField{Flatten: true}}})
		return &descriptorpb.FieldDescriptorProto{Name: proto.String("next"), Number: proto.Int32(1), Label: opt,
			Type: descriptorpb.FieldDescriptorProto_TYPE_MESSAGE.Enum(), TypeName: proto.String("." + fd.GetPackage() + "." + target), Options: fo}
	}
	for i := 0; i < n; i++ {
		fd.MessageType = append(fd.MessageType, &descriptorpb.DescriptorProto{
			Name: proto.String(fmt.Sprintf("Cyc%d", i)),
			Field: []*descriptorpb.FieldDescriptorProto{
				flat(fmt.Sprintf("Cyc%d", (i+1)%n)),
				{Name: proto.String(fmt.Sprintf("v%d", i)), Number: proto.Int32(2), Label: opt, Type: descriptorpb.FieldDescriptorProto_TYPE_STRING.Enum()},
			},
		})
	}
	if lead {
		fd.MessageType = append(fd.MessageType, &descriptorpb.DescriptorProto{
			Name:  proto.String("CycLead"),
			Field: []*descriptorpb.FieldDescriptorProto{flat("Cyc0")},
		})
	}
}

// addFlattenChain appends DeepTop -> Deep1 -> ... -> Deep<n>: every level reaches the next through a
// flattened object field (number 7) and has properties of differing kinds before and after it, the
// innermost has four. The client properties of DeepTop are then proto paths of every length up to
// n+1 with several siblings at each depth (paths built by appending to a shared parent path).
func addFlattenChain(fd *descriptorpb.FileDescriptorProto, n int) {
	opt := descriptorpb.FieldDescriptorProto_LABEL_OPTIONAL.Enum()
	scalar := func(name string, num int32, t descriptorpb.FieldDescriptorProto_Type) *descriptorpb.FieldDescriptorProto {
		return &descriptorpb.FieldDescriptorProto{Name: proto.String(name), Number: proto.Int32(num), Label: opt, Type: t.Enum()}
	}
	flat := func(target string, msgStyle bool) *descriptorpb.FieldDescriptorProto {
		fo := &descriptorpb.FieldOptions{}
		if msgStyle {
			proto.SetExtension(fo, ext_j5pb.E_Field, &ext_j5pb.FieldOptions{Type: &ext_j5pb.FieldOptions_Message{Message: &ext_j5pb.MessageFieldOptions{Flatten: true}}})
		} else {
			proto.SetExtension(fo, ext_j5pb.E_Field, &ext_j5pb.FieldOptions{Type: &ext_j5pb.FieldOptions_Object{Object: &ext_j5pb.ObjectField{Flatten: true}}})
		}
		return &descriptorpb.FieldDescriptorProto{Name: proto.String("inner"), Number: proto.Int32(7), Label: opt,
			Type: descriptorpb.FieldDescriptorProto_TYPE_MESSAGE.Enum(), TypeName: proto.String("." + fd.GetPackage() + "." + target), Options: fo}
	}
	name := func(i int) string {
		if i == 0 {
			return "DeepTop"
		}
		return fmt.Sprintf("Deep%d", i)
	}
	for i := 0; i <= n; i++ {
		m := &descriptorpb.DescriptorProto{Name: proto.String(name(i))}
		m.Field = append(m.Field, scalar(fmt.Sprintf("s%d", i), 1, descriptorpb.FieldDescriptorProto_TYPE_STRING))
		if i < n {
			m.Field = append(m.Field, flat(name(i+1), i%2 == 0))
			m.Field = append(m.Field, scalar(fmt.Sprintf("n%d", i), 9, descriptorpb.FieldDescriptorProto_TYPE_INT64))
		} else {
			m.Field = append(m.Field,
				scalar(fmt.Sprintf("b%d", i), 2, descriptorpb.FieldDescriptorProto_TYPE_BOOL),
				scalar(fmt.Sprintf("n%d", i), 3, descriptorpb.FieldDescriptorProto_TYPE_INT32),
				scalar(fmt.Sprintf("t%d", i), 4, descriptorpb.FieldDescriptorProto_TYPE_STRING))
		}
		fd.MessageType = append(fd.MessageType, m)
	}
}

// addFlattenClash appends objects whose CLIENT property names (own properties plus those hoisted from
// flattened object fields, recursively) use one JSON name twice although every object's own names are
// distinct. The reader must refuse them (checkClientPropertyNames, run once a build is complete).
//
//	1: a flattened child against a sibling: FcA { string id; FcB b [flatten] } FcB { string id }
//	2: two flattened children against each other: FcA { FcB b [flatten]; FcC c [flatten] } FcB { string id } FcC { int64 id }
//	3: two levels down: FcA { string deep; FcB b [flatten] } FcB { string mid; FcC c [flatten] } FcC { bool deep }
//	4: the flattened object is still being built when the flattening one is finished:
//	   FcB { FcA child; string x } FcA { FcB b [flatten]; string x }, FcB declared (and read) first
func addFlattenClash(fd *descriptorpb.FileDescriptorProto, variant int) {
	opt := descriptorpb.FieldDescriptorProto_LABEL_OPTIONAL.Enum()
	scalar := func(name string, num int32, t descriptorpb.FieldDescriptorProto_Type) *descriptorpb.FieldDescriptorProto {
		return &descriptorpb.FieldDescriptorProto{Name: proto.String(name), Number: proto.Int32(num), Label: opt, Type: t.Enum()}
	}
	ref := func(name string, num int32, target string, flatten bool) *descriptorpb.FieldDescriptorProto {
		f := &descriptorpb.FieldDescriptorProto{Name: proto.String(name), Number: proto.Int32(num), Label: opt,
			Type: descriptorpb.FieldDescriptorProto_TYPE_MESSAGE.Enum(), TypeName: proto.String("." + fd.GetPackage() + "." + target)}
		if flatten {
			fo := &descriptorpb.FieldOptions{}
			proto.SetExtension(fo, ext_j5pb.E_Field, &ext_j5pb.FieldOptions{Type: &ext_j5pb.FieldOptions_Object{Object: &ext_j5pb.ObjectField{Flatten: true}}})
			f.Options = fo
		}
		return f
	}
	msg := func(name string, fields ...*descriptorpb.FieldDescriptorProto) {
		fd.MessageType = append(fd.MessageType, &descriptorpb.DescriptorProto{Name: proto.String(name), Field: fields})
	}
	str, i64, bl := descriptorpb.FieldDescriptorProto_TYPE_STRING, descriptorpb.FieldDescriptorProto_TYPE_INT64, descriptorpb.FieldDescriptorProto_TYPE_BOOL
	switch variant {
	case 1:
		msg("FcA", scalar("id", 1, str), ref("b", 2, "FcB", true))
		msg("FcB", scalar("id", 1, str))
	case 2:
		msg("FcA", ref("b", 1, "FcB", true), ref("c", 2, "FcC", true))
		msg("FcB", scalar("id", 1, str))
		msg("FcC", scalar("id", 1, i64))
	case 3:
		msg("FcA", scalar("deep", 1, str), ref("b", 2, "FcB", true))
		msg("FcB", scalar("mid", 1, str), ref("c", 2, "FcC", true))
		msg("FcC", scalar("deep", 1, bl))
	default:
		msg("FcB", ref("child", 1, "FcA", false), scalar("x", 2, str))
		msg("FcA", ref("b", 1, "FcB", true), scalar("x", 2, str))
	}
}

// addOneofClash appends `message Clash { oneof foo_bar { option (j5.ext.v1.oneof).expose = true;
// string a = 1; } string fooBar = 2; }`: protoc and protodesc accept it (JSON-name conflicts are
// checked between fields only); the exposed oneof's property is named lowerCamel("foo_bar") = "fooBar".
func addOneofClash(fd *descriptorpb.FileDescriptorProto) {
	opt := descriptorpb.FieldDescriptorProto_LABEL_OPTIONAL.Enum()
	oo := &descriptorpb.OneofOptions{}
	proto.SetExtension(oo, ext_j5pb.E_Oneof, &ext_j5pb.OneofOptions{Expose: true})
	fd.MessageType = append(fd.MessageType, &descriptorpb.DescriptorProto{
		Name:      proto.String("Clash"),
		OneofDecl: []*descriptorpb.OneofDescriptorProto{{Name: proto.String("foo_bar"), Options: oo}},
		Field: []*descriptorpb.FieldDescriptorProto{
			{Name: proto.String("a"), Number: proto.Int32(1), Label: opt, Type: descriptorpb.FieldDescriptorProto_TYPE_STRING.Enum(), OneofIndex: proto.Int32(0)},
			{Name: proto.String("fooBar"), Number: proto.Int32(2), Label: opt, Type: descriptorpb.FieldDescriptorProto_TYPE_STRING.Enum()},
		},
	})
}

// addServices appends one or two services / topics to the file, with the request / response / message
// types they name, as structure.APIFromImage's addStructure reads them: mostly well-formed
// (`FooService` with `GetFoo(GetFooRequest) returns (GetFooResponse)` and a google.api.http rule whose
// path parameters are request fields; `FooTopic` with `Foo(FooMessage) returns (google.protobuf.Empty)`),
// and, with a small chance per site, each of the things buildService / buildMethod / buildTopic reject:
// an unsupported service name, a request / response / message of another name or package, a missing or
// custom http rule, a path parameter that is not a field, an invalid path part, state-query method
// annotations on a service that is not a state-query service or without a part.
func addServices(g *gen, fd *descriptorpb.FileDescriptorProto, fi int) {
	r := g.r
	pkg := "." + fd.GetPackage()
	opt := descriptorpb.FieldDescriptorProto_LABEL_OPTIONAL.Enum()
	str := descriptorpb.FieldDescriptorProto_TYPE_STRING.Enum()
	for _, p := range ServiceDepPaths {
		fd.Dependency = append(fd.Dependency, p)
	}
	odd := func() bool { return r.Chance(7) }
	msg := func(name string, fields ...string) string {
		d := &descriptorpb.DescriptorProto{Name: proto.String(name)}
		for i, f := range fields {
			d.Field = append(d.Field, &descriptorpb.FieldDescriptorProto{Name: proto.String(f), Number: proto.Int32(int32(i + 1)), Label: opt, Type: str})
		}
		fd.MessageType = append(fd.MessageType, d)
		return pkg + "." + name
	}
	n := 1 + r.Intn(2)
	for si := 0; si < n; si++ {
		base := fmt.Sprintf("Svc%d%c", fi, 'A'+si)
		topic := r.Chance(40)
		suffix := "Service"
		switch {
		case topic:
			suffix = "Topic"
		case r.Chance(15):
			suffix = "Sandbox"
		case r.Chance(20):
			suffix = "Events"
		}
		if odd() {
			suffix = pick(g, []string{"", "Handler", "Services", "topic"})
			g.tag("service-name-unsupported")
		}
		svc := &descriptorpb.ServiceDescriptorProto{Name: proto.String(base + suffix)}
		kind := 0 // 1 state query, 2 state command
		if !topic && r.Chance(30) {
			kind = 1 + r.Intn(2)
			so := &ext_j5pb.ServiceOptions{}
			if kind == 1 {
				so.Type = &ext_j5pb.ServiceOptions_StateQuery_{StateQuery: &ext_j5pb.ServiceOptions_StateQuery{Entity: "foo"}}
			} else {
				so.Type = &ext_j5pb.ServiceOptions_StateCommand_{StateCommand: &ext_j5pb.ServiceOptions_StateCommand{Entity: "foo"}}
			}
			svc.Options = &descriptorpb.ServiceOptions{}
			proto.SetExtension(svc.Options, ext_j5pb.E_Service, so)
		}
		nm := 1 + r.Intn(2)
		for mi := 0; mi < nm; mi++ {
			mn := fmt.Sprintf("%sDo%d", base, mi)
			m := &descriptorpb.MethodDescriptorProto{Name: proto.String(mn)}
			if topic || suffix == "topic" {
				in := mn + "Message"
				if odd() {
					in = mn + "Msg"
					g.tag("topic-message-misnamed")
				}
				m.InputType = proto.String(msg(in, "id", "note"))
				m.OutputType = proto.String(".google.protobuf.Empty")
				if odd() {
					m.OutputType = proto.String(msg(mn+"Reply", "ok"))
					g.tag("topic-output-not-empty")
				}
				svc.Method = append(svc.Method, m)
				continue
			}
			in := mn + "Request"
			if odd() {
				in = mn + "Req"
				g.tag("service-request-misnamed")
			}
			m.InputType = proto.String(msg(in, "id", "tenant_id", "q"))
			switch {
			case odd():
				m.OutputType = proto.String(msg(mn+"Reply", "ok"))
				g.tag("service-response-misnamed")
			case r.Chance(10):
				m.OutputType = proto.String(".google.api.HttpBody")
				g.tag("service-response-httpbody")
			default:
				m.OutputType = proto.String(msg(mn+"Response", "ok"))
			}
			path := pick(g, []string{"/foo/v1/x", "/foo/v1/{id}", "/foo/v1/{tenant_id}/x/{id}", "/", "", "/a//b", "/foo/{q}/"})
			if r.Chance(22) {
				// path parts around the two tests of buildMethod: "{field}" with and without such a field, and
				// parts containing one of "{}*:" that are not of that form
				path = pick(g, []string{"/foo/{missing}", "/foo/a*b", "/foo/{id", "/foo/id}", "/foo/{}", "/foo/x:y", "/{", "/foo/{id}/{nope}",
					"/foo/:id", "/a/b*", "/{id}x", "/x{id}", "/foo/{id}:cancel", "/foo/{id}/:x", "/*", "/a:b/{id}", "/{id}/{q}/{tenant_id}", "/}{"})
				g.tag("service-path-edge")
			}
			rule := &annotations.HttpRule{}
			switch r.Intn(5) {
			case 0:
				rule.Pattern = &annotations.HttpRule_Get{Get: path}
			case 1:
				rule.Pattern = &annotations.HttpRule_Post{Post: path}
			case 2:
				rule.Pattern = &annotations.HttpRule_Put{Put: path}
			case 3:
				rule.Pattern = &annotations.HttpRule_Delete{Delete: path}
			default:
				rule.Pattern = &annotations.HttpRule_Patch{Patch: path}
			}
			if odd() {
				if r.Chance(50) {
					rule.Pattern = &annotations.HttpRule_Custom{Custom: &annotations.CustomHttpPattern{Kind: "HEAD", Path: path}}
				} else {
					rule.Pattern = nil
				}
				g.tag("service-http-pattern-unsupported")
			}
			m.Options = &descriptorpb.MethodOptions{}
			if odd() {
				g.tag("service-http-rule-missing")
			} else {
				proto.SetExtension(m.Options, annotations.E_Http, rule)
			}
			if kind == 1 && r.Chance(70) || odd() {
				sq := &ext_j5pb.StateQueryMethodOptions{}
				switch r.Intn(4) {
				case 0:
					sq.Get = true
				case 1:
					sq.List = true
				case 2:
					sq.ListEvents = true
				default:
					g.tag("service-state-query-without-part")
				}
				proto.SetExtension(m.Options, ext_j5pb.E_Method, &ext_j5pb.MethodOptions{StateQuery: sq})
				g.tag("service-state-query-method")
			} else if r.Chance(20) {
				proto.SetExtension(m.Options, ext_j5pb.E_Method, &ext_j5pb.MethodOptions{Label: "x"})
			}
			svc.Method = append(svc.Method, m)
		}
		fd.Service = append(fd.Service, svc)
		g.tag("service-or-topic-crafted")
	}
}

package descgen

import (
	"context"
	"fmt"
	"strings"

	"github.com/pentops/j5/lib/verifshim/compile"
	"google.golang.org/protobuf/proto"
	"google.golang.org/protobuf/types/descriptorpb"
	"verifharness/j5sgen"
	"verifharness/vh"
)

// GenerateJ5S compiles a generated valid j5s package (the C02 generator) with the
// real compiler and returns its descriptors as a Case: Gen = the files of local
// packages (compiled from j5s), Deps = everything they import. Options are
// re-marshalled, as the tool does before the descriptors reach the reader.
func GenerateJ5S(r *vh.Rand, services bool) (c *Case, err error) {
	defer func() {
		if p := recover(); p != nil {
			c, err = nil, fmt.Errorf("compiler panic: %v", p)
		}
	}()
	cfg := j5sgen.DefaultConfig()
	// services and topics: what structure.APIFromImage's addStructure reads (C15 models it)
	cfg.Services, cfg.Topics, cfg.PFiles = services, services, false
	cfg.MaxFields, cfg.MaxDepth, cfg.MaxPackages = 5, 3, 2
	if r.Chance(40) {
		cfg.Imports, cfg.MaxFiles = false, 1
	}
	g := j5sgen.NewGen(r, cfg)
	b, pkg := g.Bundle()
	texts := b.Texts(r.Fork("print"))
	files, cerr := compile.Compile(context.Background(), texts, pkg)
	if cerr != nil {
		return nil, cerr
	}
	local := map[string]bool{}
	for name := range texts {
		local[name+".proto"] = true
		local[name] = true
	}
	c = &Case{Tags: map[string]int{"source:j5s-compiled": 1}}
	for k, v := range g.Stats {
		c.Tags["j5s:"+k] += v
	}
	for _, f := range compile.WithDeps(files) {
		fdp := compile.ToProto(f)
		// re-marshal: option extension values become the generated Go types
		raw, merr := proto.Marshal(fdp)
		if merr != nil {
			return nil, merr
		}
		fd2 := &descriptorpb.FileDescriptorProto{}
		if uerr := proto.Unmarshal(raw, fd2); uerr != nil {
			return nil, uerr
		}
		if local[f.Path()] || strings.HasSuffix(f.Path(), ".j5s.proto") {
			c.Gen = append(c.Gen, fd2)
		} else {
			c.Deps = append(c.Deps, fd2)
		}
	}
	if len(c.Gen) == 0 {
		return nil, fmt.Errorf("no local file in the compiled package")
	}
	return c, nil
}

package descgen

// Services of a linked descriptor set as the Coq term `list svcd` (model/ExportApi.v): what
// structure.APIFromImage's addStructure reads of them.

import (
	"fmt"
	"strings"

	"github.com/pentops/j5/gen/j5/ext/v1/ext_j5pb"
	"google.golang.org/genproto/googleapis/api/annotations"
	"google.golang.org/protobuf/proto"
	"google.golang.org/protobuf/reflect/protoreflect"
	"google.golang.org/protobuf/reflect/protoregistry"
)

func coqBool(b bool) string {
	if b {
		return "true"
	}
	return "false"
}

func methodTerm(m protoreflect.MethodDescriptor) string {
	in, out := m.Input(), m.Output()
	var fields []string
	for i := 0; i < in.Fields().Len(); i++ {
		fields = append(fields, Str(string(in.Fields().Get(i).Name())))
	}
	http := "HNone"
	if rule, ok := proto.GetExtension(m.Options(), annotations.E_Http).(*annotations.HttpRule); ok && rule != nil {
		switch pt := rule.Pattern.(type) {
		case *annotations.HttpRule_Get:
			http = "(HGet " + Str(pt.Get) + ")"
		case *annotations.HttpRule_Post:
			http = "(HPost " + Str(pt.Post) + ")"
		case *annotations.HttpRule_Put:
			http = "(HPut " + Str(pt.Put) + ")"
		case *annotations.HttpRule_Delete:
			http = "(HDelete " + Str(pt.Delete) + ")"
		case *annotations.HttpRule_Patch:
			http = "(HPatch " + Str(pt.Patch) + ")"
		default:
			http = "HOther"
		}
	}
	sq := "None"
	if ext, ok := proto.GetExtension(m.Options(), ext_j5pb.E_Method).(*ext_j5pb.MethodOptions); ok && ext != nil && ext.StateQuery != nil {
		sq = fmt.Sprintf("(Some (%s, %s, %s))", coqBool(ext.StateQuery.Get), coqBool(ext.StateQuery.List), coqBool(ext.StateQuery.ListEvents))
	}
	return fmt.Sprintf("Meth %s %s %s [%s] %s %s %s %s",
		Str(string(m.Name())), Str(string(in.ParentFile().Package())), Str(string(in.Name())), strings.Join(fields, "; "),
		Str(string(out.Name())), Str(string(out.FullName())), http, sq)
}

func serviceTerm(s protoreflect.ServiceDescriptor) string {
	kind := "SKNone"
	if ext, ok := proto.GetExtension(s.Options(), ext_j5pb.E_Service).(*ext_j5pb.ServiceOptions); ok && ext != nil {
		switch ext.Type.(type) {
		case *ext_j5pb.ServiceOptions_StateQuery_:
			kind = "SKStateQuery"
		case *ext_j5pb.ServiceOptions_StateCommand_:
			kind = "SKStateCommand"
		}
	}
	var ms []string
	for i := 0; i < s.Methods().Len(); i++ {
		ms = append(ms, methodTerm(s.Methods().Get(i)))
	}
	return fmt.Sprintf("Svc %s %s %s [%s]", Str(string(s.ParentFile().Package())), Str(string(s.Name())), kind, strings.Join(ms, ";\n      "))
}

// ServicesTerm lists the services of every file of the set (addStructure ranges over all of them,
// dependencies included), files in path order.
func ServicesTerm(files *protoregistry.Files) (string, int) {
	var fds []protoreflect.FileDescriptor
	files.RangeFiles(func(fd protoreflect.FileDescriptor) bool {
		fds = append(fds, fd)
		return true
	})
	sortFiles(fds)
	var out []string
	for _, fd := range fds {
		for i := 0; i < fd.Services().Len(); i++ {
			out = append(out, serviceTerm(fd.Services().Get(i)))
		}
	}
	return "[" + strings.Join(out, ";\n    ") + "]", len(out)
}

func sortFiles(fds []protoreflect.FileDescriptor) {
	for i := 1; i < len(fds); i++ {
		for j := i; j > 0 && fds[j].Path() < fds[j-1].Path(); j-- {
			fds[j], fds[j-1] = fds[j-1], fds[j]
		}
	}
}

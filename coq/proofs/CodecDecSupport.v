(* CodecDecSupport.v — steps on a message that read and write only a known set of its fields commute
   when those sets are disjoint; steps that work inside the same sub-message commute when they do
   there.  This is the algebra behind "the order of the members of a JSON object does not matter". *)
From Coq Require Import String List NArith ZArith Bool Lia ZifyN ZifyBool.
From J5V.lib Require Import Outcome Json.
From J5V.model Require Import CodecTypes CodecDec.
From J5V.proofs Require Import CodecDecStored CodecDecMsgSorted.
Import ListNotations.
Local Open Scope N_scope.

Definition agree (S : list N) (h1 h2 : msg) : Prop := forall n, In n S -> msg_get n h1 = msg_get n h2.
Definition disjoint (S T : list N) : Prop := forall n, In n S -> In n T -> False.

Lemma agree_sym S h1 h2 : agree S h1 h2 -> agree S h2 h1.
Proof. intros H n Hn. symmetry. apply H. exact Hn. Qed.

(* F reads only the fields S of the message (and writes only them), and keeps messages sorted *)
Record supported {A} (S : list N) (F : msg -> outcome (msg * A)) : Prop := mkSup {
  sup_frame : forall h h' a, F h = Ok (h', a) -> forall n, ~ In n S -> msg_get n h' = msg_get n h;
  sup_det : forall h1 h2 h1' a, agree S h1 h2 -> F h1 = Ok (h1', a) ->
            exists h2', F h2 = Ok (h2', a) /\ agree S h1' h2';
  sup_wf : forall h h' a, wf h -> F h = Ok (h', a) -> wf h' }.

Lemma in_dec_N (n : N) (S : list N) : {In n S} + {~ In n S}.
Proof. apply in_dec. apply N.eq_dec. Qed.

Theorem commute {A B} S T (F : msg -> outcome (msg * A)) (G : msg -> outcome (msg * B)) :
  supported S F -> supported T G -> disjoint S T ->
  forall h h1 h12 a b, wf h -> F h = Ok (h1, a) -> G h1 = Ok (h12, b) ->
  exists h2, G h = Ok (h2, b) /\ F h2 = Ok (h12, a).
Proof.
  intros SF SG D h h1 h12 a b W HF HG.
  assert (A1 : agree T h1 h).
  { intros n Hn. apply (sup_frame S F SF h h1 a HF). intros Hs. exact (D n Hs Hn). }
  destruct (sup_det T G SG h1 h h12 b A1 HG) as (h2 & HG2 & A2).
  assert (A3 : agree S h h2).
  { intros n Hn. symmetry. apply (sup_frame T G SG h h2 b HG2). intros Ht. exact (D n Hn Ht). }
  destruct (sup_det S F SF h h2 h1 a A3 HF) as (h21 & HF2 & A4).
  exists h2. split; [exact HG2|]. rewrite HF2. f_equal. f_equal.
  pose proof (sup_wf S F SF h h1 a W HF) as W1. pose proof (sup_wf T G SG h1 h12 b W1 HG) as W12.
  pose proof (sup_wf T G SG h h2 b W HG2) as W2. pose proof (sup_wf S F SF h2 h21 a W2 HF2) as W21.
  apply msg_ext; [exact (proj1 W21)|exact (proj1 W12)|]. intros n.
  destruct (in_dec_N n S) as [Hs|Hs].
  - rewrite <- (A4 n Hs). symmetry. apply (sup_frame T G SG h1 h12 b HG). intros Ht. exact (D n Hs Ht).
  - rewrite (sup_frame S F SF h2 h21 a HF2 n Hs).
    destruct (in_dec_N n T) as [Ht|Ht].
    + symmetry. apply A2. exact Ht.
    + rewrite (sup_frame T G SG h h2 b HG2 n Ht), (sup_frame T G SG h1 h12 b HG n Ht).
      symmetry. apply (sup_frame S F SF h h1 a HF n Hs).
Qed.

Lemma supported_weaken {A} S S' (F : msg -> outcome (msg * A)) :
  (forall n, In n S -> In n S') -> supported S F -> supported S' F.
Proof.
  intros Hsub SF. constructor.
  - intros h h' a HF n Hn. apply (sup_frame S F SF h h' a HF). intros H. apply Hn. apply Hsub. exact H.
  - intros h1 h2 h1' a Ag HF.
    assert (Ag0 : agree S h1 h2) by (intros n Hn; apply Ag; apply Hsub; exact Hn).
    destruct (sup_det S F SF h1 h2 h1' a Ag0 HF) as (h2' & HF2 & Ag2). exists h2'. split; [exact HF2|].
    intros n Hn. destruct (in_dec_N n S) as [Hs|Hs]; [apply Ag2; exact Hs|].
    rewrite (sup_frame S F SF h1 h1' a HF n Hs), (sup_frame S F SF h2 h2' a HF2 n Hs). apply Ag. exact Hn.
  - exact (sup_wf S F SF).
Qed.

(* ---------------------------------------------------------------- working inside the sub-message of field a *)
Definition lift {A} (a : N) (F : msg -> outcome (msg * A)) (m : msg) : outcome (msg * A) :=
  let '(sub, m1) := msg_mutable [] a m in
  obind (F sub) (fun r => Ok (msg_put a (VMsg (fst r)) m1, snd r)).

Lemma with_holder_cons {A} a b r m (k : N -> msg -> outcome (msg * A)) :
  with_holder (a :: b :: r) m k = lift a (fun sub => with_holder (b :: r) sub k) m.
Proof. reflexivity. Qed.

Definition sub_of (a : N) (m : msg) : msg := match msg_get a m with Some (VMsg s) => s | _ => [] end.

Lemma msg_mutable_fst sibs a m : fst (msg_mutable sibs a m) = sub_of a m.
Proof. unfold msg_mutable, sub_of. destruct (msg_get a m) as [[]|]; reflexivity. Qed.

Lemma lift_eq {A} a (F : msg -> outcome (msg * A)) m :
  lift a F m = obind (F (sub_of a m)) (fun r => Ok (msg_put a (VMsg (fst r)) (snd (msg_mutable [] a m)), snd r)).
Proof. unfold lift. rewrite <- (msg_mutable_fst [] a m). destruct (msg_mutable [] a m); reflexivity. Qed.

(* Mutable() followed by storing the sub-message back: only field a changes *)
Lemma put_after_mutable a X m : msg_put a X (snd (msg_mutable [] a m)) = msg_put a X m.
Proof.
  unfold msg_mutable. destruct (msg_get a m) as [[]|]; cbn [snd]; try reflexivity;
    rewrite msg_clear_all_nil; apply msg_put_put_same.
Qed.

Lemma lift_ok {A} a (F : msg -> outcome (msg * A)) m m' x :
  lift a F m = Ok (m', x) <-> exists s', F (sub_of a m) = Ok (s', x) /\ m' = msg_put a (VMsg s') m.
Proof.
  rewrite lift_eq. split.
  - destruct (F (sub_of a m)) as [[s' y]| | |]; cbn [obind fst snd]; try discriminate.
    intros H. injection H as <- <-. exists s'. split; [reflexivity|]. apply put_after_mutable.
  - intros (s' & -> & ->). cbn [obind fst snd]. rewrite put_after_mutable. reflexivity.
Qed.

Lemma sub_of_put a s m : sub_of a (msg_put a (VMsg s) m) = s.
Proof. unfold sub_of. rewrite msg_get_put_same. reflexivity. Qed.

Lemma wf_sub_of a m : wf m -> wf (sub_of a m).
Proof.
  intros W. unfold sub_of. destruct (msg_get a m) as [v|] eqn:E; [|apply wf_nil].
  destruct v; try apply wf_nil. exact (wf_get a m _ W E).
Qed.

Lemma lift_supported {A} a (F : msg -> outcome (msg * A)) :
  (forall s s' x, wf s -> F s = Ok (s', x) -> wf s') -> supported [a] (lift a F).
Proof.
  intros WF. constructor.
  - intros h h' x H n Hn. apply lift_ok in H. destruct H as (s' & _ & ->).
    apply msg_get_put_other. intros ->. apply Hn. left. reflexivity.
  - intros h1 h2 h1' x Ag H. apply lift_ok in H. destruct H as (s' & HF & ->).
    assert (E : sub_of a h1 = sub_of a h2) by (unfold sub_of; rewrite (Ag a (or_introl eq_refl)); reflexivity).
    exists (msg_put a (VMsg s') h2). split.
    + apply lift_ok. exists s'. rewrite <- E. split; [exact HF|reflexivity].
    + intros n [<-|[]]. rewrite !msg_get_put_same. reflexivity.
  - intros h h' x W H. apply lift_ok in H. destruct H as (s' & HF & ->).
    apply wf_put; [|exact W]. rewrite wf_val_msg. exact (WF _ _ _ (wf_sub_of a h W) HF).
Qed.

Lemma lift_commute {A B} a (F : msg -> outcome (msg * A)) (G : msg -> outcome (msg * B)) :
  (forall s s1 s12 x y, wf s -> F s = Ok (s1, x) -> G s1 = Ok (s12, y) ->
     exists s2, G s = Ok (s2, y) /\ F s2 = Ok (s12, x)) ->
  forall h h1 h12 x y, wf h -> lift a F h = Ok (h1, x) -> lift a G h1 = Ok (h12, y) ->
  exists h2, lift a G h = Ok (h2, y) /\ lift a F h2 = Ok (h12, x).
Proof.
  intros C h h1 h12 x y W HF HG.
  apply lift_ok in HF. destruct HF as (s1 & HF & ->).
  apply lift_ok in HG. destruct HG as (s12 & HG & ->). rewrite sub_of_put in HG.
  destruct (C _ _ _ _ _ (wf_sub_of a h W) HF HG) as (s2 & HG2 & HF2).
  exists (msg_put a (VMsg s2) h). split.
  - apply lift_ok. exists s2. split; [exact HG2|reflexivity].
  - apply lift_ok. exists s12. rewrite sub_of_put. split; [exact HF2|]. rewrite !msg_put_put_same. reflexivity.
Qed.

(* ---------------------------------------------------------------- a decoder step: the oneof check, then the write at the end of a path *)
Definition conflict_at (path sibs : list N) (h : msg) : bool :=
  match holder_lookup path h with
  | Some (hh, _) => existsb (fun s => msg_has s hh) sibs
  | None => false
  end.

Lemma oneof_conflict_at p m : oneof_conflict p m = conflict_at (p_path p) (p_siblings p) m.
Proof. reflexivity. Qed.

Definition conflict_msg : string := "conflicts with another member of the same proto oneof".

Definition pstep {A} (path sibs : list N) (K : N -> msg -> outcome (msg * A)) (h : msg) : outcome (msg * A) :=
  if conflict_at path sibs h then Err conflict_msg else with_holder path h K.

Lemma existsb_has_nil sibs : existsb (fun s => msg_has s []) sibs = false.
Proof. induction sibs as [|s r IH]; [reflexivity|]. cbn. exact IH. Qed.

Lemma conflict_at_nil_msg path sibs : conflict_at path sibs [] = false.
Proof.
  unfold conflict_at. destruct path as [|a [|b r]]; cbn [holder_lookup msg_get]; try reflexivity.
  apply existsb_has_nil.
Qed.

Lemma conflict_at_cons a b r sibs h : conflict_at (a :: b :: r) sibs h = conflict_at (b :: r) sibs (sub_of a h).
Proof.
  unfold conflict_at at 1. cbn [holder_lookup]. unfold sub_of.
  destruct (msg_get a h) as [v|]; [|symmetry; apply conflict_at_nil_msg].
  destruct v; try (symmetry; apply conflict_at_nil_msg). reflexivity.
Qed.

Lemma pstep_cons {A} a b r sibs (K : N -> msg -> outcome (msg * A)) h :
  pstep (a :: b :: r) sibs K h = lift a (pstep (b :: r) sibs K) h.
Proof.
  unfold pstep at 1. rewrite conflict_at_cons, lift_eq. unfold pstep.
  destruct (conflict_at (b :: r) sibs (sub_of a h)); [reflexivity|].
  rewrite with_holder_cons, lift_eq. reflexivity.
Qed.

Definition klocal {A} (sibs : list N) (K : N -> msg -> outcome (msg * A)) : Prop :=
  forall n, supported (n :: sibs) (K n).

Definition supp_path (path sibs : list N) : list N :=
  match path with
  | [] => []
  | [n] => n :: sibs
  | n :: _ => [n]
  end.

Lemma conflict_at_single_agree n sibs h1 h2 : agree (n :: sibs) h1 h2 -> conflict_at [n] sibs h1 = conflict_at [n] sibs h2.
Proof.
  intros Ag. unfold conflict_at. cbn [holder_lookup].
  assert (G : forall l, (forall s, In s l -> In s sibs) ->
              existsb (fun s => msg_has s h1) l = existsb (fun s => msg_has s h2) l).
  { induction l as [|s r IH]; intros Hl; [reflexivity|]. cbn [existsb]. unfold msg_has at 1 3.
    rewrite (Ag s (or_intror (Hl s (or_introl eq_refl)))). rewrite IH; [reflexivity|].
    intros s0 Hs0. apply Hl. right. exact Hs0. }
  apply G. auto.
Qed.

Lemma pstep_supported {A} sibs (K : N -> msg -> outcome (msg * A)) : klocal sibs K ->
  forall path, path <> [] -> supported (supp_path path sibs) (pstep path sibs K).
Proof.
  intros HK. induction path as [|a rest IH]; intros Hne; [congruence|].
  destruct rest as [|b r].
  - cbn [supp_path]. specialize (HK a). constructor.
    + intros h h' x H. unfold pstep in H. destruct (conflict_at [a] sibs h); [discriminate|].
      exact (sup_frame _ _ HK h h' x H).
    + intros h1 h2 h1' x Ag H. unfold pstep in *. rewrite <- (conflict_at_single_agree a sibs h1 h2 Ag).
      destruct (conflict_at [a] sibs h1); [discriminate|]. exact (sup_det _ _ HK h1 h2 h1' x Ag H).
    + intros h h' x W H. unfold pstep in H. destruct (conflict_at [a] sibs h); [discriminate|].
      exact (sup_wf _ _ HK h h' x W H).
  - cbn [supp_path].
    assert (E : forall h, pstep (a :: b :: r) sibs K h = lift a (pstep (b :: r) sibs K) h) by (intros; apply pstep_cons).
    specialize (IH ltac:(discriminate)).
    pose proof (lift_supported a (pstep (b :: r) sibs K) (fun s s' x W H => sup_wf _ _ IH s s' x W H)) as L.
    constructor.
    + intros h h' x H. rewrite E in H. exact (sup_frame _ _ L h h' x H).
    + intros h1 h2 h1' x Ag H. rewrite E in H. rewrite E. exact (sup_det _ _ L h1 h2 h1' x Ag H).
    + intros h h' x W H. rewrite E in H. exact (sup_wf _ _ L h h' x W H).
Qed.

(* two paths whose steps commute: they part at some level into different fields, neither field a
   oneof sibling of the other where the path ends *)
Fixpoint compat (pa sa pb sb : list N) : Prop :=
  match pa, pb with
  | a :: ((_ :: _) as ra), b :: ((_ :: _) as rb) => if a =? b then compat ra sa rb sb else True
  | _ :: _, _ :: _ => disjoint (supp_path pa sa) (supp_path pb sb)
  | _, _ => False
  end.

Theorem pstep_commute {A B} sa sb (Ka : N -> msg -> outcome (msg * A)) (Kb : N -> msg -> outcome (msg * B)) :
  klocal sa Ka -> klocal sb Kb ->
  forall pa pb, compat pa sa pb sb ->
  forall h h1 h12 x y, wf h -> pstep pa sa Ka h = Ok (h1, x) -> pstep pb sb Kb h1 = Ok (h12, y) ->
  exists h2, pstep pb sb Kb h = Ok (h2, y) /\ pstep pa sa Ka h2 = Ok (h12, x).
Proof.
  intros HKa HKb. induction pa as [|a ra IH]; intros pb C; [destruct C|].
  destruct pb as [|b rb]; [destruct ra; destruct C|].
  assert (Dis : disjoint (supp_path (a :: ra) sa) (supp_path (b :: rb) sb) ->
          forall h h1 h12 x y, wf h -> pstep (a :: ra) sa Ka h = Ok (h1, x) -> pstep (b :: rb) sb Kb h1 = Ok (h12, y) ->
          exists h2, pstep (b :: rb) sb Kb h = Ok (h2, y) /\ pstep (a :: ra) sa Ka h2 = Ok (h12, x)).
  { intros D. apply (commute (supp_path (a :: ra) sa) (supp_path (b :: rb) sb));
      [apply pstep_supported; [exact HKa|discriminate] | apply pstep_supported; [exact HKb|discriminate] | exact D]. }
  destruct ra as [|a2 ra']; [exact (Dis C)|].
  destruct rb as [|b2 rb']; [exact (Dis C)|].
  cbn [compat] in C. destruct (a =? b) eqn:E.
  - apply N.eqb_eq in E. subst b. intros h h1 h12 x y W H1 H2.
    rewrite pstep_cons in H1. rewrite pstep_cons in H2.
    destruct (lift_commute a (pstep (a2 :: ra') sa Ka) (pstep (b2 :: rb') sb Kb)
                (fun s s1 s12 x y Ws => IH (b2 :: rb') C s s1 s12 x y Ws) h h1 h12 x y W H1 H2) as (h2 & G1 & G2).
    exists h2. rewrite !pstep_cons. split; assumption.
  - apply Dis. cbn [supp_path]. intros n [<-|[]] [<-|[]]. rewrite N.eqb_refl in E. discriminate.
Qed.

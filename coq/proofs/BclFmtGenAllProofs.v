(* BclFmtGenAllProofs.v — for ALL inputs: the second loop of FmtDiffs and lineSet.rangeLines, run on the
   conditions / literals / assignments of the translated table (BclFmtGenProofs.diffs_tab, range_tab), are the
   model's diffs_loop and range_lines.  Two steps: the table entries are these expressions (computed; a source
   edit breaks it), and evaluating these expressions gives the model's decisions for every document, fragment
   list and state (induction).  BclFmtGenProofs.v checks the same on finite probe grids without fixing the form. *)
From Coq Require Import String List NArith ZArith Bool Lia ZifyN ZifyNat ZifyBool.
From J5V.lib Require Import Text Outcome GoExpr.
From J5V.gen Require BclFmtGen.
From J5V.model Require Import BclLexer BclParser BclFmt.
From J5V.proofs Require Import BclFmtGenProofs.
Import ListNotations.
Local Open Scope string_scope.
Local Open Scope list_scope.
Local Open Scope Z_scope.

Lemma g_join_nl ls : g_join [10%N] ls = join_with 10 ls.
Proof.
  induction ls as [|l r IH]; [reflexivity|]. destruct r as [|l2 r2]; [reflexivity|].
  change (g_join [10%N] (l :: l2 :: r2)) with (l ++ [10%N] ++ g_join [10%N] (l2 :: r2)). rewrite IH. reflexivity.
Qed.

(* lineSet.rangeLines, from the table, for all arguments *)
Lemma range_tab_all lines a b :
  range_tab lines (VZ a) (VZ b) = match range_lines lines a b with Ok t => VS t | _ => VPanic end.
Proof.
  unfold range_tab, range_lines.
  change (ret_of "fmt.go:rangeLines" 0) with
    (GBin "+" (GCall "strings.Join" [GCall "slice" [GVar "ls.lines"; GVar "from"; GVar "to"]; GStr [10%N]]) (GStr [10%N])).
  unfold ev. cbn [g_eval map g_lookup String.eqb Ascii.eqb Bool.eqb g_call existsb orb].
  destruct ((a <? 0) || (b <? a) || (Z.of_nat (length lines) <? b))%bool; cbn; [reflexivity|].
  rewrite g_join_nl. reflexivity.
Qed.

Lemma bytes_eqb_list_N_eqb : forall a b, bytes_eqb a b = list_N_eqb a b.
Proof. induction a as [|x r IH]; intros [|y s]; cbn [bytes_eqb list_N_eqb]; try reflexivity. Qed.

(* the table entries the induction below speaks about *)
Lemma diffs_table_form :
  cond_of "fmt.go:FmtDiffs" 3 = GBin "==" (GVar "idx") (GInt 0) /\
  cond_of "fmt.go:FmtDiffs" 4 = GBin ">" (GVar "diff.FromLine") (GInt 0) /\
  cond_of "fmt.go:FmtDiffs" 5 = GBin "&&" (GBin ">" (GVar "diff.FromLine") (GVar "lastEnd"))
                                     (GBin "!=" (GCall "lines.rangeLines" [GVar "lastEnd"; GVar "diff.FromLine"]) (GStr [10%N])) /\
  cond_of "fmt.go:FmtDiffs" 6 = GBin "!=" (GVar "existing") (GVar "diff.NewText") /\
  assign_of "fmt.go:FmtDiffs" 11 = GCall "lines.rangeLines" [GVar "diff.FromLine"; GVar "diff.ToLine"] /\
  assign_of "fmt.go:FmtDiffs" 13 = GVar "diff.ToLine" /\
  tbl BclFmtGen.fmt_diff_literals "fmt.go:FmtDiffs" 0 [] =
    [("FromLine", GInt 0); ("ToLine", GVar "diff.FromLine"); ("NewText", GStr [])] /\
  tbl BclFmtGen.fmt_diff_literals "fmt.go:FmtDiffs" 1 [] =
    [("FromLine", GVar "lastEnd"); ("ToLine", GVar "diff.FromLine"); ("NewText", GStr [10%N])].
Proof. repeat split. Qed.

Definition out_opt (o : outcome (list edit)) : option (list edit) := match o with Ok es => Some es | _ => None end.

Lemma diffs_tab_all lines : forall ds idx last_end, 0 <= idx ->
  diffs_tab lines ds idx (VZ last_end) = out_opt (diffs_loop lines ds (idx =? 0) last_end).
Proof.
  induction ds as [|d r IH]; intros idx last_end Hidx; [reflexivity|].
  cbn [diffs_tab diffs_loop].
  unfold edit_of_lit, lit_field.
  change (cond_of "fmt.go:FmtDiffs" 3) with (GBin "==" (GVar "idx") (GInt 0)).
  change (cond_of "fmt.go:FmtDiffs" 4) with (GBin ">" (GVar "diff.FromLine") (GInt 0)).
  change (cond_of "fmt.go:FmtDiffs" 5) with (GBin "&&" (GBin ">" (GVar "diff.FromLine") (GVar "lastEnd"))
                                     (GBin "!=" (GCall "lines.rangeLines" [GVar "lastEnd"; GVar "diff.FromLine"]) (GStr [10%N]))).
  change (cond_of "fmt.go:FmtDiffs" 6) with (GBin "!=" (GVar "existing") (GVar "diff.NewText")).
  change (assign_of "fmt.go:FmtDiffs" 11) with (GCall "lines.rangeLines" [GVar "diff.FromLine"; GVar "diff.ToLine"]).
  change (assign_of "fmt.go:FmtDiffs" 13) with (GVar "diff.ToLine").
  change (tbl BclFmtGen.fmt_diff_literals "fmt.go:FmtDiffs" 0 []) with
    [("FromLine", GInt 0); ("ToLine", GVar "diff.FromLine"); ("NewText", GStr [])].
  change (tbl BclFmtGen.fmt_diff_literals "fmt.go:FmtDiffs" 1 []) with
    [("FromLine", GVar "lastEnd"); ("ToLine", GVar "diff.FromLine"); ("NewText", GStr [10%N])].
  cbn [g_eval map g_lookup assoc_s String.eqb Ascii.eqb Bool.eqb g_call existsb orb g_binop fst snd].
  rewrite !range_tab_all.
  rewrite (IH (idx + 1) (fd_to d)) by lia. replace (idx + 1 =? 0) with false by lia.
  destruct (idx =? 0) eqn:E0; cbn [obind].
  - (* first fragment *)
    destruct (0 <? fd_from d) eqn:Ef; cbn [option_map obind];
      (destruct (range_lines lines (fd_from d) (fd_to d)) as [ex| | |] eqn:Er; cbn [obind g_binop]; try reflexivity;
       rewrite bytes_eqb_list_N_eqb;
       destruct (diffs_loop lines r false (fd_to d)) as [rest| | |]; cbn [out_opt obind]; try reflexivity;
       destruct (list_N_eqb ex (utf8_encode (fd_text d))); reflexivity).
  - (* later fragments *)
    destruct (last_end <? fd_from d) eqn:Eg.
    + destruct (range_lines lines last_end (fd_from d)) as [gap| | |] eqn:Egap; cbn [obind g_binop]; try reflexivity.
      rewrite bytes_eqb_list_N_eqb.
      destruct (list_N_eqb gap [10%N]); cbn [negb option_map obind];
        (destruct (range_lines lines (fd_from d) (fd_to d)) as [ex| | |] eqn:Er; cbn [obind g_binop]; try reflexivity;
         rewrite bytes_eqb_list_N_eqb;
         destruct (diffs_loop lines r false (fd_to d)) as [rest| | |]; cbn [out_opt obind]; try reflexivity;
         destruct (list_N_eqb ex (utf8_encode (fd_text d))); reflexivity).
    + cbn [option_map obind].
      destruct (range_lines lines (fd_from d) (fd_to d)) as [ex| | |] eqn:Er; cbn [obind g_binop]; try reflexivity.
      rewrite bytes_eqb_list_N_eqb.
      destruct (diffs_loop lines r false (fd_to d)) as [rest| | |]; cbn [out_opt obind]; try reflexivity.
      destruct (list_N_eqb ex (utf8_encode (fd_text d))); reflexivity.
Qed.

(* ---- the merge loop of FmtDiffs, for all fragment lists ------------------------------------------------------ *)
Lemma merge_table_form :
  cond_of "fmt.go:FmtDiffs" 1 = GBin "&&" (GBin ">=" (GVar "last") (GInt 0)) (GBin "<" (GVar "diff.FromLine") (GVar "merged[last].ToLine")) /\
  cond_of "fmt.go:FmtDiffs" 2 = GBin ">" (GVar "diff.ToLine") (GVar "merged[last].ToLine") /\
  assign_of "fmt.go:FmtDiffs" 2 = GBin "-" (GCall "len" [GVar "merged"]) (GInt 1) /\
  assign_of "fmt.go:FmtDiffs" 4 = GVar "diff.ToLine".
Proof. repeat split. Qed.

Lemma last_snoc {A} (l : list A) x d : last (l ++ [x]) d = x.
Proof. apply last_last. Qed.

Lemma merge_tab_step ds merged :
  merge_tab ds merged =
  match ds with
  | [] => merged
  | d :: r =>
    let lastfd := List.last merged (mkFD 0 0 []) in
    if ((0 <=? Z.of_nat (length merged) - 1) && (fd_from d <? fd_to lastfd))%bool
    then merge_tab r (removelast merged ++ [mkFD (fd_from lastfd) (if fd_to lastfd <? fd_to d then fd_to d else fd_to lastfd) (fd_text lastfd ++ fd_text d)])
    else merge_tab r (merged ++ [d])
  end.
Proof.
  destruct ds as [|d r]; [reflexivity|]. cbn [merge_tab].
  change (assign_of "fmt.go:FmtDiffs" 2) with (GBin "-" (GCall "len" [GVar "merged"]) (GInt 1)).
  change (cond_of "fmt.go:FmtDiffs" 1) with (GBin "&&" (GBin ">=" (GVar "last") (GInt 0)) (GBin "<" (GVar "diff.FromLine") (GVar "merged[last].ToLine"))).
  change (cond_of "fmt.go:FmtDiffs" 2) with (GBin ">" (GVar "diff.ToLine") (GVar "merged[last].ToLine")).
  change (assign_of "fmt.go:FmtDiffs" 4) with (GVar "diff.ToLine").
  unfold ev. cbn [g_eval map g_lookup String.eqb Ascii.eqb Bool.eqb g_call existsb orb g_binop fst snd is_true].
  destruct (0 <=? Z.of_nat (length merged) - 1); destruct (fd_from d <? fd_to (last merged (mkFD 0 0 [])));
    destruct (fd_to (last merged (mkFD 0 0 [])) <? fd_to d); reflexivity.
Qed.

Lemma merge_tab_all : forall ds pre c, merge_tab ds (pre ++ [c]) = pre ++ merge_loop ds (Some c).
Proof.
  induction ds as [|d r IH]; intros pre c; rewrite merge_tab_step; [reflexivity|]. cbv zeta.
  rewrite last_snoc, removelast_last, app_length. cbn [length merge_loop].
  replace (0 <=? Z.of_nat (length pre + 1) - 1) with true by lia. cbn [andb].
  destruct (fd_from d <? fd_to c) eqn:E.
  - rewrite IH. f_equal. f_equal. f_equal. f_equal.
    destruct (fd_to c <? fd_to d) eqn:Em; lia.
  - rewrite (IH (pre ++ [c]) d). rewrite <- app_assoc. reflexivity.
Qed.

Theorem merge_diffs_all ds : merge_tab ds [] = merge_diffs ds.
Proof.
  unfold merge_diffs. destruct ds as [|d r]; [reflexivity|]. rewrite merge_tab_step. cbv zeta. cbn [length andb merge_loop].
  replace (0 <=? Z.of_nat 0 - 1) with false by lia. cbn [andb app]. exact (merge_tab_all r [] d).
Qed.

(* ---- Fmt's blank line, for all fragment lists ------------------------------------------------------------------- *)
Lemma fmt_table_form :
  cond_of "fmt.go:Fmt" 1 = GBin "&&" (GBin ">" (GVar "idx") (GInt 0)) (GBin ">" (GVar "diff.FromLine") (GVar "lastEnd")) /\
  assign_of "fmt.go:Fmt" 1 = GInt (-1) /\ assign_of "fmt.go:Fmt" 4 = GVar "diff.ToLine".
Proof. repeat split. Qed.

(* the loop of Fmt on the table *)
Fixpoint fmt_join_tab (ds : list fdiff) (idx : Z) (last_end : gval) : list N :=
  match ds with
  | [] => []
  | d :: r =>
    (if is_true (ev [("idx", VZ idx); ("diff.FromLine", VZ (fd_from d)); ("lastEnd", last_end)] (cond_of "fmt.go:Fmt" 1))
     then [10%N] else [])
    ++ fd_text d ++ fmt_join_tab r (idx + 1) (ev [("diff.ToLine", VZ (fd_to d))] (assign_of "fmt.go:Fmt" 4))
  end.
Lemma fmt_join_all : forall ds idx last_end, 0 <= idx ->
  fmt_join_tab ds idx (VZ last_end) = fmt_join ds (idx =? 0) last_end.
Proof.
  induction ds as [|d r IH]; intros idx last_end Hidx; [reflexivity|]. cbn [fmt_join_tab fmt_join].
  change (cond_of "fmt.go:Fmt" 1) with (GBin "&&" (GBin ">" (GVar "idx") (GInt 0)) (GBin ">" (GVar "diff.FromLine") (GVar "lastEnd"))).
  change (assign_of "fmt.go:Fmt" 4) with (GVar "diff.ToLine").
  unfold ev. cbn [g_eval map g_lookup String.eqb Ascii.eqb Bool.eqb g_call existsb orb g_binop fst snd].
  rewrite (IH (idx + 1) (fd_to d)) by lia. replace (idx + 1 =? 0) with false by lia.
  destruct (idx =? 0) eqn:E0.
  - replace (0 <? idx) with false by lia. reflexivity.
  - replace (0 <? idx) with true by lia. cbn [negb andb]. destruct (last_end <? fd_from d); reflexivity.
Qed.
Theorem fmt_runes_join_all ds : fmt_join_tab ds 0 (ev [] (assign_of "fmt.go:Fmt" 1)) = fmt_join ds true (-1).
Proof. exact (fmt_join_all ds 0 (-1) ltac:(lia)). Qed.

(* ---- FmtDiffs as a whole ------------------------------------------------------------------------------------------ *)
Theorem fmt_diffs_of_all input ds :
  diffs_tab (split_on 10 input) (merge_tab ds []) 0 (ev [] (assign_of "fmt.go:FmtDiffs" 8)) = out_opt (fmt_diffs_of input ds).
Proof. unfold fmt_diffs_of. rewrite merge_diffs_all. exact (diffs_tab_all (split_on 10 input) (merge_diffs ds) 0 (-1) ltac:(lia)). Qed.

(* ---- tokenSource, for all token types and all literals -------------------------------------------------------------- *)
Lemma esc_pairs_form : esc_pairs = [(92, [92; 92]); (34, [92; 34]); (10, [92; 10])]%N.
Proof. reflexivity. Qed.

Lemma g_replace_escape : forall l, g_replace esc_pairs l = escape_string l.
Proof.
  rewrite esc_pairs_form. unfold g_replace. induction l as [|c r IH]; [reflexivity|].
  cbn [flat_map]. rewrite IH. cbn [escape_string g_replace1].
  destruct (N.eqb 92 c) eqn:E1.
  - apply N.eqb_eq in E1. subst c. reflexivity.
  - rewrite N.eqb_sym in E1. rewrite E1. cbn [orb].
    destruct (N.eqb 34 c) eqn:E2.
    + apply N.eqb_eq in E2. subst c. reflexivity.
    + rewrite N.eqb_sym in E2. rewrite E2. cbn [orb].
      destruct (N.eqb 10 c) eqn:E3.
      * apply N.eqb_eq in E3. subst c. reflexivity.
      * rewrite N.eqb_sym in E3. rewrite E3. reflexivity.
Qed.

Lemma g_replace_slash : forall l, g_replace [(47%N, [47; 47]%N)] l = double_slash l.
Proof.
  unfold g_replace. induction l as [|c r IH]; [reflexivity|]. cbn [flat_map]. rewrite IH. cbn [double_slash g_replace1].
  destruct (N.eqb 47 c) eqn:E.
  - apply N.eqb_eq in E. subst c. reflexivity.
  - rewrite N.eqb_sym in E. rewrite E. reflexivity.
Qed.

Theorem token_source_all : forall t l, VS (token_source (mkTok t l pos0 pos0)) = ev [("tok.Lit", VS l)] (arm_for t).
Proof.
  intros t l. unfold ev.
  destruct t;
    match goal with
    | |- context [arm_for ?T] => let a := eval vm_compute in (arm_for T) in change (arm_for T) with a
    end;
    cbn [g_eval map g_lookup String.eqb Ascii.eqb Bool.eqb g_call existsb orb g_binop fst snd token_source ty lit];
    rewrite ?g_replace_escape, ?g_replace_slash; cbn [g_sprintf N.eqb Pos.eqb andb app]; rewrite ?app_nil_r; reflexivity.
Qed.

(* BclLexerProofs.v — the lexer model is total (fuel never runs out), and every
   token / lexer diagnostic has a range inside the input with start <= end;
   tokens come in strictly increasing position order. *)
From Coq Require Import String List NArith ZArith Bool Lia ZifyN ZifyNat ZifyBool.
From J5V.lib Require Import Text.
From J5V.model Require Import BclLexer.
From J5V.proofs Require Import BclPosProofs.
Import ListNotations.
Local Open Scope Z_scope.
Arguments Nat.sub : simpl never.

(* where the next call of [next] will put the rune it reads *)
Definition nxt_pos (s : lstate) : pos :=
  if is_eol s then (line s + 1, 0) else (line s, col s + 1).

(* the lexer has consumed exactly the prefix [pre] of the input *)
Record linv (inp : list N) (s : lstate) (pre : list N) : Prop := {
  li_split : inp = pre ++ rest s;
  li_next : nxt_pos s = P pre }.

(* ... and sits on the rune [c] that follows [pre] *)
Record lcur (inp : list N) (s : lstate) (pre : list N) (c : N) : Prop := {
  lc_inv : linv inp s (pre ++ [c]);
  lc_ch : ch s = Some c;
  lc_pos : get_pos s = P pre }.

(* ... or has just read EOF (exactly once) *)
Record leof (inp : list N) (s : lstate) : Prop := {
  le_ch : ch s = None;
  le_rest : rest s = [];
  le_pos : get_pos s = P inp }.

(* the lexer's current position is P pre *)
Definition lon (inp : list N) (s : lstate) (pre : list N) : Prop :=
  (exists c, lcur inp s pre c) \/ (leof inp s /\ pre = inp).

Lemma new_lexer_inv inp : linv inp (new_lexer inp) [].
Proof. split; reflexivity. Qed.

Lemma next_cur inp s pre c t : linv inp s pre -> rest s = c :: t -> lcur inp (next s) pre c.
Proof.
  intros [Hs Hn] Hr. unfold next. rewrite Hr.
  assert (Hp : (if is_eol s then (line s + 1)%Z else line s, if is_eol s then 0 else (col s + 1)%Z) = P pre).
  { rewrite <- Hn. unfold nxt_pos. destruct (is_eol s); reflexivity. }
  split; cbn.
  - split; cbn.
    + rewrite Hs, Hr, <- app_assoc. reflexivity.
    + rewrite P_snoc. unfold nxt_pos, adv. cbn. rewrite <- Hp. cbn.
      destruct (N.eqb c 10); reflexivity.
  - reflexivity.
  - unfold get_pos. cbn. exact Hp.
Qed.

Lemma next_eof inp s pre : linv inp s pre -> rest s = [] -> leof inp (next s) /\ pre = inp.
Proof.
  intros [Hs Hn] Hr. unfold next. rewrite Hr. rewrite Hr, app_nil_r in Hs. subst pre.
  split; [|reflexivity]. split; cbn; try reflexivity.
  unfold get_pos. cbn. rewrite <- Hn. unfold nxt_pos. destruct (is_eol s); reflexivity.
Qed.

Lemma next_on inp s pre : linv inp s pre -> lon inp (next s) pre.
Proof.
  intros H. destruct (rest s) as [|c t] eqn:Hr.
  - right. eapply next_eof; eauto.
  - left. exists c. eapply next_cur; eauto.
Qed.

Lemma lon_pos inp s pre : lon inp s pre -> get_pos s = P pre.
Proof. intros [[c H]|[H ->]]; [apply H|apply H]. Qed.
Lemma lon_pfx inp s pre : lon inp s pre -> pfx pre inp.
Proof.
  intros [[c [[Hs _] _ _]]|[_ ->]]; [|apply pfx_refl].
  exists (c :: rest s). rewrite Hs, <- app_assoc. reflexivity.
Qed.
Lemma lon_valid inp s pre : lon inp s pre -> valid_pos inp (get_pos s).
Proof. intros H. rewrite (lon_pos _ _ _ H). apply valid_P. eapply lon_pfx; eauto. Qed.

Lemma lcur_on inp s pre c : lcur inp s pre c -> lon inp s pre.
Proof. intros H. left. eauto. Qed.

Lemma next_rest_len s : (length (rest (next s)) <= length (rest s))%nat.
Proof. unfold next. destruct (rest s); cbn; lia. Qed.
Lemma next_rest_cons s c t : rest s = c :: t -> rest (next s) = t /\ ch (next s) = Some c.
Proof. intros H. unfold next. rewrite H. cbn. auto. Qed.
Lemma next_rest_nil s : rest s = [] -> rest (next s) = [] /\ ch (next s) = None.
Proof. intros H. unfold next. rewrite H. cbn. auto. Qed.

(* a state reached from prefix pre0: on some extension of it *)
Definition lpost (inp : list N) (pre0 : list N) (s : lstate) : Prop :=
  exists pre', pfx pre0 pre' /\ lon inp s pre'.
(* strictly beyond pre0 ++ [c0] ... i.e. on a later rune, or at EOF *)

Lemma lpost_valid inp pre0 s : lpost inp pre0 s -> valid_pos inp (get_pos s).
Proof. intros (p & _ & H). eapply lon_valid; eauto. Qed.
Lemma lpost_le inp pre0 s : lpost inp pre0 s -> pos_le (P pre0) (get_pos s).
Proof. intros (p & Hp & H). rewrite (lon_pos _ _ _ H). apply P_mono, Hp. Qed.

(* ---- the loops -------------------------------------------------------------- *)
Section Loops.
Variable inp : list N.

(* from a state on a rune, advancing once *)
Lemma step_on s pre c : lcur inp s pre c -> lon inp (next s) (pre ++ [c]).
Proof. intros H. apply next_on, H. Qed.

Lemma pfx_snoc' (pre : list N) c : pfx pre (pre ++ [c]).
Proof. apply pfx_app. Qed.

Lemma take_line_spec : forall fuel s acc pre c,
  lcur inp s pre c -> (length (rest s) < fuel)%nat ->
  exists l s' pre' c', take_line fuel s acc = ROk l s' /\ pfx pre pre' /\ lcur inp s' pre' c'.
Proof.
  induction fuel as [|f IH]; intros s acc pre c Hc Hf; [lia|].
  cbn [take_line]. unfold peek. destruct (rest s) as [|v t] eqn:Hr; cbn [hd_error].
  - exists acc, s, pre, c. auto using pfx_refl.
  - destruct (N.eqb v 10).
    + exists acc, s, pre, c. auto using pfx_refl.
    + pose proof (next_cur inp s (pre ++ [c]) v t (lc_inv _ _ _ _ Hc) Hr) as Hn.
      destruct (IH (next s) (acc ++ ch_list (next s)) (pre ++ [c]) v Hn) as (l & s' & pre' & c' & E & Hp & Hc').
      { destruct (next_rest_cons s v t Hr) as [-> _]. cbn in Hf. lia. }
      exists l, s', pre', c'. split; [exact E|]. split; [|exact Hc'].
      eapply pfx_trans; [apply pfx_snoc'|exact Hp].
Qed.

Lemma skip_whitespace_spec : forall fuel s pre c,
  lcur inp s pre c -> (length (rest s) < fuel)%nat ->
  exists s' pre' c', skip_whitespace fuel s = Some s' /\ pfx pre pre' /\ lcur inp s' pre' c'.
Proof.
  induction fuel as [|f IH]; intros s pre c Hc Hf; [lia|].
  cbn [skip_whitespace]. unfold peek. destruct (rest s) as [|v t] eqn:Hr; cbn [hd_error].
  - exists s, pre, c. auto using pfx_refl.
  - destruct (is_space v && negb (N.eqb v 10))%bool.
    + pose proof (next_cur inp s (pre ++ [c]) v t (lc_inv _ _ _ _ Hc) Hr) as Hn.
      destruct (IH (next s) (pre ++ [c]) v Hn) as (s' & pre' & c' & E & Hp & Hc').
      { destruct (next_rest_cons s v t Hr) as [-> _]. cbn in Hf. lia. }
      exists s', pre', c'. split; [exact E|]. split; [|exact Hc'].
      eapply pfx_trans; [apply pfx_snoc'|exact Hp].
    + exists s, pre, c. auto using pfx_refl.
Qed.

(* result of a sub-lexer started on the rune after [pre]:
   success leaves the lexer on a later position; an error is raised at the
   position the lexer is left on *)
Definition lres_ok {A} (pre : list N) (r : lres A) : Prop :=
  match r with
  | ROk _ s' => lpost inp pre s'
  | RErr d s' => lpost inp pre s' /\ exists m, d = errf m s'
  | RFuel => False
  end.

Lemma lpost_of_cur pre pre' s c : pfx pre pre' -> lcur inp s pre' c -> lpost inp pre s.
Proof. intros Hp Hc. exists pre'. split; [exact Hp|]. left. eauto. Qed.

Lemma lpost_weaken pre0 pre1 s : pfx pre0 pre1 -> lpost inp pre1 s -> lpost inp pre0 s.
Proof. intros H (p & Hp & Ho). exists p. split; [eapply pfx_trans; eauto|exact Ho]. Qed.

Lemma lres_weaken {A} pre0 pre1 (r : lres A) : pfx pre0 pre1 -> lres_ok pre1 r -> lres_ok pre0 r.
Proof.
  intros H. destruct r; cbn; auto.
  - apply lpost_weaken, H.
  - intros [H1 H2]. split; [eapply lpost_weaken; eauto|exact H2].
Qed.

(* what one call of [next] from a state on a rune gives: on the next rune, or at EOF *)
Lemma next_cases s pre c : lcur inp s pre c ->
  (exists v, ch (next s) = Some v /\ lcur inp (next s) (pre ++ [c]) v /\ (length (rest (next s)) < length (rest s))%nat)
  \/ (ch (next s) = None /\ leof inp (next s) /\ pre ++ [c] = inp).
Proof.
  intros Hc. destruct (rest s) as [|v t] eqn:Hr.
  - right. destruct (next_eof inp s (pre ++ [c]) (lc_inv _ _ _ _ Hc) Hr) as [He Hp].
    split; [apply He|]. auto.
  - left. exists v. pose proof (next_cur inp s (pre ++ [c]) v t (lc_inv _ _ _ _ Hc) Hr) as Hn.
    split; [apply Hn|]. split; [exact Hn|].
    destruct (next_rest_cons s v t Hr) as [-> _]. cbn. lia.
Qed.

Lemma lpost_eof pre s : leof inp s -> pfx pre inp -> lpost inp pre s.
Proof. intros He Hp. exists inp. split; [exact Hp|]. right. auto. Qed.

Lemma block_comment_loop_spec : forall fuel s acc pre c,
  lcur inp s pre c -> (length (rest s) < fuel)%nat ->
  lres_ok pre (block_comment_loop fuel s acc).
Proof.
  induction fuel as [|f IH]; intros s acc pre c Hc Hf; [lia|].
  cbn [block_comment_loop].
  destruct (next_cases s pre c Hc) as [(v & Hv & Hn & Hl)|(Hv & He & Hp)].
  - rewrite Hv. cbn [opt_eq].
    destruct (N.eqb v 42 && opt_eq (peek (next s)) 47)%bool eqn:E.
    + cbn. destruct (next_cases (next s) (pre ++ [c]) v Hn) as [(w & Hw & Hn2 & _)|(_ & He & Hp)].
      * eapply lpost_of_cur; [|exact Hn2]. eapply pfx_trans; apply pfx_snoc'.
      * apply lpost_eof; [exact He|]. rewrite <- Hp. eapply pfx_trans; apply pfx_snoc'.
    + eapply lres_weaken; [apply (pfx_snoc' pre c)|]. eapply IH; [exact Hn|lia].
  - rewrite Hv. cbn [opt_eq andb]. cbn.
    apply lpost_eof; [exact He|]. rewrite <- Hp. apply pfx_snoc'.
Qed.

Lemma errf_lpost pre m s : lpost inp pre s -> lres_ok (A:=list N) pre (RErr (errf m s) s).
Proof. intros H. split; [exact H|]. exists m. reflexivity. Qed.

Lemma regex_loop_spec : forall fuel s acc pre c,
  lcur inp s pre c -> (length (rest s) < fuel)%nat ->
  lres_ok pre (regex_loop fuel s acc).
Proof.
  induction fuel as [|f IH]; intros s acc pre c Hc Hf; [lia|].
  cbn [regex_loop].
  destruct (next_cases s pre c Hc) as [(v & Hv & Hn & Hl)|(Hv & He & Hp)].
  - rewrite Hv.
    assert (Hpost : lpost inp pre (next s)).
    { eapply lpost_of_cur; [|exact Hn]. apply pfx_snoc'. }
    destruct (N.eqb v 10); [apply errf_lpost, Hpost|].
    destruct (N.eqb v 47).
    + destruct (opt_eq (peek (next s)) 47) eqn:Ep.
      * unfold peek, opt_eq in Ep. destruct (rest (next s)) as [|w t] eqn:Hr; [discriminate|].
        pose proof (next_cur inp (next s) _ w t (lc_inv _ _ _ _ Hn) Hr) as Hn2.
        eapply lres_weaken; [|eapply IH; [exact Hn2|]].
        -- eapply pfx_trans; apply pfx_snoc'.
        -- destruct (next_rest_cons (next s) w t Hr) as [-> _]. cbn in Hl. lia.
      * exact Hpost.
    + eapply lres_weaken; [apply (pfx_snoc' pre c)|]. eapply IH; [exact Hn|lia].
  - rewrite Hv. apply errf_lpost. apply lpost_eof; [exact He|]. rewrite <- Hp. apply pfx_snoc'.
Qed.

Lemma string_loop_spec : forall fuel q s acc pre c,
  lcur inp s pre c -> (length (rest s) < fuel)%nat ->
  lres_ok pre (string_loop fuel q s acc).
Proof.
  induction fuel as [|f IH]; intros q s acc pre c Hc Hf; [lia|].
  cbn [string_loop].
  destruct (next_cases s pre c Hc) as [(v & Hv & Hn & Hl)|(Hv & He & Hp)].
  - rewrite Hv.
    assert (Hpost : lpost inp pre (next s)).
    { eapply lpost_of_cur; [|exact Hn]. apply pfx_snoc'. }
    destruct (N.eqb v q); [exact Hpost|].
    destruct (N.eqb v 10); [apply errf_lpost, Hpost|].
    destruct (N.eqb v 92).
    + unfold lex_escape, peek. destruct (rest (next s)) as [|w t] eqn:Hr; cbn [hd_error].
      * apply errf_lpost, Hpost.
      * destruct (N.eqb w 92 || N.eqb w 10 || N.eqb w q)%bool; [|apply errf_lpost, Hpost].
        pose proof (next_cur inp (next s) _ w t (lc_inv _ _ _ _ Hn) Hr) as Hn2.
        eapply lres_weaken; [|eapply IH; [exact Hn2|]].
        -- eapply pfx_trans; apply pfx_snoc'.
        -- destruct (next_rest_cons (next s) w t Hr) as [-> _]. cbn in Hl. lia.
    + eapply lres_weaken; [apply (pfx_snoc' pre c)|]. eapply IH; [exact Hn|lia].
  - rewrite Hv. apply errf_lpost. apply lpost_eof; [exact He|]. rewrite <- Hp. apply pfx_snoc'.
Qed.

Lemma ident_loop_spec : forall fuel s acc pre c,
  lcur inp s pre c -> (length (rest s) < fuel)%nat ->
  exists l s' pre' c', ident_loop fuel s acc = ROk l s' /\ pfx pre pre' /\ lcur inp s' pre' c'.
Proof.
  induction fuel as [|f IH]; intros s acc pre c Hc Hf; [lia|].
  cbn [ident_loop]. unfold peek. destruct (rest s) as [|v t] eqn:Hr; cbn [hd_error].
  - exists acc, s, pre, c. auto using pfx_refl.
  - destruct (is_letter v || is_digit v || N.eqb v 95)%bool.
    + pose proof (next_cur inp s (pre ++ [c]) v t (lc_inv _ _ _ _ Hc) Hr) as Hn.
      destruct (IH (next s) (acc ++ ch_list (next s)) (pre ++ [c]) v Hn) as (l & s' & pre' & c' & E & Hp & Hc').
      { destruct (next_rest_cons s v t Hr) as [-> _]. cbn in Hf. lia. }
      exists l, s', pre', c'. split; [exact E|]. split; [|exact Hc'].
      eapply pfx_trans; [apply pfx_snoc'|exact Hp].
    + exists acc, s, pre, c. auto using pfx_refl.
Qed.

Lemma number_loop_spec : forall fuel s sd acc pre c,
  lcur inp s pre c -> (length (rest s) < fuel)%nat ->
  match number_loop fuel s sd acc with
  | ROk a s' => fst a <> EOF /\ exists pre' c', pfx pre pre' /\ lcur inp s' pre' c'
  | RErr d s' => (exists m, d = errf m s') /\ exists pre' c', pfx pre pre' /\ lcur inp s' pre' c'
  | RFuel => False
  end.
Proof.
  induction fuel as [|f IH]; intros s sd acc pre c Hc Hf; [lia|].
  cbn [number_loop]. unfold peek. destruct (rest s) as [|v t] eqn:Hr; cbn [hd_error].
  - split; [destruct sd; discriminate|]. exists pre, c. auto using pfx_refl.
  - pose proof (next_cur inp s (pre ++ [c]) v t (lc_inv _ _ _ _ Hc) Hr) as Hn.
    assert (Hlen : (length (rest (next s)) < f)%nat).
    { destruct (next_rest_cons s v t Hr) as [-> _]. cbn in Hf. lia. }
    destruct (is_digit v).
    + specialize (IH (next s) sd (acc ++ ch_list (next s)) (pre ++ [c]) v Hn Hlen).
      destruct (number_loop f (next s) sd (acc ++ ch_list (next s))) as [a s'|d s'|]; [| |exact IH].
      * destruct IH as (Hty & p' & c' & Hp & Hc'). split; [exact Hty|]. exists p', c'. split; [|exact Hc'].
        eapply pfx_trans; [apply pfx_snoc'|exact Hp].
      * destruct IH as (Hd & p' & c' & Hp & Hc'). split; [exact Hd|]. exists p', c'. split; [|exact Hc'].
        eapply pfx_trans; [apply pfx_snoc'|exact Hp].
    + destruct (N.eqb v 46).
      * destruct sd.
        -- split; [eexists; reflexivity|]. exists pre, c. auto using pfx_refl.
        -- specialize (IH (next s) true (acc ++ [46%N]) (pre ++ [c]) v Hn Hlen).
           destruct (number_loop f (next s) true (acc ++ [46%N])) as [a s'|d s'|]; [| |exact IH].
           ++ destruct IH as (Hty & p' & c' & Hp & Hc'). split; [exact Hty|]. exists p', c'. split; [|exact Hc'].
              eapply pfx_trans; [apply pfx_snoc'|exact Hp].
           ++ destruct IH as (Hd & p' & c' & Hp & Hc'). split; [exact Hd|]. exists p', c'. split; [|exact Hc'].
              eapply pfx_trans; [apply pfx_snoc'|exact Hp].
      * split; [destruct sd; discriminate|]. exists pre, c. auto using pfx_refl.
Qed.

(* ---- NextToken -------------------------------------------------------------- *)
(* the range of a token: starts on a rune, ends at or after its start *)
Definition tok_range (pre : list N) (t : token) (s' : lstate) : Prop :=
  exists ps pe c0, pfx pre ps /\ pfx (ps ++ [c0]) inp /\ pfx ps pe /\
                   tstart t = P ps /\ tend t = P pe /\ lon inp s' pe.

Definition next_token_ok (pre : list N) (r : lexres * lstate) : Prop :=
  match r with
  | (LEof, s') => leof inp s'
  | (LTok t, s') => tok_range pre t s' /\ ty t <> EOF
  | (LErr d, s') => exists pd m, pfx pre pd /\ lon inp s' pd /\ d = mkDiag (P pd) (P pd) m
  | (LFuel, _) => False
  end.

Lemma lcur_full s pre c : lcur inp s pre c -> pfx (pre ++ [c]) inp.
Proof. intros [[Hs _] _ _]. exists (rest s). exact Hs. Qed.

Lemma lift_lit_ok pre ps c0 typ (r : lres (list N)) dflt :
  pfx pre ps -> pfx (ps ++ [c0]) inp -> typ <> EOF ->
  lres_ok ps r -> next_token_ok pre (lift_lit typ (P ps) r dflt).
Proof.
  intros Hp Hfull Hty Hr. destruct r as [l s'|d s'|]; cbn in *.
  - split; [|exact Hty]. destruct Hr as (pe & Hpe & Hon).
    exists ps, pe, c0. cbn. repeat split; auto. apply (lon_pos _ _ _ Hon).
  - destruct Hr as [(pe & Hpe & Hon) [m ->]]. exists pe, m. split; [eapply pfx_trans; eauto|].
    split; [exact Hon|]. unfold errf. rewrite (lon_pos _ _ _ Hon). reflexivity.
  - exact Hr.
Qed.

Lemma op_of_not_eof c op : op_of c = Some op -> op <> EOF.
Proof.
  unfold op_of, model_operators. cbn [assoc_N].
  repeat (match goal with |- context [N.eqb ?k c] => destruct (N.eqb k c) end;
          [intros [= <-]; discriminate|]).
  discriminate.
Qed.

Lemma next_token_fuel_spec : forall fuel s pre,
  linv inp s pre -> (length (rest s) < fuel)%nat ->
  next_token_ok pre (next_token_fuel fuel s).
Proof.
  induction fuel as [|f IH]; intros s pre Hi Hf; [lia|].
  cbn [next_token_fuel].
  destruct (rest s) as [|c t] eqn:Hr.
  - destruct (next_eof inp s pre Hi Hr) as [He _]. rewrite (le_ch _ _ He). exact He.
  - pose proof (next_cur inp s pre c t Hi Hr) as Hc.
    rewrite (lc_ch _ _ _ _ Hc).
    pose proof (lcur_full _ _ _ Hc) as Hfull.
    pose proof (lc_pos _ _ _ _ Hc) as Hpos.
    assert (Hlen : (length (rest (next s)) < f)%nat).
    { destruct (next_rest_cons s c t Hr) as [-> _]. cbn in Hf. lia. }
    assert (Hself : forall typ l, typ <> EOF ->
              next_token_ok pre (LTok (mkTok typ l (get_pos (next s)) (get_pos (next s))), next s)).
    { intros typ l Hty. split; [|exact Hty]. exists pre, pre, c. cbn.
      repeat split; auto using pfx_refl. eapply lcur_on; eauto. }
    destruct (op_of c) as [op|] eqn:Eop.
    { apply Hself. eapply op_of_not_eof; eauto. }
    rewrite Hpos.
    destruct (N.eqb c 47).
    { destruct (opt_eq (peek (next s)) 47) eqn:E1.
      - apply lift_lit_ok with (c0 := c); auto using pfx_refl; [discriminate|].
        unfold lex_line_comment. unfold peek, opt_eq in E1.
        destruct (rest (next s)) as [|w t2] eqn:Hr2; [discriminate|].
        pose proof (next_cur inp (next s) _ w t2 (lc_inv _ _ _ _ Hc) Hr2) as Hn2.
        destruct (take_line_spec (S (length (rest (next (next s))))) (next (next s)) [] _ _ Hn2)
          as (l & s' & pre' & c' & E & Hp & Hc'); [lia|].
        rewrite E. cbn. eapply lpost_of_cur; [|exact Hc'].
        eapply pfx_trans; [apply pfx_snoc'|exact Hp].
      - destruct (opt_eq (peek (next s)) 42) eqn:E2.
        + apply lift_lit_ok with (c0 := c); auto using pfx_refl; [discriminate|].
          unfold lex_block_comment. unfold peek, opt_eq in E2.
          destruct (rest (next s)) as [|w t2] eqn:Hr2; [discriminate|].
          pose proof (next_cur inp (next s) _ w t2 (lc_inv _ _ _ _ Hc) Hr2) as Hn2.
          eapply lres_weaken; [apply (pfx_snoc' pre c)|].
          eapply block_comment_loop_spec; [exact Hn2|lia].
        + apply lift_lit_ok with (c0 := c); auto using pfx_refl; [discriminate|].
          unfold lex_regex. eapply regex_loop_spec; [exact Hc|lia]. }
    destruct (N.eqb c 34).
    { apply lift_lit_ok with (c0 := c); auto using pfx_refl; [discriminate|].
      unfold lex_string. rewrite (lc_ch _ _ _ _ Hc). eapply string_loop_spec; [exact Hc|lia]. }
    destruct (N.eqb c 124).
    { apply lift_lit_ok with (c0 := c); auto using pfx_refl; [discriminate|].
      unfold lex_description_line.
      destruct (skip_whitespace_spec (S (length (rest (next s)))) (next s) pre c Hc) as (s1 & p1 & c1 & E & Hp1 & Hc1); [lia|].
      rewrite E.
      destruct (take_line_spec (S (length (rest s1))) s1 [] p1 c1 Hc1) as (l & s' & pre' & c' & E2 & Hp & Hc'); [lia|].
      rewrite E2. cbn. eapply lpost_of_cur; [|exact Hc']. eapply pfx_trans; eauto. }
    destruct (N.eqb c 10).
    { rewrite <- Hpos. apply Hself. discriminate. }
    destruct (is_space c).
    { assert (Hw : next_token_ok (pre ++ [c]) (next_token_fuel f (next s))).
      { apply IH; [apply Hc|exact Hlen]. }
      destruct (next_token_fuel f (next s)) as [[t0|d| |] s']; cbn in *; auto.
      - destruct Hw as [(ps & pe & c0 & H1 & H2 & H3 & H4 & H5 & H6) Hty]. split; [|exact Hty].
        exists ps, pe, c0. repeat split; auto. eapply pfx_trans; [apply pfx_snoc'|exact H1].
      - destruct Hw as (pd & m & H1 & H2 & H3). exists pd, m. repeat split; auto.
        eapply pfx_trans; [apply pfx_snoc'|exact H1]. }
    destruct (is_digit c).
    { unfold lex_number.
      pose proof (number_loop_spec (S (length (rest (next s)))) (next s) false (ch_list (next s)) pre c Hc) as Hn.
      destruct (number_loop (S (length (rest (next s)))) (next s) false (ch_list (next s))) as [[typ l] s'|d s'|].
      - destruct Hn as (Hty & p' & c' & Hp & Hc'); [lia|]. cbn. split; [|exact Hty].
        exists pre, p', c. cbn. repeat split; auto using pfx_refl.
        + apply (lc_pos _ _ _ _ Hc').
        + eapply lcur_on; eauto.
      - destruct Hn as ([m Hd] & p' & c' & Hp & Hc'); [lia|]. cbn. exists p', m. repeat split; auto.
        + eapply lcur_on; eauto.
        + rewrite Hd. unfold errf. rewrite (lc_pos _ _ _ _ Hc'). reflexivity.
      - apply Hn. lia. }
    destruct (is_letter c).
    { unfold lex_ident.
      destruct (ident_loop_spec (S (length (rest (next s)))) (next s) (ch_list (next s)) pre c Hc)
        as (l & s' & p' & c' & E & Hp & Hc'); [lia|].
      rewrite E.
      assert (Hr' : forall typ, typ <> EOF -> next_token_ok pre (LTok (mkTok typ l (P pre) (get_pos s')), s')).
      { intros typ Hty. split; [|exact Hty]. exists pre, p', c. cbn. repeat split; auto using pfx_refl.
        - apply (lc_pos _ _ _ _ Hc').
        - eapply lcur_on; eauto. }
      destruct (list_N_eqb l lit_true || list_N_eqb l lit_false)%bool; apply Hr'; discriminate. }
    cbn. exists pre, (msg_char c). repeat split; auto using pfx_refl.
    + eapply lcur_on; eauto.
    + unfold errf. rewrite Hpos. reflexivity.
Qed.
End Loops.

(* ---- AllTokens ---------------------------------------------------------------- *)
Definition tok_wf (inp : list N) (t : token) : Prop :=
  valid_pos inp (tstart t) /\ valid_pos inp (tend t) /\ pos_le (tstart t) (tend t).
Definition diag_wf (inp : list N) (d : diag) : Prop :=
  valid_pos inp (dstart d) /\ valid_pos inp (dend d) /\ pos_le (dstart d) (dend d).

(* tokens in strictly increasing position order, each well-formed, none of type EOF *)
Fixpoint schain (inp : list N) (lo : pos) (ts : list token) : Prop :=
  match ts with
  | [] => True
  | t :: r => pos_le lo (tstart t) /\ tok_wf inp t /\ ty t <> EOF /\
              exists lo', pos_lt (tend t) lo' /\ schain inp lo' r
  end.

Lemma linv_len inp s pre : linv inp s pre -> length inp = (length pre + length (rest s))%nat.
Proof. intros [H _]. rewrite H at 1. apply app_length. Qed.
Lemma pfx_len (a b : list N) : pfx a b -> (length a <= length b)%nat.
Proof. intros [x ->]. rewrite app_length. lia. Qed.

Lemma leof_loop inp ff s f : leof inp s -> all_tokens_loop (S f) ff s = ([], [], false).
Proof.
  intros He. cbn [all_tokens_loop]. unfold next_token. rewrite (le_rest _ _ He). cbn.
  unfold next. rewrite (le_rest _ _ He). cbn. reflexivity.
Qed.

Lemma diag_P_wf inp pd m : pfx pd inp -> diag_wf inp (mkDiag (P pd) (P pd) m).
Proof. intros H. repeat split; cbn; try apply valid_P; auto. apply pos_le_refl. Qed.

Lemma all_tokens_loop_spec inp ff : forall fuel s pre,
  linv inp s pre -> (length (rest s) + 1 < fuel)%nat ->
  let '(ts, ds, b) := all_tokens_loop fuel ff s in
  b = false /\ schain inp (P pre) ts /\ Forall (diag_wf inp) ds.
Proof.
  induction fuel as [|f IH]; intros s pre Hi Hf; [lia|].
  cbn [all_tokens_loop].
  pose proof (next_token_fuel_spec inp (S (length (rest s))) s pre Hi) as Hn.
  unfold next_token.
  destruct (next_token_fuel (S (length (rest s))) s) as [[t|d| |] s'] eqn:E; cbn in Hn.
  - (* token *)
    destruct Hn as [(ps & pe & c0 & H1 & H2 & H3 & H4 & H5 & H6) Hty]; [lia|].
    assert (Htw : tok_wf inp t).
    { unfold tok_wf. rewrite H4, H5. repeat split.
      - apply valid_P. eapply pfx_trans; [apply pfx_app|exact H2].
      - apply valid_P. eapply lon_pfx; eauto.
      - apply P_mono, H3. }
    destruct H6 as [[c Hc]|[He Hpe]].
    + specialize (IH s' (pe ++ [c]) (lc_inv _ _ _ _ Hc)).
      destruct (all_tokens_loop f ff s') as [[ts ds] b].
      destruct IH as (Hb & Hch & Hds).
      { pose proof (linv_len _ _ _ Hi). pose proof (linv_len _ _ _ (lc_inv _ _ _ _ Hc)) as Hl2.
        rewrite app_length in Hl2. cbn in Hl2.
        pose proof (pfx_len _ _ H1). pose proof (pfx_len _ _ H3). lia. }
      split; [exact Hb|]. split; [|exact Hds]. cbn. split; [rewrite H4; apply P_mono, H1|].
      split; [exact Htw|]. split; [exact Hty|].
      exists (P (pe ++ [c])). split; [rewrite H5; apply (P_strict pe c [])|exact Hch].
    + destruct f as [|f']; [lia|]. rewrite (leof_loop inp ff s' f' He).
      split; [reflexivity|]. split; [|constructor]. cbn. split; [rewrite H4; apply P_mono, H1|].
      split; [exact Htw|]. split; [exact Hty|].
      exists (fst (tend t) + 1, 0). split; [unfold pos_lt; cbn; lia|exact I].
  - (* error *)
    destruct Hn as (pd & m & H1 & H2 & H3); [lia|].
    assert (Hdw : diag_wf inp d). { rewrite H3. apply diag_P_wf. eapply lon_pfx; eauto. }
    destruct ff.
    + split; [reflexivity|]. split; [exact I|]. constructor; [exact Hdw|constructor].
    + destruct H2 as [[c Hc]|[He Hpe]].
      * specialize (IH s' (pd ++ [c]) (lc_inv _ _ _ _ Hc)).
        destruct (all_tokens_loop f false s') as [[ts ds] b].
        destruct IH as (Hb & Hch & Hds).
        { pose proof (linv_len _ _ _ Hi). pose proof (linv_len _ _ _ (lc_inv _ _ _ _ Hc)) as Hl2.
          rewrite app_length in Hl2. cbn in Hl2.
          pose proof (pfx_len _ _ H1). lia. }
        split; [exact Hb|]. split; [|constructor; assumption].
        destruct ts as [|t0 r]; [exact I|]. cbn in Hch |- *.
        destruct Hch as (Ha & Hb' & Hc' & Hd'). split; [|auto].
        eapply pos_le_trans; [|exact Ha]. apply P_mono.
        eapply pfx_trans; [exact H1|apply pfx_app].
      * destruct f as [|f']; [lia|]. rewrite (leof_loop inp false s' f' He).
        split; [reflexivity|]. split; [exact I|]. constructor; [exact Hdw|constructor].
  - split; [reflexivity|]. split; [exact I|constructor].
  - exfalso. apply Hn. lia.
Qed.

Theorem all_tokens_ok ff data :
  match all_tokens ff data with
  | LexOk ts => schain data pos0 ts
  | LexErrs ds => ds <> [] /\ Forall (diag_wf data) ds
  | LexFuel => False
  end.
Proof.
  unfold all_tokens.
  pose proof (all_tokens_loop_spec data ff (S (S (length data))) (new_lexer data) [] (new_lexer_inv data)) as H.
  destruct (all_tokens_loop (S (S (length data))) ff (new_lexer data)) as [[ts ds] b].
  destruct H as (Hb & Hch & Hds); [cbn; lia|]. subst b.
  destruct ds as [|d r]; [exact Hch|]. split; [discriminate|exact Hds].
Qed.

(* fail-fast and collect-all runs of the lexer: same first error; same tokens when there is none *)
Lemma all_tokens_loop_modes : forall fuel s,
  let '(ts1, ds1, b1) := all_tokens_loop fuel true s in
  let '(ts2, ds2, b2) := all_tokens_loop fuel false s in
  b2 = false -> hd_error ds1 = hd_error ds2 /\ b1 = false /\ (ds2 = [] -> ts1 = ts2).
Proof.
  induction fuel as [|f IH]; intros s; cbn [all_tokens_loop]; [intros H; discriminate|].
  destruct (next_token s) as [[t|d| |] s'].
  - specialize (IH s').
    destruct (all_tokens_loop f true s') as [[ts1 ds1] b1].
    destruct (all_tokens_loop f false s') as [[ts2 ds2] b2].
    intros Hb. destruct (IH Hb) as (H1 & H2 & H3). repeat split; auto.
    intros Hd. f_equal. auto.
  - destruct (all_tokens_loop f false s') as [[ts2 ds2] b2].
    intros Hb. repeat split; auto. discriminate.
  - intros _. auto.
  - intros H. discriminate.
Qed.

Lemma all_tokens_modes data :
  match all_tokens true data, all_tokens false data with
  | LexOk t1, LexOk t2 => t1 = t2
  | LexErrs d1, LexErrs d2 => hd_error d1 = hd_error d2
  | _, _ => False
  end.
Proof.
  pose proof (all_tokens_ok true data) as H1. pose proof (all_tokens_ok false data) as H2.
  unfold all_tokens in *.
  pose proof (all_tokens_loop_modes (S (S (length data))) (new_lexer data)) as H.
  destruct (all_tokens_loop (S (S (length data))) true (new_lexer data)) as [[ts1 ds1] b1].
  destruct (all_tokens_loop (S (S (length data))) false (new_lexer data)) as [[ts2 ds2] b2].
  destruct b2; [destruct H2|]. destruct (H eq_refl) as (Hh & Hb & Ht). subst b1.
  destruct ds1 as [|d1 r1], ds2 as [|d2 r2]; cbn in Hh; try discriminate; auto.
Qed.

(* the weaker chain used by the walker proofs *)
Fixpoint chain_from (inp : list N) (lo : pos) (ts : list token) : Prop :=
  match ts with
  | [] => True
  | t :: r => pos_le lo (tstart t) /\ tok_wf inp t /\ ty t <> EOF /\ chain_from inp (tend t) r
  end.

Lemma chain_from_weaken inp ts : forall lo lo', pos_le lo' lo -> chain_from inp lo ts -> chain_from inp lo' ts.
Proof.
  destruct ts as [|t r]; intros lo lo' Hl H; [exact I|]. cbn in *.
  destruct H as (H1 & H2). split; [eapply pos_le_trans; eauto|exact H2].
Qed.

Lemma schain_chain inp ts : forall lo, schain inp lo ts -> chain_from inp lo ts.
Proof.
  induction ts as [|t r IH]; intros lo H; [exact I|]. cbn in *.
  destruct H as (H1 & H2 & H3 & lo' & H4 & H5). split; [exact H1|]. split; [exact H2|]. split; [exact H3|].
  eapply chain_from_weaken; [apply pos_lt_le, H4|]. apply IH, H5.
Qed.

(* J5sPkgExtProofs.v — C13 for whole packages at the conversion level: in a bundle where one
   source file was extended by append edits, every package converts to descriptors into which
   the old descriptors embed (the other files of the package convert to what they did before;
   the file list keeps its order because file names do not change). *)
From Coq Require Import String List NArith Bool Lia.
From J5V.lib Require Import Outcome Corr.
From J5V.model Require Import J5sAst Desc J5sWalk J5sLink J5sConvert J5sContract J5sValid J5sEdit.
From J5V.proofs Require Import J5sProofs J5sContractProofs J5sLinkProofs J5sEditProofs J5sResolveProofs J5sExtProofs.
Import ListNotations.
Local Open Scope N_scope.

(* the bundle with the source file at [j5s_path f'] replaced by f' *)
Definition replace_file (f' : jfile) (x : bfile) : bfile :=
  if str_eqb (bfile_path x) (j5s_path f') then BJ f' else x.

Lemma src_ext_path f f' : file_src_ext f f' -> j5s_path f' = j5s_path f /\ j5s_pkg f' = j5s_pkg f.
Proof. intros (Hd & Hb & _). unfold j5s_path, j5s_pkg. rewrite Hd, Hb. auto. Qed.

Section PkgExt.
Variables snake camel screaming : str -> str.
Variables (bd : bundle) (f f' : jfile).
Hypothesis Hext : file_src_ext f f'.
(* file names are distinct: f is the only file of the bundle with its path *)
Hypothesis Honly : forall x, In x bd -> bfile_path x = j5s_path f -> x = BJ f.

Notation g := (replace_file f').

Lemma g_cases x : In x bd -> (x = BJ f /\ g x = BJ f') \/ (bfile_path x <> j5s_path f /\ g x = x).
Proof.
  intros Hin. unfold replace_file. destruct (src_ext_path _ _ Hext) as [Hp _]. rewrite Hp.
  destruct (str_eqb (bfile_path x) (j5s_path f)) eqn:E.
  - apply str_eqb_eq in E. left. split; [apply Honly; assumption|reflexivity].
  - right. split; [|reflexivity]. intros Heq. rewrite Heq, str_eqb_refl in E. discriminate.
Qed.

Lemma g_path x : In x bd -> bfile_path (g x) = bfile_path x /\ bfile_pkg (g x) = bfile_pkg x.
Proof.
  intros Hin. destruct (g_cases x Hin) as [[Hx Hg]|[_ Hg]]; rewrite Hg; [|auto].
  subst x. destruct (src_ext_path _ _ Hext) as [Hp Hk]. cbn. auto.
Qed.

Lemma g_rel x : In x bd ->
  (exists j j', x = BJ j /\ g x = BJ j' /\ file_src_ext j j') \/ (exists p, x = BP p /\ g x = BP p).
Proof.
  intros Hin. destruct (g_cases x Hin) as [[Hx Hg]|[_ Hg]].
  - left. exists f, f'. auto.
  - destruct x as [j|p]; [left; exists j, j; split; [reflexivity|split; [exact Hg|apply file_src_ext_refl]]|right; exists p; auto].
Qed.

(* the file list of every package is the old one, mapped *)
Lemma insert_by_map (l : list bfile) a :
  (forall x, In x (a :: l) -> In x bd) ->
  insert_by (fun x y => str_ltb (bfile_path x) (bfile_path y)) (g a) (map g l) =
  map g (insert_by (fun x y => str_ltb (bfile_path x) (bfile_path y)) a l).
Proof.
  induction l as [|y r IH]; intros Hin; cbn [map insert_by]; [reflexivity|].
  rewrite (proj1 (g_path a (Hin a (or_introl eq_refl)))), (proj1 (g_path y (Hin y (or_intror (or_introl eq_refl))))).
  destruct (str_ltb (bfile_path a) (bfile_path y)); [reflexivity|]. cbn [map]. f_equal. apply IH.
  intros x [<-|Hx]; apply Hin; [left; reflexivity|right; right; exact Hx].
Qed.

Lemma in_insert_by' {A} (lt : A -> A -> bool) x a l : In x (insert_by lt a l) -> x = a \/ In x l.
Proof. apply in_insert_by. Qed.

Lemma sort_by_map (l : list bfile) :
  (forall x, In x l -> In x bd) ->
  sort_by (fun x y => str_ltb (bfile_path x) (bfile_path y)) (map g l) =
  map g (sort_by (fun x y => str_ltb (bfile_path x) (bfile_path y)) l).
Proof.
  unfold sort_by. induction l as [|a r IH]; intros Hin; cbn [map fold_right]; [reflexivity|].
  rewrite IH by (intros x Hx; apply Hin; right; exact Hx). apply insert_by_map.
  intros x [<-|Hx]; [apply Hin; left; reflexivity|]. apply Hin. right.
  apply (proj1 (in_sort_by (fun x y : bfile => str_ltb (bfile_path x) (bfile_path y)) x r)). exact Hx.
Qed.

Lemma filter_map_pkg pkg (l : list bfile) :
  (forall x, In x l -> In x bd) ->
  filter (fun x => str_eqb (bfile_pkg x) pkg) (map g l) = map g (filter (fun x => str_eqb (bfile_pkg x) pkg) l).
Proof.
  induction l as [|a r IH]; intros Hin; cbn [map filter]; [reflexivity|].
  rewrite (proj2 (g_path a (Hin a (or_introl eq_refl)))).
  rewrite IH by (intros x Hx; apply Hin; right; exact Hx).
  destruct (str_eqb (bfile_pkg a) pkg); reflexivity.
Qed.

Lemma pkg_files_map pkg : pkg_files (map g bd) pkg = map g (pkg_files bd pkg).
Proof.
  unfold pkg_files. rewrite filter_map_pkg by auto. apply sort_by_map.
  intros x Hx. apply filter_In in Hx. destruct Hx. assumption.
Qed.

(* exports only grow *)
Lemma exports_le_map :
  (forall p l, pkg_exports camel (map g bd) p = Some l -> J5sValid.distinct (map tr_name l) = true) ->
  exports_le (pkg_exports camel bd) (pkg_exports camel (map g bd)).
Proof.
  intros Hdist p l Hl. unfold pkg_exports in Hl |- *. rewrite pkg_files_map.
  assert (Hsub : forall x, In x (pkg_files bd p) -> In x bd).
  { intros x Hx. apply in_pkg_files_iff in Hx. destruct Hx. assumption. }
  destruct (pkg_files bd p) as [|x0 r0] eqn:E; [discriminate|]. inversion Hl. subst l. clear Hl.
  cbn [map]. eexists. split; [reflexivity|]. split.
  - intros t Ht. change (In t (flat_map (exp_bfile camel) (x0 :: r0))) in Ht.
    apply in_flat_map in Ht. destruct Ht as (x & Hx & Ht).
    change (In t (flat_map (exp_bfile camel) (map g (x0 :: r0)))).
    apply in_flat_map. exists (g x). split; [apply in_map; exact Hx|].
    destruct (g_rel x (Hsub x Hx)) as [(j & j' & -> & Hg & Hr)|(q & -> & Hg)]; rewrite Hg.
    + eapply exp_file_ext; eassumption.
    + exact Ht.
  - apply (Hdist p). unfold pkg_exports. rewrite pkg_files_map, E. reflexivity.
Qed.

(* converting the mapped file list *)
Lemma cv_files_ext exports exports' fs : forall D D',
  (forall x, In x fs -> In x bd) ->
  (forall this im, env_le (mkEnv this im exports) (mkEnv this im exports')) ->
  cv_files snake camel screaming exports fs = Ok D ->
  cv_files snake camel screaming exports' (map g fs) = Ok D' ->
  files_ext D D'.
Proof.
  induction fs as [|x r IH]; intros D D' Hin Hle H H'; cbn [map] in H'.
  - cbn in H, H'. inversion H. inversion H'. constructor.
  - assert (Hin' : forall y, In y r -> In y bd) by (intros y Hy; apply Hin; right; exact Hy).
    destruct (g_rel x (Hin x (or_introl eq_refl))) as [(j & j' & -> & Hg & Hr)|(q & -> & Hg)]; rewrite Hg in H'; cbn [J5sConvert.cv_files] in H, H'.
    + destruct (file_lists_ok j); [|discriminate]. destruct (file_lists_ok j'); [|discriminate].
      apply obind_ok in H. destruct H as (a & Ea & H). apply obind_ok in H. destruct H as (c & Ec & H).
      apply obind_ok in H'. destruct H' as (a' & Ea' & H'). apply obind_ok in H'. destruct H' as (c' & Ec' & H').
      inversion H. inversion H'. subst. unfold files_ext. apply sub_list_app.
      * eapply (cv_file_ext snake camel screaming); [exact Hr|intros im; apply Hle|exact Ea|exact Ea'].
      * eapply IH; eassumption.
    + eapply IH; eassumption.
Qed.

(* C13 for a package, before the link step *)
Theorem convert_package_ext pkg D D' :
  (forall p l, pkg_exports camel (map g bd) p = Some l -> J5sValid.distinct (map tr_name l) = true) ->
  convert_package snake camel screaming bd pkg = Ok D ->
  convert_package snake camel screaming (map g bd) pkg = Ok D' ->
  files_ext D D'.
Proof.
  intros Hdist H H'. unfold convert_package in *. rewrite pkg_files_map in H'.
  assert (Hsub : forall x, In x (pkg_files bd pkg) -> In x bd).
  { intros x Hx. apply in_pkg_files_iff in Hx. destruct Hx. assumption. }
  destruct (pkg_files bd pkg) as [|x0 r0] eqn:E; [discriminate|].
  cbn [map] in H'. change (g x0 :: map g r0) with (map g (x0 :: r0)) in H'.
  eapply cv_files_ext; [exact Hsub| |exact H|exact H'].
  intros this im. apply env_le_of_exports. apply exports_le_map. exact Hdist.
Qed.

End PkgExt.

(* CodecDecTime.v — what the model of time.Parse(time.RFC3339, .) accepts, and the instant it returns.

   A timestamp text is described by its fields ([tfields]): year, month, day, hour (written with
   two digits or with one), minute, second, an optional fraction (separator '.' or ',' and a
   non-empty digit string), and a zone ('Z' or sign hh:mm).  [text f] writes the fields out.

   * time_parse_text:  for fields that fit their digit positions, parsing [text f] succeeds exactly
     when the fields are in range (month 1..12, day 1..days of that month, hour <= 23, minute and
     second <= 59, zone <= 24:60) and then returns the instant the fields denote:
     days_from_civil * 86400 + time of day - zone offset, with the first nine fraction digits as
     nanoseconds.
   * time_parse_inv:  everything the parser accepts is such a text.
   Together: "RFC 3339 timestamps at any offset" denote their instant, everything else is rejected. *)
From Coq Require Import List NArith ZArith Bool Lia ZifyN ZifyBool.
From J5V.lib Require Import Json.
From J5V.lib Require Civil.
From J5V.lib Require Import Outcome.
From J5V.model Require Import CodecTypes CodecDecScalar CodecDec CodecDecTree.
From J5V.proofs Require Import CodecDecVariants.
From J5V.model Require Import CodecDecTime.
Import ListNotations.
Local Open Scope Z_scope.

(* ---------------------------------------------------------------- digits *)
Definition dch (x : Z) : N := Z.to_N (48 + x).
Definition d2 (x : Z) : bytes := [dch (x / 10); dch (x mod 10)].
Definition d4 (x : Z) : bytes := d2 (x / 100) ++ d2 (x mod 100).

Lemma digv_dch x : 0 <= x <= 9 -> digv (dch x) = Some x.
Proof.
  intros H. unfold digv, dch, is_digit.
  replace ((48 <=? Z.to_N (48 + x))%N && (Z.to_N (48 + x) <=? 57)%N) with true by lia.
  f_equal. lia.
Qed.

Lemma digv_inv c x : digv c = Some x -> 0 <= x <= 9 /\ c = dch x.
Proof.
  unfold digv, dch, is_digit. destruct ((48 <=? c)%N && (c <=? 57)%N) eqn:E; [|discriminate].
  intros H. inversion H; subst. lia.
Qed.

Lemma digv_is_digit c : is_digit c = true <-> exists x, digv c = Some x.
Proof.
  unfold digv. destruct (is_digit c); split; intros H; try reflexivity; try discriminate; eauto.
  destruct H as [x H]. discriminate.
Qed.

Lemma divmod10 a b : 0 <= b < 10 -> (10 * a + b) / 10 = a /\ (10 * a + b) mod 10 = b.
Proof.
  intros H. split.
  - symmetry. apply Z.div_unique with b; lia.
  - symmetry. apply Z.mod_unique with a; lia.
Qed.

Lemma divmod100 a b : 0 <= b < 100 -> (100 * a + b) / 100 = a /\ (100 * a + b) mod 100 = b.
Proof.
  intros H. split.
  - symmetry. apply Z.div_unique with b; lia.
  - symmetry. apply Z.mod_unique with a; lia.
Qed.

Lemma take2_d2 x r : 0 <= x < 100 -> take2 (d2 x ++ r) = Some (x, r).
Proof.
  intros H. unfold d2. cbn [app take2].
  assert (0 <= x / 10 <= 9).
  { split; [apply Z.div_pos; lia|]. assert (x / 10 < 10) by (apply Z.div_lt_upper_bound; lia). lia. }
  assert (0 <= x mod 10 <= 9) by (pose proof (Z.mod_pos_bound x 10); lia).
  rewrite !digv_dch by assumption. f_equal. f_equal.
  pose proof (Z.div_mod x 10). lia.
Qed.

Lemma take2_inv s x r : take2 s = Some (x, r) -> s = d2 x ++ r /\ 0 <= x < 100.
Proof.
  unfold take2. destruct s as [|a [|b r0]]; try discriminate.
  destruct (digv a) as [xa|] eqn:Ea; [|discriminate]. destruct (digv b) as [xb|] eqn:Eb; [|discriminate].
  intros H. assert (x = 10 * xa + xb) by congruence. assert (r = r0) by congruence. subst x r. clear H.
  apply digv_inv in Ea. apply digv_inv in Eb. destruct Ea as [Ha ->]. destruct Eb as [Hb ->].
  destruct (divmod10 xa xb ltac:(lia)) as [Hd Hm].
  unfold d2. rewrite Hd, Hm. split; [reflexivity|lia].
Qed.

Lemma take4_d4 x r : 0 <= x < 10000 -> take4 (d4 x ++ r) = Some (x, r).
Proof.
  intros H. unfold take4, d4. rewrite <- app_assoc.
  assert (0 <= x / 100 < 100) by (split; [apply Z.div_pos; lia | apply Z.div_lt_upper_bound; lia]).
  assert (0 <= x mod 100 < 100) by (apply Z.mod_pos_bound; lia).
  rewrite take2_d2 by assumption. rewrite take2_d2 by assumption.
  f_equal. f_equal. pose proof (Z.div_mod x 100). lia.
Qed.

Lemma take4_inv s x r : take4 s = Some (x, r) -> s = d4 x ++ r /\ 0 <= x < 10000.
Proof.
  unfold take4. destruct (take2 s) as [[hi r1]|] eqn:E1; [|discriminate].
  destruct (take2 r1) as [[lo r2]|] eqn:E2; [|discriminate].
  intros H. assert (x = 100 * hi + lo) by congruence. assert (r = r2) by congruence. subst x r. clear H.
  apply take2_inv in E1. apply take2_inv in E2. destruct E1 as [-> H1]. destruct E2 as [-> H2].
  destruct (divmod100 hi lo H2) as [Hd Hm]. unfold d4. rewrite Hd, Hm, <- app_assoc. split; [reflexivity|lia].
Qed.

Lemma expect_cons c r : expect c (c :: r) = Some r.
Proof. unfold expect. rewrite N.eqb_refl. reflexivity. Qed.

Lemma expect_inv c s r : expect c s = Some r -> s = c :: r.
Proof.
  unfold expect. destruct s as [|x s']; [discriminate|]. destruct (x =? c)%N eqn:E; [|discriminate].
  intros H. inversion H; subst. apply N.eqb_eq in E. subst. reflexivity.
Qed.

(* ---------------------------------------------------------------- the hour: one digit or two *)
Definition starts_with_digit (s : bytes) : bool := match s with c :: _ => is_digit c | [] => false end.

Definition hour_text (one : bool) (h : Z) : bytes := if one then [dch h] else d2 h.

Lemma take_hour_text (one : bool) h r :
  (if one return Prop then 0 <= h <= 9 /\ starts_with_digit r = false else 0 <= h < 100) ->
  take_hour (hour_text one h ++ r) = Some (h, r).
Proof.
  destruct one; cbn [hour_text]; intros H.
  - destruct H as [Hh Hr]. cbn [app take_hour]. rewrite digv_dch by exact Hh.
    destruct r as [|b r']; [reflexivity|]. cbn [starts_with_digit] in Hr.
    unfold digv. rewrite Hr. reflexivity.
  - pose proof (take2_d2 h r H) as T. unfold take2, d2 in T. unfold d2. cbn [app] in *. unfold take_hour.
    destruct (digv (dch (h / 10))) as [x|]; [|discriminate].
    destruct (digv (dch (h mod 10))) as [y|]; [|discriminate]. exact T.
Qed.

Lemma take_hour_inv s h r : take_hour s = Some (h, r) ->
  exists one, s = hour_text one h ++ r /\
    (if one return Prop then 0 <= h <= 9 /\ starts_with_digit r = false else 0 <= h < 100).
Proof.
  unfold take_hour. destruct s as [|a r0]; [discriminate|].
  destruct (digv a) as [x|] eqn:Ea; [|discriminate].
  destruct r0 as [|b r1].
  - intros H. inversion H; subst; clear H. apply digv_inv in Ea. destruct Ea as [Hx ->].
    exists true. cbn. repeat split; lia.
  - destruct (digv b) as [y|] eqn:Eb; intros H;
      [assert (h = 10 * x + y) by congruence; assert (r = r1) by congruence
      |assert (h = x) by congruence; assert (r = b :: r1) by congruence]; subst h r; clear H.
    + exists false. assert (T : take2 (a :: b :: r1) = Some (10 * x + y, r1)) by (unfold take2; rewrite Ea, Eb; reflexivity).
      apply take2_inv in T. exact T.
    + apply digv_inv in Ea. destruct Ea as [Hx ->]. exists true. cbn [hour_text app]. repeat split; try lia.
      cbn [starts_with_digit]. unfold digv in Eb. destruct (is_digit b); [discriminate|reflexivity].
Qed.

(* ---------------------------------------------------------------- the fraction *)
Lemma take_digits_app ds : forall rest, forallb is_digit ds = true -> starts_with_digit rest = false ->
  take_digits (ds ++ rest) = (ds, rest).
Proof.
  induction ds as [|c ds IH]; intros rest Hd Hr.
  - cbn [app]. destruct rest as [|c r]; [reflexivity|]. cbn [starts_with_digit] in Hr. cbn [take_digits]. rewrite Hr. reflexivity.
  - cbn [forallb] in Hd. apply andb_prop in Hd. destruct Hd as [Hc Hd].
    cbn [app take_digits]. rewrite Hc. rewrite (IH rest Hd Hr). reflexivity.
Qed.

Lemma take_digits_inv s : forall ds rest, take_digits s = (ds, rest) ->
  s = ds ++ rest /\ forallb is_digit ds = true /\ starts_with_digit rest = false.
Proof.
  induction s as [|c r IH]; intros ds rest H; cbn [take_digits] in H.
  - inversion H; subst. repeat split; reflexivity.
  - destruct (is_digit c) eqn:Ec.
    + destruct (take_digits r) as [d rest'] eqn:E. inversion H; subst; clear H.
      destruct (IH d rest eq_refl) as (-> & Hd & Hr). cbn [app forallb]. rewrite Ec, Hd. repeat split; assumption.
    + inversion H; subst; clear H. cbn [app forallb starts_with_digit]. repeat split; assumption.
Qed.

Definition is_sep (c : N) : bool := ((c =? 46) || (c =? 44))%N.

Definition frac_text (fr : option (N * bytes)) : bytes :=
  match fr with None => [] | Some (sep, ds) => sep :: ds end.
Definition frac_ok (fr : option (N * bytes)) : Prop :=
  match fr with None => True | Some (sep, ds) => is_sep sep = true /\ ds <> [] /\ forallb is_digit ds = true end.
Definition frac_ns (fr : option (N * bytes)) : Z :=
  match fr with None => 0 | Some (_, ds) => frac_nanos ds end.

(* what follows the seconds when there is no fraction: not (separator, digit) *)
Definition no_frac_start (s : bytes) : bool :=
  match s with c :: d :: _ => negb (is_sep c && is_digit d) | _ => true end.

Lemma take_frac_text fr rest : frac_ok fr -> starts_with_digit rest = false ->
  (fr = None -> no_frac_start rest = true) ->
  take_frac (frac_text fr ++ rest) = (frac_ns fr, rest).
Proof.
  intros Hok Hr Hn. destruct fr as [[sep ds]|]; cbn [frac_text frac_ns app].
  - destruct Hok as (Hs & Hne & Hd). destruct ds as [|d ds']; [congruence|].
    cbn [app take_frac]. cbn [forallb] in Hd. pose proof Hd as Hd0. apply andb_prop in Hd. destruct Hd as [Hd1 _].
    fold (is_sep sep). rewrite Hs, Hd1. cbn [andb].
    change (d :: ds' ++ rest) with ((d :: ds') ++ rest). rewrite (take_digits_app (d :: ds') rest Hd0 Hr). reflexivity.
  - specialize (Hn eq_refl). unfold take_frac. destruct rest as [|c [|d r]]; try reflexivity.
    cbn [no_frac_start] in Hn. fold (is_sep c). destruct (is_sep c && is_digit d); [discriminate|reflexivity].
Qed.

Lemma take_frac_inv s ns rest : take_frac s = (ns, rest) ->
  exists fr, s = frac_text fr ++ rest /\ frac_ok fr /\ ns = frac_ns fr /\
             (fr = None -> no_frac_start rest = true) /\ (fr <> None -> starts_with_digit rest = false).
Proof.
  unfold take_frac. destruct s as [|c [|d r]].
  - intros H. inversion H; subst. exists None. cbn. repeat split; congruence.
  - intros H. inversion H; subst. exists None. cbn. repeat split; congruence.
  - fold (is_sep c). destruct (is_sep c && is_digit d) eqn:E.
    + destruct (take_digits (d :: r)) as [ds rest'] eqn:Et. intros H. inversion H; subst; clear H.
      apply take_digits_inv in Et. destruct Et as (Hs & Hd & Hr).
      apply andb_prop in E. destruct E as [E1 E2].
      exists (Some (c, ds)). cbn [frac_text frac_ok frac_ns app]. rewrite Hs. repeat split; try assumption; try congruence.
      intros ->. cbn [app] in Hs. subst rest. cbn [starts_with_digit] in Hr. congruence.
    + intros H. inversion H; subst; clear H. exists None. cbn [frac_text frac_ok frac_ns app no_frac_start].
      rewrite E. repeat split; congruence.
Qed.

(* ---------------------------------------------------------------- the zone *)
Definition zone_text (z : option (bool * Z * Z)) : bytes :=
  match z with
  | None => [90%N]
  | Some (neg, hh, mm) => (if neg then 45%N else 43%N) :: d2 hh ++ 58%N :: d2 mm
  end.
Definition zone_shape (z : option (bool * Z * Z)) : Prop :=
  match z with None => True | Some (_, hh, mm) => 0 <= hh < 100 /\ 0 <= mm < 100 end.
Definition zone_range (z : option (bool * Z * Z)) : bool :=
  match z with None => true | Some (_, hh, mm) => (hh <=? 24) && (mm <=? 60) end.
Definition zone_offset (z : option (bool * Z * Z)) : Z :=
  match z with None => 0 | Some (neg, hh, mm) => if neg then - ((hh * 60 + mm) * 60) else (hh * 60 + mm) * 60 end.

Lemma take_zone_text z rest : zone_shape z ->
  take_zone (zone_text z ++ rest) = if zone_range z then Some (zone_offset z, rest) else None.
Proof.
  destruct z as [[[neg hh] mm]|]; cbn [zone_text zone_shape zone_range zone_offset]; [|reflexivity].
  intros [Hh Hm]. unfold d2. cbn [app].
  pose proof (take2_d2 hh [] Hh) as Th. pose proof (take2_d2 mm [] Hm) as Tm. unfold d2 in Th, Tm. cbn [app] in Th, Tm.
  unfold take_zone. destruct neg; cbn [N.eqb Pos.eqb]; rewrite Th, Tm; cbn [N.eqb Pos.eqb negb orb];
    destruct (hh <=? 24) eqn:E1; destruct (mm <=? 60) eqn:E2; cbn [andb];
    try (replace (24 <? hh) with false by lia); try (replace (24 <? hh) with true by lia);
    try (replace (60 <? mm) with false by lia); try (replace (60 <? mm) with true by lia); reflexivity.
Qed.

Lemma take_zone_inv s off rest : take_zone s = Some (off, rest) ->
  exists z, s = zone_text z ++ rest /\ zone_shape z /\ zone_range z = true /\ off = zone_offset z.
Proof.
  unfold take_zone. destruct s as [|c r]; [discriminate|].
  destruct (c =? 90)%N eqn:Ez.
  - intros H. inversion H; subst; clear H. apply N.eqb_eq in Ez. subst. exists None. cbn. repeat split.
  - destruct r as [|h1 [|h2 [|col [|m1 [|m2 r']]]]]; try discriminate.
    destruct (take2 [h1; h2]) as [[hr rh]|] eqn:Eh; [|discriminate].
    destruct (take2 [m1; m2]) as [[mm rm]|] eqn:Em; [|discriminate].
    destruct (negb (col =? 58)%N || (24 <? hr) || (60 <? mm)) eqn:Er; [discriminate|].
    apply orb_false_elim in Er. destruct Er as [Er E60]. apply orb_false_elim in Er. destruct Er as [Ecol E24].
    apply negb_false_iff in Ecol. apply N.eqb_eq in Ecol. subst col.
    apply take2_inv in Eh. destruct Eh as [Eh Hh]. apply take2_inv in Em. destruct Em as [Em Hm].
    unfold d2 in Eh, Em. cbn [app] in Eh, Em. inversion Eh; subst. inversion Em; subst.
    destruct (c =? 43)%N eqn:Ep.
    + intros H. inversion H; subst; clear H. apply N.eqb_eq in Ep. subst.
      exists (Some (false, hr, mm)). cbn [zone_text zone_shape zone_range zone_offset]. unfold d2. cbn [app].
      repeat split; lia.
    + destruct (c =? 45)%N eqn:Emi; [|discriminate].
      intros H. inversion H; subst; clear H. apply N.eqb_eq in Emi. subst.
      exists (Some (true, hr, mm)). cbn [zone_text zone_shape zone_range zone_offset]. unfold d2. cbn [app].
      repeat split; lia.
Qed.

Lemma zone_text_no_digit z rest : starts_with_digit (zone_text z ++ rest) = false.
Proof. destruct z as [[[[|] hh] mm]|]; reflexivity. Qed.

Lemma zone_text_no_frac z rest : no_frac_start (zone_text z ++ rest) = true.
Proof. destruct z as [[[[|] hh] mm]|]; cbn [zone_text app no_frac_start]; try reflexivity. destruct rest; reflexivity. Qed.

(* ---------------------------------------------------------------- whole texts *)
Record tfields := mkT {
  t_year : Z; t_month : Z; t_day : Z;
  t_hour1 : bool; t_hour : Z; t_min : Z; t_sec : Z;
  t_frac : option (N * bytes);
  t_zone : option (bool * Z * Z) }.

Definition text (f : tfields) : bytes :=
  d4 (t_year f) ++ 45%N :: d2 (t_month f) ++ 45%N :: d2 (t_day f) ++ 84%N ::
  hour_text (t_hour1 f) (t_hour f) ++ 58%N :: d2 (t_min f) ++ 58%N :: d2 (t_sec f) ++
  frac_text (t_frac f) ++ zone_text (t_zone f).

(* the fields fit their digit positions *)
Definition shape (f : tfields) : Prop :=
  0 <= t_year f < 10000 /\ 0 <= t_month f < 100 /\ 0 <= t_day f < 100 /\
  (if t_hour1 f return Prop then 0 <= t_hour f <= 9 else 0 <= t_hour f < 100) /\
  0 <= t_min f < 100 /\ 0 <= t_sec f < 100 /\ frac_ok (t_frac f) /\ zone_shape (t_zone f).

(* the fields are a time of day on a day of the calendar, the zone at most 24:60 *)
Definition in_range (f : tfields) : bool :=
  (1 <=? t_month f) && (t_month f <=? 12) && (1 <=? t_day f) && (t_day f <=? Civil.days_in (t_month f) (t_year f))
  && (t_hour f <=? 23) && (t_min f <=? 59) && (t_sec f <=? 59) && zone_range (t_zone f).

(* seconds since 1970-01-01T00:00:00Z *)
Definition instant (f : tfields) : Z :=
  Civil.days_from_civil (t_year f) (t_month f) (t_day f) * 86400
  + t_hour f * 3600 + t_min f * 60 + t_sec f - zone_offset (t_zone f).
Definition nanos (f : tfields) : Z := frac_ns (t_frac f).

Theorem time_parse_text f : shape f ->
  go_time_parse (text f) = if in_range f then Some (instant f, nanos f) else None.
Proof.
  destruct f as [year month day one hour mi sec fr zone]. unfold shape, text, in_range, instant, nanos.
  cbn [t_year t_month t_day t_hour1 t_hour t_min t_sec t_frac t_zone].
  intros (Hy & Hmo & Hd & Hh & Hmi & Hs & Hfr & Hz).
  unfold go_time_parse.
  rewrite take4_d4 by exact Hy. cbn [obind2]. rewrite expect_cons. cbn [obind2].
  rewrite take2_d2 by exact Hmo. cbn [obind2]. rewrite expect_cons. cbn [obind2].
  rewrite take2_d2 by exact Hd. cbn [obind2]. rewrite expect_cons. cbn [obind2].
  rewrite take_hour_text by (destruct one; [split; [exact Hh|reflexivity]|exact Hh]).
  cbn [obind2]. rewrite expect_cons. cbn [obind2].
  rewrite take2_d2 by exact Hmi. cbn [obind2]. rewrite expect_cons. cbn [obind2].
  rewrite take2_d2 by exact Hs. cbn [obind2].
  rewrite (take_frac_text fr (zone_text zone) Hfr).
  2:{ rewrite <- (app_nil_r (zone_text zone)). apply zone_text_no_digit. }
  2:{ intros _. rewrite <- (app_nil_r (zone_text zone)). apply zone_text_no_frac. }
  rewrite <- (app_nil_r (zone_text zone)). rewrite (take_zone_text zone [] Hz).
  destruct (zone_range zone); cbn [obind2].
  - rewrite andb_true_r.
    destruct (1 <=? month) eqn:E1; destruct (month <=? 12) eqn:E2; destruct (1 <=? day) eqn:E3;
      destruct (day <=? Civil.days_in month year) eqn:E4; destruct (hour <=? 23) eqn:E5;
      destruct (mi <=? 59) eqn:E6; destruct (sec <=? 59) eqn:E7; cbn [andb];
      match goal with |- (if ?c then _ else _) = _ => (replace c with true by lia) || (replace c with false by lia) end;
      reflexivity.
  - rewrite andb_false_r. reflexivity.
Qed.

Theorem time_parse_inv s sec ns : go_time_parse s = Some (sec, ns) ->
  exists f, shape f /\ in_range f = true /\ s = text f /\ sec = instant f /\ ns = nanos f.
Proof.
  unfold go_time_parse. intros H.
  destruct (take4 s) as [[year s1]|] eqn:E1; [|discriminate]. cbn [obind2] in H.
  destruct (expect 45 s1) as [s2|] eqn:E2; [|discriminate]. cbn [obind2] in H.
  destruct (take2 s2) as [[month s3]|] eqn:E3; [|discriminate]. cbn [obind2] in H.
  destruct (expect 45 s3) as [s4|] eqn:E4; [|discriminate]. cbn [obind2] in H.
  destruct (take2 s4) as [[day s5]|] eqn:E5; [|discriminate]. cbn [obind2] in H.
  destruct (expect 84 s5) as [s6|] eqn:E6; [|discriminate]. cbn [obind2] in H.
  destruct (take_hour s6) as [[hour s7]|] eqn:E7; [|discriminate]. cbn [obind2] in H.
  destruct (expect 58 s7) as [s8|] eqn:E8; [|discriminate]. cbn [obind2] in H.
  destruct (take2 s8) as [[mi s9]|] eqn:E9; [|discriminate]. cbn [obind2] in H.
  destruct (expect 58 s9) as [s10|] eqn:E10; [|discriminate]. cbn [obind2] in H.
  destruct (take2 s10) as [[se s11]|] eqn:E11; [|discriminate]. cbn [obind2] in H.
  destruct (take_frac s11) as [ns0 s12] eqn:E12.
  destruct (take_zone s12) as [[off s13]|] eqn:E13; [|discriminate]. cbn [obind2] in H.
  destruct s13 as [|x s14]; [|discriminate].
  destruct ((month <? 1) || (12 <? month) || (23 <? hour) || (59 <? mi) || (59 <? se) || (day <? 1)
            || (Civil.days_in month year <? day)) eqn:Er; [discriminate|].
  inversion H; subst sec ns; clear H.
  apply take4_inv in E1. destruct E1 as [-> Hy]. apply expect_inv in E2. subst s1.
  apply take2_inv in E3. destruct E3 as [-> Hmo]. apply expect_inv in E4. subst s3.
  apply take2_inv in E5. destruct E5 as [-> Hd]. apply expect_inv in E6. subst s5.
  apply take_hour_inv in E7. destruct E7 as (one & -> & Hh). apply expect_inv in E8. subst s7.
  apply take2_inv in E9. destruct E9 as [-> Hmi]. apply expect_inv in E10. subst s9.
  apply take2_inv in E11. destruct E11 as [-> Hs].
  apply take_frac_inv in E12. destruct E12 as (fr & -> & Hfr & -> & _ & _).
  apply take_zone_inv in E13. destruct E13 as (zone & -> & Hz & Hzr & ->).
  exists (mkT year month day one hour mi se fr zone).
  unfold shape, in_range, instant, nanos, text. cbn [t_year t_month t_day t_hour1 t_hour t_min t_sec t_frac t_zone].
  rewrite app_nil_r. rewrite Hzr.
  split; [|split; [|split; [|split; reflexivity]]].
  - repeat split; try lia; try assumption. destruct one; [destruct Hh; assumption|exact Hh].
  - repeat (apply orb_false_elim in Er; destruct Er as [Er ?]). lia.
  - reflexivity.
Qed.

(* the same instant written at two offsets (or with any of the accepted variations) parses to the same value *)
Corollary time_parse_same_instant f g : shape f -> shape g -> in_range f = true -> in_range g = true ->
  instant f = instant g -> nanos f = nanos g -> go_time_parse (text f) = go_time_parse (text g).
Proof.
  intros Hf Hg Rf Rg Hi Hn. rewrite (time_parse_text f Hf), (time_parse_text g Hg), Rf, Rg, Hi, Hn. reflexivity.
Qed.

(* a text whose fields are out of range is rejected *)
Corollary time_parse_out_of_range f : shape f -> in_range f = false -> go_time_parse (text f) = None.
Proof. intros Hf Rf. rewrite (time_parse_text f Hf), Rf. reflexivity. Qed.

(* a text that is not of the form [text f] for in-range fields is rejected *)
Corollary time_parse_other_text s : (forall f, shape f -> in_range f = true -> s <> text f) -> go_time_parse s = None.
Proof.
  intros H. destruct (go_time_parse s) as [[sec ns]|] eqn:E; [|reflexivity].
  apply time_parse_inv in E. destruct E as (f & Hf & Rf & Hs & _). exfalso. exact (H f Hf Rf Hs).
Qed.

(* ---------------------------------------------------------------- the timestamp field kind *)

(* the oracle of the decoder model is the model of time.Parse (checked per run: CTime cases and the
   time table of every CDec / CQuery case) *)
Definition time_oracle_is_model (orc : oracles) : Prop := forall s, o_time orc s = go_time_parse s.

Theorem timestamp_reading orc f : time_oracle_is_model orc -> shape f -> in_range f = true ->
  scalar_from_go orc KTimestamp (GStr (text f)) = Ok (Some (mk_timestamp (instant f) (nanos f))).
Proof.
  intros Ho Hf Rf. unfold scalar_from_go. rewrite Ho, (time_parse_text f Hf), Rf. reflexivity.
Qed.

Theorem timestamp_any_offset orc f g : time_oracle_is_model orc ->
  shape f -> shape g -> in_range f = true -> in_range g = true -> instant f = instant g -> nanos f = nanos g ->
  scalar_from_go orc KTimestamp (GStr (text f)) = scalar_from_go orc KTimestamp (GStr (text g)).
Proof.
  intros Ho Hf Hg Rf Rg Hi Hn. rewrite (timestamp_reading orc f Ho Hf Rf), (timestamp_reading orc g Ho Hg Rg), Hi, Hn.
  reflexivity.
Qed.

Theorem timestamp_out_of_range_rejected orc f : time_oracle_is_model orc -> shape f -> in_range f = false ->
  is_err (scalar_from_go orc KTimestamp (GStr (text f))) = true.
Proof.
  intros Ho Hf Rf. unfold scalar_from_go. rewrite Ho, (time_parse_out_of_range f Hf Rf). reflexivity.
Qed.

Theorem timestamp_other_text_rejected orc s : time_oracle_is_model orc ->
  (forall f, shape f -> in_range f = true -> s <> text f) ->
  is_err (scalar_from_go orc KTimestamp (GStr s)) = true.
Proof.
  intros Ho H. unfold scalar_from_go. rewrite Ho, (time_parse_other_text s H). reflexivity.
Qed.

(* as a leaf of a document: two spellings of one instant are variants, so whole documents that differ
   in them decode to the same message (CodecDecVariants.variant_documents_same_result) *)
Theorem timestamp_variant orc e f g : time_oracle_is_model orc ->
  shape f -> shape g -> in_range f = true -> in_range g = true -> instant f = instant g -> nanos f = nanos g ->
  variant orc e (FScalar KTimestamp) (JStr (text f)) (JStr (text g)).
Proof.
  intros Ho Hf Hg Rf Rg Hi Hn. apply V_scalar; try reflexivity.
  - split; discriminate.
  - cbn [goval_of_json]. exact (timestamp_any_offset orc f g Ho Hf Hg Rf Rg Hi Hn).
Qed.

(* ---------------------------------------------------------------- examples (non-vacuity) *)
Local Open Scope N_scope.
(* "2020-01-01T10:00:00+10:00" and "2020-01-01T00:00:00Z" *)
Definition ex_offset : tfields := mkT 2020 1 1 false 10 0 0 None (Some (false, 10%Z, 0%Z)).
Definition ex_utc : tfields := mkT 2020 1 1 false 0 0 0 None None.
Example ex_offset_text :
  text ex_offset = [50;48;50;48;45;48;49;45;48;49;84;49;48;58;48;48;58;48;48;43;49;48;58;48;48].
Proof. reflexivity. Qed.
Example ex_same_instant : go_time_parse (text ex_offset) = go_time_parse (text ex_utc)
                          /\ go_time_parse (text ex_utc) = Some (1577836800%Z, 0%Z).
Proof. split; vm_compute; reflexivity. Qed.
(* "2021-02-29T00:00:00Z": a day February 2021 does not have *)
Example ex_bad_day : go_time_parse (text (mkT 2021 2 29 false 0 0 0 None None)) = None.
Proof. vm_compute. reflexivity. Qed.

(* ReflectDeclSpecProofs.v — an INDEPENDENT description of the shape of a message's property list, and the
   proof that the declarative schema (ReflectDecl.decl_props, hence under wf_keys every linked entry of
   the reader) has it.

   messageProperties walks the fields with a table of exposed oneofs, a "pending" flag per oneof and a
   deferred insertion of the oneof's own property.  What that computes is, independently of any table:
     - a field that is not a member of an exposed real oneof is a property of the message, under its JSON
       name, at its place in declaration order;
     - an exposed real oneof is ONE property of the message, under its lower-camel name, standing where
       the FIRST of its members stands; its members are the properties of the oneof's own schema, in
       declaration order;
     - members are the singular (not repeated, not map) fields whose containing oneof is real and
       carries (j5.ext.v1.oneof).expose = true;
     - an exposed oneof without a member is an error.
   [spec_names] / [spec_members] below say exactly that as two three-line functions of the descriptor. *)
From Coq Require Import String List NArith ZArith Bool Lia.
From J5V.lib Require Import Outcome.
From J5V.model Require Import ReflectDesc ReflectSchema Reflect ReflectDecl.
From J5V.proofs Require Import ReflectProofs ReflectInvProofs ReflectDeclProofs.
Import ListNotations.

Section Spec.
Variable D : desc.
Variable m : msgd.

Definition oneof_at (idx : N) : option oneofd := nth_error (m_oneofs m) (N.to_nat idx).
Definition is_exposed (idx : N) : bool :=
  match oneof_at idx with Some (Oneof _ _ false (Some true) _) => true | _ => false end.
Definition oneof_jname (idx : N) : str :=
  match oneof_at idx with Some (Oneof _ j _ _ _) => j | None => [] end.

(* the exposed real oneof a field is a member of *)
Definition exposed_member (f : field) : option N :=
  match f_card f with
  | CRepeated | CMap _ => None
  | _ => match f_oneof f with
         | Some idx => if is_exposed idx then Some idx else None
         | None => None
         end
  end.
Definition member_of (idx : N) (f : field) : bool :=
  match exposed_member f with Some i => N.eqb i idx | None => false end.

(* JSON names of the message's properties, in order; [seen]: the exposed oneofs already placed *)
Fixpoint spec_names (seen : list N) (fs : list field) : list str :=
  match fs with
  | [] => []
  | f :: r =>
      match exposed_member f with
      | None => f_json f :: spec_names seen r
      | Some idx => if existsb (N.eqb idx) seen then spec_names seen r
                    else oneof_jname idx :: spec_names (idx :: seen) r
      end
  end.
(* the members of an exposed oneof, in declaration order *)
Definition spec_members (idx : N) (fs : list field) : list field := filter (member_of idx) fs.

(* ---------------------------------------------------------------- the table of exposed oneofs *)
Lemma decl_field_prop_json f p : decl_field_prop D f = ROk p -> p_json p = f_json f.
Proof.
  unfold decl_field_prop. intros H.
  destruct (f_card f) as [| | |kk].
  - destruct (decl_schema D f (field_exts f)); cbn [rbind] in H; [|discriminate]. inversion H. reflexivity.
  - destruct (decl_schema D f (field_exts f)); cbn [rbind] in H; [|discriminate]. inversion H. reflexivity.
  - destruct (x_vty (field_exts f)); cbn in H;
      match type of H with rbind ?o _ = _ => destruct o; cbn [rbind] in H; try discriminate end; inversion H; reflexivity.
  - destruct (negb (kind_eqb kk KString)); [discriminate|].
    destruct (x_vty (field_exts f)); cbn in H;
      match type of H with rbind ?o _ = _ => destruct o; cbn [rbind] in H; try discriminate end; inversion H; reflexivity.
Qed.

Definition has_idx (exs : list exposed) (idx : N) : bool := existsb (fun e => N.eqb (ex_idx e) idx) exs.

Lemma add_to_exposed_none exs idx p : add_to_exposed exs idx p = None <-> has_idx exs idx = false.
Proof.
  induction exs as [|e r IH]; cbn [add_to_exposed has_idx existsb]; [split; reflexivity|].
  destruct (N.eqb (ex_idx e) idx); cbn [orb]; [split; discriminate|].
  destruct (add_to_exposed r idx p) as [[r' o]|]; [split; [discriminate|]|split; [intros _|reflexivity]].
  - intros H. apply IH in H. discriminate.
  - apply IH. reflexivity.
Qed.

(* the table registered for the message holds exactly the exposed oneofs, by index, each once *)
Lemma decl_exposed_spec : forall os i0 e,
  In e (decl_exposed m i0 os) ->
  exists j name jn d, nth_error os j = Some (Oneof name jn false (Some true) d) /\ ex_idx e = (i0 + N.of_nat j)%N /\
                      p_json (ex_prop e) = jn /\ ex_pending e = true /\ ex_props e = [].
Proof.
  induction os as [|[name jn syn ext d] r IH]; intros i0 e He; cbn [decl_exposed] in He; [destruct He|].
  assert (Hrec : In e (decl_exposed m (N.succ i0) r) ->
                 exists j name0 jn0 d0, nth_error (Oneof name jn syn ext d :: r) j = Some (Oneof name0 jn0 false (Some true) d0) /\
                   ex_idx e = (i0 + N.of_nat j)%N /\ p_json (ex_prop e) = jn0 /\ ex_pending e = true /\ ex_props e = []).
  { intros H. destruct (IH _ _ H) as (j & n0 & j0 & d0 & H1 & H2 & H3). exists (S j), n0, j0, d0. split; [exact H1|].
    split; [rewrite H2; lia|exact H3]. }
  destruct syn; [apply Hrec; exact He|]. destruct ext as [[|]|]; try (apply Hrec; exact He).
  destruct He as [<-|He]; [|apply Hrec; exact He].
  exists 0%nat, name, jn, d. cbn. repeat split. lia.
Qed.

Lemma decl_exposed_idx_lt : forall os i0 e, In e (decl_exposed m i0 os) -> (i0 <= ex_idx e)%N.
Proof.
  intros os i0 e He. destruct (decl_exposed_spec os i0 e He) as (j & _ & _ & _ & _ & H & _). lia.
Qed.

Lemma decl_exposed_nodup : forall os i0, NoDup (map ex_idx (decl_exposed m i0 os)).
Proof.
  induction os as [|[name jn syn ext d] r IH]; intros i0; cbn [decl_exposed]; [constructor|].
  destruct syn; [apply IH|]. destruct ext as [[|]|]; try apply IH.
  cbn [map ex_idx]. constructor; [|apply IH].
  intros Hin. apply in_map_iff in Hin as (e & He & Hin). apply decl_exposed_idx_lt in Hin. lia.
Qed.

Lemma decl_exposed_has : forall os i0 j name jn d,
  nth_error os j = Some (Oneof name jn false (Some true) d) -> has_idx (decl_exposed m i0 os) (i0 + N.of_nat j) = true.
Proof.
  induction os as [|[name0 jn0 syn ext d0] r IH]; intros i0 j name jn d H; [destruct j; discriminate|].
  destruct j as [|j]; cbn [nth_error] in H.
  - inversion H; subst. cbn [decl_exposed has_idx existsb ex_idx]. replace (i0 + N.of_nat 0)%N with i0 by lia. rewrite N.eqb_refl. reflexivity.
  - specialize (IH (N.succ i0) j name jn d H). replace (i0 + N.of_nat (S j))%N with (N.succ i0 + N.of_nat j)%N by lia.
    cbn [decl_exposed]. destruct syn; [exact IH|]. destruct ext as [[|]|]; try exact IH.
    unfold has_idx in *. cbn [existsb]. rewrite IH. apply orb_true_r.
Qed.

Lemma table_is_the_exposed idx : has_idx (decl_exposed m 0 (m_oneofs m)) idx = is_exposed idx.
Proof.
  unfold is_exposed, oneof_at.
  destruct (has_idx (decl_exposed m 0 (m_oneofs m)) idx) eqn:Eh.
  - unfold has_idx in Eh. apply existsb_exists in Eh as (e & He & Hi). apply N.eqb_eq in Hi.
    destruct (decl_exposed_spec _ _ _ He) as (j & name & jn & d & Hn & Hj & _). rewrite <- Hi, Hj.
    replace (N.to_nat (0 + N.of_nat j)) with j by lia. rewrite Hn. reflexivity.
  - destruct (nth_error (m_oneofs m) (N.to_nat idx)) as [[name jn [|] [[|]|] d]|] eqn:En; try reflexivity.
    pose proof (decl_exposed_has _ 0%N _ _ _ _ En) as H. replace (0 + N.of_nat (N.to_nat idx))%N with idx in H by lia. congruence.
Qed.

Lemma table_jnames e : In e (decl_exposed m 0 (m_oneofs m)) -> p_json (ex_prop e) = oneof_jname (ex_idx e).
Proof.
  intros He. destruct (decl_exposed_spec _ _ _ He) as (j & name & jn & d & Hn & Hj & Hp & _).
  unfold oneof_jname, oneof_at. rewrite Hj. replace (N.to_nat (0 + N.of_nat j)) with j by lia. rewrite Hn. exact Hp.
Qed.

(* ---------------------------------------------------------------- the walk over the fields *)
Record tbl_ok (seen : list N) (exs : list exposed) : Prop := {
  t_nodup : NoDup (map ex_idx exs);
  t_idx : forall idx, has_idx exs idx = is_exposed idx;
  t_pend : forall e, In e exs -> ex_pending e = negb (existsb (N.eqb (ex_idx e)) seen);
  t_jn : forall e, In e exs -> p_json (ex_prop e) = oneof_jname (ex_idx e) }.

Lemma add_to_exposed_some exs idx p exs1 pending :
  add_to_exposed exs idx p = Some (exs1, pending) ->
  exists l1 e l2, exs = l1 ++ e :: l2 /\ ex_idx e = idx /\ exs1 = l1 ++ bump e p :: l2 /\
                  pending = (if ex_pending e then Some (ex_prop e) else None).
Proof.
  revert exs1 pending. induction exs as [|e r IH]; intros exs1 pending H; cbn [add_to_exposed] in H; [discriminate|].
  destruct (N.eqb (ex_idx e) idx) eqn:E.
  - inversion H; subst. apply N.eqb_eq in E. exists [], e, r. repeat split. exact E.
  - destruct (add_to_exposed r idx p) as [[r' o]|] eqn:Ea; [|discriminate]. inversion H; subst.
    destruct (IH r' pending eq_refl) as (l1 & e0 & l2 & H1 & H2 & H3 & H4). exists (e :: l1), e0, l2.
    subst. repeat split.
Qed.

Lemma has_idx_in exs idx : has_idx exs idx = true <-> exists e, In e exs /\ ex_idx e = idx.
Proof.
  unfold has_idx. rewrite existsb_exists. split; intros (e & H1 & H2); exists e; (split; [exact H1|]).
  - apply N.eqb_eq. exact H2.
  - apply N.eqb_eq. exact H2.
Qed.

Lemma spec_names_seen_ext fs : forall s1 s2,
  (forall i, existsb (N.eqb i) s1 = existsb (N.eqb i) s2) -> spec_names s1 fs = spec_names s2 fs.
Proof.
  induction fs as [|f r IH]; intros s1 s2 H; cbn [spec_names]; [reflexivity|].
  destruct (exposed_member f) as [idx|]; [|f_equal; apply IH; exact H].
  rewrite (H idx). destruct (existsb (N.eqb idx) s2); [apply IH; exact H|].
  f_equal. apply IH. intros i. cbn [existsb]. rewrite (H i). reflexivity.
Qed.

Lemma members_cons_no f r idx : member_of idx f = false ->
  spec_members idx (f :: r) = spec_members idx r /\ existsb (member_of idx) (f :: r) = existsb (member_of idx) r.
Proof. intros H. unfold spec_members. cbn [filter existsb]. rewrite H. split; reflexivity. Qed.
Lemma members_cons_yes f r idx : member_of idx f = true ->
  spec_members idx (f :: r) = f :: spec_members idx r /\ existsb (member_of idx) (f :: r) = true.
Proof. intros H. unfold spec_members. cbn [filter existsb]. rewrite H. split; reflexivity. Qed.

Lemma decl_fields_shape : forall fs exs exs2 ps seen,
  decl_fields D m exs fs = ROk (exs2, ps) -> tbl_ok seen exs ->
  map p_json ps = spec_names seen fs /\
  map ex_idx exs2 = map ex_idx exs /\
  (forall e2, In e2 exs2 -> exists e, In e exs /\ ex_idx e = ex_idx e2 /\
      map p_json (ex_props e2) = map p_json (ex_props e) ++ map f_json (spec_members (ex_idx e2) fs) /\
      ex_pending e2 = ex_pending e && negb (existsb (member_of (ex_idx e2)) fs)).
Proof.
  induction fs as [|f r IH]; intros exs exs2 ps seen H HT; cbn [decl_fields] in H.
  - inversion H; subst exs2 ps. split; [reflexivity|]. split; [reflexivity|].
    intros e2 He2. exists e2. split; [exact He2|]. split; [reflexivity|]. cbn. rewrite app_nil_r, andb_true_r. split; reflexivity.
  - destruct (decl_field_prop D f) as [p|c] eqn:Ep; cbn [rbind] in H; [|discriminate].
    pose proof (decl_field_prop_json f p Ep) as Hj.
    (* the field is a property of its own *)
    assert (Hdirect : exposed_member f = None ->
              rbind (decl_fields D m exs r) (fun '(exs2, ps) => ROk (exs2, p :: ps)) = ROk (exs2, ps) ->
              map p_json ps = spec_names seen (f :: r) /\ map ex_idx exs2 = map ex_idx exs /\
              (forall e2, In e2 exs2 -> exists e, In e exs /\ ex_idx e = ex_idx e2 /\
                 map p_json (ex_props e2) = map p_json (ex_props e) ++ map f_json (spec_members (ex_idx e2) (f :: r)) /\
                 ex_pending e2 = ex_pending e && negb (existsb (member_of (ex_idx e2)) (f :: r)))).
    { intros Hem H'. destruct (decl_fields D m exs r) as [[a b]|] eqn:E; cbn [rbind] in H'; [|discriminate].
      inversion H'; subst a ps. destruct (IH _ _ _ _ E HT) as (I1 & I2 & I3).
      cbn [spec_names map]. rewrite Hem, Hj, I1. split; [reflexivity|]. split; [exact I2|].
      intros e2 He2. destruct (I3 e2 He2) as (e & G1 & G2 & G3 & G4). exists e. split; [exact G1|]. split; [exact G2|].
      assert (Hmo : member_of (ex_idx e2) f = false) by (unfold member_of; rewrite Hem; reflexivity).
      destruct (members_cons_no f r _ Hmo) as [-> ->]. split; assumption. }
    (* the field is a member of the exposed oneof idx *)
    assert (Hexp : forall idx, exposed_member f = Some idx ->
              match add_to_exposed exs idx p with
              | Some (exs1, pending) =>
                  rbind (decl_fields D m exs1 r) (fun '(exs2, ps) => ROk (exs2, match pending with Some pp => pp :: ps | None => ps end))
              | None => rbind (decl_fields D m exs r) (fun '(exs2, ps) => ROk (exs2, p :: ps))
              end = ROk (exs2, ps) ->
              is_exposed idx = true ->
              map p_json ps = spec_names seen (f :: r) /\ map ex_idx exs2 = map ex_idx exs /\
              (forall e2, In e2 exs2 -> exists e, In e exs /\ ex_idx e = ex_idx e2 /\
                 map p_json (ex_props e2) = map p_json (ex_props e) ++ map f_json (spec_members (ex_idx e2) (f :: r)) /\
                 ex_pending e2 = ex_pending e && negb (existsb (member_of (ex_idx e2)) (f :: r)))).
    { intros idx Hem H' Ex.
      destruct (add_to_exposed exs idx p) as [[exs1 pending]|] eqn:Ea;
        [|apply add_to_exposed_none in Ea; rewrite (t_idx _ _ HT), Ex in Ea; discriminate].
      destruct (add_to_exposed_some _ _ _ _ _ Ea) as (l1 & e & l2 & E1 & E2 & E3 & E4).
      destruct (decl_fields D m exs1 r) as [[a b]|] eqn:E; cbn [rbind] in H'; [|discriminate].
      inversion H'; subst a ps; clear H'.
      assert (Hine : In e exs) by (subst exs; apply in_or_app; right; left; reflexivity).
      assert (Hidx1 : map ex_idx exs1 = map ex_idx exs) by (subst exs exs1; rewrite !map_app; reflexivity).
      assert (Hother : forall e', In e' exs1 -> e' = bump e p \/ (In e' exs /\ ex_idx e' <> idx)).
      { intros e' He'. pose proof (t_nodup _ _ HT) as Hnd. subst exs exs1. rewrite map_app in Hnd. cbn [map] in Hnd.
        apply in_app_or in He' as [He'|[He'|He']].
        - right. split; [apply in_or_app; left; exact He'|].
          intros Heq. apply NoDup_remove_2 in Hnd. apply Hnd. apply in_or_app. left. rewrite E2, <- Heq. apply in_map. exact He'.
        - left. symmetry. exact He'.
        - right. split; [apply in_or_app; right; right; exact He'|].
          intros Heq. apply NoDup_remove_2 in Hnd. apply Hnd. apply in_or_app. right. rewrite E2, <- Heq. apply in_map. exact He'. }
      pose proof (t_pend _ _ HT e Hine) as Hpe. rewrite E2 in Hpe.
      set (seen' := if ex_pending e then idx :: seen else seen).
      assert (HT1 : tbl_ok seen' exs1).
      { constructor.
        - rewrite Hidx1. exact (t_nodup _ _ HT).
        - intros i. rewrite <- (t_idx _ _ HT i). unfold has_idx. subst exs exs1. rewrite !existsb_app. reflexivity.
        - intros e' He'. destruct (Hother e' He') as [->|[Hin Hne]].
          + cbn [bump ex_pending ex_idx]. rewrite E2. unfold seen'. destruct (ex_pending e).
            * cbn [existsb]. rewrite N.eqb_refl. reflexivity.
            * destruct (existsb (N.eqb idx) seen); [reflexivity|discriminate].
          + rewrite (t_pend _ _ HT e' Hin). unfold seen'. destruct (ex_pending e); [|reflexivity].
            cbn [existsb]. assert (N.eqb (ex_idx e') idx = false) as -> by (apply N.eqb_neq; exact Hne). reflexivity.
        - intros e' He'. destruct (Hother e' He') as [->|[Hin Hne]]; [exact (t_jn _ _ HT e Hine)|exact (t_jn _ _ HT e' Hin)]. }
      destruct (IH _ _ _ _ E HT1) as (I1 & I2 & I3).
      split; [|split; [rewrite I2; exact Hidx1|]].
      - cbn [spec_names]. rewrite Hem, E4. unfold seen' in I1. destruct (ex_pending e).
        + assert (existsb (N.eqb idx) seen = false) as -> by (destruct (existsb (N.eqb idx) seen); [discriminate|reflexivity]).
          cbn [map]. rewrite (t_jn _ _ HT e Hine), E2, I1. reflexivity.
        + assert (existsb (N.eqb idx) seen = true) as -> by (destruct (existsb (N.eqb idx) seen); [reflexivity|discriminate]).
          exact I1.
      - intros e2 He2. destruct (I3 e2 He2) as (e1 & G1 & G2 & G3 & G4).
        destruct (Hother e1 G1) as [->|[Hin Hne]].
        + exists e. split; [exact Hine|]. cbn [bump ex_idx ex_props ex_pending] in *. split; [exact G2|].
          assert (Hmo : member_of (ex_idx e2) f = true)
            by (unfold member_of; rewrite Hem; apply N.eqb_eq; rewrite <- G2; symmetry; exact E2).
          destruct (members_cons_yes f r _ Hmo) as [-> ->]. cbn [negb]. rewrite andb_false_r. split; [|exact G4].
          rewrite G3, map_app. cbn [map]. rewrite Hj, <- app_assoc. reflexivity.
        + exists e1. split; [exact Hin|]. split; [exact G2|].
          assert (Hmo : member_of (ex_idx e2) f = false)
            by (unfold member_of; rewrite Hem; apply N.eqb_neq; rewrite <- G2; intros Heq; apply Hne; symmetry; exact Heq).
          destruct (members_cons_no f r _ Hmo) as [-> ->]. split; assumption. }
    (* which of the two it is *)
    assert (Hsel : forall idx, f_oneof f = Some idx -> (match f_card f with CRepeated | CMap _ => False | _ => True end) ->
              (if oneof_is_synthetic m idx
               then rbind (decl_fields D m exs r) (fun '(exs2, ps) => ROk (exs2, p :: ps))
               else match add_to_exposed exs idx p with
                    | Some (exs1, pending) =>
                        rbind (decl_fields D m exs1 r) (fun '(exs2, ps) => ROk (exs2, match pending with Some pp => pp :: ps | None => ps end))
                    | None => rbind (decl_fields D m exs r) (fun '(exs2, ps) => ROk (exs2, p :: ps))
                    end) = ROk (exs2, ps) ->
              map p_json ps = spec_names seen (f :: r) /\ map ex_idx exs2 = map ex_idx exs /\
              (forall e2, In e2 exs2 -> exists e, In e exs /\ ex_idx e = ex_idx e2 /\
                 map p_json (ex_props e2) = map p_json (ex_props e) ++ map f_json (spec_members (ex_idx e2) (f :: r)) /\
                 ex_pending e2 = ex_pending e && negb (existsb (member_of (ex_idx e2)) (f :: r)))).
    { intros idx Eo Hc H'. destruct (is_exposed idx) eqn:Ex.
      - assert (Hem : exposed_member f = Some idx) by (unfold exposed_member; rewrite Eo, Ex; destruct (f_card f); try contradiction; reflexivity).
        assert (Hsyn : oneof_is_synthetic m idx = false).
        { unfold oneof_is_synthetic. unfold is_exposed, oneof_at in Ex.
          destruct (nth_error (m_oneofs m) (N.to_nat idx)) as [[? ? [|] ? ?]|]; try discriminate; reflexivity. }
        rewrite Hsyn in H'. exact (Hexp idx Hem H' Ex).
      - assert (Hem : exposed_member f = None) by (unfold exposed_member; rewrite Eo, Ex; destruct (f_card f); reflexivity).
        apply (Hdirect Hem). destruct (oneof_is_synthetic m idx); [exact H'|].
        assert (Ea : add_to_exposed exs idx p = None) by (apply add_to_exposed_none; rewrite (t_idx _ _ HT); exact Ex).
        rewrite Ea in H'. exact H'. }
    destruct (f_card f) as [| | |kk] eqn:Ec.
    + destruct (f_oneof f) as [idx|] eqn:Eo; [apply (Hsel idx eq_refl I H)|].
      apply Hdirect; [unfold exposed_member; rewrite Ec, Eo; reflexivity|exact H].
    + destruct (f_oneof f) as [idx|] eqn:Eo; [apply (Hsel idx eq_refl I H)|].
      apply Hdirect; [unfold exposed_member; rewrite Ec, Eo; reflexivity|exact H].
    + apply Hdirect; [unfold exposed_member; rewrite Ec; reflexivity|exact H].
    + apply Hdirect; [unfold exposed_member; rewrite Ec; reflexivity|exact H].
Qed.

Lemma table_ok_initial : tbl_ok [] (decl_exposed m 0 (m_oneofs m)).
Proof.
  constructor.
  - apply decl_exposed_nodup.
  - apply table_is_the_exposed.
  - intros e He. destruct (decl_exposed_spec _ _ _ He) as (j & n & jn & d & _ & _ & _ & Hp & _). rewrite Hp. reflexivity.
  - apply table_jnames.
Qed.

(* the shape of the declared properties of a message *)
Theorem decl_props_shape exs ps :
  decl_props D m = ROk (exs, ps) ->
  map p_json ps = spec_names [] (m_fields m) /\
  map ex_idx exs = map ex_idx (decl_exposed m 0 (m_oneofs m)) /\
  (forall e, In e exs ->
     is_exposed (ex_idx e) = true /\
     map p_json (ex_props e) = map f_json (spec_members (ex_idx e) (m_fields m)) /\
     spec_members (ex_idx e) (m_fields m) <> []).
Proof.
  unfold decl_props. intros H.
  destruct (decl_fields D m (decl_exposed m 0 (m_oneofs m)) (m_fields m)) as [[exs0 ps0]|] eqn:Ef; cbn [rbind] in H; [|discriminate].
  destruct (existsb ex_pending exs0) eqn:Epend; [discriminate|].
  destruct (negb (exs_names_ok exs0)); [discriminate|]. destruct (negb (props_valid ps0)); [discriminate|].
  inversion H; subst exs0 ps0. clear H.
  destruct (decl_fields_shape _ _ _ _ _ Ef table_ok_initial) as (I1 & I2 & I3).
  split; [exact I1|]. split; [exact I2|].
  intros e He. destruct (I3 e He) as (e0 & G1 & G2 & G3 & G4).
  destruct (decl_exposed_spec _ _ _ G1) as (j & n & jn & d & _ & _ & _ & Hp0 & Hpr0).
  rewrite Hpr0 in G3. cbn [map app] in G3. rewrite Hp0 in G4. cbn [andb] in G4.
  assert (Hpe : ex_pending e = false).
  { destruct (ex_pending e) eqn:E; [|reflexivity]. exfalso.
    assert (existsb ex_pending exs = true) by (apply existsb_exists; exists e; split; assumption). congruence. }
  split.
  - rewrite <- (table_is_the_exposed (ex_idx e)). apply has_idx_in. exists e0. split; [exact G1|exact G2].
  - split; [exact G3|]. rewrite Hpe in G4. symmetry in G4. apply negb_false_iff in G4.
    apply existsb_exists in G4 as (f & Hf & Hm). intros Hnil.
    assert (Hin : In f (spec_members (ex_idx e) (m_fields m))) by (unfold spec_members; apply filter_In; split; assumption).
    rewrite Hnil in Hin. destruct Hin.
Qed.

Corollary decl_root_shape r : decl_root D m = ROk r -> map p_json (root_props r) = spec_names [] (m_fields m).
Proof.
  unfold decl_root. destruct (decl_props D m) as [[exs ps]|] eqn:Ep; cbn [rbind]; [|discriminate].
  destruct (decl_props_shape _ _ Ep) as [H _].
  destruct (is_oneof_wrapper m); [intros E; inversion E; exact H|].
  destruct (find_psm D m); cbn [rbind]; [|discriminate]. intros E; inversion E; exact H.
Qed.
End Spec.

(* ---------------------------------------------------------------- the reader has that shape *)
(* under wf_keys every linked message entry of a successful reflection is the declared schema of its
   descriptor (ReflectDeclProofs.reflect_declared), hence: its property names are [spec_names], and the
   schema of each of its exposed oneofs is in the set with exactly the members as properties *)
Theorem reflected_message_shape D : wf_keys D -> forall fs S m r,
  reflect D fs = Ok S -> In m (d_msgs D) -> lookup S (msg_key m) = Some (Linked r) ->
  map p_json (root_props r) = spec_names m [] (m_fields m) /\
  forall exs ps e, decl_props D m = ROk (exs, ps) -> In e exs ->
    is_exposed m (ex_idx e) = true /\
    exists ro, lookup S (ex_key e) = Some (Linked ro) /\
               map p_json (root_props ro) = map f_json (spec_members m (ex_idx e) (m_fields m)) /\
               root_props ro <> [].
Proof.
  intros Hwf fs S m r HS Hm Hl.
  destruct (reflect_declared D Hwf fs S HS) as [_ Hmsg].
  destruct (Hmsg m r Hm Hl) as [Hr Hfin].
  split; [exact (decl_root_shape D m r Hr)|].
  intros exs ps e Hp He. destruct (decl_props_shape D m exs ps Hp) as (_ & _ & H3).
  destruct (H3 e He) as (X1 & X2 & X3). split; [exact X1|].
  exists (decl_oneof_of m e). split; [exact (Hfin exs ps e Hp He)|]. unfold decl_oneof_of. cbn [root_props].
  split; [exact X2|]. intros Hnil. apply X3. rewrite Hnil in X2. cbn [map] in X2.
  destruct (spec_members m (ex_idx e) (m_fields m)); [reflexivity|discriminate].
Qed.

(* CodecEncFuel.v — the fuel of the encoder model is an artefact that never shows: for EVERY message
   (representable or not: NaN, dates out of range, invalid UTF-8, undefined enum numbers, values of
   the wrong shape, ...) and every environment whose oneof schemas are flat, the model encoder ends
   in Ok, Err or Panic — never in OutOfFuel.  So "every successful encoding ..." (C08) quantifies
   over all terminating runs of the modelled Go code, and a failure of the model is a Go error or a
   Go panic, not an exhausted counter.  (encode_total, CodecEncTotal.v, is the stronger statement
   "Ok" for representable messages.) *)
From Coq Require Import String List Arith NArith ZArith Bool Lia.
From J5V.lib Require Import Outcome Json JsonPrint Base64 Civil.
From J5V.model Require Import CodecTypes CodecEnc CodecEncSpec.
From J5V.proofs Require Import CodecEncProofs CodecEncDecProofs CodecEncTotal CodecEncInner.
Import ListNotations.
Local Open Scope N_scope.
Arguments Nat.sub : simpl never.

Definition nf {A} (o : outcome A) : Prop := o <> OutOfFuel.

Lemma nf_ok {A} (a : A) : nf (Ok a). Proof. discriminate. Qed.
Lemma nf_err {A} s : nf (@Err A s). Proof. discriminate. Qed.
Lemma nf_panic {A} s : nf (@Panic A s). Proof. discriminate. Qed.

Lemma nf_obind {A B} (a : outcome A) (f : A -> outcome B) :
  nf a -> (forall x, a = Ok x -> nf (f x)) -> nf (obind a f).
Proof. unfold nf. destruct a; cbn [obind]; intros H1 H2; try discriminate; [apply H2; reflexivity|congruence]. Qed.

Lemma nf_omap {A B} (f : A -> B) (a : outcome A) : nf a -> nf (omap f a).
Proof. intros H. unfold omap. apply nf_obind; [exact H|intros; apply nf_ok]. Qed.

Lemma nf_sequence {A} (l : list (outcome A)) : Forall nf l -> nf (sequence l).
Proof.
  induction 1 as [|x r Hx _ IH]; cbn [sequence]; [apply nf_ok|].
  apply nf_obind; [exact Hx|intros; apply nf_omap; exact IH].
Qed.

Lemma nf_sequence_map {A B} (g : A -> outcome B) l : (forall x, In x l -> nf (g x)) -> nf (sequence (map g l)).
Proof. intros H. apply nf_sequence. apply Forall_forall. intros y Hy. apply in_map_iff in Hy as (x & <- & Hx). apply H. exact Hx. Qed.

Lemma nf_escape s : nf (escape s).
Proof. rewrite escape_spec. destruct (valid_utf8 s); [apply nf_ok|apply nf_err]. Qed.

Lemma nf_field_int n m : nf (field_int n m).
Proof. unfold field_int. destruct (msg_get n m) as [[]|]; discriminate. Qed.
Lemma nf_field_bytes n m : nf (field_bytes n m).
Proof. unfold field_bytes. destruct (msg_get n m) as [[]|]; discriminate. Qed.

Section Fuel.
  Variable fmt_float : bool -> N -> bytes.
  Variable any_inner : bytes -> bytes -> outcome bytes.
  Variable env : env.
  Hypothesis Hflat : oneofs_flat env.
  (* the inner encoding of an Any payload is itself a run that ends (true of the encoder itself: inner_nf) *)
  Hypothesis Hinner : forall tn pb, nf (any_inner tn pb).

  Notation enc_value := (enc_value fmt_float any_inner env).
  Notation enc_object := (enc_object fmt_float any_inner env).
  Notation enc_oneof := (enc_oneof fmt_float any_inner env).

  Lemma nf_enc_scalar k v : nf (enc_scalar fmt_float k v).
  Proof.
    destruct k, v; cbn [enc_scalar]; try apply nf_ok; try apply nf_panic; try apply nf_escape.
    - apply nf_obind; [apply nf_field_int|intros]. apply nf_obind; [apply nf_field_int|intros].
      apply nf_obind; [apply nf_field_int|intros]. apply nf_escape.
    - apply nf_obind; [apply nf_field_bytes|intros; apply nf_escape].
    - apply nf_obind; [apply nf_field_int|intros]. apply nf_obind; [apply nf_field_int|intros]. apply nf_escape.
  Qed.

  Lemma nf_enc_any pb m : nf (enc_any any_inner pb m).
  Proof.
    unfold enc_any. apply nf_obind; [apply nf_field_bytes|intros tn0 _].
    apply nf_obind.
    - destruct pb; [apply nf_obind; [apply nf_field_bytes|intros; apply Hinner]|].
      destruct (msg_get 3 m) as [[]|]; try (apply nf_obind; [apply nf_field_bytes|intros; apply Hinner]).
      unfold stored_json. destruct (strict_parse s); [apply nf_ok|apply nf_err].
    - intros data _. apply nf_obind; [apply nf_escape|intros]. apply nf_obind; [apply nf_escape|intros].
      apply nf_obind; [apply nf_escape|intros]. apply nf_ok.
  Qed.

  (* a property with a proto path is looked up without fuel *)
  Lemma prop_lookup_path f p m : p_path p <> [] -> prop_lookup env f p m = Ok (walk (p_path p) m).
  Proof. intros H. destruct f; cbn [prop_lookup]; destruct (p_path p); congruence. Qed.

  Lemma nf_get_one_with look ps found : (forall q, In q ps -> nf (look q)) -> nf (get_one_with look ps found).
  Proof.
    revert found. induction ps as [|q r IH]; intros found H; cbn [get_one_with]; [apply nf_ok|].
    pose proof (H q (or_introl eq_refl)) as Hq. destruct (look q) as [[v|]| | |] eqn:E; try discriminate.
    - destruct found; [apply nf_err|]. apply IH. intros; apply H; right; assumption.
    - apply IH. intros; apply H; right; assumption.
    - exfalso. apply Hq. reflexivity.
  Qed.

  Lemma nf_get_one qs m : Forall (fun p => p_path p <> []) qs -> nf (get_one env qs m).
  Proof.
    intros HF. unfold get_one. apply nf_get_one_with. intros q Hq. rewrite Forall_forall in HF.
    rewrite (prop_lookup_path _ q m (HF q Hq)). apply nf_ok.
  Qed.

  Lemma nf_prop_lookup p m : nf (prop_lookup env lookup_fuel p m).
  Proof.
    destruct (p_path p) as [|n r] eqn:E.
    - unfold lookup_fuel. rewrite prop_lookup_S, E.
      destruct (p_ty p); try apply nf_err. destruct (lookup env ref) as [[|qs|]|] eqn:El; try apply nf_panic.
      pose proof (Hflat _ _ El) as HF.
      assert (Hg : nf (get_one_with (fun q => prop_lookup env 7 q m) qs None)).
      { apply nf_get_one_with. intros q Hq. rewrite Forall_forall in HF. rewrite (prop_lookup_path _ q m (HF q Hq)). apply nf_ok. }
      destruct (get_one_with (fun q => prop_lookup env 7 q m) qs None) as [[?|]| | |]; try discriminate.
      exfalso. apply Hg. reflexivity.
    - rewrite prop_lookup_path by congruence. apply nf_ok.
  Qed.

  Definition NV (d : nat) : Prop := forall t v, (pval_depth v <= d)%nat -> forall f, (4 * d <= f)%nat -> nf (enc_value f t v).

  Lemma nf_oneof d : NV d -> forall qs m, Forall (fun p => p_path p <> []) qs ->
    (pval_depth (VMsg m) <= S d)%nat -> forall f, (4 * d + 1 <= f)%nat -> nf (enc_oneof f qs m).
  Proof.
    intros IH qs m HF Hd f Hf. destruct f as [|f]; [lia|]. rewrite enc_oneof_S.
    apply nf_obind; [apply nf_get_one; exact HF|]. intros o Ho. destruct o as [[p v]|]; [|apply nf_ok].
    apply (get_one_spec env qs m _ HF) in Ho. destruct Ho as (Hin & Hp & _).
    apply nf_obind; [apply nf_escape|intros]. apply nf_obind; [apply nf_escape|intros].
    apply nf_obind; [|intros; apply nf_ok].
    rewrite Forall_forall in HF. rewrite (prop_present_leaf env p m (HF p Hin)) in Hp.
    apply present_depth in Hp. apply IH; lia.
  Qed.

  Lemma nf_object d : NV d -> forall ps m,
    (pval_depth (VMsg m) <= S d)%nat -> forall f, (4 * d + 3 <= f)%nat -> nf (enc_object f ps m).
  Proof.
    intros IH ps m Hd f Hf. destruct f as [|f]; [lia|]. rewrite enc_object_S.
    apply nf_omap. apply nf_sequence_map. intros p _.
    apply nf_obind; [apply nf_prop_lookup|]. intros ov Hov. destruct ov as [v|]; [|apply nf_ok].
    apply nf_obind; [apply nf_escape|intros]. apply nf_omap.
    destruct (p_path p) as [|n r] eqn:E.
    - (* exposed oneof: the value is the message itself, two more steps *)
      unfold lookup_fuel in Hov. rewrite prop_lookup_S, E in Hov.
      destruct (p_ty p) as [| | |ro| | |]; try discriminate.
      destruct (lookup env ro) as [[|qs|]|] eqn:El; try discriminate.
      assert (Hv : v = VMsg m).
      { destruct (get_one_with (fun q => prop_lookup env 7 q m) qs None) as [[?|]| | |]; congruence. }
      subst v. destruct f as [|f]; [lia|]. rewrite enc_value_S, El.
      apply (nf_oneof d IH qs m (Hflat _ _ El) Hd). lia.
    - rewrite prop_lookup_path in Hov by congruence. injection Hov as Hov. rewrite walk_present in Hov.
      apply present_depth in Hov. apply IH; lia.
  Qed.

  Lemma nf_value : forall d, NV d.
  Proof.
    induction d as [|d IH]; intros t v Hd f Hf.
    - destruct v; cbn [pval_depth] in Hd; lia.
    - destruct f as [|f]; [lia|]. rewrite enc_value_S. destruct t as [k|r|r|r|it|it|pb].
      + apply nf_enc_scalar.
      + destruct (lookup env r) as [[| |pre opts]|]; try apply nf_panic. destruct v; try apply nf_panic.
        destruct (option_by_number opts n); [apply nf_escape|apply nf_err].
      + destruct (lookup env r) as [[ps| |]|]; try apply nf_panic. destruct v; try apply nf_panic.
        apply (nf_object d IH); [exact Hd|lia].
      + destruct (lookup env r) as [[|qs|]|] eqn:El; try apply nf_panic. destruct v; try apply nf_panic.
        apply (nf_oneof d IH qs fields (Hflat _ _ El) Hd). lia.
      + destruct v; try apply nf_panic. apply nf_omap. apply nf_sequence_map. intros x Hx.
        apply list_depth in Hx. apply IH; lia.
      + destruct v; try apply nf_panic. apply nf_omap. apply nf_sequence_map. intros kv Hkv.
        apply nf_obind; [apply nf_escape|intros]. apply nf_omap. apply map_depth in Hkv.
        apply IH; [apply Nat.lt_succ_r; eapply Nat.lt_le_trans; [exact Hkv|exact Hd]|lia].
      + destruct v; try apply nf_panic. apply nf_enc_any.
  Qed.

  (* Codec.encode with the fuel the model gives it *)
  Theorem encode_never_out_of_fuel root m : encode fmt_float any_inner env root m <> OutOfFuel.
  Proof.
    unfold encode, encode_fuel. set (d := pval_depth (VMsg m)).
    assert (Hd : (1 <= d)%nat) by (unfold d; cbn [pval_depth]; lia).
    destruct (lookup env root) as [[ps|qs|]|] eqn:El; try discriminate.
    - apply (nf_object (d - 1) (nf_value (d - 1))); lia.
    - apply (nf_oneof (d - 1) (nf_value (d - 1)) qs m (Hflat _ _ El)); lia.
  Qed.
End Fuel.

(* the hypothesis on any_inner holds of the encoder itself (Any values nested to any depth n) *)
Theorem inner_nf fmt_float (reg : bytes -> option (env * bytes)) (unmarshal : bytes -> bytes -> option msg) :
  (forall tn e root, reg tn = Some (e, root) -> oneofs_flat e) ->
  forall n tn pb, inner_n fmt_float reg unmarshal n tn pb <> OutOfFuel.
Proof.
  intros Hreg. induction n as [|k IH]; intros tn pb; cbn [inner_n]; [discriminate|].
  destruct (reg tn) as [[e root]|] eqn:Er; [|discriminate]. destruct (unmarshal tn pb) as [m|]; [|discriminate].
  apply (encode_never_out_of_fuel fmt_float (inner_n fmt_float reg unmarshal k) e (Hreg _ _ _ Er) IH).
Qed.

(* BclErrposTextProofs.v — rendering the text never fails either: the text is built from the result of
   the guard skeleton, which holds every operation that can panic. *)
From Coq Require Import String List NArith ZArith Bool.
From J5V.lib Require Import Text Outcome.
From J5V.model Require Import BclLexer BclErrpos BclErrposText.
From J5V.proofs Require Import BclErrposProofs.
Import ListNotations.

Lemma human_text_ok lines context d : exists t, human_text lines context d = Ok t.
Proof.
  unfold human_text. pose proof (human_string_no_panic lines context d) as H.
  destruct (human_all_ok lines context [d]) as [hs Hs]. cbn [human_all] in Hs.
  destruct (human_string lines context d) as [h| | |]; cbn in Hs; try discriminate. eexists. reflexivity.
Qed.

Theorem human_text_all_ok lines context ds : exists t, human_text_all lines context ds = Ok t.
Proof.
  induction ds as [|d r IH]; [eexists; reflexivity|]. cbn [human_text_all].
  destruct (human_text_ok lines context d) as [t Ht]. destruct r as [|d2 r2]; [exists t; exact Ht|].
  rewrite Ht. cbn [obind]. destruct IH as [ts Hts]. rewrite Hts. cbn [obind]. eexists. reflexivity.
Qed.

Theorem human_text_bytes_no_panic input context ds : is_panic (human_text_bytes input context ds) = false.
Proof.
  unfold human_text_bytes. destruct ds as [|d r]; [reflexivity|].
  destruct (human_text_all_ok (split_on 10 input) context (d :: r)) as [t Ht]. rewrite Ht. reflexivity.
Qed.

Theorem human_text_bytes_ok input context ds : exists t, human_text_bytes input context ds = Ok t.
Proof.
  unfold human_text_bytes. destruct ds as [|d r]; [eexists; reflexivity|].
  exact (human_text_all_ok (split_on 10 input) context (d :: r)).
Qed.

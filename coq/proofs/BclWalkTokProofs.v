(* BclWalkTokProofs.v — the walker on the formatter's own output, with the TOKENS: fragment i ends on the line
   before the one its closing EOL token announces (vl (Some t) = line of t + 1), and that token is the one
   at the position in the token list that the canonical stream dictates.  (walk_stream_pos with the token list.) *)
From Coq Require Import String List NArith ZArith Bool Lia ZifyN ZifyNat ZifyBool.
From J5V.lib Require Import Text Outcome.
From J5V.model Require Import BclLexer BclParser BclFmt.
From J5V.proofs Require Import BclPosProofs BclLexerProofs BclLexerCoverProofs BclParserProofs BclWalkCoverProofs
                               BclFmtLitProofs BclLexLitProofs BclFmtSeqProofs BclFragWfProofs BclFmtLineProofs
                               BclWalkBackProofs BclLineNoProofs BclDescGapProofs BclWalkPosProofs.
Import ListNotations.
Local Open Scope Z_scope.
Arguments Nat.sub : simpl never.

Fixpoint ends_rel (toks : list token) (fs : list fragment) (es : list (bool * entry)) : Prop :=
  match fs, es with
  | [], [] => True
  | f :: fr, (b, e) :: er =>
    exists c t toks', toks = c ++ t :: toks' /\
      length c = length ((if b then [eol_tok] else []) ++ entry_toks e) /\
      fst (frag_end f) + 1 = vl (Some t) /\ ends_rel toks' fr er
  | _, _ => False
  end.

Section Tok.
Variable inp : list N.

(* popping an EOL token, with the token *)
Lemma skip_eol_tok f ff s r : pt s = eol_tok :: r -> wst_ok inp s -> lst_ok s -> vst_ok s ->
  exists s1 t, pt s1 = r /\ walk_fragments_loop (S f) ff s = walk_fragments_loop f ff s1 /\
             wst_ok inp s1 /\ lst_ok s1 /\ vst_ok s1 /\ vl (wprev s1) = vl (wprev s) + 1 /\
             wrest s = t :: wrest s1 /\ wprev s1 = Some t.
Proof.
  intros Hp Hok Hls Hvs. destruct (skip_eol_loop f ff s r Hp) as (s1 & Hp1 & E).
  destruct (pt_cons s _ _ Hp) as (t & rs & Hrs0 & Et & Hrs & Epop & Hn).
  assert (Hl : wlive s) by (left; rewrite Hrs0; discriminate).
  destruct (pop_token_spec inp s Hok Hl) as (t' & s' & E' & Hst & _).
  rewrite Epop in E'. injection E' as <- <-.
  exists (mkW rs (Some t)), t. split; [rewrite pt_mk; exact Hrs|]. split.
  - cbn [walk_fragments_loop]. rewrite Hn. replace (tt_eqb (fst eol_tok) EOF) with false by reflexivity.
    unfold next_fragment. rewrite Hn. cbn [fst eol_tok]. rewrite Epop. cbn [wbind].
    destruct (walk_fragments_loop f ff (mkW rs (Some t))); reflexivity.
  - split; [apply Hst|]. split; [eapply wstep_lst; eauto|]. split; [eapply wstep_vst; eauto|].
    assert (Hty : ty t = EOL) by (unfold etok, eol_tok in Et; congruence).
    unfold vst_ok in Hvs. rewrite Hrs0 in Hvs. cbn [vchain] in Hvs. destruct Hvs as [Hv _].
    cbn [wprev wrest]. split; [|split; [exact Hrs0|reflexivity]].
    change (vl (Some t)) with (if tt_eqb (ty t) EOL then fst (tstart t) + 1 else fst (tend t)).
    rewrite Hty. change (tt_eqb EOL EOL) with true. cbn iota. rewrite Hv. reflexivity.
Qed.

Theorem walk_stream_tok : forall es fuel s, stream_ok es -> pt s = stream es ->
  wst_ok inp s -> lst_ok s -> vst_ok s -> (length (wrest s) < fuel)%nat ->
  exists fs, walk_fragments_loop fuel true s = WalkOk fs [] /\
             map fdoc_of fs = map (fun be => entry_doc (snd be)) es /\
             lines_rel (vl (wprev s)) fs es /\ ends_rel (wrest s) fs es.
Proof.
  induction es as [|[b e] r IH]; intros fuel s Hok Hp Hwok Hls Hvs Hf.
  - destruct fuel as [|f]; [lia|]. cbn [walk_fragments_loop]. cbn in Hp.
    assert (Hn : next_type s = EOF) by (rewrite next_type_pt, Hp; reflexivity).
    rewrite Hn. exists []. split; [reflexivity|]. split; [reflexivity|]. split; exact I.
  - cbn [stream_ok] in Hok. destruct Hok as (He & Hnext & Hr). cbn [stream] in Hp.
    assert (Hskip : exists fuel1 s1 cb, pt s1 = entry_toks e ++ eol_tok :: stream r /\ (length (wrest s1) < fuel1)%nat /\
                       walk_fragments_loop fuel true s = walk_fragments_loop fuel1 true s1 /\
                       wst_ok inp s1 /\ lst_ok s1 /\ vst_ok s1 /\
                       vl (wprev s1) = vl (wprev s) + (if b then 1 else 0) /\
                       wrest s = cb ++ wrest s1 /\ length cb = length (if b then [eol_tok] else [])).
    { destruct b; cbn [app] in Hp.
      - destruct fuel as [|f]; [lia|]. destruct (skip_eol_tok f true s _ Hp Hwok Hls Hvs) as (s1 & tb & Hp1 & E & A & B & C & D & Hw & _).
        exists f, s1, [tb]. split; [exact Hp1|]. split; [|split; [exact E|]].
        + rewrite <- pt_length in *. rewrite Hp in Hf. rewrite Hp1. cbn [length] in Hf. lia.
        + split; [exact A|]. split; [exact B|]. split; [exact C|]. split; [exact D|]. split; [exact Hw|reflexivity].
      - exists fuel, s, []. split; [exact Hp|]. split; [exact Hf|]. split; [reflexivity|]. split; [exact Hwok|].
        split; [exact Hls|]. split; [exact Hvs|]. split; [rewrite Z.add_0_r; reflexivity|]. split; reflexivity. }
    destruct Hskip as (fuel1 & s1 & cb & Hp1 & Hf1 & -> & Hwok1 & Hls1 & Hvs1 & HV1 & Hcb & Hcbl).
    destruct fuel1 as [|f1]; [lia|]. cbn [walk_fragments_loop].
    destruct (entry_toks_first e He) as (p & q & Hh & Hne & Hnd).
    assert (Hn : next_type s1 = fst p) by (rewrite next_type_pt, Hp1, Hh; reflexivity).
    rewrite Hn. replace (tt_eqb (fst p) EOF) with false by (symmetry; apply tt_eqb_false; exact Hne).
    assert (Hfrag : exists f s2, next_fragment s1 = WOk (Some f) s2 /\ fdoc_of f = entry_doc e /\
                      (pt s2 = stream r \/ pt s2 = eol_tok :: stream r)).
    { destruct e as [f0|ls]; cbn [entry_toks entry_ok entry_doc] in *.
      - destruct He as [Hlx Hnd0]. destruct (next_fragment_back f0 s1 (stream r) Hlx Hnd0 Hp1) as (f & s2 & E & Hd & Hp2).
        exists f, s2. auto.
      - destruct (next_fragment_desc_back ls s1 (stream r) He Hp1) as (d & s2 & E & Hdv & Hp2).
        { destruct r as [|[b2 e2] r2]; [exact I|]. cbn [stream]. cbn [stream_ok] in Hr. destruct Hr as (He2 & _ & _).
          destruct b2; [cbn; discriminate|]. cbn [app].
          destruct (entry_toks_first e2 He2) as (p2 & q2 & Hh2 & _ & Hnd2). rewrite Hh2. cbn.
          apply Hnd2. destruct (is_desc e2) eqn:Ed; [|reflexivity]. specialize (Hnext eq_refl eq_refl). discriminate. }
        exists (FDesc d), s2. split; [exact E|]. split; [cbn [fdoc_of]; rewrite Hdv; reflexivity|right; exact Hp2]. }
    destruct Hfrag as (f & s2 & E & Hd & Hp2). rewrite E.
    assert (Hr1 : wrest s1 <> []).
    { intros H0. unfold pt in Hp1. rewrite H0, Hh in Hp1. discriminate. }
    assert (Hl1 : wlive s1) by (left; exact Hr1).
    pose proof (next_fragment_spec inp s1 Hwok1 Hl1) as Hspec. rewrite E in Hspec. cbn in Hspec.
    destruct Hspec as (H12 & _ & Hlen12). specialize (Hlen12 Hr1).
    pose proof (next_fragment_line inp s1 f s2 Hwok1 Hl1 Hls1 E) as Hline.
    assert (Hstart : fst (frag_start f) = vl (wprev s) + (if b then 1 else 0)).
    { destruct (wrest s1) as [|t0 rs0] eqn:Hrs1; [congruence|].
      rewrite (next_fragment_start s1 f s2 t0 rs0 Hrs1 E). unfold vst_ok in Hvs1. rewrite Hrs1 in Hvs1.
      cbn [vchain] in Hvs1. destruct Hvs1 as [Hv _]. rewrite Hv. exact HV1. }
    destruct (after_production inp s1 s2 e (stream r) Hls1 H12 He Hp1) as [HA HB].
    assert (Hlen2 : (length (wrest s2) < f1)%nat) by lia.
    destruct (ws_cons _ _ _ H12) as (c & Hc & Hprev).
    assert (Hpt : pt s1 = map etok c ++ pt s2) by (unfold pt; rewrite Hc, map_app; reflexivity).
    assert (Hrest : exists f2 s3 c1 t, pt s3 = stream r /\ (length (wrest s3) < f2)%nat /\
                       walk_fragments_loop f1 true s2 = walk_fragments_loop f2 true s3 /\
                       wst_ok inp s3 /\ lst_ok s3 /\ vst_ok s3 /\ vl (wprev s3) = fst (frag_end f) + 1 /\
                       wrest s1 = c1 ++ t :: wrest s3 /\ length c1 = length (entry_toks e) /\ wprev s3 = Some t).
    { destruct Hp2 as [Hp2|Hp2].
      - assert (Hm : map etok c = entry_toks e ++ [eol_tok]).
        { rewrite Hp2, Hp1 in Hpt. apply (app_inv_tail (stream r)). rewrite <- Hpt, <- app_assoc. reflexivity. }
        destruct (map_etok_snoc c _ _ Hm) as (c' & u & -> & Hu).
        exists f1, s2, c', u. split; [exact Hp2|]. split; [exact Hlen2|]. split; [reflexivity|].
        split; [apply H12|]. split; [eapply wstep_lst; eauto|]. split; [eapply wstep_vst; eauto|].
        split; [rewrite (HA Hp2), Hline; reflexivity|].
        split; [rewrite Hc, <- app_assoc; reflexivity|].
        split; [|rewrite Hprev; apply last_map_some].
        rewrite map_app in Hm. cbn [map] in Hm. apply app_inj_tail in Hm. destruct Hm as [Hm _].
        rewrite <- Hm. symmetry. apply map_length.
      - assert (Hm : map etok c = entry_toks e).
        { rewrite Hp2, Hp1 in Hpt. apply (app_inv_tail (eol_tok :: stream r)). rewrite <- Hpt. reflexivity. }
        destruct f1 as [|f2]; [lia|].
        destruct (skip_eol_tok f2 true s2 _ Hp2 (ws_ok _ _ _ H12) (wstep_lst _ _ _ H12 Hls1) (wstep_vst _ _ _ H12 Hvs1))
          as (s3 & t & Hp3 & E3 & A & B & C & D & Hw3 & Hpr3).
        exists f2, s3, c, t. split; [exact Hp3|]. split; [|split; [exact E3|]].
        + rewrite <- pt_length in *. rewrite Hp2 in Hlen2. rewrite Hp3. cbn [length] in Hlen2. lia.
        + split; [exact A|]. split; [exact B|]. split; [exact C|]. split; [rewrite D, (HB Hp2), Hline; reflexivity|].
          split; [rewrite Hc, Hw3; reflexivity|]. split; [rewrite <- Hm; symmetry; apply map_length|exact Hpr3]. }
    destruct Hrest as (f2 & s3 & c1 & t & Hp3 & Hl3 & -> & Hwok3 & Hls3 & Hvs3 & HV3 & Hw13 & Hc1l & Hpr3).
    destruct (IH f2 s3 Hr Hp3 Hwok3 Hls3 Hvs3 Hl3) as (fs & Ew & Hdocs & Hlines & Hends). rewrite Ew.
    exists (f :: fs). split; [reflexivity|]. split; [cbn [map snd]; rewrite Hd, Hdocs; reflexivity|].
    split.
    + cbn [lines_rel]. split; [exact Hstart|]. rewrite <- HV3. exact Hlines.
    + cbn [ends_rel]. exists (cb ++ c1), t, (wrest s3). split; [rewrite Hcb, Hw13, <- app_assoc; reflexivity|].
      split; [rewrite !app_length, Hcbl, Hc1l; reflexivity|]. split; [rewrite <- HV3, Hpr3; reflexivity|exact Hends].
Qed.
End Tok.

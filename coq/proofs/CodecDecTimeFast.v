(* CodecDecTimeFast.v — Go's strict fast path parseRFC3339 (lib/Civil.v, parse_rfc3339, the function
   the encoder round trip is proved against) is subsumed by the model of the general layout parser
   (model/CodecDecTime.v): whatever the fast path accepts, time.Parse returns just that. *)
From Coq Require Import List Arith NArith ZArith Bool Lia ZifyN ZifyNat ZifyBool.
From J5V.lib Require Import Radix Json JsonPrint.
From J5V.lib Require Civil.
From J5V.model Require Import CodecDecTime.
From J5V.proofs Require CodecDecTime.
Import ListNotations.
Local Open Scope Z_scope.

Lemma is_digit_digv c : is_digit c = true -> digv c = Some (Z.of_N c - 48).
Proof. intros H. unfold digv. rewrite H. reflexivity. Qed.

Lemma parse_uint2 a b lo hi x r : Civil.parse_uint [a; b] lo hi = Some x ->
  take2 (a :: b :: r) = Some (x, r) /\ lo <= x <= hi.
Proof.
  unfold Civil.parse_uint, parse_N. cbn [forallb map]. rewrite andb_true_r.
  destruct (is_digit a) eqn:Ea; [|discriminate]. destruct (is_digit b) eqn:Eb; [|discriminate]. cbn [andb].
  unfold of_digits_be. cbn [fold_left].
  destruct ((lo <=? Z.of_N ((0 * 10 + (a - 48)) * 10 + (b - 48))) && (Z.of_N ((0 * 10 + (a - 48)) * 10 + (b - 48)) <=? hi)) eqn:Er; [|discriminate].
  intros H. injection H as <-. unfold take2. rewrite (is_digit_digv a Ea), (is_digit_digv b Eb).
  unfold is_digit in Ea, Eb. split; [|lia]. f_equal. f_equal. lia.
Qed.

Lemma parse_uint4 a b c d lo hi x r : Civil.parse_uint [a; b; c; d] lo hi = Some x ->
  take4 (a :: b :: c :: d :: r) = Some (x, r) /\ lo <= x <= hi.
Proof.
  unfold Civil.parse_uint, parse_N. cbn [forallb map]. rewrite andb_true_r.
  destruct (is_digit a) eqn:Ea; [|discriminate]. destruct (is_digit b) eqn:Eb; [|discriminate].
  destruct (is_digit c) eqn:Ec; [|discriminate]. destruct (is_digit d) eqn:Ed; [|discriminate]. cbn [andb].
  unfold of_digits_be. cbn [fold_left].
  match goal with |- (if ?t then _ else _) = _ -> _ => destruct t eqn:Er; [|discriminate] end.
  intros H. injection H as <-. unfold take4, take2.
  rewrite (is_digit_digv a Ea), (is_digit_digv b Eb), (is_digit_digv c Ec), (is_digit_digv d Ed).
  unfold is_digit in Ea, Eb, Ec, Ed. split; [|lia]. f_equal. f_equal. lia.
Qed.

Lemma at_is_0 c s x : Civil.at_is (c :: s) 0 x = (c =? x)%N.
Proof. reflexivity. Qed.

Lemma span_dig_take_digits s : Civil.span_dig s = take_digits s.
Proof.
  induction s as [|c r IH]; [reflexivity|]. cbn [Civil.span_dig take_digits].
  destruct (is_digit c); [|reflexivity]. rewrite IH. reflexivity.
Qed.

(* digits as N folded big-endian = digits as Z folded *)
Lemma digits_value_fold ds : forall (acc : N), forallb is_digit ds = true ->
  Z.of_N (fold_left (fun a d => (a * 10 + d)%N) (map (fun c => (c - 48)%N) ds) acc)
  = fold_left (fun a c => 10 * a + (Z.of_N c - 48)) ds (Z.of_N acc).
Proof.
  induction ds as [|c r IH]; intros acc H; [reflexivity|].
  cbn [forallb] in H. apply andb_prop in H. destruct H as [Hc Hr]. cbn [map fold_left].
  rewrite (IH _ Hr). f_equal. unfold is_digit in Hc. lia.
Qed.

Lemma forallb_firstn {A} (f : A -> bool) n : forall l, forallb f l = true -> forallb f (firstn n l) = true.
Proof.
  induction n as [|n IH]; intros l H; [reflexivity|]. destruct l as [|x l]; [reflexivity|].
  cbn [forallb] in H. apply andb_prop in H. destruct H as [Hx Hl]. cbn [firstn forallb]. rewrite Hx, (IH l Hl). reflexivity.
Qed.

Lemma nanos_of_frac_nanos ds : forallb is_digit ds = true -> Civil.nanos_of ds = frac_nanos ds.
Proof.
  intros H. unfold Civil.nanos_of, frac_nanos, digits_value, of_digits_be.
  rewrite (digits_value_fold (firstn 9 ds) 0%N (forallb_firstn is_digit 9 ds H)). reflexivity.
Qed.

(* the pattern [46 :: r] of the fast path, as a test *)
Lemma dot_match {T} (c : N) (A B : T) :
  match c with 46%N => A | _ => B end = if (c =? 46)%N then A else B.
Proof.
  destruct c as [|p]; [reflexivity|].
  do 6 (try (destruct p as [p|p|]; try reflexivity)).
Qed.

Lemma z_match {T} (c : N) (A B : T) :
  match c with 90%N => A | _ => B end = if (c =? 90)%N then A else B.
Proof.
  destruct c as [|p]; [reflexivity|].
  do 7 (try (destruct p as [p|p|]; try reflexivity)).
Qed.

Lemma parse_zone_take s off : Civil.parse_zone s = Some off -> take_zone s = Some (off, []).
Proof.
  unfold Civil.parse_zone. destruct s as [|c r]; [cbn; discriminate|].
  rewrite z_match. destruct (c =? 90)%N eqn:Ec.
  - apply N.eqb_eq in Ec. subst c. destruct r as [|x r'].
    + intros H. injection H as <-. reflexivity.
    + destruct (Nat.eqb (length (90%N :: x :: r')) 6); [|discriminate].
      destruct (Civil.parse_uint _ 0 23); [|discriminate]. destruct (Civil.parse_uint _ 0 59); [|discriminate].
      destruct (Civil.at_is _ 3 58); [|discriminate]. rewrite !at_is_0. cbn. intros H; discriminate H.
  - destruct r as [|h1 [|h2 [|col [|m1 [|m2 [|x r']]]]]]; try (cbn; discriminate).
    cbn [length Nat.eqb Civil.sub Nat.sub skipn firstn].
    change (Civil.sub [c; h1; h2; col; m1; m2] 1 3) with [h1; h2].
    change (Civil.sub [c; h1; h2; col; m1; m2] 4 6) with [m1; m2].
    destruct (Civil.parse_uint [h1; h2] 0 23) as [hr|] eqn:Eh; [|cbv iota beta; discriminate].
    destruct (Civil.parse_uint [m1; m2] 0 59) as [mm|] eqn:Em; [|cbv iota beta; discriminate].
    apply (parse_uint2 h1 h2 0 23 hr []) in Eh. destruct Eh as [Eh Hh].
    apply (parse_uint2 m1 m2 0 59 mm []) in Em. destruct Em as [Em Hm].
    unfold Civil.at_is. cbn [nth_error].
    destruct (N.eqb col 58) eqn:Ecol; [|discriminate]. apply N.eqb_eq in Ecol. subst col.
    unfold take_zone. rewrite Ec, Eh, Em. cbn [N.eqb Pos.eqb negb orb].
    replace (24 <? hr) with false by lia. replace (60 <? mm) with false by lia. cbn [orb].
    destruct (N.eqb c 45) eqn:E45.
    + apply N.eqb_eq in E45. subst c. intros H. injection H as <-. reflexivity.
    + destruct (N.eqb c 43) eqn:E43; [|discriminate]. apply N.eqb_eq in E43. subst c.
      intros H. injection H as <-. reflexivity.
Qed.

Lemma take_zone_head c r off t : take_zone (c :: r) = Some (off, t) -> c = 90%N \/ c = 43%N \/ c = 45%N.
Proof.
  unfold take_zone. destruct (c =? 90)%N eqn:E; [apply N.eqb_eq in E; auto|].
  destruct r as [|h1 [|h2 [|col [|m1 [|m2 r']]]]]; try discriminate.
  destruct (take2 [h1; h2]) as [[hr ?]|]; [|discriminate]. destruct (take2 [m1; m2]) as [[mm ?]|]; [|discriminate].
  destruct (negb (col =? 58)%N || (24 <? hr) || (60 <? mm)); [discriminate|].
  destruct (c =? 43)%N eqn:E43; [apply N.eqb_eq in E43; auto|].
  destruct (c =? 45)%N eqn:E45; [apply N.eqb_eq in E45; auto|discriminate].
Qed.

Lemma take_frac_no_sep c r : (c =? 46)%N = false -> (c =? 44)%N = false -> take_frac (c :: r) = (0, c :: r).
Proof. intros H1 H2. unfold take_frac. destruct r as [|d r']; [reflexivity|]. rewrite H1, H2. reflexivity. Qed.

Lemma take_digits_nil_head r t : take_digits r = ([], t) -> t = r /\ match r with d :: _ => is_digit d = false | [] => True end.
Proof.
  destruct r as [|d r']; cbn [take_digits]; [intros H; inversion H; auto|].
  destruct (is_digit d) eqn:E; [destruct (take_digits r'); discriminate|]. intros H. inversion H. auto.
Qed.

Theorem fast_path_extends s r : Civil.parse_rfc3339 s = Some r -> go_time_parse s = Some r.
Proof.
  unfold Civil.parse_rfc3339. destruct (Nat.ltb (length s) 19) eqn:El; [discriminate|].
  destruct s as [|y1 [|y2 [|y3 [|y4 [|c4 [|m1 [|m2 [|c7 [|d1 [|d2 [|c10 [|h1 [|h2 [|c13 [|i1 [|i2 [|c16 [|s1 [|s2 rest]]]]]]]]]]]]]]]]]]];
    try (cbn in El; discriminate).
  clear El. unfold Civil.sub.
  change (4 - 0)%nat with 4%nat. change (7 - 5)%nat with 2%nat. change (10 - 8)%nat with 2%nat.
  change (13 - 11)%nat with 2%nat. change (16 - 14)%nat with 2%nat. change (19 - 17)%nat with 2%nat.
  cbn [firstn skipn]. unfold Civil.at_is. cbn [nth_error].
  destruct (Civil.parse_uint [y1; y2; y3; y4] 0 9999) as [year|] eqn:Ey; [|discriminate].
  destruct (Civil.parse_uint [m1; m2] 1 12) as [month|] eqn:Em; [|discriminate].
  destruct (Civil.parse_uint [d1; d2] 1 (Civil.days_in month year)) as [day|] eqn:Ed; [|discriminate].
  destruct (Civil.parse_uint [h1; h2] 0 23) as [hour|] eqn:Eh; [|discriminate].
  destruct (Civil.parse_uint [i1; i2] 0 59) as [mi|] eqn:Ei; [|discriminate].
  destruct (Civil.parse_uint [s1; s2] 0 59) as [sec|] eqn:Es; [|discriminate].
  destruct (N.eqb c4 45) eqn:E4; [|discriminate]. destruct (N.eqb c7 45) eqn:E7; [|discriminate].
  destruct (N.eqb c10 84) eqn:E10; [|discriminate]. destruct (N.eqb c13 58) eqn:E13; [|discriminate].
  destruct (N.eqb c16 58) eqn:E16; [|discriminate]. cbn [andb].
  apply N.eqb_eq in E4, E7, E10, E13, E16. subst c4 c7 c10 c13 c16.
  intros H.
  (* the fraction and the zone: what the general parser does with [rest] *)
  assert (G : exists ns off, r = (Civil.days_from_civil year month day * 86400 + hour * 3600 + mi * 60 + sec - off, ns)
                             /\ exists zs, take_frac rest = (ns, zs) /\ take_zone zs = Some (off, [])).
  { destruct rest as [|c rest'].
    - cbn in H. discriminate.
    - rewrite dot_match in H. destruct (c =? 46)%N eqn:Ec.
      + apply N.eqb_eq in Ec. subst c. rewrite span_dig_take_digits in H.
        destruct (take_digits rest') as [ds t] eqn:Et. destruct ds as [|d ds].
        * destruct (Civil.parse_zone (46%N :: rest')) as [off|] eqn:Ez; [|discriminate]. injection H as <-.
          apply parse_zone_take in Ez. apply take_zone_head in Ez. destruct Ez as [Ez|[Ez|Ez]]; discriminate.
        * destruct (Civil.parse_zone t) as [off|] eqn:Ez; [|discriminate]. injection H as <-.
          exists (Civil.nanos_of (d :: ds)), off. split; [reflexivity|]. exists t. split; [|apply parse_zone_take; exact Ez].
          pose proof Et as Et'. apply J5V.proofs.CodecDecTime.take_digits_inv in Et'. destruct Et' as (Hr & Hd & _).
          destruct rest' as [|d' r'']; [discriminate|]. cbn [app] in Hr. injection Hr as Hd' Hr. subst d'.
          unfold take_frac. cbn [N.eqb Pos.eqb orb]. pose proof Hd as Hd0. cbn [forallb] in Hd. apply andb_prop in Hd.
          destruct Hd as [Hd1 _]. rewrite Hd1. cbn [andb]. rewrite Et. rewrite (nanos_of_frac_nanos _ Hd0). reflexivity.
      + destruct (Civil.parse_zone (c :: rest')) as [off|] eqn:Ez; [|discriminate]. injection H as <-.
        exists 0, off. split; [reflexivity|]. exists (c :: rest'). split; [|apply parse_zone_take; exact Ez].
        apply parse_zone_take in Ez. apply take_zone_head in Ez.
        apply take_frac_no_sep; [exact Ec|]. destruct Ez as [ -> | [ -> | -> ] ]; reflexivity. }
  destruct G as (ns & off & -> & zs & Hf & Hz).
  apply (parse_uint4 y1 y2 y3 y4 0 9999 year (45%N :: m1 :: m2 :: 45%N :: d1 :: d2 :: 84%N :: h1 :: h2 :: 58%N :: i1 :: i2 :: 58%N :: s1 :: s2 :: rest)) in Ey.
  apply (parse_uint2 m1 m2 1 12 month (45%N :: d1 :: d2 :: 84%N :: h1 :: h2 :: 58%N :: i1 :: i2 :: 58%N :: s1 :: s2 :: rest)) in Em.
  apply (parse_uint2 d1 d2 1 (Civil.days_in month year) day (84%N :: h1 :: h2 :: 58%N :: i1 :: i2 :: 58%N :: s1 :: s2 :: rest)) in Ed.
  apply (parse_uint2 h1 h2 0 23 hour (58%N :: i1 :: i2 :: 58%N :: s1 :: s2 :: rest)) in Eh.
  apply (parse_uint2 i1 i2 0 59 mi (58%N :: s1 :: s2 :: rest)) in Ei.
  apply (parse_uint2 s1 s2 0 59 sec rest) in Es.
  destruct Ey as [Ey Hy]. destruct Em as [Em Hm]. destruct Ed as [Ed Hd]. destruct Eh as [Eh Hh].
  destruct Ei as [Ei Hi]. destruct Es as [Es Hs].
  assert (Ehh : take_hour (h1 :: h2 :: 58%N :: i1 :: i2 :: 58%N :: s1 :: s2 :: rest) = Some (hour, 58%N :: i1 :: i2 :: 58%N :: s1 :: s2 :: rest)).
  { unfold take2 in Eh. unfold take_hour. destruct (digv h1) as [x|]; [|discriminate]. destruct (digv h2) as [y|]; [|discriminate]. exact Eh. }
  unfold go_time_parse. rewrite Ey. cbn [obind2 expect N.eqb Pos.eqb]. rewrite Em. cbn [obind2 expect N.eqb Pos.eqb].
  rewrite Ed. cbn [obind2 expect N.eqb Pos.eqb]. rewrite Ehh. cbn [obind2 expect N.eqb Pos.eqb].
  rewrite Ei. cbn [obind2 expect N.eqb Pos.eqb]. rewrite Es. cbn [obind2]. rewrite Hf, Hz. cbn [obind2].
  replace ((month <? 1) || (12 <? month) || (23 <? hour) || (59 <? mi) || (59 <? sec) || (day <? 1)
           || (Civil.days_in month year <? day)) with false by lia.
  reflexivity.
Qed.

(* hence a decoder-model oracle that is the model of time.Parse extends the fast path: the hypothesis
   under which the encoder round trip (proofs/CodecEncDecTie.v, orc_time_ok) is stated *)
Corollary oracle_extends_fast_path orc : J5V.proofs.CodecDecTime.time_oracle_is_model orc ->
  forall s r, Civil.parse_rfc3339 s = Some r -> J5V.model.CodecDecScalar.o_time orc s = Some r.
Proof. intros Ho s r H. rewrite Ho. apply fast_path_extends. exact H. Qed.

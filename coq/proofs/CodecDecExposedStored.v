(* CodecDecExposedStored.v — members whose property is an EXPOSED oneof (empty proto path: the arms are
   fields of the enclosing message).  The per-member clause of CodecDecDenote.denotes_msg leaves them out;
   this file closes the gap: for a property set whose exposed oneofs' arms are separate from every other
   property of the set (exposed_ok; computable: CodecDecExposedCheck.exposed_ok_b, evaluated on every real
   environment), every non-null, non-"!type" member of the body of an exposed-oneof member is stored in the
   enclosing message, at the arm's proto path, with exactly the value it denotes. *)
From Coq Require Import String List NArith ZArith Bool Lia.
From J5V.lib Require Import Outcome Json.
From J5V.model Require Import CodecTypes CodecDecScalar CodecDec CodecDecTree CodecDecExposedCheck.
From J5V.proofs Require Import CodecDecProofs CodecDecTreeProofs CodecDecTreeUnfold CodecDecTreeFuel CodecDecStored
                               CodecDecReorder CodecDecFaults CodecDecOneofReorder CodecDecDenote.
Import ListNotations.
Local Open Scope N_scope.

Section Exposed.
  Variable orc : oracles.
  Variable e : env.
  Hypothesis Hsep : forall name props,
    lookup e name = Some (SObject props) \/ lookup e name = Some (SOneof props) -> props_separate e props.

  (* the arms of an exposed oneof of the set write to places no other property of the set touches *)
  Definition exposed_ok (props : list property) : Prop :=
    forall p q2 ref ps q, In p props -> In q2 props -> bytes_eqb (p_json p) (p_json q2) = false ->
      p_path p = [] -> p_ty p = FOneof ref -> lookup e ref = Some (SOneof ps) -> In q ps -> p_path q <> [] ->
      indep_prop e (p_path q) q2.

  Definition xfresh (props : list property) (m : msg) (seen : list bytes) : Prop :=
    forall p ref ps q, In p props -> p_path p = [] -> p_ty p = FOneof ref -> lookup e ref = Some (SOneof ps) ->
      mem_bytes (p_json p) seen = false -> In q ps -> p_path q <> [] -> get_path (p_path q) m = None.

  Lemma xfresh_step props d f p key v m seen m1 seen1 :
    exposed_ok props -> find_prop props key = Some p ->
    tr_member d (tr_present orc e f (d + 1) p) p v m seen = Ok (m1, seen1) ->
    xfresh props m seen -> xfresh props m1 seen1.
  Proof.
    intros HX Hp Hm Hf. destruct (find_prop_In _ _ _ Hp) as [Hinp _].
    destruct (tr_member_inv _ _ _ _ _ _ _ _ Hm) as [(-> & -> & ->) | (Hv & Hns & Hc & Hd & ->)]; [exact Hf|].
    intros p0 ref ps q Hin0 Hp0 Ht0 Hl0 Hn0 Hq Hqp. apply mem_bytes_cons_false in Hn0. destruct Hn0 as [Hne Hn0].
    rewrite (tr_present_frame_any orc e f (d + 1) p v m m1 (p_path q)); [eapply Hf; eassumption | | exact Hc | exact Hd].
    exact (HX p0 p ref ps q Hin0 Hinp Hne Hp0 Ht0 Hl0 Hq Hqp).
  Qed.

  (* once an exposed oneof member has been decoded, later members leave its arms alone *)
  Lemma x_survive props p ref ps q d : exposed_ok props -> In p props -> p_path p = [] -> p_ty p = FOneof ref ->
    lookup e ref = Some (SOneof ps) -> In q ps -> p_path q <> [] ->
    forall ms m seen m', orun orc e d props ms m seen m' -> mem_bytes (p_json p) seen = true ->
    get_path (p_path q) m' = get_path (p_path q) m.
  Proof.
    intros HX Hin Hp Ht Hl Hq Hqp ms m seen m' R.
    induction R as [m seen | kv r m seen m1 seen1 m' (q2 & f & Eq & Em) R IH]; intros Hseen; [reflexivity|].
    destruct (find_prop_In _ _ _ Eq) as [Hinq _].
    destruct (tr_member_inv _ _ _ _ _ _ _ _ Em) as [(_ & -> & ->) | (Hv & Hns & Hc & Hd & ->)].
    - apply IH. exact Hseen.
    - rewrite IH by (cbn [mem_bytes]; rewrite Hseen; apply orb_true_r).
      eapply tr_present_frame_any; [| exact Hc | exact Hd].
      exact (HX p q2 ref ps q Hin Hinq (mem_bytes_differ _ _ _ Hseen Hns) Hp Ht Hl Hq Hqp).
  Qed.

  Lemma oneof_post_same props m found c m' : found <> [] -> oneof_post props m found c = Ok m' -> m' = m.
  Proof.
    intros Hne H. unfold oneof_post in H.
    assert (E0 : (N.of_nat (length found) =? 0) = false) by (apply N.eqb_neq; destruct found; [congruence|cbn [length]; lia]).
    rewrite E0 in H. destruct (1 <? N.of_nat (length found)); [discriminate|].
    destruct c as [c|]; [|inversion H; reflexivity].
    destruct (index0 found) as [k0| | |]; try discriminate. cbn [obind] in H.
    destruct (bytes_eqb k0 c); [inversion H; reflexivity|discriminate].
  Qed.

  (* the per-member clause of a run, without the nothing-else part *)
  Lemma orun_members n : P_at orc e n ->
    forall d props ms m seen m', props_separate e props -> small n ms ->
      orun orc e d props ms m seen m' -> fresh props m seen ->
      forall key v, In (key, v) ms -> v <> JNull ->
         exists p, find_prop props key = Some p /\
           (p_path p <> [] -> exists x, denotes orc e (p_ty p) v x /\ get_path (p_path p) m' = stored_as p x).
  Proof.
    intros HP d props ms m seen m' HS Hsm R.
    induction R as [m seen | [key0 v0] r m seen m1 seen1 m' (p & f & Ep & Em) R IH]; intros Hf key v Hin Hv; [destruct Hin|].
    cbn [fst snd] in Ep, Em.
    assert (Hsm' : small n r) by (intros kv Hkv; apply Hsm; right; exact Hkv).
    assert (Hf1 := fresh_step orc e props d f p key0 v0 m seen m1 seen1 HS Ep Em Hf).
    destruct Hin as [Heq | Hin]; [|apply IH; assumption].
    inversion Heq; subst key0 v0; clear Heq. exists p. split; [exact Ep|]. intros Hq.
    destruct (find_prop_In _ _ _ Ep) as [Hinp _].
    destruct (tr_member_inv _ _ _ _ _ _ _ _ Em) as [(Hn & _) | (_ & Hns & Hc & Hd & ->)]; [contradiction|].
    destruct (HP f (d + 1) p v m m1) as (x & Hx & Hg); try assumption.
    { apply (Hsm (key, v)). left. reflexivity. }
    { apply Hf; assumption. }
    exists x. split; [exact Hx|].
    rewrite (orun_tail_preserves orc e props p d HS Hinp Hq r m1 (p_json p :: seen) m' R (mem_bytes_self _ _)). exact Hg.
  Qed.

  Theorem exposed_members_stored props d : props_separate e props -> exposed_ok props ->
    forall ms m seen m', orun orc e d props ms m seen m' -> xfresh props m seen ->
    forall key v p ref ps, In (key, v) ms -> v <> JNull -> find_prop props key = Some p ->
      p_path p = [] -> p_ty p = FOneof ref -> lookup e ref = Some (SOneof ps) ->
      exists ms', v = JObj ms' /\
        forall k' v', In (k', v') (nontype ms') -> v' <> JNull ->
          exists q, find_prop ps k' = Some q /\
            (p_path q <> [] -> exists x, denotes orc e (p_ty q) v' x /\ get_path (p_path q) m' = stored_as q x).
  Proof.
    intros HS HX ms m seen m' R.
    induction R as [m seen | [key0 v0] r m seen m1 seen1 m' (p0 & f & Ep & Em) R IH];
      intros Hxf key v p ref ps Hin Hv Hp Hpath Hty Hl; [destruct Hin|].
    cbn [fst snd] in Ep, Em.
    assert (Hxf1 := xfresh_step props d f p0 key0 v0 m seen m1 seen1 HX Ep Em Hxf).
    destruct Hin as [Heq | Hin]; [|eapply IH; eassumption].
    inversion Heq; subst key0 v0; clear Heq. rewrite Hp in Ep. inversion Ep; subst p0; clear Ep.
    destruct (find_prop_In _ _ _ Hp) as [Hinp _].
    destruct (tr_member_inv _ _ _ _ _ _ _ _ Em) as [(Hn & _) | (_ & Hns & Hc & Hd & ->)]; [contradiction|].
    destruct f as [|f]; [discriminate|]. rewrite tr_present_S in Hd. rewrite Hty in Hd.
    destruct v as [| | | | |ms']; try discriminate. rewrite Hl, Hpath in Hd.
    exists ms'. split; [reflexivity|]. intros k' v' Hin' Hv'.
    destruct (tr_oneof_decomp orc e f _ _ _ _ _ _ _ _ Hd) as (_ & m1i & Ri & Hpost). cbn [app] in Hpost.
    assert (HSps : props_separate e ps) by (eapply Hsep; right; exact Hl).
    assert (Hfr : fresh ps m []).
    { intros q Hq Hqp _. eapply Hxf; eassumption. }
    destruct (orun_members (jsize (JObj ms')) (P_all orc e Hsep _) (d + 1) ps (nontype ms') m [] m1i HSps
                (small_nontype _ _ (small_obj_le _ _ (le_n _))) Ri Hfr k' v' Hin' Hv') as (q & Hq & Hst).
    exists q. split; [exact Hq|]. intros Hqp. destruct (Hst Hqp) as (x & Hx & Hg). exists x. split; [exact Hx|].
    assert (Hm1 : m1 = m1i).
    { apply (oneof_post_same ps m1i (map fst (nontype ms')) (last_type ms' None)); [|exact Hpost].
      destruct (nontype ms'); [destruct Hin'|discriminate]. }
    subst m1i.
    destruct (find_prop_In _ _ _ Hq) as [Hinq _].
    rewrite (x_survive props p ref ps q d HX Hinp Hpath Hty Hl Hinq Hqp r m1 (p_json p :: seen) m' R (mem_bytes_self _ _)).
    exact Hg.
  Qed.
End Exposed.

Lemma indep_prop_b_sound e p q : p <> [] -> indep_prop_b e p q = true -> indep_prop e p q.
Proof.
  intros Hp H. destruct p as [|n1 r1]; [congruence|].
  unfold indep_prop_b in H. unfold indep_prop.
  destruct (p_path q) as [|n2 r2] eqn:E2.
  - destruct (p_ty q); try exact I. destruct (lookup e ref) as [[| ps |]|]; try exact I.
    rewrite forallb_forall in H. apply Forall_forall. intros q' Hq'. specialize (H q' Hq').
    destruct (p_path q') as [|n3 r3] eqn:E3; [discriminate|]. split; [discriminate|].
    apply indep_b_sound. exact H.
  - apply indep_b_sound. exact H.
Qed.

Lemma exposed_ok_b_sound e props : exposed_ok_b e props = true -> exposed_ok e props.
Proof.
  intros H p q2 ref ps q Hin Hin2 Hne Hp Ht Hl Hq Hqp. unfold exposed_ok_b in H.
  rewrite forallb_forall in H. specialize (H p Hin). rewrite forallb_forall in H. specialize (H q2 Hin2).
  rewrite Hne, Hp, Ht, Hl in H. cbn [orb] in H. rewrite forallb_forall in H. specialize (H q Hq).
  destruct (p_path q) as [|n0 r0] eqn:E; [congruence|]. apply indep_prop_b_sound; [discriminate|exact H].
Qed.

Lemma env_exposed_ok_sound e : env_exposed_ok e = true ->
  forall name props, lookup e name = Some (SObject props) \/ lookup e name = Some (SOneof props) -> exposed_ok e props.
Proof.
  intros H name props Hl. unfold env_exposed_ok in H. rewrite forallb_forall in H.
  destruct Hl as [Hl | Hl]; destruct (lookup_In e _ _ Hl) as (n & Hin); specialize (H _ Hin); cbn [snd] in H;
    apply exposed_ok_b_sound; exact H.
Qed.

(* document level: an accepted object root *)
Theorem exposed_members_of_document orc e root props fuel ms m' :
  env_separate e = true -> env_exposed_ok e = true ->
  lookup e root = Some (SObject props) -> tr_decode orc e fuel root (JObj ms) = Ok m' ->
  forall key v p ref ps, In (key, v) ms -> v <> JNull -> find_prop props key = Some p ->
    p_path p = [] -> p_ty p = FOneof ref -> lookup e ref = Some (SOneof ps) ->
    exists ms', v = JObj ms' /\
      forall k' v', In (k', v') (nontype ms') -> v' <> JNull ->
        exists q, find_prop ps k' = Some q /\
          (p_path q <> [] -> exists x, denotes orc e (p_ty q) v' x /\ get_path (p_path q) m' = stored_as q x).
Proof.
  intros Hs Hx Hl H. unfold tr_decode in H. rewrite Hl in H.
  assert (Hsep : forall name props0, lookup e name = Some (SObject props0) \/ lookup e name = Some (SOneof props0) -> props_separate e props0).
  { intros name props0 Hl0. unfold env_separate in Hs. rewrite forallb_forall in Hs.
    destruct Hl0 as [Hl0 | Hl0]; destruct (lookup_In e _ _ Hl0) as (n & Hin); specialize (Hs _ Hin); cbn [snd] in Hs;
      apply props_separate_b_sound; exact Hs. }
  apply orun_of_tr_object in H.
  apply (exposed_members_stored orc e Hsep props 0 (Hsep root props (or_introl Hl))
           (env_exposed_ok_sound e Hx root props (or_introl Hl)) ms [] [] m' H).
  intros p0 ref0 ps0 q _ _ _ _ _ _ _. apply get_path_nil.
Qed.

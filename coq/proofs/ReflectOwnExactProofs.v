(* ReflectOwnExactProofs.v — under wf_keys (distinct split names) the ownership check of ReflectOwn.v never
   fires: the reader as the code is (o_reflect / o_cache_schema, /repo 0e6056c) returns EXACTLY what the
   reader without owners returns, on every cache state whose owners are the descriptors of their names
   ([OwnI]; true of the empty cache and preserved by every call).  Hence every theorem stated for
   reflect / cache_schema under wf_keys (cache transparency, order independence, "succeeds iff") holds
   verbatim of the model of the code. *)
From Coq Require Import String List NArith ZArith Bool Lia.
From J5V.lib Require Import Outcome.
From J5V.model Require Import ReflectDesc ReflectSchema Reflect ReflectOwn.
From Coq Require Import Permutation.
From J5V.proofs Require Import ReflectProofs ReflectInvProofs ReflectPathProofs ReflectDeclProofs ReflectClassProofs ReflectOrderProofs ReflectOwnProofs.
Import ListNotations.

Lemma join_us_cons x y l : join_us (x :: y :: l) = x ++ 95%N :: join_us (y :: l).
Proof. reflexivity. Qed.
Lemma join_us_last_inj p a b : join_us (p ++ [a]) = join_us (p ++ [b]) -> a = b.
Proof.
  induction p as [|x r IH]; [cbn; intros H; exact H|].
  destruct r as [|y l].
  - cbn [app]. rewrite !join_us_cons. intros H. apply app_inv_head in H. inversion H. reflexivity.
  - change ((x :: y :: l) ++ [a]) with (x :: y :: (l ++ [a])). change ((x :: y :: l) ++ [b]) with (x :: y :: (l ++ [b])).
    rewrite !join_us_cons. intros H. apply app_inv_head in H. inversion H as [H1]. apply IH. exact H1.
Qed.

Section Exact.
Variable D : desc.
Hypothesis Hwf : wf_keys D.

Definition owner_ok (k : ref) (o : str) : Prop :=
  (exists m, In m (d_msgs D) /\ msg_key m = k /\ m_full m = o) \/
  (exists e, In e (d_enums D) /\ enum_key e = k /\ e_full e = o) \/
  (exists m name j x d, In m (d_msgs D) /\ In (Oneof name j false x d) (m_oneofs m) /\
                        oneof_key m name = k /\ oneof_full m name = o).
Definition OwnI (ow : owners) : Prop := forall k o, owner ow k = Some o -> owner_ok k o.

Lemma OwnI_nil : OwnI [].
Proof. intros k o H. discriminate. Qed.

Lemma enum_key_inj e1 e2 : In e1 (d_enums D) -> In e2 (d_enums D) -> enum_key e1 = enum_key e2 -> e1 = e2.
Proof.
  intros H1 H2 He. pose proof (proj2 Hwf) as Hnd. unfold all_keys in Hnd. apply NoDup_app_r in Hnd. apply NoDup_app_l in Hnd.
  eapply NoDup_map_inj; eauto.
Qed.

Lemma claim_ok ow k full :
  OwnI ow -> owner_ok k full -> (forall o, owner_ok k o -> o = full) ->
  exists ow1, claim ow k full = Some ow1 /\ OwnI ow1.
Proof.
  intros HI Hok Huniq. unfold claim. destruct (owner ow k) as [o|] eqn:Eo.
  - rewrite (Huniq o (HI k o Eo)), str_eqb_refl. eauto.
  - eexists. split; [reflexivity|]. intros k' o' H. cbn [owner] in H.
    destruct (ref_eqb k k') eqn:E; [|apply HI; exact H].
    apply ref_eqb_eq in E. subst k'. inversion H; subst o'. exact Hok.
Qed.

Lemma claim_msg ow m : OwnI ow -> In m (d_msgs D) -> exists ow1, claim ow (msg_key m) (m_full m) = Some ow1 /\ OwnI ow1.
Proof.
  intros HI Hm. apply claim_ok; [exact HI|left; exists m; auto|].
  intros o [(m' & Hm' & Hk & Ho)|[(e & He & Hk & Ho)|(m' & name & j & x & d & Hm' & Hin & Hk & Ho)]].
  - assert (m' = m) by (apply (K1 D Hwf); assumption). subst m'. symmetry. exact Ho.
  - exfalso. exact (K3 D Hwf m e Hm He Hk).
  - exfalso. apply (K2 D Hwf m m' Hm Hm'). rewrite <- Hk. eapply exposed_key_intro; eauto.
Qed.

Lemma claim_enum ow e : OwnI ow -> In e (d_enums D) -> exists ow1, claim ow (enum_key e) (e_full e) = Some ow1 /\ OwnI ow1.
Proof.
  intros HI He. apply claim_ok; [exact HI|right; left; exists e; auto|].
  intros o [(m' & Hm' & Hk & Ho)|[(e' & He' & Hk & Ho)|(m' & name & j & x & d & Hm' & Hin & Hk & Ho)]].
  - exfalso. symmetry in Hk. exact (K3 D Hwf m' e Hm' He Hk).
  - assert (e' = e) by (apply enum_key_inj; assumption). subst e'. symmetry. exact Ho.
  - exfalso. apply (K5 D Hwf e m' He Hm'). rewrite <- Hk. eapply exposed_key_intro; eauto.
Qed.

Lemma claim_oneof ow m name j x d :
  OwnI ow -> In m (d_msgs D) -> In (Oneof name j false x d) (m_oneofs m) ->
  exists ow1, claim ow (oneof_key m name) (oneof_full m name) = Some ow1 /\ OwnI ow1.
Proof.
  intros HI Hm Hin. apply claim_ok; [exact HI|right; right; exists m, name, j, x, d; auto|].
  intros o [(m' & Hm' & Hk & Ho)|[(e & He & Hk & Ho)|(m' & name' & j' & x' & d' & Hm' & Hin' & Hk & Ho)]].
  - exfalso. apply (K2 D Hwf m' m Hm' Hm). rewrite Hk. eapply exposed_key_intro; eauto.
  - exfalso. apply (K5 D Hwf e m He Hm). rewrite Hk. eapply exposed_key_intro; eauto.
  - assert (m' = m).
    { apply (K4 D Hwf m' m (oneof_key m name) Hm' Hm); [rewrite <- Hk|]; eapply exposed_key_intro; eauto. }
    subst m'. unfold oneof_key in Hk. inversion Hk as [Hj]. apply join_us_last_inj in Hj. subst name'. symmetry. exact Ho.
Qed.

(* ---------------------------------------------------------------- exact simulation *)
Definition ex2 {T' T} (er : T' -> T) (ow_of : T' -> owners) (o : outcome T') (f : outcome T) : Prop :=
  omap er o = f /\ match o with Ok x => OwnI (ow_of x) | _ => True end.

Lemma ex2_bind {T' T U' U} (er : T' -> T) (erb : U' -> U) (ow_of : T' -> owners) (ow_of2 : U' -> owners) o f g h :
  ex2 er ow_of o f -> (forall a, OwnI (ow_of a) -> ex2 erb ow_of2 (g a) (h (er a))) -> ex2 erb ow_of2 (obind o g) (obind f h).
Proof.
  intros [Heq HI] Hg. subst f. destruct o; cbn; [apply Hg; exact HI|split; [reflexivity|exact I]..].
Qed.
Lemma ex2_bind_pure {A U' U} (erb : U' -> U) (ow_of2 : U' -> owners) (o : outcome A) g h :
  (forall a, ex2 erb ow_of2 (g a) (h a)) -> ex2 erb ow_of2 (obind o g) (obind o h).
Proof. intros Hg. destruct o; cbn; [apply Hg|split; [reflexivity|exact I]..]. Qed.

Definition ow2 {A} (x : ost * A) : owners := snd (fst x).
Definition ow3 {A B} (x : ost * A * B) : owners := snd (fst (fst x)).

Lemma o_enum_ref_exact s e : OwnI (snd s) -> In e (d_enums D) -> ex2 fst snd (o_enum_ref s e) (enum_ref (fst s) e).
Proof.
  intros HI He. unfold o_enum_ref. destruct (claim_enum (snd s) e HI He) as (ow1 & -> & HI1).
  destruct (enum_ref (fst s) e); cbn; split; try reflexivity; try exact I. exact HI1.
Qed.

Lemma o_build_enum_field_exact s f x :
  OwnI (snd s) -> ex2 er2 ow2 (o_build_enum_field D s f x) (build_enum_field D (fst s) f x).
Proof.
  intros HI. unfold o_build_enum_field, build_enum_field.
  destruct (f_ty f) as [|full|full]; try (split; [reflexivity|exact I]).
  destruct (find_enum D full) as [e|] eqn:Ef; [|split; [reflexivity|exact I]].
  assert (He : In e (d_enums D)) by (eapply find_enum_In; eauto).
  eapply (ex2_bind fst er2 snd ow2); [apply o_enum_ref_exact; assumption|].
  intros s1 HI1. apply ex2_bind_pure. intros rules. split; [reflexivity|exact HI1].
Qed.

Section Step.
Variable orec : ost -> msgd -> outcome (ost * root).
Variable rec : sset -> msgd -> outcome (sset * root).
Hypothesis Hrec : forall s m, OwnI (snd s) -> In m (d_msgs D) -> ex2 er2 ow2 (orec s m) (rec (fst s) m).

Lemma o_build_message_field_exact s f x :
  OwnI (snd s) -> ex2 er2 ow2 (o_build_message_field D orec s f x) (build_message_field D rec (fst s) f x).
Proof.
  intros HI. unfold o_build_message_field, build_message_field.
  destruct (f_ty f) as [|full|full]; try (split; [reflexivity|exact I]).
  apply ex2_bind_pure. intros w. destruct w as [sc|]; [split; [reflexivity|exact HI]|].
  destruct (has_prefix s_google_protobuf full); [split; [reflexivity|exact I]|].
  destruct (find_msg D full) as [m|] eqn:Ef; [|split; [reflexivity|exact I]].
  assert (Hm : In m (d_msgs D)) by (eapply find_msg_In; eauto).
  destruct (claim_msg (snd s) m HI Hm) as (ow1 & -> & HI1).
  eapply (ex2_bind fst er2 snd ow2).
  - destruct (lookup (fst s) (msg_key m)) as [e|].
    + destruct (is_enum_entry e); [split; [reflexivity|exact I]|split; [reflexivity|exact HI1]].
    + eapply (ex2_bind er2 fst ow2 snd); [apply (Hrec ((msg_key m, Placeholder) :: fst s, ow1) m HI1 Hm)|].
      intros [s1 r] H1. split; [reflexivity|exact H1].
  - intros s2 H2. split; [reflexivity|exact H2].
Qed.

Lemma o_build_schema_exact s f x :
  OwnI (snd s) -> ex2 er2 ow2 (o_build_schema D orec s f x) (build_schema D rec (fst s) f x).
Proof.
  intros HI. unfold o_build_schema, build_schema.
  destruct (f_kind f); try (apply ex2_bind_pure; intros p; split; [reflexivity|exact HI]);
    [apply o_build_enum_field_exact; exact HI|apply o_build_message_field_exact; exact HI].
Qed.

Lemma o_build_field_prop_exact s f :
  OwnI (snd s) -> ex2 er2 ow2 (o_build_field_prop D orec s f) (build_field_prop D rec (fst s) f).
Proof.
  intros HI. unfold o_build_field_prop, build_field_prop.
  destruct (f_card f) as [| | |kk].
  - eapply (ex2_bind er2 er2 ow2 ow2); [apply o_build_schema_exact; exact HI|]. intros [s1 sc] H1. split; [reflexivity|exact H1].
  - eapply (ex2_bind er2 er2 ow2 ow2); [apply o_build_schema_exact; exact HI|]. intros [s1 sc] H1. split; [reflexivity|exact H1].
  - destruct (match x_vty (field_exts f) with VRepeated mn mx un it => (Some (mn, mx, un), it) | _ => (None, None) end) as [rules items].
    eapply (ex2_bind er2 er2 ow2 ow2); [apply o_build_schema_exact; exact HI|]. intros [s1 sc] H1. split; [reflexivity|exact H1].
  - destruct (negb (kind_eqb kk KString)); [split; [reflexivity|exact I]|].
    destruct (match x_vty (field_exts f) with VMap mn mx vs => (Some (mn, mx), vs) | _ => (None, None) end) as [rules values].
    eapply (ex2_bind er2 er2 ow2 ow2); [apply o_build_schema_exact; exact HI|]. intros [s1 sc] H1. split; [reflexivity|exact H1].
Qed.

Lemma o_fields_loop_exact m : forall fs s exs,
  OwnI (snd s) -> ex2 er3 ow3 (o_fields_loop D orec m s exs fs) (fields_loop D rec m (fst s) exs fs).
Proof.
  induction fs as [|f r IH]; intros s exs HI; cbn [o_fields_loop fields_loop]; [split; [reflexivity|exact HI]|].
  eapply (ex2_bind er2 er3 ow2 ow3); [apply o_build_field_prop_exact; exact HI|].
  intros [s1 p] H1. cbn [er2 fst snd]. unfold ow2 in H1. cbn [fst snd] in H1.
  assert (Hdirect : ex2 er3 ow3 (obind (o_fields_loop D orec m s1 exs r) (fun '(s2, exs2, ps) => Ok (s2, exs2, p :: ps)))
                            (obind (fields_loop D rec m (fst s1) exs r) (fun '(st2, exs2, ps) => Ok (st2, exs2, p :: ps)))).
  { eapply (ex2_bind er3 er3 ow3 ow3); [apply IH; exact H1|]. intros [[s2 exs2] ps] H2. split; [reflexivity|exact H2]. }
  destruct (f_card f); try exact Hdirect;
    (destruct (f_oneof f) as [idx|]; [|exact Hdirect];
     destruct (oneof_is_synthetic m idx); [exact Hdirect|];
     destruct (add_to_exposed exs idx p) as [[exs1 pending]|]; [|exact Hdirect];
     eapply (ex2_bind er3 er3 ow3 ow3); [apply IH; exact H1|]; intros [[s2 exs2] ps] H2; split; [reflexivity|exact H2]).
Qed.
End Step.

Lemma o_register_oneofs_exact m : In m (d_msgs D) -> forall os s idx,
  (forall o, In o os -> In o (m_oneofs m)) -> OwnI (snd s) ->
  match o_register_oneofs m s idx os with
  | ROk (s1, exs) => register_oneofs m (fst s) idx os = ROk (fst s1, exs) /\ OwnI (snd s1)
  | RErr c => register_oneofs m (fst s) idx os = RErr c
  end.
Proof.
  intros Hm. induction os as [|[name jname syn ext d] r IH]; intros s idx Hsub HI; cbn [o_register_oneofs register_oneofs]; [split; [reflexivity|exact HI]|].
  assert (Hr : forall o, In o r -> In o (m_oneofs m)) by (intros o Ho; apply Hsub; right; exact Ho).
  destruct syn; [apply IH; assumption|]. destruct ext as [[|]|]; try (apply IH; assumption).
  destruct (claim_oneof (snd s) m name jname (Some true) d HI Hm (Hsub _ (or_introl eq_refl))) as (ow1 & -> & HI1).
  destruct (lookup (fst s) (oneof_key m name)); [reflexivity|].
  pose proof (IH ((oneof_key m name, Linked (ROneof (snd (oneof_key m name)) d [])) :: fst s, ow1) (N.succ idx) Hr HI1) as H.
  destruct (o_register_oneofs m ((oneof_key m name, Linked (ROneof (snd (oneof_key m name)) d [])) :: fst s, ow1) (N.succ idx) r)
    as [[s2 exs]|c]; cbn [rbind].
  - cbn [fst] in H. destruct H as [H1 H2]. rewrite H1. split; [reflexivity|exact H2].
  - cbn [fst] in H. rewrite H. reflexivity.
Qed.

Section Step2.
Variable orec : ost -> msgd -> outcome (ost * root).
Variable rec : sset -> msgd -> outcome (sset * root).
Hypothesis Hrec : forall s m, OwnI (snd s) -> In m (d_msgs D) -> ex2 er2 ow2 (orec s m) (rec (fst s) m).

Lemma o_message_properties_exact s m :
  OwnI (snd s) -> In m (d_msgs D) -> ex2 er2 ow2 (o_message_properties D orec s m) (message_properties D rec (fst s) m).
Proof.
  intros HI Hm. unfold o_message_properties, message_properties.
  pose proof (o_register_oneofs_exact m Hm (m_oneofs m) s 0%N (fun o H => H) HI) as Hreg.
  destruct (o_register_oneofs m s 0 (m_oneofs m)) as [[s1 exs]|c]; cbn [lift obind].
  - destruct Hreg as [Hreg HI1]. rewrite Hreg. cbn [lift obind].
    eapply (ex2_bind er3 er2 ow3 ow2); [apply (o_fields_loop_exact orec rec Hrec); exact HI1|].
    intros [[s2 exs2] ps] H2. cbn [er3 fst snd]. unfold ow3 in H2. cbn [fst snd] in H2.
    destruct (existsb ex_pending exs2); [split; [reflexivity|exact I]|].
    destruct (negb (exs_names_ok exs2)); [split; [reflexivity|exact I]|]. split; [reflexivity|exact H2].
  - rewrite Hreg. cbn [lift obind]. split; [reflexivity|exact I].
Qed.

Lemma o_build_root_exact s m :
  OwnI (snd s) -> In m (d_msgs D) -> ex2 er2 ow2 (o_build_root D orec s m) (build_root D rec (fst s) m).
Proof.
  intros HI Hm. unfold o_build_root, build_root.
  eapply (ex2_bind er2 er2 ow2 ow2); [apply o_message_properties_exact; assumption|].
  intros [s1 ps] H1. cbn [er2 fst snd]. unfold ow2 in H1. cbn [fst snd] in H1.
  destruct (negb (props_valid ps)); [split; [reflexivity|exact I]|].
  destruct (is_oneof_wrapper m); [split; [reflexivity|exact H1]|].
  destruct (flatten_cycle (fst s1) (msg_key m) ps) as [[|]|]; try (split; [reflexivity|exact I]).
  apply ex2_bind_pure. intros entity. split; [reflexivity|exact H1].
Qed.
End Step2.

Lemma o_build_msg_exact : forall fuel s m,
  OwnI (snd s) -> In m (d_msgs D) -> ex2 er2 ow2 (o_build_msg D fuel s m) (build_msg D fuel (fst s) m).
Proof.
  induction fuel as [|fuel IH]; intros s m HI Hm; cbn [o_build_msg build_msg]; [split; [reflexivity|exact I]|].
  apply o_build_root_exact; [exact IH|exact HI|exact Hm].
Qed.

Lemma o_message_schema_exact fuel s m :
  OwnI (snd s) -> In m (d_msgs D) -> ex2 er2 ow2 (o_message_schema D fuel s m) (message_schema D fuel (fst s) m).
Proof.
  intros HI Hm. unfold o_message_schema, message_schema.
  destruct (claim_msg (snd s) m HI Hm) as (ow1 & -> & HI1).
  destruct (lookup (fst s) (msg_key m)) as [[|r]|]; [split; [reflexivity|exact I]|split; [reflexivity|exact HI1]|].
  eapply (ex2_bind er2 er2 ow2 ow2); [apply (o_build_msg_exact fuel ((msg_key m, Placeholder) :: fst s, ow1) m HI1 Hm)|].
  intros [s1 r] H1. split; [reflexivity|exact H1].
Qed.

(* SchemaCache.Schema: answer, schema set and owner invariant *)
Theorem o_cache_schema_exact fuel s m :
  OwnI (snd s) -> In m (d_msgs D) ->
  (fst (fst (o_cache_schema D fuel s m)), snd (o_cache_schema D fuel s m)) = cache_schema D fuel (fst s) m /\
  OwnI (snd (fst (o_cache_schema D fuel s m))).
Proof.
  intros HI Hm. unfold o_cache_schema, cache_schema.
  destruct (o_message_schema_exact fuel s m HI Hm) as [Heq HI1]. rewrite <- Heq.
  destruct (o_message_schema D fuel s m) as [[s1 r]|c| |]; cbn; (split; [reflexivity|]); try exact HI. exact HI1.
Qed.

Lemma o_messages_loop_exact fuel : forall ms s,
  OwnI (snd s) -> ex2 fst snd (o_messages_loop D fuel s ms) (messages_loop D fuel (fst s) ms).
Proof.
  induction ms as [|full r IH]; intros s HI; cbn [o_messages_loop messages_loop]; [split; [reflexivity|exact HI]|].
  destruct (find_msg D full) as [m|] eqn:Ef; [|split; [reflexivity|exact I]].
  assert (Hm : In m (d_msgs D)) by (eapply find_msg_In; eauto).
  eapply (ex2_bind er2 fst ow2 snd); [apply o_message_schema_exact; assumption|]. intros [s1 x] H1. apply IH. exact H1.
Qed.

Lemma o_enums_loop_exact : forall es s,
  OwnI (snd s) -> ex2 fst snd (o_enums_loop D s es) (enums_loop D (fst s) es).
Proof.
  induction es as [|full r IH]; intros s HI; cbn [o_enums_loop enums_loop]; [split; [reflexivity|exact HI]|].
  destruct (find_enum D full) as [e|] eqn:Ef; [|split; [reflexivity|exact I]].
  assert (He : In e (d_enums D)) by (eapply find_enum_In; eauto).
  destruct (claim_enum (snd s) e HI He) as (ow1 & -> & HI1).
  destruct (lookup (fst s) (enum_key e)); [apply (IH (fst s, ow1)); exact HI1|].
  apply ex2_bind_pure. intros root. apply (IH ((enum_key e, Linked root) :: fst s, ow1)). exact HI1.
Qed.

(* SchemaSetFromFiles: with distinct split names the reader as the code is returns exactly what the reader
   without owners returns *)
Theorem o_reflect_exact fs : omap fst (o_reflect D fs) = reflect D fs.
Proof.
  unfold o_reflect, reflect, o_reflect_files, reflect_files. destruct (collect fs) as [ms es].
  refine (proj1 (ex2_bind fst fst snd snd _ _ _ _ (o_messages_loop_exact (size D) ms ([], []) OwnI_nil) _)).
  intros s HI. apply o_enums_loop_exact. exact HI.
Qed.
End Exact.

(* ---------------------------------------------------------------- the theorems about the erased model, for the model of the code *)
(* the cache states (schema set AND owners) any history of SchemaCache.Schema calls can reach *)
Inductive o_cache_reach (D : desc) : ost -> Prop :=
| o_reach_new : o_cache_reach D ([], [])
| o_reach_call s m : o_cache_reach D s -> In m (d_msgs D) -> o_cache_reach D (fst (o_cache_schema D (size D) s m)).

Lemma o_cache_reach_erased D : wf_keys D -> forall s, o_cache_reach D s -> cache_reach D (fst s) /\ OwnI D (snd s).
Proof.
  intros Hwf s H. induction H as [|s m Hs [IH1 IH2] Hm].
  - split; [apply reach_new|apply OwnI_nil].
  - destruct (o_cache_schema_exact D Hwf (size D) s m IH2 Hm) as [Heq HI]. split; [|exact HI].
    assert (E : fst (fst (o_cache_schema D (size D) s m)) = fst (cache_schema D (size D) (fst s) m)) by (rewrite <- Heq; reflexivity).
    rewrite E. apply reach_call; assumption.
Qed.

(* cache transparency of the cache AS THE CODE IS (wf_keys): after any history the cache answers a message
   with the schema r exactly when a fresh cache does *)
Theorem o_cache_transparent D : wf_keys D -> forall s m r,
  o_cache_reach D s -> In m (d_msgs D) ->
  (snd (o_cache_schema D (size D) s m) = Ok r <-> snd (o_cache_schema D (size D) ([], []) m) = Ok r).
Proof.
  intros Hwf s m r Hs Hm. destruct (o_cache_reach_erased D Hwf s Hs) as [Hr HI].
  destruct (o_cache_schema_exact D Hwf (size D) s m HI Hm) as [E1 _].
  destruct (o_cache_schema_exact D Hwf (size D) ([], []) m (OwnI_nil D) Hm) as [E2 _].
  assert (A1 : snd (o_cache_schema D (size D) s m) = snd (cache_schema D (size D) (fst s) m)) by (rewrite <- E1; reflexivity).
  cbn [fst] in E2.
  assert (A2 : snd (o_cache_schema D (size D) ([], []) m) = snd (cache_schema D (size D) [] m)) by (rewrite <- E2; reflexivity).
  rewrite A1, A2. apply (cache_transparent D Hwf (fst s) m r Hr Hm).
Qed.

(* SchemaSetFromFiles as the code is: succeeds exactly when the reader without owners does, with the same set;
   hence "succeeds iff every selected message builds on its own" and file-order independence carry over *)
Theorem o_reflect_ok_iff D : wf_keys D -> forall fs S,
  (exists ow, o_reflect D fs = Ok (S, ow)) <-> reflect D fs = Ok S.
Proof.
  intros Hwf fs S. pose proof (o_reflect_exact D Hwf fs) as E. split.
  - intros [ow H]. rewrite H in E. cbn in E. symmetry. exact E.
  - intros H. rewrite H in E. destruct (o_reflect D fs) as [[S' ow]| | |]; cbn in E; try discriminate.
    inversion E; subst S'. exists ow. reflexivity.
Qed.

Theorem o_reflect_file_order_independent D : wf_keys D -> forall fs fs',
  Permutation fs fs' ->
  ((exists S ow, o_reflect D fs = Ok (S, ow)) <-> (exists S' ow', o_reflect D fs' = Ok (S', ow'))).
Proof.
  intros Hwf fs fs' Hp. pose proof (reflect_file_order_independent D Hwf fs fs' Hp) as H.
  split; intros (S & ow & HS).
  - destruct (proj1 H (ex_intro _ S (proj1 (o_reflect_ok_iff D Hwf fs S) (ex_intro _ ow HS)))) as [S' HS'].
    destruct (proj2 (o_reflect_ok_iff D Hwf fs' S') HS') as [ow' H']. eauto.
  - destruct (proj2 H (ex_intro _ S (proj1 (o_reflect_ok_iff D Hwf fs' S) (ex_intro _ ow HS)))) as [S' HS'].
    destruct (proj2 (o_reflect_ok_iff D Hwf fs S') HS') as [ow' H']. eauto.
Qed.

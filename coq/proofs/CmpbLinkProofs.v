(* CmpbLinkProofs.v — C07's "is accepted and links" over a model of the link step.  The link phase is the
   cmpa family's (model/J5sConvert.v compile_package: convert every file of the package, the linker's symbol
   table, link_files = resolve every type name of every message / method, link of the imported generated files;
   model/J5sLink.v, J5sSymbols.v; read-only here).  What a successful CompilePackage of that model consists of,
   and that a valid bundle (C02's validity, = the language of harness/j5sgen) gets there. *)
From Coq Require Import String List NArith Bool.
From J5V.lib Require Import Outcome Strcase.
From J5V.model Require Import J5sAst J5sWalk J5sConvert J5sLink J5sValid J5sCorr.
From J5V.proofs Require Import J5sTotalProofs J5sCompileProofs.
Import ListNotations.

(* a package that compiles has converted, has no symbol defined twice, and every file of it links *)
Lemma compile_ok_links bd pkg D : compile bd pkg = Ok D ->
  exists fs, convert_package to_snake to_camel to_screaming_snake bd pkg = Ok fs
             /\ nodup_str (package_symbols bd pkg fs) = true
             /\ link_files fs = Ok D.
Proof.
  unfold compile, compile_package.
  destruct (convert_package to_snake to_camel to_screaming_snake bd pkg) as [fs| | |] eqn:Ec; try discriminate. cbn [obind].
  destruct (nodup_str (package_symbols bd pkg fs)) eqn:Es; [|discriminate]. cbn [negb].
  destruct (link_files fs) as [linked| | |] eqn:El; try discriminate. cbn [obind].
  match goal with |- context [obind ?m _] => destruct m as [u| | |]; try discriminate end. cbn [obind].
  intro H. injection H as <-. exists fs. split; [reflexivity|]. split; [exact Es|exact El].
Qed.

(* every package of a valid bundle is accepted AND links *)
Theorem valid_bundle_accepted_and_links bd pkg :
  valid bd = true -> (exists f, In f bd /\ bfile_pkg f = pkg) ->
  exists fs D, convert_package to_snake to_camel to_screaming_snake bd pkg = Ok fs
               /\ nodup_str (package_symbols bd pkg fs) = true
               /\ link_files fs = Ok D
               /\ compile bd pkg = Ok D.
Proof.
  intros Hv Hex. destruct (compile_total to_snake to_camel to_screaming_snake bd pkg Hv Hex) as [D HD].
  destruct (compile_ok_links bd pkg D HD) as (fs & H1 & H2 & H3). exists fs, D. repeat split; assumption.
Qed.

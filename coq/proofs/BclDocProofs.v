(* BclDocProofs.v — bridges between the declarative document of model/BclDoc.v (doc_of, desc_doc,
   stmt_doc) and the position-free views the C09 proofs work with (fdoc_of / paras of BclWalkBackProofs,
   BclReflowProofs), and the assembly of the file-level C09 theorems from them. *)
From Coq Require Import String List NArith ZArith Bool.
From J5V.lib Require Import Text Outcome.
From J5V.model Require Import BclLexer BclParser BclFmt.
From J5V.proofs Require Import BclPosProofs BclLexerProofs BclParserProofs BclFmtProofs BclFmtLitProofs BclReflowProofs BclLexLitProofs BclFmtSeqProofs BclFragWfProofs BclFmtLineProofs BclWalkBackProofs BclFmtFileProofs BclDescGapProofs BclFmtRoundProofs BclFmtIdemProofs.
(* after the proofs: doc_of / value_doc / tag_doc below are the declarative ones of model/BclDoc.v *)
From J5V.model Require Import BclDoc.
Import ListNotations.

Lemma paragraphs_paras : forall lines d c,
  pflush (fold_left pstep (map fields lines) (d, c)) = d ++ paragraphs lines c.
Proof.
  induction lines as [|l r IH]; intros d c; cbn [map fold_left paragraphs].
  - unfold pflush. cbn [fst snd]. destruct c; [rewrite app_nil_r|]; reflexivity.
  - destruct (fields l) as [|w ws] eqn:E.
    + cbn [pstep]. rewrite IH. unfold pflush. cbn [fst snd]. destruct c; [reflexivity|].
      rewrite <- app_assoc. reflexivity.
    + cbn [pstep fst snd]. rewrite IH. reflexivity.
Qed.

Lemma desc_doc_paras value : desc_doc value = paras (map fields (split_on 10 value)).
Proof. unfold desc_doc, paras, pstate. rewrite paragraphs_paras. reflexivity. Qed.
Theorem reflow_same_paragraphs : forall maxw input,
  desc_doc (join_with 10 (reformat_description input maxw)) = desc_doc input.
Proof. intros. rewrite !desc_doc_paras. apply reflow_paras. Qed.

(* ---- file level: output accepted, same document ------------------------------------------------- *)
(* doc_of is a function of the position-free fragment view (fdoc_of) the walker-back proofs work with *)
Definition ptok_doc (p : ptok) : N * list N := (tt_code (fst p), snd p).
Definition conv_tag (t : mark * (list (list N) + list ptok)) : N * list (N * list N) :=
  (mark_code (fst t), match snd t with inl r => map (fun i => (5%N, i)) r | inr v => map ptok_doc v end).
Definition fdoc_doc (x : fdoc) : frag_doc :=
  match x with
  | DH ty tags quals desc op c => DHeader ty (map conv_tag tags) (map conv_tag quals) (option_map desc_doc desc) op c
  | DA key app v c => DAssign key app (map ptok_doc v) c
  | DD value => DDesc (desc_doc value)
  | DC t => DComment (ptok_doc t)
  | DX => DClose
  end.

Lemma value_doc_conv : forall v, value_doc v = map ptok_doc (BclWalkBackProofs.value_doc v).
Proof.
  apply value_ind'; [reflexivity|]. intros vs s e H. cbn [value_doc BclWalkBackProofs.value_doc].
  cbn [map]. rewrite map_app. cbn [map]. f_equal. f_equal.
  induction H as [|x r Hx _ IH]; [reflexivity|]. cbn [flat_map]. rewrite map_app, Hx, IH. reflexivity.
Qed.

Lemma tag_doc_conv t : tag_doc t = conv_tag (BclWalkBackProofs.tag_doc t).
Proof.
  unfold tag_doc, conv_tag, BclWalkBackProofs.tag_doc. cbn [fst snd]. destruct (tbody t); [reflexivity|].
  rewrite value_doc_conv. reflexivity.
Qed.

Lemma doc_of_fdoc f : doc_of f = fdoc_doc (fdoc_of f).
Proof.
  destruct f as [h|a|d|t|t]; cbn [doc_of fdoc_of fdoc_doc]; try reflexivity.
  - rewrite !map_map. rewrite (map_ext _ _ tag_doc_conv (htags h)), (map_ext _ _ tag_doc_conv (hquals h)).
    f_equal. destruct (hdesc h); reflexivity.
  - rewrite value_doc_conv. reflexivity.
Qed.

(* the entries the output is read from carry the documents of the original fragments: descriptions by
   reflow_same_paragraphs (the empty description, printed as a bare |, has no paragraphs either) *)
Lemma entries_docs : forall fs n first last,
  map (fun be => fdoc_doc (entry_doc (snd be))) (entries fs n first last) = map doc_of fs.
Proof.
  induction fs as [|f r IH]; intros n first last; [reflexivity|].
  destruct f as [h|a|d|t|t]; cbn [entries map snd entry_doc]; rewrite IH; f_equal; try (symmetry; apply doc_of_fdoc).
  cbn [fdoc_doc doc_of]. f_equal. unfold desc_lines.
  pose proof (reflow_same_paragraphs (80 - Z.of_nat n * 4) (dvalue d)) as H.
  destruct (reformat_description (dvalue d) (80 - Z.of_nat n * 4)); exact H.
Qed.

(* the parser accepts what the formatter prints for every file the parser accepts *)
Theorem fmt_same_document : forall data fs, collect_fragments data = Ok fs ->
  exists out fs', fmt_runes data = Ok out /\ collect_fragments out = Ok fs' /\ map doc_of fs' = map doc_of fs.
Proof.
  intros data fs Hc. destruct (fmt_roundtrip data fs Hc) as (fs' & Hc' & Hdocs).
  exists (fmt_join (diff_file fs 0) true (-1)), fs'. split; [|split; [exact Hc'|]].
  - unfold fmt_runes, collect_fmt. rewrite Hc. reflexivity.
  - rewrite <- (entries_docs fs 0 true (-1)). rewrite (map_ext _ _ doc_of_fdoc).
    rewrite <- (map_map fdoc_of fdoc_doc), Hdocs, map_map. reflexivity.
Qed.

Theorem fmt_accepted_same_document : forall data, accepted data ->
  exists out fs fs',
    fmt_runes data = Ok out /\ accepted out /\
    collect_fragments data = Ok fs /\ collect_fragments out = Ok fs' /\
    map doc_of fs' = map doc_of fs.
Proof.
  intros data Ha. destruct (fmt_output_accepted data Ha) as (out & Hf & Hacc).
  destruct (proj1 (accepted_iff data) Ha) as (fs & Hc & _).
  destruct (fmt_same_document data fs Hc) as (out2 & fs' & Hf2 & Hc' & Hd).
  rewrite Hf in Hf2. injection Hf2 as <-. exists out, fs, fs'. auto.
Qed.

(* ---- the tree level -------------------------------------------------------------------------------- *)
(* fragmentsToFile on documents *)
Fixpoint d_loop (ds : list frag_doc) (cur : list tdoc) (stack : list (frag_doc * list tdoc))
  : list tdoc * list (frag_doc * list tdoc) :=
  match ds with
  | [] => (cur, stack)
  | d :: r =>
    match d with
    | DHeader _ _ _ _ true _ => d_loop r [] ((d, cur) :: stack)
    | DHeader _ _ _ _ false _ => d_loop r (cur ++ [TBlock d []]) stack
    | DAssign _ _ _ _ | DDesc _ => d_loop r (cur ++ [TLeaf d]) stack
    | DComment _ => d_loop r cur stack
    | DClose => match stack with
                | [] => d_loop r cur stack
                | (h, parent) :: st => d_loop r (parent ++ [TBlock h cur]) st
                end
    end
  end.
Fixpoint d_unwind (cur : list tdoc) (stack : list (frag_doc * list tdoc)) : list tdoc :=
  match stack with
  | [] => cur
  | (h, parent) :: st => d_unwind (parent ++ [TBlock h cur]) st
  end.
Definition stack_doc (stack : list (header * list stmt)) : list (frag_doc * list tdoc) :=
  map (fun hp => (doc_of (FHeader (fst hp)), map stmt_doc (snd hp))) stack.

Lemma to_file_loop_doc : forall fs cur stack errs,
  d_loop (map doc_of fs) (map stmt_doc cur) (stack_doc stack) =
  (map stmt_doc (fst (fst (to_file_loop fs cur stack errs))), stack_doc (snd (fst (to_file_loop fs cur stack errs)))).
Proof.
  induction fs as [|f r IH]; intros cur stack errs; [reflexivity|].
  destruct f as [h|a|d|t|t]; cbn [map to_file_loop].
  - cbn [doc_of d_loop]. destruct (hopen h) eqn:Eo.
    + rewrite <- (IH [] ((h, cur) :: stack) errs). unfold stack_doc. cbn [map fst snd doc_of]. rewrite Eo. reflexivity.
    + rewrite <- (IH (cur ++ [SBlock h []]) stack errs). rewrite map_app. cbn [map stmt_doc doc_of]. rewrite Eo. reflexivity.
  - cbn [doc_of d_loop]. rewrite <- (IH (cur ++ [SAssign a]) stack errs). rewrite map_app. reflexivity.
  - cbn [doc_of d_loop]. rewrite <- (IH (cur ++ [SDesc d]) stack errs). rewrite map_app. reflexivity.
  - cbn [doc_of d_loop]. apply IH.
  - cbn [doc_of d_loop]. destruct stack as [|[h parent] st]; cbn [stack_doc map fst snd].
    + apply (IH cur [] _).
    + rewrite <- (IH (close_level h cur parent) st errs). unfold close_level. rewrite map_app. reflexivity.
Qed.

Lemma unwind_doc : forall stack cur, map stmt_doc (unwind cur stack) = d_unwind (map stmt_doc cur) (stack_doc stack).
Proof.
  induction stack as [|[h parent] st IH]; intros cur; [reflexivity|].
  cbn [unwind stack_doc map fst snd d_unwind]. rewrite IH. unfold close_level. rewrite map_app. reflexivity.
Qed.

Lemma to_file_doc fs fs' : map doc_of fs' = map doc_of fs ->
  map stmt_doc (fst (fragments_to_file fs')) = map stmt_doc (fst (fragments_to_file fs)).
Proof.
  intros E. unfold fragments_to_file.
  pose proof (to_file_loop_doc fs [] [] []) as H1. pose proof (to_file_loop_doc fs' [] [] []) as H2. rewrite E in H2.
  destruct (to_file_loop fs [] [] []) as [[c1 s1] e1]. destruct (to_file_loop fs' [] [] []) as [[c2 s2] e2].
  cbn [fst snd] in *. rewrite !unwind_doc. rewrite H1 in H2. injection H2 as <- <-. reflexivity.
Qed.

(* the tree ParseFile returns for the formatter's output is, position-free, the tree of the input *)
Theorem fmt_same_tree : forall data body, parse_runes true data = Ok (mkP (Some body) []) ->
  exists out body', fmt_runes data = Ok out /\ parse_runes true out = Ok (mkP (Some body') []) /\
                    map stmt_doc body' = map stmt_doc body.
Proof.
  intros data body Hp. assert (Ha : accepted data) by (exists body; exact Hp).
  destruct (fmt_accepted_same_document data Ha) as (out & fs & fs' & Hf & [body' Hp'] & Hc & Hc' & Hd).
  exists out, body'. split; [exact Hf|]. split; [exact Hp'|].
  assert (Hb : forall d b l, collect_fragments d = Ok l -> parse_runes true d = Ok (mkP (Some b) []) -> b = fst (fragments_to_file l)).
  { intros d b l. unfold collect_fragments, parse_runes. destruct (all_tokens true d); try discriminate.
    destruct (walk_fragments true toks) as [l0 ds|p|]; try discriminate. destruct ds; [|discriminate].
    intros [= <-]. destruct (fragments_to_file l0) as [b0 e0]. intros [= <- _]. reflexivity. }
  rewrite (Hb data body fs Hc Hp), (Hb out body' fs' Hc' Hp'). apply to_file_doc. exact Hd.
Qed.

Theorem fmt_full : forall data, accepted data ->
    exists out fs fs',
      fmt_runes data = Ok out /\ accepted out /\
      collect_fragments data = Ok fs /\ collect_fragments out = Ok fs' /\
      map doc_of fs' = map doc_of fs /\
      fmt_runes out = Ok out.
Proof.
  intros data Ha. destruct (fmt_accepted_same_document data Ha) as (out & fs & fs' & Hf & Hacc & Hc & Hc' & Hd).
  exists out, fs, fs'. repeat (split; [assumption|]). apply (fmt_idempotent data out Hf).
Qed.

Theorem walk_back_docs : forall es fuel s, stream_ok es -> pt s = stream es ->
  (length (wrest s) < fuel)%nat ->
  exists fs, walk_fragments_loop fuel true s = WalkOk fs [] /\
             map (fun f => match f with FDesc d => DD (dvalue d) | _ => fdoc_of f end) fs
             = map (fun be => entry_doc (snd be)) es.
Proof.
  intros es fuel s H1 H2 H3. destruct (walk_stream_back es fuel s H1 H2 H3) as (fs & A & _ & B). eauto.
Qed.

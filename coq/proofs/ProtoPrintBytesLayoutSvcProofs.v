(* ProtoPrintBytesLayoutSvcProofs.v — C05 byte level, the layout lemma extended by services with option-free methods
   (`rpc Name(In) returns (Out) {}`), on top of ProtoPrintBytesLayoutMsgProofs.v. *)
From Coq Require Import String List NArith ZArith Bool Lia.
From J5V.lib Require Import Outcome Corr.
From J5V.model Require Import ProtoPrintLit ProtoPrint ProtoLex ProtoLayout ProtoPrintCorr ProtoPrintFile
  ProtoParseFile ProtoPrintFileWf ProtoPrintFileErase ProtoPrintBytes.
From J5V.proofs Require Import ProtoLexProofs ProtoPrintBytesLayoutProofs ProtoPrintBytesLayoutEnumProofs
  ProtoPrintBytesLayoutMsgProofs ProtoPrintBytesEraseProofs ProtoPrintFileFullProofs ProtoPrintFileTextProofs
  ProtoPrintFileXProofs ProtoPrintBytesProofs.
From J5V.proofs Require ProtoPrintFileExample ProtoPrintFileWfProofs.
Import ListNotations.
Local Open Scope N_scope.

Lemma items_ok_front t l : tok_ok t = true -> (forall r, boundary t r = true) -> items_ok l = true ->
  (exists q r, l = q :: r /\ tok_text (fst q) <> []) -> items_ok ((t, []) :: l) = true.
Proof.
  intros Ht Hb Hl (q & r & E & Hne). subst l. rewrite items_ok_cons2.
  apply andb_true_intro. split; [|exact Hl]. rewrite Ht.
  destruct (tok_text (fst q)) as [|c x]; [contradiction|]. rewrite Hb. reflexivity.
Qed.

Lemma ident_nonempty a : is_ident a = true -> a <> [].
Proof. destruct a; [discriminate|discriminate]. Qed.

Lemma pn_items_head p last X : pn_name p <> [] -> forallb is_ident (pn_name p) = true ->
  exists q r, pn_items p last ++ X = q :: r /\ tok_text (fst q) <> [].
Proof.
  intros Hne Hi. unfold pn_items. destruct (pn_name p) as [|a [|b r]]; [contradiction| |];
    cbn [forallb] in Hi; apply andb_prop in Hi; destruct Hi as [Ha _]; destruct (pn_abs p);
    cbn [dot_items qname_items app]; eexists; eexists; (split; [reflexivity|]); cbn [fst tok_text punct_char];
    try discriminate; exact (ident_nonempty a Ha).
Qed.

Lemma pn_items_ok p p0 l : (exists c x, tok_text (fst p0) = c :: x /\ is_ident_char c = false) ->
  items_ok (p0 :: l) = true -> forallb is_ident (pn_name p) = true -> items_ok (pn_items p [] ++ p0 :: l) = true.
Proof. intros Hp Hl Hi. unfold pn_items. destruct (pn_abs p); [apply dot_items_ok|apply qname_items_ok]; assumption. Qed.

Definition pn_ok (p : printed_name) : bool := negb (is_nil_l (pn_name p)) && forallb is_ident (pn_name p).
Definition method_ok (m : smethod) : bool :=
  is_nil_l (sm_opts m) && is_ident (sm_name m) && pn_ok (sm_in m) && pn_ok (sm_out m).

Lemma pn_ok_parts p : pn_ok p = true -> pn_name p <> [] /\ forallb is_ident (pn_name p) = true.
Proof. unfold pn_ok. intro H. apply andb_prop in H. destruct H as [H1 H2]. split; [destruct (pn_name p); discriminate|exact H2]. Qed.

Definition method_items (m : smethod) : list item :=
  (TIdent kw_rpc, [32]) :: (TIdent (sm_name m), []) :: (TLParen, []) :: pn_items (sm_in m) []
  ++ (TRParen, [32]) :: (TIdent kw_returns, [32]) :: (TLParen, []) :: pn_items (sm_out m) []
  ++ [(TRParen, [32]); (TLBrace, []); (TRBrace, [])].

Lemma T_method ind m : method_ok m = true -> T (emit_method (erase_smethod m)) (wr_method ind m).
Proof.
  unfold method_ok. intro H. apply andb_prop in H. destruct H as [H Hout]. apply andb_prop in H. destruct H as [H Hin].
  apply andb_prop in H. destruct H as [Ho Hn].
  destruct (pn_ok_parts _ Hin) as [Hin1 Hin2]. destruct (pn_ok_parts _ Hout) as [Hout1 Hout2].
  destruct m as [c n pin pout o]. cbn [sm_opts sm_name sm_in sm_out] in *. destruct o as [|o1 o]; [|discriminate].
  intros ts0 w HW. unfold wr_method. cbn [sm_opts sm_name sm_in sm_out].
  refine (W_eq _ _ _ (app_nil_r _) (T_wgap _ _ _)). revert ts0 w HW. apply T_wp.
  apply (Lline_items _ _ (method_items {| sm_cm := c; sm_name := n; sm_in := pin; sm_out := pout; sm_opts := [] |})).
  - unfold method_items, emit_method, erase_smethod. cbn [sm_cm sm_opts sm_name sm_in sm_out emit_cmt no_cmt c_det c_lead map flat_map app fst].
    rewrite !map_app. cbn [map fst]. rewrite !map_app, !pn_items_tokens. cbn [map fst app]. rewrite <- ?app_assoc. reflexivity.
  - unfold method_items. cbn [sm_name sm_in sm_out].
    rewrite !items_text_cons, items_text_app, !items_text_cons, items_text_app, (pn_items_text pin [] Hin1), (pn_items_text pout [] Hout1).
    cbn. rewrite ?app_nil_r. repeat (progress (cbn [app]; rewrite <- ?app_assoc)). reflexivity.
  - unfold method_items. cbn [sm_name sm_in sm_out].
    assert (X1 : items_ok [(TRParen, [32]); (TLBrace, []); (TRBrace, [])] = true) by reflexivity.
    assert (P41 : exists c x, tok_text (fst ((TRParen, [32]) : item)) = c :: x /\ is_ident_char c = false)
      by (exists 41, []; split; reflexivity).
    pose proof (pn_items_ok pout (TRParen, [32]) _ P41 X1 Hout2) as X2.
    pose proof (items_ok_front TLParen _ eq_refl (fun r => eq_refl) X2 (pn_items_head pout [] _ Hout1 Hout2)) as X3.
    assert (X4 : items_ok ((TRParen, [32]) :: (TIdent kw_returns, [32]) :: (TLParen, []) :: pn_items pout [] ++ [(TRParen, [32]); (TLBrace, []); (TRBrace, [])]) = true).
    { rewrite !items_ok_sp, X3. reflexivity. }
    pose proof (pn_items_ok pin (TRParen, [32]) _ P41 X4 Hin2) as X5.
    pose proof (items_ok_front TLParen _ eq_refl (fun r => eq_refl) X5 (pn_items_head pin [] _ Hin1 Hin2)) as X6.
    rewrite items_ok_sp, items_ok_cons2, X6. cbn [fst tok_text punct_char tok_ok boundary head_is]. rewrite Hn. reflexivity.
Qed.

Definition service_ok (e : selem) : bool :=
  match e with
  | SService _ n [] ms => is_ident n && forallb method_ok ms
  | _ => false
  end.

Lemma T_service ind e : service_ok e = true -> T (emit_elem (erase_selem e)) (wr_elem ind e).
Proof.
  destruct e as [f|c n o fs|c n o body|c n o vs|c n o ms]; try discriminate. destruct o as [|o1 o]; [|discriminate].
  cbn [service_ok]. intro H. apply andb_prop in H. destruct H as [Hn Hm].
  intros ts0 w HW. cbn [wr_elem erase_selem emit_elem]. unfold emit_block. cbn [emit_cmt c_det c_lead no_cmt map flat_map app].
  refine (W_eq _ _ _ (app_nil_r _) (T_wgap _ _ _)). rewrite flat_map_map'.
  assert (HT : T (flat_map (fun m => emit_method (erase_smethod m)) ms) (wfold (wr_method (S ind)) ms)).
  { apply T_wfold. intros m Hin. apply T_method. rewrite forallb_forall in Hm. exact (Hm m Hin). }
  refine (T_section ind kw_service n (is_nil_l ms) _ _ eq_refl Hn HT _ _ _ HW).
  destruct ms; [reflexivity|discriminate].
Qed.

Definition top_ok (e : selem) : bool := elem_ok e || service_ok e.

Theorem render_plain_svc_layout gen s : s_exts s = [] -> forallb top_ok (s_body s) = true -> header_ok gen s = true ->
  is_layout (emit_file (erase_sfile s)) (render_sfile gen s) = true.
Proof.
  intros Hx Hb H. pose proof (header_W gen s H) as HW.
  assert (HT : T (flat_map (fun e => emit_elem (erase_selem e)) (s_body s)) (wfold (wr_elem 0) (s_body s))).
  { apply T_wfold. intros e Hin. rewrite forallb_forall in Hb. specialize (Hb e Hin). unfold top_ok in Hb.
    apply orb_prop in Hb. destruct Hb as [Hb|Hb]; [apply T_elem|apply T_service]; exact Hb. }
  pose proof (HT _ _ HW) as HW2. specialize (HW2 [] [] eq_refl). rewrite !app_nil_r in HW2.
  unfold render_sfile, emit_file, erase_sfile. cbn [s_pkg s_imports s_fopts s_exts s_body]. rewrite Hx. cbv zeta.
  cbn [map flat_map]. unfold wfold at 2. cbn [fold_left].
  rewrite emit_elems_flat, flat_map_map'.
  unfold write_header, header_tokens in HW2. cbv zeta in HW2.
  cbn [app] in HW2 |- *. rewrite <- ?app_assoc in HW2. rewrite <- ?app_assoc. cbn [app] in HW2 |- *. exact HW2.
Qed.

Definition plain_svc_fragment_b (gen : list N) (imp : xsymtab) (D : dfile) : bool :=
  let s := lay_file (to_symtab (dfile_symtab imp D)) D in
  unlocated_b D && is_nil_l (s_exts s) && forallb top_ok (s_body s) && header_ok gen s.

Lemma plain_svc_modelled gen imp D : plain_svc_fragment_b gen imp D = true -> bytes_modelled_b gen imp D = true.
Proof.
  unfold plain_svc_fragment_b. cbv zeta. intro H. apply andb_prop in H. destruct H as [H Hh]. apply andb_prop in H. destruct H as [H Hb].
  apply andb_prop in H. destruct H as [Hu Hx].
  assert (Hx' : s_exts (lay_file (to_symtab (dfile_symtab imp D)) D) = [])
    by (destruct (s_exts (lay_file (to_symtab (dfile_symtab imp D)) D)); [reflexivity|discriminate]).
  pose proof (render_plain_svc_layout gen _ Hx' Hb Hh) as HL. rewrite (lay_file_unlocated _ D Hu) in HL.
  unfold bytes_modelled_b. rewrite Hu. unfold print_file_tokens_nc, render_bytes. rewrite (lay_file_unlocated _ D Hu), HL.
  unfold header_ok in Hh. apply andb_prop in Hh. destruct Hh as [Hh _]. apply andb_prop in Hh. destruct Hh as [Hh _].
  apply andb_prop in Hh. destruct Hh as [Hh _]. apply andb_prop in Hh. destruct Hh as [Hg _]. rewrite Hg. reflexivity.
Qed.

Theorem bytes_roundtrip_plain_svc gen imp D : wf_dfile imp D -> plain_svc_fragment_b gen imp D = true ->
  let text := render_bytes gen imp D in
  scan_text text = Some (print_file_tokens (to_symtab (dfile_symtab imp D)) D)
  /\ exists D0, read_text imp text = Some (erase_dfile D0) /\ desc_equiv D D0 /\ wf_dfile imp D0.
Proof.
  intros Hw H. cbv zeta. pose proof (plain_svc_modelled gen imp D H) as Hm.
  split; [exact (scan_render_bytes_tokens gen imp D Hm)|].
  destruct (bytes_roundtrip_subclass gen imp D Hw Hm) as (_ & D0 & Hr & He & Hw0 & _).
  exists D0. auto.
Qed.

Module ExSvc.
Import ProtoPrintFileExample.
Definition meth_plain : dmethod :=
  {| m_key := kk 0 0; m_cm := no_cmt; m_name := b "GetFoo"; m_in := (pkg_t, [b "Foo"]); m_out := (pkg_t, [b "Foo"; b "Bar"]); m_opts := [] |}.
Definition ex_svc_file : dfile :=
  {| d_pkg := pkg_t; d_imports := []; d_fopts := []; d_exts := [];
     d_body := [ExPlain.m_plain; DService (kk 0 0) no_cmt (b "FooService") [] [meth_plain]; DService (kk 0 1) no_cmt (b "EmptyService") [] []] |}.
Lemma ex_svc_wf : wf_dfile ex_imp ex_svc_file.
Proof. apply ProtoPrintFileWfProofs.wf_dfile_b_sound. vm_compute. reflexivity. Qed.
Lemma ex_svc_fragment : plain_svc_fragment_b (sb "verif") ex_imp ex_svc_file = true.
Proof. vm_compute. reflexivity. Qed.
End ExSvc.

Theorem example_plain_svc :
  wf_dfile ProtoPrintFileExample.ex_imp ExSvc.ex_svc_file
  /\ plain_svc_fragment_b (sb "verif") ProtoPrintFileExample.ex_imp ExSvc.ex_svc_file = true.
Proof. split; [exact ExSvc.ex_svc_wf|exact ExSvc.ex_svc_fragment]. Qed.

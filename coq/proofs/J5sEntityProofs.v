(* J5sEntityProofs.v — C02 for source files with entities.  An entity is expanded source to
   source (model/J5sEntity.v: what sourcewalk/entity.go hands to the visitors), so every C02
   theorem applies to the expanded bundle as it stands; this file states what that means for
   the entity itself:
     1. the package-level contract (J5sContract.package_contract_full) of a bundle that holds an
        expanded file gives, for every entity of the file: the <Name>Keys / <Name>Data /
        <Name>State / <Name>Event objects, the <Name>EventType oneof with the event objects
        nested in it and the <Name>Status enum in the main file, each satisfying the structural
        contract of its declaration (fields = keys / data / ... in order, numbered from 1, ...);
        the <Name>Query service with its three methods in the .service file; the
        <Name>Publish topic in the .topic file;
     2. agreement with family ent's model of the same code (model/Entity.v, property C17) on
        the README example and on an entity with shard keys: same messages, fields, enum
        values, services, methods, paths (computed). *)
From Coq Require Import String List NArith Bool.
From J5V.lib Require Import Outcome Corr Strcase.
From J5V.model Require Entity.
From J5V.model Require Import J5sAst Desc J5sWalk J5sLink J5sConvert J5sContract J5sValid J5sEntity J5sCorr.
From J5V.proofs Require Import J5sProofs J5sContractProofs.
Import ListNotations.
Local Open Scope N_scope.

(* ------------------------------------------------------------------ the expansion is in the file *)
Lemma in_expand pkg e els el :
  In (XEntity e) els -> In el (expand_entity pkg e) -> In el (expand_elements pkg els).
Proof.
  intros He Hel. unfold expand_elements. apply in_flat_map. exists (XEntity e). split; assumption.
Qed.

Lemma in_plain pkg els el : In (XPlain el) els -> In el (expand_elements pkg els).
Proof.
  intros He. unfold expand_elements. apply in_flat_map. exists (XPlain el). split; [exact He|left; reflexivity].
Qed.

Lemma expand_pkg dir base imps els : j5s_pkg (expand_jfile dir base imps els) = join dot dir.
Proof. reflexivity. Qed.

Lemma zip3_in {A B C} (R : A -> B -> C -> Prop) la lb lc a :
  zip3 R la lb lc -> In a la -> exists c d, In c lb /\ In d lc /\ R a c d.
Proof.
  intros H. induction H as [|x c d ra rc rd Hx Hr IH]; intros Hin; [destruct Hin|].
  destruct Hin as [<-|Hin].
  - exists c, d. split; [left; reflexivity|]. split; [left; reflexivity|exact Hx].
  - destruct (IH Hin) as (c' & d' & Hc & Hd & HR). exists c', d'. split; [right; exact Hc|]. split; [right; exact Hd|exact HR].
Qed.

(* ------------------------------------------------------------------ 1. the contract, per entity *)
Section EntityContract.
Variables snake camel screaming : str -> str.

(* the six declarations an entity puts into the main file *)
Definition entity_main_elements (e : entity) : list element :=
  [keys_object e; data_object e; status_enum e; state_object e; event_type e; event_object e].

Theorem entity_contract bd dir base imps els e D :
  package_contract_full snake camel screaming bd (join dot dir) D ->
  In (BJ (expand_jfile dir base imps els)) bd -> In (XEntity e) els ->
  let f := expand_jfile dir base imps els in
  let pkg := join dot dir in
  (* main file: the objects, the oneof and the enum, each to the contract of its declaration *)
  (exists df, In df D /\ fl_path df = main_proto_path f /\
     forall el, In el (entity_main_elements e) ->
       element_ok snake camel screaming el (fl_msgs df) (fl_enums df)) /\
  (* .service file: the query service with its request / response messages *)
  (exists df ms ds, In df D /\ fl_path df = sub_proto_path f (b "service") /\ In ds (fl_svcs df) /\
     match query_service pkg e with
     | EService s => service_linked_ok snake camel screaming (pkg ++ dot ++ b "service") s ms ds
     | _ => False
     end) /\
  (* .topic file: the publish topic with its message *)
  (exists df ms ss, In df D /\ fl_path df = sub_proto_path f (b "topic") /\
     match publish_topic pkg e with
     | ETopic t => topic_linked_ok snake camel screaming (pkg ++ dot ++ b "topic") t ms ss
     | _ => False
     end).
Proof.
  intros [Hall _] Hin He f pkg.
  destruct (Hall f Hin (expand_pkg dir base imps els)) as ((df & Hd & Hm) & Hs & Ht).
  split; [|split].
  - exists df. split; [exact Hd|]. destruct Hm as (Hp & _ & _ & _ & _ & Hel). split; [exact Hp|].
    intros el Hel'. apply Hel. unfold f, expand_jfile. cbn [jf_elements].
    apply (in_expand pkg e els el He).
    unfold entity_main_elements in Hel'. unfold expand_entity. cbn [In] in *. tauto.
  - assert (Hq : In (query_service pkg e) (jf_elements f)).
    { unfold f, expand_jfile. cbn [jf_elements]. apply (in_expand pkg e els _ He). unfold expand_entity. cbn [In]. tauto. }
    assert (Hfs : exists s, query_service pkg e = EService s /\ In s (file_services f)).
    { unfold query_service in *. eexists. split; [reflexivity|]. unfold file_services. apply in_flat_map.
      eexists. split; [exact Hq|]. left. reflexivity. }
    destruct Hfs as (s & Es & Hs').
    assert (Hne : file_services f <> []) by (intros E; rewrite E in Hs'; destruct Hs').
    destruct (Hs Hne) as (sf & Hsd & (P1 & P2 & P3 & mss & Hc & Hz)).
    destruct (zip3_in _ _ _ _ s Hz Hs') as (ms & ds & _ & Hds & HR).
    exists sf, ms, ds. split; [exact Hsd|]. split; [exact P1|]. split; [exact Hds|]. rewrite Es. exact HR.
  - assert (Hq : In (publish_topic pkg e) (jf_elements f)).
    { unfold f, expand_jfile. cbn [jf_elements]. apply (in_expand pkg e els _ He). unfold expand_entity. cbn [In]. tauto. }
    assert (Hfs : exists t, publish_topic pkg e = ETopic t /\ In t (file_topics f)).
    { unfold publish_topic in *. eexists. split; [reflexivity|]. unfold file_topics. apply in_flat_map.
      eexists. split; [exact Hq|]. left. reflexivity. }
    destruct Hfs as (t & Et & Ht').
    assert (Hne : file_topics f <> []) by (intros E; rewrite E in Ht'; destruct Ht').
    destruct (Ht Hne) as (tf & Htd & (P1 & P2 & P3 & mss & sss & Hc & Hsv & Hz)).
    destruct (zip3_in _ _ _ _ t Hz Ht') as (ms & ss & _ & _ & HR).
    exists tf, ms, ss. split; [exact Htd|]. split; [exact P1|]. rewrite Et. exact HR.
Qed.

End EntityContract.

(* ------------------------------------------------------------------ 2. the two models of entity.go *)
(* what both models say about an entity, file by file: messages with their fields (JSON name,
   repeated, proto3_optional) in order - nested event messages after their parent -, enums with
   values, services with methods (name, input, output, HTTP path) *)
Definition fshape := (str * bool * bool)%type.
Definition mshape := (N * str * list fshape)%type.      (* file: 0 main, 1 service, 2 topic *)
Record eshape := mkShape {
  sh_msgs : list mshape;
  sh_enums : list (str * list (str * N));
  sh_svcs : list (N * str * list (str * str * str * str)) }.

(* --- from the C02 descriptors *)
Definition c02_field (f : dfield) : fshape :=
  (f_json f, match f_label f with LRepeated => true | _ => false end, f_opt3 f).
Fixpoint c02_msgs (file : N) (m : dmsg) : list mshape :=
  match m with
  | DMsg n k fs ms _ =>
      match k with
      | MMapEntry => []
      | _ => (file, n, map c02_field fs) :: flat_map (c02_msgs file) ms
      end
  end.
Definition strip_pkg (spkg tn : str) : str :=
  let p := dot ++ spkg ++ dot in
  if has_prefix p tn then skipn (length p) tn else tn.
Definition c02_shape (pkg : str) (D : list dfile) : eshape :=
  let fileno (f : dfile) : N :=
    if str_eqb (fl_pkg f) (pkg ++ b ".service") then 1 else if str_eqb (fl_pkg f) (pkg ++ b ".topic") then 2 else 0 in
  mkShape (flat_map (fun f => flat_map (c02_msgs (fileno f)) (fl_msgs f)) D)
          (flat_map (fun f => map (fun e => (en_name e, en_vals e)) (fl_enums f)) D)
          (flat_map (fun f => map (fun s => (fileno f, ds_name s,
                       map (fun m => (me_name m, strip_pkg (fl_pkg f) (me_in m), strip_pkg (fl_pkg f) (me_out m),
                                      match me_http m with Some h => h_path h | None => [] end)) (ds_methods s)))
                     (fl_svcs f)) D).

(* --- from family ent's components *)
Definition ent_field (f : Entity.ofield) : fshape := (Entity.f_json f, Entity.f_repeated f, Entity.f_optional f).
Definition ent_msgs (c : Entity.component) : list mshape :=
  match c with
  | Entity.CMsg file m =>
      (file, Entity.m_name m, map ent_field (Entity.m_fields m)) ::
      map (fun nf => (file, fst nf, map ent_field (snd nf))) (Entity.m_nested m)
  | _ => []
  end.
Definition ent_shape (cs : list Entity.component) : eshape :=
  mkShape (flat_map ent_msgs cs)
          (flat_map (fun c => match c with Entity.CEnum n vs => [(n, vs)] | _ => [] end) cs)
          (flat_map (fun c => match c with
                              | Entity.CSvc file s =>
                                  [(file, Entity.sv_name s,
                                    map (fun m => (Entity.mt_name m, Entity.mt_in m, Entity.mt_out m, Entity.mt_path m))
                                        (Entity.sv_methods s))]
                              | _ => []
                              end) cs).

(* README "Foo Example" in both syntaxes *)
Definition sfield' (n : string) : property := Property (b n) false false (FScalar SString).
Definition c02_foo : entity :=
  mkEntity (b "Foo")
    [mkEkey (Property (b "fooId") false false (FScalar (SKey KId62))) true false]
    (mkprops [sfield' "name"]) [b "ACTIVE"; b "INACTIVE"]
    [mkEevent (b "Create") (mkprops [sfield' "name"]); mkEevent (b "Archive") PNil].
Definition ent_str (n : string) : Entity.ufield := Entity.mkU (b n) (Entity.KScalar 9 (b "string")) false false.
Definition ent_foo : Entity.entity :=
  Entity.mkE (b "foo.v1") (b "Foo") []
    [Entity.mkK (Entity.mkU (b "fooId") (Entity.KKey true None None) false false) false]
    [ent_str "name"] [b "ACTIVE"; b "INACTIVE"]
    [Entity.mkEv (b "Create") [ent_str "name"]; Entity.mkEv (b "Archive") []]
    [] [] None [].

Definition c02_bundle (dir : list str) (e : entity) : bundle := [BJ (expand_jfile dir (b "a") [] [XEntity e])].

(* an entity with a primary + shard key, a shard key that is not primary, a key that is not
   key-typed, an array in the data, a snake_case key name and a digit in the name *)
Definition c02_acc : entity :=
  mkEntity (b "UserAccount2")
    [mkEkey (Property (b "accountId") false false (FScalar (SKey KUuid))) true true;
     mkEkey (Property (b "tenant_id") false false (FScalar (SKey KNone))) false true;
     mkEkey (Property (b "region") true false (FScalar SString)) false false]
    (mkprops [Property (b "tags") false false (FArray (FScalar SString)); Property (b "note") false true (FScalar SString)])
    [b "NEW"]
    [mkEevent (b "NameChanged") (mkprops [sfield' "to"])].
Definition ent_acc : Entity.entity :=
  Entity.mkE (b "acme.users.v1") (b "UserAccount2") []
    [Entity.mkK (Entity.mkU (b "accountId") (Entity.KKey true None None) false false) true;
     Entity.mkK (Entity.mkU (b "tenant_id") (Entity.KKey false None None) false false) true;
     Entity.mkK (Entity.mkU (b "region") (Entity.KScalar 9 (b "string")) true false) false]
    [Entity.mkU (b "tags") (Entity.KArray (Entity.IScalar 9 (b "string"))) false false;
     Entity.mkU (b "note") (Entity.KScalar 9 (b "string")) false true]
    [b "NEW"]
    [Entity.mkEv (b "NameChanged") [ent_str "to"]]
    [] [] None [].

Theorem entity_models_agree :
  (exists D cs, compile (c02_bundle [b "foo"; b "v1"] c02_foo) (b "foo.v1") = Ok D /\
                Entity.expand ent_foo = Ok cs /\ c02_shape (b "foo.v1") D = ent_shape cs) /\
  (exists D cs, compile (c02_bundle [b "acme"; b "users"; b "v1"] c02_acc) (b "acme.users.v1") = Ok D /\
                Entity.expand ent_acc = Ok cs /\ c02_shape (b "acme.users.v1") D = ent_shape cs).
Proof.
  split; eexists; eexists; (split; [vm_compute; reflexivity|]); (split; [vm_compute; reflexivity|]);
    vm_compute; reflexivity.
Qed.

(* non-vacuity of entity_contract: the README entity is valid and compiles *)
Lemma readme_entity_valid :
  valid (c02_bundle [b "foo"; b "v1"] c02_foo) = true /\
  exists D, compile (c02_bundle [b "foo"; b "v1"] c02_foo) (b "foo.v1") = Ok D /\ length D = 3%nat.
Proof. split; [vm_compute; reflexivity|]. eexists. split; vm_compute; reflexivity. Qed.

(* PipelineChainProofs.v — composition of the stages: the full statement of C16 for declared packages *)
From Coq Require Import String Ascii List Arith NArith Bool Lia ZifyN ZifyNat ZifyBool Permutation.
From J5V.lib Require Import Outcome Corr.
From J5V.model Require Import Pipeline PipelineCompile PipelineCorr.
From J5V.gen Require SwaggerGen.
From J5V.proofs Require Import PipelineProofs.
Import ListNotations.
Local Open Scope N_scope.
Local Open Scope bool_scope.

(* ---------- small facts ------------------------------------------------------- *)
Lemma concat_map_flat_map {A B} (f : A -> list B) l : concat (map f l) = flat_map f l.
Proof. induction l as [|x r IH]; cbn; [reflexivity|]. rewrite IH. reflexivity. Qed.

Lemma omapM_ok {A B} (f : A -> outcome B) (g : A -> B) l :
  (forall x, In x l -> f x = Ok (g x)) -> omapM f l = Ok (map g l).
Proof.
  induction l as [|x r IH]; intro H; [reflexivity|].
  cbn [omapM map]. rewrite (H x (or_introl eq_refl)). cbn [obind]. rewrite IH; [reflexivity|].
  intros y Hy. apply H. right. exact Hy.
Qed.

Lemma omapM_map {A B C} (f : B -> outcome C) (h : A -> B) l :
  omapM f (map h l) = omapM (fun x => f (h x)) l.
Proof. induction l as [|x r IH]; [reflexivity|]. cbn [map omapM]. rewrite IH. reflexivity. Qed.

Lemma last_app_single (x : str) c d : last_or d (x ++ [c]) = c.
Proof.
  induction x as [|y s IH]; [reflexivity|].
  change ((y :: s) ++ [c]) with (y :: s ++ [c]). destruct s as [|z t]; [reflexivity|].
  change (last_or d (y :: (z :: t) ++ [c])) with (last_or d ((z :: t) ++ [c])). exact IH.
Qed.

(* two names with different last characters are different *)
Lemma app_last_neq (a b : str) (s t : str) ca cb :
  ca <> cb -> a ++ s ++ [ca] <> b ++ t ++ [cb].
Proof.
  intros Hc E. apply (f_equal (last_or 0)) in E.
  rewrite !app_assoc, !last_app_single in E. contradiction.
Qed.

Definition REQUEST : str := bytes_of "Request".
Definition RESPONSE : str := bytes_of "Response".

Lemma request_neq_response a b : a ++ REQUEST <> b ++ RESPONSE.
Proof.
  change REQUEST with (bytes_of "Reques" ++ [116]). change RESPONSE with (bytes_of "Respons" ++ [101]).
  apply app_last_neq. discriminate.
Qed.

Lemma response_neq_httpbody a : a ++ RESPONSE <> HTTPBODY_SHORT.
Proof.
  change RESPONSE with (bytes_of "Respons" ++ [101]). change HTTPBODY_SHORT with ([] ++ bytes_of "HttpBod" ++ [121]).
  apply app_last_neq. discriminate.
Qed.

Lemma key_eqb_neq a b : a <> b -> key_eqb a b = false.
Proof. intro H. destruct (key_eqb a b) eqn:E; [|reflexivity]. apply key_eqb_eq in E. contradiction. Qed.

(* ---------- the walk never meets an unlinked reference when every reference links ---------- *)
Lemma lookup_In_pair g k s : lookup g k = Some s -> In (k, s) g.
Proof.
  induction g as [|[k' s'] r IH]; cbn [lookup]; [discriminate|].
  destruct (key_eqb k k') eqn:E.
  - apply key_eqb_eq in E. subst. intros [= <-]. left. reflexivity.
  - intro H. right. apply IH. exact H.
Qed.

Lemma linked_succs g k s : all_refs_link g = true -> lookup g k = Some s ->
  forall m, In m (succs s) -> present g m.
Proof.
  intros Hl Hk m Hm. unfold all_refs_link in Hl. rewrite forallb_forall in Hl.
  specialize (Hl (k, s) (lookup_In_pair g k s Hk)). cbn [snd] in Hl. rewrite forallb_forall in Hl.
  specialize (Hl m Hm). unfold present. destruct (lookup g m); [discriminate|discriminate].
Qed.

(* ---------- the schemas as the walks see them: flattened fields merged (cenv) ---------------- *)
Lemma client_env_of_spec g : forall l l', client_env_of g l = Some l' ->
  length l' = length l
  /\ (forall k, lookup l k = None -> lookup l' k = None)
  /\ (forall k s, lookup l k = Some s -> exists s', client_schema g s = Some s' /\ lookup l' k = Some s')
  /\ (forall k s', In (k, s') l' -> exists s, In (k, s) l /\ client_schema g s = Some s').
Proof.
  induction l as [|[k0 s0] r IH]; intros l' E.
  - cbn in E. injection E as <-. repeat split; try (intros; discriminate); intros k s' [].
  - cbn [client_env_of] in E. destruct (client_schema g s0) as [s0'|] eqn:E0; [|discriminate].
    destruct (client_env_of g r) as [r'|] eqn:Er; [|discriminate]. injection E as <-.
    destruct (IH r' eq_refl) as (L & N & S & I). split; [cbn [length]; rewrite L; reflexivity|]. split; [|split].
    + intros k. cbn [lookup]. destruct (key_eqb k k0); [discriminate|apply N].
    + intros k s. cbn [lookup]. destruct (key_eqb k k0).
      * intros [= <-]. exists s0'. split; [exact E0|reflexivity].
      * apply S.
    + intros k s' [Hh|Ht].
      * injection Hh as <- <-. exists s0. split; [left; reflexivity|exact E0].
      * destruct (I k s' Ht) as (s & Hs & Es). exists s. split; [right; exact Hs|exact Es].
Qed.

Lemma cenv_spec g g' : client_env g = Some g' -> cenv g = g'.
Proof. intro E. unfold cenv. rewrite E. reflexivity. Qed.

Lemma cenv_present g g' k : client_env g = Some g' -> (present g' k <-> present g k).
Proof.
  intro E. destruct (client_env_of_spec g g g' E) as (_ & N & S & _). unfold present. split; intros H Hn.
  - apply H. apply N. exact Hn.
  - destruct (lookup g k) as [s|] eqn:Ek; [|apply H; reflexivity].
    destruct (S k s Ek) as (s' & _ & E'). rewrite E' in Hn. discriminate.
Qed.

(* a client property is a property of the object itself or of an object of the schema set *)
Lemma client_props_origin g : forall f ps cps, client_props f g ps = Some cps ->
  forall p, In p cps -> In p ps \/ exists k qs, lookup g k = Some (SObject qs) /\ In p qs.
Proof.
  induction f as [|f IHf]; intros ps cps E; [discriminate|].
  revert cps E. induction ps as [|q r IHr]; intros cps E p Hp.
  - cbn in E. injection E as <-. destruct Hp.
  - cbn [client_props fold_right] in E.
    change (fold_right _ (Some []) r) with (client_props (S f) g r) in E.
    destruct (client_props (S f) g r) as [rest|] eqn:Er; [|discriminate].
    assert (Hrest : forall x, In x rest -> In x (q :: r) \/ exists k qs, lookup g k = Some (SObject qs) /\ In x qs).
    { intros x Hx. destruct (IHr rest eq_refl x Hx) as [H|H]; [left; right; exact H|right; exact H]. }
    destruct (is_flat (p_ty q)) as [k|] eqn:Ef.
    + destruct (lookup g k) as [[qs|qs|]|] eqn:Ek;
        try (injection E as <-; destruct Hp as [<-|Hp]; [left; left; reflexivity|exact (Hrest p Hp)]).
      destruct (client_props f g qs) as [cs|] eqn:Ec; [|discriminate]. cbn [option_map] in E. injection E as <-.
      apply in_app_or in Hp as [Hp|Hp]; [|exact (Hrest p Hp)].
      destruct (IHf qs cs Ec p Hp) as [H|H]; [right; exists k, qs; split; assumption|right; exact H].
    + injection E as <-. destruct Hp as [<-|Hp]; [left; left; reflexivity|exact (Hrest p Hp)].
Qed.

Lemma cenv_schema_origin g g' k s' : client_env g = Some g' -> In (k, s') g' ->
  forall p, In p (schema_props s') -> exists k0 s0, In (k0, s0) g /\ In p (schema_props s0).
Proof.
  intros E Hin p Hp. destruct (client_env_of_spec g g g' E) as (_ & _ & _ & I).
  destruct (I k s' Hin) as (s & Hs & Es). destruct s as [ps|ps|]; cbn [client_schema] in Es.
  - destruct (client_props (S (length g)) g ps) as [cps|] eqn:Ec; [|discriminate]. injection Es as <-. cbn [schema_props] in Hp.
    destruct (client_props_origin g _ ps cps Ec p Hp) as [H|(k2 & qs & Hl & Hq)].
    + exists k, (SObject ps). split; [exact Hs|exact H].
    + exists k2, (SObject qs). split; [apply lookup_In_pair; exact Hl|exact Hq].
  - injection Es as <-. exists k, (SOneof ps). split; [exact Hs|exact Hp].
  - injection Es as <-. destruct Hp.
Qed.

Lemma cenv_refs_link g g' : client_env g = Some g' -> all_refs_link g = true -> all_refs_link g' = true.
Proof.
  intros E Hl. unfold all_refs_link. apply forallb_forall. intros [k s'] Hin. cbn [snd]. apply forallb_forall. intros m Hm.
  unfold succs, prop_refs in Hm. apply in_flat_map in Hm as (p & Hp & Hr).
  destruct (cenv_schema_origin g g' k s' E Hin p Hp) as (k0 & s0 & H0 & Hp0).
  assert (Hpres : present g m).
  { unfold all_refs_link in Hl. rewrite forallb_forall in Hl. specialize (Hl (k0, s0) H0). cbn [snd] in Hl.
    rewrite forallb_forall in Hl. assert (Hm0 : In m (succs s0)) by (unfold succs, prop_refs; apply in_flat_map; exists p; split; assumption).
    specialize (Hl m Hm0). unfold present. destruct (lookup g m); [discriminate|discriminate]. }
  apply (cenv_present g g' m E) in Hpres. unfold present in Hpres. destruct (lookup g' m); [reflexivity|contradiction].
Qed.

Lemma cenv_wf_env g g' : client_env g = Some g' -> wf_env g -> wf_env g'.
Proof.
  intros E Hw. unfold wf_env. rewrite Forall_forall. intros [k s'] Hin. cbn [snd]. unfold wf_props. rewrite Forall_forall.
  intros p Hp. destruct (cenv_schema_origin g g' k s' E Hin p Hp) as (k0 & s0 & H0 & Hp0).
  unfold wf_env in Hw. rewrite Forall_forall in Hw. specialize (Hw (k0, s0) H0). cbn [snd] in Hw.
  unfold wf_props in Hw. rewrite Forall_forall in Hw. exact (Hw p Hp0).
Qed.

Lemma cenv_length g g' : client_env g = Some g' -> length g' = length g.
Proof. intro E. exact (proj1 (client_env_of_spec g g g' E)). Qed.


Lemma walk_no_err g own : all_refs_link g = true -> forall f,
  (forall k vis e, present g k -> walk_ref f g own k vis <> Err e) /\
  (forall ks vis e, (forall k, In k ks -> present g k) -> walk_refs f g own ks vis <> Err e).
Proof.
  intro Hl. induction f as [|f [IH1 IH2]].
  - split; [intros k vis e _; discriminate|].
    intros ks vis e _. destruct ks as [|m r]; [rewrite walk_refs_nil; discriminate|].
    rewrite walk_refs_cons. cbn [walk_ref]. discriminate.
  - assert (H1 : forall k vis e, present g k -> walk_ref (S f) g own k vis <> Err e).
    { intros k vis e Hp. rewrite walk_ref_unfold. unfold present in Hp.
      destruct (lookup g k) as [s|] eqn:Ek; [|contradiction].
      destruct (mem_key k vis); [discriminate|]. apply IH2. apply (linked_succs g k s Hl Ek). }
    split; [exact H1|].
    intros ks. induction ks as [|m r IHr]; intros vis e Hp.
    + rewrite walk_refs_nil. discriminate.
    + rewrite walk_refs_cons. destruct (walk_ref (S f) g own m vis) as [v1|c|s|] eqn:E; try discriminate.
      * apply IHr. intros k Hk. apply Hp. right. exact Hk.
      * exfalso. apply (H1 m vis c); [apply Hp; left; reflexivity|exact E].
Qed.

Lemma walk_refs_ok g own ks : all_refs_link g = true -> (forall k, In k ks -> present g k) ->
  exists vis', walk_refs (S (length g)) g own ks [] = Ok vis'.
Proof.
  intros Hl Hp. pose proof (walk_refs_terminates g own ks) as F.
  destruct (walk_no_err g own Hl (S (length g))) as [_ N].
  destruct (walk_refs (S (length g)) g own ks []) as [v|c|s|] eqn:E; try contradiction.
  - eauto.
  - exfalso. apply (N ks [] c Hp). exact E.
Qed.

(* ---------- list methods: the client stage accepts them on every schema graph ---------------- *)
Definition no_err {A} (o : outcome A) : Prop := forall e, o <> Err e.

Lemma fold_obind_no_err {X P} (body : P -> X -> outcome X) ps init :
  no_err init -> (forall p x, In p ps -> no_err (body p x)) ->
  no_err (fold_left (fun acc p => obind acc (body p)) ps init).
Proof.
  revert init. induction ps as [|p r IH]; intros init Hi Hb; [exact Hi|].
  cbn [fold_left]. apply IH.
  - destruct init as [x|c|s|]; cbn [obind].
    + apply Hb. left. reflexivity.
    + exact Hi.
    + intros e; discriminate.
    + intros e; discriminate.
  - intros q x Hq. apply Hb. right. exact Hq.
Qed.

Lemma no_err_omap {A B} (f : A -> B) o : no_err o -> no_err (omap f o).
Proof. intros H e. destruct o as [a|c|s|]; cbn; try discriminate. intro E. injection E as E. exact (H c eq_refl). Qed.

Lemma direct_ref_succ s p k : In p (schema_props s) -> direct_ref (p_ty p) = Some k -> In k (succs s).
Proof.
  intros Hp Hd. unfold succs, prop_refs. apply in_flat_map. exists p. split; [exact Hp|].
  destruct (p_ty p) as [a|a k'|i|i]; cbn [direct_ref] in Hd; try discriminate.
  destruct (String.eqb a "object" || String.eqb a "oneof"); [|discriminate].
  injection Hd as ->. cbn [ref_of]. left. reflexivity.
Qed.

Lemma walk_fields_no_err g : all_refs_link g = true ->
  forall f k anc path, present g k -> no_err (walk_fields f g k anc path).
Proof.
  intros Hl. induction f as [|f IH]; intros k anc path Hp; [intros e; discriminate|].
  cbn [walk_fields]. unfold present in Hp. destruct (lookup g k) as [s|] eqn:Ek; [|contradiction].
  destruct (mem_key k anc); [intros e; discriminate|].
  apply (fold_obind_no_err (fun p out =>
     match direct_ref (p_ty p) with
     | Some k' => omap (fun sub => out ++ (path ++ [p_json p], p_ty p) :: sub)
                       (walk_fields f g k' (k :: anc) (path ++ [p_json p]))
     | None => Ok (out ++ [(path ++ [p_json p], p_ty p)])
     end)); [intros e; discriminate|].
  intros p out Hin. destruct (direct_ref (p_ty p)) as [k'|] eqn:Ed; [|intros e; discriminate].
  apply no_err_omap. apply IH. apply (linked_succs g k s Hl Ek). eapply direct_ref_succ; eassumption.
Qed.

Lemma fine_no_err_ok {A} (o : outcome A) : fine o -> no_err o -> exists v, o = Ok v.
Proof.
  intros F N. destruct o as [v|c|s|]; try contradiction; [eauto|]. exfalso. exact (N c eq_refl).
Qed.

(* the walk of a list request succeeds on every graph whose references link: recursive item objects
   included (this is what the snapshot's walk without a guard could not do) *)
Theorem list_walk_total g root : all_refs_link g = true -> present g root ->
  exists paths, walk_fields (S (length g)) g root [] [] = Ok paths.
Proof.
  intros Hl Hp. apply fine_no_err_ok; [apply walk_fields_terminates|apply walk_fields_no_err; assumption].
Qed.

(* a list method: a QueryRequest among the request properties, one array of object references in
   the response. The client stage accepts it and attaches the walked paths. *)
Theorem list_method_total (im : image) sub svc (m : src_method) req resp root :
  client_env (im_schemas im) <> None ->
  all_refs_link (im_schemas im) = true ->
  lookup (im_schemas im) (sub_pkg im sub, sm_req m) = Some (SObject req) ->
  str_eqb (sm_resp m) HTTPBODY_SHORT = false ->
  lookup (im_schemas im) (sub_pkg im sub, sm_resp m) = Some (SObject resp) ->
  is_query_request req = true -> list_root (Some resp) = Ok root ->
  exists paths,
    walk_fields (S (length (im_schemas im))) (cenv (im_schemas im)) root [] [] = Ok paths /\
    method_from_source true im sub svc m =
    Ok {| cm_service := svc; cm_name := sm_name m; cm_verb := sm_verb m; cm_path := sm_path m;
          cm_req := fill_request (sm_verb m) (sm_path m) req; cm_resp := Some resp; cm_list := Some paths |}.
Proof.
  intros Hff Hl Lreq Hnb Lresp Hq Hroot.
  assert (Hp : present (im_schemas im) root).
  { (* the root is the item type of the response's array: a successor of the response schema *)
    unfold list_root in Hroot. destruct (array_props resp) as [|i [|i2 r]] eqn:Ea; try discriminate.
    destruct i as [a|a k|i'|i']; try discriminate.
    destruct (String.eqb a "object") eqn:Eo; [|discriminate]. injection Hroot as <-.
    apply (linked_succs (im_schemas im) _ (SObject resp) Hl Lresp).
    unfold succs, prop_refs. cbn [schema_props]. apply in_flat_map.
    assert (Hin : In (TRef a k) (array_props resp)) by (rewrite Ea; left; reflexivity).
    unfold array_props in Hin. apply in_flat_map in Hin as [p [Hp Hi]]. exists p. split; [exact Hp|].
    destruct (p_ty p) as [a0|a0 k0|i0|i0] eqn:Et; try contradiction.
    destruct Hi as [Hi|[]]. subst i0. cbn [ref_of]. left. reflexivity. }
  destruct (client_env (im_schemas im)) as [g'|] eqn:Ece; [|contradiction]. clear Hff.
  rewrite (cenv_spec _ g' Ece).
  destruct (list_walk_total g' root (cenv_refs_link _ g' Ece Hl) (proj2 (cenv_present _ g' root Ece) Hp)) as [paths Ew].
  rewrite (cenv_length _ g' Ece) in Ew. exists paths. split; [exact Ew|].
  unfold method_from_source, object_props. rewrite Lreq. cbn [obind]. rewrite Hnb, Lresp. cbn [obind omap].
  rewrite Hq, Hroot. cbn [obind]. rewrite (cenv_spec _ g' Ece). rewrite Ew. reflexivity.
Qed.

(* ---------- the request / response messages of a method are found ----------------- *)
Section Chain.
Variable to_snake : str -> str.

Definition svc_pkg (pkg : str) : str := pkg ++ DOT :: SERVICE.

Lemma lookup_skip_method pkg d k rest :
  snd k <> df_name d ++ REQUEST -> snd k <> df_name d ++ RESPONSE ->
  lookup (method_schemas pkg d ++ rest) k = lookup rest k.
Proof.
  intros H1 H2. unfold method_schemas. cbn [app lookup].
  rewrite key_eqb_neq by (intro E; apply H1; rewrite E; reflexivity).
  destruct (df_resp d); cbn [app lookup]; [|reflexivity].
  rewrite key_eqb_neq by (intro E; apply H2; rewrite E; reflexivity). reflexivity.
Qed.

Lemma lookup_method pkg : forall ms rest d, In d ms -> NoDup (map df_name ms) ->
  lookup (flat_map (method_schemas pkg) ms ++ rest) (svc_pkg pkg, df_name d ++ REQUEST) = Some (SObject (df_req d))
  /\ (forall ps, df_resp d = Some ps ->
        lookup (flat_map (method_schemas pkg) ms ++ rest) (svc_pkg pkg, df_name d ++ RESPONSE) = Some (SObject ps)).
Proof.
  induction ms as [|m r IH]; intros rest d Hin Hnd; [contradiction|].
  cbn [flat_map map] in *. inversion Hnd as [|? ? Hnotin Hnd']; subst. rewrite <- app_assoc.
  destruct Hin as [->|Hin].
  - split.
    + unfold method_schemas. cbn [app lookup]. unfold svc_pkg. rewrite key_eqb_refl. reflexivity.
    + intros ps Hps. unfold method_schemas. rewrite Hps. cbn [app lookup]. unfold svc_pkg.
      rewrite key_eqb_neq by (intros [= E]; symmetry in E; exact (request_neq_response _ _ E)).
      rewrite key_eqb_refl. reflexivity.
  - assert (Hne : df_name d <> df_name m).
    { intro E. apply Hnotin. rewrite <- E. apply in_map. exact Hin. }
    destruct (IH rest d Hin Hnd') as [I1 I2]. split.
    + rewrite lookup_skip_method; [exact I1| |].
      * cbn [snd]. intro E. apply app_inv_tail in E. contradiction.
      * cbn [snd]. apply request_neq_response.
    + intros ps Hps. rewrite lookup_skip_method; [exact (I2 ps Hps)| |].
      * cbn [snd]. intro E. symmetry in E. exact (request_neq_response _ _ E).
      * cbn [snd]. intro E. apply app_inv_tail in E. contradiction.
Qed.

(* ---------- one method through the client stage -------------------------------------- *)
Lemma method_from_source_declared (P : decl_package) svc d :
  In d (all_methods P) -> NoDup (map df_name (all_methods P)) ->
  client_env (im_schemas (compile_image to_snake P)) <> None ->
  all_refs_link (im_schemas (compile_image to_snake P)) = true ->
  (is_query_request (df_req d) = true -> exists root, list_root (df_resp d) = Ok root) ->
  method_from_source true (compile_image to_snake P) SERVICE (svc ++ bytes_of "Service") (declared_src (df_decl d))
  = Ok (declared_client (im_schemas (compile_image to_snake P)) svc d).
Proof.
  intros Hin Hnd Hff Hl Hq.
  destruct (lookup_method (dp_pkg P) (all_methods P) (dp_schemas P) d Hin Hnd) as [L1 L2].
  destruct (is_query_request (df_req d)) eqn:Eq.
  - (* a list method *)
    destruct (Hq eq_refl) as [root Hroot].
    destruct (df_resp d) as [ps|] eqn:Er; [|cbn in Hroot; discriminate].
    assert (Hnb : str_eqb (sm_resp (declared_src (df_decl d))) HTTPBODY_SHORT = false).
    { cbn [declared_src df_decl sm_resp dm_raw dm_name]. rewrite Er. apply str_eqb_neq. apply response_neq_httpbody. }
    assert (Lq : lookup (im_schemas (compile_image to_snake P))
                   (sub_pkg (compile_image to_snake P) SERVICE, sm_req (declared_src (df_decl d))) = Some (SObject (df_req d))) by exact L1.
    assert (Lr : lookup (im_schemas (compile_image to_snake P))
                   (sub_pkg (compile_image to_snake P) SERVICE, sm_resp (declared_src (df_decl d))) = Some (SObject ps)).
    { cbn [declared_src df_decl sm_resp dm_raw dm_name]. rewrite Er. exact (L2 ps eq_refl). }
    destruct (list_method_total (compile_image to_snake P) SERVICE (svc ++ bytes_of "Service") (declared_src (df_decl d))
                (df_req d) ps root Hff Hl Lq Hnb Lr Eq Hroot) as (paths & Ew & Em).
    rewrite Em. unfold declared_client, declared_list. rewrite Eq, Er, Hroot, Ew.
    cbn [declared_src df_decl sm_name sm_verb sm_path dm_name dm_verb]. unfold decl_path. cbn [dm_parts]. reflexivity.
  - unfold method_from_source.
    unfold object_props, sub_pkg. cbn [compile_image im_schemas im_pkg declared_src df_decl dm_name dm_raw sm_req sm_resp sm_name sm_verb sm_path dm_verb].
    change (dp_pkg P ++ DOT :: SERVICE) with (svc_pkg (dp_pkg P)).
    change (df_name d ++ bytes_of "Request") with (df_name d ++ REQUEST).
    match goal with |- context [lookup ?g ?k] =>
      match k with (_, df_name d ++ REQUEST) =>
        let E := fresh "E" in assert (E : lookup g k = Some (SObject (df_req d))) by exact L1; rewrite E; clear E
      end end.
    cbn [obind]. rewrite Eq.
    destruct (df_resp d) as [ps|] eqn:Er.
    + change (df_name d ++ bytes_of "Response") with (df_name d ++ RESPONSE).
      replace (str_eqb (df_name d ++ RESPONSE) HTTPBODY_SHORT) with false
        by (symmetry; apply str_eqb_neq; apply response_neq_httpbody).
      match goal with |- context [lookup ?g ?k] =>
        match k with (_, df_name d ++ RESPONSE) =>
          let E := fresh "E" in assert (E : lookup g k = Some (SObject ps)) by exact (L2 ps eq_refl); rewrite E; clear E
        end end.
      cbn [obind omap]. unfold declared_client, declared_list, decl_path. cbn [df_decl dm_parts].
      rewrite Eq, Er. reflexivity.
    + replace (str_eqb (bytes_of "HttpBody") HTTPBODY_SHORT) with true by (symmetry; apply str_eqb_eq; reflexivity).
      cbn [obind omap].
      unfold declared_client, declared_list, decl_path. cbn [df_decl dm_parts]. rewrite Eq, Er. reflexivity.
Qed.
End Chain.

(* ---------- the chain on a declared package ----------------------------------------------- *)
Section Full.
Variable to_snake : str -> str.

Definition decl_services (P : decl_package) : list decl_service :=
  map (fun s => {| ds_name := fst s; ds_methods := map df_decl (snd s) |}) (dp_services P).

Definition declared_api (P : decl_package) : src_api :=
  {| sa_services := map declared_service (decl_services P); sa_topics := map declared_topic (dp_topics P) |}.

Lemma in_all_methods (P : decl_package) s d : In s (dp_services P) -> In d (snd s) -> In d (all_methods P).
Proof. intros Hs Hd. unfold all_methods. apply in_flat_map. exists s. split; assumption. Qed.

Lemma source_declared P : valid_package to_snake P ->
  add_structure (im_services (compile_image to_snake P)) {| sa_services := []; sa_topics := [] |} = Ok (declared_api P).
Proof.
  intros (Hwf & _). cbn [compile_image im_services].
  replace (map (fun s => compile_service to_snake {| ds_name := fst s; ds_methods := map df_decl (snd s) |}) (dp_services P))
    with (map (compile_service to_snake) (decl_services P)) by (unfold decl_services; rewrite map_map; reflexivity).
  rewrite (add_structure_app _ _ _ {| sa_services := map declared_service (decl_services P); sa_topics := [] |}).
  - rewrite add_structure_topics. reflexivity.
  - rewrite add_structure_declared; [reflexivity|].
    unfold decl_services. apply Forall_forall. intros s Hs. apply in_map_iff in Hs as [s0 [<- Hs0]].
    cbn [ds_methods]. apply Forall_forall. intros dm Hdm. apply in_map_iff in Hdm as [d [<- Hd]].
    rewrite Forall_forall in Hwf. apply Hwf. eapply in_all_methods; eassumption.
Qed.

Lemma methods_declared P : valid_package to_snake P ->
  methods_from_source true (compile_image to_snake P) (declared_api P) = Ok (declared_clients to_snake P).
Proof.
  intros (_ & Hnd & Hq & Hl & _ & Hff). unfold methods_from_source. rewrite Hl. cbn [negb].
  fold (compile_image to_snake P).
  unfold declared_api. cbn [sa_services]. unfold decl_services. rewrite map_map, omapM_map.
  rewrite (omapM_ok _ (fun s => map (declared_client (im_schemas (compile_image to_snake P)) (fst s)) (snd s))).
  - cbn [omap obind]. rewrite concat_map_flat_map. reflexivity.
  - intros s Hs. unfold declared_service. cbn [ss_methods ss_sub ss_name ds_name ds_methods].
    rewrite map_map, omapM_map. apply omapM_ok.
    intros d Hd. change (bytes_of "service") with SERVICE.
    apply method_from_source_declared.
    + eapply in_all_methods; eassumption.
    + exact Hnd.
    + exact Hff.
    + exact Hl.
    + rewrite Forall_forall in Hq. apply Hq. eapply in_all_methods; eassumption.
Qed.
End Full.

Section Full2.
Variable to_snake : str -> str.

Lemma prop_refs_incl_filter f ps k : In k (prop_refs (filter f ps)) -> In k (prop_refs ps).
Proof.
  unfold prop_refs. rewrite !in_flat_map. intros [p [Hp Hk]]. apply filter_In in Hp as [Hp _].
  exists p. split; assumption.
Qed.

Lemma fill_request_refs verb path ps k :
  In k ((match r_body (fill_request verb path ps) with Some b => prop_refs b | None => [] end)
        ++ prop_refs (r_path (fill_request verb path ps)) ++ prop_refs (r_query (fill_request verb path ps))) ->
  In k (prop_refs ps).
Proof.
  unfold fill_request. destruct (has_body verb); cbn [r_body r_path r_query]; intro H;
    repeat (apply in_app_or in H as [H|H]); try contradiction;
    try (eapply prop_refs_incl_filter; exact H).
Qed.

Lemma wf_props_filter f ps : wf_props ps -> wf_props (filter f ps).
Proof.
  unfold wf_props. intro H. apply Forall_forall. intros p Hp. apply filter_In in Hp as [Hp _].
  rewrite Forall_forall in H. apply H. exact Hp.
Qed.

Lemma fill_request_wf verb path ps : wf_props ps -> wf_request (fill_request verb path ps).
Proof.
  intro H. unfold wf_request, fill_request, body_list. destruct (has_body verb); cbn [r_path r_query r_body];
    repeat split; try (apply wf_props_filter; exact H); constructor.
Qed.

Definition image_env (P : decl_package) : env := im_schemas (compile_image to_snake P).

Lemma declared_method_facts P s d : valid_package to_snake P -> In s (dp_services P) -> In d (snd s) ->
  (forall k, In k (method_roots (declared_client (image_env P) (fst s) d)) -> present (image_env P) k)
  /\ wf_client_method (declared_client (image_env P) (fst s) d).
Proof.
  intros (_ & Hnd & _ & Hl & Hwf & _) Hs Hd.
  pose proof (in_all_methods P s d Hs Hd) as Hin.
  destruct (lookup_method (dp_pkg P) (all_methods P) (dp_schemas P) d Hin Hnd) as [L1 L2].
  split.
  - intros k Hk. unfold method_roots, declared_client in Hk. cbn [cm_req cm_resp] in Hk.
    rewrite !app_assoc in Hk. apply in_app_or in Hk as [Hk|Hk].
    + rewrite <- app_assoc in Hk. apply fill_request_refs in Hk.
      apply (linked_succs (image_env P) _ (SObject (df_req d)) Hl L1). exact Hk.
    + destruct (df_resp d) as [ps|] eqn:Er; [|contradiction].
      apply (linked_succs (image_env P) _ (SObject ps) Hl (L2 ps eq_refl)). exact Hk.
  - unfold wf_client_method, declared_client. cbn [cm_req cm_resp]. split.
    + apply fill_request_wf. apply (lookup_wf (image_env P) _ (SObject (df_req d)) Hwf L1).
    + destruct (df_resp d) as [ps|] eqn:Er; [|exact I].
      apply (lookup_wf (image_env P) _ (SObject ps) Hwf (L2 ps eq_refl)).
Qed.

(* C16 at full strength for declared packages without list methods *)
Theorem chain_full : forall P, valid_package to_snake P ->
  let r := run_chain current_config (compile_image to_snake P) in
  exists ks,
    cr_source r = Ok (declared_api P)
    /\ cr_client r = Ok (declared_clients to_snake P, ks)
    /\ (forall x, In x ks <->
          present (cenv (image_env P)) x /\
          exists k, In k (flat_map method_roots (declared_clients to_snake P)) /\ present (cenv (image_env P)) k
                    /\ reach (cenv (image_env P)) k x)
    /\ cr_swagger r = Ok tt.
Proof.
  intros P Hv. cbv zeta. unfold run_chain, run_client. cbn [cr_source cr_client cr_swagger current_config cc_walk_guard cc_arms cc_resp_guard].
  assert (Hff : client_env (im_schemas (compile_image to_snake P)) <> None) by (destruct Hv as (_ & _ & _ & _ & _ & H); exact H).
  destruct (client_env (im_schemas (compile_image to_snake P))) as [g'|] eqn:Ece; [|contradiction].
  pose proof (cenv_spec _ g' Ece) as Ec.
  rewrite (source_declared to_snake P Hv). cbn [obind]. rewrite Ec.
  rewrite (methods_declared to_snake P Hv). cbn [obind].
  assert (Hroots : forall k, In k (flat_map method_roots (declared_clients to_snake P)) -> present g' k).
  { intros k Hk. apply (cenv_present _ g' k Ece). apply in_flat_map in Hk as [m [Hm Hk]]. unfold declared_clients in Hm.
    apply in_flat_map in Hm as [s [Hs Hm]]. apply in_map_iff in Hm as [d [<- Hd]].
    destruct (declared_method_facts P s d Hv Hs Hd) as [H _]. apply H. exact Hk. }
  assert (Hl : all_refs_link (image_env P) = true) by (destruct Hv as (_ & _ & _ & H & _); exact H).
  assert (Hl' : all_refs_link g' = true) by (exact (cenv_refs_link _ g' Ece Hl)).
  unfold collect_refs. rewrite Ec. cbn [compile_image im_roots im_pkg]. unfold root_refs. cbn [flat_map app].
  destruct (walk_refs_ok g' [dp_pkg P] _ Hl' Hroots) as [ks Eks].
  rewrite (cenv_length _ g' Ece) in Eks.
  change (im_schemas (compile_image to_snake P)) with (image_env P) in *.
  unfold image_env in Eks |- *. cbn [compile_image im_schemas] in Eks |- *.
  rewrite Eks. cbn [omap obind fst snd]. exists ks.
  split; [reflexivity|]. split; [reflexivity|]. split.
  - assert (Ec' : cenv (flat_map (method_schemas (dp_pkg P)) (all_methods P) ++ dp_schemas P) = g') by exact Ec.
    rewrite Ec'. exact (walk_refs_exact g' [dp_pkg P] _ _ ks Eks).
  - apply build_swagger_total.
    + apply (cenv_wf_env (image_env P) g' Ece). destruct Hv as (_ & _ & _ & _ & H & _). exact H.
    + apply Forall_forall. intros m Hm. unfold declared_clients in Hm.
      apply in_flat_map in Hm as [s [Hs Hm]]. apply in_map_iff in Hm as [d [<- Hd]].
      destruct (declared_method_facts P s d Hv Hs Hd) as [_ H]. exact H.
Qed.
End Full2.


(* CodecDecFull.v — the statement of C03 in one piece, over the whole call JSONToProto
   (descent + end-of-input check, CodecDec.decode_document), and its proof from the parts:
     exactness   proofs/CodecDecDenote.v   (what the document denotes, nothing else stored)
     spellings   proofs/CodecDecLenient.v  (respelled leaves, member order, explicit nulls, at any depth)
     rejection   proofs/CodecDecFaults.v   (a fault of a listed class at any position) + trailing data *)
From Coq Require Import String List NArith ZArith Bool Lia Permutation.
From J5V.lib Require Import Outcome Json.
From J5V.model Require Import CodecTypes CodecDecScalar CodecDec CodecDecTree CodecDecCommute.
From J5V.proofs Require Import CodecDecProofs CodecDecTreeProofs CodecDecStored CodecDecFaults CodecDecReorder
                               CodecDecOneofReorder CodecDecLenient CodecDecDenote.
Import ListNotations.
Local Open Scope N_scope.

(* every property set of the environment writes to separate proto paths (CodecDecStored.props_separate) *)
Definition env_sep (e : env) : Prop :=
  forall name props, lookup e name = Some (SObject props) \/ lookup e name = Some (SOneof props) ->
                     props_separate e props.

Lemma env_separate_sound e : env_separate e = true -> env_sep e.
Proof.
  intros H name props Hl. unfold env_separate in H. rewrite forallb_forall in H.
  destruct Hl as [Hl | Hl]; destruct (lookup_In e _ _ Hl) as (n & Hin); specialize (H _ Hin); cbn [snd] in H;
    apply props_separate_b_sound; exact H.
Qed.

(* what the member list of the root denotes, for either sort of root *)
Definition doc_denotes (orc : oracles) (e : env) (root : bytes) (ms : list (bytes * jvalue)) (m' : msg) : Prop :=
  (exists props, lookup e root = Some (SObject props) /\ denotes_msg orc e props ms m') \/
  (exists props, lookup e root = Some (SOneof props) /\ denotes orc e (FOneof root) (JObj ms) (VMsg m')).

(* a documented alternate spelling of a document: any combination, at any depth, of respelled leaves
   (CodecDecLenient.lenient: two spellings the field kind's conversion maps to the same result — quoted /
   bare numbers, the base64 forms, enum prefix, timestamp offsets), permuted members and added explicit
   nulls; white space is below this level: it never reaches the token list *)
Inductive doc_variant (orc : oracles) (e : env) (root : bytes) (ms ms' : list (bytes * jvalue)) : Prop :=
| DV_object props nulls ms1 :
    lookup e root = Some (SObject props) -> null_members props nulls -> (nulls = [] \/ ms <> []) ->
    Permutation (nulls ++ ms) ms1 -> lenient_members orc e props ms1 ms' -> doc_variant orc e root ms ms'
| DV_oneof props ms1 :
    lookup e root = Some (SOneof props) -> Permutation ms ms1 -> (type_count ms <= 1)%nat ->
    lenient_members orc e props ms1 ms' -> doc_variant orc e root ms ms'.

(* a member that cannot be represented in its target field, at any position *)
Definition doc_fault (orc : oracles) (e : env) (root : bytes) (ms : list (bytes * jvalue)) : Prop :=
  (exists props, lookup e root = Some (SObject props) /\ faulty_members orc e props ms) \/
  (exists props, lookup e root = Some (SOneof props) /\ faulty_oneof orc e props ms).

Definition C03_full_statement : Prop :=
  forall orc e root, env_separate e = true -> env_commute e = true ->
  (* success: every non-null member is stored with exactly the value it denotes, nothing else is stored,
     and the text was one document *)
  (forall bs ms rest me m',
     lex bs = (tokens_of (JObj ms) ++ rest, me) -> decode_document orc e root bs = Ok m' ->
     rest = [] /\ lex_at_eof bs = true /\ doc_denotes orc e root ms m') /\
  (* alternate spellings give the same message *)
  (forall bs bs' ms ms' me me' m',
     lex bs = (tokens_of (JObj ms), me) -> lex_at_eof bs = true ->
     lex bs' = (tokens_of (JObj ms'), me') -> lex_at_eof bs' = true ->
     doc_variant orc e root ms ms' ->
     decode_document orc e root bs = Ok m' -> decode_document orc e root bs' = Ok m') /\
  (* an unrepresentable member, or anything after the document, is an error: never dropped *)
  (forall bs ms rest me,
     lex bs = (tokens_of (JObj ms) ++ rest, me) ->
     doc_fault orc e root ms \/ rest <> [] \/ lex_at_eof bs = false ->
     is_err (decode_document orc e root bs) = true).

Lemma obind_ok {A B} (o : outcome A) (k : A -> outcome B) b : obind o k = Ok b -> exists a, o = Ok a /\ k a = Ok b.
Proof. destruct o; cbn; intros H; try discriminate. eauto. Qed.

Lemma end_of_input_ok rest eof : end_of_input rest eof = Ok tt -> rest = [] /\ eof = true.
Proof. unfold end_of_input. destruct rest; [destruct eof|]; intros H; try discriminate. split; reflexivity. Qed.

Theorem C03_full : C03_full_statement.
Proof.
  intros orc e root Hs Hc. pose proof (env_separate_sound e Hs) as Hsep.
  pose proof (env_ok_of_check e Hc) as Hok.
  split; [|split].
  - intros bs ms rest me m' Hlex H.
    rewrite (decode_document_tree orc e root bs (JObj ms) rest me Hlex) in H.
    apply obind_ok in H. destruct H as (m0 & Ht & H). apply obind_ok in H. destruct H as ([] & He & H).
    assert (Em : m0 = m') by (cbv beta in H; congruence). subst m0. apply end_of_input_ok in He. destruct He as [-> He]. split; [reflexivity|]. split; [exact He|].
    destruct (decoded_is_denoted orc e Hsep root (JObj ms) m' _ Ht) as (ms0 & E & D). inversion E; subst ms0. exact D.
  - intros bs bs' ms ms' me me' m' Hlex He Hlex' He' V H.
    rewrite (decode_document_tree_clean orc e root bs (JObj ms) me Hlex He) in H.
    rewrite (decode_document_tree_clean orc e root bs' (JObj ms') me' Hlex' He').
    assert (Hl : lex bs = (tokens_of (JObj ms) ++ [], me)) by (rewrite app_nil_r; exact Hlex).
    assert (Hl' : lex bs' = (tokens_of (JObj ms') ++ [], me')) by (rewrite app_nil_r; exact Hlex').
    rewrite <- (decode_bytes_tree orc e root bs (JObj ms) [] me Hl) in H.
    rewrite <- (decode_bytes_tree orc e root bs' (JObj ms') [] me' Hl').
    destruct V as [props nulls ms1 Hp Hn Hne HP HL | props ms1 Hp HP Htc HL].
    + exact (lenient_document orc e root props bs bs' ms nulls ms1 ms' [] [] me me' m' Hok Hp Hl Hl' Hn Hne HP HL H).
    + exact (lenient_document_oneof orc e root props bs bs' ms ms1 ms' [] [] me me' m' Hok Hp Hl Hl' HP Htc HL H).
  - intros bs ms rest me Hlex H.
    destruct (decode_document_total orc e root bs) as [Hp Hf].
    destruct (decode_document orc e root bs) as [m'| | |] eqn:E; try reflexivity; try discriminate; try congruence.
    exfalso. destruct H as [HF | HR].
    + pose proof (faulty_document_rejected orc e root bs ms rest me Hlex HF) as Hr.
      apply decode_document_ok in E. destruct E as [E _]. rewrite E in Hr. discriminate.
    + rewrite (decode_document_tree orc e root bs (JObj ms) rest me Hlex) in E.
      apply obind_ok in E. destruct E as (m0 & _ & E). apply obind_ok in E. destruct E as ([] & He & _).
      apply end_of_input_ok in He. destruct He as [-> He]. destruct HR as [HR | HR]; congruence.
Qed.

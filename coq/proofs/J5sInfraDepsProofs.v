(* J5sInfraDepsProofs.v — the infrastructure files a declaration needs reach the dependency list
   of the generated file it goes to (the package-level lift of J5sInfraProofs, in the shape of
   J5sDepsProofs.compile_refs_imported for references).
   [needs_*]: the infrastructure files of a declaration, read off the source with the per-type
   lists that J5sInfraProofs ties to the translator-read tables of fields.go / conversion.go /
   service.go: the scalar's always-ensured files (scalar_core), the annotation / validation
   imports of references and inline types, the `required` block, arrays, message options,
   methods (google.api.http, HttpBody without response), topics (messaging, Empty). *)
From Coq Require Import String List NArith Bool Lia.
From J5V.lib Require Import Outcome Corr.
From J5V.model Require Import J5sAst Desc J5sWalk J5sLink J5sConvert J5sContract J5sValid.
From J5V.proofs Require Import J5sProofs J5sContractProofs J5sLinkProofs J5sResolveProofs J5sServiceProofs
  J5sSymbolProofs J5sTotalProofs J5sCompileProofs J5sSubPkgProofs J5sDepsProofs J5sInfraProofs.
Import ListNotations.
Local Open Scope N_scope.

(* ------------------------------------------------------------------ what a declaration needs *)
Fixpoint needs_field (f : field) {struct f} : list str :=
  match f with
  | FScalar s => fc_imports (scalar_core s)
  | FObjRef _ | FOneofRef _ => ref_infra false
  | FEnumRef _ => ref_infra true
  | FObjInline _ ps | FOneofInline _ ps => imp_ext :: needs_props ps
  | FEnumInline _ => [imp_ext; imp_validate]
  | FArray it | FMap it => needs_field it
  end
with needs_props (ps : props) {struct ps} : list str :=
  match ps with PNil => [] | PCons p r => needs_property p ++ needs_props r end
with needs_property (p : property) {struct p} : list str :=
  match p with
  | Property _ rq _ f =>
      needs_field f ++ (match f with FArray _ => [imp_ext] | _ => [] end) ++ (if rq then [imp_validate; imp_ext] else [])
  end.

Fixpoint needs_nested (n : nested) {struct n} : list str :=
  match n with
  | NObject _ ps subs | NOneof _ ps subs => imp_ext :: needs_props ps ++ needs_nesteds subs
  | NEnum _ => []
  end
with needs_nesteds (ns : nesteds) {struct ns} : list str :=
  match ns with NNil => [] | NCons n r => needs_nested n ++ needs_nesteds r end.

Definition needs_method (m : method) : list str :=
  (imp_ext :: needs_props (m_request m)) ++
  match m_response m with Some ps => imp_ext :: needs_props ps | None => [imp_httpbody] end ++ [imp_http].
Definition needs_tmsgs (virt : props) (l : list tmsg) : list str :=
  flat_map (fun t => imp_ext :: needs_props (papp virt (tm_fields t))) l.
Definition needs_topic (t : topic) : list str :=
  match t with
  | TPublish _ msgs => needs_tmsgs PNil msgs ++ [imp_messaging; imp_empty]
  | TReqRes _ rq rp => (needs_tmsgs virt_request rq ++ [imp_messaging; imp_empty]) ++ (needs_tmsgs virt_request rp ++ [imp_messaging; imp_empty])
  | TUpsert _ _ m => needs_tmsgs virt_upsert [m] ++ [imp_messaging; imp_empty]
  | TEvent _ _ m => needs_tmsgs PNil [m] ++ [imp_messaging; imp_empty]
  end.

Definition main_needs (e : element) : list str :=
  match e with
  | EObject nm ps subs => needs_nested (NObject nm ps subs)
  | EOneof nm ps subs => needs_nested (NOneof nm ps subs)
  | _ => []
  end.
Definition service_needs (e : element) : list str :=
  match e with EService s => flat_map needs_method (sv_methods s) | _ => [] end.
Definition topic_needs (e : element) : list str :=
  match e with ETopic t => needs_topic t | _ => [] end.

Section Chain.
Variables snake camel screaming : str -> str.
Variable ev : env.
Notation cv_item := (cv_item snake camel screaming).
Notation cv_props := (cv_props snake camel screaming).
Notation cv_property := (cv_property snake camel screaming).
Notation cv_nested := (cv_nested snake camel screaming).
Notation cv_nesteds := (cv_nesteds snake camel screaming).
Notation cv_virtual := (cv_virtual snake camel screaming).
Notation cv_method := (cv_method snake camel screaming).
Notation cv_methods := (cv_methods snake camel screaming).
Notation cv_tmsgs := (cv_tmsgs snake camel screaming).
Notation accept_topic := (accept_topic snake camel screaming).
Notation cv_topic := (cv_topic snake camel screaming).
Notation cv_elements := (cv_elements snake camel screaming).

Lemma ref_core_needs r we c : ref_core ev r we = Ok c -> incl (ref_infra we) (fc_imports c).
Proof.
  intros H. destruct (ref_imports_from_go_table ev r we c H) as (t & _ & E). rewrite E. apply incl_tl. apply incl_refl.
Qed.

Theorem convert_needs :
  (forall f, (forall path dflt c, cv_item ev path dflt f = Ok c -> incl (needs_field f) (fc_imports c)) /\
             match f with
             | FArray it | FMap it => forall path dflt c, cv_item ev path dflt it = Ok c -> incl (needs_field it) (fc_imports c)
             | _ => True
             end) /\
  (forall ps path io n r, cv_props ev path io n ps = Ok r -> incl (needs_props ps) (pr_imports r)) /\
  (forall p path io n r, cv_property ev path io n p = Ok r -> incl (needs_property p) (pr_imports r)).
Proof.
  apply ast_mutind.
  - intros s. split; [|exact I]. intros path dflt c H. cbn in H. inversion H. apply incl_refl.
  - intros r. split; [|exact I]. intros path dflt c H. cbn in H. exact (ref_core_needs _ _ _ H).
  - intros nm ps IH. split; [|exact I]. intros path dflt c H. rewrite (cv_item_obj snake camel screaming) in H.
    apply obind_ok in H. destruct H as (a & E & H). inversion H. subst c. cbn [fc_imports needs_field].
    intros x [<-|Hx]; [left; reflexivity|right; exact (IH _ _ _ _ E x Hx)].
  - intros r. split; [|exact I]. intros path dflt c H. cbn in H. exact (ref_core_needs _ _ _ H).
  - intros nm ps IH. split; [|exact I]. intros path dflt c H. rewrite (cv_item_oneof snake camel screaming) in H.
    apply obind_ok in H. destruct H as (a & E & H). inversion H. subst c. cbn [fc_imports needs_field].
    intros x [<-|Hx]; [left; reflexivity|right; exact (IH _ _ _ _ E x Hx)].
  - intros r. split; [|exact I]. intros path dflt c H. cbn in H. exact (ref_core_needs _ _ _ H).
  - intros e. split; [|exact I]. intros path dflt c H. cbn [J5sConvert.cv_item] in H. inversion H. apply incl_refl.
  - intros it [IH _]. split; [|exact IH]. intros path dflt c H. cbn in H. discriminate.
  - intros it [IH _]. split; [|exact IH]. intros path dflt c H. cbn in H. discriminate.
  - intros path io n r H. cbn in H. inversion H. intros x [].
  - intros p IHp ps IHps path io n r H. rewrite (cv_props_cons snake camel screaming) in H.
    apply obind_ok in H. destruct H as (a & E & H). apply obind_ok in H. destruct H as (c & E0 & H).
    inversion H. subst r. cbn [needs_props pres_app pr_imports].
    apply incl_app; [apply incl_appl; exact (IHp _ _ _ _ E)|apply incl_appr; exact (IHps _ _ _ _ E0)].
  - intros n rq op f [IH IHit] path io num r H. rewrite (cv_property_eq snake camel screaming) in H.
    cbn [needs_property].
    assert (Hreq : forall c lbl ty tn msgs imps,
              finish io rq op (snake n) n num c lbl ty tn msgs imps = Ok r ->
              incl imps (pr_imports r) /\ incl (if rq then [imp_validate; imp_ext] else []) (pr_imports r)).
    { intros c lbl ty tn msgs imps Hf. split; [exact (finish_imports _ _ _ _ _ _ _ _ _ _ _ _ _ Hf)|].
      unfold finish in Hf. destruct (rq && op); [discriminate|]. destruct (io && _); [discriminate|].
      inversion Hf. cbn [pr_imports]. apply incl_appr. apply incl_refl. }
    destruct f as [s|rf0|nm ps|rf0|nm ps|rf0|e|it|it];
      apply obind_ok in H; destruct H as (a & E & H); try (destruct io; [discriminate|]);
      destruct (Hreq _ _ _ _ _ _ H) as [Hinc Hrq].
    1-7: apply incl_app; [intros x Hx; apply Hinc; exact (IH _ _ _ E x Hx)|exact Hrq].
    + apply incl_app; [intros x Hx; apply Hinc; right; apply in_or_app; left; exact (IHit _ _ _ E x Hx)|].
      apply incl_app; [intros x [<-|[]]; apply Hinc; left; reflexivity|exact Hrq].
    + apply incl_app; [intros x Hx; apply Hinc; exact (IHit _ _ _ E x Hx)|exact Hrq].
Qed.

Lemma props_needs ps path io n r : cv_props ev path io n ps = Ok r -> incl (needs_props ps) (pr_imports r).
Proof. exact (proj1 (proj2 convert_needs) ps path io n r). Qed.

Theorem nested_needs :
  (forall n path ms es is, cv_nested ev path n = Ok (ms, es, is) -> incl (needs_nested n) is) /\
  (forall ns path ms es is, cv_nesteds ev path ns = Ok (ms, es, is) -> incl (needs_nesteds ns) is).
Proof.
  apply nested_mutind.
  - intros nm ps subs IH path ms es is H. rewrite (cv_nested_obj snake camel screaming) in H.
    apply obind_ok in H. destruct H as (a & E & H). apply obind_ok in H. destruct H as ([[sm se] si] & E0 & H).
    inversion H. subst ms es is. clear H. cbn [needs_nested].
    intros x [<-|Hx]; [left; reflexivity|right]. apply in_app_or in Hx. apply in_or_app.
    destruct Hx as [Hx|Hx]; [left; exact (props_needs _ _ _ _ _ E x Hx)|right; exact (IH _ _ _ _ E0 x Hx)].
  - intros nm ps subs IH path ms es is H. rewrite (cv_nested_oneof snake camel screaming) in H.
    apply obind_ok in H. destruct H as (a & E & H). apply obind_ok in H. destruct H as ([[sm se] si] & E0 & H).
    inversion H. subst ms es is. clear H. cbn [needs_nested].
    intros x [<-|Hx]; [left; reflexivity|right]. apply in_app_or in Hx. apply in_or_app.
    destruct Hx as [Hx|Hx]; [left; exact (props_needs _ _ _ _ _ E x Hx)|right; exact (IH _ _ _ _ E0 x Hx)].
  - intros e path ms es is H x [].
  - intros path ms es is H x [].
  - intros n IHn r IHr path ms es is H. rewrite (cv_nesteds_cons snake camel screaming) in H.
    apply obind_ok in H. destruct H as ([[am ae] ai] & E & H). apply obind_ok in H. destruct H as ([[cm ce] ci] & E0 & H).
    inversion H. subst ms es is. clear H. cbn [needs_nesteds].
    apply incl_app; [apply incl_appl; exact (IHn _ _ _ _ E)|apply incl_appr; exact (IHr _ _ _ _ E0)].
Qed.

Lemma virtual_needs name virt decl m is :
  cv_virtual ev name virt decl = Ok (m, is) -> incl (imp_ext :: needs_props (papp virt decl)) is.
Proof.
  unfold J5sConvert.cv_virtual. intros H. apply obind_ok in H. destruct H as (a & E & H). inversion H. subst m is.
  intros x [<-|Hx]; [left; reflexivity|right; exact (props_needs _ _ _ _ _ E x Hx)].
Qed.

Lemma method_needs base m ms dm is :
  cv_method ev base m = Ok (ms, dm, is) -> incl (needs_method m) is.
Proof.
  unfold J5sConvert.cv_method. intros H.
  apply obind_ok in H. destruct H as ([rq rqi] & Erq & H).
  apply obind_ok in H. destruct H as ([[rmsgs outn] rimps] & Ers & H).
  apply obind_ok in H. destruct H as (h & _ & H). inversion H. subst ms dm is. clear H.
  unfold needs_method. cbn [snd]. apply incl_app; [|apply incl_app].
  - apply incl_appl. exact (virtual_needs _ _ _ _ _ Erq).
  - apply incl_appr. apply incl_appl. destruct (m_response m) as [ps|].
    + apply obind_ok in Ers. destruct Ers as ([rs rsi] & Ev & Ers). inversion Ers. subst. cbn [snd].
      exact (virtual_needs _ _ _ _ _ Ev).
    + inversion Ers. subst. apply incl_refl.
  - apply incl_appr. apply incl_appr. apply incl_refl.
Qed.

Lemma methods_needs base l : forall ms ds is,
  cv_methods ev base l = Ok (ms, ds, is) -> incl (flat_map needs_method l) is.
Proof.
  induction l as [|m r IH]; intros ms ds is H; cbn [J5sConvert.cv_methods] in H; [intros x []|].
  apply obind_ok in H. destruct H as ([[am ad] ai] & Ea & H).
  apply obind_ok in H. destruct H as ([[cm cd] ci] & Ec & H). inversion H. subst. clear H. cbn [flat_map].
  apply incl_app; [apply incl_appl; exact (method_needs _ _ _ _ _ Ea)|apply incl_appr; exact (IH _ _ _ Ec)].
Qed.

Lemma tmsgs_needs tname single virt l : forall ms ds is,
  cv_tmsgs ev tname single virt l = Ok (ms, ds, is) -> incl (needs_tmsgs virt l) is.
Proof.
  induction l as [|t r IH]; intros ms ds is H; [intros x []|].
  cbn [J5sConvert.cv_tmsgs] in H.
  apply obind_ok in H. destruct H as (mn & _ & H).
  apply obind_ok in H. destruct H as ([m1 i1] & Ev & H).
  apply obind_ok in H. destruct H as ([[cm cd] ci] & Er & H). inversion H. subst. clear H.
  unfold needs_tmsgs. cbn [flat_map snd].
  apply incl_app; [apply incl_appl; exact (virtual_needs _ _ _ _ _ Ev)|apply incl_appr; exact (IH _ _ _ Er)].
Qed.

Lemma accept_needs tname topic_name rl virt l ms ss is :
  accept_topic ev tname topic_name rl virt l = Ok (ms, ss, is) ->
  incl (needs_tmsgs virt l ++ [imp_messaging; imp_empty]) is.
Proof.
  unfold J5sConvert.accept_topic. intros H. apply obind_ok in H. destruct H as ([[m1 d1] i1] & E & H). inversion H. subst.
  apply incl_app; [apply incl_appl; exact (tmsgs_needs _ _ _ _ _ _ _ E)|apply incl_appr; apply incl_refl].
Qed.

Lemma topic_needs_ok t ms ss is : cv_topic ev t = Ok (ms, ss, is) -> incl (needs_topic t) is.
Proof.
  destruct t as [name msgs|name req reply|name entity msg|name entity msg]; cbn [J5sConvert.cv_topic needs_topic]; intros H.
  - exact (accept_needs _ _ _ _ _ _ _ _ H).
  - apply obind_ok in H. destruct H as ([[am asv] ai] & Ea & H).
    apply obind_ok in H. destruct H as ([[cm csv] ci] & Ec & H). inversion H. subst. clear H.
    apply incl_app; [apply incl_appl; exact (accept_needs _ _ _ _ _ _ _ _ Ea)|apply incl_appr; exact (accept_needs _ _ _ _ _ _ _ _ Ec)].
  - pose proof (accept_needs _ _ _ _ _ _ _ _ H) as Hi. unfold needs_tmsgs, default_tm_name in *. cbn [flat_map] in *.
    destruct (tm_name msg); exact Hi.
  - exact (accept_needs _ _ _ _ _ _ _ _ H).
Qed.

Lemma cv_elements_needs pkg els : forall m s t m' s' t',
  cv_elements ev pkg els m s t = Ok (m', s', t') ->
  incl (fa_imports m) (fa_imports m') /\ incl (fa_imports s) (fa_imports s') /\ incl (fa_imports t) (fa_imports t') /\
  forall e, In e els ->
    incl (main_needs e) (fa_imports m') /\ incl (service_needs e) (fa_imports s') /\ incl (topic_needs e) (fa_imports t').
Proof.
  induction els as [|e r IH]; intros m s t m' s' t' H; cbn [J5sConvert.cv_elements] in H.
  - inversion H. subst. repeat split; try apply incl_refl; destruct H0.
  - destruct e as [nm ps subs|nm ps subs|en|sv|tp].
    + apply obind_ok in H. destruct H as ([[ms es] is] & E & H).
      destruct (IH _ _ _ _ _ _ H) as (I1 & I2 & I3 & I4). cbn [facc_add fa_imports] in I1.
      split; [intros x Hx; apply I1; apply in_or_app; left; exact Hx|]. split; [exact I2|]. split; [exact I3|].
      intros e [<-|He]; [|apply I4; exact He]. cbn [main_needs service_needs topic_needs].
      split; [|split; intros x []].
      intros x Hx. apply I1. apply in_or_app. right. exact (proj1 nested_needs _ _ _ _ _ E x Hx).
    + apply obind_ok in H. destruct H as ([[ms es] is] & E & H).
      destruct (IH _ _ _ _ _ _ H) as (I1 & I2 & I3 & I4). cbn [facc_add fa_imports] in I1.
      split; [intros x Hx; apply I1; apply in_or_app; left; exact Hx|]. split; [exact I2|]. split; [exact I3|].
      intros e [<-|He]; [|apply I4; exact He]. cbn [main_needs service_needs topic_needs].
      split; [|split; intros x []].
      intros x Hx. apply I1. apply in_or_app. right. exact (proj1 nested_needs _ _ _ _ _ E x Hx).
    + destruct (IH _ _ _ _ _ _ H) as (I1 & I2 & I3 & I4). cbn [facc_add fa_imports] in I1.
      split; [intros x Hx; apply I1; apply in_or_app; left; exact Hx|]. split; [exact I2|]. split; [exact I3|].
      intros e [<-|He]; [|apply I4; exact He]. cbn [main_needs service_needs topic_needs].
      repeat split; intros x [].
    + apply obind_ok in H. destruct H as ([[ms ss] is] & E & H).
      destruct (IH _ _ _ _ _ _ H) as (I1 & I2 & I3 & I4). cbn [facc_add fa_imports] in I2.
      split; [exact I1|]. split; [intros x Hx; apply I2; apply in_or_app; left; exact Hx|]. split; [exact I3|].
      intros e [<-|He]; [|apply I4; exact He]. cbn [main_needs service_needs topic_needs].
      split; [intros x []|]. split; [|intros x []].
      unfold J5sConvert.cv_service in E. apply obind_ok in E. destruct E as ([[m1 d1] i1] & E & E'). inversion E'. subst.
      intros x Hx. apply I2. apply in_or_app. right. exact (methods_needs _ _ _ _ _ E x Hx).
    + apply obind_ok in H. destruct H as ([[ms ss] is] & E & H).
      destruct (IH _ _ _ _ _ _ H) as (I1 & I2 & I3 & I4). cbn [facc_add fa_imports] in I3.
      split; [exact I1|]. split; [exact I2|]. split; [intros x Hx; apply I3; apply in_or_app; left; exact Hx|].
      intros e [<-|He]; [|apply I4; exact He]. cbn [main_needs service_needs topic_needs].
      split; [intros x []|]. split; [intros x []|].
      intros x Hx. apply I3. apply in_or_app. right. exact (topic_needs_ok _ _ _ _ E x Hx).
Qed.

End Chain.

(* ------------------------------------------------------------------ files and packages *)
Section Files.
Variables snake camel screaming : str -> str.

(* the needed files are the generated file itself or among its dependencies *)
Definition needs_reach (needs : list str) (path : str) (D : list dfile) : Prop :=
  needs = [] \/ exists df, In df D /\ fl_path df = path /\ forall x, In x needs -> target_reached x df.

Definition file_needs_ok (f : jfile) (D : list dfile) : Prop :=
  forall e, In e (jf_elements f) ->
    needs_reach (main_needs e) (main_proto_path f) D /\
    needs_reach (service_needs e) (sub_proto_path f (b "service")) D /\
    needs_reach (topic_needs e) (sub_proto_path f (b "topic")) D.

Lemma service_needs_used e els : In e els -> service_needs e <> [] -> flat_map elem_services els <> [].
Proof.
  intros Hin Hne. destruct e; try (exfalso; apply Hne; reflexivity).
  intros Hnil. assert (Hs : In s (flat_map elem_services els)) by (apply in_flat_map; exists (EService s); split; [exact Hin|left; reflexivity]).
  rewrite Hnil in Hs. destruct Hs.
Qed.
Lemma topic_needs_used e els : In e els -> topic_needs e <> [] -> flat_map elem_topics els <> [].
Proof.
  intros Hin Hne. destruct e; try (exfalso; apply Hne; reflexivity).
  intros Hnil. assert (Hs : In t (flat_map elem_topics els)) by (apply in_flat_map; exists (ETopic t); split; [exact Hin|left; reflexivity]).
  rewrite Hnil in Hs. destruct Hs.
Qed.

Lemma list_nil_dec {A} (l : list A) : l = [] \/ l <> [].
Proof. destruct l; [left; reflexivity|right; discriminate]. Qed.

Lemma cv_file_needs exports f D :
  cv_file snake camel screaming exports f = Ok D -> file_needs_ok f D.
Proof.
  unfold cv_file. intros H. apply obind_ok in H. destruct H as (im & Him & H).
  apply obind_ok in H. destruct H as ([[m s] t] & E & H). inversion H. subst D. clear H.
  set (ev := mkEnv (j5s_pkg f) im exports) in *.
  destruct (cv_elements_needs snake camel screaming ev _ _ _ _ _ _ _ _ E) as (_ & _ & _ & I4).
  destruct (J5sSubPkgAux_used snake camel screaming _ _ _ _ _ _ _ _ _ E) as [Us Ut]. cbn [facc_nil fa_used orb] in Us, Ut.
  intros e He. destruct (I4 e He) as (Rm & Rs & Rt). split; [|split].
  - right. eexists. split; [left; reflexivity|]. split; [reflexivity|].
    intros x Hx. apply deps_reach. exact (Rm x Hx).
  - destruct (list_nil_dec (service_needs e)) as [En|Hne]; [left; exact En|right].
    assert (Hu : fa_used s = true).
    { rewrite Us. pose proof (service_needs_used e _ He Hne) as Hn.
      destruct (flat_map elem_services (jf_elements f)); [exfalso; apply Hn; reflexivity|reflexivity]. }
    eexists. split; [right; apply in_or_app; left; rewrite Hu; left; reflexivity|].
    split; [reflexivity|]. intros x Hx. apply deps_reach. exact (Rs x Hx).
  - destruct (list_nil_dec (topic_needs e)) as [En|Hne]; [left; exact En|right].
    assert (Hu : fa_used t = true).
    { rewrite Ut. pose proof (topic_needs_used e _ He Hne) as Hn.
      destruct (flat_map elem_topics (jf_elements f)); [exfalso; apply Hn; reflexivity|reflexivity]. }
    eexists. split; [right; apply in_or_app; right; rewrite Hu; left; reflexivity|].
    split; [reflexivity|]. intros x Hx. apply deps_reach. exact (Rt x Hx).
Qed.

Lemma needs_reach_link needs path D D' :
  link_files D = Ok D' -> needs_reach needs path D -> needs_reach needs path D'.
Proof.
  intros Hl [En|(df & Hin & Hp & Ht)]; [left; exact En|right].
  destruct (link_files_of _ _ _ Hl Hin) as (df' & Hin' & Hl'). exists df'.
  split; [exact Hin'|]. split; [rewrite (link_file_path _ _ Hl'); exact Hp|].
  intros x Hx. specialize (Ht x Hx). unfold target_reached in *.
  rewrite (link_file_path _ _ Hl'), (link_file_deps _ _ Hl'). exact Ht.
Qed.

Lemma needs_reach_incl needs path D D' : incl D D' -> needs_reach needs path D -> needs_reach needs path D'.
Proof. intros Hi [En|(df & Hin & Hp & Ht)]; [left; exact En|right; exists df; auto]. Qed.

(* whatever compiles: for every declaration of every source file of the package, the
   infrastructure files it needs are dependencies of the generated file it goes to *)
Theorem compile_needs_imported bd pkg D :
  compile_package snake camel screaming bd pkg = Ok D ->
  forall f, In (BJ f) bd -> j5s_pkg f = pkg -> file_needs_ok f D.
Proof.
  intros HD f Hin Hp.
  destruct (compile_package_inv snake camel screaming _ _ _ HD) as (fs & Efs & _ & El & _).
  unfold convert_package in Efs. destruct (pkg_files bd pkg) as [|x0 r0] eqn:Epf; [discriminate|].
  rewrite <- Epf in Efs. destruct (cv_files_split snake camel screaming _ _ _ Efs) as [I1 _].
  destruct (I1 f (in_pkg_files _ _ _ Hin Hp)) as (Df & Hc & Hi).
  pose proof (cv_file_needs _ _ _ Hc) as Hok.
  intros e He. destruct (Hok e He) as (A & B & C).
  repeat split; eapply needs_reach_link; try exact El; eapply needs_reach_incl; try exact Hi; assumption.
Qed.

End Files.

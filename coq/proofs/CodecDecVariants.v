(* CodecDecVariants.v — C03 leniency clause at document level: two documents of the same shape whose
   leaves are different spellings of the same values (any combination, at any depth) decode to the
   same message — or to an error, both.  "Different spellings of the same value" is: the field kind's
   conversion gives the same result (the scalar theorems say when that is: quoted or bare numbers,
   the four base64 forms, ...), resp. the enum lookup finds the same option. *)
From Coq Require Import String List NArith ZArith Arith Bool Lia.
From J5V.lib Require Import Outcome Json.
From J5V.model Require Import CodecTypes CodecDecScalar CodecDec CodecDecTree.
From J5V.proofs Require Import CodecDecProofs CodecDecTreeUnfold CodecDecTreeProofs.
Import ListNotations.

Section Variants.
  Variable orc : oracles.
  Variable e : env.

  (* same shape, leaves respelled *)
  Inductive variant : field_ty -> jvalue -> jvalue -> Prop :=
  | V_same ty j : variant ty j j
  | V_scalar k j j' :
      is_container j = false -> is_container j' = false -> (j = JNull <-> j' = JNull) ->
      scalar_from_go orc k (goval_of_json j) = scalar_from_go orc k (goval_of_json j') ->
      variant (FScalar k) j j'
  | V_enum ref prefix opts s s' :
      lookup e ref = Some (SEnum prefix opts) ->
      option_by_name prefix opts s = option_by_name prefix opts s' ->
      variant (FEnum ref) (JStr s) (JStr s')
  | V_object ref props ms ms' :
      lookup e ref = Some (SObject props) -> variant_members props ms ms' ->
      variant (FObject ref) (JObj ms) (JObj ms')
  | V_oneof ref props ms ms' :
      lookup e ref = Some (SOneof props) -> variant_members props ms ms' ->
      variant (FOneof ref) (JObj ms) (JObj ms')
  | V_array item js js' : variant_items item js js' -> variant (FArray item) (JArr js) (JArr js')
  | V_map item ms ms' : variant_entries item ms ms' -> variant (FMap item) (JObj ms) (JObj ms')

  (* members of an object or oneof: same keys in the same order; "!type" and unknown keys unchanged *)
  with variant_members : list property -> list (bytes * jvalue) -> list (bytes * jvalue) -> Prop :=
  | VM_nil props : variant_members props [] []
  | VM_same props k v r r' : variant_members props r r' -> variant_members props ((k, v) :: r) ((k, v) :: r')
  | VM_member props k v v' r r' p :
      bytes_eqb k type_key = false ->
      find_prop props k = Some p -> (v = JNull <-> v' = JNull) -> variant (p_ty p) v v' ->
      variant_members props r r' -> variant_members props ((k, v) :: r) ((k, v') :: r')

  with variant_items : field_ty -> list jvalue -> list jvalue -> Prop :=
  | VI_nil item : variant_items item [] []
  | VI_cons item v v' r r' :
      (v = JNull <-> v' = JNull) -> variant item v v' -> variant_items item r r' ->
      variant_items item (v :: r) (v' :: r')

  with variant_entries : field_ty -> list (bytes * jvalue) -> list (bytes * jvalue) -> Prop :=
  | VE_nil item : variant_entries item [] []
  | VE_cons item k v v' r r' :
      (v = JNull <-> v' = JNull) -> variant item v v' -> variant_entries item r r' ->
      variant_entries item ((k, v) :: r) ((k, v') :: r').

  Lemma with_holder_ext {A} path (k1 k2 : N -> msg -> outcome (msg * A)) :
    (forall n h, k1 n h = k2 n h) -> forall m, with_holder path m k1 = with_holder path m k2.
  Proof.
    intros H. induction path as [|n rest IH]; intros m; [reflexivity|].
    destruct rest as [|n2 rest']; [apply H|].
    change (with_holder (n :: n2 :: rest') m k1) with
      (let '(sub, m1) := msg_mutable [] n m in
       obind (with_holder (n2 :: rest') sub k1) (fun r => Ok (msg_put n (VMsg (fst r)) m1, snd r))).
    change (with_holder (n :: n2 :: rest') m k2) with
      (let '(sub, m1) := msg_mutable [] n m in
       obind (with_holder (n2 :: rest') sub k2) (fun r => Ok (msg_put n (VMsg (fst r)) m1, snd r))).
    destruct (msg_mutable [] n m) as [sub m1]. rewrite IH. reflexivity.
  Qed.

  Definition is_jnull (j : jvalue) : bool := match j with JNull => true | _ => false end.

  Lemma tr_member_alt d dp p v m seen :
    tr_member d dp p v m seen =
    if (max_nesting_depth <? d + 1)%N then Err "exceeded max depth"%string
    else if is_jnull v then Ok (m, seen)
    else if mem_bytes (p_json p) seen then Err "field is already set"%string
    else if oneof_conflict p m then Err "conflicts with another member of the same proto oneof"%string
    else obind (dp v m) (fun m' => Ok (m', p_json p :: seen)).
  Proof. unfold tr_member. destruct (max_nesting_depth <? d + 1)%N; [reflexivity|]. destruct v; reflexivity. Qed.

  Lemma is_jnull_iff v v' : (v = JNull <-> v' = JNull) -> is_jnull v = is_jnull v'.
  Proof.
    intros [H1 H2]. destruct v, v'; try reflexivity;
      try (specialize (H1 eq_refl); discriminate); try (specialize (H2 eq_refl); discriminate).
  Qed.

  Lemma tr_member_variant d dp p v v' m seen :
    (v = JNull <-> v' = JNull) -> (forall m0, dp v m0 = dp v' m0) ->
    tr_member d dp p v m seen = tr_member d dp p v' m seen.
  Proof.
    intros Hn H. rewrite !tr_member_alt. rewrite (is_jnull_iff v v' Hn), H. reflexivity.
  Qed.

  Definition level (f : nat) : Prop :=
    (forall ty j j', variant ty j j' -> forall d p m, p_ty p = ty ->
       tr_present orc e f d p j m = tr_present orc e f d p j' m) /\
    (forall props ms ms', variant_members props ms ms' -> forall d m seen,
       tr_object orc e f d props ms m seen = tr_object orc e f d props ms' m seen) /\
    (forall props ms ms', variant_members props ms ms' -> forall d m seen found c,
       tr_oneof orc e f d props ms m seen found c = tr_oneof orc e f d props ms' m seen found c) /\
    (forall item js js', variant_items item js js' -> forall d acc,
       tr_array orc e f d item js acc = tr_array orc e f d item js' acc) /\
    (forall item ms ms', variant_entries item ms ms' -> forall d acc,
       tr_map orc e f d item ms acc = tr_map orc e f d item ms' acc).

  Lemma level_step f : level f -> level (S f).
  Proof.
    intros (Lp & Lo & Ln & La & Lm).
    assert (Lp' : forall ty j j', variant ty j j' -> forall d p m, p_ty p = ty ->
       tr_present orc e (S f) d p j m = tr_present orc e (S f) d p j' m).
    { intros ty j j' Hv d p m Hty. rewrite !tr_present_S. rewrite Hty. clear Hty.
      destruct Hv as [ ty j | k j j' Hc Hc' Hn Hs | ref prefix opts s s' Hl Ho | ref props ms ms' Hl Hm
                       | ref props ms ms' Hl Hm | item js js' Hi | item ms ms' He].
      - reflexivity.
      - rewrite Hc, Hc', Hs. reflexivity.
      - rewrite Hl, Ho. reflexivity.
      - rewrite Hl. f_equal.
        apply with_holder_ext. intros n h.
        destruct (msg_mutable (p_siblings p) n h) as [sub h1]. rewrite (Lo props ms ms' Hm). reflexivity.
      - rewrite Hl. destruct (p_path p) as [|n0 path0].
        + apply Ln. exact Hm.
        + f_equal. apply with_holder_ext. intros n h.
          destruct (msg_mutable (p_siblings p) n h) as [sub h1]. rewrite (Ln props ms ms' Hm). reflexivity.
      - destruct item; try reflexivity; f_equal; apply with_holder_ext; intros n h; cbv zeta;
          rewrite (La _ js js' Hi); reflexivity.
      - destruct item; try reflexivity; f_equal; apply with_holder_ext; intros n h; cbv zeta;
          rewrite (Lm _ ms ms' He); reflexivity. }
    assert (Lo' : forall props ms ms', variant_members props ms ms' -> forall d m seen,
       tr_object orc e (S f) d props ms m seen = tr_object orc e (S f) d props ms' m seen).
    { intros props ms ms' Hv d m seen. rewrite !tr_object_S.
      inversion Hv as [ | ps k v r r' Hr | ps k v v' r r' p Hk Hp Hn Hvv Hr]; subst.
      - reflexivity.
      - destruct (find_prop props k) as [p|]; [|reflexivity].
        apply obind_ext. intros [m' seen']. apply Lo. exact Hr.
      - rewrite Hp. rewrite (tr_member_variant d _ p v v' m seen Hn);
          [|intros m0; eapply Lp; [exact Hvv|reflexivity]].
        apply obind_ext. intros [m' seen']. apply Lo. exact Hr. }
    assert (Ln' : forall props ms ms', variant_members props ms ms' -> forall d m seen found c,
       tr_oneof orc e (S f) d props ms m seen found c = tr_oneof orc e (S f) d props ms' m seen found c).
    { intros props ms ms' Hv d m seen found c. rewrite !tr_oneof_S.
      inversion Hv as [ | ps k v r r' Hr | ps k v v' r r' p Hk Hp Hn Hvv Hr]; subst.
      - reflexivity.
      - destruct (bytes_eqb k type_key).
        + destruct v; try reflexivity. apply Ln. exact Hr.
        + destruct (find_prop props k) as [p|]; [|reflexivity].
          apply obind_ext. intros [m' seen']. apply Ln. exact Hr.
      - rewrite Hk, Hp. rewrite (tr_member_variant d _ p v v' m seen Hn);
          [|intros m0; eapply Lp; [exact Hvv|reflexivity]].
        apply obind_ext. intros [m' seen']. apply Ln. exact Hr. }
    assert (La' : forall item js js', variant_items item js js' -> forall d acc,
       tr_array orc e (S f) d item js acc = tr_array orc e (S f) d item js' acc).
    { intros item js js' Hv d acc. rewrite !tr_array_S.
      inversion Hv as [ | it v v' r r' Hn Hvv Hr]; subst; [reflexivity|].
      inversion Hvv as [ | k j0 j0' Hc Hc' Hn0 Hs | ref prefix opts s s' Hl Ho | ref props ms ms' Hl Hm
                        | ref props ms ms' Hl Hm | item' js0 js0' Hi | item' ms ms' He]; subst.
      - (* same element *)
        destruct item as [k|ref|ref|ref|it|it|pb]; try reflexivity.
        + destruct (is_container v'); [reflexivity|]. apply obind_ext. intros [x|]; [|reflexivity].
          cbn [list_append obind]. apply La. exact Hr.
        + destruct (is_container v'); [reflexivity|]. destruct v'; try reflexivity.
          destruct (lookup e ref) as [[| |prefix opts]|]; try reflexivity.
          destruct (option_by_name prefix opts s); [|reflexivity]. apply La. exact Hr.
        + destruct (lookup e ref) as [[props| |]|]; try reflexivity. destruct v'; try reflexivity.
          apply obind_ext. intros sub. apply La. exact Hr.
        + destruct (lookup e ref) as [[|props|]|]; try reflexivity. destruct v'; try reflexivity.
          apply obind_ext. intros sub. apply La. exact Hr.
      - rewrite Hc, Hc', Hs. apply obind_ext. intros [x|]; [|reflexivity].
        cbn [list_append obind]. apply La. exact Hr.
      - cbn [is_container]. rewrite Hl, Ho. destruct (option_by_name prefix opts s'); [|reflexivity]. apply La. exact Hr.
      - rewrite Hl. rewrite (Lo props ms ms' Hm). apply obind_ext. intros sub. apply La. exact Hr.
      - rewrite Hl. rewrite (Ln props ms ms' Hm). apply obind_ext. intros sub. apply La. exact Hr.
      - reflexivity.
      - reflexivity. }
    assert (Lm' : forall item ms ms', variant_entries item ms ms' -> forall d acc,
       tr_map orc e (S f) d item ms acc = tr_map orc e (S f) d item ms' acc).
    { intros item ms ms' Hv d acc. rewrite !tr_map_S.
      inversion Hv as [ | it k v v' r r' Hn Hvv Hr]; subst; [reflexivity|].
      inversion Hvv as [ | k0 j0 j0' Hc Hc' Hn0 Hs | ref prefix opts s s' Hl Ho | ref props ms0 ms0' Hl Hm
                        | ref props ms0 ms0' Hl Hm | item' js0 js0' Hi | item' ms0 ms0' He]; subst.
      - destruct item as [k1|ref|ref|ref|it|it|pb]; try reflexivity;
          (destruct (map_get k acc); [reflexivity|]).
        + destruct (is_container v'); [reflexivity|]. apply obind_ext. intros [x|]; [|reflexivity].
          cbn [map_set_value obind]. apply Lm. exact Hr.
        + destruct v'; try reflexivity.
          destruct (lookup e ref) as [[| |prefix opts]|]; try reflexivity.
          destruct (option_by_name prefix opts s); [|reflexivity]. apply Lm. exact Hr.
        + destruct (lookup e ref) as [[props| |]|]; try reflexivity. destruct v'; try reflexivity.
          apply obind_ext. intros sub. apply Lm. exact Hr.
        + destruct (lookup e ref) as [[|props|]|]; try reflexivity. destruct v'; try reflexivity.
          apply obind_ext. intros sub. apply Lm. exact Hr.
      - destruct (map_get k acc); [reflexivity|].
        rewrite Hc, Hc', Hs. apply obind_ext. intros [x|]; [|reflexivity].
        cbn [map_set_value obind]. apply Lm. exact Hr.
      - destruct (map_get k acc); [reflexivity|].
        rewrite Hl, Ho. destruct (option_by_name prefix opts s'); [|reflexivity]. apply Lm. exact Hr.
      - destruct (map_get k acc); [reflexivity|].
        rewrite Hl. rewrite (Lo props ms0 ms0' Hm). apply obind_ext. intros sub. apply Lm. exact Hr.
      - destruct (map_get k acc); [reflexivity|].
        rewrite Hl. rewrite (Ln props ms0 ms0' Hm). apply obind_ext. intros sub. apply Lm. exact Hr.
      - reflexivity.
      - reflexivity. }
    repeat split; assumption.
  Qed.

  Lemma level_all f : level f.
  Proof.
    induction f as [|f IH]; [|apply level_step; exact IH].
    repeat split; intros; reflexivity.
  Qed.
  (* variants have the same shape, hence the same size *)
  Lemma msize_cons k v r : msize ((k, v) :: r) = (S (jsize v) + msize r)%nat.
  Proof. reflexivity. Qed.
  Lemma lsize_cons v r : lsize (v :: r) = (jsize v + lsize r)%nat.
  Proof. reflexivity. Qed.

  (* lists, given the statement for their elements *)
  Lemma variant_lists_size n :
    (forall j, (jsize j <= n)%nat -> forall ty j', variant ty j j' -> jsize j' = jsize j) ->
    (forall ms, (msize ms <= S n)%nat -> forall props ms', variant_members props ms ms' -> msize ms' = msize ms) /\
    (forall js, (lsize js <= n)%nat -> forall item js', variant_items item js js' -> lsize js' = lsize js) /\
    (forall ms, (msize ms <= S n)%nat -> forall item ms', variant_entries item ms ms' -> msize ms' = msize ms).
  Proof.
    intros Hj. repeat split.
    - induction ms as [|[k v] r IH]; intros Hs props ms' Hv.
      + inversion Hv; reflexivity.
      + rewrite msize_cons in Hs.
        inversion Hv as [ | ps k0 v0 r0 r' Hr | ps k0 v0 v' r0 r' p Hk Hp Hn Hvv Hr]; subst; rewrite !msize_cons.
        * rewrite (IH ltac:(lia) _ _ Hr). reflexivity.
        * rewrite (IH ltac:(lia) _ _ Hr). rewrite (Hj v ltac:(lia) _ _ Hvv). reflexivity.
    - induction js as [|v r IH]; intros Hs item js' Hv.
      + inversion Hv; reflexivity.
      + rewrite lsize_cons in Hs. pose proof (jsize_pos v).
        inversion Hv as [|it v0 v' r0 r' Hn Hvv Hr]; subst. rewrite !lsize_cons.
        rewrite (IH ltac:(lia) _ _ Hr). rewrite (Hj v ltac:(lia) _ _ Hvv). reflexivity.
    - induction ms as [|[k v] r IH]; intros Hs item ms' Hv.
      + inversion Hv; reflexivity.
      + rewrite msize_cons in Hs.
        inversion Hv as [|it k0 v0 v' r0 r' Hn Hvv Hr]; subst. rewrite !msize_cons.
        rewrite (IH ltac:(lia) _ _ Hr). rewrite (Hj v ltac:(lia) _ _ Hvv). reflexivity.
  Qed.

  Lemma variant_size n : forall j, (jsize j <= n)%nat -> forall ty j', variant ty j j' -> jsize j' = jsize j.
  Proof.
    induction n as [|n IH]; intros j Hj ty j' Hv; [pose proof (jsize_pos j); lia|].
    destruct (variant_lists_size n IH) as (Hm & Hl & He).
    destruct Hv as [ ty j | k j j' Hc Hc' Hn Hs | ref prefix opts s s' Hl0 Ho | ref props ms ms' Hl0 Hmm
                   | ref props ms ms' Hl0 Hmm | item js js' Hi | item ms ms' Hee]; try reflexivity.
    - destruct j, j'; try discriminate; reflexivity.
    - rewrite !jsize_obj in *. f_equal. eapply Hm; [|exact Hmm]. lia.
    - rewrite !jsize_obj in *. f_equal. eapply Hm; [|exact Hmm]. lia.
    - rewrite !jsize_arr in *. f_equal. eapply Hl; [|exact Hi]. lia.
    - rewrite !jsize_obj in *. f_equal. eapply He; [|exact Hee]. lia.
  Qed.

  Lemma variant_members_size props ms ms' : variant_members props ms ms' -> msize ms' = msize ms.
  Proof.
    intros H. destruct (variant_lists_size (msize ms) (variant_size (msize ms))) as (Hm & _).
    eapply Hm; [|exact H]. lia.
  Qed.
End Variants.

(* same shape => same size, so the refinement theorem applies to both with one fuel *)
(* documents: two byte strings that the tokenizer reads as objects whose members are variants of
   each other decode to the same result *)
Theorem variant_documents_same_result orc e root props bs bs' ms ms' rest rest' me me' :
  lookup e root = Some (SObject props) ->
  lex bs = (tokens_of (JObj ms) ++ rest, me) -> lex bs' = (tokens_of (JObj ms') ++ rest', me') ->
  variant_members orc e props ms ms' ->
  decode_bytes orc e root bs = decode_bytes orc e root bs'.
Proof.
  intros Hl Hlex Hlex' Hv.
  assert (Hsz : jsize (JObj ms) = jsize (JObj ms')).
  { rewrite !jsize_obj. f_equal. symmetry. eapply variant_members_size. exact Hv. }
  rewrite (decode_bytes_tree orc e root bs (JObj ms) rest me Hlex).
  rewrite (decode_bytes_tree orc e root bs' (JObj ms') rest' me' Hlex').
  unfold tr_decode. rewrite Hl. rewrite <- Hsz.
  destruct (level_all orc e (S (jsize (JObj ms)))) as (_ & Lo & _). apply Lo. exact Hv.
Qed.

(* ConcCodecProofs.v — encode / decode on a shared cache return what they return alone. *)
From Coq Require Import String List NArith Bool.
From J5V.lib Require Import Outcome Json.
From J5V.model Require Import Conc CodecTypes CodecEnc CodecDecScalar CodecDec CodecDecQuery ConcCodec.
From J5V.proofs Require Import ConcMainProofs ConcRetProofs.
Import ListNotations.

(* the environment seen through a handed-out object, at any later point of any run, is the type's own *)
Lemma env_seen_is_type nm denote K k g calls sched t n c later : calls_ok calls ->
  In (t, n, c) (rets Guarded k g calls sched) ->
  env_seen nm denote K (heap (s_sh (run Guarded k g calls (sched ++ later)))) c = env_of_type nm denote K g n.
Proof.
  intros Hok Hin. unfold env_seen, env_of_type.
  rewrite (guarded_ret_linked k g calls sched t n c Hok Hin later K). reflexivity.
Qed.

Theorem codec_calls_are_solo nm denote fmt any orc K k g calls sched t n c later : calls_ok calls ->
  In (t, n, c) (rets Guarded k g calls sched) ->
  let h := heap (s_sh (run Guarded k g calls (sched ++ later))) in
  (forall m, encode_call nm denote fmt any K h c n m = encode_solo nm denote fmt any K g n m) /\
  (forall doc, decode_call nm denote orc K h c n doc = decode_solo nm denote orc K g n doc) /\
  (forall kvs, query_call nm denote orc K h c n kvs = query_solo nm denote orc K g n kvs).
Proof.
  intros Hok Hin h. unfold encode_call, decode_call, query_call, encode_solo, decode_solo, query_solo. subst h.
  rewrite (env_seen_is_type nm denote K k g calls sched t n c later Hok Hin). repeat split; reflexivity.
Qed.

(* and that is the schema of the solo call: a call alone on a fresh cache returns gunfold *)
Lemma solo_tree K g n : n <> unsupported -> good g n -> result_solo K g n = ROk (gunfold K g n).
Proof.
  intros Hn Hg. destruct (solo_char K g n Hn) as [[H _]|[_ H]]; [exact H|contradiction].
Qed.

(* without the lock the walk can meet a placeholder: the second refutation witness (thread 1 is handed the
   schema of type 3 while type 1, which it refers to, is registered but not linked) — the encoder model,
   applied to what thread 1 was handed, panics where the call alone returns {"r0":{}} *)
Definition ex_nm (n : name) : bytes := [n].
Definition ex_denote (n : name) : schema :=
  if N.eqb n 3 then SObject [mkProp [114; 48]%N [2%N] false false [] (FObject (ex_nm 1%N))] else SObject [].
Definition ex_fmt (_ : bool) (_ : N) : bytes := [].
Definition ex_any (_ _ : bytes) : outcome bytes := Err "no resolver"%string.
Definition ex_msg : msg := [(2%N, VMsg [])].
Definition ex_w2_graph : graph := [(1, [2]); (2, []); (3, [1])]%N.
Definition ex_w2_calls : list (list name) := [[1]; [3]]%N.
Definition ex_w2_sched : list tid := [0; 0; 0; 1; 1; 1; 1; 1].

Lemma unguarded_encode_differs :
  let st := run Unguarded 3 ex_w2_graph ex_w2_calls ex_w2_sched in
  rets Unguarded 3 ex_w2_graph ex_w2_calls ex_w2_sched = [(1, 3%N, 1)] /\
  encode_call ex_nm ex_denote ex_fmt ex_any 3 (heap (s_sh st)) 1 3%N ex_msg = Panic "schema/value mismatch"%string /\
  encode_solo ex_nm ex_denote ex_fmt ex_any 3 ex_w2_graph 3%N ex_msg = Ok [123; 34; 114; 48; 34; 58; 123; 125; 125]%N.
Proof. cbv zeta. vm_compute. repeat split. Qed.

(* the same calls with the lock: whatever the schedule, the walk sees the whole schema *)
Lemma guarded_encode_example :
  let sched := [0; 0; 0; 1; 1; 1; 1; 1; 0; 0; 0; 0; 0; 0; 1; 1; 1; 1; 1; 1; 1] in
  let st := run Guarded 3 ex_w2_graph ex_w2_calls sched in
  In (1, 3%N, 2) (rets Guarded 3 ex_w2_graph ex_w2_calls sched) /\
  encode_call ex_nm ex_denote ex_fmt ex_any 3 (heap (s_sh st)) 2 3%N ex_msg = Ok [123; 34; 114; 48; 34; 58; 123; 125; 125]%N.
Proof. cbv zeta. vm_compute. split; [auto|reflexivity]. Qed.

(* PipelineListProbeProofs.v — the arms of buildListRequest's callback (internal/j5client/list.go), re-read from
   the Go source by the translator (gen/SwaggerGen.v list_scalar_arms / list_enum_arm: per arm the add* functions
   its body calls), as PROBES of the model function list_step: for every arm the model, run on a one-property
   item object of that field type whose list rules carry all three constraints, must list the property exactly in
   the lists the Go arm appends to. (FILTER / SORT / SEARCH kinds are literals in model/PipelineList.v; before this
   lemma they were tied by the chain correspondence only.) *)
From Coq Require Import String Ascii List NArith Bool.
From J5V.lib Require Import Outcome Corr.
From J5V.model Require Import Pipeline PipelineEntity PipelineList.
From J5V.gen Require SwaggerGen.
Import ListNotations.
Local Open Scope N_scope.
Local Open Scope bool_scope.

Definition lp_root : key := (bytes_of "p.v1", bytes_of "Item").
Definition lp_name : str := bytes_of "f".
Definition lp_env (t : fty) : env := [(lp_root, SObject [{| p_json := lp_name; p_ty := t |}])].
Definition lp_rule : lrule :=
  {| lr_filter := true; lr_sort := true; lr_search := true; lr_defaults := []; lr_prefix := []; lr_options := [] |}.
Definition lp_rt : rules_table := [((lp_root, lp_name), lp_rule)].
Definition lp_empty : list_fields := {| lf_filter := []; lf_sort := []; lf_search := [] |}.

(* the add* functions the model "calls" for a field of type t *)
Definition lp_calls (t : fty) : list string :=
  match list_step lp_rt (lp_env t) lp_root lp_empty ([lp_name], t) with
  | Ok lf => (match lf_filter lf with [] => [] | _ => ["addFilter"%string] end)
             ++ (match lf_sort lf with [] => [] | _ => ["addSort"%string] end)
             ++ (match lf_search lf with [] => [] | _ => ["addSearch"%string] end)
  | _ => ["error"%string]
  end.

(* arms of the Go switch that are not scalar field types of the model's schema view: an array / map / object /
   oneof field is an ArrayField / MapField / ObjectField / OneofField for the walk, never a ScalarSchema (the Go arms
   for them are not reachable from WalkSchemaFields) *)
Definition lp_not_scalar (alt : string) : bool := mem_string alt ["array"; "map"; "object"; "oneof"]%string.

Lemma list_arms_probe :
  forallb (fun arm => lp_not_scalar (fst arm) || list_eqb String.eqb (lp_calls (TScalar (fst arm))) (snd arm))
          SwaggerGen.list_scalar_arms = true
  /\ list_eqb String.eqb (lp_calls (TRef "enum" (bytes_of "p.v1", bytes_of "Kind"))) SwaggerGen.list_enum_arm = true
  /\ length SwaggerGen.list_scalar_arms = 14%nat
  (* a reference to an object / oneof is walked into, not listed *)
  /\ lp_calls (TRef "object" lp_root) = [] /\ lp_calls (TRef "oneof" lp_root) = [].
Proof. vm_compute. repeat split; reflexivity. Qed.

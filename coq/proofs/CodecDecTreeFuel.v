(* CodecDecTreeFuel.v — fuel is only a bound: once a tree-level function returns something other
   than OutOfFuel, more fuel returns the same. *)
From Coq Require Import String List NArith ZArith Bool Lia.
From J5V.lib Require Import Outcome Json.
From J5V.model Require Import CodecTypes CodecDecScalar CodecDec CodecDecTree.
From J5V.proofs Require Import CodecDecTreeUnfold.
Import ListNotations.

Definition le {A} (o1 o2 : outcome A) : Prop := o1 = OutOfFuel \/ o1 = o2.

Lemma le_refl {A} (o : outcome A) : le o o.
Proof. right. reflexivity. Qed.

Lemma le_oof {A} (o : outcome A) : le OutOfFuel o.
Proof. left. reflexivity. Qed.

Lemma le_obind {A B} (o1 o2 : outcome A) (k1 k2 : A -> outcome B) :
  le o1 o2 -> (forall a, le (k1 a) (k2 a)) -> le (obind o1 k1) (obind o2 k2).
Proof.
  intros [-> | ->] Hk; [left; reflexivity|]. destruct o2; cbn [obind]; try apply le_refl. apply Hk.
Qed.

Lemma le_omap {A B} (f : A -> B) (o1 o2 : outcome A) : le o1 o2 -> le (omap f o1) (omap f o2).
Proof. intros H. unfold omap. apply le_obind; [exact H|]. intros a. apply le_refl. Qed.

Lemma le_with_holder {A} path (k1 k2 : N -> msg -> outcome (msg * A)) :
  (forall n h, le (k1 n h) (k2 n h)) -> forall m, le (with_holder path m k1) (with_holder path m k2).
Proof.
  intros H. induction path as [|n rest IH]; intros m; [apply le_refl|].
  destruct rest as [|n2 rest']; [apply H|].
  change (with_holder (n :: n2 :: rest') m k1) with
    (let '(sub, m1) := msg_mutable [] n m in
     obind (with_holder (n2 :: rest') sub k1) (fun r => Ok (msg_put n (VMsg (fst r)) m1, snd r))).
  change (with_holder (n :: n2 :: rest') m k2) with
    (let '(sub, m1) := msg_mutable [] n m in
     obind (with_holder (n2 :: rest') sub k2) (fun r => Ok (msg_put n (VMsg (fst r)) m1, snd r))).
  destruct (msg_mutable [] n m) as [sub m1]. apply le_obind; [apply IH|]. intros a. apply le_refl.
Qed.

Section Fuel.
  Variable orc : oracles.
  Variable e : env.

  Definition level (f : nat) : Prop :=
    (forall d p j m, le (tr_present orc e f d p j m) (tr_present orc e (S f) d p j m)) /\
    (forall d props ms m seen, le (tr_object orc e f d props ms m seen) (tr_object orc e (S f) d props ms m seen)) /\
    (forall d props ms m seen found c,
       le (tr_oneof orc e f d props ms m seen found c) (tr_oneof orc e (S f) d props ms m seen found c)) /\
    (forall d item js acc, le (tr_array orc e f d item js acc) (tr_array orc e (S f) d item js acc)) /\
    (forall d item ms acc, le (tr_map orc e f d item ms acc) (tr_map orc e (S f) d item ms acc)).

  Lemma le_tr_member d dp1 dp2 p v m seen :
    (forall v m, le (dp1 v m) (dp2 v m)) -> le (tr_member d dp1 p v m seen) (tr_member d dp2 p v m seen).
  Proof.
    intros H. unfold tr_member. destruct (max_nesting_depth <? d + 1)%N; [apply le_refl|].
    destruct v; try apply le_refl;
      (destruct (mem_bytes (p_json p) seen); [apply le_refl|]);
      (destruct (oneof_conflict p m); [apply le_refl|]);
      (apply le_obind; [apply H|intros a; apply le_refl]).
  Qed.

  Ltac mono IHp IHo IHn IHa IHm :=
    repeat first
      [ apply le_refl
      | apply IHp | apply IHo | apply IHn | apply IHa | apply IHm
      | apply le_omap
      | apply le_with_holder; intros ? ?
      | apply le_tr_member; intros ? ?
      | apply le_obind; [|intros ?]
      | match goal with
        | |- le (let '(_, _) := ?x in _) (let '(_, _) := ?x in _) => destruct x
        | |- le (match ?x with _ => _ end) (match ?x with _ => _ end) => destruct x
        | |- le (if ?b then _ else _) (if ?b then _ else _) => destruct b
        end ].

  Lemma level_step f : level f -> level (S f).
  Proof.
    intros (IHp & IHo & IHn & IHa & IHm). repeat split; intros.
    - rewrite (tr_present_S orc e (S f)), (tr_present_S orc e f). mono IHp IHo IHn IHa IHm.
    - rewrite (tr_object_S orc e (S f)), (tr_object_S orc e f). mono IHp IHo IHn IHa IHm.
    - rewrite (tr_oneof_S orc e (S f)), (tr_oneof_S orc e f). mono IHp IHo IHn IHa IHm.
    - rewrite (tr_array_S orc e (S f)), (tr_array_S orc e f). mono IHp IHo IHn IHa IHm.
    - rewrite (tr_map_S orc e (S f)), (tr_map_S orc e f). mono IHp IHo IHn IHa IHm.
  Qed.

  Lemma level_all f : level f.
  Proof.
    induction f as [|f IH]; [|apply level_step; exact IH].
    repeat split; intros; apply le_oof.
  Qed.

  (* the usable form: a settled result stays *)
  Lemma le_trans_plus {A} (F : nat -> outcome A) :
    (forall f, le (F f) (F (S f))) -> forall f k r, F f = r -> r <> OutOfFuel -> F (f + k)%nat = r.
  Proof.
    intros H f k. induction k as [|k IH]; intros r Hr Hn; [rewrite Nat.add_0_r; exact Hr|].
    rewrite Nat.add_succ_r. specialize (IH r Hr Hn). destruct (H (f + k)%nat) as [E|E]; [congruence|].
    rewrite <- E. exact IH.
  Qed.

  Theorem tr_present_more_fuel f k d p j m r :
    tr_present orc e f d p j m = r -> r <> OutOfFuel -> tr_present orc e (f + k) d p j m = r.
  Proof. apply (le_trans_plus (fun f => tr_present orc e f d p j m)). intros f0. apply level_all. Qed.

  Theorem tr_object_more_fuel f k d props ms m seen r :
    tr_object orc e f d props ms m seen = r -> r <> OutOfFuel -> tr_object orc e (f + k) d props ms m seen = r.
  Proof. apply (le_trans_plus (fun f => tr_object orc e f d props ms m seen)). intros f0. apply level_all. Qed.

  Theorem tr_oneof_more_fuel f k d props ms m seen found c r :
    tr_oneof orc e f d props ms m seen found c = r -> r <> OutOfFuel ->
    tr_oneof orc e (f + k) d props ms m seen found c = r.
  Proof. apply (le_trans_plus (fun f => tr_oneof orc e f d props ms m seen found c)). intros f0. apply level_all. Qed.
  Theorem tr_array_more_fuel f k d item js acc r :
    tr_array orc e f d item js acc = r -> r <> OutOfFuel -> tr_array orc e (f + k) d item js acc = r.
  Proof. apply (le_trans_plus (fun f => tr_array orc e f d item js acc)). intros f0. apply level_all. Qed.

  Theorem tr_map_more_fuel f k d item ms acc r :
    tr_map orc e f d item ms acc = r -> r <> OutOfFuel -> tr_map orc e (f + k) d item ms acc = r.
  Proof. apply (le_trans_plus (fun f => tr_map orc e f d item ms acc)). intros f0. apply level_all. Qed.
End Fuel.

(* RulesTextProofs.v — C04, second clause: the schema reflected from the printed
   .proto text. Composition of
     * the file-level printer / parser model of family tool (model/ProtoPrintFile.v,
       ProtoParseFile.v; C05_file_canonical: parsing the printed tokens of a
       well-formed descriptor file D yields canon_file D, C05_file_equiv: the same
       content with bodies and option lists permuted), with
     * C04's reader (RulesRead.read_object), which looks at a field through
       c04_proj only (c04_text_clause).
   What remains a parameter: [view], how the reader's annotation record ([fout]) is
   read off a field descriptor of that model ([dfield]: label, type, name, number,
   json name, comment, option trees). Its one hypothesis: it depends on the CONTENT
   of the field — not on source positions and not on the order of the options. *)
From Coq Require Import String List NArith ZArith Bool Lia Permutation.
From J5V.lib Require Import Outcome.
From J5V.model Require Import RulesDecl RulesWrite RulesRead ProtoPrint ProtoPrintFile ProtoParseFile ProtoPrintFileWf RulesTextModel.
From J5V.proofs Require Import RulesReadProofs ProtoPrintFileSortProofs ProtoPrintFileSemProofs ProtoPrintFileFullProofs ProtoPrintFileWfProofs.
Import ListNotations.

Section TextClause.
Variable view : dfield -> fout.
Hypothesis view_content : forall f f', field_equiv f f' -> c04_proj (view f) = c04_proj (view f').

(* elem_fields / body_fields (the fields of a message in descriptor order): model/RulesTextModel.v *)

(* the descriptor lists the elements in the order the printer emits them (by source line, or by
   kind and index where there is none) — true of what the j5s compiler produces *)
Definition in_print_order (body : list delem) : Prop :=
  sorted_by ekey body = body /\
  Forall (fun e => match e with DOneof _ _ _ _ fs => sorted_by fkey fs = fs | _ => True end) body.

Lemma set_canon_field_equiv j f : field_equiv f
  {| f_key := pos_key j; f_cm := f_cm (canon_field 0 f); f_label := f_label (canon_field 0 f);
     f_type := f_type (canon_field 0 f); f_name := f_name (canon_field 0 f); f_num := f_num (canon_field 0 f);
     f_json := f_json (canon_field 0 f); f_opts := f_opts (canon_field 0 f) |}.
Proof. unfold field_equiv, canon_field. cbn. repeat split. apply canon_fopts_equiv. Qed.

Lemma canon_elems_fields : forall body i,
  Forall (fun e => match e with DOneof _ _ _ _ fs => sorted_by fkey fs = fs | _ => True end) body ->
  Forall2 field_equiv (body_fields body)
          (body_fields (number_from (fun j e => set_key j (canon_elem e)) i body)).
Proof.
  induction body as [|e r IH]; intros i Hs; [constructor|].
  inversion Hs as [|? ? He Hr]; subst.
  cbn [number_from body_fields flat_map]. apply Forall2_app; [|apply IH; exact Hr].
  destruct e as [f|k c n o fs|k c n o b|k c n o vs|k c n o ms].
  - cbn [canon_elem set_key elem_fields]. constructor; [apply set_canon_field_equiv|constructor].
  - cbn [canon_elem set_key elem_fields]. unfold canon_fields. rewrite He.
    apply number_from_forall2. intros j x _. apply canon_field_equiv.
  - rewrite canon_elem_msg. cbn [set_key elem_fields]. constructor.
  - cbn [canon_elem set_key elem_fields]. constructor.
  - cbn [canon_elem set_key elem_fields]. constructor.
Qed.

Lemma canon_body_fields body :
  in_print_order body -> Forall2 field_equiv (body_fields body) (body_fields (canon_body body)).
Proof.
  intros [Hs Ho]. unfold canon_body. rewrite Hs. apply canon_elems_fields. exact Ho.
Qed.

Lemma number_from_In {A B} (f : N -> A -> B) x : forall l i,
  In x l -> exists j, In (f j x) (number_from f i l).
Proof.
  induction l as [|y r IH]; intros i H; [destruct H|]. cbn [number_from]. destruct H as [->|H].
  - exists i. left. reflexivity.
  - destruct (IH (i + 1)%N H) as [j Hj]. exists j. right. exact Hj.
Qed.

Lemma views_agree fs fs' :
  Forall2 field_equiv fs fs' ->
  Forall2 (fun o o' => c04_proj o = c04_proj o') (map view fs) (map view fs').
Proof.
  induction 1 as [|f f' r r' Hf Hr IH]; [constructor|]. cbn [map]. constructor; [apply view_content; exact Hf|exact IH].
Qed.

(* The second clause, composed: print a well-formed descriptor file, parse the
   tokens; every message of the file is in the result, and reading its fields
   (through [view]) yields the same properties as reading the original's. *)
Theorem c04_text_composed env imp D :
  wf_dfile imp D ->
  exists D',
    parse_file_tokens imp (print_file_tokens (to_symtab (dfile_symtab imp D)) D) = Some D' /\
    forall k c n o body,
      In (DMsg k c n o body) (d_body D) -> in_print_order body ->
      exists k' o' body',
        In (DMsg k' c n o' body') (d_body D') /\
        read_object env (map view (body_fields body')) = read_object env (map view (body_fields body)).
Proof.
  intro Hwf. exists (canon_file D). split; [exact (file_roundtrip imp D Hwf)|].
  intros k c n o body Hin Hord.
  unfold canon_file. cbn [d_body]. unfold canon_body at 1.
  apply (sorted_by_In ekey) in Hin.
  destruct (number_from_In (fun j e => set_key j (canon_elem e)) (DMsg k c n o body) _ 1%N Hin) as [j Hj].
  rewrite canon_elem_msg in Hj. cbn [set_key] in Hj.
  exists (pos_key j), (canon_sopts o), (canon_body body). split; [exact Hj|].
  apply c04_text_clause. apply views_agree. apply canon_body_fields. exact Hord.
Qed.

End TextClause.

(* the hypothesis on [view] is satisfiable by a view that reads real content: json
   name, proto name, number, repeated / optional label, leading comment (the part of
   the reader's view that needs no option decoding) *)
Definition basic_view (f : dfield) : fout :=
  FO (f_json f) (f_name f) (f_num f) KdOther
     (match f_label f with LRepeated => true | _ => false end)
     (match f_label f with LOptional => true | _ => false end)
     false None None None None (c_lead (f_cm f)).

Lemma basic_view_content f f' : field_equiv f f' -> c04_proj (basic_view f) = c04_proj (basic_view f').
Proof.
  intros [Hc [Hl [_ [Hn [Hnum [Hj _]]]]]]. unfold basic_view, c04_proj. cbn.
  rewrite Hc, Hl, Hnum, Hj. reflexivity.
Qed.

(* ---- the concrete view: RulesView.view_field, a decoder of the option trees ------------ *)
From J5V.model Require Import RulesView.
From J5V.proofs Require Import RulesViewProofs.

Theorem c04_text_concrete env imp D :
  wf_dfile imp D ->
  exists D',
    parse_file_tokens imp (print_file_tokens (to_symtab (dfile_symtab imp D)) D) = Some D' /\
    forall k c n o body,
      In (DMsg k c n o body) (d_body D) -> in_print_order body ->
      exists k' o' body',
        In (DMsg k' c n o' body') (d_body D') /\
        read_object env (map view_field (body_fields body')) = read_object env (map view_field (body_fields body)).
Proof.
  apply (c04_text_composed view_field).
  intros f f' H. rewrite (view_field_content f f' H). reflexivity.
Qed.

(* ---- the hypotheses about the descriptor, decided ---------------------------------------
   [wf_dfile_b] (family tool) and [in_print_order_b] (model/RulesTextModel.v) are evaluated
   on the real descriptor of every generated compile unit by the C04File stream. *)
Lemma adj_sorted_fold {A} (less : A -> A -> bool) : forall l acc,
  adj_sorted less (match acc with y :: _ => y :: l | [] => l end) = true ->
  fold_left (fun acc x => ins_rev less x acc) l acc = rev l ++ acc.
Proof.
  induction l as [|x r IH]; intros acc H; [reflexivity|].
  cbn [fold_left rev]. rewrite <- app_assoc. cbn [app].
  destruct acc as [|y acc'].
  - cbn [ins_rev]. apply IH. exact H.
  - cbn [adj_sorted] in H. apply andb_true_iff in H. destruct H as [Hxy Hr].
    cbn [ins_rev]. apply negb_true_iff in Hxy. rewrite Hxy. apply IH. exact Hr.
Qed.

Lemma adj_sorted_isort {A} (less : A -> A -> bool) l : adj_sorted less l = true -> isort less l = l.
Proof.
  intro H. unfold isort. rewrite (adj_sorted_fold less l []) by exact H.
  rewrite app_nil_r. apply rev_involutive.
Qed.

Lemma in_print_order_b_sound body : in_print_order_b body = true -> in_print_order body.
Proof.
  unfold in_print_order_b, in_print_order. intro H. apply andb_true_iff in H. destruct H as [Hs Ho]. split.
  - unfold sorted_by. apply adj_sorted_isort. exact Hs.
  - apply Forall_forall. intros e He. rewrite forallb_forall in Ho. specialize (Ho e He).
    destruct e; try exact I. unfold sorted_by, fkey. apply adj_sorted_isort. exact Ho.
Qed.

(* The second clause with every hypothesis about the descriptor decided: for a file on
   which the two checks compute to true, every message reads, after print + parse, to the
   same properties. *)
Theorem c04_text_checked env imp D :
  wf_dfile_b imp D = true -> file_in_order_b D = true ->
  exists D',
    parse_file_tokens imp (print_file_tokens (to_symtab (dfile_symtab imp D)) D) = Some D' /\
    forall k c n o body,
      In (DMsg k c n o body) (d_body D) ->
      exists k' o' body',
        In (DMsg k' c n o' body') (d_body D') /\
        read_object env (map view_field (body_fields body')) = read_object env (map view_field (body_fields body)).
Proof.
  intros Hwf Hord. destruct (c04_text_concrete env imp D (wf_dfile_b_sound imp D Hwf)) as [D' [Hp Hm]].
  exists D'. split; [exact Hp|]. intros k c n o body Hin. apply (Hm k c n o body Hin).
  apply in_print_order_b_sound. unfold file_in_order_b in Hord. rewrite forallb_forall in Hord.
  exact (Hord _ Hin).
Qed.

(* CodecDecConverse.v — the converse of the leniency theorem for vrespelled leaves: [vrespelled] is the fragment
   of CodecDecLenient.lenient that keeps the member order and adds no nulls (two spellings of a leaf that the
   field kind's conversion maps to the same result, at any depth).  It is symmetric, so for two documents
   related by it acceptance and the decoded message coincide in BOTH directions, and so does rejection. *)
From Coq Require Import String List NArith ZArith Bool Lia Permutation.
From J5V.lib Require Import Outcome Json.
From J5V.model Require Import CodecTypes CodecDecScalar CodecDec CodecDecTree CodecDecCommute.
From J5V.proofs Require Import CodecDecProofs CodecDecTreeProofs CodecDecStored CodecDecFaults CodecDecReorder
                               CodecDecOneofReorder CodecDecLenient CodecDecDenote CodecDecFull.
Import ListNotations.
Local Open Scope N_scope.

Section Conv.
  Variable orc : oracles.
  Variable e : env.

  Inductive vrespelled : field_ty -> jvalue -> jvalue -> Prop :=
  | V_same ty j : vrespelled ty j j
  | V_scalar k j j' :
      is_container j = false -> is_container j' = false -> (j = JNull <-> j' = JNull) ->
      scalar_from_go orc k (goval_of_json j) = scalar_from_go orc k (goval_of_json j') ->
      vrespelled (FScalar k) j j'
  | V_enum ref prefix opts s s' :
      lookup e ref = Some (SEnum prefix opts) ->
      option_by_name prefix opts s = option_by_name prefix opts s' ->
      vrespelled (FEnum ref) (JStr s) (JStr s')
  | V_object ref props ms ms1 ms' :
      lookup e ref = Some (SObject props) -> Permutation ms ms1 -> vrespelled_members props ms1 ms' ->
      vrespelled (FObject ref) (JObj ms) (JObj ms')
  | V_oneof ref props ms ms1 ms' :
      lookup e ref = Some (SOneof props) -> Permutation ms ms1 -> (type_count ms <= 1)%nat -> vrespelled_members props ms1 ms' ->
      vrespelled (FOneof ref) (JObj ms) (JObj ms')
  | V_array item js js' : vrespelled_items item js js' -> vrespelled (FArray item) (JArr js) (JArr js')
  | V_map item ms ms' : vrespelled_entries item ms ms' -> vrespelled (FMap item) (JObj ms) (JObj ms')

  with vrespelled_members : list property -> list (bytes * jvalue) -> list (bytes * jvalue) -> Prop :=
  | VM_nil props : vrespelled_members props [] []
  | VM_same props k v r r' : vrespelled_members props r r' -> vrespelled_members props ((k, v) :: r) ((k, v) :: r')
  | VM_member props k v v' r r' p :
      bytes_eqb k type_key = false ->
      find_prop props k = Some p -> (v = JNull <-> v' = JNull) -> vrespelled (p_ty p) v v' ->
      vrespelled_members props r r' -> vrespelled_members props ((k, v) :: r) ((k, v') :: r')

  with vrespelled_items : field_ty -> list jvalue -> list jvalue -> Prop :=
  | VI_nil item : vrespelled_items item [] []
  | VI_cons item v v' r r' : vrespelled item v v' -> vrespelled_items item r r' -> vrespelled_items item (v :: r) (v' :: r')

  with vrespelled_entries : field_ty -> list (bytes * jvalue) -> list (bytes * jvalue) -> Prop :=
  | VE_nil item : vrespelled_entries item [] []
  | VE_cons item k v v' r r' : vrespelled item v v' -> vrespelled_entries item r r' ->
      vrespelled_entries item ((k, v) :: r) ((k, v') :: r').

  Scheme vrespelled_mut := Minimality for vrespelled Sort Prop
    with vrespelled_members_mut := Minimality for vrespelled_members Sort Prop
    with vrespelled_items_mut := Minimality for vrespelled_items Sort Prop
    with vrespelled_entries_mut := Minimality for vrespelled_entries Sort Prop.
  Combined Scheme vrespelled_all from vrespelled_mut, vrespelled_members_mut, vrespelled_items_mut, vrespelled_entries_mut.

  (* the keys are those of the original, in order *)
  Lemma vrespelled_members_types props ms ms' : vrespelled_members props ms ms' -> type_count ms' = type_count ms.
  Proof.
    induction 1 as [props|props k v r r' H IH|props k v v' r r' p Hk Hf Hn Hv H IH]; [reflexivity| |];
      unfold type_count in *; cbn [filter];
      [change (is_type (k, v)) with (bytes_eqb k type_key)
      |change (is_type (k, v')) with (bytes_eqb k type_key); change (is_type (k, v)) with (bytes_eqb k type_key)];
      destruct (bytes_eqb k type_key); cbn [length]; rewrite ?IH; reflexivity.
  Qed.

  (* same-order respelling commutes with a permutation of the members *)
  Lemma vm_perm props b c : Permutation b c -> forall a, vrespelled_members props a b ->
    exists a', Permutation a a' /\ vrespelled_members props a' c.
  Proof.
    induction 1 as [|x l l' P IH|x y l|l l' l'' P1 IH1 P2 IH2]; intros a Ha.
    - inversion Ha; subst. exists []. split; [constructor | constructor].
    - inversion Ha as [|props0 k v r r' Hr|props0 k v v' r r' p Hk Hf Hn Hv Hr]; subst.
      + destruct (IH _ Hr) as (r2 & Hp & Hm). exists ((k, v) :: r2). split; [constructor; exact Hp | apply VM_same; exact Hm].
      + destruct (IH _ Hr) as (r2 & Hp & Hm). exists ((k, v) :: r2). split; [constructor; exact Hp | eapply VM_member; eassumption].
    - inversion Ha as [|props0 k v r r' Hr|props0 k v v' r r' p Hk Hf Hn Hv Hr]; subst;
        inversion Hr as [|props1 k2 v2 r2 r2' Hr2|props1 k2 v2 v2' r2 r2' p2 Hk2 Hf2 Hn2 Hv2 Hr2]; subst.
      + exists ((k2, v2) :: (k, v) :: r2). split; [apply perm_swap | apply VM_same, VM_same; exact Hr2].
      + exists ((k2, v2) :: (k, v) :: r2). split; [apply perm_swap | eapply VM_member; try eassumption; apply VM_same; exact Hr2].
      + exists ((k2, v2) :: (k, v) :: r2). split; [apply perm_swap | apply VM_same; eapply VM_member; eassumption].
      + exists ((k2, v2) :: (k, v) :: r2). split; [apply perm_swap | eapply VM_member; try eassumption; eapply VM_member; eassumption].
    - destruct (IH1 _ Ha) as (a1 & Hp1 & Hm1). destruct (IH2 _ Hm1) as (a2 & Hp2 & Hm2).
      exists a2. split; [eapply Permutation_trans; eassumption | exact Hm2].
  Qed.

  (* the fragment is part of the relation of the leniency theorem *)
  Lemma vrespelled_is_lenient :
    (forall ty j j', vrespelled ty j j' -> lenient orc e ty j j') /\
    (forall props ms ms', vrespelled_members props ms ms' -> lenient_members orc e props ms ms') /\
    (forall item js js', vrespelled_items item js js' -> lenient_items orc e item js js') /\
    (forall item ms ms', vrespelled_entries item ms ms' -> lenient_entries orc e item ms ms').
  Proof.
    apply vrespelled_all; intros.
    - apply L_same.
    - apply L_scalar; assumption.
    - eapply L_enum; eassumption.
    - eapply (L_object orc e ref props ms [] ms1 ms'); [eassumption | constructor | left; reflexivity | assumption | assumption].
    - eapply (L_oneof orc e ref props ms ms1 ms'); [eassumption | assumption | assumption | assumption].
    - apply L_array; assumption.
    - apply L_map; assumption.
    - apply LM_nil.
    - apply LM_same; assumption.
    - eapply LM_member; eassumption.
    - apply LI_nil.
    - apply LI_cons; assumption.
    - apply LE_nil.
    - apply LE_cons; assumption.
  Qed.

  (* and it is symmetric *)
  Lemma vrespelled_sym :
    (forall ty j j', vrespelled ty j j' -> vrespelled ty j' j) /\
    (forall props ms ms', vrespelled_members props ms ms' -> vrespelled_members props ms' ms) /\
    (forall item js js', vrespelled_items item js js' -> vrespelled_items item js' js) /\
    (forall item ms ms', vrespelled_entries item ms ms' -> vrespelled_entries item ms' ms).
  Proof.
    apply vrespelled_all; intros.
    - apply V_same.
    - apply V_scalar; try assumption; [tauto | congruence].
    - eapply V_enum; [eassumption | congruence].
    - match goal with Hp : Permutation ms ms1, Hm : vrespelled_members props ms' ms1 |- _ =>
        destruct (vm_perm props ms1 ms (Permutation_sym Hp) ms' Hm) as (ms2 & Hp2 & Hm2) end.
      eapply V_object; eassumption.
    - match goal with Hp : Permutation ms ms1, Hm : vrespelled_members props ms' ms1, Hm0 : vrespelled_members props ms1 ms' |- _ =>
        destruct (vm_perm props ms1 ms (Permutation_sym Hp) ms' Hm) as (ms2 & Hp2 & Hm2);
        pose proof (vrespelled_members_types _ _ _ Hm0) as Ht1; pose proof (type_count_perm _ _ Hp) as Ht2 end.
      eapply V_oneof; [eassumption | eassumption | lia | assumption].
    - apply V_array; assumption.
    - apply V_map; assumption.
    - apply VM_nil.
    - apply VM_same; assumption.
    - eapply VM_member; try eassumption. tauto.
    - apply VI_nil.
    - apply VI_cons; assumption.
    - apply VE_nil.
    - apply VE_cons; assumption.
  Qed.
End Conv.

(* documents: the root's members vrespelled at any depth, same order *)
Definition doc_vrespelled (orc : oracles) (e : env) (root : bytes) (ms ms' : list (bytes * jvalue)) : Prop :=
  (exists props ms1, lookup e root = Some (SObject props) /\ Permutation ms ms1 /\ vrespelled_members orc e props ms1 ms') \/
  (exists props ms1, lookup e root = Some (SOneof props) /\ Permutation ms ms1 /\ (type_count ms <= 1)%nat /\ vrespelled_members orc e props ms1 ms').

Lemma doc_vrespelled_sym orc e root ms ms' : doc_vrespelled orc e root ms ms' -> doc_vrespelled orc e root ms' ms.
Proof.
  destruct (vrespelled_sym orc e) as (_ & Hm & _).
  intros [(props & ms1 & Hl & Hp & H) | (props & ms1 & Hl & Hp & Ht & H)];
    destruct (vm_perm orc e props ms1 ms (Permutation_sym Hp) ms' (Hm _ _ _ H)) as (ms2 & Hp2 & Hm2); [left | right]; exists props, ms2.
  - split; [exact Hl | split; assumption].
  - pose proof (vrespelled_members_types orc e _ _ _ H) as Ht1. pose proof (type_count_perm _ _ Hp) as Ht2.
    split; [exact Hl | split; [assumption | split; [lia | assumption]]].
Qed.

Lemma doc_vrespelled_variant orc e root ms ms' : doc_vrespelled orc e root ms ms' -> doc_variant orc e root ms ms'.
Proof.
  destruct (vrespelled_is_lenient orc e) as (_ & Hm & _).
  intros [(props & ms1 & Hl & Hp & H) | (props & ms1 & Hl & Hp & Ht & H)].
  - apply (DV_object orc e root ms ms' props [] ms1); [exact Hl | constructor | left; reflexivity | exact Hp | apply Hm, H].
  - apply (DV_oneof orc e root ms ms' props ms1); [exact Hl | exact Hp | exact Ht | apply Hm, H].
Qed.

(* both directions: a document and a respelling of it are accepted together, with the same message *)
Theorem vrespelled_document_iff orc e root bs bs' ms ms' me me' :
  env_separate e = true -> env_commute e = true ->
  lex bs = (tokens_of (JObj ms), me) -> lex_at_eof bs = true ->
  lex bs' = (tokens_of (JObj ms'), me') -> lex_at_eof bs' = true ->
  doc_vrespelled orc e root ms ms' ->
  forall m', decode_document orc e root bs = Ok m' <-> decode_document orc e root bs' = Ok m'.
Proof.
  intros Hs Hc Hl He Hl' He' Hr m'. destruct (C03_full orc e root Hs Hc) as (_ & Hv & _). split.
  - apply (Hv bs bs' ms ms' me me' m' Hl He Hl' He'). apply doc_vrespelled_variant, Hr.
  - apply (Hv bs' bs ms' ms me' me m' Hl' He' Hl He). apply doc_vrespelled_variant, doc_vrespelled_sym, Hr.
Qed.

(* ... and rejected together: the converse of the variant theorem on this fragment *)
Theorem vrespelled_document_rejected_iff orc e root bs bs' ms ms' me me' :
  env_separate e = true -> env_commute e = true ->
  lex bs = (tokens_of (JObj ms), me) -> lex_at_eof bs = true ->
  lex bs' = (tokens_of (JObj ms'), me') -> lex_at_eof bs' = true ->
  doc_vrespelled orc e root ms ms' ->
  (is_err (decode_document orc e root bs) = true <-> is_err (decode_document orc e root bs') = true).
Proof.
  intros Hs Hc Hl He Hl' He' Hr.
  pose proof (vrespelled_document_iff orc e root bs bs' ms ms' me me' Hs Hc Hl He Hl' He' Hr) as Hiff.
  destruct (decode_document_total orc e root bs) as [Hp Hf]. destruct (decode_document_total orc e root bs') as [Hp' Hf'].
  destruct (decode_document orc e root bs) as [m1|c1|s1|] eqn:E1; destruct (decode_document orc e root bs') as [m2|c2|s2|] eqn:E2;
    cbn in *; try discriminate; try congruence; try tauto.
  - destruct (Hiff m1) as [H _]. specialize (H eq_refl). discriminate.
  - destruct (Hiff m2) as [_ H]. specialize (H eq_refl). discriminate.
Qed.

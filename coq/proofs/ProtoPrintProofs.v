(* ProtoPrintProofs.v — lemmas behind props/C05.v (structural layer; the literal layer is
   proofs/ProtoPrintLitProofs.v) *)
From Coq Require Import String List Arith NArith ZArith Bool Lia ZifyN ZifyNat ZifyBool.
From J5V.lib Require Import Outcome Corr.
From J5V.model Require Import ProtoPrintLit ProtoPrint.
Import ListNotations.
Local Open Scope bool_scope.

(* ---------- equality tests --------------------------------------------------- *)
Lemma ident_eqb_eq a b : ident_eqb a b = true <-> a = b.
Proof.
  unfold ident_eqb. revert b. induction a as [|x r IH]; intros [|y s]; cbn [list_eqb]; split; intro H;
    try reflexivity; try discriminate.
  - apply andb_true_iff in H as [H1 H2]. apply N.eqb_eq in H1. apply IH in H2. congruence.
  - injection H as -> ->. rewrite N.eqb_refl. cbn. apply IH. reflexivity.
Qed.

Lemma qname_eqb_eq a b : qname_eqb a b = true <-> a = b.
Proof.
  unfold qname_eqb. revert b. induction a as [|x r IH]; intros [|y s]; cbn [list_eqb]; split; intro H;
    try reflexivity; try discriminate.
  - apply andb_true_iff in H as [H1 H2]. apply ident_eqb_eq in H1. apply IH in H2. congruence.
  - injection H as -> ->. apply andb_true_iff. split; [apply ident_eqb_eq; reflexivity|apply IH; reflexivity].
Qed.

Lemma qname_eqb_refl a : qname_eqb a a = true.
Proof. apply qname_eqb_eq. reflexivity. Qed.

Lemma is_type_In st n : is_type st n = true <-> In n (st_types st).
Proof.
  unfold is_type. rewrite existsb_exists. split.
  - intros [x [Hx E]]. apply qname_eqb_eq in E. subst. exact Hx.
  - intro H. exists n. split; [exact H|apply qname_eqb_refl].
Qed.

Lemma is_prefix_app p r : is_prefix p (p ++ r) = true.
Proof.
  induction p as [|a p IH]; cbn [is_prefix app]; [reflexivity|].
  rewrite IH, andb_true_r. apply ident_eqb_eq. reflexivity.
Qed.

(* ---------- what contextRefName strips ----------------------------------------- *)
Lemma strip_common_spec : forall ctx ref, ref <> [] ->
  exists common rest, ref = common ++ strip_common ref ctx /\ ctx = common ++ rest
                      /\ strip_common ref ctx <> [].
Proof.
  induction ctx as [|c ctx IH]; intros ref Hne.
  - exists [], []. cbn [strip_common app]. split; [reflexivity|]. split; [reflexivity|exact Hne].
  - destruct ref as [|r ref']; [contradiction|]. cbn [strip_common].
    destruct ref' as [|r2 ref''].
    + exists [], (c :: ctx). cbn. split; [reflexivity|]. split; [reflexivity|discriminate].
    + destruct (ident_eqb r c) eqn:E.
      * apply ident_eqb_eq in E. subst c.
        destruct (IH (r2 :: ref'') ltac:(discriminate)) as (common & rest & H1 & H2 & H3).
        exists (r :: common), rest. cbn [app]. split; [f_equal; exact H1|]. split; [f_equal; exact H2|exact H3].
      * exists [], (c :: ctx). cbn. split; [reflexivity|]. split; [reflexivity|discriminate].
Qed.

(* the snapshot strips down to the empty name on a self reference: the printed field has no type *)
Lemma snapshot_self_reference_empty pkg a : context_ref_name_snapshot pkg [a] pkg [a] = [].
Proof.
  unfold context_ref_name_snapshot. rewrite qname_eqb_refl. cbn [strip_common_snapshot].
  replace (ident_eqb a a) with true by (symmetry; apply ident_eqb_eq; reflexivity). reflexivity.
Qed.

Lemma repaired_never_empty ctx_pkg ctx ref_pkg ref : ref <> [] ->
  context_ref_name ctx_pkg ctx ref_pkg ref <> [].
Proof.
  intro Hne. unfold context_ref_name. destruct (qname_eqb ctx_pkg ref_pkg).
  - destruct (strip_common_spec ctx ref Hne) as (_ & _ & _ & _ & H). exact H.
  - intro E. apply app_eq_nil in E as [_ E]. contradiction.
Qed.

(* ---------- the resolver, scope by scope ------------------------------------------ *)
Lemma resolve_msg_app st : forall l1 scope l2 name,
  resolve_msg st scope (l1 ++ l2) name =
  match resolve_msg st (scope ++ l1) l2 name with
  | Continue => resolve_msg st scope l1 name
  | r => r
  end.
Proof.
  induction l1 as [|c l1 IH]; intros scope l2 name.
  - rewrite app_nil_r. cbn [app resolve_msg]. destruct (resolve_msg st scope l2 name); reflexivity.
  - cbn [app resolve_msg]. rewrite IH. rewrite <- app_assoc. cbn [app].
    destruct (resolve_msg st (scope ++ c :: l1) l2 name); reflexivity.
Qed.

Lemma resolve_msg_continue st first rest' : forall rem scope,
  (forall k, (0 < k <= length rem)%nat -> is_type st (scope ++ firstn k rem ++ [first]) = false) ->
  resolve_msg st scope rem (first :: rest') = Continue.
Proof.
  induction rem as [|c rem IH]; intros scope H; [reflexivity|].
  cbn [resolve_msg]. rewrite IH.
  - unfold try_msg. specialize (H 1%nat ltac:(cbn; lia)). cbn [firstn app] in H.
    rewrite <- app_assoc. cbn [app]. rewrite H. reflexivity.
  - intros k Hk. specialize (H (S k) ltac:(cbn [length]; lia)). cbn [firstn app] in H.
    rewrite <- app_assoc. cbn [app]. exact H.
Qed.

Lemma resolve_msg_snoc st scope init l name :
  resolve_msg st scope (init ++ [l]) name =
  match try_msg st (scope ++ init ++ [l]) name with
  | Continue => resolve_msg st scope init name
  | r => r
  end.
Proof.
  rewrite resolve_msg_app. cbn [resolve_msg]. rewrite <- app_assoc.
  destruct (try_msg st (scope ++ init ++ [l]) name); reflexivity.
Qed.

Lemma resolve_file_continue st name : forall rem scope,
  (forall k, (0 < k <= length rem)%nat -> try_file st (scope ++ firstn k rem) name = Continue) ->
  resolve_file st scope rem name = try_file st scope name.
Proof.
  induction rem as [|c rem IH]; intros scope H; [reflexivity|].
  cbn [resolve_file]. rewrite IH.
  - specialize (H 1%nat ltac:(cbn; lia)). cbn [firstn] in H. rewrite H. reflexivity.
  - intros k Hk. specialize (H (S k) ltac:(cbn [length]; lia)). cbn [firstn] in H.
    rewrite <- app_assoc. exact H.
Qed.

Lemma resolve_file_deepest st name n : forall rem scope,
  try_file st (scope ++ rem) name = Found n -> resolve_file st scope rem name = Found n.
Proof.
  induction rem as [|c rem IH]; intros scope H.
  - rewrite app_nil_r in H. exact H.
  - cbn [resolve_file]. rewrite (IH (scope ++ [c])); [reflexivity|]. rewrite <- app_assoc. exact H.
Qed.

(* ---------- the scope-shortening lemma, same package ---------------------------------- *)
(* the referenced type and the messages enclosing it are types of the table *)
Definition wf_ref (st : symtab) (pkg ref : qname) : Prop :=
  forall k, (0 < k <= length ref)%nat -> is_type st (pkg ++ firstn k ref) = true.

(* no type nested in a scope between the referring message and the scope the shortened name is
   relative to has the name the shortened reference starts with *)
Definition no_capture (st : symtab) (pkg ctx ref : qname) : Prop :=
  let short := strip_common ref ctx in
  let j := (length ref - length short)%nat in
  forall k, (j < k <= length ctx)%nat -> is_type st (pkg ++ firstn k ctx ++ [hd [] short]) = false.

Lemma try_found st pkg common short :
  short <> [] -> wf_ref st pkg (common ++ short) ->
  try_msg st (pkg ++ common) short = Found (pkg ++ common ++ short)
  /\ try_file st (pkg ++ common) short = Found (pkg ++ common ++ short).
Proof.
  intros Hne Hwf. destruct short as [|first rest]; [contradiction|].
  assert (H1 : is_type st ((pkg ++ common) ++ [first]) = true).
  { specialize (Hwf (S (length common))). rewrite <- app_assoc.
    replace (firstn (S (length common)) (common ++ first :: rest)) with (common ++ [first]) in Hwf.
    - apply Hwf. rewrite app_length. cbn [length]. lia.
    - rewrite firstn_app. rewrite firstn_all2 by lia.
      replace (S (length common) - length common)%nat with 1%nat by lia. reflexivity. }
  assert (H2 : is_type st ((pkg ++ common) ++ first :: rest) = true).
  { specialize (Hwf (length (common ++ first :: rest))). rewrite firstn_all in Hwf. rewrite <- app_assoc.
    apply Hwf. rewrite app_length. cbn [length]. lia. }
  unfold try_msg, try_file. rewrite H1. cbn [orb]. destruct rest as [|r2 rest'].
  - rewrite <- app_assoc. split; reflexivity.
  - rewrite H2. rewrite <- app_assoc. split; reflexivity.
Qed.

Theorem scope_lemma_same_package st pkg ctx ref :
  ref <> [] -> wf_ref st pkg ref -> no_capture st pkg ctx ref ->
  resolve st pkg ctx (context_ref_name pkg ctx pkg ref) = Some (pkg ++ ref).
Proof.
  intros Hne Hwf Hnc. unfold context_ref_name. rewrite qname_eqb_refl.
  destruct (strip_common_spec ctx ref Hne) as (common & rest & Href & Hctx & Hs).
  unfold no_capture in Hnc. cbv zeta in Hnc.
  set (short := strip_common ref ctx) in *.
  assert (Hj : (length ref - length short = length common)%nat).
  { rewrite Href at 1. rewrite app_length. lia. }
  rewrite Hj in Hnc.
  destruct short as [|first srest] eqn:Eshort; [contradiction|].
  assert (Hwf' : wf_ref st pkg (common ++ first :: srest)) by (rewrite <- Href; exact Hwf).
  destruct (try_found st pkg common (first :: srest) ltac:(discriminate) Hwf') as [Tm Tf].
  (* the scopes below [common] do not capture the name *)
  assert (Hinner : resolve_msg st (pkg ++ common) rest (first :: srest) = Continue).
  { apply resolve_msg_continue. intros k Hk.
    specialize (Hnc (length common + k)%nat). rewrite Hctx in Hnc.
    rewrite firstn_app in Hnc. rewrite firstn_all2 in Hnc by lia.
    replace (length common + k - length common)%nat with k in Hnc by lia.
    rewrite <- !app_assoc in Hnc. rewrite <- app_assoc. apply Hnc. rewrite app_length. lia. }
  unfold resolve. rewrite Hctx, resolve_msg_app, Hinner.
  destruct common as [|c0 common'] using rev_ind.
  - (* nothing shared: no message scope matches, the package scope does *)
    cbn [resolve_msg]. rewrite app_nil_r in Tf. cbn [app] in Tf.
    rewrite (resolve_file_deepest st (first :: srest) (pkg ++ first :: srest) pkg []); [|exact Tf].
    rewrite Href. reflexivity.
  - clear IHcommon'. rewrite resolve_msg_snoc. rewrite Tm. rewrite Href. reflexivity.
Qed.

(* ---------- the scope-shortening lemma, other package ------------------------------------ *)
Definition no_capture_pkg (st : symtab) (pkg ctx : qname) (first : ident) : Prop :=
  (forall k, (0 < k <= length ctx)%nat -> is_type st (pkg ++ firstn k ctx ++ [first]) = false)
  /\ (forall k, (0 < k <= length pkg)%nat ->
        is_type st (firstn k pkg ++ [first]) = false /\ is_namespace st (firstn k pkg ++ [first]) = false).

Theorem scope_lemma_other_package st pkg ctx ref_pkg ref first prest :
  ref_pkg = first :: prest -> ref <> [] -> qname_eqb pkg ref_pkg = false ->
  In ref_pkg (st_pkgs st) -> is_type st (ref_pkg ++ ref) = true ->
  no_capture_pkg st pkg ctx first ->
  resolve st pkg ctx (context_ref_name pkg ctx ref_pkg ref) = Some (ref_pkg ++ ref).
Proof.
  intros Hp Hne Hdiff Hin Hty [Hm Hf]. unfold context_ref_name. rewrite Hdiff.
  unfold resolve. subst ref_pkg. cbn [app].
  rewrite (resolve_msg_continue st first (prest ++ ref) ctx pkg Hm).
  assert (Hrest : prest ++ ref <> []) by (intro E; apply app_eq_nil in E as [_ E]; contradiction).
  rewrite resolve_file_continue.
  - unfold try_file. cbn [app]. destruct (prest ++ ref) as [|r2 rr] eqn:Er; [contradiction|].
    assert (Hns : is_namespace st [first] = true).
    { unfold is_namespace. apply existsb_exists. exists (first :: prest). split; [exact Hin|].
      cbn [is_prefix]. rewrite andb_true_r. apply ident_eqb_eq. reflexivity. }
    rewrite Hns, orb_true_r. cbn [app] in Hty. rewrite Er in Hty. rewrite Hty. reflexivity.
  - intros k Hk. destruct (Hf k Hk) as [H1 H2]. unfold try_file. cbn [app].
    destruct (prest ++ ref) as [|r2 rr]; [contradiction|]. rewrite H1, H2. reflexivity.
Qed.

(* ---------- the scope lemma for the printer as it is now: no hypothesis on shadowing ------------ *)
Lemma existsb_seq_false (f : nat -> bool) s n :
  existsb f (seq s n) = false -> forall k, (s <= k < s + n)%nat -> f k = false.
Proof.
  intros H k Hk. destruct (f k) eqn:E; [|reflexivity].
  assert (existsb f (seq s n) = true) by (apply existsb_exists; exists k; split; [apply in_seq; exact Hk|exact E]).
  congruence.
Qed.

(* what must hold of the table for the reference to make sense at all *)
Definition wf_target (st : symtab) (pkg ref_pkg ref : qname) : Prop :=
  (qname_eqb pkg ref_pkg = true -> wf_ref st pkg ref)
  /\ (qname_eqb pkg ref_pkg = false ->
        ref_pkg <> [] /\ In ref_pkg (st_pkgs st) /\ is_type st (ref_pkg ++ ref) = true).

Theorem scope_lemma_full st pkg ctx ref_pkg ref :
  ref <> [] -> wf_target st pkg ref_pkg ref ->
  resolve_printed st pkg ctx (context_ref_name_safe st pkg ctx ref_pkg ref) = Some (ref_pkg ++ ref).
Proof.
  intros Hne [Hsame Hother]. unfold context_ref_name_safe.
  destruct (qname_eqb pkg ref_pkg) eqn:Ep.
  - apply qname_eqb_eq in Ep. subst ref_pkg. specialize (Hsame eq_refl).
    assert (Hty : is_type st (pkg ++ ref) = true).
    { specialize (Hsame (length ref)). rewrite firstn_all in Hsame. apply Hsame.
      destruct ref; [contradiction|cbn [length]; lia]. }
    cbv zeta. destruct (capture_same st pkg ctx _ _ || is_statement_keyword _) eqn:Ec0.
    + unfold resolve_printed. cbn [pn_abs pn_name]. rewrite Hty. reflexivity.
    + apply orb_false_iff in Ec0 as [Ec _]. unfold resolve_printed. cbn [pn_abs pn_name].
      pose proof (scope_lemma_same_package st pkg ctx ref Hne Hsame) as L.
      unfold context_ref_name in L. rewrite qname_eqb_refl in L. apply L.
      unfold no_capture. cbv zeta. intros k Hk.
      apply (existsb_seq_false _ _ _ Ec k). lia.
  - destruct (Hother eq_refl) as (Hpne & Hin & Hty).
    destruct ref_pkg as [|first prest]; [contradiction|]. cbn [hd].
    destruct (capture_other st pkg ctx first || is_statement_keyword first) eqn:Ec0.
    + unfold resolve_printed. cbn [pn_abs pn_name]. rewrite Hty. reflexivity.
    + apply orb_false_iff in Ec0 as [Ec _]. unfold resolve_printed. cbn [pn_abs pn_name].
      pose proof (scope_lemma_other_package st pkg ctx (first :: prest) ref first prest eq_refl Hne Ep Hin Hty) as L.
      unfold context_ref_name in L. rewrite Ep in L. apply L.
      unfold capture_other in Ec. apply orb_false_iff in Ec as [E1 E2]. split.
      * intros k Hk. apply (existsb_seq_false _ _ _ E1 k). lia.
      * intros k Hk. pose proof (existsb_seq_false _ _ _ E2 k ltac:(lia)) as H.
        apply orb_false_iff in H. exact H.
Qed.

(* the printed name is never empty and, when relative, is what the stripping loop leaves *)
Lemma safe_never_empty st ctx_pkg ctx ref_pkg ref : ref <> [] ->
  pn_name (context_ref_name_safe st ctx_pkg ctx ref_pkg ref) <> [].
Proof.
  intro Hne. unfold context_ref_name_safe. destruct (qname_eqb ctx_pkg ref_pkg).
  - cbv zeta. destruct (capture_same _ _ _ _ _ || is_statement_keyword _); cbn [pn_name].
    + intro E. apply app_eq_nil in E as [_ E]. contradiction.
    + destruct (strip_common_spec ctx ref Hne) as (_ & _ & _ & _ & H). exact H.
  - destruct (capture_other _ _ _ _ || is_statement_keyword _); cbn [pn_name]; intro E; apply app_eq_nil in E as [_ E]; contradiction.
Qed.

(* ---------- where the hypotheses are needed: witnesses ------------------------------------- *)
Local Open Scope N_scope.
Definition nA : ident := [65]. Definition nB : ident := [66].
Definition pkg_w : qname := [[115; 99]; [118; 49]].   (* sc.v1 *)

(* message A { message B {} ; B f = 1; }  message B {}  — the field means the top-level B *)
Definition shadow_table : symtab :=
  {| st_types := [pkg_w ++ [nA]; pkg_w ++ [nA; nB]; pkg_w ++ [nB]]; st_pkgs := [pkg_w] |}.

Theorem shadow_refuted :
  context_ref_name pkg_w [nA] pkg_w [nB] = [nB]
  /\ resolve shadow_table pkg_w [nA] [nB] = Some (pkg_w ++ [nA; nB])
  /\ pkg_w ++ [nA; nB] <> pkg_w ++ [nB].
Proof. split; [vm_compute; reflexivity|]. split; [vm_compute; reflexivity|discriminate]. Qed.

(* package service.v1.service referring to service.v1.A: "service" is found as the file's own package *)
Definition svc : ident := [115;101;114;118;105;99;101]. Definition v1 : ident := [118; 49].
Definition cross_table : symtab :=
  {| st_types := [[svc; v1; svc; nB]; [svc; v1; nA]]; st_pkgs := [[svc; v1; svc]; [svc; v1]] |}.

Theorem shadow_now_absolute :
  context_ref_name_safe shadow_table pkg_w [nA] pkg_w [nB] = {| pn_abs := true; pn_name := pkg_w ++ [nB] |}
  /\ resolve_printed shadow_table pkg_w [nA] (context_ref_name_safe shadow_table pkg_w [nA] pkg_w [nB]) = Some (pkg_w ++ [nB]).
Proof. split; vm_compute; reflexivity. Qed.

Theorem cross_package_refuted :
  context_ref_name [svc; v1; svc] [nB] [svc; v1] [nA] = [svc; v1; nA]
  /\ resolve cross_table [svc; v1; svc] [nB] [svc; v1; nA] = None.
Proof. split; vm_compute; reflexivity. Qed.

(* ---------- tables regenerated from the Go source ----------------------------------------- *)
From J5V.gen Require PrintGen.
Local Open Scope string_scope.

Definition bytes_eqb' := list_eqb N.eqb.

(* the short escapes of the model are those of the code, every other control character and 0x7f
   is written as \xHH *)
Lemma short_escapes_agree :
  forallb (fun ce => bytes_eqb' (print_rune_esc (fst ce)) [92; snd ce]) PrintGen.short_escapes = true
  /\ forallb (fun c => existsb (N.eqb c) (map fst PrintGen.short_escapes)
                       || bytes_eqb' (firstn 2 (print_rune_esc c)) [92; 120])
             (127 :: map N.of_nat (seq 0 32)) = true.
Proof. split; vm_compute; reflexivity. Qed.

Lemma escape_literals_agree :
  PrintGen.escape_condition = [32; 34; 92; 127]
  /\ PrintGen.index_need_escape_literals = [0; 32; 34; 39; 92; 127]
  /\ PrintGen.output_ascii = "true".
Proof. repeat split; vm_compute; reflexivity. Qed.

Lemma marshal_arms_agree :
  PrintGen.marshal_arms =
  [("BoolKind", ""); ("StringKind", "prototextString");
   ("Int32Kind", "strconv.FormatInt"); ("Int64Kind", "strconv.FormatInt"); ("Sint32Kind", "strconv.FormatInt");
   ("Sint64Kind", "strconv.FormatInt"); ("Sfixed32Kind", "strconv.FormatInt"); ("Sfixed64Kind", "strconv.FormatInt");
   ("Uint32Kind", "strconv.FormatUint"); ("Uint64Kind", "strconv.FormatUint"); ("Fixed32Kind", "strconv.FormatUint");
   ("Fixed64Kind", "strconv.FormatUint"); ("FloatKind", "fFloat"); ("DoubleKind", "fFloat");
   ("BytesKind", "prototextString"); ("EnumKind", "strconv.FormatInt")].
Proof. vm_compute. reflexivity. Qed.

(* the keyword table of the model is the Go map (fix 5e02f98), and contextRefName consults it in both branches *)
Lemma statement_keywords_agree :
  statement_keywords = PrintGen.statement_keywords /\ PrintGen.statement_keyword_checks = 2%N.
Proof. split; vm_compute; reflexivity. Qed.

(* the scalar type names and the three words the file parser dispatches on are statement keywords *)
Lemma keyword_table_covers :
  forallb is_statement_keyword
    [ [100;111;117;98;108;101]; [102;108;111;97;116]; [105;110;116;51;50]; [105;110;116;54;52];
      [117;105;110;116;51;50]; [117;105;110;116;54;52]; [115;105;110;116;51;50]; [115;105;110;116;54;52];
      [102;105;120;101;100;51;50]; [102;105;120;101;100;54;52]; [115;102;105;120;101;100;51;50];
      [115;102;105;120;101;100;54;52]; [98;111;111;108]; [115;116;114;105;110;103]; [98;121;116;101;115];
      [114;101;112;101;97;116;101;100]; [111;112;116;105;111;110;97;108]; [111;112;116;105;111;110] ] = true.
Proof. vm_compute. reflexivity. Qed.

(* a relative printed name does not start with a statement keyword *)
Lemma safe_head_not_keyword st ctx_pkg ctx ref_pkg ref :
  (qname_eqb ctx_pkg ref_pkg = false -> ref_pkg <> []) ->
  pn_abs (context_ref_name_safe st ctx_pkg ctx ref_pkg ref) = false ->
  is_statement_keyword (hd [] (pn_name (context_ref_name_safe st ctx_pkg ctx ref_pkg ref))) = false.
Proof.
  unfold context_ref_name_safe. destruct (qname_eqb ctx_pkg ref_pkg); intro Hne.
  - cbv zeta. destruct (capture_same _ _ _ _ _ || is_statement_keyword _) eqn:E; cbn [pn_abs pn_name]; [discriminate|].
    intros _. apply orb_false_iff in E as [_ E]. exact E.
  - destruct (capture_other _ _ _ _ || is_statement_keyword _) eqn:E; cbn [pn_abs pn_name]; [discriminate|].
    intros _. apply orb_false_iff in E as [_ E]. destruct ref_pkg as [|a r]; [exfalso; exact (Hne eq_refl eq_refl)|exact E].
Qed.

Lemma strip_guard_agrees : PrintGen.strip_guard = "<= 1".
Proof. vm_compute. reflexivity. Qed.

(* the option field numbers hard-coded in OptionsFor are those of descriptor.proto *)
Lemma options_numbers_agree : PrintGen.options_field_numbers = PrintGen.descriptor_options_numbers.
Proof. vm_compute. reflexivity. Qed.

(* PipelineWalkSpecProofs.v — an independent, declarative reading of what a list method exposes (the walk of
   lib/j5schema/schema_walk.go walkSchemaFields over the item object), and the model function against it.

   [walked g k anc path q t]: starting at schema k (reached along [path], with the schemas [anc] being walked
   higher up), the property path q of type t is reported: q extends path by the JSON names of a chain of properties,
   each step but the last going through an object / oneof reference to a schema that is not already being walked
   higher up on THIS chain (the recursion guard is path-local: the same schema may be reported along two different
   chains).  It is an inductive relation over the schema environment; it does not mention fuel, fold_left, the
   accumulator or the order of the result. *)
From Coq Require Import String Ascii List Arith NArith Bool Lia ZifyN ZifyNat ZifyBool Permutation.
From J5V.lib Require Import Outcome Corr.
From J5V.model Require Import Pipeline PipelineCompile PipelineCorr.
From J5V.proofs Require Import PipelineProofs.
Import ListNotations.
Local Open Scope N_scope.
Local Open Scope bool_scope.

Inductive walked (g : env) : key -> list key -> list str -> list str -> fty -> Prop :=
| walked_here k anc path s p :
    lookup g k = Some s -> ~ In k anc -> In p (schema_props s) ->
    walked g k anc path (path ++ [p_json p]) (p_ty p)
| walked_down k anc path s p k' q t :
    lookup g k = Some s -> ~ In k anc -> In p (schema_props s) ->
    direct_ref (p_ty p) = Some k' ->
    walked g k' (k :: anc) (path ++ [p_json p]) q t ->
    walked g k anc path q t.

(* one step of the fold of walk_fields *)
Definition walk_step (rec : key -> list str -> outcome (list (list str * fty))) (path : list str) (p : prop)
  : outcome (list (list str * fty)) :=
  let pp := path ++ [p_json p] in
  match direct_ref (p_ty p) with
  | Some k' => omap (fun sub => (pp, p_ty p) :: sub) (rec k' pp)
  | None => Ok [(pp, p_ty p)]
  end.

Definition walk_body (rec : key -> list str -> outcome (list (list str * fty))) (path : list str)
  (acc : outcome (list (list str * fty))) (p : prop) : outcome (list (list str * fty)) :=
  obind acc (fun out =>
    let pp := path ++ [p_json p] in
    match direct_ref (p_ty p) with
    | Some k' => omap (fun sub => out ++ (pp, p_ty p) :: sub) (rec k' pp)
    | None => Ok (out ++ [(pp, p_ty p)])
    end).

Lemma fold_not_ok rec path props : forall o l,
  fold_left (walk_body rec path) props o = Ok l -> exists acc, o = Ok acc.
Proof.
  induction props as [|p r IH]; intros o l H; cbn [fold_left] in H; [exists l; exact H|].
  destruct (IH _ _ H) as [acc Hacc]. destruct o as [a| | |]; cbn in Hacc; try discriminate. exists a. reflexivity.
Qed.

Lemma fold_ok rec path props : forall acc l,
  fold_left (walk_body rec path) props (Ok acc) = Ok l ->
  exists rs, Forall2 (fun p r => walk_step rec path p = Ok r) props rs /\ l = acc ++ concat rs.
Proof.
  induction props as [|p r IH]; intros acc l H; cbn [fold_left] in H.
  - injection H as <-. exists []. split; [constructor|]. cbn. rewrite app_nil_r. reflexivity.
  - destruct (fold_not_ok _ _ _ _ _ H) as [acc' Hacc']. rewrite Hacc' in H.
    destruct (IH _ _ H) as (rs & Hf & ->).
    unfold walk_body in Hacc'. cbn [obind] in Hacc'.
    destruct (direct_ref (p_ty p)) as [k'|] eqn:Hd.
    + unfold omap in Hacc'. destruct (rec k' (path ++ [p_json p])) as [sub| | |] eqn:Hr; cbn [obind] in Hacc'; try discriminate.
      injection Hacc' as <-. exists (((path ++ [p_json p], p_ty p) :: sub) :: rs). split.
      * constructor; [|exact Hf]. unfold walk_step. rewrite Hd, Hr. reflexivity.
      * cbn [concat]. rewrite <- app_assoc. reflexivity.
    + injection Hacc' as <-. exists ([(path ++ [p_json p], p_ty p)] :: rs). split.
      * constructor; [|exact Hf]. unfold walk_step. rewrite Hd. reflexivity.
      * cbn [concat]. rewrite <- app_assoc. reflexivity.
Qed.

Lemma Forall2_In_l {A B} (R : A -> B -> Prop) l l' a : Forall2 R l l' -> In a l -> exists b, In b l' /\ R a b.
Proof.
  induction 1 as [|x y l l' Hxy Hf IH]; intro Hin; [destruct Hin|].
  destruct Hin as [<-|Hin]; [exists y; split; [left; reflexivity|exact Hxy]|].
  destruct (IH Hin) as (b & Hb & Hr). exists b. split; [right; exact Hb|exact Hr].
Qed.

Lemma Forall2_In_r {A B} (R : A -> B -> Prop) l l' b : Forall2 R l l' -> In b l' -> exists a, In a l /\ R a b.
Proof.
  induction 1 as [|x y l l' Hxy Hf IH]; intro Hin; [destruct Hin|].
  destruct Hin as [<-|Hin]; [exists x; split; [left; reflexivity|exact Hxy]|].
  destruct (IH Hin) as (a & Ha & Hr). exists a. split; [right; exact Ha|exact Hr].
Qed.

Lemma walk_fields_unfold f g k anc path :
  walk_fields (S f) g k anc path =
  match lookup g k with
  | None => Err "unsupported schema type <nil>"
  | Some s => if mem_key k anc then Ok []
              else fold_left (walk_body (fun k' pp => walk_fields f g k' (k :: anc) pp) path) (schema_props s) (Ok [])
  end.
Proof. reflexivity. Qed.

(* the model function reports exactly the walked paths *)
Theorem walk_fields_spec : forall fuel g k anc path l,
  walk_fields fuel g k anc path = Ok l ->
  forall q t, In (q, t) l <-> walked g k anc path q t.
Proof.
  induction fuel as [|f IH]; intros g k anc path l H q t; [discriminate H|].
  rewrite walk_fields_unfold in H. destruct (lookup g k) as [s|] eqn:Hl; [|discriminate].
  destruct (mem_key k anc) eqn:Hm.
  - injection H as <-. split; [intros []|]. apply mem_key_In in Hm.
    intro W. inversion W; subst; contradiction.
  - apply mem_key_false in Hm.
    destruct (fold_ok _ _ _ _ _ H) as (rs & Hf & ->). cbn [app]. rewrite in_concat. split.
    + intros (r & Hr & Hin). destruct (Forall2_In_r _ _ _ _ Hf Hr) as (p & Hp & Hs).
      unfold walk_step in Hs. destruct (direct_ref (p_ty p)) as [k'|] eqn:Hd.
      * unfold omap in Hs. destruct (walk_fields f g k' (k :: anc) (path ++ [p_json p])) as [sub| | |] eqn:Hw; cbn [obind] in Hs; try discriminate.
        injection Hs as <-. destruct Hin as [E|Hin].
        -- injection E as <- <-. exact (walked_here g k anc path s p Hl Hm Hp).
        -- apply (walked_down g k anc path s p k' q t Hl Hm Hp Hd). apply (IH _ _ _ _ _ Hw). exact Hin.
      * injection Hs as <-. destruct Hin as [E|[]]. injection E as <- <-. exact (walked_here g k anc path s p Hl Hm Hp).
    + intro W. inversion W as [k0 anc0 path0 s0 p Hl0 Hn0 Hp0|k0 anc0 path0 s0 p k' q0 t0 Hl0 Hn0 Hp0 Hd0 W0]; subst;
        rewrite Hl in Hl0; injection Hl0 as <-.
      * destruct (Forall2_In_l _ _ _ _ Hf Hp0) as (r & Hr & Hs). exists r. split; [exact Hr|].
        unfold walk_step in Hs. destruct (direct_ref (p_ty p)) as [k'|].
        -- unfold omap in Hs. destruct (walk_fields f g k' (k :: anc) (path ++ [p_json p])) as [sub| | |]; cbn [obind] in Hs; try discriminate.
           injection Hs as <-. left. reflexivity.
        -- injection Hs as <-. left. reflexivity.
      * destruct (Forall2_In_l _ _ _ _ Hf Hp0) as (r & Hr & Hs). exists r. split; [exact Hr|].
        unfold walk_step in Hs. rewrite Hd0 in Hs. unfold omap in Hs.
        destruct (walk_fields f g k' (k :: anc) (path ++ [p_json p])) as [sub| | |] eqn:Hw; cbn [obind] in Hs; try discriminate.
        injection Hs as <-. right. apply (IH _ _ _ _ _ Hw). exact W0.
Qed.

(* ------------------------------------------------------------------ the root of a list request, declaratively *)
(* the response has exactly one array property, and its items are references to an object *)
Definition is_array (p : prop) : Prop := exists i, p_ty p = TArray i.

Definition single_object_array (ps : list prop) (root : key) : Prop :=
  exists pre p post, ps = pre ++ p :: post
    /\ p_ty p = TArray (TRef "object" root)
    /\ (forall q, In q (pre ++ post) -> ~ is_array q).

Lemma array_props_nil ps : array_props ps = [] -> forall q, In q ps -> ~ is_array q.
Proof.
  unfold array_props. induction ps as [|p r IH]; intros H q Hq; [destruct Hq|].
  cbn [flat_map] in H. apply app_eq_nil in H as [H1 H2]. destruct Hq as [<-|Hq].
  - intros [i Hi]. rewrite Hi in H1. discriminate.
  - exact (IH H2 q Hq).
Qed.

Lemma array_props_single : forall ps i, array_props ps = [i] ->
  exists pre p post, ps = pre ++ p :: post /\ p_ty p = TArray i /\ (forall q, In q (pre ++ post) -> ~ is_array q).
Proof.
  unfold array_props. induction ps as [|p r IH]; intros i H; [discriminate|].
  cbn [flat_map] in H. destruct (p_ty p) as [a|a k|j|j] eqn:Hp; cbn [app] in H.
  1,2,4: destruct (IH i H) as (pre & p0 & post & -> & Hp0 & Hn); exists (p :: pre), p0, post; split; [reflexivity|]; split; [exact Hp0|];
         intros q [<-|Hq]; [intros [x Hx]; rewrite Hp in Hx; discriminate|exact (Hn q Hq)].
  injection H as <- H. exists [], p, r. split; [reflexivity|]. split; [exact Hp|]. cbn [app]. exact (array_props_nil r H).
Qed.

Theorem list_root_spec resp root : list_root resp = Ok root ->
  exists ps, resp = Some ps /\ single_object_array ps root.
Proof.
  unfold list_root. destruct resp as [ps|]; [|discriminate]. destruct (array_props ps) as [|i [|j r]] eqn:Ha; try discriminate.
  destruct i as [a|alt k|j|j]; try discriminate. destruct (String.eqb alt "object") eqn:He; [|discriminate].
  intro H. injection H as <-. apply String.eqb_eq in He. subst alt. exists ps. split; [reflexivity|].
  exact (array_props_single ps _ Ha).
Qed.

(* what a declared list method exposes: the walked paths of the item object of the response's one array *)
Theorem declared_list_spec g d l : declared_list g d = Some l ->
  is_query_request (df_req d) = true
  /\ exists ps root, df_resp d = Some ps /\ single_object_array ps root
       /\ forall q t, In (q, t) l <-> walked (cenv g) root [] [] q t.
Proof.
  unfold declared_list. destruct (is_query_request (df_req d)); [|discriminate].
  destruct (list_root (df_resp d)) as [root| | |] eqn:Hr; try discriminate.
  destruct (walk_fields (S (length g)) (cenv g) root [] []) as [l0| | |] eqn:Hw; try discriminate.
  intro H. injection H as <-. split; [reflexivity|].
  destruct (list_root_spec _ _ Hr) as (ps & Hps & Hs). exists ps, root. split; [exact Hps|]. split; [exact Hs|].
  exact (walk_fields_spec _ _ _ _ _ _ Hw).
Qed.

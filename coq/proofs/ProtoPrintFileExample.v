(* ProtoPrintFileExample.v — a concrete well-formed descriptor for the non-vacuity example of C05:
     package t.v1; two imports (out of order); message Foo with a leading comment, a message option, a
     string field with two options (one simplified to a sub path), an optional field of the nested type
     Foo.Bar, a map field with an enum value, a oneof, the nested message Bar referring back to Foo;
     a service with one rpc carrying a google.api.http option; an enum with a negative value. *)
From Coq Require Import String Ascii List Arith NArith ZArith Bool Lia ZifyN ZifyNat ZifyBool.
From J5V.model Require Import ProtoPrintLit ProtoPrint ProtoPrintFile ProtoParseFile.
From J5V.proofs Require Import ProtoPrintProofs ProtoPrintFileSyntaxProofs ProtoPrintFileSemProofs ProtoPrintFileFullProofs.
Import ListNotations.
Local Open Scope N_scope.
Local Open Scope string_scope.

Definition b (s : string) : list N := map (fun a => N_of_ascii a) (list_ascii_of_string s).

Definition bl (s : string) : list N := (b s ++ [10])%list.

Definition k0 : key := {| k_line := 0; k_idx := 0 |}.
Definition kk (l i : N) : key := {| k_line := l; k_idx := i |}.
Definition pkg_t : qname := [b "t"; b "v1"].

Definition ext_name (parts : list string) : printed_name := {| pn_abs := false; pn_name := map b parts |}.
Definition mk_opt (idx : N) (parts : list string) (v : rawval) : dopt :=
  {| o_key := kk 0 idx; o_full := map b parts; o_name := ext_name parts; o_val := v |}.

Definition opt_object : dopt :=
  mk_opt 0 ["j5"; "ext"; "v1"; "message"] (RMsg [(b "object", RMsg [])]).
Definition opt_validate : dopt :=
  mk_opt 1 ["buf"; "validate"; "field"]
    (RMsg [(b "required", RScalar (TIdent (b "true")));
           (b "string", RMsg [(b "pattern", RScalar (TLit (print_string_lit (b "^[a-z]+$"))))])]).
Definition opt_key : dopt :=
  mk_opt 0 ["j5"; "ext"; "v1"; "field"] (RMsg [(b "key", RMsg [(b "format", RScalar (TIdent (b "FORMAT_ID62")))])]).
Definition opt_http : dopt :=
  mk_opt 0 ["google"; "api"; "http"] (RMsg [(b "get", RScalar (TLit (print_string_lit (b "/t/v1/foo/{id}"))))]).

Definition f_id : dfield :=
  {| f_key := kk 0 0; f_cm := {| c_det := []; c_lead := bl " The id" |}; f_label := LNone;
     f_type := DSingle (DScalar (b "string")); f_name := b "id"; f_num := 1; f_json := b "id";
     f_opts := [opt_key; opt_validate] |}.
Definition f_bar : dfield :=
  {| f_key := kk 0 1; f_cm := no_cmt; f_label := LOptional;
     f_type := DSingle (DRef pkg_t [b "Foo"; b "Bar"]); f_name := b "bar_ref"; f_num := 2; f_json := b "barRef"; f_opts := [] |}.
Definition f_tags : dfield :=
  {| f_key := kk 0 2; f_cm := no_cmt; f_label := LNone;
     f_type := DMapT (b "string") (b "TagKindsEntry") (DRef pkg_t [b "Kind"]); f_name := b "tag_kinds"; f_num := 3;
     f_json := b "tags"; f_opts := [] |}.
Definition f_a : dfield :=
  {| f_key := kk 0 3; f_cm := no_cmt; f_label := LNone;
     f_type := DSingle (DScalar (b "int32")); f_name := b "a"; f_num := 4; f_json := b "a"; f_opts := [] |}.
Definition f_self : dfield :=
  {| f_key := kk 0 0; f_cm := no_cmt; f_label := LRepeated;
     f_type := DSingle (DRef pkg_t [b "Foo"]); f_name := b "parents"; f_num := 1; f_json := b "parents"; f_opts := [] |}.

Definition m_bar : delem := DMsg (kk 0 0) no_cmt (b "Bar") [] [DField f_self].
Definition m_foo : delem :=
  DMsg (kk 0 0) {| c_det := [bl " detached"]; c_lead := bl " Foo is the root" |} (b "Foo") [opt_object]
    [DField f_id; DField f_bar; DField f_tags; DOneof (kk 0 0) no_cmt (b "pick") [] [f_a]; m_bar].

Definition meth_get : dmethod :=
  {| m_key := kk 0 0; m_cm := no_cmt; m_name := b "GetFoo"; m_in := (pkg_t, [b "Foo"]); m_out := (pkg_t, [b "Foo"; b "Bar"]);
     m_opts := [opt_http] |}.
Definition svc_foo : delem := DService (kk 0 0) no_cmt (b "FooService") [] [meth_get].

Definition e_kind : delem :=
  DEnum (kk 0 0) no_cmt (b "Kind") []
    [ {| v_key := kk 0 0; v_cm := no_cmt; v_name := b "KIND_UNSPECIFIED"; v_num := 0%Z; v_opts := [] |};
      {| v_key := kk 0 1; v_cm := no_cmt; v_name := b "KIND_NEGATIVE"; v_num := (-1)%Z; v_opts := [] |} ].

Definition ex_imp : xsymtab :=
  {| x_types := [([b "google"; b "protobuf"], [b "Empty"])];
     x_pkgs := [[b "j5"; b "ext"; b "v1"]; [b "buf"; b "validate"]; [b "google"; b "api"]; [b "google"; b "protobuf"]] |}.

Definition ex_file : dfile :=
  {| d_pkg := pkg_t;
     d_imports := [b "j5/ext/v1/annotations.proto"; b "buf/validate/validate.proto"; b "google/api/annotations.proto"];
     d_fopts := [(b "go_package", TLit (quote (b "example.com/t/v1")))];
     d_exts := [];
     d_body := [m_foo; svc_foo; e_kind] |}.

Definition ex_st : symtab := to_symtab (dfile_symtab ex_imp ex_file).
Definition ex_tokens : list token := print_file_tokens ex_st ex_file.

Ltac solve_opts := repeat constructor; try (vm_compute; (reflexivity || discriminate || tauto)).

Lemma ex_opts_wf : Forall wf_dopt [opt_object] /\ Forall wf_dopt [opt_key; opt_validate] /\ Forall wf_dopt [opt_http].
Proof.
  repeat split; repeat constructor; try reflexivity; try (unfold wf_pn; cbn; discriminate);
    try (vm_compute; tauto).
Qed.

Lemma ex_unique : flat_unique (dfile_symtab ex_imp ex_file).
Proof.
  intros e1 e2 H1 H2. vm_compute in H1, H2.
  repeat (destruct H1 as [<-|H1]); try destruct H1;
    repeat (destruct H2 as [<-|H2]); try destruct H2; intro E; try reflexivity; vm_compute in E; discriminate E.
Qed.

Lemma ex_tref path : In path [[b "Foo"]; [b "Foo"; b "Bar"]; [b "Kind"]] ->
  wf_tref (dfile_symtab ex_imp ex_file) pkg_t pkg_t path.
Proof.
  intro H. repeat (destruct H as [<-|H]); try destruct H.
  - split; [discriminate|]. split; [|vm_compute; tauto].
    split; [intros _ k Hk; destruct k as [|[|k]]; cbn in Hk; try lia; vm_compute; reflexivity|intro E; vm_compute in E; discriminate E].
  - split; [discriminate|]. split; [|vm_compute; tauto].
    split; [intros _ k Hk; destruct k as [|[|[|k]]]; cbn in Hk; try lia; vm_compute; reflexivity|intro E; vm_compute in E; discriminate E].
  - split; [discriminate|]. split; [|vm_compute; tauto].
    split; [intros _ k Hk; destruct k as [|[|k]]; cbn in Hk; try lia; vm_compute; reflexivity|intro E; vm_compute in E; discriminate E].
Qed.

Lemma ex_field_scalar f k : f_type f = DSingle (DScalar k) -> is_scalar_kind k = true -> Forall wf_dopt (f_opts f) ->
  wf_dfield (dfile_symtab ex_imp ex_file) pkg_t f.
Proof. intros E Hk Ho. split; [rewrite E; exact Hk|exact Ho]. Qed.

Lemma ex_foo_wf : wf_delem (dfile_symtab ex_imp ex_file) pkg_t m_foo.
Proof.
  destruct ex_opts_wf as (Ho1 & Ho2 & Ho3). unfold m_foo. apply wf_delem_msg. split; [exact Ho1|].
  cbn [wf_delems]. split; [|split; [|split; [|split; [|split; [|exact I]]]]].
  - apply (ex_field_scalar f_id (b "string")); [reflexivity|vm_compute; reflexivity|exact Ho2].
  - split; [|constructor]. cbn [f_bar f_type wf_dtype wf_dvt]. apply ex_tref. vm_compute. tauto.
  - split; [|constructor]. cbn [f_tags f_type f_name wf_dtype wf_dvt].
    split; [vm_compute; reflexivity|]. split; [vm_compute; reflexivity|]. apply ex_tref. vm_compute. tauto.
  - cbn [wf_delem]. split; [constructor|]. constructor; [|constructor].
    apply (ex_field_scalar f_a (b "int32")); [reflexivity|vm_compute; reflexivity|constructor].
  - unfold m_bar. apply wf_delem_msg. split; [constructor|]. cbn [wf_delems wf_delem]. split; [|exact I].
    split; [|constructor]. cbn [f_self f_type wf_dtype wf_dvt]. apply ex_tref. vm_compute. tauto.
Qed.

Theorem ex_file_wf : wf_dfile ex_imp ex_file.
Proof.
  destruct ex_opts_wf as (Ho1 & Ho2 & Ho3).
  unfold wf_dfile. cbv zeta. split; [discriminate|]. split; [exact ex_unique|].
  split; [repeat constructor|]. split; [constructor|]. split.
  - change (d_body ex_file) with [m_foo; svc_foo; e_kind]. change (d_pkg ex_file) with pkg_t.
    cbn [wf_delems]. split; [exact ex_foo_wf|]. split; [|split; [|exact I]].
    + unfold svc_foo. cbn [wf_delem]. split; [constructor|]. constructor; [|constructor].
      split; [apply ex_tref; vm_compute; tauto|]. split; [apply ex_tref; vm_compute; tauto|exact Ho3].
    + unfold e_kind. cbn [wf_delem]. split; [constructor|].
      constructor; [split; [vm_compute; reflexivity|constructor]|].
      constructor; [split; [vm_compute; reflexivity|constructor]|constructor].
  - change (d_body ex_file) with [m_foo; svc_foo; e_kind]. repeat constructor.
Qed.

(* what is printed: the tokens of
     syntax = "proto3"; package t.v1; import ... (sorted); option go_package = "...";
     [detached comment] [leading comment] message Foo { option (j5.ext.v1.message).object = {};
       [comment] string id = 1 [(buf.validate.field) = {required: true string: {pattern: "^[a-z]+$"}},
                                (j5.ext.v1.field).key.format = FORMAT_ID62];
       optional Bar bar_ref = 2 [json_name = "barRef"]; map<string, Kind> tag_kinds = 3 [json_name = "tags"];
       oneof pick { int32 a = 4; } message Bar { repeated Foo parents = 1; } }
     service FooService { rpc GetFoo(Foo) returns (Foo.Bar) { option (google.api.http) = {get: "/t/v1/foo/{id}"}; } }
     enum Kind { KIND_UNSPECIFIED = 0; KIND_NEGATIVE = -1; } *)
Theorem ex_file_ok :
  wf_dfile ex_imp ex_file
  /\ length ex_tokens = 173%nat
  /\ parse_file_tokens ex_imp ex_tokens = Some (canon_file ex_file)
  /\ print_file_tokens (to_symtab (dfile_symtab ex_imp (canon_file ex_file))) (canon_file ex_file) = ex_tokens.
Proof.
  split; [exact ex_file_wf|]. split; [vm_compute; reflexivity|].
  split; [exact (file_roundtrip ex_imp ex_file ex_file_wf)|exact (print_canon_file ex_imp ex_file)].
Qed.

(* PipelineStrcaseProofs.v — the path law of C16 instantiated with the byte-exact model of
   iancoleman/strcase ToSnake (lib/Strcase.v, builder "ent"): which property names are inside the law. *)
From Coq Require Import String List Arith NArith Bool Lia ZifyN ZifyNat ZifyBool.
From J5V.lib Require Import Outcome Corr Strcase.
From J5V.model Require Import Pipeline PipelineCompile.
From J5V.proofs Require Import StrcaseProofs PipelineProofs.
Import ListNotations.
Local Open Scope N_scope.
Local Open Scope bool_scope.

Lemma ident_no_slash s : ident s = true -> no_char SLASH s.
Proof.
  intros H Hin. unfold ident in H. rewrite forallb_forall in H. specialize (H _ Hin).
  unfold SLASH, plain, is_cap, is_low, is_num in H. lia.
Qed.

Lemma to_snake_ident n : ident n = true -> ident (to_snake n) = true.
Proof.
  intro H. unfold to_snake, to_delimited, to_screaming_delimited.
  rewrite (trim_space_ident n H). apply ident_delimited. exact H.
Qed.

(* ToSnake is injective on lowerCamel names (letters, starting lower-case, no two adjacent capitals):
   ToLowerCamel undoes it there *)
Theorem to_snake_inj_lower_camel n m :
  lower_camel n = true -> lower_camel m = true -> to_snake n = to_snake m -> n = m.
Proof.
  intros Hn Hm E. rewrite <- (to_lower_camel_to_snake n Hn), <- (to_lower_camel_to_snake m Hm), E. reflexivity.
Qed.

Definition all_lower_camel (props : list str) : Prop := Forall (fun n => lower_camel n = true) props.

Lemma snake_inj_lower_camel props : all_lower_camel props -> snake_inj to_snake props.
Proof.
  intros H n m Hn Hm E. unfold all_lower_camel in H. rewrite Forall_forall in H.
  apply to_snake_inj_lower_camel; auto.
Qed.

Lemma snake_ok_lower_camel props : all_lower_camel props -> snake_ok to_snake props.
Proof.
  intros H n Hn. unfold all_lower_camel in H. rewrite Forall_forall in H.
  pose proof (lower_camel_ident n (H n Hn)) as Hi. split.
  - apply ident_no_slash. exact Hi.
  - apply ident_no_slash. apply to_snake_ident. exact Hi.
Qed.

(* the path law with the real ToSnake: every path whose parameters are lowerCamel request properties *)
Theorem path_law_strcase props parts :
  parts <> [] -> Forall (wf_part props) parts -> all_lower_camel props ->
  to_client_path (fields_of to_snake props) (to_http_path to_snake (join_with SLASH parts)) = Ok (join_with SLASH parts).
Proof.
  intros Hne Hf Hl. apply path_law; try assumption.
  - apply snake_inj_lower_camel. exact Hl.
  - apply snake_ok_lower_camel. exact Hl.
Qed.

Theorem build_method_declared_strcase d :
  1 <= dm_verb d <= 5 -> dm_parts d <> [] -> Forall (wf_part (dm_props d)) (dm_parts d) ->
  all_lower_camel (dm_props d) ->
  build_method (compile_method to_snake d) = Ok (declared_src d).
Proof.
  intros Hv Hne Hf Hl. apply build_method_declared. unfold wf_decl.
  split; [exact Hv|]. split; [exact Hne|]. split; [exact Hf|].
  split; [apply snake_inj_lower_camel; exact Hl|apply snake_ok_lower_camel; exact Hl].
Qed.

(* outside the class: fooId and foo_id have the same snake form; a request declaring both gets the
   path that names the second answered with the first *)
Definition n_fooId : str := bytes_of "fooId".
Definition n_foo_id : str := bytes_of "foo_id".

Theorem strcase_collision :
  n_fooId <> n_foo_id /\ to_snake n_fooId = to_snake n_foo_id
  /\ to_client_path (fields_of to_snake [n_fooId; n_foo_id])
       (to_http_path to_snake (join_with SLASH [[]; COLON :: n_foo_id]))
     = Ok (join_with SLASH [[]; COLON :: n_fooId]).
Proof.
  split; [discriminate|]. split; [vm_compute; reflexivity|]. vm_compute. reflexivity.
Qed.

(* CmpbWalkProofs.v — the walker model (model/CmpbWalk.v, CmpbWalkFile.v) satisfies what CmpbFrontProofs asks of
   the [walk] parameter of the front end:
     - it returns: the only panic is an empty block type reference, which the parser never produces;
       every error it returns carries a position (by the type of [sres]);
     - position contract: every span of the location tree it builds, and the position of every error it reports,
       has both ends among the end points of the nodes of the syntax tree it was given (or the origin);
     - the declarations it hands to the converter lie below their declaration's node (ldecl_wf).  *)
From Coq Require Import Ascii String List NArith ZArith Bool Arith Lia.
From J5V.lib Require Import Text Outcome.
From J5V.model Require Import BclLexer BclParser CmpbFields CmpbDecls CmpbFront CmpbWalk CmpbWalkFile.
From J5V.proofs Require Import BclLexerProofs BclParserProofs BclBytesProofs CmpbDeclsProofs CmpbFrontProofs.
Import ListNotations.
Local Open Scope bool_scope.
Local Open Scope list_scope.

(* ------------------------------------------------------------------ spans of a location tree *)
Definition spans_cs (cs : list (string * loc)) : list span := flat_map (fun kc => spans (snd kc)) cs.
Lemma spans_unfold sp cs : spans (Loc sp cs) = sp :: spans_cs cs.
Proof.
  cbn [spans]. f_equal. unfold spans_cs. induction cs as [|[k c] r IH]; [reflexivity|].
  cbn [flat_map snd]. f_equal. exact IH.
Qed.

Lemma find_child_in k cs c : find_child k cs = Some c -> In (k, c) cs.
Proof.
  induction cs as [|[k' c'] r IH]; [discriminate|]. cbn [find_child].
  destruct (String.eqb k k') eqn:E; [intro H; injection H as <-; apply String.eqb_eq in E; subst; left; reflexivity|].
  intro H. right. apply IH. exact H.
Qed.

Section Contract.
  Variable body0 : list stmt.
  Let allnodes := flat_map stmt_nodes body0.

  Definition Pt (p : pos) : Prop := point_from body0 p = true.
  Definition Psp (sp : span) : Prop := Pt (fst sp) /\ Pt (snd sp).

  Lemma Psp_span_from sp : Psp sp <-> span_from body0 sp = true.
  Proof. unfold Psp, Pt, span_from. rewrite andb_true_iff. tauto. Qed.

  Lemma Pt0 : Pt pos0.
  Proof. unfold Pt. apply point_from_in. left. reflexivity. Qed.
  Lemma Psp0 : Psp span0.
  Proof. split; exact Pt0. Qed.

  Lemma node_pt k s e : In (k, s, e) allnodes -> Pt s /\ Pt e.
  Proof.
    intro H. split; apply point_from_in; right; apply in_flat_map; exists (k, s, e); (split; [exact H|]); cbn; auto.
  Qed.
  Lemma node_psp k s e : In (k, s, e) allnodes -> Psp (s, e).
  Proof. intro H. exact (node_pt k s e H). Qed.

  Definition locs_ok (t : loc) : Prop := Forall Psp (spans t).

  Lemma locs_ok_child sp cs k c : locs_ok (Loc sp cs) -> find_child k cs = Some c -> locs_ok c.
  Proof.
    unfold locs_ok. rewrite spans_unfold. intros H Hf. apply Forall_forall. intros x Hx.
    rewrite Forall_forall in H. apply H. right. apply in_flat_map. exists (k, c). split; [apply find_child_in; exact Hf|exact Hx].
  Qed.

  Lemma set_child_spans k c cs x : In x (spans_cs (set_child k c cs)) -> In x (spans c) \/ In x (spans_cs cs).
  Proof.
    induction cs as [|[k' c'] r IH]; cbn [set_child spans_cs flat_map snd].
    - rewrite app_nil_r. auto.
    - destruct (String.eqb k k'); cbn [flat_map snd]; rewrite !in_app_iff.
      + intros [H|H]; [left; exact H|right; right; exact H].
      + intros [H|H]; [right; left; exact H|]. destruct (IH H) as [H1|H1]; [left; exact H1|right; right; exact H1].
  Qed.

  Lemma loc_ensure_ok : forall p t hint, locs_ok t -> Psp hint -> locs_ok (loc_ensure t p hint).
  Proof.
    induction p as [|k r IH]; intros t hint Ht Hh; [exact Ht|].
    destruct t as [sp cs]. cbn [loc_ensure loc_children loc_span].
    unfold locs_ok. rewrite spans_unfold. apply Forall_cons.
    - unfold locs_ok in Ht. rewrite spans_unfold in Ht. inversion Ht; assumption.
    - apply Forall_forall. intros x Hx. apply set_child_spans in Hx. destruct Hx as [Hx|Hx].
      + assert (Hc : locs_ok (match find_child k cs with Some c => c | None => Loc hint [] end)).
        { destruct (find_child k cs) as [c|] eqn:Ef; [eapply locs_ok_child; eassumption|].
          unfold locs_ok. rewrite spans_unfold. cbn. constructor; [exact Hh|constructor]. }
        specialize (IH _ hint Hc Hh). unfold locs_ok in IH. rewrite Forall_forall in IH. apply IH. exact Hx.
      + unfold locs_ok in Ht. rewrite spans_unfold in Ht. inversion Ht as [|? ? _ Hr]. rewrite Forall_forall in Hr. apply Hr. exact Hx.
  Qed.

  Lemma loc_get_ok : forall p t n, locs_ok t -> loc_get t p = Some n -> locs_ok n.
  Proof.
    induction p as [|k r IH]; intros t n Ht; cbn [loc_get]; [intro H; injection H as <-; exact Ht|].
    destruct t as [sp cs]. cbn [loc_children]. destruct (find_child k cs) as [c|] eqn:Ef; [|discriminate].
    apply IH. eapply locs_ok_child; eassumption.
  Qed.

  (* ---------------------------------------------------------------- results *)
  Definition st_ok (s : wstate) : Prop := locs_ok (ws_loc s).
  Definition wres_ok {A} (m : wres A) : Prop :=
    match m with
    | ROk _ s => st_ok s
    | RErr (Some sp) _ => Psp sp
    | _ => True
    end.

  Lemma rbind_ok {A B} (m : wres A) (k : A -> wstate -> wres B) :
    wres_ok m -> (forall a s, st_ok s -> wres_ok (k a s)) -> wres_ok (rbind m k).
  Proof. destruct m as [a s|[sp|] c|w]; cbn; auto. Qed.

  Lemma repos_ok {A} (p : option span) (m : wres A) :
    wres_ok m -> match p with Some sp => Psp sp | None => True end -> wres_ok (repos p m).
  Proof. destruct m as [a s|sp c|w]; cbn; auto; destruct p; auto. Qed.

  Lemma store_ok lp v s : st_ok s -> st_ok (store lp v s).
  Proof. exact (fun H => H). Qed.

  (* ---------------------------------------------------------------- schema layer *)
  Lemma walk_path_ok : forall p c hint s, st_ok s -> Psp hint -> wres_ok (walk_path c p hint s).
  Proof.
    induction p as [|n r IH]; intros c hint s Hs Hh; cbn [walk_path]; [exact I|].
    destruct (negb (has_property (cf_cont c) n)); [exact I|].
    destruct (cf_cont c) as [sn|k]; [|exact I].
    destruct (find_prop (CSchema sn) n) as [pd|]; [|exact I].
    assert (Hstep : forall pp nc,
      wres_ok (match r with
               | [] => ROk (mkCF nc (cf_loc c ++ pp) (cont_spec nc)) (mkWS (loc_ensure (ws_loc s) (cf_loc c ++ pp) hint) (ws_vals s))
               | _ :: _ => walk_path (mkCF nc (cf_loc c ++ pp) (cont_spec nc)) r hint (mkWS (loc_ensure (ws_loc s) (cf_loc c ++ pp) hint) (ws_vals s))
               end)).
    { intros pp nc. assert (Hs' : st_ok (mkWS (loc_ensure (ws_loc s) (cf_loc c ++ pp) hint) (ws_vals s))) by (apply loc_ensure_ok; assumption).
      destruct r; [exact Hs'|apply IH; assumption]. }
    destruct (pd_ty pd); try exact I; apply Hstep.
  Qed.

  Lemma walk_to_child_ok c p hint s : st_ok s -> Psp hint -> wres_ok (walk_to_child c p hint s).
  Proof. intros Hs Hh. unfold walk_to_child. destruct p; [exact Hs|apply walk_path_ok; assumption]. Qed.

  Lemma child_block_ok sc n hint s : st_ok s -> Psp hint -> wres_ok (child_block sc n hint s).
  Proof.
    intros Hs Hh. unfold child_block. destruct (find_block (sc_blocks sc) n) as [[root p]|]; [|exact I].
    apply rbind_ok; [apply walk_to_child_ok; assumption|]. intros a s' Hs'. exact Hs'.
  Qed.

  Lemma scope_field_ok sc n hint ex s : st_ok s -> Psp hint -> wres_ok (scope_field sc n hint ex s).
  Proof.
    intros Hs Hh. unfold scope_field. destruct (find_block (sc_blocks sc) n) as [[root p]|]; [|exact I].
    destruct (pop_last p) as [[final to_parent]|]; [|exact I].
    apply rbind_ok; [apply walk_to_child_ok; assumption|]. intros parent s1 Hs1.
    destruct (negb (has_property (cf_cont parent) final)); [exact I|].
    destruct (cf_cont parent) as [sn|k].
    - destruct (find_prop (CSchema sn) final) as [pd|]; [|exact I].
      destruct (pd_ty pd); try exact I;
        (destruct (negb ex && loc_has (ws_loc s1) (cf_loc parent ++ pd_path pd)); [exact I|apply loc_ensure_ok; assumption]).
    - destruct (negb (all_ascii (runes_of_string final)) || String.eqb final ""); [exact I|].
      destruct (negb ex && loc_has (ws_loc s1) (cf_loc parent ++ [final])); [exact I|apply loc_ensure_ok; assumption].
  Qed.

  Definition pelem_ok (e : pelem) : Prop := match snd e with Some x => Psp x | None => True end.

  Lemma walk_scope_ok : forall p sc l s, Forall pelem_ok p -> st_ok s -> Psp l -> wres_ok (walk_scope sc p l s).
  Proof.
    induction p as [|[n po] r IH]; intros sc l s Hp Hs Hl; cbn [walk_scope]; [exact Hs|].
    inversion Hp as [|? ? He Hr]; subst.
    assert (Hl' : Psp (match po with Some x => x | None => l end)) by (destruct po; [exact He|exact Hl]).
    pose proof (child_block_ok sc n _ s Hs Hl') as Hc.
    destruct (child_block sc n (match po with Some x => x | None => l end) s) as [sc' s'|sp c|w]; [|destruct po; [exact He|exact I]|exact I].
    apply IH; assumption.
  Qed.

  Definition tok_ok (t : token) : Prop := Psp (tstart t, tend t).

  Lemma combine_path_ok sp up : Forall tok_ok up -> Forall pelem_ok (combine_path sp up).
  Proof.
    intro H. unfold combine_path. apply Forall_app. split.
    - apply Forall_forall. intros e He. apply in_map_iff in He. destruct He as [n [<- _]]. exact I.
    - apply Forall_forall. intros e He. apply in_map_iff in He. destruct He as [t [<- Ht]].
      rewrite Forall_forall in H. exact (H t Ht).
  Qed.

  Lemma build_scope_ok sc sp up f s : Forall tok_ok up -> st_ok s -> wres_ok (build_scope sc sp up f s).
  Proof.
    intros Hu Hs. unfold build_scope. pose proof (combine_path_ok sp up Hu) as Hc.
    destruct (combine_path sp up) as [|e r] eqn:E; [destruct f; [exact I|exact Hs]|].
    apply rbind_ok; [apply walk_scope_ok; [exact Hc|exact Hs|exact Psp0]|]. intros a s' Hs'. exact Hs'.
  Qed.

  (* ---------------------------------------------------------------- values *)
  Definition value_ok (v : value) : Prop := incl (value_nodes v) allnodes.
  Lemma value_ok_span v : value_ok v -> Psp (value_start v, value_end v).
  Proof.
    intro H. destruct v as [t s e|vs s e]; cbn [value_start value_end].
    - apply (node_psp 9%N). apply H. left. reflexivity.
    - apply (node_psp 10%N). apply H. left. reflexivity.
  Qed.
  Lemma value_ok_sub vs s e : value_ok (VArr vs s e) -> Forall value_ok vs.
  Proof.
    intro H. apply Forall_forall. intros v Hv n Hn. apply H. cbn [value_nodes]. right.
    apply in_flat_map. exists v. split; assumption.
  Qed.

  Definition aval_ok (a : aval) : Prop :=
    match a with
    | ATok _ sp | AStr _ sp => Psp sp
    | AArr vs sp => Psp sp /\ Forall value_ok vs
    | ABool _ => True
    | ATag t => Psp (tag_span t)
    end.
  Lemma aval_ok_span a : aval_ok a -> Psp (aval_span a).
  Proof. destruct a; cbn; try tauto. intros _. exact Psp0. Qed.
  Lemma aval_of_ok v : value_ok v -> aval_ok (aval_of v).
  Proof.
    intro H. pose proof (value_ok_span v H) as Hs. destruct v as [t s e|[|v0 vs] s e]; cbn [aval_of aval_ok]; try exact Hs.
    split; [exact Hs|]. exact (value_ok_sub _ _ _ H).
  Qed.

  Lemma append_all_ok k lp : forall vs s, Forall aval_ok vs -> st_ok s -> wres_ok (append_all k lp vs s).
  Proof.
    induction vs as [|v r IH]; intros s Hv Hs; cbn [append_all]; [exact Hs|].
    inversion Hv as [|? ? H1 H2]; subst. destruct (conv_scalar k v); [apply IH; [exact H2|apply store_ok; exact Hs]|apply aval_ok_span; exact H1|exact I].
  Qed.

  Lemma set_leaf_ok fk lp val app s : aval_ok val -> st_ok s -> wres_ok (set_leaf fk lp val app s).
  Proof.
    intros Hv Hs. unfold set_leaf. pose proof (aval_ok_span val Hv) as Hsp.
    assert (Harr : forall vs, Forall aval_ok vs ->
              wres_ok (match fk with FArrScalar k => append_all k lp vs s | _ => RErr (Some (aval_span val)) E_BAD_TYPE end)).
    { intros vs Hvs. destruct fk; try exact Hsp. apply append_all_ok; assumption. }
    assert (Hsc : wres_ok (match fk with
                           | FScalar k => match conv_scalar k val with
                                          | ConvOk x => ROk tt (store lp x s)
                                          | ConvErr => RErr (Some (aval_span val)) E_SCALAR
                                          | ConvUnmod => RUnmod "float literal" end
                           | _ => RErr (Some (aval_span val)) E_BAD_TYPE end)).
    { destruct fk; try exact Hsp. destruct (conv_scalar k val); [exact Hs|exact Hsp|exact I]. }
    destruct val as [t sp|vs sp|l sp|b|t]; cbn [aval_ok] in Hv.
    - destruct app; [apply Harr; constructor; [exact Hv|constructor]|exact Hsc].
    - apply Harr. destruct Hv as [_ Hvs]. apply Forall_forall. intros a Ha. apply in_map_iff in Ha.
      destruct Ha as [v [<- Hin]]. apply aval_of_ok. rewrite Forall_forall in Hvs. exact (Hvs v Hin).
    - destruct app; [apply Harr; constructor; [exact Hv|constructor]|exact Hsc].
    - destruct app; [apply Harr; constructor; [exact I|constructor]|exact Hsc].
    - destruct app; [apply Harr; constructor; [exact Hv|constructor]|exact Hsc].
  Qed.

  (* ---------------------------------------------------------------- scalar splits *)
  Definition setter_ok (f : setter) : Prop := forall sc p v s, aval_ok v -> st_ok s -> wres_ok (f sc p v s).

  Lemma set_each_ok f sc : setter_ok f -> forall ps vs s, Forall aval_ok vs -> st_ok s -> wres_ok (set_each f sc ps vs s).
  Proof.
    intros Hf. induction ps as [|p ps IH]; intros vs s Hv Hs; cbn [set_each]; [exact Hs|].
    destruct vs as [|v vs]; [exact Hs|]. inversion Hv; subst.
    apply rbind_ok; [apply Hf; assumption|]. intros _ s' Hs'. apply IH; assumption.
  Qed.

  Lemma Forall_firstn {A} (P : A -> Prop) n l : Forall P l -> Forall P (firstn n l).
  Proof. intro H. apply Forall_forall. intros x Hx. rewrite Forall_forall in H. apply H.
    rewrite <- (firstn_skipn n l). apply in_or_app. left. exact Hx. Qed.
  Lemma Forall_skipn {A} (P : A -> Prop) n l : Forall P l -> Forall P (skipn n l).
  Proof.
    intro H. apply Forall_forall. intros x Hx. rewrite Forall_forall in H. apply H.
    rewrite <- (firstn_skipn n l). apply in_or_app. right. exact Hx.
  Qed.
  Lemma Forall_rev' {A} (P : A -> Prop) l : Forall P l -> Forall P (rev l).
  Proof. intro H. apply Forall_forall. intros x Hx. rewrite Forall_forall in H. apply H. apply in_rev. exact Hx. Qed.

  Lemma join_remainder_ok rem dflt : Forall aval_ok rem -> aval_ok dflt ->
    match join_remainder rem dflt with
    | ROk j _ => aval_ok j
    | RErr (Some sp) _ => Psp sp
    | _ => True
    end.
  Proof.
    intros Hr Hd. unfold join_remainder.
    destruct (find _ (combine rem (map as_string rem))) as [[bad o]|] eqn:Ef.
    - apply find_some in Ef. destruct Ef as [Hin _]. apply in_combine_l in Hin.
      apply aval_ok_span. rewrite Forall_forall in Hr. exact (Hr bad Hin).
    - cbn [aval_ok]. split; cbn [fst snd].
      + destruct rem as [|x r]; [exact (proj1 (aval_ok_span _ Hd))|]. inversion Hr; subst. exact (proj1 (aval_ok_span x H1)).
      + assert (Hl : aval_ok (last rem dflt)).
        { clear Ef. induction rem as [|x r IH]; [exact Hd|]. inversion Hr; subst. destruct r; [assumption|]. apply IH. assumption. }
        exact (proj2 (aval_ok_span _ Hl)).
  Qed.

  Lemma set_from_pieces_ok f csc ss vals0 s : setter_ok f -> Forall aval_ok vals0 -> st_ok s ->
    wres_ok (set_from_pieces f csc ss vals0 s).
  Proof.
    intros Hf Hv Hs. unfold set_from_pieces.
    set (vals := if sp_rtl ss then rev vals0 else vals0).
    assert (Hvals : Forall aval_ok vals) by (unfold vals; destruct (sp_rtl ss); [apply Forall_rev'|]; exact Hv).
    destruct (Nat.ltb (length vals) (length (sp_req ss))); [exact I|].
    apply rbind_ok; [apply set_each_ok; [exact Hf|apply Forall_firstn; exact Hvals|exact Hs]|].
    intros _ s5 Hs5.
    assert (Hrest : Forall aval_ok (skipn (length (sp_req ss)) vals)) by (apply Forall_skipn; exact Hvals).
    destruct (skipn (length (sp_req ss)) vals) as [|r0 rest] eqn:Er; [exact Hs5|].
    set (rest0 := r0 :: rest) in *.
    assert (Hopt : Forall aval_ok (if Nat.ltb (length (sp_opt ss)) (length rest0) then firstn (length (sp_opt ss)) rest0 else rest0))
      by (destruct (Nat.ltb (length (sp_opt ss)) (length rest0)); [apply Forall_firstn|]; exact Hrest).
    assert (Hrest2 : Forall aval_ok (if Nat.ltb (length (sp_opt ss)) (length rest0) then skipn (length (sp_opt ss)) rest0 else []))
      by (destruct (Nat.ltb (length (sp_opt ss)) (length rest0)); [apply Forall_skipn; exact Hrest|constructor]).
    apply rbind_ok; [apply set_each_ok; assumption|].
    intros _ s6 Hs6.
    destruct (if Nat.ltb (length (sp_opt ss)) (length rest0) then skipn (length (sp_opt ss)) rest0 else []) as [|first r2] eqn:E2; [exact Hs6|].
    destruct (sp_rem ss) as [rp|]; [|exact I].
    set (rem := if sp_rtl ss then rev (first :: r2) else first :: r2).
    assert (Hrem : Forall aval_ok rem) by (unfold rem; destruct (sp_rtl ss); [apply Forall_rev'|]; exact Hrest2).
    assert (Hfirst : aval_ok first) by (inversion Hrest2; assumption).
    pose proof (join_remainder_ok rem first Hrem Hfirst) as Hj.
    destruct (join_remainder rem first) as [j sj|[sp|] c|w]; try exact Hj; try exact I.
    apply Hf; assumption.
  Qed.

  Lemma split_pieces_ok ss val : aval_ok val ->
    match split_pieces ss val with
    | ROk vs _ => Forall aval_ok vs
    | RErr (Some sp) _ => Psp sp
    | _ => True
    end.
  Proof.
    intro Hv. unfold split_pieces. destruct (sp_delim ss) as [dl|].
    - destruct (negb (String.eqb dl ".")); [exact I|]. destruct (as_string val) as [str|]; [|apply aval_ok_span; exact Hv].
      apply Forall_forall. intros a Ha. apply in_map_iff in Ha. destruct Ha as [x [<- _]]. cbn [aval_ok]. apply aval_ok_span. exact Hv.
    - destruct val as [t sp|vs sp|l sp|b|t]; try exact I. destruct Hv as [_ Hvs].
      apply Forall_forall. intros a Ha. apply in_map_iff in Ha. destruct Ha as [v [<- Hin]].
      apply aval_of_ok. rewrite Forall_forall in Hvs. exact (Hvs v Hin).
  Qed.

  Lemma set_container_from_scalar_ok f csc spec val s : setter_ok f -> aval_ok val -> st_ok s ->
    wres_ok (set_container_from_scalar f csc spec val s).
  Proof.
    intros Hf Hv Hs. unfold set_container_from_scalar. destruct (bs_split spec) as [ss|]; [|exact I].
    pose proof (split_pieces_ok ss val Hv) as Hp.
    destruct (split_pieces ss val) as [vs sx|[sp|] c|w]; try exact Hp; try exact I.
    apply set_from_pieces_ok; assumption.
  Qed.

  Lemma set_attribute_ok : forall depth sc p ref val app s,
    Forall tok_ok ref -> aval_ok val -> st_ok s -> wres_ok (set_attribute depth sc p ref val app s).
  Proof.
    induction depth as [|d IH]; intros sc p ref val app s Hr Hv Hs; cbn [set_attribute].
    - pose proof (combine_path_ok p ref Hr) as Hc.
      destruct (pop_last (combine_path p ref)) as [[[lname lpos] to_block]|] eqn:Ep; [|exact I].
      assert (Hpl : pelem_ok (lname, lpos) /\ Forall pelem_ok to_block).
      { clear - Hc Ep. revert lname lpos to_block Ep. induction (combine_path p ref) as [|x r IHr]; intros; [discriminate|].
        cbn [pop_last] in Ep. inversion Hc; subst. destruct r as [|y r'].
        - injection Ep as <- <-. split; [assumption|constructor].
        - destruct (pop_last (y :: r')) as [[z r'']|] eqn:E2; [|discriminate]. injection Ep as <- <-.
          destruct z as [zn zp]. destruct (IHr H2 zn zp r'' eq_refl) as [A B]. split; [exact A|constructor; assumption]. }
      destruct Hpl as [Hl Hb]. pose proof (aval_ok_span val Hv) as Hsp.
      apply rbind_ok; [apply walk_scope_ok; [exact Hb|exact Hs|exact Psp0]|]. intros parent s1 Hs1.
      apply rbind_ok; [apply repos_ok; [apply scope_field_ok; assumption|exact Hl]|]. intros fl s2 Hs2.
      destruct (fst fl) eqn:Ef; try (apply set_leaf_ok; assumption).
      destruct app; [exact Hsp|].
      apply rbind_ok; [apply repos_ok; [apply child_block_ok; assumption|exact Hsp]|]. intros; exact I.
    - pose proof (combine_path_ok p ref Hr) as Hc.
      destruct (pop_last (combine_path p ref)) as [[[lname lpos] to_block]|] eqn:Ep; [|exact I].
      assert (Hpl : pelem_ok (lname, lpos) /\ Forall pelem_ok to_block).
      { clear - Hc Ep. revert lname lpos to_block Ep. induction (combine_path p ref) as [|x r IHr]; intros; [discriminate|].
        cbn [pop_last] in Ep. inversion Hc; subst. destruct r as [|y r'].
        - injection Ep as <- <-. split; [assumption|constructor].
        - destruct (pop_last (y :: r')) as [[z r'']|] eqn:E2; [|discriminate]. injection Ep as <- <-.
          destruct z as [zn zp]. destruct (IHr H2 zn zp r'' eq_refl) as [A B]. split; [exact A|constructor; assumption]. }
      destruct Hpl as [Hl Hb]. pose proof (aval_ok_span val Hv) as Hsp.
      apply rbind_ok; [apply walk_scope_ok; [exact Hb|exact Hs|exact Psp0]|]. intros parent s1 Hs1.
      apply rbind_ok; [apply repos_ok; [apply scope_field_ok; assumption|exact Hl]|]. intros fl s2 Hs2.
      destruct (fst fl) eqn:Ef; try (apply set_leaf_ok; assumption).
      destruct app; [exact Hsp|].
      apply rbind_ok; [apply repos_ok; [apply child_block_ok; assumption|exact Hsp]|]. intros csc s3 Hs3.
      apply set_container_from_scalar_ok; [|exact Hv|exact Hs3].
      intros sc' p' v' s' Hv' Hs'. apply IH; [constructor|exact Hv'|exact Hs'].
  Qed.

  Lemma set_attr_ok sc p ref val app s : Forall tok_ok ref -> aval_ok val -> st_ok s -> wres_ok (set_attr sc p ref val app s).
  Proof. apply set_attribute_ok. Qed.
  Lemma set_attr_setter : setter_ok (fun sc' p' v' s' => set_attr sc' p' [] v' false s').
  Proof. intros sc p v s Hv Hs. apply set_attr_ok; [constructor|exact Hv|exact Hs]. Qed.

  (* ---------------------------------------------------------------- provenance of header parts *)
  Definition ref_ok (r : reference) : Prop := incl (ref_nodes r) allnodes.
  Definition tag_ok (t : tag) : Prop := incl (tag_nodes t) allnodes.

  Lemma ref_ok_toks r : ref_ok r -> Forall tok_ok r.
  Proof.
    intro H. apply Forall_forall. intros t Ht. apply (node_psp 7%N). apply H. cbn [ref_nodes]. right.
    apply in_map_iff. exists t. split; [reflexivity|exact Ht].
  Qed.
  Lemma ref_ok_end r : ref_ok r -> Pt (ref_end r).
  Proof. intro H. apply (node_pt 6%N (ref_start r) (ref_end r)). apply H. left. reflexivity. Qed.
  Lemma tag_ok_span t : tag_ok t -> Psp (tag_span t).
  Proof. intro H. apply (node_psp 8%N). apply H. left. reflexivity. Qed.
  Lemma tag_ok_ref t r : tag_ok t -> tbody t = TagRef r -> ref_ok r.
  Proof.
    intros H E n Hn. apply H. unfold tag_nodes. right. apply in_or_app. right. rewrite E. exact Hn.
  Qed.
  Lemma tag_ok_aval t : tag_ok t -> aval_ok (ATag t).
  Proof. exact (tag_ok_span t). Qed.

  Lemma check_bang_ok sc ts t s : tag_ok t -> st_ok s -> wres_ok (check_bang sc ts t s).
  Proof.
    intros Ht Hs. unfold check_bang. pose proof (tag_ok_span t Ht) as Hsp.
    destruct (tmark t); [exact Hs| |].
    - destruct (ts_bang ts); [apply set_attr_ok; [constructor|exact I|exact Hs]|exact Hsp].
    - destruct (ts_question ts); [apply set_attr_ok; [constructor|exact I|exact Hs]|exact Hsp].
  Qed.

  Lemma last_in_tags (l : list tag) d : Forall tag_ok l -> tag_ok d -> tag_ok (last l d).
  Proof.
    intros Hl Hd. induction l as [|x r IH]; [exact Hd|]. inversion Hl; subst. destruct r; [assumption|apply IH; assumption].
  Qed.
  Lemma span_of_tags_ok first l : tag_ok first -> Forall tag_ok l -> Psp (span_of_tags first l).
  Proof.
    intros Hf Hl. unfold span_of_tags. split; cbn [fst snd].
    - exact (proj1 (tag_ok_span _ Hf)).
    - exact (proj2 (tag_ok_span _ (last_in_tags l first Hl Hf))).
  Qed.

  Definition pair_ok {A} (m : wres A) : Prop := wres_ok m.

  Lemma walk_tags_ok : forall tags np sc spec lastpos s,
    Forall tag_ok tags -> Pt lastpos -> st_ok s -> wres_ok (walk_tags tags np sc spec lastpos s).
  Proof.
    induction tags as [|t r IH]; intros np sc spec lastpos s Ht Hl Hs.
    - cbn [walk_tags]. destruct (if np then bs_name spec else None) as [ns|].
      + destruct (ts_optional ns); [exact Hs|split; exact Hl].
      + destruct (bs_typesel spec); [split; exact Hl|exact Hs].
    - inversion Ht as [|? ? Ht1 Htr]; subst. cbn [walk_tags].
      destruct (if np then bs_name spec else None) as [ns|].
      + apply rbind_ok; [apply check_bang_ok; assumption|]. intros _ s1 Hs1.
        apply rbind_ok; [apply set_attr_ok; [constructor|apply tag_ok_aval; exact Ht1|exact Hs1]|]. intros _ s2 Hs2.
        apply IH; [exact Htr|exact (proj2 (tag_ok_span t Ht1))|exact Hs2].
      + destruct (bs_typesel spec) as [ts|].
        * destruct (tbody t) as [rf|v] eqn:Eb; [|exact I].
          apply rbind_ok; [apply build_scope_ok; [apply ref_ok_toks; eapply tag_ok_ref; eassumption|exact Hs]|]. intros tsc s1 Hs1.
          apply rbind_ok; [apply check_bang_ok; assumption|]. intros _ s2 Hs2.
          apply IH; [exact Htr|exact (proj2 (tag_ok_span t Ht1))|exact Hs2].
        * destruct (find has_mark (t :: r)) as [bad|] eqn:Ef.
          { apply find_some in Ef. destruct Ef as [Hin _]. apply tag_ok_span. rewrite Forall_forall in Ht. exact (Ht bad Hin). }
          destruct (bs_split spec).
          { destruct r; [|exact I]. apply rbind_ok; [|intros _ s' Hs'; exact Hs'].
            unfold set_container_from_tag. apply set_container_from_scalar_ok; [apply set_attr_setter|apply tag_ok_aval; exact Ht1|exact Hs]. }
          apply span_of_tags_ok; assumption.
  Qed.

  Lemma walk_qualifiers_ok : forall qs sc spec s, Forall tag_ok qs -> st_ok s -> wres_ok (walk_qualifiers qs sc spec s).
  Proof.
    induction qs as [|q r IH]; intros sc spec s Hq Hs; cbn [walk_qualifiers]; [exact Hs|].
    inversion Hq as [|? ? Hq1 Hqr]; subst.
    destruct (bs_qual spec) as [ts|]; [|apply tag_ok_span; exact Hq1].
    destruct (negb (ts_block ts)).
    - apply rbind_ok; [apply check_bang_ok; assumption|]. intros _ s1 Hs1.
      apply rbind_ok; [apply set_attr_ok; [constructor|apply tag_ok_aval; exact Hq1|exact Hs1]|]. intros _ s2 Hs2.
      destruct r as [|f r']; [exact Hs2|]. inversion Hqr; subst. apply span_of_tags_ok; assumption.
    - destruct (tbody q) as [rf|v] eqn:Eb; [|exact I].
      apply rbind_ok; [apply build_scope_ok; [apply ref_ok_toks; eapply tag_ok_ref; eassumption|exact Hs]|]. intros nsc s1 Hs1.
      apply rbind_ok; [apply check_bang_ok; assumption|]. intros _ s2 Hs2.
      apply IH; assumption.
  Qed.

  Definition header_ok (h : header) : Prop := incl (header_nodes h) allnodes.

  Lemma header_ok_span h : header_ok h -> Psp (hstart h, hend h).
  Proof. intro H. apply (node_psp 1%N). apply H. left. reflexivity. Qed.
  Lemma header_ok_type h : header_ok h -> ref_ok (htype h).
  Proof. intros H n Hn. apply H. unfold header_nodes. right. apply in_or_app. left. exact Hn. Qed.
  Lemma header_ok_tags h : header_ok h -> Forall tag_ok (htags h).
  Proof.
    intros H. apply Forall_forall. intros t Ht n Hn. apply H. unfold header_nodes. right.
    apply in_or_app. right. apply in_or_app. left. apply in_flat_map. exists t. split; assumption.
  Qed.
  Lemma header_ok_quals h : header_ok h -> Forall tag_ok (hquals h).
  Proof.
    intros H. apply Forall_forall. intros t Ht n Hn. apply H. unfold header_nodes. right.
    apply in_or_app. right. apply in_or_app. right. apply in_or_app. left. apply in_flat_map. exists t. split; assumption.
  Qed.
  Lemma header_ok_desc h d : header_ok h -> hdesc h = Some d -> Psp (dsstart d, dsend d).
  Proof.
    intros H E. apply (node_psp 12%N). apply H. unfold header_nodes. right.
    apply in_or_app. right. apply in_or_app. right. apply in_or_app. right. apply in_or_app. left. rewrite E. left. reflexivity.
  Qed.

  Lemma open_block_ok sc h s : header_ok h -> st_ok s -> wres_ok (open_block sc h s).
  Proof.
    intros Hh Hs. unfold open_block.
    apply rbind_ok; [apply build_scope_ok; [apply ref_ok_toks, header_ok_type; exact Hh|exact Hs]|]. intros bsc s1 Hs1.
    apply rbind_ok; [apply walk_tags_ok; [apply header_ok_tags; exact Hh|apply ref_ok_end, header_ok_type; exact Hh|exact Hs1]|].
    intros r1 s2 Hs2.
    apply rbind_ok; [apply walk_qualifiers_ok; [apply header_ok_quals; exact Hh|exact Hs2]|]. intros r2 s3 Hs3.
    destruct (hdesc h) as [d|] eqn:Ed; [|exact Hs3].
    destruct (bs_desc (cf_spec (sc_leaf bsc))); [|eapply header_ok_desc; eassumption].
    apply rbind_ok; [apply set_attr_ok; [constructor|exact (header_ok_span h Hh)|exact Hs3]|]. intros _ s4 Hs4. exact Hs4.
  Qed.

  (* ---------------------------------------------------------------- statements *)
  Definition sres_ok (r : sres) : Prop :=
    match r with SOk s => st_ok s | SErr sp _ => Psp sp | _ => True end.

  Lemma lift_ok sp m : Psp sp -> wres_ok m -> sres_ok (lift sp m).
  Proof. intros Hsp Hm. destruct m as [a s|[p|] c|w]; cbn; auto. Qed.

  Lemma stmt_ind' (P : stmt -> Prop) :
    (forall h body, Forall P body -> P (SBlock h body)) -> (forall a, P (SAssign a)) -> (forall d, P (SDesc d)) ->
    forall s, P s.
  Proof.
    intros Hb Ha Hd. fix IH 1. intros [h body|a|d]; [|apply Ha|apply Hd]. apply Hb.
    induction body as [|x r IHr]; constructor; [apply IH|exact IHr].
  Qed.

  Lemma set_description_ok sc val s : aval_ok val -> st_ok s -> wres_ok (set_description sc val s).
  Proof.
    intros Hv Hs. unfold set_description. destruct (bs_desc (cf_spec (sc_root sc))); [|exact I].
    apply set_attr_ok; [constructor|exact Hv|exact Hs].
  Qed.

  Lemma do_stmt_ok : forall st sc s, incl (stmt_nodes st) allnodes -> st_ok s -> sres_ok (do_stmt sc st s).
  Proof.
    intro st. induction st as [h body IHb|a|d] using stmt_ind'; intros sc s Hn Hs; cbn [do_stmt].
    - destruct (htype h) as [|t0 tr] eqn:Et; [exact I|].
      assert (Hh : header_ok h).
      { intros n Hin. apply Hn. cbn [stmt_nodes]. apply in_or_app. left. exact Hin. }
      pose proof (open_block_ok sc h s Hh Hs) as Ho.
      destruct (open_block sc h s) as [bsc s1|[p|] c|w]; cbn in Ho; [|exact Ho|exact (header_ok_span h Hh)|exact I].
      assert (Hbody : incl (flat_map stmt_nodes body) allnodes).
      { intros n Hin. apply Hn. cbn [stmt_nodes]. apply in_or_app. right. right. apply in_or_app. left. exact Hin. }
      clear Hn Hh Et. revert s1 Ho. induction body as [|x r IHr]; intros s1 Ho; [exact Ho|].
      inversion IHb as [|? ? Hx Hr]; subst.
      assert (Hxn : incl (stmt_nodes x) allnodes) by (intros n Hin; apply Hbody; cbn [flat_map]; apply in_or_app; left; exact Hin).
      specialize (Hx bsc s1 Hxn Ho). destruct (do_stmt bsc x s1) as [s'|sp c|x0|w]; try exact Hx.
      apply IHr; [exact Hr| |exact Hx]. intros n Hin. apply Hbody. cbn [flat_map]. apply in_or_app. right. exact Hin.
    - apply lift_ok.
      + apply (node_psp 2%N). apply Hn. left. reflexivity.
      + apply set_attr_ok; [| |exact Hs].
        * apply ref_ok_toks. intros n Hin. apply Hn. cbn [stmt_nodes]. unfold assign_nodes. right. apply in_or_app. left. exact Hin.
        * apply aval_of_ok. intros n Hin. apply Hn. cbn [stmt_nodes]. unfold assign_nodes. right. apply in_or_app. right. apply in_or_app. left. exact Hin.
    - assert (Hsp : Psp (dsstart d, dsend d)) by (apply (node_psp 3%N); apply Hn; left; reflexivity).
      apply lift_ok; [exact Hsp|]. apply set_description_ok; [exact Hsp|exact Hs].
  Qed.

  Lemma do_body_ok : forall body sc s, incl (flat_map stmt_nodes body) allnodes -> st_ok s -> sres_ok (do_body sc body s).
  Proof.
    induction body as [|x r IH]; intros sc s Hn Hs; cbn [do_body]; [exact Hs|].
    assert (Hx : sres_ok (do_stmt sc x s)).
    { apply do_stmt_ok; [|exact Hs]. intros n Hin. apply Hn. cbn [flat_map]. apply in_or_app. left. exact Hin. }
    destruct (do_stmt sc x s) as [s'|sp c|x0|w]; try exact Hx.
    apply IH; [|exact Hx]. intros n Hin. apply Hn. cbn [flat_map]. apply in_or_app. right. exact Hin.
  Qed.

  (* ---------------------------------------------------------------- validation positions *)
  Lemma locs_ok_head t : locs_ok t -> Psp (loc_span t).
  Proof. destruct t as [sp cs]. unfold locs_ok. rewrite spans_unfold. intro H. inversion H; assumption. Qed.

  Lemma violation_walk_ok : forall p t start, locs_ok t -> Pt start -> Psp (violation_walk t p start).
  Proof.
    induction p as [|k r IH]; intros t start Ht Hs; cbn [violation_walk].
    - split; [exact Hs|exact (proj2 (locs_ok_head t Ht))].
    - destruct (if has_upper k then None else find_child k (loc_children t)) as [c|] eqn:Ec; [|split; [exact Hs|exact Pt0]].
      assert (Hc : locs_ok c).
      { destruct (has_upper k); [discriminate|]. destruct t as [sp cs]. eapply locs_ok_child; eassumption. }
      assert (Hst : Pt (if Z.eqb (fst (fst (loc_span c))) 0 then start else fst (loc_span c))).
      { destruct (Z.eqb (fst (fst (loc_span c))) 0); [exact Hs|exact (proj1 (locs_ok_head c Hc))]. }
      destruct r; [split; [exact Hst|exact (proj2 (locs_ok_head c Hc))]|apply IH; assumption].
  Qed.
  Lemma violation_span_ok t v : locs_ok t -> Psp (violation_span t v).
  Proof. intro Ht. unfold violation_span. apply violation_walk_ok; [exact Ht|exact (proj1 (locs_ok_head t Ht))]. Qed.
End Contract.

(* ------------------------------------------------------------------ validateFile's rules against the .proto annotations *)
Lemma validate_sources_agree : vrule_sources = J5V.gen.WalkSchemaGen.validate_annotations.
Proof. vm_compute. reflexivity. Qed.
Lemma validate_rules_cover : forallb vrule_covered J5V.gen.WalkSchemaGen.validate_annotations = true.
Proof. vm_compute. reflexivity. Qed.

(* ------------------------------------------------------------------ the declarations lie below their nodes *)
Lemma is_prefix_app2 a x y : is_prefix (a ++ x) ((a ++ x ++ y)) = true.
Proof. rewrite app_assoc. apply is_prefix_app. Qed.

Lemma abs_lprop_wf R t vals dp q src : is_prefix dp src = true -> lprop_wf dp (abs_lprop R t vals q src) = true.
Proof.
  intro H. unfold lprop_wf, abs_lprop. cbn [lp_path lp_ref]. rewrite H. cbn [andb].
  unfold ref_path. destruct (child_names t (q ++ ["schema"%string])) as [|arm r]; [apply is_prefix_app|].
  destruct (String.eqb arm "array"); [apply is_prefix_app|]. destruct (String.eqb arm "map"); apply is_prefix_app.
Qed.

Lemma abs_props_wf R t vals dp q src : is_prefix dp src = true -> forallb (lprop_wf dp) (abs_props R t vals q src) = true.
Proof.
  intro H. unfold abs_props. apply forallb_forall. intros lp Hlp. apply in_map_iff in Hlp. destruct Hlp as [k [<- _]].
  apply abs_lprop_wf. eapply is_prefix_trans; [exact H|apply is_prefix_app].
Qed.

Lemma abs_element_wf R t vals k : forallb ldecl_wf (abs_element R t vals k) = true.
Proof.
  unfold abs_element. destruct (child_names t ["elements"%string; k]) as [|kind r]; [reflexivity|].
  destruct (String.eqb kind "object").
  { cbn [forallb ldecl_wf]. rewrite abs_props_wf; [reflexivity|]. cbn [app is_prefix]. rewrite !String.eqb_refl. reflexivity. }
  destruct (String.eqb kind "oneof").
  { cbn [forallb ldecl_wf]. rewrite abs_props_wf; [reflexivity|]. cbn [app is_prefix]. rewrite !String.eqb_refl. reflexivity. }
  destruct (String.eqb kind "enum"); [reflexivity|].
  destruct (String.eqb kind "service").
  { cbn [forallb ldecl_wf]. rewrite andb_true_r. apply forallb_forall. intros mp Hmp. apply in_map_iff in Hmp.
    destruct Hmp as [m [<- _]]. cbn [snd app is_prefix]. rewrite !String.eqb_refl. reflexivity. }
  destruct (String.eqb kind "topic"); reflexivity.
Qed.

Lemma abs_decls_wf R t vals : forallb ldecl_wf (abs_decls R t vals) = true.
Proof.
  unfold abs_decls. apply forallb_forall. intros d Hd. apply in_flat_map in Hd. destruct Hd as [k [_ Hd]].
  pose proof (abs_element_wf R t vals k) as H. rewrite forallb_forall in H. exact (H d Hd).
Qed.

(* ------------------------------------------------------------------ the contract of the walker instance *)
(* like walk_out_ok, with the ends of an error span among ALL node points (the origin included: protovalidate
   violations on a location without an end) *)
Definition walk_out_ok' (body : list stmt) (w : walk_out) : bool :=
  match w with
  | WalkErrs es => negb (match es with [] => true | _ => false end) && forallb (span_from body) es
  | WalkFile t lf => forallb (span_from body) (spans t) && forallb ldecl_wf lf
  end.

Lemma init_ok body : st_ok body init_state.
Proof. unfold st_ok, locs_ok, init_state. cbn. constructor; [apply Psp0|constructor]. Qed.

Lemma walk_schema_ok body : sres_ok body (walk_schema body).
Proof. unfold walk_schema. apply do_body_ok; [apply incl_refl|apply init_ok]. Qed.

Theorem j5s_walk_gen_contract mkR body w : j5s_walk_gen mkR body = Ok w -> walk_out_ok' body w = true.
Proof.
  unfold j5s_walk_gen. pose proof (walk_schema_ok body) as H.
  destruct (walk_schema body) as [s|sp c|x|why]; cbn [sres_ok] in H; try discriminate.
  - destruct (validate s) as [[|v vs]|why]; try discriminate; intro E; injection E as <-; cbn [walk_out_ok'].
    + apply andb_true_intro. split; [|apply abs_decls_wf].
      apply forallb_forall. intros sp Hsp. apply Psp_span_from. unfold st_ok, locs_ok in H. rewrite Forall_forall in H. exact (H sp Hsp).
    + cbn [map negb andb]. apply forallb_forall. intros sp Hsp. apply Psp_span_from.
      change (violation_span (ws_loc s) v :: map (violation_span (ws_loc s)) vs) with (map (violation_span (ws_loc s)) (v :: vs)) in Hsp.
      apply in_map_iff in Hsp. destruct Hsp as [v' [<- _]]. apply violation_span_ok. exact H.
  - intro E. injection E as <-. cbn [walk_out_ok' negb andb forallb]. rewrite andb_true_r. apply Psp_span_from. exact H.
Qed.

Theorem j5s_walk_contract R body w : j5s_walk R body = Ok w -> walk_out_ok' body w = true.
Proof. apply j5s_walk_gen_contract. Qed.

(* ------------------------------------------------------------------ no panic *)
Fixpoint stmt_refs_ok (st : stmt) : bool :=
  match st with
  | SBlock h body => negb (match htype h with [] => true | _ => false end)
                     && (fix go (l : list stmt) : bool := match l with [] => true | x :: r => stmt_refs_ok x && go r end) body
  | _ => true
  end.
Definition body_refs_ok (body : list stmt) : bool := forallb stmt_refs_ok body.

Lemma stmt_refs_ok_block h body : stmt_refs_ok (SBlock h body) = negb (match htype h with [] => true | _ => false end) && forallb stmt_refs_ok body.
Proof.
  cbn [stmt_refs_ok]. apply f_equal. induction body as [|x r IH]; cbn [forallb]; [reflexivity|rewrite <- IH; reflexivity].
Qed.

Lemma lift_no_panic sp m x : lift sp m <> SPanic x.
Proof. destruct m as [a s|[p|] c|w]; discriminate. Qed.

Lemma do_stmt_no_panic : forall st sc s x, stmt_refs_ok st = true -> do_stmt sc st s <> SPanic x.
Proof.
  intro st. induction st as [h body IHb|a|d] using stmt_ind'; intros sc s x Hr; cbn [do_stmt]; try apply lift_no_panic.
  rewrite stmt_refs_ok_block in Hr. apply andb_prop in Hr. destruct Hr as [Ht Hb].
  destruct (htype h) as [|t0 tr]; [discriminate|].
  destruct (open_block sc h s) as [bsc s1|[p|] c|w]; try discriminate.
  clear Ht. revert s1. induction body as [|y r IHr]; intros s1; [discriminate|].
  inversion IHb as [|? ? Hy Hrr]; subst. cbn [forallb] in Hb. apply andb_prop in Hb. destruct Hb as [Hb1 Hb2].
  specialize (Hy bsc s1 x Hb1). destruct (do_stmt bsc y s1) as [s'|sp c|x0|w] eqn:E; try discriminate.
  - apply IHr; assumption.
  - intro H. injection H as ->. apply Hy. reflexivity.
Qed.

Lemma do_body_no_panic : forall body sc s x, body_refs_ok body = true -> do_body sc body s <> SPanic x.
Proof.
  induction body as [|y r IH]; intros sc s x Hb; cbn [do_body]; [discriminate|].
  cbn [body_refs_ok forallb] in Hb. apply andb_prop in Hb. destruct Hb as [Hb1 Hb2].
  pose proof (do_stmt_no_panic y sc s x Hb1) as Hy. destruct (do_stmt sc y s) as [s'|sp c|x0|w] eqn:E; try discriminate.
  - apply IH. exact Hb2.
  - intro H. injection H as ->. apply Hy. reflexivity.
Qed.

(* the walker instance returns: a walk_out, or the explicit "outside the model" *)
Theorem j5s_walk_gen_returns mkR body : body_refs_ok body = true ->
  (exists w, j5s_walk_gen mkR body = Ok w) \/ j5s_walk_gen mkR body = Err E_UNMODELLED.
Proof.
  intro Hb. unfold j5s_walk_gen. pose proof (do_body_no_panic body root_scope init_state) as Hp.
  unfold walk_schema. destruct (do_body root_scope body init_state) as [s|sp c|x|w].
  - destruct (validate s) as [[|v vs]|w]; [left; eexists; reflexivity|left; eexists; reflexivity|right; reflexivity].
  - left. eexists. reflexivity.
  - exfalso. exact (Hp x Hb eq_refl).
  - right. reflexivity.
Qed.

Theorem j5s_walk_returns R body : body_refs_ok body = true ->
  (exists w, j5s_walk R body = Ok w) \/ j5s_walk R body = Err E_UNMODELLED.
Proof. apply j5s_walk_gen_returns. Qed.

(* ------------------------------------------------------------------ the parser never hands on an empty block type *)
(* (parser.NewReference would have panicked first: the acc = [] case of pop_reference_loop is BclParser's WPanic) *)
Lemma pop_reference_loop_nonempty : forall fuel acc s r s', pop_reference_loop fuel acc s = WOk r s' -> r <> [].
Proof.
  induction fuel as [|f IH]; intros acc s r s'; cbn [pop_reference_loop]; [discriminate|].
  destruct (pop_ident s) as [i s1|t e s1|p|]; try discriminate.
  - destruct (tt_eqb (next_type s1) DOT).
    + destruct (pop_token s1) as [t s2|t e s2|p|]; cbn [wbind]; try discriminate. apply IH.
    + intro H. injection H as <- _. destruct acc; discriminate.
  - destruct acc; discriminate.
Qed.
Lemma pop_reference_nonempty s r s' : pop_reference s = WOk r s' -> r <> [].
Proof. apply pop_reference_loop_nonempty. Qed.

Definition frag_ok (f : fragment) : Prop := match f with FHeader h => htype h <> [] | _ => True end.

Lemma walk_value_assign_frag r app s f s' : walk_value_assign r app s = WOk f s' -> frag_ok f.
Proof.
  unfold walk_value_assign. destruct (pop_token s) as [t s1|? ? ?|?|]; cbn [wbind]; try discriminate.
  destruct (negb (tt_eqb (ty t) ASSIGN)); [discriminate|].
  destruct (pop_value_top s1) as [v s2|? ? ?|?|]; cbn [wbind]; try discriminate.
  destruct (end_statement s2) as [c s3|? ? ?|?|]; cbn [wbind]; try discriminate.
  intro H. injection H as <- _. exact I.
Qed.

Lemma walk_statement_frag s f s' : walk_statement s = WOk f s' -> frag_ok f.
Proof.
  unfold walk_statement. destruct (pop_reference s) as [r s1|? ? ?|?|] eqn:Er; cbn [wbind]; try discriminate.
  pose proof (pop_reference_nonempty s r s1 Er) as Hr.
  destruct (tt_eqb (next_type s1) ASSIGN); [apply walk_value_assign_frag|].
  destruct (tt_eqb (next_type s1) PLUS).
  { destruct (pop_token s1) as [t s2|? ? ?|?|]; cbn [wbind]; try discriminate.
    destruct (negb (tt_eqb (next_type s2) ASSIGN)); [|apply walk_value_assign_frag].
    destruct (pop_token s2) as [? ?|? ? ?|?|]; cbn [wbind]; discriminate. }
  destruct (tags_loop _ [] s1) as [tags s2|? ? ?|?|]; cbn [wbind]; try discriminate.
  destruct (quals_loop _ [] s2) as [quals s3|? ? ?|?|]; cbn [wbind]; try discriminate.
  destruct (next_type s3);
    repeat (match goal with
            | |- context [wbind ?m _] => destruct m as [? ?|? ? ?|?|]; cbn [wbind]
            end);
    try discriminate; intro H; injection H as <- _; exact Hr.
Qed.

Lemma next_fragment_frag s f s' : next_fragment s = WOk (Some f) s' -> frag_ok f.
Proof.
  unfold next_fragment. destruct (next_type s);
    repeat (match goal with
            | |- context [wbind ?m _] => destruct m as [? ?|? ? ?|?|] eqn:?; cbn [wbind]
            end);
    try discriminate; intro H; injection H as <- _; try exact I.
  all: eapply walk_statement_frag; eassumption.
Qed.

Lemma walk_fragments_loop_frags ff : forall fuel s fs ds, walk_fragments_loop fuel ff s = WalkOk fs ds -> Forall frag_ok fs.
Proof.
  induction fuel as [|f IH]; intros s fs ds; cbn [walk_fragments_loop]; [discriminate|].
  destruct (tt_eqb (next_type s) EOF); [intro H; injection H as <- _; constructor|].
  destruct (next_fragment s) as [fo s1|t e s1|p|] eqn:En; try discriminate.
  - destruct (walk_fragments_loop f ff s1) as [fs1 ds1|?|] eqn:Ew; try discriminate.
    intro H. injection H as <- _. specialize (IH s1 fs1 ds1 Ew).
    destruct fo as [fr|]; [constructor; [eapply next_fragment_frag; eassumption|exact IH]|exact IH].
  - destruct ff; [intro H; injection H as <- _; constructor|].
    destruct (skip_to_eol _ s1) as [u s2|? ? ?|?|]; try discriminate.
    destruct (walk_fragments_loop f false s2) as [fs1 ds1|?|] eqn:Ew; try discriminate.
    intro H. injection H as <- _. exact (IH s2 fs1 ds1 Ew).
Qed.

Definition stack_refs_ok (stack : list (header * list stmt)) : Prop :=
  Forall (fun hp => htype (fst hp) <> [] /\ body_refs_ok (snd hp) = true) stack.

Lemma body_refs_ok_snoc l x : body_refs_ok l = true -> stmt_refs_ok x = true -> body_refs_ok (l ++ [x]) = true.
Proof. unfold body_refs_ok. intros H1 H2. rewrite forallb_app. rewrite H1. cbn. rewrite H2. reflexivity. Qed.
Lemma block_refs_ok h b : htype h <> [] -> body_refs_ok b = true -> stmt_refs_ok (SBlock h b) = true.
Proof. intros Hh Hb. rewrite stmt_refs_ok_block. destruct (htype h); [contradiction|]. exact Hb. Qed.

Lemma to_file_loop_refs : forall fs cur stack errs, Forall frag_ok fs -> body_refs_ok cur = true -> stack_refs_ok stack ->
  body_refs_ok (fst (fst (to_file_loop fs cur stack errs))) = true /\ stack_refs_ok (snd (fst (to_file_loop fs cur stack errs))).
Proof.
  induction fs as [|f r IH]; intros cur stack errs Hf Hc Hs; cbn [to_file_loop]; [split; assumption|].
  inversion Hf as [|? ? Hf1 Hfr]; subst. destruct f as [h|a|d|t|t].
  - destruct (hopen h).
    + apply IH; [exact Hfr|reflexivity|constructor; [split; [exact Hf1|exact Hc]|exact Hs]].
    + apply IH; [exact Hfr|apply body_refs_ok_snoc; [exact Hc|apply block_refs_ok; [exact Hf1|reflexivity]]|exact Hs].
  - apply IH; [exact Hfr|apply body_refs_ok_snoc; [exact Hc|reflexivity]|exact Hs].
  - apply IH; [exact Hfr|apply body_refs_ok_snoc; [exact Hc|reflexivity]|exact Hs].
  - apply IH; assumption.
  - destruct stack as [|[h parent] st]; [apply IH; assumption|].
    inversion Hs as [|? ? [Hh Hp] Hst]; subst. cbn [fst snd] in *.
    apply IH; [exact Hfr| |exact Hst]. unfold close_level. apply body_refs_ok_snoc; [exact Hp|apply block_refs_ok; assumption].
Qed.

Lemma unwind_refs : forall stack cur, body_refs_ok cur = true -> stack_refs_ok stack -> body_refs_ok (unwind cur stack) = true.
Proof.
  induction stack as [|[h parent] st IH]; intros cur Hc Hs; cbn [unwind]; [exact Hc|].
  inversion Hs as [|? ? [Hh Hp] Hst]; subst. cbn [fst snd] in *. apply IH; [|exact Hst].
  unfold close_level. apply body_refs_ok_snoc; [exact Hp|apply block_refs_ok; assumption].
Qed.

Theorem parse_runes_refs_ok ff data p body : parse_runes ff data = Ok p -> ptree p = Some body -> body_refs_ok body = true.
Proof.
  unfold parse_runes. destruct (all_tokens ff data) as [toks|ds|]; try discriminate.
  - unfold walk_fragments. destruct (walk_fragments_loop _ ff _) as [fs ds|?|] eqn:Ew; try discriminate.
    pose proof (walk_fragments_loop_frags ff _ _ _ _ Ew) as Hf.
    destruct ds as [|d ds].
    + unfold fragments_to_file.
      pose proof (to_file_loop_refs fs [] [] [] Hf eq_refl (Forall_nil _)) as [H1 H2].
      destruct (to_file_loop fs [] [] []) as [[cur stack] errs]. cbn [fst snd] in *.
      intro H. injection H as <-. cbn [ptree]. intro E. injection E as <-. apply unwind_refs; assumption.
    + intro H. injection H as <-. cbn [ptree]. intro E. injection E as <-. reflexivity.
  - intro H. injection H as <-. discriminate.
Qed.

(* ------------------------------------------------------------------ the front end with the walker model in it *)
Section Instance.
  Variable mkR : loc -> list (path * sval) -> list N -> list N -> ref_out.

  (* for every byte string: parse diagnostics, walker / validation errors, conversion errors, or a converted file —
     or the explicit "outside the model" (the classes listed in model/CmpbWalk.v); never a panic, never out of fuel *)
  Theorem j5s_front_end_total ff input :
    (exists out, front_end (j5s_walk_gen mkR) ff input = Ok out) \/ front_end (j5s_walk_gen mkR) ff input = Err E_UNMODELLED.
  Proof.
    unfold front_end, parse_file.
    destruct (parse_runes_total ff (utf8_decode input)) as [p Hp]. rewrite Hp.
    destruct (pdiags p) as [|d ds] eqn:Ed; [|left; eexists; reflexivity].
    destruct (parse_runes_tree_or_diags ff _ p Hp) as [[[body Hb] _]|Hne]; [|rewrite Ed in Hne; contradiction].
    rewrite Hb. destruct (j5s_walk_gen_returns mkR body (parse_runes_refs_ok ff _ p body Hp Hb)) as [[w Hw]|He]; [|right; rewrite He; reflexivity].
    rewrite Hw. left. destruct w as [es|t lf]; [eexists; reflexivity|].
    rewrite file_never_panics. destruct (conv_errors t lf); eexists; reflexivity.
  Qed.

  Theorem j5s_front_end_errors_positioned ff input st es :
    front_end (j5s_walk_gen mkR) ff input = Ok (FEErrors st es) ->
    es <> [] /\ Forall (span_inside (utf8_decode input)) es.
  Proof.
    unfold front_end, parse_file.
    destruct (parse_runes ff (utf8_decode input)) as [p|c|s|] eqn:Hp; try discriminate.
    destruct (parse_runes_positions ff _ p Hp) as [Hd Hn].
    destruct (pdiags p) as [|d ds] eqn:Ed.
    - destruct (ptree p) as [body|] eqn:Hb; [|discriminate].
      specialize (Hn body eq_refl).
      destruct (j5s_walk_gen mkR body) as [w|c|s|] eqn:Hw; try discriminate.
      pose proof (j5s_walk_gen_contract mkR body w Hw) as Hc. destruct w as [es'|t lf]; cbn [walk_out_ok'] in Hc.
      + intro H. injection H as <- <-. apply andb_prop in Hc. destruct Hc as [Hne Hall]. split.
        * destruct es'; [discriminate|discriminate].
        * apply Forall_forall. intros sp Hsp. rewrite forallb_forall in Hall.
          eapply span_from_inside; [exact Hn|apply Hall; exact Hsp].
      + apply andb_prop in Hc. destruct Hc as [Hall Hwf].
        destruct (file_panics (map erase lf)); [discriminate|].
        destruct (conv_errors t lf) as [|e0 er] eqn:Ec; [discriminate|].
        intro H. injection H as <- <-. split; [discriminate|].
        apply Forall_forall. intros sp Hsp. change (snd e0 :: map snd er) with (map snd (e0 :: er)) in Hsp.
        apply in_map_iff in Hsp. destruct Hsp as [e [<- He]].
        rewrite <- Ec in He. destruct (compile_errors_positioned t lf Hwf e He) as (_ & _ & Hin).
        rewrite forallb_forall in Hall. eapply span_from_inside; [exact Hn|apply Hall; exact Hin].
    - intro H. injection H as <- <-. split; [discriminate|].
      rewrite Forall_forall in Hd. apply Forall_forall. intros sp Hsp.
      change (diag_span d :: map diag_span ds) with (map diag_span (d :: ds)) in Hsp. apply in_map_iff in Hsp.
      destruct Hsp as [d' [<- Hd']]. destruct (Hd d' Hd') as [H1 [H2 _]]. split; assumption.
  Qed.

  Corollary j5s_front_end_errors_inside_bytes ff input st es :
    front_end (j5s_walk_gen mkR) ff input = Ok (FEErrors st es) ->
    Forall (fun sp => inside_bytes input (fst sp) /\ inside_bytes input (snd sp)) es.
  Proof.
    intro H. destruct (j5s_front_end_errors_positioned ff input st es H) as [_ Hall].
    eapply Forall_impl; [|exact Hall]. intros sp [H1 H2]. split; apply valid_inside_bytes; assumption.
  Qed.

  (* the first sentence of C07 for one file, with the real walker's model in place of the abstract parameter *)
  Definition j5s_front_end_statement : Prop :=
    forall ff input,
      front_end (j5s_walk_gen mkR) ff input = Err E_UNMODELLED \/
      exists out, front_end (j5s_walk_gen mkR) ff input = Ok out /\
        match out with
        | FEErrors _ es => es <> [] /\ Forall (fun sp => inside_bytes input (fst sp) /\ inside_bytes input (snd sp)) es
        | FEConverted v _ => v = VOk
        end.

  Theorem j5s_front_end_statement_holds : j5s_front_end_statement.
  Proof.
    intros ff input. destruct (j5s_front_end_total ff input) as [[out Hout]|He]; [right|left; exact He].
    exists out. split; [exact Hout|]. destruct out as [st es|v lf].
    - split; [exact (proj1 (j5s_front_end_errors_positioned ff input st es Hout))|exact (j5s_front_end_errors_inside_bytes ff input st es Hout)].
    - exact (proj1 (front_end_descriptors (j5s_walk_gen mkR) ff input v lf Hout)).
  Qed.
End Instance.

(* ------------------------------------------------------------------ the class "scalar split delimiter" is empty
   model/CmpbWalk.v split_pieces answers [RUnmod] for a scalar split whose delimiter is not ".".  Every block spec
   the walker ever holds is [cont_spec] of a container (the two [mkCF] sites of the model: walk_path's child and
   root_cfield), [cont_spec] is [build_spec] of a schema or the empty spec, and [build_spec] copies the split of
   the GIVEN spec (schemaset.go _buildSpec).  The given specs are the translated table WalkSchemaGen.specs: all
   their delimiters are "." (computed; a new delimiter in j5s.go breaks [given_specs_delims] at make time). *)
Definition delim_modelled (b : bspec) : bool :=
  match bs_split b with
  | Some ss => match sp_delim ss with Some dl => String.eqb dl "." | None => true end
  | None => true
  end.

Lemma given_specs_delims : forallb (fun kv => delim_modelled (snd kv)) given_specs = true.
Proof. vm_compute. reflexivity. Qed.

Lemma assoc_some_in {A} (k : string) (l : list (string * A)) (v : A) : assoc k l = Some v -> In (k, v) l.
Proof.
  induction l as [|[k' v'] r IH]; [discriminate|]. cbn [assoc].
  destruct (String.eqb k k') eqn:E.
  - intro H. injection H as <-. apply String.eqb_eq in E. subst. left. reflexivity.
  - intro H. right. apply IH. exact H.
Qed.

Lemma build_spec_delim (d : sdef) : delim_modelled (build_spec d) = true.
Proof.
  unfold build_spec. cbv zeta.
  set (g := match assoc (sd_name d) given_specs with Some g0 => g0 | None => empty_spec end).
  assert (Hg : delim_modelled g = true).
  { unfold g. destruct (assoc (sd_name d) given_specs) as [g0|] eqn:E; [|reflexivity].
    apply assoc_some_in in E. pose proof given_specs_delims as H. rewrite forallb_forall in H. exact (H _ E). }
  destruct (bs_only g); [exact Hg|]. exact Hg.
Qed.

Lemma cont_spec_delim (c : cont) : delim_modelled (cont_spec c) = true.
Proof.
  destruct c as [s|k]; cbn [cont_spec]; [|reflexivity].
  destruct (find_schema s); [apply build_spec_delim|reflexivity].
Qed.

Lemma split_pieces_modelled (c : cont) (ss : split) (val : aval) (w : string) :
  bs_split (cont_spec c) = Some ss -> split_pieces ss val <> RUnmod w.
Proof.
  intro Hs. pose proof (cont_spec_delim c) as H. unfold delim_modelled in H. rewrite Hs in H.
  unfold split_pieces. destruct (sp_delim ss) as [dl|].
  - rewrite H. cbn [negb]. destruct (as_string val); discriminate.
  - destruct val; discriminate.
Qed.

(* the hypothesis is satisfiable: j5.schema.v1.Ref has a "." split *)
Lemma split_pieces_modelled_example :
  exists ss, bs_split (cont_spec (CSchema "j5.schema.v1.Ref")) = Some ss /\ sp_delim ss = Some "."%string.
Proof. vm_compute. eexists. split; reflexivity. Qed.

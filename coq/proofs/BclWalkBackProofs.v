(* BclWalkBackProofs.v — the walker half of C09's round trip: walking the token
   sequence a fragment renders to (its canonical tokens, any positions) builds a
   fragment with the same document.  These lemmas construct the successful run
   explicitly, so no position invariant is needed. *)
From Coq Require Import String List NArith ZArith Bool Lia ZifyN ZifyNat ZifyBool.
From J5V.lib Require Import Text Outcome.
From J5V.model Require Import BclLexer BclParser BclFmt.
From J5V.proofs Require Import BclPosProofs BclLexerProofs BclParserProofs BclFmtLitProofs BclLexLitProofs
                               BclFmtSeqProofs BclFragWfProofs BclFmtLineProofs.
Import ListNotations.
Local Open Scope N_scope.
Arguments Nat.sub : simpl never.

(* the position-free view of the remaining tokens *)
Definition pt (s : wstate) : list ptok := map etok (wrest s).

Lemma pt_cons s p r : pt s = p :: r ->
  exists t rs, wrest s = t :: rs /\ etok t = p /\ map etok rs = r /\
               pop_token s = WOk t (mkW rs (Some t)) /\ next_type s = fst p.
Proof.
  unfold pt. destruct (wrest s) as [|t rs] eqn:Hr; [discriminate|]. cbn [map]. intros [= <- <-].
  exists t, rs. repeat split; auto.
  - unfold pop_token. rewrite Hr. reflexivity.
  - unfold next_type. rewrite Hr. reflexivity.
Qed.

Lemma pt_mk rs p : pt (mkW rs p) = map etok rs.
Proof. reflexivity. Qed.

Lemma next_type_pt s : next_type s = match pt s with [] => EOF | p :: _ => fst p end.
Proof. unfold next_type, pt. destruct (wrest s); reflexivity. Qed.

(* documents *)
Definition ref_doc (r : reference) : list (list N) := map lit r.
Fixpoint value_doc (v : value) : list ptok :=
  match v with
  | VTok t _ _ => [etok t]
  | VArr vs _ _ => (LBRACK, []) :: flat_map value_doc vs ++ [(RBRACK, [])]
  end.

(* ---- references -------------------------------------------------------------------------------- *)
Definition id_ptok (i : token) : ptok := (ctyp i, lit i).
Fixpoint ref_ptoks (r : reference) : list ptok :=
  match r with
  | [] => []
  | [i] => [id_ptok i]
  | i :: rest => id_ptok i :: (DOT, [46]) :: ref_ptoks rest
  end.
Lemma item_toks_ref r : item_toks (ref_items r) = ref_ptoks r.
Proof.
  induction r as [|i rest IH]; [reflexivity|]. destruct rest as [|j rest']; [reflexivity|].
  change (ref_items (i :: j :: rest')) with (id_item i :: Tok DOT [46] :: ref_items (j :: rest')).
  cbn [item_toks id_item]. rewrite IH. reflexivity.
Qed.

Lemma pop_ident_back s i0 r : id_ok i0 -> pt s = id_ptok i0 :: r ->
  exists i s', pop_ident s = WOk i s' /\ lit i = lit i0 /\ ty i = IDENT /\ pt s' = r.
Proof.
  intros [Hty _] Hp. destruct (pt_cons s _ _ Hp) as (t & rs & Hr & Et & Hrs & Epop & _).
  unfold pop_ident. rewrite Epop. cbn [wbind].
  unfold id_ptok, etok in Et. injection Et as Et1 Et2.
  destruct (ctyp_ident i0 Hty) as [Hc|Hc]; rewrite Hc in Et1; unfold as_ident; rewrite Et1.
  - exists t, (mkW rs (Some t)). repeat split; auto.
  - exists (mkTok IDENT (lit t) (tstart t) (tend t)), (mkW rs (Some t)). repeat split; auto.
Qed.

Lemma pop_reference_loop_back : forall r0 fuel acc s rest,
  Forall id_ok r0 -> r0 <> [] -> pt s = ref_ptoks r0 ++ rest ->
  match rest with [] => True | p :: _ => fst p <> DOT end ->
  (length (wrest s) < fuel)%nat ->
  exists r s', pop_reference_loop fuel acc s = WOk (acc ++ r) s' /\ map lit r = map lit r0 /\
               Forall (fun i => ty i = IDENT) r /\ pt s' = rest.
Proof.
  induction r0 as [|i0 rest0 IH]; intros fuel acc s rest Hf Hne Hp Hd Hl; [congruence|].
  destruct fuel as [|f]; [lia|]. cbn [pop_reference_loop].
  inversion Hf as [|x l Hi Hr0]; subst.
  destruct rest0 as [|j0 rest0'].
  - cbn [ref_ptoks app] in Hp.
    destruct (pop_ident_back s i0 rest Hi Hp) as (i & s1 & E & Hl1 & Hty1 & Hp1). rewrite E.
    assert (Hnd : tt_eqb (next_type s1) DOT = false).
    { rewrite next_type_pt, Hp1. destruct rest as [|p r]; [reflexivity|]. apply tt_eqb_false. exact Hd. }
    rewrite Hnd. exists [i], s1. repeat split; auto. cbn. rewrite Hl1. reflexivity.
  - change (ref_ptoks (i0 :: j0 :: rest0')) with (id_ptok i0 :: (DOT, [46]) :: ref_ptoks (j0 :: rest0')) in Hp.
    cbn [app] in Hp.
    destruct (pop_ident_back s i0 _ Hi Hp) as (i & s1 & E & Hl1 & Hty1 & Hp1). rewrite E.
    assert (Hnd : tt_eqb (next_type s1) DOT = true) by (rewrite next_type_pt, Hp1; reflexivity).
    rewrite Hnd.
    destruct (pt_cons s1 _ _ Hp1) as (td & rs & Hr1 & _ & Hrs & Epop & _). rewrite Epop. cbn [wbind].
    destruct (IH f (acc ++ [i]) (mkW rs (Some td)) rest Hr0 ltac:(discriminate)) as (r & s' & E' & Hlr & Htr & Hpr).
    + rewrite pt_mk. exact Hrs.
    + exact Hd.
    + cbn [wrest].
      assert (length (wrest s1) <= length (wrest s))%nat.
      { unfold pop_ident in E. destruct (pt_cons s _ _ Hp) as (t0 & rs0 & Hr0' & _ & _ & Ep0 & _). rewrite Ep0 in E. cbn in E.
        destruct (as_ident t0); [|discriminate]. injection E as _ <-. rewrite Hr0'. cbn. lia. }
      rewrite Hr1 in H. cbn in H. lia.
    + exists (i :: r), s'. rewrite <- app_assoc in E'. split; [exact E'|]. repeat split; auto.
      cbn. rewrite Hl1, Hlr. reflexivity.
Qed.

Lemma pop_reference_back s r0 rest : ref_ok r0 -> pt s = ref_ptoks r0 ++ rest ->
  match rest with [] => True | p :: _ => fst p <> DOT end ->
  exists r s', pop_reference s = WOk r s' /\ map lit r = map lit r0 /\ Forall (fun i => ty i = IDENT) r /\ pt s' = rest.
Proof.
  intros [Hne Hf] Hp Hd. unfold pop_reference.
  destruct (pop_reference_loop_back r0 (S (length (wrest s))) [] s rest Hf Hne Hp Hd ltac:(lia)) as (r & s' & E & H).
  exists r, s'. split; [exact E|exact H].
Qed.

Lemma ref_ptoks_head r0 : ref_ok r0 -> exists p r, ref_ptoks r0 = p :: r /\ (fst p = IDENT \/ fst p = BOOL).
Proof.
  intros [Hne Hf]. destruct r0 as [|i rest]; [congruence|]. inversion Hf as [|x l [Hty _] _]; subst.
  destruct rest; cbn; eexists _, _; (split; [reflexivity|]); cbn; apply ctyp_ident; exact Hty.
Qed.

(* ---- values ----------------------------------------------------------------------------------- *)
Lemma item_toks_sep_concat (ls : list (list sitem)) : forall b,
  item_toks (sep_concat [Tok COMMA [44]; Sp] ls b) =
  sep_concat [(COMMA, [44])] (map item_toks ls) b.
Proof.
  induction ls as [|x r IH]; intros b; [reflexivity|]. cbn [sep_concat map]. rewrite !item_toks_app, IH.
  destruct b; reflexivity.
Qed.

Definition value_back (v0 : value) : Prop :=
  forall fuel depth s rest, pt s = item_toks (value_items v0) ++ rest -> (length (wrest s) < fuel)%nat ->
  depth + vdepth v0 <= max_value_depth ->
  exists v s', pop_value fuel depth s = WOk v s' /\ value_doc v = value_doc v0 /\ pt s' = rest /\
               (length (wrest s') < length (wrest s))%nat.

Lemma pt_length s : length (pt s) = length (wrest s).
Proof. unfold pt. apply map_length. Qed.

Lemma pop_elems_back pv (bound : nat) op : forall vs0,
  Forall (fun v0 => vlx v0 /\ forall s rest, pt s = item_toks (value_items v0) ++ rest -> (length (wrest s) < bound)%nat ->
            exists v s', pv s = WOk v s' /\ value_doc v = value_doc v0 /\ pt s' = rest /\
                         (length (wrest s') < length (wrest s))%nat) vs0 ->
  vs0 <> [] ->
  forall fuel2 acc s rest,
  pt s = sep_concat [(COMMA, [44])] (map item_toks (map value_items vs0)) true ++ (RBRACK, [93]) :: rest ->
  (length (wrest s) < fuel2)%nat -> (length (wrest s) < bound)%nat ->
  exists vs s', pop_elems pv fuel2 op acc s = WOk (VArr (acc ++ vs) (tstart op) (current_pos s')) s' /\
                flat_map value_doc vs = flat_map value_doc vs0 /\ pt s' = rest /\
                (length (wrest s') < length (wrest s))%nat.
Proof.
  induction vs0 as [|x0 r0 IH]; intros Hf Hne fuel2 acc s rest Hp Hf2 Hb; [congruence|].
  inversion Hf as [|? ? [Hvx Hx] Hr]; subst.
  destruct fuel2 as [|f2]; [lia|]. cbn [pop_elems].
  cbn [map sep_concat app] in Hp. rewrite <- app_assoc in Hp.
  destruct (Hx s _ Hp Hb) as (v & s2 & Ev & Hdv & Hp2 & Hl2). rewrite Ev. cbn [wbind].
  destruct r0 as [|y0 r0'].
  - (* last element: the closing bracket follows *)
    cbn [map sep_concat app] in Hp2.
    assert (Hc : tt_eqb (next_type s2) COMMA = false) by (rewrite next_type_pt, Hp2; reflexivity).
    assert (Hbk : tt_eqb (next_type s2) RBRACK = true) by (rewrite next_type_pt, Hp2; reflexivity).
    rewrite Hc, Hbk.
    destruct (pt_cons s2 _ _ Hp2) as (tb & rs & Hr2 & _ & Hrs & Epop & _). rewrite Epop. cbn [wbind].
    exists [v], (mkW rs (Some tb)). split; [reflexivity|]. cbn. rewrite !app_nil_r. repeat split; auto.
    rewrite Hr2 in Hl2. cbn in Hl2. lia.
  - cbn [map sep_concat app] in Hp2.
    assert (Hc : tt_eqb (next_type s2) COMMA = true) by (rewrite next_type_pt, Hp2; reflexivity).
    rewrite Hc.
    destruct (pt_cons s2 _ _ Hp2) as (tc & rs & Hr2 & _ & Hrs & Epop & _). rewrite Epop. cbn [wbind].
    destruct (IH Hr ltac:(discriminate) f2 (acc ++ [v]) (mkW rs (Some tc)) rest) as (vs & s' & E & Hd & Hp' & Hl').
    + rewrite pt_mk, Hrs. cbn [map sep_concat app]. reflexivity.
    + cbn [wrest]. rewrite Hr2 in Hl2. cbn in Hl2. lia.
    + cbn [wrest]. rewrite Hr2 in Hl2. cbn in Hl2. lia.
    + exists (v :: vs), s'. rewrite <- app_assoc in E. split; [exact E|]. cbn [flat_map]. rewrite Hdv, Hd.
      repeat split; auto. cbn [wrest] in Hl'. rewrite Hr2 in Hl2. cbn in Hl2. lia.
Qed.

Lemma pop_value_back : forall v0, vlx v0 -> value_back v0.
Proof.
  apply (value_ind' (fun v0 => vlx v0 -> value_back v0)).
  - intros t0 s0 e0 H fuel depth s rest Hp Hf Hdep. inversion H; subst. destruct fuel as [|f]; [lia|].
    cbn [value_items item_toks app] in Hp. rewrite (vlit_ctyp t0) in Hp by assumption.
    destruct (pt_cons s _ _ Hp) as (t & rs & Hr & Et & Hrs & Epop & Hnt). cbn [fst] in Hnt.
    cbn [pop_value]. rewrite Hnt.
    assert (E1 : tt_eqb (ty t0) IDENT = false) by (destruct (ty t0); try discriminate; reflexivity).
    assert (E2 : is_literal (ty t0) = true) by (destruct (ty t0); try discriminate; reflexivity).
    rewrite E1, E2, Epop. cbn [wbind].
    exists (VTok t (tstart t) (tend t)), (mkW rs (Some t)). repeat split; auto.
    + cbn. rewrite Et. reflexivity.
    + rewrite Hr. cbn. lia.
  - intros vs0 s0 e0 IH H fuel depth s rest Hp Hf Hdep. inversion H as [|vs1 s1 e1 Hvs]; subst.
    destruct fuel as [|f]; [lia|].
    assert (Hlt : N.leb max_value_depth depth = false).
    { apply N.leb_gt. cbn [vdepth] in Hdep. lia. }
    cbn [value_items item_toks] in Hp. rewrite item_toks_app, item_toks_sep_concat in Hp.
    cbn [item_toks app] in Hp. rewrite <- app_assoc in Hp. cbn [app] in Hp.
    destruct (pt_cons s _ _ Hp) as (op & rs & Hr & Et & Hrs & Epop & Hnt). cbn [fst] in Hnt.
    cbn [pop_value]. rewrite Hnt. cbn [tt_eqb tt_code N.eqb Pos.eqb is_literal].
    replace (tt_eqb LBRACK IDENT) with false by reflexivity. replace (tt_eqb LBRACK LBRACK) with true by reflexivity.
    rewrite Epop. cbn [wbind]. rewrite Hlt.
    destruct vs0 as [|x0 r0].
    + cbn [map sep_concat app] in Hrs.
      assert (Hb : tt_eqb (next_type (mkW rs (Some op))) RBRACK = true).
      { rewrite next_type_pt, pt_mk, Hrs. reflexivity. }
      rewrite Hb.
      assert (Hp1 : pt (mkW rs (Some op)) = (RBRACK, [93]) :: rest) by (rewrite pt_mk; exact Hrs).
      destruct (pt_cons _ _ _ Hp1) as (tb & rs2 & Hr2 & _ & Hrs2 & Epop2 & _). rewrite Epop2. cbn [wbind].
      exists (VArr [] (tstart op) (current_pos (mkW rs2 (Some tb)))), (mkW rs2 (Some tb)). repeat split; auto.
      cbn [wrest] in *. rewrite Hr. cbn. rewrite Hr2. cbn. lia.
    + assert (Hb : tt_eqb (next_type (mkW rs (Some op))) RBRACK = false).
      { rewrite next_type_pt, pt_mk, Hrs. cbn [map sep_concat app].
        inversion Hvs as [|? ? [Hvx _] _]; subst.
        destruct x0 as [t1 ? ?|vs1 ? ?]; cbn [value_items item_toks app]; [|reflexivity].
        inversion Hvx; subst. rewrite (vlit_ctyp t1) by assumption. cbn [fst].
        destruct (ty t1); try discriminate; reflexivity. }
      rewrite Hb.
      destruct (pop_elems_back (pop_value f (N.succ depth)) f op (x0 :: r0)) with (fuel2 := S (length rs)) (acc := @nil value)
                 (s := mkW rs (Some op)) (rest := rest) as (vs & s' & E & Hd & Hp' & Hl').
      * (* every element can be read back by the recursive parser *)
        assert (Hde : Forall (fun y => N.succ depth + vdepth y <= max_value_depth) (x0 :: r0)).
        { cbn [vdepth] in Hdep. clear - Hdep. generalize dependent (x0 :: r0). intros l. induction l as [|y ys IHl]; intros Hd; [constructor|].
          cbn [fold_right] in Hd. constructor; [lia|]. apply IHl. lia. }
        clear - IH Hvs Hde. induction IH as [|y ys Hy Hys IHys]; [constructor|].
        inversion Hvs as [|? ? [Hvy _] Hvys]; subst. inversion Hde; subst. constructor; [|apply IHys; assumption].
        split; [exact Hvy|]. intros s rest Hp Hb. apply (Hy Hvy f (N.succ depth) s rest Hp Hb). assumption.
      * discriminate.
      * rewrite pt_mk. exact Hrs.
      * cbn. lia.
      * cbn [wrest]. rewrite Hr in Hf. cbn in Hf. lia.
      * cbn [app] in E. exists (VArr vs (tstart op) (current_pos s')), s'. split; [exact E|].
        cbn [value_doc]. rewrite Hd. repeat split; auto. cbn [wrest] in Hl'. rewrite Hr. cbn. lia.
Qed.

Lemma pop_value_top_back v0 s rest : vlx v0 -> vdepth v0 <= max_value_depth ->
  pt s = item_toks (value_items v0) ++ rest ->
  exists v s', pop_value_top s = WOk v s' /\ value_doc v = value_doc v0 /\ pt s' = rest.
Proof.
  intros H Hd Hp. destruct (pop_value_back v0 H (S (length (wrest s))) 0 s rest Hp ltac:(lia) ltac:(lia)) as (v & s' & E & A & B & _).
  exists v, s'. auto.
Qed.

(* ---- tags -------------------------------------------------------------------------------------- *)
Definition tag_doc (t : tag) : mark * (list (list N) + list ptok) :=
  (tmark t, match tbody t with TagRef r => inl (ref_doc r) | TagVal v => inr (value_doc v) end).

Definition not_dot (rest : list ptok) : Prop := match rest with [] => True | p :: _ => fst p <> DOT end.

Lemma item_toks_tag t0 : tlx t0 ->
  item_toks (tag_items t0) =
  (match tmark t0 with MarkNone => [] | MarkBang => [(BANG, [33])] | MarkQuestion => [(QUESTION, [63])] end) ++
  match tbody t0 with TagRef r => ref_ptoks r | TagVal (VTok tk _ _) => [(STRING, lit tk)] | TagVal (VArr _ _ _) => [] end.
Proof.
  intros [Hm Hb]. unfold tag_items. rewrite item_toks_app. f_equal.
  - unfold mark_items, mark_ok in *. destruct (tmark t0), (tmark_tok t0) as [mt|]; try contradiction; try reflexivity;
      destruct Hm as [-> ->]; reflexivity.
  - destruct (tbody t0) as [r|[tk ? ?|? ? ?]]; [apply item_toks_ref|reflexivity|reflexivity].
Qed.

Definition body_ok (t0 : tag) : Prop :=
  match tbody t0 with TagRef r => ref_ok r | TagVal (VTok tk _ _) => ty tk = STRING | TagVal (VArr _ _ _) => False end.

Lemma after_mark_back t0 mk mt s rest : body_ok t0 -> not_dot rest ->
  pt s = (match tbody t0 with TagRef r => ref_ptoks r | TagVal (VTok tk _ _) => [(STRING, lit tk)] | TagVal (VArr _ _ _) => [] end) ++ rest ->
  exists t s',
    match next_type s with
    | IDENT | BOOL =>
      wbind (pop_reference s) (fun r s1 => WOk (mkTag mk mt (TagRef r) (ref_start r) (ref_end r)) s1)
    | STRING =>
      wbind (pop_value_top s) (fun v s1 => WOk (mkTag mk mt (TagVal v) (value_start v) (value_end v)) s1)
    | _ => wbind (pop_token s) (fun t s1 => WErr t (Expected exp_tag) s1)
    end = WOk t s' /\ tmark t = mk /\ snd (tag_doc t) = snd (tag_doc t0) /\ pt s' = rest.
Proof.
  unfold body_ok. intros Hb Hd Hp. destruct (tbody t0) as [r0|[tk s0 e0|vs s0 e0]] eqn:Eb; [| |contradiction].
  - destruct (ref_ptoks_head r0 Hb) as (p & r & Hh & Hty).
    assert (Hn : next_type s = fst p) by (rewrite next_type_pt, Hp, Hh; reflexivity).
    destruct (pop_reference_back s r0 rest Hb Hp Hd) as (r1 & s' & E & Hl & _ & Hp').
    rewrite Hn. destruct Hty as [-> | ->]; rewrite E; cbn [wbind];
      eexists _, s'; (split; [reflexivity|]); unfold tag_doc; cbn; rewrite Eb; unfold ref_doc; rewrite Hl; auto.
  - cbn [app] in Hp.
    assert (Hn : next_type s = STRING) by (rewrite next_type_pt, Hp; reflexivity).
    rewrite Hn.
    assert (Hv : vlx (VTok (mkTok STRING (lit tk) pos0 pos0) pos0 pos0)) by (constructor; [exact I|reflexivity]).
    destruct (pop_value_top_back _ s rest Hv ltac:(cbn [vdepth]; apply N.le_0_l) Hp) as (v & s' & E & Hdv & Hp'). rewrite E. cbn [wbind].
    eexists _, s'. split; [reflexivity|]. unfold tag_doc. cbn. rewrite Eb, Hdv. cbn. unfold etok. cbn. rewrite Hb. auto.
Qed.

Lemma pop_tag_back t0 s rest : tlx t0 -> not_dot rest -> pt s = item_toks (tag_items t0) ++ rest ->
  exists t s', pop_tag s = WOk t s' /\ tag_doc t = tag_doc t0 /\ pt s' = rest.
Proof.
  intros Hlx Hd Hp. rewrite (item_toks_tag t0 Hlx), <- app_assoc in Hp.
  unfold pop_tag. cbv zeta. destruct Hlx as [Hm Hb]. destruct (tmark t0) eqn:Em.
  - cbn [app] in Hp.
    destruct (after_mark_back t0 MarkNone None s rest Hb Hd Hp) as (t & s' & E & A & B & C).
    assert (Hnm : next_type s <> BANG /\ next_type s <> QUESTION).
    { rewrite next_type_pt. destruct (tbody t0) as [r0|[tk ? ?|? ? ?]]; [| |contradiction].
      - destruct (ref_ptoks_head r0 Hb) as (p & r & Hh & Hty). rewrite Hh in Hp. cbn in Hp. rewrite Hp. cbn.
        destruct Hty as [-> | ->]; split; discriminate.
      - cbn in Hp. rewrite Hp. cbn. split; discriminate. }
    exists t, s'. split; [|split; [|exact C]].
    + destruct (next_type s) eqn:En; try exact E; destruct Hnm; congruence.
    + unfold tag_doc in *. rewrite A, Em. f_equal. exact B.
  - cbn [app] in Hp. destruct (pt_cons s _ _ Hp) as (tm & rs & Hr & _ & Hrs & Epop & Hn). cbn [fst] in Hn. rewrite Hn, Epop. cbn [wbind].
    destruct (after_mark_back t0 MarkBang (Some tm) (mkW rs (Some tm)) rest Hb Hd) as (t & s' & E & A & B & C); [rewrite pt_mk; exact Hrs|].
    exists t, s'. split; [exact E|]. split; [|exact C]. unfold tag_doc in *. rewrite A, Em. f_equal. exact B.
  - cbn [app] in Hp. destruct (pt_cons s _ _ Hp) as (tm & rs & Hr & _ & Hrs & Epop & Hn). cbn [fst] in Hn. rewrite Hn, Epop. cbn [wbind].
    destruct (after_mark_back t0 MarkQuestion (Some tm) (mkW rs (Some tm)) rest Hb Hd) as (t & s' & E & A & B & C); [rewrite pt_mk; exact Hrs|].
    exists t, s'. split; [exact E|]. split; [|exact C]. unfold tag_doc in *. rewrite A, Em. f_equal. exact B.
Qed.

(* the first token of a tag can start a tag and is not a dot *)
Lemma tag_ptoks_head t0 : tlx t0 -> exists p r, item_toks (tag_items t0) = p :: r /\ can_start_tag (fst p) = true /\ fst p <> DOT /\ fst p <> COLON.
Proof.
  intros Hlx. rewrite (item_toks_tag t0 Hlx). destruct Hlx as [Hm Hb]. destruct (tmark t0).
  - cbn [app]. destruct (tbody t0) as [r0|[tk ? ?|? ? ?]]; [| |contradiction].
    + destruct (ref_ptoks_head r0 Hb) as (p & r & Hh & Hty). rewrite Hh. exists p, r. split; [reflexivity|].
      destruct Hty as [-> | ->]; repeat split; try reflexivity; discriminate.
    + eexists _, _. split; [reflexivity|]. repeat split; try reflexivity; discriminate.
  - eexists _, _. split; [reflexivity|]. repeat split; try reflexivity; discriminate.
  - eexists _, _. split; [reflexivity|]. repeat split; try reflexivity; discriminate.
Qed.

Lemma tags_loop_back : forall tags0 fuel acc s rest,
  Forall tlx tags0 -> not_dot rest -> (match rest with [] => True | p :: _ => can_start_tag (fst p) = false end) ->
  pt s = item_toks (flat_map (fun t => Sp :: tag_items t) tags0) ++ rest ->
  (length tags0 < fuel)%nat ->
  exists ts s', tags_loop fuel acc s = WOk (acc ++ ts) s' /\ map tag_doc ts = map tag_doc tags0 /\ pt s' = rest.
Proof.
  induction tags0 as [|t0 r0 IH]; intros fuel acc s rest Hf Hd Hc Hp Hl; (destruct fuel as [|f]; [cbn in Hl; lia|]); cbn [tags_loop].
  - cbn in Hp. assert (Hn : can_start_tag (next_type s) = false).
    { rewrite next_type_pt, Hp. destruct rest; [reflexivity|exact Hc]. }
    rewrite Hn. exists [], s. rewrite app_nil_r. auto.
  - inversion Hf as [|? ? Ht Hr]; subst. cbn [flat_map] in Hp.
    change (Sp :: tag_items t0) with ([Sp] ++ tag_items t0) in Hp. rewrite !item_toks_app, <- !app_assoc in Hp. cbn [item_toks app] in Hp.
    destruct (tag_ptoks_head t0 Ht) as (p & r & Hh & Hcs & _).
    assert (Hn : can_start_tag (next_type s) = true) by (rewrite next_type_pt, Hp, Hh; exact Hcs).
    rewrite Hn.
    destruct (pop_tag_back t0 s (item_toks (flat_map (fun t => Sp :: tag_items t) r0) ++ rest) Ht) as (t & s1 & E & Hdoc & Hp1).
    + destruct r0 as [|t1 r1]; [exact Hd|]. cbn [flat_map].
      change (Sp :: tag_items t1) with ([Sp] ++ tag_items t1). rewrite !item_toks_app. cbn [item_toks app].
      destruct (tag_ptoks_head t1) as (p1 & r1' & Hh1 & _ & Hnd & _); [inversion Hr; assumption|]. rewrite <- app_assoc, Hh1. exact Hnd.
    + exact Hp.
    + rewrite E. cbn [wbind].
      destruct (IH f (acc ++ [t]) s1 rest Hr Hd Hc Hp1 ltac:(cbn in Hl; lia)) as (ts & s' & E' & Hdocs & Hp').
      exists (t :: ts), s'. rewrite <- app_assoc in E'. split; [exact E'|]. cbn. rewrite Hdoc, Hdocs. auto.
Qed.

Lemma quals_loop_back : forall quals0 fuel acc s rest,
  Forall tlx quals0 -> not_dot rest -> (match rest with [] => True | p :: _ => fst p <> COLON end) ->
  pt s = item_toks (flat_map (fun t => Tok COLON [58] :: tag_items t) quals0) ++ rest ->
  (length quals0 < fuel)%nat ->
  exists ts s', quals_loop fuel acc s = WOk (acc ++ ts) s' /\ map tag_doc ts = map tag_doc quals0 /\ pt s' = rest.
Proof.
  induction quals0 as [|t0 r0 IH]; intros fuel acc s rest Hf Hd Hc Hp Hl; (destruct fuel as [|f]; [cbn in Hl; lia|]); cbn [quals_loop].
  - cbn in Hp. assert (Hn : tt_eqb (next_type s) COLON = false).
    { rewrite next_type_pt, Hp. destruct rest; [reflexivity|]. apply tt_eqb_false. exact Hc. }
    rewrite Hn. exists [], s. rewrite app_nil_r. auto.
  - inversion Hf as [|? ? Ht Hr]; subst. cbn [flat_map] in Hp.
    change (Tok COLON [58] :: tag_items t0) with ([Tok COLON [58]] ++ tag_items t0) in Hp.
    rewrite !item_toks_app, <- !app_assoc in Hp. cbn [item_toks app] in Hp.
    assert (Hn : tt_eqb (next_type s) COLON = true) by (rewrite next_type_pt, Hp; reflexivity).
    rewrite Hn. destruct (pt_cons s _ _ Hp) as (tc & rs & Hrs0 & _ & Hrs & Epop & _). rewrite Epop. cbn [wbind].
    destruct (pop_tag_back t0 (mkW rs (Some tc)) (item_toks (flat_map (fun t => Tok COLON [58] :: tag_items t) r0) ++ rest) Ht) as (t & s1 & E & Hdoc & Hp1).
    + destruct r0 as [|t1 r1]; [exact Hd|]. cbn. discriminate.
    + rewrite pt_mk. exact Hrs.
    + rewrite E. cbn [wbind].
      destruct (IH f (acc ++ [t]) s1 rest Hr Hd Hc Hp1 ltac:(cbn in Hl; lia)) as (ts & s' & E' & Hdocs & Hp').
      exists (t :: ts), s'. rewrite <- app_assoc in E'. split; [exact E'|]. cbn. rewrite Hdoc, Hdocs. auto.
Qed.

(* ---- statements ---------------------------------------------------------------------------------- *)
Definition comment_doc (c : option comment) : option (list N) := option_map cvalue c.
Definition eol_tok : ptok := (EOL, [10]).

Lemma end_statement_back c0 s rest : pt s = item_toks (comment_items c0) ++ eol_tok :: rest ->
  exists c s', end_statement s = WOk c s' /\ comment_doc c = comment_doc c0 /\ pt s' = rest.
Proof.
  intros Hp. unfold end_statement. destruct c0 as [c0|]; cbn [comment_items item_toks app] in Hp.
  - destruct (pt_cons s _ _ Hp) as (t & rs & Hr & Et & Hrs & Epop & _). rewrite Epop. cbn [wbind].
    unfold etok in Et. injection Et as Et1 Et2. rewrite Et1.
    assert (Hp1 : pt (mkW rs (Some t)) = eol_tok :: rest) by (rewrite pt_mk; exact Hrs).
    destruct (pt_cons _ _ _ Hp1) as (t2 & rs2 & Hr2 & Et' & Hrs2 & Epop2 & _). rewrite Epop2. cbn [wbind].
    unfold etok, eol_tok in Et'. injection Et' as Et1' _. rewrite Et1'.
    eexists _, _. split; [reflexivity|]. cbn. rewrite Et2. auto.
  - destruct (pt_cons s _ _ Hp) as (t & rs & Hr & Et & Hrs & Epop & _). rewrite Epop. cbn [wbind].
    unfold etok, eol_tok in Et. injection Et as Et1 _. rewrite Et1.
    eexists _, _. split; [reflexivity|]. auto.
Qed.

(* documents of fragments (descriptions by value; compared as paragraphs elsewhere) *)
Inductive fdoc :=
| DH (ty : list (list N)) (tags quals : list (mark * (list (list N) + list ptok))) (desc : option (list N))
     (op : bool) (c : option (list N))
| DA (key : list (list N)) (app : bool) (v : list ptok) (c : option (list N))
| DD (value : list N)
| DC (t : ptok)
| DX.

Definition fdoc_of (f : fragment) : fdoc :=
  match f with
  | FHeader h => DH (ref_doc (htype h)) (map tag_doc (htags h)) (map tag_doc (hquals h))
                    (option_map dvalue (hdesc h)) (hopen h) (comment_doc (hcomment h))
  | FAssign a => DA (ref_doc (akey a)) (aappend a) (value_doc (avalue a)) (comment_doc (acomment a))
  | FDesc d => DD (dvalue d)
  | FComment t => DC (etok t)
  | FClose _ => DX
  end.

Lemma walk_value_assign_back r app v0 c0 s rest : vlx v0 -> vdepth v0 <= max_value_depth ->
  pt s = (ASSIGN, [61]) :: item_toks (value_items v0) ++ item_toks (comment_items c0) ++ eol_tok :: rest ->
  exists f s', walk_value_assign r app s = WOk f s' /\
               fdoc_of f = DA (ref_doc r) app (value_doc v0) (comment_doc c0) /\ pt s' = rest.
Proof.
  intros Hv Hdv0 Hp. unfold walk_value_assign.
  destruct (pt_cons s _ _ Hp) as (t & rs & Hr & Et & Hrs & Epop & _). rewrite Epop. cbn [wbind].
  unfold etok in Et. injection Et as Et1 _. rewrite Et1. cbn [tt_eqb tt_code N.eqb Pos.eqb negb].
  replace (tt_eqb ASSIGN ASSIGN) with true by reflexivity. cbn [negb].
  destruct (pop_value_top_back v0 (mkW rs (Some t)) (item_toks (comment_items c0) ++ eol_tok :: rest) Hv Hdv0) as (v & s2 & Ev & Hdv & Hp2); [rewrite pt_mk; exact Hrs|].
  rewrite Ev. cbn [wbind].
  destruct (end_statement_back c0 s2 rest Hp2) as (c & s3 & Ee & Hdc & Hp3). rewrite Ee. cbn [wbind].
  eexists _, s3. split; [reflexivity|]. cbn. rewrite Hdv, Hdc. auto.
Qed.

Lemma item_toks_assign a0 : item_toks (assign_items a0) =
  ref_ptoks (akey a0) ++ (if aappend a0 then [(PLUS, [43]); (ASSIGN, [61])] else [(ASSIGN, [61])])
  ++ item_toks (value_items (avalue a0)) ++ item_toks (comment_items (acomment a0)).
Proof.
  unfold assign_items. rewrite !item_toks_app, item_toks_ref. f_equal. f_equal. destruct (aappend a0); reflexivity.
Qed.

Lemma walk_statement_assign_back a0 s rest : alx a0 ->
  pt s = item_toks (assign_items a0) ++ eol_tok :: rest ->
  exists f s', walk_statement s = WOk f s' /\ fdoc_of f = fdoc_of (FAssign a0) /\ pt s' = rest.
Proof.
  intros (Hr & Hv & Hc & He & Hdp) Hp. rewrite item_toks_assign, <- !app_assoc in Hp.
  unfold walk_statement.
  destruct (pop_reference_back s (akey a0) _ Hr Hp) as (r & s1 & E & Hl & _ & Hp1).
  { destruct (aappend a0); cbn; discriminate. }
  rewrite E. cbn [wbind].
  destruct (aappend a0) eqn:Ea; cbn [app] in Hp1.
  - assert (Hn1 : tt_eqb (next_type s1) ASSIGN = false) by (rewrite next_type_pt, Hp1; reflexivity).
    assert (Hn2 : tt_eqb (next_type s1) PLUS = true) by (rewrite next_type_pt, Hp1; reflexivity).
    rewrite Hn1, Hn2.
    destruct (pt_cons s1 _ _ Hp1) as (tp & rs & Hrs0 & _ & Hrs & Epop & _). rewrite Epop. cbn [wbind].
    assert (Hn3 : tt_eqb (next_type (mkW rs (Some tp))) ASSIGN = true) by (rewrite next_type_pt, pt_mk, Hrs; reflexivity).
    rewrite Hn3. cbn [negb].
    destruct (walk_value_assign_back r true (avalue a0) (acomment a0) (mkW rs (Some tp)) rest Hv Hdp) as (f & s' & Ew & Hd & Hp').
    { rewrite pt_mk. exact Hrs. }
    exists f, s'. split; [exact Ew|]. split; [|exact Hp']. rewrite Hd. cbn. unfold ref_doc. rewrite Hl, Ea. reflexivity.
  - assert (Hn1 : tt_eqb (next_type s1) ASSIGN = true) by (rewrite next_type_pt, Hp1; reflexivity).
    rewrite Hn1.
    destruct (walk_value_assign_back r false (avalue a0) (acomment a0) s1 rest Hv Hdp Hp1) as (f & s' & Ew & Hd & Hp').
    exists f, s'. split; [exact Ew|]. split; [|exact Hp']. rewrite Hd. cbn. unfold ref_doc. rewrite Hl, Ea. reflexivity.
Qed.

(* ---- headers ------------------------------------------------------------------------------------- *)
Definition tags_ptoks (tags : list tag) : list ptok := item_toks (flat_map (fun t => Sp :: tag_items t) tags).
Definition quals_ptoks (quals : list tag) : list ptok := item_toks (flat_map (fun t => Tok COLON [58] :: tag_items t) quals).
Definition open_ptoks (b : bool) : list ptok := if b then [(LBRACE, [123])] else [].
Definition desc_ptoks (d : option descr) : list ptok :=
  match d with Some d => match dtoks d with [t] => [(DESCRIPTION, lit t)] | _ => [] end | None => [] end.

Lemma item_toks_header h0 : item_toks (header_items h0) =
  ref_ptoks (htype h0) ++ tags_ptoks (htags h0) ++ quals_ptoks (hquals h0) ++ open_ptoks (hopen h0)
  ++ desc_ptoks (hdesc h0) ++ item_toks (comment_items (hcomment h0)).
Proof.
  unfold header_items. rewrite !item_toks_app, item_toks_ref. f_equal. f_equal. f_equal. f_equal.
  - destruct (hopen h0); reflexivity.
  - f_equal. destruct (hdesc h0) as [d|]; [|reflexivity]. cbn. destruct (dtoks d) as [|t [|t2 r]]; reflexivity.
Qed.

(* the first token after the type / the tags / the qualifiers *)
Definition hd_type (l : list ptok) : ttype := match l with [] => EOF | p :: _ => fst p end.

Lemma tags_ptoks_hd tags : Forall tlx tags -> tags <> [] ->
  can_start_tag (hd_type (tags_ptoks tags)) = true /\ hd_type (tags_ptoks tags) <> DOT /\ tags_ptoks tags <> [].
Proof.
  intros Hf Hne. destruct tags as [|t r]; [congruence|]. inversion Hf; subst. unfold tags_ptoks. cbn [flat_map].
  change (Sp :: tag_items t) with ([Sp] ++ tag_items t). rewrite !item_toks_app. cbn [item_toks app].
  destruct (tag_ptoks_head t H1) as (p & q & Hh & A & B & _). rewrite Hh. cbn. repeat split; auto. discriminate.
Qed.

Lemma quals_ptoks_hd quals : quals <> [] -> hd_type (quals_ptoks quals) = COLON /\ quals_ptoks quals <> [].
Proof. destruct quals as [|t r]; [congruence|]. intros _. unfold quals_ptoks. cbn. split; [reflexivity|discriminate]. Qed.

Lemma hd_type_app a b : a <> [] -> hd_type (a ++ b) = hd_type a.
Proof. destruct a; [congruence|reflexivity]. Qed.
Lemma hd_type_app_nil b : hd_type ([] ++ b) = hd_type b.
Proof. reflexivity. Qed.

(* the part of a header line after the qualifiers begins with one of these *)
Definition tail_start (t : ttype) : Prop := t = LBRACE \/ t = DESCRIPTION \/ t = COMMENT \/ t = EOL.

Lemma header_tail_start h0 rest : tail_start (hd_type (open_ptoks (hopen h0) ++ desc_ptoks (hdesc h0)
                                       ++ item_toks (comment_items (hcomment h0)) ++ eol_tok :: rest)).
Proof.
  unfold tail_start, open_ptoks, desc_ptoks. destruct (hopen h0); [left; reflexivity|]. cbn [app].
  destruct (hdesc h0) as [d|].
  - destruct (dtoks d) as [|t [|t2 r]]; cbn [app]; try (right; left; reflexivity);
      destruct (hcomment h0); cbn; auto.
  - cbn [app]. destruct (hcomment h0); cbn; auto.
Qed.

Lemma tags_count tags : Forall tlx tags -> (length tags <= length (tags_ptoks tags))%nat.
Proof.
  induction tags as [|t r IH]; intros H; [cbn; lia|]. inversion H; subst. unfold tags_ptoks in *. cbn [flat_map].
  change (Sp :: tag_items t) with ([Sp] ++ tag_items t). rewrite !item_toks_app, !app_length. cbn [item_toks length].
  destruct (tag_ptoks_head t H2) as (p & q & Hh & _). rewrite Hh. cbn [length]. specialize (IH H3). lia.
Qed.
Lemma quals_count quals : (length quals <= length (quals_ptoks quals))%nat.
Proof.
  induction quals as [|t r IH]; [cbn; lia|]. unfold quals_ptoks in *. cbn [flat_map].
  change (Tok COLON [58] :: tag_items t) with ([Tok COLON [58]] ++ tag_items t). rewrite !item_toks_app, !app_length. cbn [item_toks length]. lia.
Qed.

Lemma walk_statement_header_back h0 s rest : hlx h0 ->
  pt s = item_toks (header_items h0) ++ eol_tok :: rest ->
  exists f s', walk_statement s = WOk f s' /\ fdoc_of f = fdoc_of (FHeader h0) /\
               (pt s' = rest \/ pt s' = eol_tok :: rest).
Proof.
  intros (Hr & Htags & Hquals & Hc & Hd) Hp. rewrite item_toks_header, <- !app_assoc in Hp.
  set (TAIL := open_ptoks (hopen h0) ++ desc_ptoks (hdesc h0) ++ item_toks (comment_items (hcomment h0)) ++ eol_tok :: rest) in *.
  pose proof (header_tail_start h0 rest) as Hts. fold TAIL in Hts.
  assert (HTne : TAIL <> []).
  { unfold TAIL, open_ptoks, desc_ptoks. destruct (hopen h0); [discriminate|]. cbn [app].
    destruct (hdesc h0) as [d|]; [destruct (dtoks d) as [|t [|t2 r]]|]; cbn [app];
      destruct (hcomment h0); discriminate. }
  (* what follows the qualifiers / the tags / the type *)
  set (AQ := quals_ptoks (hquals h0) ++ TAIL) in *.
  set (AT := tags_ptoks (htags h0) ++ AQ) in *.
  assert (HhdQ : hd_type AQ = COLON \/ tail_start (hd_type AQ)).
  { unfold AQ. destruct (hquals h0) as [|q qs] eqn:Eq; [right; exact Hts|]. left.
    rewrite hd_type_app; apply quals_ptoks_hd; discriminate. }
  assert (HAQne : AQ <> []) by (unfold AQ; intros H; apply app_eq_nil in H; destruct H; contradiction).
  assert (HhdT : (can_start_tag (hd_type AT) = true /\ hd_type AT <> DOT) \/ hd_type AT = hd_type AQ).
  { unfold AT. destruct (htags h0) as [|t ts] eqn:Et; [right; reflexivity|]. left.
    destruct (tags_ptoks_hd (t :: ts)) as (A & B & C); [exact Htags|discriminate|].
    rewrite hd_type_app by exact C. auto. }
  assert (HATne : AT <> []) by (unfold AT; intros H; apply app_eq_nil in H; destruct H; contradiction).
  assert (Hclass : forall l, l <> [] -> hd_type l = COLON \/ tail_start (hd_type l) ->
            not_dot l /\ match l with [] => True | p :: _ => can_start_tag (fst p) = false end /\
            hd_type l <> ASSIGN /\ hd_type l <> PLUS).
  { intros l Hne Hh. destruct l as [|p l']; [congruence|]. cbn in *.
    destruct Hh as [->|[->|[->|[->| ->]]]]; repeat split; try discriminate; reflexivity. }
  unfold walk_statement.
  destruct (pop_reference_back s (htype h0) AT Hr Hp) as (r & s1 & E & Hl & _ & Hp1).
  { destruct AT as [|p l] eqn:EAT; [exact I|]. cbn. destruct HhdT as [[_ B]|B]; [exact B|].
    cbn in B. destruct (Hclass AQ HAQne HhdQ) as (A & _). destruct AQ as [|q l']; [congruence|]. cbn in *. congruence. }
  rewrite E. cbn [wbind].
  assert (Hn1 : next_type s1 = hd_type AT) by (rewrite next_type_pt, Hp1; destruct AT; reflexivity).
  assert (HnotA : tt_eqb (next_type s1) ASSIGN = false /\ tt_eqb (next_type s1) PLUS = false).
  { rewrite Hn1. destruct HhdT as [[A B]|B].
    - destruct (hd_type AT); try discriminate; split; reflexivity.
    - rewrite B. destruct (Hclass AQ HAQne HhdQ) as (_ & _ & C & D). split; apply tt_eqb_false; assumption. }
  destruct HnotA as [-> ->].
  destruct (Hclass AQ HAQne HhdQ) as (HdQ & HcQ & _).
  destruct (tags_loop_back (htags h0) (S (length (wrest s1))) [] s1 AQ Htags HdQ HcQ Hp1) as (tags & s2 & Et & Hdt & Hp2).
  { rewrite <- pt_length, Hp1. unfold AT. rewrite app_length. pose proof (tags_count _ Htags). lia. }
  rewrite Et. cbn [app wbind].
  destruct (Hclass TAIL HTne (or_intror Hts)) as (HdT & _ & _).
  destruct (quals_loop_back (hquals h0) (S (length (wrest s2))) [] s2 TAIL Hquals HdT) as (quals & s3 & Eq & Hdq & Hp3).
  { destruct TAIL as [|p l]; [exact I|]. cbn in Hts. destruct Hts as [->|[->|[->| ->]]]; discriminate. }
  { exact Hp2. }
  { rewrite <- pt_length, Hp2. unfold AQ. rewrite app_length. pose proof (quals_count (hquals h0)). lia. }
  rewrite Eq. cbn [app wbind].
  assert (Hn3 : next_type s3 = hd_type TAIL) by (rewrite next_type_pt, Hp3; destruct TAIL; reflexivity).
  assert (Hdoc : forall d op c e, option_map dvalue d = option_map dvalue (hdesc h0) -> op = hopen h0 ->
            comment_doc c = comment_doc (hcomment h0) ->
            fdoc_of (FHeader (mkHeader r tags quals d op (ref_start r) e c)) = fdoc_of (FHeader h0)).
  { intros d op c e H1 H2 H3. cbn. unfold ref_doc. rewrite Hl, Hdt, Hdq, H1, H2, H3. reflexivity. }
  unfold TAIL, open_ptoks in Hp3, Hn3.
  destruct (hopen h0) eqn:Eo.
  - (* a block is opened *)
    cbn [app] in Hp3, Hn3. cbn [hd_type fst] in Hn3. rewrite Hn3.
    destruct (pt_cons s3 _ _ Hp3) as (tb & rs & Hrs0 & _ & Hrs & Epop & _). rewrite Epop. cbn [wbind].
    assert (Hdn : desc_ptoks (hdesc h0) = []).
    { unfold desc_ptoks. destruct (hdesc h0) as [d|]; [|reflexivity]. destruct Hd as (_ & Ho & _). congruence. }
    rewrite Hdn in Hrs. cbn [app] in Hrs.
    destruct (end_statement_back (hcomment h0) (mkW rs (Some tb)) rest) as (c & s5 & Ee & Hdc & Hp5); [rewrite pt_mk; exact Hrs|].
    rewrite Ee. cbn [wbind]. eexists _, s5. split; [reflexivity|]. split; [|left; exact Hp5].
    apply Hdoc; auto. destruct (hdesc h0) as [d|]; [destruct Hd as (_ & Ho & _); congruence|reflexivity].
  - cbn [app] in Hp3, Hn3. unfold desc_ptoks in Hp3, Hn3.
    destruct (hdesc h0) as [d|] eqn:Ed.
    + destruct Hd as ((t0 & Ht0 & Hty0 & _) & _ & Hcn & Hdv). rewrite Ht0 in Hp3, Hn3. rewrite Hcn in Hp3, Hn3.
      cbn [app comment_items item_toks] in Hp3, Hn3. cbn [hd_type fst] in Hn3. rewrite Hn3.
      destruct (pt_cons s3 _ _ Hp3) as (td & rs & Hrs0 & Etd & Hrs & Epop & _). rewrite Epop. cbn [wbind].
      eexists _, _. split; [reflexivity|]. split; [|right; rewrite pt_mk; exact Hrs].
      apply Hdoc; auto; [|rewrite Hcn; reflexivity]. cbn. f_equal. rewrite Hdv, Ht0. cbn.
      unfold etok in Etd. injection Etd as _ Hlt. exact Hlt.
    + cbn [app] in Hp3, Hn3. destruct (hcomment h0) as [c0|] eqn:Ec.
      * cbn [comment_items item_toks app] in Hp3, Hn3. cbn [hd_type fst] in Hn3. rewrite Hn3.
        destruct (end_statement_back (Some c0) s3 rest) as (c & s5 & Ee & Hdc & Hp5); [exact Hp3|].
        rewrite Ee. cbn [wbind]. eexists _, s5. split; [reflexivity|]. split; [|left; exact Hp5].
        apply Hdoc; auto.
      * cbn [comment_items item_toks app] in Hp3, Hn3. cbn [hd_type fst eol_tok] in Hn3. rewrite Hn3.
        eexists _, s3. split; [reflexivity|]. split; [|right; exact Hp3]. apply Hdoc; auto.
Qed.

(* ---- one fragment ----------------------------------------------------------------------------------- *)
Lemma frag_items_head f0 : frag_lx f0 -> (forall d, f0 <> FDesc d) ->
  exists p r, item_toks (frag_items f0) = p :: r /\
    match f0 with
    | FHeader _ | FAssign _ => fst p = IDENT \/ fst p = BOOL
    | FComment t => p = etok t
    | FClose _ => p = (RBRACE, [125])
    | FDesc _ => False
    end.
Proof.
  intros Hlx Hnd. destruct f0 as [h|a|d|t|t]; cbn [frag_items frag_lx] in *.
  - rewrite item_toks_header. destruct Hlx as (Hr & _). destruct (ref_ptoks_head _ Hr) as (p & r & Hh & Hty).
    rewrite Hh. eexists _, _. split; [reflexivity|exact Hty].
  - rewrite item_toks_assign. destruct Hlx as (Hr & _). destruct (ref_ptoks_head _ Hr) as (p & r & Hh & Hty).
    rewrite Hh. eexists _, _. split; [reflexivity|exact Hty].
  - exfalso. apply (Hnd d). reflexivity.
  - eexists _, _. split; reflexivity.
  - eexists _, _. split; reflexivity.
Qed.

Theorem next_fragment_back f0 s rest : frag_lx f0 -> (forall d, f0 <> FDesc d) ->
  pt s = item_toks (frag_items f0) ++ eol_tok :: rest ->
  exists f s', next_fragment s = WOk (Some f) s' /\ fdoc_of f = fdoc_of f0 /\
               (pt s' = rest \/ pt s' = eol_tok :: rest).
Proof.
  intros Hlx Hnd Hp. destruct (frag_items_head f0 Hlx Hnd) as (p & r & Hh & Hk).
  assert (Hn : next_type s = fst p) by (rewrite next_type_pt, Hp, Hh; reflexivity).
  unfold next_fragment. destruct f0 as [h|a|d|t|t]; cbn [frag_items frag_lx] in *.
  - destruct (walk_statement_header_back h s rest Hlx Hp) as (f & s' & E & Hd & Hp').
    rewrite Hn. destruct Hk as [-> | ->]; rewrite E; cbn [wbind]; exists f, s'; auto.
  - destruct (walk_statement_assign_back a s rest Hlx Hp) as (f & s' & E & Hd & Hp').
    rewrite Hn. destruct Hk as [-> | ->]; rewrite E; cbn [wbind]; exists f, s'; auto.
  - contradiction.
  - cbn [item_toks app] in Hp. destruct (pt_cons s _ _ Hp) as (t1 & rs & Hrs0 & Et & Hrs & Epop & Hn'). cbn [fst] in Hn'.
    destruct Hlx as [Hty _]. rewrite Hn'.
    destruct Hty as [-> | ->]; rewrite Epop; cbn [wbind]; eexists _, _; (split; [reflexivity|]);
      (split; [cbn; rewrite Et; reflexivity|right; rewrite pt_mk; exact Hrs]).
  - cbn [item_toks app] in Hp. destruct (pt_cons s _ _ Hp) as (t1 & rs & Hrs0 & Et & Hrs & Epop & Hn'). cbn [fst] in Hn'.
    rewrite Hn', Epop. cbn [wbind]. eexists _, _. split; [reflexivity|]. split; [reflexivity|right; rewrite pt_mk; exact Hrs].
Qed.

(* ---- a description block: DESCRIPTION l1, EOL, DESCRIPTION l2, EOL, ... ----------------------- *)
Fixpoint desc_ptoks_lines (ls : list (list N)) : list ptok :=
  match ls with
  | [] => []
  | [l] => [(DESCRIPTION, l)]
  | l :: r => (DESCRIPTION, l) :: eol_tok :: desc_ptoks_lines r
  end.

Lemma peek_type_pt n s : peek_type n s = match nth_error (pt s) n with Some p => fst p | None => EOF end.
Proof. unfold peek_type, pt. rewrite nth_error_map. destruct (nth_error (wrest s) n); reflexivity. Qed.

Lemma pop_description_loop_back : forall ls fuel acc s rest, ls <> [] ->
  pt s = desc_ptoks_lines ls ++ rest ->
  (* the block ends: what follows is not "EOL, DESCRIPTION" *)
  (match rest with p :: q :: _ => ~ (fst p = EOL /\ fst q = DESCRIPTION) | _ => True end) ->
  (length (wrest s) < fuel)%nat ->
  exists d s', pop_description_loop fuel acc s = WOk d s' /\
               map lit (dtoks d) = map lit acc ++ ls /\ dvalue d = join_with 10 (map lit acc ++ ls) /\ pt s' = rest.
Proof.
  induction ls as [|l r IH]; intros fuel acc s rest Hne Hp Hend Hf; [congruence|].
  destruct fuel as [|f]; [lia|]. cbn [pop_description_loop].
  destruct r as [|l2 r2].
  - cbn [desc_ptoks_lines app] in Hp.
    destruct (pt_cons s _ _ Hp) as (t & rs & Hrs0 & Et & Hrs & Epop & _). rewrite Epop. cbn [wbind].
    assert (Hstop : (tt_eqb (peek_type 0 (mkW rs (Some t))) EOL && tt_eqb (peek_type 1 (mkW rs (Some t))) DESCRIPTION)%bool = false).
    { rewrite !peek_type_pt, pt_mk, Hrs. destruct rest as [|p [|q rest']]; cbn; try reflexivity; try (apply andb_false_r).
      destruct (tt_eqb (fst p) EOL) eqn:E1; [|reflexivity]. destruct (tt_eqb (fst q) DESCRIPTION) eqn:E2; [|reflexivity].
      exfalso. apply Hend. split; apply tt_eqb_true; assumption. }
    rewrite Hstop. eexists _, _. split; [reflexivity|]. cbn [dtoks dvalue]. rewrite map_app. cbn [map].
    unfold etok in Et. injection Et as _ Hl. rewrite Hl. repeat split; auto.
  - change (desc_ptoks_lines (l :: l2 :: r2)) with ((DESCRIPTION, l) :: eol_tok :: desc_ptoks_lines (l2 :: r2)) in Hp.
    cbn [app] in Hp.
    destruct (pt_cons s _ _ Hp) as (t & rs & Hrs0 & Et & Hrs & Epop & _). rewrite Epop. cbn [wbind].
    assert (Hgo : (tt_eqb (peek_type 0 (mkW rs (Some t))) EOL && tt_eqb (peek_type 1 (mkW rs (Some t))) DESCRIPTION)%bool = true).
    { rewrite !peek_type_pt, pt_mk, Hrs. cbn. destruct r2; reflexivity. }
    rewrite Hgo.
    assert (Hp1 : pt (mkW rs (Some t)) = eol_tok :: desc_ptoks_lines (l2 :: r2) ++ rest) by (rewrite pt_mk; exact Hrs).
    destruct (pt_cons _ _ _ Hp1) as (te & rs2 & Hrs1 & _ & Hrs2 & Epop2 & _). rewrite Epop2. cbn [wbind].
    destruct (IH f (acc ++ [t]) (mkW rs2 (Some te)) rest ltac:(discriminate)) as (d & s' & E & A & B & C).
    + rewrite pt_mk. exact Hrs2.
    + exact Hend.
    + cbn [wrest] in *. rewrite Hrs0 in Hf. cbn in Hf. rewrite Hrs1 in Hf. cbn in Hf. lia.
    + exists d, s'. split; [exact E|]. unfold etok in Et. injection Et as _ Hl.
      rewrite map_app in A, B. cbn [map] in A, B. rewrite Hl, <- app_assoc in A, B. cbn [app] in A, B. auto.
Qed.

Theorem next_fragment_desc_back ls s rest : ls <> [] ->
  pt s = desc_ptoks_lines ls ++ eol_tok :: rest ->
  (match rest with p :: _ => fst p <> DESCRIPTION | [] => True end) ->
  exists d s', next_fragment s = WOk (Some (FDesc d)) s' /\ dvalue d = join_with 10 ls /\ pt s' = eol_tok :: rest.
Proof.
  intros Hne Hp Hend. unfold next_fragment.
  assert (Hn : next_type s = DESCRIPTION).
  { rewrite next_type_pt, Hp. destruct ls as [|l [|l2 r]]; [congruence|reflexivity|reflexivity]. }
  rewrite Hn. unfold pop_description.
  destruct (pop_description_loop_back ls (S (length (wrest s))) [] s (eol_tok :: rest) Hne Hp) as (d & s' & E & A & B & C); [|lia|].
  { destruct rest as [|q rest']; [exact I|]. intros [_ H]. apply Hend. exact H. }
  rewrite E. cbn [wbind]. exists d, s'. cbn in B. auto.
Qed.

(* ---- the whole token stream ------------------------------------------------------------------------ *)
Inductive entry := EFrag (f : fragment) | EDesc (ls : list (list N)).
Definition entry_toks (e : entry) : list ptok :=
  match e with EFrag f => item_toks (frag_items f) | EDesc ls => desc_ptoks_lines ls end.
Definition entry_ok (e : entry) : Prop :=
  match e with EFrag f => frag_lx f /\ (forall d, f <> FDesc d) | EDesc ls => ls <> [] end.
Definition entry_doc (e : entry) : fdoc :=
  match e with EFrag f => fdoc_of f | EDesc ls => DD (join_with 10 ls) end.
Definition is_desc (e : entry) : bool := match e with EDesc _ => true | _ => false end.

(* entries with their "blank line before" flag *)
Fixpoint stream (es : list (bool * entry)) : list ptok :=
  match es with
  | [] => []
  | (b, e) :: r => (if b then [eol_tok] else []) ++ entry_toks e ++ eol_tok :: stream r
  end.

(* a description block is not directly followed by another one *)
Fixpoint stream_ok (es : list (bool * entry)) : Prop :=
  match es with
  | [] => True
  | (b, e) :: r => entry_ok e /\
                   match r with (b2, e2) :: _ => is_desc e = true -> is_desc e2 = true -> b2 = true | [] => True end /\
                   stream_ok r
  end.

Lemma skip_eol_loop f ff s r : pt s = eol_tok :: r ->
  exists s1, pt s1 = r /\ walk_fragments_loop (S f) ff s = walk_fragments_loop f ff s1.
Proof.
  intros Hp. destruct (pt_cons s _ _ Hp) as (t & rs & Hrs0 & Et & Hrs & Epop & Hn). cbn [fst eol_tok] in Hn.
  exists (mkW rs (Some t)). split; [rewrite pt_mk; exact Hrs|].
  cbn [walk_fragments_loop]. rewrite Hn. replace (tt_eqb EOL EOF) with false by reflexivity.
  unfold next_fragment. rewrite Hn, Epop. cbn [wbind].
  destruct (walk_fragments_loop f ff (mkW rs (Some t))); reflexivity.
Qed.

Lemma entry_toks_first e : entry_ok e -> exists p r, entry_toks e = p :: r /\ fst p <> EOF /\
  (is_desc e = false -> fst p <> DESCRIPTION).
Proof.
  destruct e as [f|ls]; cbn.
  - intros [Hlx Hnd]. destruct (frag_items_head f Hlx Hnd) as (p & r & Hh & Hk). exists p, r. split; [exact Hh|].
    destruct f as [h|a|d|t|t]; cbn in Hk; try contradiction.
    + destruct Hk as [-> | ->]; split; try discriminate; intros _; discriminate.
    + destruct Hk as [-> | ->]; split; try discriminate; intros _; discriminate.
    + subst p. cbn. destruct Hlx as [[-> | ->] _]; split; try discriminate; intros _; discriminate.
    + subst p. cbn. split; [discriminate|intros _; discriminate].
  - intros Hne. destruct ls as [|l [|l2 r]]; [congruence| |]; eexists _, _; (split; [reflexivity|]); cbn; split; try discriminate.
Qed.

Theorem walk_stream_back : forall es fuel s, stream_ok es -> pt s = stream es ->
  (length (wrest s) < fuel)%nat ->
  exists fs, walk_fragments_loop fuel true s = WalkOk fs [] /\
             (forall f d, In f fs -> fdoc_of f = DD d -> True) /\
             map (fun f => match f with FDesc d => DD (dvalue d) | _ => fdoc_of f end) fs = map (fun be => entry_doc (snd be)) es.
Proof.
  induction es as [|[b e] r IH]; intros fuel s Hok Hp Hf.
  - destruct fuel as [|f]; [lia|]. cbn [walk_fragments_loop]. cbn in Hp.
    assert (Hn : next_type s = EOF) by (rewrite next_type_pt, Hp; reflexivity).
    rewrite Hn. exists []. split; [reflexivity|]. split; [intros; exact I|reflexivity].
  - cbn [stream_ok] in Hok. destruct Hok as (He & Hnext & Hr). cbn [stream] in Hp.
    (* skip the blank line *)
    assert (Hskip : exists fuel1 s1, pt s1 = entry_toks e ++ eol_tok :: stream r /\ (length (wrest s1) < fuel1)%nat /\
                       walk_fragments_loop fuel true s = walk_fragments_loop fuel1 true s1).
    { destruct b; cbn [app] in Hp.
      - destruct fuel as [|f]; [lia|]. destruct (skip_eol_loop f true s _ Hp) as (s1 & Hp1 & E).
        exists f, s1. split; [exact Hp1|]. split; [|exact E].
        rewrite <- pt_length in *. rewrite Hp in Hf. rewrite Hp1. cbn [length] in Hf. lia.
      - exists fuel, s. auto. }
    destruct Hskip as (fuel1 & s1 & Hp1 & Hf1 & ->).
    destruct fuel1 as [|f1]; [lia|]. cbn [walk_fragments_loop].
    destruct (entry_toks_first e He) as (p & q & Hh & Hne & Hnd).
    assert (Hn : next_type s1 = fst p) by (rewrite next_type_pt, Hp1, Hh; reflexivity).
    rewrite Hn. replace (tt_eqb (fst p) EOF) with false by (symmetry; apply tt_eqb_false; exact Hne).
    (* the fragment, then its EOL *)
    assert (Hfrag : exists f s2, next_fragment s1 = WOk (Some f) s2 /\
                      (match f with FDesc d => DD (dvalue d) | _ => fdoc_of f end) = entry_doc e /\
                      (pt s2 = stream r \/ pt s2 = eol_tok :: stream r)).
    { destruct e as [f0|ls]; cbn [entry_toks entry_ok entry_doc] in *.
      - destruct He as [Hlx Hnd0]. destruct (next_fragment_back f0 s1 (stream r) Hlx Hnd0 Hp1) as (f & s2 & E & Hd & Hp2).
        exists f, s2. split; [exact E|]. split; [|exact Hp2].
        destruct f as [h|a|d|t|t]; exact Hd.
      - destruct (next_fragment_desc_back ls s1 (stream r) He Hp1) as (d & s2 & E & Hdv & Hp2).
        { destruct r as [|[b2 e2] r2]; [exact I|]. cbn [stream]. cbn [stream_ok] in Hr. destruct Hr as (He2 & _ & _).
          destruct b2; [cbn; discriminate|]. cbn [app].
          destruct (entry_toks_first e2 He2) as (p2 & q2 & Hh2 & _ & Hnd2). rewrite Hh2. cbn.
          apply Hnd2. destruct (is_desc e2) eqn:Ed; [|reflexivity]. specialize (Hnext eq_refl eq_refl). discriminate. }
        exists (FDesc d), s2. split; [exact E|]. split; [rewrite Hdv; reflexivity|right; exact Hp2]. }
    destruct Hfrag as (f & s2 & E & Hd & Hp2). rewrite E.
    assert (Hlen2 : (length (wrest s2) < f1)%nat).
    { rewrite <- pt_length in *. rewrite Hp1, Hh in Hf1. cbn [app length] in Hf1. rewrite app_length in Hf1. cbn [length] in Hf1.
      destruct Hp2 as [-> | ->]; cbn [length]; lia. }
    (* the EOL that ends the line, when the production did not consume it *)
    assert (Hrest : exists f2 s3, pt s3 = stream r /\ (length (wrest s3) < f2)%nat /\
                       walk_fragments_loop f1 true s2 = walk_fragments_loop f2 true s3).
    { destruct Hp2 as [Hp2|Hp2]; [exists f1, s2; auto|].
      destruct f1 as [|f2]; [lia|]. destruct (skip_eol_loop f2 true s2 _ Hp2) as (s3 & Hp3 & E3).
      exists f2, s3. split; [exact Hp3|]. split; [|exact E3].
      rewrite <- pt_length in *. rewrite Hp2 in Hlen2. rewrite Hp3. cbn [length] in Hlen2. lia. }
    destruct Hrest as (f2 & s3 & Hp3 & Hl3 & ->).
    destruct (IH f2 s3 Hr Hp3 Hl3) as (fs & Ew & _ & Hdocs). rewrite Ew.
    exists (f :: fs). split; [reflexivity|]. split; [intros; exact I|]. cbn [map snd]. rewrite Hd, Hdocs. reflexivity.
Qed.

(* ReflectCodecProofs.v — lemmas behind props/C18.v (part 6: the codec can build the property set of
   every reflected message type).
   newPropSet resolves the proto field path of every client property of the root in the message
   descriptor.  For a reflected set the origins (ReflectPathProofs.InvO) say where each property
   comes from: a direct property has the one-element path of a field of the message (or the empty
   path of an exposed oneof); the client properties of a flattened object field are the client
   properties of the target object, found in the field's message type, behind the field's number. *)
From Coq Require Import String List Arith NArith ZArith Bool Lia.
From J5V.lib Require Import Outcome.
From J5V.model Require Import ReflectDesc ReflectSchema Reflect ReflectSpec Export.
From J5V.proofs Require Import ReflectProofs ExportProofs ReflectInvProofs ReflectPathProofs ReflectFlattenProofs.
Import ListNotations.
Local Open Scope bool_scope.

Lemma kind_eqb_message k : kind_eqb k KMessage = true -> k = KMessage.
Proof. destruct k; intros H; try discriminate H; reflexivity. Qed.

Section Codec.
Variable D : desc.
Hypothesis Hwk : wf_keys D.
Hypothesis Hnum : forall m, In m (d_msgs D) -> NoDup (map f_num (m_fields m)).
Variable S : sset.
Hypothesis HO : InvO D S.
Hypothesis HI : Inv D S.
Hypothesis Hclosed : forall k r, lookup S k = Some (Linked r) ->
  forall k2, In k2 (root_refs r) -> exists r2, lookup S k2 = Some (Linked r2).

Definition refs_linked (s : fschema) : Prop := forall k, In k (field_refs s) -> exists r, lookup S k = Some (Linked r).
Lemma root_props_linked k r : lookup S k = Some (Linked r) -> forall p, In p (root_props r) -> refs_linked (p_schema p).
Proof. intros Hl p Hp k2 Hk2. apply (Hclosed k r Hl). unfold root_refs. eapply refs_of_prop_in; eauto. Qed.

(* a direct property: the empty path, or the number of one of the message's fields *)
Lemma member_field m p :
  In m (d_msgs D) -> member_from_b D m p = true ->
  exists f, p_path p = [f_num f] /\ field_by_number m (f_num f) = Some f /\ shape_b D (p_schema p) f false = true.
Proof.
  intros Hm H. unfold member_from_b in H. destruct (p_path p) as [|n [|n2 rest]]; try discriminate.
  apply existsb_exists in H as (f & Hf & Hc). apply andb_prop in Hc as [Hn Hs]. apply N.eqb_eq in Hn. subst n.
  exists f. split; [reflexivity|]. split; [apply (field_by_number_unique D Hnum m f Hm Hf)|exact Hs].
Qed.

(* where the field a client property resolves to comes from: a field of matching shape; or, for the
   property of an exposed oneof, nothing (at the top) or the flattened field whose message declares
   the oneof (below a flattened object) *)
Definition cp_ok (m : msgd) (q : prop) (fo : option field) : Prop :=
  match fo with
  | Some f => shape_b D (p_schema q) f false = true \/
              (exists k m2, p_schema q = FOneof k None None None /\ value_msg D f = Some m2 /\
                            In m2 (d_msgs D) /\ exposed_key_b m2 k = true)
  | None => exists k, p_schema q = FOneof k None None None /\ exposed_key_b m k = true
  end.

Lemma resolve_direct m p :
  In m (d_msgs D) -> prop_from_b D m p = true ->
  exists fo, resolve_path D (length (p_path p)) m (p_path p) = ROk fo /\ cp_ok m p fo /\
             (p_path p = [] <-> fo = None).
Proof.
  intros Hm H. unfold prop_from_b in H. destruct (p_path p) as [|n rest] eqn:Ep.
  - exists None. split; [reflexivity|]. split; [|split; reflexivity].
    unfold cp_ok. destruct (p_schema p) as [| | | |k [|] [|] [|]| |] eqn:Es; try discriminate. exists k. split; [reflexivity|exact H].
  - destruct (member_field m p Hm H) as (f & Hp & Hf & Hs). rewrite Ep in Hp. inversion Hp; subst.
    exists (Some f). cbn [length resolve_path]. rewrite Hf. split; [reflexivity|]. split; [left; exact Hs|].
    split; intros; discriminate.
Qed.

(* the path of a client property found behind a flattened singular message field *)
Lemma resolve_behind m f full m2 cp fo :
  field_by_number m (f_num f) = Some f ->
  match f_card f with CRepeated | CMap _ => False | _ => True end ->
  f_kind f = KMessage -> f_ty f = TMsg full -> find_msg D full = Some m2 ->
  resolve_path D (length cp) m2 cp = ROk fo ->
  resolve_path D (length (f_num f :: cp)) m (f_num f :: cp) = ROk (match cp with [] => Some f | _ => fo end).
Proof.
  intros Hf Hc Hk Ht Hm2 Hr. cbn [length resolve_path]. rewrite Hf.
  destruct cp as [|n2 r2]; [reflexivity|].
  rewrite Hk, Ht, Hm2. destruct (f_card f); try contradiction; exact Hr.
Qed.

(* the root under the key of a non-wrapper message has properties from that message *)
Lemma object_props_from m2 a b c d0 cps :
  In m2 (d_msgs D) -> lookup S (msg_key m2) = Some (Linked (RObject a b c d0 cps)) ->
  forallb (prop_from_b D m2) cps = true.
Proof.
  intros Hm Hl. pose proof (HO _ _ Hl) as Ho. unfold origin_b in Ho.
  apply orb_true_iff in Ho as [Ho|Ho]; [apply orb_true_iff in Ho as [Ho|Ho]|].
  - apply existsb_exists in Ho as (m' & Hm' & Hc). apply andb_prop in Hc as [Hc Hall].
    apply andb_prop in Hc as [Hc _]. apply andb_prop in Hc as [H1 _]. apply ref_eqb_eq in H1.
    assert (m' = m2) by (apply (K1 D Hwk); assumption). subst m'. exact Hall.
  - apply existsb_exists in Ho as (m' & Hm' & Hc). apply andb_prop in Hc as [Hc _]. apply andb_prop in Hc as [_ Hc]. discriminate.
  - apply existsb_exists in Ho as (e & He & Hc). apply andb_prop in Hc as [_ Hc]. discriminate.
Qed.

Lemma client_resolves : forall fuel ps m out,
  In m (d_msgs D) -> forallb (prop_from_b D m) ps = true ->
  (forall p, In p ps -> refs_linked (p_schema p)) ->
  client_props fuel S ps = Ok out ->
  forall q, In q out -> exists fo, resolve_path D (length (p_path q)) m (p_path q) = ROk fo /\ cp_ok m q fo /\
                                   (p_path q = [] <-> fo = None) /\ refs_linked (p_schema q).
Proof.
  induction fuel as [|fuel IH]; intros ps m out Hm Hall Hrefs H; [discriminate|].
  revert out H. induction ps as [|p r IHps]; intros out H q Hq.
  - inversion H; subst. destruct Hq.
  - cbn [forallb] in Hall. apply andb_prop in Hall as [Hp Hr]. rewrite client_props_cons in H.
    assert (Hrefs' : forall p0, In p0 r -> refs_linked (p_schema p0)) by (intros p0 H0; apply Hrefs; right; exact H0).
    assert (Hplain : obind (client_props (Datatypes.S fuel) S r) (fun rest => Ok (p :: rest)) = Ok out ->
                     exists fo, resolve_path D (length (p_path q)) m (p_path q) = ROk fo /\ cp_ok m q fo /\
                                (p_path q = [] <-> fo = None) /\ refs_linked (p_schema q)).
    { intros H'. destruct (client_props (Datatypes.S fuel) S r) as [rest| | |] eqn:Er; cbn [obind] in H'; try discriminate.
      inversion H'; subst out. destruct Hq as [<-|Hq].
      - destruct (resolve_direct m p Hm Hp) as (fo & A & B & C). exists fo. repeat split; try assumption; try apply C.
        apply Hrefs. left. reflexivity.
      - apply (IHps Hr Hrefs' rest eq_refl q Hq). }
    destruct p as [j path rq eo d s].
    destruct s as [kw sp|od ts lr|k rules lr ext|k fl rules ext|k rules lr ext|it rules ext|it rules ext]; try (apply Hplain; exact H).
    destruct fl; [|apply Hplain; exact H].
    (* a flattened object field *)
    destruct (lookup S k) as [[|[a b c d0 cps| |]]|] eqn:El; try discriminate.
    destruct (client_props fuel S cps) as [children| | |] eqn:Ec; cbn [obind] in H; try discriminate.
    destruct (client_props (Datatypes.S fuel) S r) as [rest| | |] eqn:Er; cbn [obind] in H; try discriminate.
    inversion H; subst out. apply in_app_or in Hq as [Hq|Hq]; [|apply (IHps Hr Hrefs' rest eq_refl q Hq)].
    apply in_map_iff in Hq as ([j' cp rq' eo' d' s'] & <- & Hc). cbn [p_path p_schema].
    assert (Hmem : member_from_b D m (Prop_ j path rq eo d (FObject k true rules ext)) = true).
    { unfold prop_from_b in Hp. cbn [p_path p_schema] in Hp. destruct path; [discriminate|exact Hp]. }
    destruct (member_field m _ Hm Hmem) as (f & Hpath & Hf & Hs). cbn [p_path p_schema] in Hpath, Hs. subst path.
    cbn [shape_b] in Hs. apply andb_prop in Hs as [Hcard Hs]. apply andb_prop in Hs as [Hkt Hs].
    apply andb_prop in Hkt as [Hk Ht]. apply kind_eqb_message in Hk.
    unfold is_tmsg in Ht. destruct (f_ty f) as [|full|full] eqn:Ety; try discriminate.
    assert (Hv : value_full f = full) by (unfold value_full; rewrite Ety; reflexivity). rewrite Hv in Hs.
    destruct (find_msg D full) as [m2|] eqn:Ef; [|discriminate].
    apply andb_prop in Hs as [H1 _]. apply ref_eqb_eq in H1. subst k.
    assert (Hm2 : In m2 (d_msgs D)) by (eapply find_msg_In; eauto).
    pose proof (object_props_from m2 a b c d0 cps Hm2 El) as Hfrom.
    assert (Hrefs2 : forall p0, In p0 cps -> refs_linked (p_schema p0)) by (apply (root_props_linked _ _ El)).
    destruct (IH cps m2 children Hm2 Hfrom Hrefs2 Ec _ Hc) as (fo & Hres & Hok & Hnil & Hrl). cbn [p_path p_schema] in Hres, Hok, Hnil, Hrl.
    assert (Hcard' : match f_card f with CRepeated | CMap _ => False | _ => True end)
      by (cbn [orb] in Hcard; destruct (f_card f); try discriminate; exact I).
    exists (match cp with [] => Some f | _ => fo end). cbn [app].
    split; [eapply resolve_behind; eauto|]. split.
    + destruct cp as [|n2 r2].
      * (* the property of an oneof exposed by the flattened message *)
        assert (fo = None) by (apply Hnil; reflexivity). subst fo. destruct Hok as (k & Hsk & Hek).
        right. exists k, m2. split; [exact Hsk|]. split; [unfold value_msg; rewrite Ety; exact Ef|]. split; assumption.
      * destruct fo as [f2|]; [exact Hok|]. exfalso. assert (n2 :: r2 = []) by (apply Hnil; reflexivity). discriminate.
    + split; [|exact Hrl]. split; [intros; discriminate|]. destruct cp; [intros; discriminate|].
      intros ->. assert (n :: cp = []) by (apply Hnil; reflexivity). discriminate.
Qed.

Lemma go_resolves m : forall ps,
  (forall q, In q ps -> exists fo, resolve_path D (length (p_path q)) m (p_path q) = ROk fo) ->
  exists l, (fix go (ps : list prop) : outcome (list (prop * option field)) :=
               match ps with
               | [] => Ok []
               | p :: rest =>
                   obind (lift (resolve_path D (length (p_path p)) m (p_path p))) (fun f =>
                   obind (go rest) (fun l => Ok ((p, f) :: l)))
               end) ps = Ok l.
Proof.
  induction ps as [|p r IH]; intros H; [eauto|].
  destruct (H p (or_introl eq_refl)) as (fo & Hr). destruct IH as (l & Hl); [intros q Hq; apply H; right; exact Hq|].
  rewrite Hr. cbn [lift obind]. rewrite Hl. cbn [obind]. eauto.
Qed.

(* newPropSet succeeds on the root of every message and on every exposed oneof of it *)
Theorem prop_set_builds m r :
  In m (d_msgs D) -> lookup S (msg_key m) = Some (Linked r) ->
  (forall k0 r0, lookup S k0 = Some (Linked r0) -> exists out, client_props_of S r0 = Ok out) ->
  exists pfs, new_prop_set D S r m = Ok pfs.
Proof.
  intros Hm Hl Hcp. destruct (Hcp _ _ Hl) as (out & Hout). unfold new_prop_set. rewrite Hout. cbn [obind].
  apply go_resolves. intros q Hq.
  cut (exists fo, resolve_path D (length (p_path q)) m (p_path q) = ROk fo /\ cp_ok m q fo /\ (p_path q = [] <-> fo = None) /\ refs_linked (p_schema q));
    [intros (fo & Hfo & _); eauto|].
  pose proof (HO _ _ Hl) as Ho. unfold origin_b in Ho.
  assert (Hfrom : forallb (prop_from_b D m) (root_props r) = true).
  { apply orb_true_iff in Ho as [Ho|Ho]; [apply orb_true_iff in Ho as [Ho|Ho]|].
    - apply existsb_exists in Ho as (m' & Hm' & Hc). apply andb_prop in Hc as [Hc Hall].
      apply andb_prop in Hc as [Hc _]. apply andb_prop in Hc as [H1 _]. apply ref_eqb_eq in H1.
      assert (m' = m) by (apply (K1 D Hwk); assumption). subst m'. exact Hall.
    - apply existsb_exists in Ho as (m' & Hm' & Hc). apply andb_prop in Hc as [Hc _]. apply andb_prop in Hc as [H1 _].
      exfalso. exact (K2 D Hwk m m' Hm Hm' H1).
    - apply existsb_exists in Ho as (e & He & Hc). apply andb_prop in Hc as [H1 _]. apply ref_eqb_eq in H1.
      exfalso. exact (K3 D Hwk m e Hm He H1). }
  destruct r as [a b c d0 ps|a b ps|a b c d0 e]; cbn [client_props_of root_props] in *.
  - eapply client_resolves; eauto. apply (root_props_linked _ _ Hl).
  - inversion Hout; subst out.
    destruct (resolve_direct m q Hm (proj1 (forallb_forall _ _) Hfrom q Hq)) as (fo & A & B & C).
    exists fo. repeat split; try assumption; try apply C. apply (root_props_linked _ _ Hl). exact Hq.
  - inversion Hout; subst out. destruct Hq.
Qed.

(* ---------------------------------------------------------------- buildProperty on the supported subset *)
(* factory_b / supported_b: model/ReflectSpec.v *)
Hypothesis Hcp : forall k0 r0, lookup S k0 = Some (Linked r0) -> exists out, client_props_of S r0 = Ok out.

Lemma leaf_ok s f item :
  shape_b D s f item = true -> refs_linked s -> mutable s = false -> leaf_factory S s f = Ok tt.
Proof.
  intros Hs Hrl Hmut. destruct s as [kw sp|od ts lr|k rules lr ext|k fl rules ext|k rules lr ext|it rules ext|it rules ext];
    try discriminate Hmut; cbn [shape_b leaf_factory] in *.
  - apply andb_prop in Hs as [_ Hs]. destruct kw as [[k wkt]|]; [|discriminate].
    destruct wkt as [|c w]; [rewrite Hs; reflexivity|].
    apply andb_prop in Hs as [H1 H2]. rewrite H1, H2. reflexivity.
  - apply andb_prop in Hs as [_ Hs]. apply andb_prop in Hs as [H1 H2]. rewrite H1.
    destruct (find_enum D (value_full f)) as [e|] eqn:Ef; [|discriminate]. apply ref_eqb_eq in H2. subst k.
    assert (He : In e (d_enums D)) by (eapply find_enum_In; eauto).
    destruct (Hrl (enum_key e) (or_introl eq_refl)) as (r' & Hl).
    pose proof (HI e He) as Hen. unfold enum_entry_ok in Hen. rewrite Hl in *. destruct r'; try contradiction. reflexivity.
Qed.

Lemma msg_ok s f item :
  shape_b D s f item = true -> refs_linked s ->
  match s with FObject _ _ _ _ | FOneof _ _ _ _ | FAny _ _ _ => True | _ => False end ->
  message_factory D S s f = Ok tt.
Proof.
  intros Hs Hrl Hkind. destruct s as [kw sp|od ts lr|k rules lr ext|k fl rules ext|k rules lr ext|it rules ext|it rules ext];
    try contradiction; cbn [shape_b message_factory] in *.
  - apply andb_prop in Hs as [_ Hs]. apply andb_prop in Hs as [_ Hs]. rewrite Hs. reflexivity.
  - apply andb_prop in Hs as [_ Hs]. apply andb_prop in Hs as [Hkt Hs]. apply andb_prop in Hkt as [_ Ht].
    unfold is_tmsg in Ht. destruct (f_ty f) as [|full|full] eqn:Ety; try discriminate.
    assert (Hv : value_full f = full) by (unfold value_full; rewrite Ety; reflexivity). rewrite Hv in Hs.
    destruct (find_msg D full) as [m2|] eqn:Ef; [|discriminate].
    apply andb_prop in Hs as [H1 H2]. apply ref_eqb_eq in H1. subst k. apply negb_true_iff in H2.
    assert (Hm2 : In m2 (d_msgs D)) by (eapply find_msg_In; eauto).
    destruct (Hrl (msg_key m2) (or_introl eq_refl)) as (r' & Hl). rewrite Hl.
    destruct (msg_entry_kind D Hwk S HO m2 r' Hm2 Hl) as [E1 E2]. rewrite H2 in E2.
    destruct r' as [a b c d0 ps| |]; try discriminate.
    unfold value_msg. rewrite Ety, Ef.
    destruct (prop_set_builds m2 _ Hm2 Hl Hcp) as (pfs & Hp). rewrite Hp. reflexivity.
  - apply andb_prop in Hs as [_ Hs]. apply andb_prop in Hs as [Hkt Hs]. apply andb_prop in Hkt as [_ Ht].
    unfold is_tmsg in Ht. destruct (f_ty f) as [|full|full] eqn:Ety; try discriminate.
    assert (Hv : value_full f = full) by (unfold value_full; rewrite Ety; reflexivity). rewrite Hv in Hs.
    destruct (find_msg D full) as [m2|] eqn:Ef; [|discriminate].
    apply andb_prop in Hs as [H1 H2]. apply ref_eqb_eq in H1. subst k.
    assert (Hm2 : In m2 (d_msgs D)) by (eapply find_msg_In; eauto).
    destruct (Hrl (msg_key m2) (or_introl eq_refl)) as (r' & Hl). rewrite Hl.
    destruct (msg_entry_kind D Hwk S HO m2 r' Hm2 Hl) as [E1 E2]. rewrite H2 in E2.
    destruct r' as [|a b ps|]; try discriminate.
    unfold value_msg. rewrite Ety, Ef.
    destruct (prop_set_builds m2 _ Hm2 Hl Hcp) as (pfs & Hp). rewrite Hp. reflexivity.
Qed.

Lemma item_property_ok it f :
  shape_b D it f true = true -> refs_linked it -> item_ok it = true ->
  (if mutable it
   then obind (message_factory D S it f) (fun _ => match it with FObject _ _ _ _ | FOneof _ _ _ _ => Ok tt | _ => Err "unsupported array item schema" end)
   else obind (leaf_factory S it f) (fun _ => Ok tt)) = Ok tt /\
  (if mutable it
   then obind (message_factory D S it f) (fun _ => match it with FObject _ _ _ _ | FOneof _ _ _ _ => Ok tt | _ => Err "unsupported map item schema" end)
   else obind (leaf_factory S it f) (fun _ => Ok tt)) = Ok tt.
Proof.
  intros Hs Hrl Hok.
  destruct it as [kw sp|od ts lr|k rules lr ext|k fl rules ext|k rules lr ext|it2 rules ext|it2 rules ext]; try discriminate Hok; cbn [mutable].
  - rewrite (leaf_ok _ f true Hs Hrl eq_refl). split; reflexivity.
  - rewrite (leaf_ok _ f true Hs Hrl eq_refl). split; reflexivity.
  - rewrite (msg_ok _ f true Hs Hrl I). split; reflexivity.
  - rewrite (msg_ok _ f true Hs Hrl I). split; reflexivity.
Qed.

Lemma build_property_shape p f :
  shape_b D (p_schema p) f false = true -> refs_linked (p_schema p) -> factory_b (p_schema p) f = true ->
  build_property D S p f = Ok tt.
Proof.
  intros Hs Hrl Hsup. unfold build_property.
  destruct (p_schema p) as [kw sp|od ts lr|k rules lr ext|k fl rules ext|k rules lr ext|it rules ext|it rules ext] eqn:Es.
  - cbn [mutable]. eapply leaf_ok; eauto.
  - cbn [mutable]. eapply msg_ok; eauto; try exact I.
  - cbn [mutable]. eapply leaf_ok; eauto.
  - cbn [mutable]. eapply msg_ok; eauto; try exact I.
  - cbn [mutable]. eapply msg_ok; eauto; try exact I.
  - (* map *)
    cbn [factory_b] in Hsup. apply andb_prop in Hsup as [Hc Hit]. cbn [shape_b] in Hs.
    destruct (f_card f) as [| | |kk]; try discriminate Hc.
    apply (proj2 (item_property_ok it f Hs Hrl Hit)).
  - (* array *)
    cbn [factory_b] in Hsup. cbn [shape_b] in Hs. apply andb_prop in Hs as [Hc Hs]. apply andb_prop in Hc as [_ Hc].
    destruct (f_card f) as [| | |kk]; try discriminate Hc.
    apply (proj1 (item_property_ok it f Hs Hrl Hsup)).
Qed.

(* the root of an exposed oneof of m: a oneof whose members are fields of m *)
Lemma exposed_root m k r' :
  In m (d_msgs D) -> exposed_key_b m k = true -> lookup S k = Some (Linked r') ->
  exists n d ops, r' = ROneof n d ops /\ forallb (member_from_b D m) ops = true.
Proof.
  intros Hm Hk Hl. pose proof (HO _ _ Hl) as Ho. unfold origin_b in Ho.
  apply orb_true_iff in Ho as [Ho|Ho]; [apply orb_true_iff in Ho as [Ho|Ho]|].
  - apply existsb_exists in Ho as (m1 & Hm1 & Hc).
    apply andb_prop in Hc as [Hc _]. apply andb_prop in Hc as [Hc _]. apply andb_prop in Hc as [H1 _].
    apply ref_eqb_eq in H1. subst k. exfalso. exact (K2 D Hwk m1 m Hm1 Hm Hk).
  - apply existsb_exists in Ho as (m2 & Hm2 & Hc).
    apply andb_prop in Hc as [Hc H3]. apply andb_prop in Hc as [H1 H2].
    assert (m2 = m) by (eapply (K4 D Hwk); eauto). subst m2.
    destruct r' as [|n d ops|]; try discriminate. cbn [root_props] in H3. eauto.
  - apply existsb_exists in Ho as (e & He & Hc). apply andb_prop in Hc as [H1 _]. apply ref_eqb_eq in H1. subst k.
    exfalso. exact (K5 D Hwk e m He Hm Hk).
Qed.

Definition resolve_all (m : msgd) : list prop -> outcome (list (prop * option field)) :=
  fix go (ps : list prop) : outcome (list (prop * option field)) :=
    match ps with
    | [] => Ok []
    | p :: rest =>
        obind (lift (resolve_path D (length (p_path p)) m (p_path p))) (fun f =>
        obind (go rest) (fun l => Ok ((p, f) :: l)))
    end.

Lemma new_prop_set_unfold r m : new_prop_set D S r m = obind (client_props_of S r) (resolve_all m).
Proof. reflexivity. Qed.

Lemma resolve_all_spec m : forall ps l, resolve_all m ps = Ok l ->
  forall p fo, In (p, fo) l -> In p ps /\ resolve_path D (length (p_path p)) m (p_path p) = ROk fo.
Proof.
  induction ps as [|p r IH]; intros l H q fo Hin; cbn [resolve_all] in H.
  - inversion H; subst. destruct Hin.
  - destruct (resolve_path D (length (p_path p)) m (p_path p)) as [f0|c] eqn:Er; cbn [lift obind] in H; [|discriminate].
    fold (resolve_all m r) in H. destruct (resolve_all m r) as [l0| | |] eqn:El; cbn [obind] in H; try discriminate.
    inversion H; subst l. destruct Hin as [Hin|Hin].
    + inversion Hin; subst. split; [left; reflexivity|exact Er].
    + destruct (IH l0 eq_refl q fo Hin) as [A B]. split; [right; exact A|exact B].
Qed.

(* the property set of an exposed oneof, built on the message that declares it *)
Lemma oneof_members_ok m n d ops :
  In m (d_msgs D) -> forallb (member_from_b D m) ops = true ->
  (forall p, In p ops -> refs_linked (p_schema p)) ->
  exists opfs, new_prop_set D S (ROneof n d ops) m = Ok opfs /\
    forall p2 fo2, In (p2, fo2) opfs ->
      exists f2, fo2 = Some f2 /\ shape_b D (p_schema p2) f2 false = true /\ refs_linked (p_schema p2).
Proof.
  intros Hm Hall Hrefs. rewrite new_prop_set_unfold. cbn [client_props_of obind].
  destruct (go_resolves m ops) as (l & Hl).
  { intros q Hq. pose proof (proj1 (forallb_forall _ _) Hall q Hq) as Hmem.
    destruct (member_field m q Hm Hmem) as (f & Hp & Hf & _). rewrite Hp. exists (Some f).
    cbn [length resolve_path]. rewrite Hf. reflexivity. }
  exists l. split; [exact Hl|]. intros p2 fo2 Hin.
  destruct (resolve_all_spec m ops l Hl p2 fo2 Hin) as [Hp2 Hres].
  pose proof (proj1 (forallb_forall _ _) Hall p2 Hp2) as Hmem.
  destruct (member_field m p2 Hm Hmem) as (f & Hp & Hf & Hs). rewrite Hp in Hres.
  cbn [length resolve_path] in Hres. rewrite Hf in Hres. inversion Hres; subst fo2.
  exists f. split; [reflexivity|]. split; [exact Hs|apply Hrefs; exact Hp2].
Qed.

Lemma cls_ok {A} (x : A) : cls (Ok x) = 0%N.
Proof. reflexivity. Qed.

Lemma last_named_in pfs : forall pf, In pf pfs -> In (last_named pfs pf) pfs.
Proof.
  intros pf Hin. unfold last_named.
  assert (G : forall l acc, (In acc pfs) -> (forall q, In q l -> In q pfs) ->
            In (fold_left (fun acc q => if str_eqb (p_json (fst q)) (p_json (fst pf)) then q else acc) l acc) pfs).
  { induction l as [|q r IH]; intros acc Ha Hl; cbn [fold_left]; [exact Ha|].
    apply IH; [|intros q0 H0; apply Hl; right; exact H0].
    destruct (str_eqb _ _); [apply Hl; left; reflexivity|exact Ha]. }
  apply G; [exact Hin|intros q Hq; exact Hq].
Qed.

Lemma fold_worst_zero {A} (f : A -> N) l : (forall x, In x l -> f x = 0%N) ->
  fold_right (fun x acc => worst acc (f x)) 0%N l = 0%N.
Proof.
  induction l as [|x r IH]; intros H; cbn [fold_right]; [reflexivity|].
  rewrite IH by (intros y Hy; apply H; right; exact Hy). rewrite (H x (or_introl eq_refl)). reflexivity.
Qed.

(* C18, last clause, for a message all of whose client properties the codec has a factory for *)
Theorem codec_usable_sw sw m r pfs :
  In m (d_msgs D) -> lookup S (msg_key m) = Some (Linked r) ->
  new_prop_set D S r m = Ok pfs ->
  (forall q f, In (q, Some f) pfs -> supported_b (p_schema q) f = true) ->
  (forall q k n d ops opfs p2 f2, In (q, None) pfs -> p_schema q = FOneof k None None None ->
     lookup S k = Some (Linked (ROneof n d ops)) -> new_prop_set D S (ROneof n d ops) m = Ok opfs ->
     In (p2, Some f2) opfs -> supported_b (p_schema p2) f2 = true) ->
  codec_classes_sw D sw S m r = (0%N, 0%N).
Proof.
  intros Hm Hl Hnp Hsup1 Hsup2. unfold codec_classes_sw. rewrite Hnp. f_equal.
  apply (fold_worst_zero (fun pf => prop_class_sw D sw S m (last_named pfs pf))). intros pf0 Hpf0.
  pose proof (last_named_in pfs pf0 Hpf0) as Hin. destruct (last_named pfs pf0) as [q fo]. clear pf0 Hpf0.
  (* where (q, fo) comes from *)
  rewrite new_prop_set_unfold in Hnp. destruct (Hcp _ _ Hl) as (out & Hout). rewrite Hout in Hnp. cbn [obind] in Hnp.
  destruct (resolve_all_spec m out pfs Hnp q fo Hin) as [Hq Hres].
  assert (Hcls : exists fo', resolve_path D (length (p_path q)) m (p_path q) = ROk fo' /\ cp_ok m q fo' /\
                            (p_path q = [] <-> fo' = None) /\ refs_linked (p_schema q)).
  { pose proof (HO _ _ Hl) as Ho. unfold origin_b in Ho.
    assert (Hfrom : forallb (prop_from_b D m) (root_props r) = true).
    { apply orb_true_iff in Ho as [Ho|Ho]; [apply orb_true_iff in Ho as [Ho|Ho]|].
      - apply existsb_exists in Ho as (m' & Hm' & Hc). apply andb_prop in Hc as [Hc Hall].
        apply andb_prop in Hc as [Hc _]. apply andb_prop in Hc as [H1 _]. apply ref_eqb_eq in H1.
        assert (m' = m) by (apply (K1 D Hwk); assumption). subst m'. exact Hall.
      - apply existsb_exists in Ho as (m' & Hm' & Hc). apply andb_prop in Hc as [Hc _]. apply andb_prop in Hc as [H1 _].
        exfalso. exact (K2 D Hwk m m' Hm Hm' H1).
      - apply existsb_exists in Ho as (e & He & Hc). apply andb_prop in Hc as [H1 _]. apply ref_eqb_eq in H1.
        exfalso. exact (K3 D Hwk m e Hm He H1). }
    destruct r as [a b c d0 ps|a b ps|a b c d0 e]; cbn [client_props_of root_props] in *.
    - eapply client_resolves; eauto. apply (root_props_linked _ _ Hl).
    - inversion Hout; subst out.
      destruct (resolve_direct m q Hm (proj1 (forallb_forall _ _) Hfrom q Hq)) as (fo1 & A & B & C).
      exists fo1. repeat split; try assumption; try apply C. apply (root_props_linked _ _ Hl). exact Hq.
    - inversion Hout; subst out. destruct Hq. }
  destruct Hcls as (fo' & Hres' & Hok & _ & Hrl). rewrite Hres in Hres'. inversion Hres'; subst fo'. clear Hres'.
  unfold prop_class_sw. destruct fo as [f|].
  - destruct Hok as [Hs|(k & m2 & Hsk & Hvm & Hm2 & Hek)].
    + rewrite (build_property_shape q f Hs Hrl (proj1 (andb_prop _ _ (Hsup1 q f Hin)))). reflexivity.
    + (* the property of an oneof exposed by a flattened message *)
      unfold build_property. rewrite Hsk. cbn [mutable message_factory].
      destruct (Hrl k) as (r' & Hlk); [rewrite Hsk; left; reflexivity|]. rewrite Hlk.
      destruct (exposed_root m2 k r' Hm2 Hek Hlk) as (n & d & ops & -> & Hmem). rewrite Hvm.
      destruct (oneof_members_ok m2 n d ops Hm2 Hmem (root_props_linked _ _ Hlk)) as (opfs & Ho & _).
      rewrite Ho. reflexivity.
  - destruct Hok as (k & Hsk & Hek). rewrite Hsk.
    destruct (Hrl k) as (r' & Hlk); [rewrite Hsk; left; reflexivity|]. rewrite Hlk.
    destruct (exposed_root m k r' Hm Hek Hlk) as (n & d & ops & -> & Hmem).
    destruct (oneof_members_ok m n d ops Hm Hmem (root_props_linked _ _ Hlk)) as (opfs & Ho & Hshape).
    rewrite Ho.
    apply (fold_worst_zero (fun q2 : prop * option field =>
             match q2 with
             | (p2, Some f2) => let c := cls (build_property D S p2 f2) in if sw && N.eqb c 1 then 0%N else c
             | (_, None) => 0%N
             end)).
    intros [p2 fo2] Hin2. destruct (Hshape p2 fo2 Hin2) as (f2 & -> & Hs2 & Hrl2).
    rewrite (build_property_shape p2 f2 Hs2 Hrl2 (proj1 (andb_prop _ _ (Hsup2 q k n d ops opfs p2 f2 Hin Hsk Hlk Ho Hin2)))). cbn. rewrite andb_false_r. reflexivity.
Qed.

End Codec.

(* C18, last clause, first half, for every descriptor set with distinct split names and distinct
   field numbers: after a successful reflection the codec can build the property set (newPropSet:
   every client property's proto path resolves) of every reflected message type, so an empty message
   of every reflected type can be encoded and decoded *)
Lemma reflect_closed D fs S :
  wf_keys D -> reflect D fs = Ok S ->
  forall k r, lookup S k = Some (Linked r) -> forall k2, In k2 (root_refs r) -> exists r2, lookup S k2 = Some (Linked r2).
Proof.
  intros Hwk HS k1 r1 Hl1 k2 Hk2.
  destruct (reflect_ok_guarantees D Hwk fs S HS) as (_ & _ & Hcl & _ & _). unfold set_closed, refs_resolved in Hcl.
  pose proof (proj1 (forallb_forall _ _) Hcl (k1, Linked r1) (lookup_Some_In S k1 _ Hl1)) as H. cbn [snd] in H.
  pose proof (proj1 (forallb_forall _ _) H k2 Hk2) as H2. cbn beta in H2.
  destruct (lookup S k2) as [[|r2]|]; try discriminate. eauto.
Qed.

Theorem reflect_prop_sets_build D fs S :
  wf_keys D -> (forall m, In m (d_msgs D) -> NoDup (map f_num (m_fields m))) ->
  reflect D fs = Ok S ->
  forall m r, In m (d_msgs D) -> lookup S (msg_key m) = Some (Linked r) ->
  exists pfs, new_prop_set D S r m = Ok pfs.
Proof.
  intros Hwk Hnum HS m r Hm Hl.
  apply (prop_set_builds D Hwk Hnum S (reflect_origin D fs S HS) (reflect_closed D fs S Hwk HS) m r Hm Hl).
  intros k0 r0 Hl0. exact (reflect_client_props_terminate D fs S Hwk HS k0 r0 Hl0).
Qed.

(* C18, last clause: for every descriptor set with distinct split names and distinct field numbers,
   after a successful reflection, every message type whose client properties are all of kinds the
   codec has a factory for (no array / map of any-typed values, no google.protobuf.Struct) has codec
   classes (0, 0): the property set builds and every property, with its value set, builds *)
Theorem reflect_codec_usable D fs S :
  wf_keys D -> (forall m, In m (d_msgs D) -> NoDup (map f_num (m_fields m))) ->
  reflect D fs = Ok S ->
  forall m r pfs, In m (d_msgs D) -> lookup S (msg_key m) = Some (Linked r) ->
  new_prop_set D S r m = Ok pfs ->
  (forall q f, In (q, Some f) pfs -> supported_b (p_schema q) f = true) ->
  (forall q k n d ops opfs p2 f2, In (q, None) pfs -> p_schema q = FOneof k None None None ->
     lookup S k = Some (Linked (ROneof n d ops)) -> new_prop_set D S (ROneof n d ops) m = Ok opfs ->
     In (p2, Some f2) opfs -> supported_b (p_schema p2) f2 = true) ->
  codec_classes D S m r = (0%N, 0%N) /\ codec_classes_strict D S m r = (0%N, 0%N).
Proof.
  intros Hwk Hnum HS m r pfs Hm Hl Hnp H1 H2.
  pose proof (reflect_final D Hwk fs) as Hfin. rewrite HS in Hfin. destruct Hfin as [(HI & _ & _) _].
  split; [apply (codec_usable_sw D Hwk Hnum S (reflect_origin D fs S HS) HI (reflect_closed D fs S Hwk HS)
           (fun k0 r0 Hl0 => reflect_client_props_terminate D fs S Hwk HS k0 r0 Hl0) true m r pfs Hm Hl Hnp H1 H2)
         |apply (codec_usable_sw D Hwk Hnum S (reflect_origin D fs S HS) HI (reflect_closed D fs S Hwk HS)
           (fun k0 r0 Hl0 => reflect_client_props_terminate D fs S Hwk HS k0 r0 Hl0) false m r pfs Hm Hl Hnp H1 H2)].
Qed.

(* every clause of C18 at once, for descriptor sets satisfying wf_paths *)
Theorem reflect_full_on_supported D fs :
  wf_paths D ->
  (forall s, reflect D fs <> Panic s) /\ reflect D fs <> OutOfFuel /\
  forall S, reflect D fs = Ok S ->
    set_consistent D S = true /\
    forall m r, In m (d_msgs D) -> lookup S (msg_key m) = Some (Linked r) ->
      exists pfs, new_prop_set D S r m = Ok pfs /\
        ((forall q f, In (q, Some f) pfs -> supported_b (p_schema q) f = true) ->
         (forall q k n d ops opfs p2 f2, In (q, None) pfs -> p_schema q = FOneof k None None None ->
            lookup S k = Some (Linked (ROneof n d ops)) -> new_prop_set D S (ROneof n d ops) m = Ok opfs ->
            In (p2, Some f2) opfs -> supported_b (p_schema p2) f2 = true) ->
         codec_classes D S m r = (0%N, 0%N) /\ codec_classes_strict D S m r = (0%N, 0%N)).
Proof.
  intros Hwp. pose proof Hwp as [Hwk Hnum].
  destruct (reflect_total D (wf_desc_total D Hwk) fs) as [Hp Hf].
  split; [exact Hp|]. split; [exact Hf|]. intros S HS.
  split; [apply (reflect_consistent D fs S Hwp HS)|].
  intros m r Hm Hl. destruct (reflect_prop_sets_build D fs S Hwk Hnum HS m r Hm Hl) as (pfs & Hnp).
  exists pfs. split; [exact Hnp|]. intros H1 H2.
  apply (reflect_codec_usable D fs S Hwk Hnum HS m r pfs Hm Hl Hnp H1 H2).
Qed.

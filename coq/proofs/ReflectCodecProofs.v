(* ReflectCodecProofs.v — lemmas behind props/C18.v (part 6: the codec can build the property set of
   every reflected message type).
   newPropSet resolves the proto field path of every client property of the root in the message
   descriptor.  For a reflected set the origins (ReflectPathProofs.InvO) say where each property
   comes from: a direct property has the one-element path of a field of the message (or the empty
   path of an exposed oneof); the client properties of a flattened object field are the client
   properties of the target object, found in the field's message type, behind the field's number. *)
From Coq Require Import String List Arith NArith ZArith Bool Lia.
From J5V.lib Require Import Outcome.
From J5V.model Require Import ReflectDesc ReflectSchema Reflect ReflectSpec Export.
From J5V.proofs Require Import ReflectProofs ExportProofs ReflectInvProofs ReflectPathProofs ReflectFlattenProofs.
Import ListNotations.
Local Open Scope bool_scope.

Lemma kind_eqb_message k : kind_eqb k KMessage = true -> k = KMessage.
Proof. destruct k; intros H; try discriminate H; reflexivity. Qed.

Section Codec.
Variable D : desc.
Hypothesis Hwk : wf_keys D.
Hypothesis Hnum : forall m, In m (d_msgs D) -> NoDup (map f_num (m_fields m)).
Variable S : sset.
Hypothesis HO : InvO D S.

(* a direct property: the empty path, or the number of one of the message's fields *)
Lemma member_field m p :
  In m (d_msgs D) -> member_from_b D m p = true ->
  exists f, p_path p = [f_num f] /\ field_by_number m (f_num f) = Some f /\ shape_b D (p_schema p) f false = true.
Proof.
  intros Hm H. unfold member_from_b in H. destruct (p_path p) as [|n [|n2 rest]]; try discriminate.
  apply existsb_exists in H as (f & Hf & Hc). apply andb_prop in Hc as [Hn Hs]. apply N.eqb_eq in Hn. subst n.
  exists f. split; [reflexivity|]. split; [apply (field_by_number_unique D Hnum m f Hm Hf)|exact Hs].
Qed.

Lemma resolve_direct m p :
  In m (d_msgs D) -> prop_from_b D m p = true ->
  exists fo, resolve_path D (length (p_path p)) m (p_path p) = ROk fo.
Proof.
  intros Hm H. unfold prop_from_b in H. destruct (p_path p) as [|n rest] eqn:Ep.
  - exists None. reflexivity.
  - destruct (member_field m p Hm H) as (f & Hp & Hf & _). rewrite Ep in Hp. inversion Hp; subst.
    exists (Some f). cbn [length resolve_path]. rewrite Hf. reflexivity.
Qed.

(* the path of a client property found behind a flattened singular message field *)
Lemma resolve_behind m f full m2 cp fo :
  field_by_number m (f_num f) = Some f ->
  match f_card f with CRepeated | CMap _ => False | _ => True end ->
  f_kind f = KMessage -> f_ty f = TMsg full -> find_msg D full = Some m2 ->
  resolve_path D (length cp) m2 cp = ROk fo ->
  exists fo', resolve_path D (length (f_num f :: cp)) m (f_num f :: cp) = ROk fo'.
Proof.
  intros Hf Hc Hk Ht Hm2 Hr. cbn [length resolve_path]. rewrite Hf.
  destruct cp as [|n2 r2]; [eauto|].
  rewrite Hk, Ht, Hm2. destruct (f_card f); try contradiction; eauto.
Qed.

(* the root under the key of a non-wrapper message has properties from that message *)
Lemma object_props_from m2 a b c d0 cps :
  In m2 (d_msgs D) -> lookup S (msg_key m2) = Some (Linked (RObject a b c d0 cps)) ->
  forallb (prop_from_b D m2) cps = true.
Proof.
  intros Hm Hl. pose proof (HO _ _ Hl) as Ho. unfold origin_b in Ho.
  apply orb_true_iff in Ho as [Ho|Ho]; [apply orb_true_iff in Ho as [Ho|Ho]|].
  - apply existsb_exists in Ho as (m' & Hm' & Hc). apply andb_prop in Hc as [Hc Hall].
    apply andb_prop in Hc as [Hc _]. apply andb_prop in Hc as [H1 _]. apply ref_eqb_eq in H1.
    assert (m' = m2) by (apply (K1 D Hwk); assumption). subst m'. exact Hall.
  - apply existsb_exists in Ho as (m' & Hm' & Hc). apply andb_prop in Hc as [Hc _]. apply andb_prop in Hc as [_ Hc]. discriminate.
  - apply existsb_exists in Ho as (e & He & Hc). apply andb_prop in Hc as [_ Hc]. discriminate.
Qed.

Lemma client_resolves : forall fuel ps m out,
  In m (d_msgs D) -> forallb (prop_from_b D m) ps = true ->
  client_props fuel S ps = Ok out ->
  forall q, In q out -> exists fo, resolve_path D (length (p_path q)) m (p_path q) = ROk fo.
Proof.
  induction fuel as [|fuel IH]; intros ps m out Hm Hall H; [discriminate|].
  revert out H. induction ps as [|p r IHps]; intros out H q Hq.
  - inversion H; subst. destruct Hq.
  - cbn [forallb] in Hall. apply andb_prop in Hall as [Hp Hr]. rewrite client_props_cons in H.
    assert (Hplain : obind (client_props (Datatypes.S fuel) S r) (fun rest => Ok (p :: rest)) = Ok out ->
                     exists fo, resolve_path D (length (p_path q)) m (p_path q) = ROk fo).
    { intros H'. destruct (client_props (Datatypes.S fuel) S r) as [rest| | |] eqn:Er; cbn [obind] in H'; try discriminate.
      inversion H'; subst out. destruct Hq as [<-|Hq]; [apply resolve_direct; assumption|].
      apply (IHps Hr rest eq_refl q Hq). }
    destruct p as [j path rq eo d s].
    destruct s as [kw sp|od ts lr|k rules lr ext|k fl rules ext|k rules lr ext|it rules ext|it rules ext]; try (apply Hplain; exact H).
    destruct fl; [|apply Hplain; exact H].
    (* a flattened object field *)
    destruct (lookup S k) as [[|[a b c d0 cps| |]]|] eqn:El; try discriminate.
    destruct (client_props fuel S cps) as [children| | |] eqn:Ec; cbn [obind] in H; try discriminate.
    destruct (client_props (Datatypes.S fuel) S r) as [rest| | |] eqn:Er; cbn [obind] in H; try discriminate.
    inversion H; subst out. apply in_app_or in Hq as [Hq|Hq]; [|apply (IHps Hr rest eq_refl q Hq)].
    apply in_map_iff in Hq as ([j' cp rq' eo' d' s'] & <- & Hc). cbn [p_path].
    assert (Hmem : member_from_b D m (Prop_ j path rq eo d (FObject k true rules ext)) = true).
    { unfold prop_from_b in Hp. cbn [p_path p_schema] in Hp. destruct path; [discriminate|exact Hp]. }
    destruct (member_field m _ Hm Hmem) as (f & Hpath & Hf & Hs). cbn [p_path p_schema] in Hpath, Hs. subst path.
    cbn [shape_b] in Hs. apply andb_prop in Hs as [Hcard Hs]. apply andb_prop in Hs as [Hkt Hs].
    apply andb_prop in Hkt as [Hk Ht]. apply kind_eqb_message in Hk.
    unfold is_tmsg in Ht. destruct (f_ty f) as [|full|full] eqn:Ety; try discriminate.
    assert (Hv : value_full f = full) by (unfold value_full; rewrite Ety; reflexivity). rewrite Hv in Hs.
    destruct (find_msg D full) as [m2|] eqn:Ef; [|discriminate].
    apply andb_prop in Hs as [H1 _]. apply ref_eqb_eq in H1. subst k.
    assert (Hm2 : In m2 (d_msgs D)) by (eapply find_msg_In; eauto).
    pose proof (object_props_from m2 a b c d0 cps Hm2 El) as Hfrom.
    destruct (IH cps m2 children Hm2 Hfrom Ec _ Hc) as (fo & Hres). cbn [p_path] in Hres.
    cbn [app]. eapply resolve_behind; eauto.
    cbn [orb] in Hcard. destruct (f_card f); try discriminate; exact I.
Qed.

Lemma go_resolves m : forall ps,
  (forall q, In q ps -> exists fo, resolve_path D (length (p_path q)) m (p_path q) = ROk fo) ->
  exists l, (fix go (ps : list prop) : outcome (list (prop * option field)) :=
               match ps with
               | [] => Ok []
               | p :: rest =>
                   obind (lift (resolve_path D (length (p_path p)) m (p_path p))) (fun f =>
                   obind (go rest) (fun l => Ok ((p, f) :: l)))
               end) ps = Ok l.
Proof.
  induction ps as [|p r IH]; intros H; [eauto|].
  destruct (H p (or_introl eq_refl)) as (fo & Hr). destruct IH as (l & Hl); [intros q Hq; apply H; right; exact Hq|].
  rewrite Hr. cbn [lift obind]. rewrite Hl. cbn [obind]. eauto.
Qed.

(* newPropSet succeeds on the root of every message and on every exposed oneof of it *)
Theorem prop_set_builds m r :
  In m (d_msgs D) -> lookup S (msg_key m) = Some (Linked r) ->
  (forall k0 r0, lookup S k0 = Some (Linked r0) -> exists out, client_props_of S r0 = Ok out) ->
  exists pfs, new_prop_set D S r m = Ok pfs.
Proof.
  intros Hm Hl Hcp. destruct (Hcp _ _ Hl) as (out & Hout). unfold new_prop_set. rewrite Hout. cbn [obind].
  apply go_resolves. intros q Hq.
  pose proof (HO _ _ Hl) as Ho. unfold origin_b in Ho.
  assert (Hfrom : forallb (prop_from_b D m) (root_props r) = true).
  { apply orb_true_iff in Ho as [Ho|Ho]; [apply orb_true_iff in Ho as [Ho|Ho]|].
    - apply existsb_exists in Ho as (m' & Hm' & Hc). apply andb_prop in Hc as [Hc Hall].
      apply andb_prop in Hc as [Hc _]. apply andb_prop in Hc as [H1 _]. apply ref_eqb_eq in H1.
      assert (m' = m) by (apply (K1 D Hwk); assumption). subst m'. exact Hall.
    - apply existsb_exists in Ho as (m' & Hm' & Hc). apply andb_prop in Hc as [Hc _]. apply andb_prop in Hc as [H1 _].
      exfalso. exact (K2 D Hwk m m' Hm Hm' H1).
    - apply existsb_exists in Ho as (e & He & Hc). apply andb_prop in Hc as [H1 _]. apply ref_eqb_eq in H1.
      exfalso. exact (K3 D Hwk m e Hm He H1). }
  destruct r as [a b c d0 ps|a b ps|a b c d0 e]; cbn [client_props_of root_props] in *.
  - eapply client_resolves; eauto.
  - inversion Hout; subst out. apply resolve_direct; [exact Hm|]. exact (proj1 (forallb_forall _ _) Hfrom q Hq).
  - inversion Hout; subst out. destruct Hq.
Qed.
End Codec.

(* C18, last clause, first half, for every descriptor set with distinct split names and distinct
   field numbers: after a successful reflection the codec can build the property set (newPropSet:
   every client property's proto path resolves) of every reflected message type, so an empty message
   of every reflected type can be encoded and decoded *)
Theorem reflect_prop_sets_build D fs S :
  wf_keys D -> (forall m, In m (d_msgs D) -> NoDup (map f_num (m_fields m))) ->
  reflect D fs = Ok S ->
  forall m r, In m (d_msgs D) -> lookup S (msg_key m) = Some (Linked r) ->
  exists pfs, new_prop_set D S r m = Ok pfs.
Proof.
  intros Hwk Hnum HS m r Hm Hl.
  apply (prop_set_builds D Hwk Hnum S (reflect_origin D fs S HS) m r Hm Hl).
  intros k0 r0 Hl0. exact (reflect_client_props_terminate D fs S Hwk HS k0 r0 Hl0).
Qed.

(* ConcProbeProofs.v — the regenerated token tables against probe runs of the machine (ConcProbe.v). *)
From Coq Require Import String List NArith Bool.
From J5V.model Require Import Conc ConcRace ConcSites ConcProbe.
From J5V.gen Require ConcGen.
Import ListNotations.
Local Open Scope string_scope.
Local Open Scope list_scope.

(* Schema on a type whose build fails: EVERY token of Schema / schemaLocked / referencePackage, in
   source order, is what the machine does on that run, hook by hook, access by access *)
Lemma schema_tokens_error_path :
  static_tokens ConcGen.cache_methods "Schema" ++ ["return"] = probe_tokens probe_failing 5.
Proof. vm_compute. reflexivity. Qed.

(* Schema on a type that builds: the same without the rollback loop *)
Lemma schema_tokens_ok_path :
  without ["delete:Schemas"] (static_tokens ConcGen.cache_methods "Schema") ++ ["return"] = probe_tokens probe_leaf 5.
Proof. vm_compute. reflexivity. Qed.

(* a field of message type: buildMessageFieldSchema -> newRefPlaceholder -> refTo -> referencePackage, the
   nested build, To, ref.linked — the machine's steps from refto.lookup to ref.linked.  The accesses
   of referencePackage stand BEFORE the refto.lookup hook in the Go source and are attributed to the
   step AFTER it by the machine (there is no hook between them and the map lookup; same critical
   section): compared with these two tokens taken out, and their presence compared separately *)
Definition nested_segment : list string :=
  upto_token "hook:ref.linked" (from_token "hook:refto.lookup" (probe_tokens probe_nested 9)).
Definition field_static : list string :=
  static_tokens (ConcGen.placeholder_functions ++ ConcGen.cache_methods) "buildMessageFieldSchema".

Lemma refto_tokens :
  without pkg_tokens field_static = without pkg_tokens nested_segment /\
  filter (fun t => in_strs t pkg_tokens) field_static = pkg_tokens /\
  filter (fun t => in_strs t pkg_tokens) nested_segment = pkg_tokens.
Proof. vm_compute. repeat split. Qed.

(* the whole nested run: the Schema tokens with the field's segment spliced in after the registration of the root *)
Lemma nested_run_tokens :
  probe_tokens probe_nested 9 =
  upto_token "hook:cache.insert" (from_token "hook:schema.enter" (probe_tokens probe_leaf 5))
  ++ ["write:Schemas"; "setfield:registered"] ++ nested_segment
  ++ from_token "write:To" (probe_tokens probe_leaf 5).
Proof. vm_compute. reflexivity. Qed.

(* the probe renders the very events the race theorems quantify over: without hooks, and with the
   deletes of the rollback as the map writes they are *)
Definition as_events (l : list string) : list string :=
  map (fun t => if String.eqb t "delete:Schemas" then "write:Schemas" else t) (filter (fun t => negb (is_hook t)) l).

Lemma probe_is_the_event_trace :
  as_events (probe_tokens probe_leaf 5) = probe_event_tokens probe_leaf 5 /\
  as_events (probe_tokens probe_failing 5) = probe_event_tokens probe_failing 5 /\
  as_events (probe_tokens probe_nested 9) = probe_event_tokens probe_nested 9.
Proof. vm_compute. repeat split. Qed.

(* a machine that forgot an access, or a Go function that gained one, is told apart *)
Lemma probe_discriminates :
  static_tokens [("Schema", true, ["hook:schema.enter"; "lock"; "defer-unlock"; "setfield:registered"; "call:schemaLocked"; "unlock"; "delete:Schemas"; "setfield:registered"]);
                 ("schemaLocked", false, ["hook:cache.lookup"; "read:Schemas"])] "Schema"
  <> static_tokens ConcGen.cache_methods "Schema".
Proof. vm_compute. discriminate. Qed.

(* CodecDecLenient.v — the C03 quantifier in one relation.  [lenient ty j j']: j' is obtained from j by
   any combination of
     * respelling leaves (any two spellings the field kind's conversion maps to the same result:
       quoted / bare numbers, the base64 forms, enum prefix, timestamps at any offset, ...),
     * reordering the members of objects, at any depth,
     * adding explicit null members for properties of objects, at any depth
   (whitespace is absorbed by the tokenizer: documents are related through their token reading).
   If the decoder accepts j it accepts j', with the same message. *)
From Coq Require Import String List NArith ZArith Bool Lia Permutation.
From J5V.lib Require Import Outcome Json.
From J5V.model Require Import CodecTypes CodecDecScalar CodecDec CodecDecTree.
From J5V.proofs Require Import CodecDecProofs CodecDecStored CodecDecMsgSorted CodecDecSupport CodecDecLocal
                               CodecDecTreeUnfold CodecDecTreeFuel CodecDecExposed CodecDecOneofPair CodecDecReorder
                               CodecDecTreeProofs CodecDecOneofReorder.
Import ListNotations.
Local Open Scope N_scope.

(* the one call of K that with_holder makes *)
Lemma with_holder_call {A} path : forall m (K : N -> msg -> outcome (msg * A)) r, wf m ->
  with_holder path m K = Ok r ->
  exists n h r0, wf h /\ K n h = Ok r0 /\ forall K2 : N -> msg -> outcome (msg * A), K2 n h = Ok r0 -> with_holder path m K2 = Ok r.
Proof.
  induction path as [|a rest IH]; intros m K r W H; [discriminate|].
  destruct rest as [|b t].
  - exists a, m, r. split; [exact W|]. split; [exact H|]. intros K2 H2. exact H2.
  - destruct r as [m' x]. rewrite with_holder_cons in H. apply lift_ok in H. destruct H as (s' & Hs & ->).
    destruct (IH (sub_of a m) K (s', x) (wf_sub_of a m W) Hs) as (n & h & r0 & Wh & Hk & Hall).
    exists n, h, r0. split; [exact Wh|]. split; [exact Hk|]. intros K2 H2.
    rewrite with_holder_cons. apply lift_ok. exists s'. split; [apply Hall; exact H2|reflexivity].
Qed.

Lemma holder_swap_ex path m (K : N -> msg -> outcome (msg * unit)) (K2 : nat -> N -> msg -> outcome (msg * unit)) m' :
  wf m -> omap fst (with_holder path m K) = Ok m' ->
  (forall n h r0, wf h -> K n h = Ok r0 -> exists f', K2 f' n h = Ok r0) ->
  exists f', omap fst (with_holder path m (K2 f')) = Ok m'.
Proof.
  intros W H HK. unfold omap in H. destruct (with_holder path m K) as [[m1 x]| | |] eqn:E; cbn [obind fst] in H; try discriminate.
  injection H as <-. destruct (with_holder_call path m K (m1, x) W E) as (n & h & r0 & Wh & Hk & Hall).
  destruct (HK n h r0 Wh Hk) as (f' & Hk'). exists f'. rewrite (Hall (K2 f') Hk'). reflexivity.
Qed.

Section Lenient.
  Variable orc : oracles.
  Variable e : env.

  (* one array element / map value *)
  Definition elem (f : nat) (d : N) (item : field_ty) (v : jvalue) : outcome pval :=
    match item with
    | FScalar k =>
        if is_container v then Err "element"%string
        else obind (scalar_from_go orc k (goval_of_json v)) (fun x => match x with None => Err "nil"%string | Some y => Ok y end)
    | FEnum ref =>
        match v with
        | JStr s =>
          match lookup e ref with
          | Some (SEnum prefix opts) =>
              match option_by_name prefix opts s with Some z => Ok (VEnum z) | None => Err "enum"%string end
          | _ => Err "schema"%string
          end
        | _ => Err "element"%string
        end
    | FObject ref =>
        match lookup e ref with
        | Some (SObject props) =>
            match v with JObj ms => omap VMsg (tr_object orc e f d props ms [] []) | _ => Err "element"%string end
        | _ => Err "schema"%string
        end
    | FOneof ref =>
        match lookup e ref with
        | Some (SOneof props) =>
            match v with JObj ms => omap VMsg (tr_oneof orc e f d props ms [] [] [] None) | _ => Err "element"%string end
        | _ => Err "schema"%string
        end
    | _ => Err "schema"%string
    end.

  Lemma tr_array_cons_ok f d item v r acc l :
    tr_array orc e (S f) d item (v :: r) acc = Ok l <->
    exists x, elem f d item v = Ok x /\ tr_array orc e f d item r (acc ++ [x]) = Ok l.
  Proof.
    rewrite tr_array_S. unfold elem. destruct item as [k|ref|ref|ref|it|it|pb];
      try (split; [discriminate|intros (x & H & _); discriminate]).
    - destruct (is_container v); [split; [discriminate|intros (x & H & _); discriminate]|].
      destruct (scalar_from_go orc k (goval_of_json v)) as [[y|]| | |]; cbn [obind list_append];
        try (split; [discriminate|intros (x & H & _); discriminate]).
      split; [intros H; exists y; split; [reflexivity|exact H]|intros (x & H1 & H2); injection H1 as <-; exact H2].
    - destruct (is_container v) eqn:Ec.
      { split; [discriminate|]. intros (x & H & _). destruct v; try discriminate. }
      destruct v; try (split; [discriminate|intros (x & H & _); discriminate]).
      destruct (lookup e ref) as [[| |prefix opts]|]; try (split; [discriminate|intros (x & H & _); discriminate]).
      destruct (option_by_name prefix opts s) as [z|]; try (split; [discriminate|intros (x & H & _); discriminate]).
      split; [intros H; exists (VEnum z); split; [reflexivity|exact H]|intros (x & H1 & H2); injection H1 as <-; exact H2].
    - destruct (lookup e ref) as [[props| |]|]; try (split; [discriminate|intros (x & H & _); discriminate]).
      destruct v; try (split; [discriminate|intros (x & H & _); discriminate]).
      destruct (tr_object orc e f d props members [] []) as [sub| | |]; cbn [obind omap];
        try (split; [discriminate|intros (x & H & _); discriminate]).
      split; [intros H; exists (VMsg sub); split; [reflexivity|exact H]|intros (x & H1 & H2); injection H1 as <-; exact H2].
    - destruct (lookup e ref) as [[|props|]|]; try (split; [discriminate|intros (x & H & _); discriminate]).
      destruct v; try (split; [discriminate|intros (x & H & _); discriminate]).
      destruct (tr_oneof orc e f d props members [] [] [] None) as [sub| | |]; cbn [obind omap];
        try (split; [discriminate|intros (x & H & _); discriminate]).
      split; [intros H; exists (VMsg sub); split; [reflexivity|exact H]|intros (x & H1 & H2); injection H1 as <-; exact H2].
  Qed.

  Lemma tr_map_cons_ok f d item key v r acc l :
    tr_map orc e (S f) d item ((key, v) :: r) acc = Ok l <->
    map_get key acc = None /\ exists x, elem f d item v = Ok x /\ tr_map orc e f d item r (map_set key x acc) = Ok l.
  Proof.
    rewrite tr_map_S. unfold elem. destruct item as [k|ref|ref|ref|it|it|pb];
      try (split; [discriminate|intros (_ & x & H & _); discriminate]);
      (destruct (map_get key acc); [split; [discriminate|intros (H & _); discriminate]|]).
    - destruct (is_container v); [split; [discriminate|intros (_ & x & H & _); discriminate]|].
      destruct (scalar_from_go orc k (goval_of_json v)) as [[y|]| | |]; cbn [obind map_set_value];
        try (split; [discriminate|intros (_ & x & H & _); discriminate]).
      split; [intros H; split; [reflexivity|]; exists y; split; [reflexivity|exact H]
             |intros (_ & x & H1 & H2); injection H1 as <-; exact H2].
    - destruct v; try (split; [discriminate|intros (_ & x & H & _); discriminate]).
      destruct (lookup e ref) as [[| |prefix opts]|]; try (split; [discriminate|intros (_ & x & H & _); discriminate]).
      destruct (option_by_name prefix opts s) as [z|]; try (split; [discriminate|intros (_ & x & H & _); discriminate]).
      split; [intros H; split; [reflexivity|]; exists (VEnum z); split; [reflexivity|exact H]
             |intros (_ & x & H1 & H2); injection H1 as <-; exact H2].
    - destruct (lookup e ref) as [[props| |]|]; try (split; [discriminate|intros (_ & x & H & _); discriminate]).
      destruct v; try (split; [discriminate|intros (_ & x & H & _); discriminate]).
      destruct (tr_object orc e f d props members [] []) as [sub| | |]; cbn [obind omap];
        try (split; [discriminate|intros (_ & x & H & _); discriminate]).
      split; [intros H; split; [reflexivity|]; exists (VMsg sub); split; [reflexivity|exact H]
             |intros (_ & x & H1 & H2); injection H1 as <-; exact H2].
    - destruct (lookup e ref) as [[|props|]|]; try (split; [discriminate|intros (_ & x & H & _); discriminate]).
      destruct v; try (split; [discriminate|intros (_ & x & H & _); discriminate]).
      destruct (tr_oneof orc e f d props members [] [] [] None) as [sub| | |]; cbn [obind omap];
        try (split; [discriminate|intros (_ & x & H & _); discriminate]).
      split; [intros H; split; [reflexivity|]; exists (VMsg sub); split; [reflexivity|exact H]
             |intros (_ & x & H1 & H2); injection H1 as <-; exact H2].
  Qed.

  Lemma elem_more_fuel f k d item v x : elem f d item v = Ok x -> elem (f + k) d item v = Ok x.
  Proof.
    unfold elem. destruct item as [kk|ref|ref|ref|it|it|pb]; try (intros H; exact H).
    - destruct (lookup e ref) as [[props| |]|]; try (intros H; exact H).
      destruct v; try (intros H; exact H).
      destruct (tr_object orc e f d props members [] []) as [sub| | |] eqn:E; try discriminate.
      rewrite (tr_object_more_fuel orc e f k _ _ _ _ _ _ E ltac:(discriminate)). intros H; exact H.
    - destruct (lookup e ref) as [[|props|]|]; try (intros H; exact H).
      destruct v; try (intros H; exact H).
      destruct (tr_oneof orc e f d props members [] [] [] None) as [sub| | |] eqn:E; try discriminate.
      rewrite (tr_oneof_more_fuel orc e f k _ _ _ _ _ _ _ _ E ltac:(discriminate)). intros H; exact H.
  Qed.
End Lenient.

Section Lenient2.
  Variable orc : oracles.
  Variable e : env.

  Inductive lenient : field_ty -> jvalue -> jvalue -> Prop :=
  | L_same ty j : lenient ty j j
  | L_scalar k j j' :
      is_container j = false -> is_container j' = false -> (j = JNull <-> j' = JNull) ->
      scalar_from_go orc k (goval_of_json j) = scalar_from_go orc k (goval_of_json j') ->
      lenient (FScalar k) j j'
  | L_enum ref prefix opts s s' :
      lookup e ref = Some (SEnum prefix opts) ->
      option_by_name prefix opts s = option_by_name prefix opts s' ->
      lenient (FEnum ref) (JStr s) (JStr s')
  | L_object ref props ms nulls ms1 ms' :
      lookup e ref = Some (SObject props) -> null_members props nulls -> (nulls = [] \/ ms <> []) ->
      Permutation (nulls ++ ms) ms1 -> lenient_members props ms1 ms' ->
      lenient (FObject ref) (JObj ms) (JObj ms')
  | L_oneof ref props ms ms1 ms' :
      lookup e ref = Some (SOneof props) -> Permutation ms ms1 -> (type_count ms <= 1)%nat ->
      lenient_members props ms1 ms' ->
      lenient (FOneof ref) (JObj ms) (JObj ms')
  | L_array item js js' : lenient_items item js js' -> lenient (FArray item) (JArr js) (JArr js')
  | L_map item ms ms' : lenient_entries item ms ms' -> lenient (FMap item) (JObj ms) (JObj ms')

  (* same keys in the same order, the values lenient at their property's type *)
  with lenient_members : list property -> list (bytes * jvalue) -> list (bytes * jvalue) -> Prop :=
  | LM_nil props : lenient_members props [] []
  | LM_same props k v r r' : lenient_members props r r' -> lenient_members props ((k, v) :: r) ((k, v) :: r')
  | LM_member props k v v' r r' p :
      bytes_eqb k type_key = false ->
      find_prop props k = Some p -> (v = JNull <-> v' = JNull) -> lenient (p_ty p) v v' ->
      lenient_members props r r' -> lenient_members props ((k, v) :: r) ((k, v') :: r')

  with lenient_items : field_ty -> list jvalue -> list jvalue -> Prop :=
  | LI_nil item : lenient_items item [] []
  | LI_cons item v v' r r' : lenient item v v' -> lenient_items item r r' -> lenient_items item (v :: r) (v' :: r')

  with lenient_entries : field_ty -> list (bytes * jvalue) -> list (bytes * jvalue) -> Prop :=
  | LE_nil item : lenient_entries item [] []
  | LE_cons item k v v' r r' : lenient item v v' -> lenient_entries item r r' ->
      lenient_entries item ((k, v) :: r) ((k, v') :: r').

  (* every object and oneof of the environment satisfies the reordering condition *)
  Definition env_ok : Prop :=
    forall ref props, lookup e ref = Some (SObject props) \/ lookup e ref = Some (SOneof props) -> props_commute e props.

  Definition P_at (n : nat) : Prop :=
    forall ty j j', (jsize j <= n)%nat -> lenient ty j j' ->
    forall f d p m m', p_ty p = ty -> wf m -> tr_present orc e f d p j m = Ok m' ->
    exists f', tr_present orc e f' d p j' m = Ok m'.
  Definition O_at (n : nat) : Prop :=
    forall props ms nulls ms1 ms', (msize ms <= n)%nat -> props_commute e props ->
    null_members props nulls -> (nulls = [] \/ ms <> []) -> Permutation (nulls ++ ms) ms1 -> lenient_members props ms1 ms' ->
    forall f d m seen m', wf m -> tr_object orc e f d props ms m seen = Ok m' ->
    exists f', tr_object orc e f' d props ms' m seen = Ok m'.
  Definition N_at (n : nat) : Prop :=
    forall props ms ms', (msize ms <= n)%nat -> lenient_members props ms ms' ->
    forall f d m seen found c m', wf m -> tr_oneof orc e f d props ms m seen found c = Ok m' ->
    exists f', tr_oneof orc e f' d props ms' m seen found c = Ok m'.
  Definition A_at (n : nat) : Prop :=
    forall item js js', (lsize js <= n)%nat -> lenient_items item js js' ->
    forall f d acc l, tr_array orc e f d item js acc = Ok l -> exists f', tr_array orc e f' d item js' acc = Ok l.
  Definition M_at (n : nat) : Prop :=
    forall item ms ms', (msize ms <= n)%nat -> lenient_entries item ms ms' ->
    forall f d acc l, tr_map orc e f d item ms acc = Ok l -> exists f', tr_map orc e f' d item ms' acc = Ok l.

  Definition level (n : nat) : Prop := P_at n /\ O_at n /\ N_at n /\ A_at n /\ M_at n.

  Hypothesis Henv : env_ok.

  Lemma msize_cons k v r : msize ((k, v) :: r) = (S (jsize v) + msize r)%nat.
  Proof. reflexivity. Qed.
  Lemma lsize_cons v r : lsize (v :: r) = (jsize v + lsize r)%nat.
  Proof. reflexivity. Qed.
  Lemma msize_in k v ms : In (k, v) ms -> (S (jsize v) <= msize ms)%nat.
  Proof.
    induction ms as [|[k0 v0] r IH]; intros H; [contradiction|]. rewrite msize_cons.
    destruct H as [H|H]; [injection H as -> ->; lia|specialize (IH H); lia].
  Qed.

  Lemma msize_perm ms ms1 : Permutation ms ms1 -> msize ms = msize ms1.
  Proof.
    induction 1 as [|[k v] l l' P IH|[k1 v1] [k2 v2] l|l l' l'' P1 IH1 P2 IH2].
    - reflexivity.
    - rewrite !msize_cons, IH. reflexivity.
    - rewrite !msize_cons. lia.
    - congruence.
  Qed.

  (* ------------------------------------------------------------ one member value replaced by a lenient one *)
  Lemma member_lenient n d p v v' m seen m1 s1 f :
    P_at n -> (jsize v <= n)%nat -> (v = JNull <-> v' = JNull) -> lenient (p_ty p) v v' -> wf m ->
    tr_member d (tr_present orc e f (d + 1) p) p v m seen = Ok (m1, s1) ->
    exists f', tr_member d (tr_present orc e f' (d + 1) p) p v' m seen = Ok (m1, s1).
  Proof.
    intros HP Hsz Hn Hl W H. destruct (jvalue_null_dec v) as [Ev|Ev].
    - subst v. assert (v' = JNull) by (apply Hn; reflexivity). subst v'. exists f. exact H.
    - assert (Ev' : v' <> JNull) by (intros E; apply Ev; apply Hn; exact E).
      destruct (tr_member_nonnull orc e _ _ _ _ _ _ _ _ Ev H) as (Hd & Hs & Hc & Hp & ->).
      destruct (HP (p_ty p) v v' Hsz Hl f (d + 1) p m m1 eq_refl W Hp) as (f' & Hp').
      exists f'. apply tr_member_build; assumption.
  Qed.

  Lemma tr_member_ok_wf d f p v m seen m1 s1 : wf m ->
    tr_member d (tr_present orc e f (d + 1) p) p v m seen = Ok (m1, s1) -> wf m1.
  Proof.
    intros W H. apply (tr_member_wf d (tr_present orc e f (d + 1) p) p v m seen m1 s1); [|exact W|exact H].
    intros m0 m0' W0 H0. exact (proj1 (wfl_all orc e f) _ _ _ _ _ W0 H0).
  Qed.

  (* ------------------------------------------------------------ object bodies *)
  Lemma orun_lenient n d props : P_at n -> forall ms1 ms', lenient_members props ms1 ms' ->
    (forall k v, In (k, v) ms1 -> (jsize v <= n)%nat \/ v = JNull) ->
    forall m seen m', wf m -> orun orc e d props ms1 m seen m' -> orun orc e d props ms' m seen m'.
  Proof.
    intros HP ms1 ms' Hl. induction Hl as [props | props k v r r' Hr IH | props k v v' r r' p Hk Hp Hn Hv Hr IH];
      intros Hsz m seen m' W R.
    - exact R.
    - inversion R as [|kv r0 m0 s0 m1 s1 m0' St Rr]; subst. econstructor; [exact St|].
      apply IH; [intros k0 v0 Hin; apply (Hsz k0 v0); right; exact Hin| |exact Rr].
      destruct St as (p0 & f0 & _ & Em). exact (tr_member_ok_wf _ _ _ _ _ _ _ _ W Em).
    - inversion R as [|kv r0 m0 s0 m1 s1 m0' St Rr]; subst. destruct St as (p0 & f0 & Ep0 & Em).
      cbn [fst snd] in Ep0, Em. rewrite Hp in Ep0. injection Ep0 as <-.
      assert (G : exists f', tr_member d (tr_present orc e f' (d + 1) p) p v' m seen = Ok (m1, s1)).
      { destruct (Hsz k v (or_introl eq_refl)) as [Hs|Hs].
        - exact (member_lenient n d p v v' m seen m1 s1 f0 HP Hs Hn Hv W Em).
        - subst v. assert (v' = JNull) by (apply Hn; reflexivity). subst v'. exists f0. exact Em. }
      destruct G as (f' & Em'). econstructor; [exists p, f'; split; [exact Hp|exact Em']|].
      apply IH; [intros k0 v0 Hin; apply (Hsz k0 v0); right; exact Hin| |exact Rr].
      exact (tr_member_ok_wf _ _ _ _ _ _ _ _ W Em).
  Qed.

  Lemma orun_depth d props kv r m seen m' : orun orc e d props (kv :: r) m seen m' -> (max_nesting_depth <? d + 1) = false.
  Proof.
    intros R. inversion R as [|kv0 r0 m0 s0 m1 s1 m0' (p & f & _ & Em) _]; subst.
    unfold tr_member in Em. destruct (max_nesting_depth <? d + 1); [discriminate|reflexivity].
  Qed.

  Lemma O_step n : P_at n -> O_at (S n).
  Proof.
    intros HP props ms nulls ms1 ms' Hsz PC Hnull Hne P Hl f d m seen m' W H.
    apply tr_object_of_orun.
    apply (orun_lenient n d props HP ms1 ms' Hl); [| exact W |].
    - intros k v Hin. apply (Permutation_in _ (Permutation_sym P)) in Hin. apply in_app_or in Hin.
      destruct Hin as [Hin|Hin].
      + right. unfold null_members in Hnull. rewrite Forall_forall in Hnull. exact (proj1 (Hnull _ Hin)).
      + left. pose proof (msize_in k v ms Hin). lia.
    - apply (orun_perm orc e d props (nulls ++ ms) ms1 PC P m seen seen m' W (seen_eq_refl seen)).
      pose proof (orun_of_tr_object orc e d props f ms m seen m' H) as R.
      destruct nulls as [|nk nr]; [exact R|].
      destruct Hne as [Hne|Hne]; [discriminate|]. destruct ms as [|kv r]; [congruence|].
      apply orun_nulls_app; [exact Hnull|exact (orun_depth d props kv r m seen m' R)|exact R].
  Qed.

  (* ------------------------------------------------------------ oneof bodies (same order) *)
  Lemma N_step n : P_at n -> N_at (S n).
  Proof.
    intros HP props ms. induction ms as [|[key v] r IH]; intros ms' Hsz Hl f d m seen found c m' W H.
    - inversion Hl; subst. exists f. exact H.
    - destruct f as [|f]; [discriminate|]. rewrite tr_oneof_S in H. rewrite msize_cons in Hsz.
      assert (Hr : (msize r <= S n)%nat) by lia.
      inversion Hl as [|ps k0 v0 r0 r' Hlr|ps k0 v0 v' r0 r' p Hk Hp Hn Hv Hlr]; subst.
      + (* same member *)
        destruct (bytes_eqb key type_key) eqn:Ek.
        * destruct v; try discriminate. destruct (IH r' Hr Hlr f d m seen found (Some s) m' W H) as (f' & H').
          exists (S f'). rewrite tr_oneof_S, Ek. exact H'.
        * destruct (find_prop props key) as [p|] eqn:Ep; [|discriminate].
          destruct (tr_member d (tr_present orc e f (d + 1) p) p v m seen) as [[m1 s1]| | |] eqn:Em; cbn [obind fst snd] in H; try discriminate.
          destruct (IH r' Hr Hlr f d m1 s1 (found ++ [key]) c m' (tr_member_ok_wf _ _ _ _ _ _ _ _ W Em) H) as (f2 & H2).
          exists (S (f + f2)). rewrite tr_oneof_S, Ek, Ep.
          rewrite (tr_member_more_fuel orc e d p v m seen f f2 _ Em). cbn [obind fst snd].
          rewrite Nat.add_comm. apply (tr_oneof_more_fuel orc e f2 f); [exact H2|discriminate].
      + rewrite Hk, Hp in H.
        destruct (tr_member d (tr_present orc e f (d + 1) p) p v m seen) as [[m1 s1]| | |] eqn:Em; cbn [obind fst snd] in H; try discriminate.
        destruct (member_lenient n d p v v' m seen m1 s1 f HP ltac:(lia) Hn Hv W Em) as (f1 & Em').
        destruct (IH r' Hr Hlr f d m1 s1 (found ++ [key]) c m' (tr_member_ok_wf _ _ _ _ _ _ _ _ W Em) H) as (f2 & H2).
        exists (S (f1 + f2)). rewrite tr_oneof_S, Hk, Hp.
        rewrite (tr_member_more_fuel orc e d p v' m seen f1 f2 _ Em'). cbn [obind fst snd].
        rewrite Nat.add_comm. apply (tr_oneof_more_fuel orc e f2 f1); [exact H2|discriminate].
  Qed.

  (* ------------------------------------------------------------ array elements and map values *)
  Lemma elem_lenient n d item v v' x f : O_at n -> N_at n -> (jsize v <= S n)%nat -> lenient item v v' ->
    elem orc e f d item v = Ok x -> exists f', elem orc e f' d item v' = Ok x.
  Proof.
    intros HO HN Hsz Hl H. inversion Hl as [ty j | k j j' Hc Hc' Hn Hs | ref prefix opts s s' Hlk Ho
                                          | ref props ms nulls ms1 ms' Hlk Hnull Hne P Hm
                                          | ref props ms ms1 ms' Hlk Pn Hcn Hm | it js js' Hi | it ms ms' He]; subst.
    - exists f. exact H.
    - exists f. unfold elem in *. rewrite Hc in H. rewrite Hc', <- Hs. exact H.
    - exists f. unfold elem in *. rewrite Hlk in *. rewrite <- Ho. exact H.
    - unfold elem in *. rewrite Hlk in *. rewrite jsize_obj in Hsz.
      destruct (tr_object orc e f d props ms [] []) as [sub| | |] eqn:E; cbn [omap obind] in H; try discriminate.
      destruct (HO props ms nulls ms1 ms' ltac:(lia) (Henv ref props (or_introl Hlk)) Hnull Hne P Hm f d [] [] sub wf_nil E) as (f' & E').
      exists f'. rewrite E'. exact H.
    - unfold elem in *. rewrite Hlk in *. rewrite jsize_obj in Hsz.
      destruct (tr_oneof orc e f d props ms [] [] [] None) as [sub| | |] eqn:E; cbn [omap obind] in H; try discriminate.
      destruct (reordered_oneof orc e d props ms ms1 [] [] [] None sub f (Henv ref props (or_intror Hlk)) Pn Hcn wf_nil E) as (f0 & E0).
      destruct (HN props ms1 ms' ltac:(rewrite <- (msize_perm ms ms1 Pn); lia) Hm f0 d [] [] [] None sub wf_nil E0) as (f' & E').
      exists f'. rewrite E'. exact H.
    - discriminate.
    - discriminate.
  Qed.

  Lemma A_step n : O_at n -> N_at n -> A_at (S n).
  Proof.
    intros HO HN item js. induction js as [|v r IH]; intros js' Hsz Hl f d acc l H.
    - inversion Hl; subst. exists f. exact H.
    - inversion Hl as [|it v0 v' r0 r' Hv Hr]; subst. destruct f as [|f]; [discriminate|].
      apply tr_array_cons_ok in H. destruct H as (x & Hx & Hrest). rewrite lsize_cons in Hsz.
      pose proof (jsize_pos v).
      destruct (elem_lenient n d item v v' x f HO HN ltac:(lia) Hv Hx) as (f1 & Hx').
      destruct (IH r' ltac:(lia) Hr f d (acc ++ [x]) l Hrest) as (f2 & Hrest').
      exists (S (f1 + f2)). apply tr_array_cons_ok. exists x. split.
      + apply elem_more_fuel. exact Hx'.
      + rewrite Nat.add_comm. apply (tr_array_more_fuel orc e f2 f1); [exact Hrest'|discriminate].
  Qed.

  Lemma M_step n : O_at n -> N_at n -> M_at (S n).
  Proof.
    intros HO HN item ms. induction ms as [|[key v] r IH]; intros ms' Hsz Hl f d acc l H.
    - inversion Hl; subst. exists f. exact H.
    - inversion Hl as [|it k0 v0 v' r0 r' Hv Hr]; subst. destruct f as [|f]; [discriminate|].
      apply tr_map_cons_ok in H. destruct H as (Hg & x & Hx & Hrest). rewrite msize_cons in Hsz.
      destruct (elem_lenient n d item v v' x f HO HN ltac:(lia) Hv Hx) as (f1 & Hx').
      destruct (IH r' ltac:(lia) Hr f d (map_set key x acc) l Hrest) as (f2 & Hrest').
      exists (S (f1 + f2)). apply tr_map_cons_ok. split; [exact Hg|]. exists x. split.
      + apply elem_more_fuel. exact Hx'.
      + rewrite Nat.add_comm. apply (tr_map_more_fuel orc e f2 f1); [exact Hrest'|discriminate].
  Qed.
  (* ------------------------------------------------------------ a member value *)
  Lemma P_step n : O_at n -> N_at n -> A_at n -> M_at n -> P_at (S n).
  Proof.
    intros HO HN HA HM ty j j' Hsz Hl f d p m m' Hty W H. revert H. revert Hty.
    inversion Hl as [ty0 j0 | k j0 j0' Hc Hc' Hn Hs | ref prefix opts s s' Hlk Ho
                    | ref props ms nulls ms1 ms' Hlk Hnull Hne P Hm
                    | ref props ms ms1 ms' Hlk Pn Hcn Hm | item js js' Hi | item ms ms' He]; subst; intros Hty H.
    - exists f. exact H.
    - destruct f as [|f]; [discriminate|]. exists (S f). rewrite tr_present_S in *. rewrite Hty in *.
      rewrite Hc in H. rewrite Hc', <- Hs. exact H.
    - destruct f as [|f]; [discriminate|]. exists (S f). rewrite tr_present_S in *. rewrite Hty in *.
      rewrite Hlk in *. rewrite <- Ho. exact H.
    - (* object *)
      destruct f as [|f]; [discriminate|]. rewrite tr_present_S in H. rewrite Hty, Hlk in H. rewrite jsize_obj in Hsz.
      destruct (holder_swap_ex (p_path p) m _
                  (fun f' n h => let '(sub, h1) := msg_mutable (p_siblings p) n h in
                                 obind (tr_object orc e f' d props ms' sub []) (fun sub' => Ok (msg_put n (VMsg sub') h1, tt)))
                  m' W H) as (f' & H').
      { intros n0 h r0 Wh Hk. pose proof (proj1 (wf_mutable (p_siblings p) n0 h Wh)) as Ws.
        destruct (msg_mutable (p_siblings p) n0 h) as [sub h1]. cbn [fst] in Ws.
        destruct (tr_object orc e f d props ms sub []) as [sub'| | |] eqn:E; cbn [obind] in Hk; try discriminate.
        destruct (HO props ms nulls ms1 ms' ltac:(lia) (Henv ref props (or_introl Hlk)) Hnull Hne P Hm f d sub [] sub' Ws E) as (f' & E').
        exists f'. rewrite E'. exact Hk. }
      exists (S f'). rewrite tr_present_S, Hty, Hlk. exact H'.
    - (* oneof *)
      destruct f as [|f]; [discriminate|]. rewrite tr_present_S in H. rewrite Hty, Hlk in H. rewrite jsize_obj in Hsz.
      destruct (p_path p) as [|a r] eqn:Ep.
      + destruct (reordered_oneof orc e d props ms ms1 m [] [] None m' f (Henv ref props (or_intror Hlk)) Pn Hcn W H) as (f0 & H0).
        destruct (HN props ms1 ms' ltac:(rewrite <- (msize_perm ms ms1 Pn); lia) Hm f0 d m [] [] None m' W H0) as (f' & H').
        exists (S f'). rewrite tr_present_S, Hty, Hlk, Ep. exact H'.
      + destruct (holder_swap_ex (a :: r) m _
                    (fun f' n h => let '(sub, h1) := msg_mutable (p_siblings p) n h in
                                   obind (tr_oneof orc e f' d props ms' sub [] [] None) (fun sub' => Ok (msg_put n (VMsg sub') h1, tt)))
                    m' W H) as (f' & H').
        { intros n0 h r0 Wh Hk. pose proof (proj1 (wf_mutable (p_siblings p) n0 h Wh)) as Ws.
          destruct (msg_mutable (p_siblings p) n0 h) as [sub h1]. cbn [fst] in Ws.
          destruct (tr_oneof orc e f d props ms sub [] [] None) as [sub'| | |] eqn:E; cbn [obind] in Hk; try discriminate.
          destruct (reordered_oneof orc e d props ms ms1 sub [] [] None sub' f (Henv ref props (or_intror Hlk)) Pn Hcn Ws E) as (f0 & E0).
          destruct (HN props ms1 ms' ltac:(rewrite <- (msize_perm ms ms1 Pn); lia) Hm f0 d sub [] [] None sub' Ws E0) as (f' & E').
          exists f'. rewrite E'. exact Hk. }
        exists (S f'). rewrite tr_present_S, Hty, Hlk, Ep. exact H'.
    - (* array *)
      destruct f as [|f]; [discriminate|]. rewrite tr_present_S in H. rewrite Hty in H. rewrite jsize_arr in Hsz.
      assert (G : exists f', omap fst (with_holder (p_path p) m (fun n h =>
                     let existing := match msg_get n h with Some (VList l) => l | _ => [] end in
                     obind (tr_array orc e f' d item js' existing) (fun l => Ok (msg_set true (p_siblings p) n (VList l) h, tt)))) = Ok m').
      { assert (H0 : omap fst (with_holder (p_path p) m (fun n h =>
                     let existing := match msg_get n h with Some (VList l) => l | _ => [] end in
                     obind (tr_array orc e f d item js existing) (fun l => Ok (msg_set true (p_siblings p) n (VList l) h, tt)))) = Ok m')
          by (destruct item; try discriminate; exact H).
        apply (holder_swap_ex (p_path p) m _
                 (fun f' n h => let existing := match msg_get n h with Some (VList l) => l | _ => [] end in
                                obind (tr_array orc e f' d item js' existing) (fun l => Ok (msg_set true (p_siblings p) n (VList l) h, tt)))
                 m' W H0).
        intros n0 h r0 Wh Hk. cbv zeta in Hk.
        destruct (tr_array orc e f d item js _) as [l| | |] eqn:E; cbn [obind] in Hk; try discriminate.
        destruct (HA item js js' ltac:(lia) Hi f d _ l E) as (f' & E'). exists f'. cbv zeta. rewrite E'. exact Hk. }
      destruct G as (f' & G). exists (S f'). rewrite tr_present_S, Hty.
      destruct item; try discriminate; exact G.
    - (* map *)
      destruct f as [|f]; [discriminate|]. rewrite tr_present_S in H. rewrite Hty in H. rewrite jsize_obj in Hsz.
      assert (G : exists f', omap fst (with_holder (p_path p) m (fun n h =>
                     let existing := match msg_get n h with Some (VMap l) => l | _ => [] end in
                     obind (tr_map orc e f' d item ms' existing) (fun l => Ok (msg_set true (p_siblings p) n (VMap l) h, tt)))) = Ok m').
      { assert (H0 : omap fst (with_holder (p_path p) m (fun n h =>
                     let existing := match msg_get n h with Some (VMap l) => l | _ => [] end in
                     obind (tr_map orc e f d item ms existing) (fun l => Ok (msg_set true (p_siblings p) n (VMap l) h, tt)))) = Ok m')
          by (destruct item; try discriminate; exact H).
        apply (holder_swap_ex (p_path p) m _
                 (fun f' n h => let existing := match msg_get n h with Some (VMap l) => l | _ => [] end in
                                obind (tr_map orc e f' d item ms' existing) (fun l => Ok (msg_set true (p_siblings p) n (VMap l) h, tt)))
                 m' W H0).
        intros n0 h r0 Wh Hk. cbv zeta in Hk.
        destruct (tr_map orc e f d item ms _) as [l| | |] eqn:E; cbn [obind] in Hk; try discriminate.
        destruct (HM item ms ms' ltac:(lia) He f d _ l E) as (f' & E'). exists f'. cbv zeta. rewrite E'. exact Hk. }
      destruct G as (f' & G). exists (S f'). rewrite tr_present_S, Hty.
      destruct item; try discriminate; exact G.
  Qed.

  Lemma level_0 : level 0.
  Proof.
    repeat split.
    - intros ty j j' Hsz. pose proof (jsize_pos j). lia.
    - intros props ms nulls ms1 ms' Hsz PC Hnull Hne P Hl f d m seen m' W H.
      destruct ms as [|[k v] r]; [|rewrite msize_cons in Hsz; lia].
      destruct Hne as [->|Hne]; [|congruence]. cbn [app] in P. apply Permutation_nil in P. subst ms1.
      inversion Hl; subst. exists f. exact H.
    - intros props ms ms' Hsz Hl f d m seen found c m' W H.
      destruct ms as [|[k v] r]; [|rewrite msize_cons in Hsz; lia]. inversion Hl; subst. exists f. exact H.
    - intros item js js' Hsz Hl f d acc l H.
      destruct js as [|v r]; [|rewrite lsize_cons in Hsz; pose proof (jsize_pos v); lia]. inversion Hl; subst. exists f. exact H.
    - intros item ms ms' Hsz Hl f d acc l H.
      destruct ms as [|[k v] r]; [|rewrite msize_cons in Hsz; lia]. inversion Hl; subst. exists f. exact H.
  Qed.

  Lemma level_all n : level n.
  Proof.
    induction n as [|n (HP & HO & HN & HA & HM)]; [exact level_0|].
    repeat split; [apply P_step | apply O_step | apply N_step | apply A_step | apply M_step]; assumption.
  Qed.

  (* the object body of a document *)
  Theorem lenient_object props ms nulls ms1 ms' f d m seen m' :
    props_commute e props -> null_members props nulls -> (nulls = [] \/ ms <> []) ->
    Permutation (nulls ++ ms) ms1 -> lenient_members props ms1 ms' -> wf m ->
    tr_object orc e f d props ms m seen = Ok m' -> exists f', tr_object orc e f' d props ms' m seen = Ok m'.
  Proof.
    intros PC Hnull Hne P Hl W H.
    destruct (level_all (msize ms)) as (_ & HO & _).
    exact (HO props ms nulls ms1 ms' (le_n _) PC Hnull Hne P Hl f d m seen m' W H).
  Qed.
End Lenient2.

(* JSONToProto accepted a document that the tokenizer reads as the object ms: it accepts, with the same
   message, every document whose root object is obtained from ms by adding explicit nulls (when ms is
   not empty, or none), reordering the members, and replacing member values by lenient variants *)
Theorem lenient_document orc e root props bs bs' ms nulls ms1 ms' rest rest' me me' m' :
  env_ok e -> lookup e root = Some (SObject props) ->
  lex bs = (tokens_of (JObj ms) ++ rest, me) -> lex bs' = (tokens_of (JObj ms') ++ rest', me') ->
  null_members props nulls -> (nulls = [] \/ ms <> []) -> Permutation (nulls ++ ms) ms1 ->
  lenient_members orc e props ms1 ms' ->
  decode_bytes orc e root bs = Ok m' -> decode_bytes orc e root bs' = Ok m'.
Proof.
  intros Henv Hl Hlex Hlex' Hnull Hne P Hm Hd.
  rewrite (decode_bytes_tree orc e root bs (JObj ms) rest me Hlex) in Hd. unfold tr_decode in Hd. rewrite Hl in Hd.
  destruct (lenient_object orc e Henv props ms nulls ms1 ms' _ 0 [] [] m' (Henv root props (or_introl Hl)) Hnull Hne P Hm wf_nil Hd)
    as (f' & Hf').
  exact (settle_at orc e root bs' ms' rest' me' props m' f' Hl Hlex' Hf').
Qed.

(* a root that is itself a oneof *)
Theorem lenient_document_oneof orc e root props bs bs' ms ms1 ms' rest rest' me me' m' :
  env_ok e -> lookup e root = Some (SOneof props) ->
  lex bs = (tokens_of (JObj ms) ++ rest, me) -> lex bs' = (tokens_of (JObj ms') ++ rest', me') ->
  Permutation ms ms1 -> (type_count ms <= 1)%nat -> lenient_members orc e props ms1 ms' ->
  decode_bytes orc e root bs = Ok m' -> decode_bytes orc e root bs' = Ok m'.
Proof.
  intros Henv Hl Hlex Hlex' P Hc Hm Hd.
  rewrite (decode_bytes_tree orc e root bs (JObj ms) rest me Hlex) in Hd. unfold tr_decode in Hd. rewrite Hl in Hd.
  destruct (reordered_oneof orc e 0 props ms ms1 [] [] [] None m' _ (Henv root props (or_intror Hl)) P Hc wf_nil Hd) as (f0 & H0).
  destruct (level_all orc e Henv (msize ms1)) as (_ & _ & HN & _).
  destruct (HN props ms1 ms' (le_n _) Hm f0 0 [] [] [] None m' wf_nil H0) as (f' & Hf').
  pose proof (decode_bytes_total orc e root bs') as [Hnp Hnf].
  rewrite (decode_bytes_tree orc e root bs' (JObj ms') rest' me' Hlex') in *.
  unfold tr_decode in *. rewrite Hl in *.
  pose proof (tr_oneof_more_fuel orc e f' (S (jsize (JObj ms'))) 0 props ms' [] [] [] None _ Hf' ltac:(discriminate)) as H1.
  destruct (tr_oneof orc e (S (jsize (JObj ms'))) 0 props ms' [] [] [] None) as [x|c|s|] eqn:E; try congruence; try discriminate.
  - pose proof (tr_oneof_more_fuel orc e (S (jsize (JObj ms'))) f' 0 props ms' [] [] [] None _ E ltac:(discriminate)) as H2.
    rewrite Nat.add_comm in H2. congruence.
  - pose proof (tr_oneof_more_fuel orc e (S (jsize (JObj ms'))) f' 0 props ms' [] [] [] None _ E ltac:(discriminate)) as H2.
    rewrite Nat.add_comm in H2. congruence.
Qed.

Lemma env_ok_of_check e : CodecDecCommute.env_commute e = true -> env_ok e.
Proof. intros H ref props Hl. exact (env_commute_sound e ref props H Hl). Qed.

(* leaves: what the scalar theorems establish plugs in through L_scalar; e.g. one instant written at two offsets *)
From J5V.proofs Require CodecDecTime.
Lemma timestamp_lenient orc e f g : J5V.proofs.CodecDecTime.time_oracle_is_model orc ->
  J5V.proofs.CodecDecTime.shape f -> J5V.proofs.CodecDecTime.shape g ->
  J5V.proofs.CodecDecTime.in_range f = true -> J5V.proofs.CodecDecTime.in_range g = true ->
  J5V.proofs.CodecDecTime.instant f = J5V.proofs.CodecDecTime.instant g ->
  J5V.proofs.CodecDecTime.nanos f = J5V.proofs.CodecDecTime.nanos g ->
  lenient orc e (FScalar KTimestamp) (JStr (J5V.proofs.CodecDecTime.text f)) (JStr (J5V.proofs.CodecDecTime.text g)).
Proof.
  intros Ho Hf Hg Rf Rg Hi Hn. apply L_scalar; try reflexivity.
  - split; discriminate.
  - cbn [goval_of_json]. exact (J5V.proofs.CodecDecTime.timestamp_any_offset orc f g Ho Hf Hg Rf Rg Hi Hn).
Qed.

(* CodecDecLeaf.v — the leaf reading inside [CodecDecDenote.denotes], in independent terms.
   [denotes (FScalar k) j x] is stated with the conversion of the one token (scalar_from_go).  This file says
   what an accepted scalar token denotes WITHOUT that function, kind by kind, assembling the per-kind
   theorems: integers = the positional value of sign and digits within the width's range; bool / string /
   key as written; timestamps = a text of the RFC 3339 shape with fields in range and the instant it
   denotes; decimals = the canonical text of the number dec_parse reads; dates = three decimal numbers
   forming a calendar date; floats = the nearest-even rounding of the number written (for decimal texts
   within the law's exponent bound); bytes: the model's lenient base64 reading (canonical spellings are
   characterised by C03_base64_four_spellings; the lenient forms are not given an independent reading).
   [leaf_complete]: under the three oracle premises, whatever the conversion accepts has such a reading. *)
From Coq Require Import String List NArith ZArith Bool Lia.
From J5V.lib Require Import Outcome Json.
From J5V.lib Require Decimal.
From J5V.model Require Import CodecTypes CodecDecScalar CodecDec CodecDecTree CodecDecFloat.
From J5V.model Require CodecDecTime.
From J5V.proofs Require Import CodecDecExact.
From J5V.proofs Require CodecDecTime CodecDecDecimal CodecDecDenote.
Import ListNotations.
Local Open Scope Z_scope.

Module T := J5V.proofs.CodecDecTime.
Module D := J5V.proofs.CodecDecDecimal.

Definition json_text (j : jvalue) : option bytes :=
  match j with JStr s | JNum s => Some s | _ => None end.

Inductive leaf_reading (orc : oracles) : scalar_kind -> jvalue -> pval -> Prop :=
| LR_int k lo hi j s z :
    int_range k = Some (lo, hi) -> json_text j = Some s -> decimal_denotes s z -> lo <= z <= hi ->
    leaf_reading orc k j (VInt z)
| LR_bool b : leaf_reading orc KBool (JBool b) (VBool b)
| LR_string k s : k = KString \/ k = KKey -> leaf_reading orc k (JStr s) (VStr s)
| LR_timestamp f : T.shape f -> T.in_range f = true ->
    leaf_reading orc KTimestamp (JStr (T.text f)) (mk_timestamp (T.instant f) (T.nanos f))
| LR_decimal j s m e : json_text j = Some s -> Decimal.dec_parse s = Some (m, e) ->
    leaf_reading orc KDecimal j (mk_decimal (Decimal.dec_print m e))
| LR_date s a b c y m d : split_on 45 s [] = [a; b; c] ->
    decimal_denotes a y -> decimal_denotes b m -> decimal_denotes c d ->
    (0 <= y <= 9999 /\ 1 <= m <= 12 /\ 1 <= d <= days_in y m) ->
    leaf_reading orc KDate (JStr s) (mk_date y m d)
| LR_float64 j s bits : json_text j = Some s -> fst (o_float orc s) = Some bits ->
    (forall m e, Decimal.dec_parse s = Some (m, e) -> Z.abs e <= float_exp_bound -> rounds binary64 m e bits = true) ->
    leaf_reading orc KFloat64 j (VFloat bits)
| LR_float32 j s bits : json_text j = Some s -> snd (o_float orc s) = Some bits ->
    (forall m e, Decimal.dec_parse s = Some (m, e) -> Z.abs e <= float_exp_bound -> rounds binary32 m e bits = true) ->
    leaf_reading orc KFloat32 j (VFloat bits)
| LR_bytes s b : bytes_from_string s = Some b -> leaf_reading orc KBytes (JStr s) (VBytes b).

Lemma int_from_go_vint k v x : int_from_go k v = Ok (Some x) -> exists z, x = VInt z.
Proof.
  unfold int_from_go. intros H. destruct v as [|b|l|s]; try discriminate;
    repeat match type of H with
           | context[match ?t with _ => _ end] => destruct t; try discriminate
           | context[if ?t then _ else _] => destruct t; try discriminate
           end; inversion H; eauto.
Qed.

Lemma law_rounds (orc : oracles) s : float_oracle_law orc ->
  (forall bits, fst (o_float orc s) = Some bits -> forall m e, Decimal.dec_parse s = Some (m, e) ->
                Z.abs e <= float_exp_bound -> rounds binary64 m e bits = true) /\
  (forall bits, snd (o_float orc s) = Some bits -> forall m e, Decimal.dec_parse s = Some (m, e) ->
                Z.abs e <= float_exp_bound -> rounds binary32 m e bits = true).
Proof.
  intros L. specialize (L s). unfold float_obs_ok in L.
  split; intros bits Hb m e Hd He; rewrite Hd in L;
    (destruct (float_exp_bound <? Z.abs e) eqn:Eb; [apply Z.ltb_lt in Eb; lia|]);
    apply andb_true_iff in L; destruct L as [L1 L2]; rewrite Hb in *; assumption.
Qed.

Theorem leaf_complete orc :
  T.time_oracle_is_model orc -> D.decimal_oracle_is_model orc -> float_oracle_law orc ->
  forall k j x, is_container j = false -> scalar_from_go orc k (goval_of_json j) = Ok (Some x) ->
  leaf_reading orc k j x.
Proof.
  intros Ht Hd Hf k j x Hc H.
  assert (Hint : forall lo hi, int_range k = Some (lo, hi) -> int_from_go k (goval_of_json j) = Ok (Some x) -> leaf_reading orc k j x).
  { intros lo hi Hk Hi. destruct (int_from_go_vint _ _ _ Hi) as [z ->].
    assert (Hv : exists s, goval_of_json j = GStr s \/ goval_of_json j = GNum s).
    { destruct j; cbn in Hi |- *; try (destruct k; discriminate); eauto. }
    destruct (int_exact_decimal k lo hi _ z Hk Hv Hi) as [(s & Hs & Hden) Hr].
    eapply LR_int; [exact Hk | | exact Hden | exact Hr].
    destruct j; cbn in Hs |- *; destruct Hs as [Hs|Hs]; try discriminate; inversion Hs; reflexivity. }
  destruct k; cbn [scalar_from_go] in H.
  - eapply Hint; [reflexivity|exact H].
  - eapply Hint; [reflexivity|exact H].
  - eapply Hint; [reflexivity|exact H].
  - eapply Hint; [reflexivity|exact H].
  - (* float32 *)
    unfold float_from_go in H. destruct j as [|b0|l|l|js|ms]; cbn in H; try discriminate;
      (destruct (snd (o_float orc l)) as [b|] eqn:Eb; [|discriminate]); inversion H; subst;
      (eapply LR_float32; [reflexivity | exact Eb | apply (proj2 (law_rounds orc l Hf)); exact Eb]).
  - (* float64 *)
    unfold float_from_go in H. destruct j as [|b0|l|l|js|ms]; cbn in H; try discriminate;
      (destruct (fst (o_float orc l)) as [b|] eqn:Eb; [|discriminate]); inversion H; subst;
      (eapply LR_float64; [reflexivity | exact Eb | apply (proj1 (law_rounds orc l Hf)); exact Eb]).
  - destruct j as [|b0|l|s|js|ms]; cbn in H; try discriminate. inversion H; subst. constructor.
  - destruct j as [|b0|l|s|js|ms]; cbn in H; try discriminate. inversion H; subst. constructor. left; reflexivity.
  - destruct j as [|b0|l|s|js|ms]; cbn in H; try discriminate. destruct (bytes_from_string s) as [b|] eqn:Eb; [|discriminate].
    inversion H; subst. constructor. exact Eb.
  - destruct j as [|b0|l|s|js|ms]; cbn in H; try discriminate. inversion H; subst. constructor. right; reflexivity.
  - (* date *)
    destruct j as [|b0|l|s|js|ms]; cbn in H; try discriminate. destruct (date_from_string s) as [[[y m] d]|] eqn:Ed; [|discriminate].
    inversion H; subst. destruct (date_exact_strong s y m d Ed) as (a & b & c & Hs & Ha & Hb & Hc' & Hr).
    eapply LR_date; eassumption.
  - (* decimal *)
    assert (G : forall quoted s, goval_of_json j = D.dec_goval quoted s -> json_text j = Some s -> leaf_reading orc KDecimal j x).
    { intros quoted s Hg Hjt. rewrite Hg in H. cbn [scalar_from_go] in H.
      assert (exists c, x = mk_decimal c) as [c ->].
      { unfold D.dec_goval in H. destruct quoted; cbn in H;
          (destruct (o_decimal orc s) as [[dd ex]|]; [|discriminate]);
          (destruct (max_decimal_exponent <? Z.abs ex); [discriminate|]); inversion H; eauto. }
      destruct (D.decimal_exact orc quoted s c Hd) as (m & e & b & Hp & -> & _).
      { exact H. }
      eapply LR_decimal; eassumption. }
    destruct j as [|b0|l|s|js|ms]; cbn in H; try discriminate.
    + apply (G false l); reflexivity.
    + apply (G true s); reflexivity.
  - (* timestamp *)
    destruct j as [|b0|l|s|js|ms]; cbn in H; try discriminate. rewrite (Ht s) in H.
    destruct (CodecDecTime.go_time_parse s) as [[sec ns]|] eqn:Ep; [|discriminate]. inversion H; subst.
    destruct (T.time_parse_inv s sec ns Ep) as (f & Hsh & Hr & -> & -> & ->). constructor; assumption.
Qed.

(* the scalar leaves of a denotation have an independent reading *)
Corollary denoted_scalar_reading orc e k j x :
  T.time_oracle_is_model orc -> D.decimal_oracle_is_model orc -> float_oracle_law orc ->
  CodecDecDenote.denotes orc e (FScalar k) j x -> leaf_reading orc k j x.
Proof.
  intros Ht Hd Hf H. inversion H; subst. apply leaf_complete; assumption.
Qed.

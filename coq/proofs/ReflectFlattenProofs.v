(* ReflectFlattenProofs.v — lemmas behind props/C18.v (part 5: ObjectSchema.ClientProperties
   terminates on every reflected schema set).
   The flatten graph of a schema set: an edge from key a to key b when the entry of a is a linked
   object with a flattened object property referring to b.  checkFlattenCycle (flatten_cycle) is a
   closed-set search: when it answers "no cycle" the keys it has seen are closed under the edges
   and do not contain the root.  A third pass over the reader model in the "if it returns Ok then"
   style shows that the graph of every state of a successful reflection is acyclic; at the end a
   path of the graph has pairwise distinct keys of the set, so its length is at most the size of
   the set, which is the fuel of client_props. *)
From Coq Require Import String List Arith NArith ZArith Bool Lia.
From J5V.lib Require Import Outcome.
From J5V.model Require Import ReflectDesc ReflectSchema Reflect ReflectSpec Export.
From J5V.proofs Require Import ReflectProofs ExportProofs ReflectInvProofs ReflectPathProofs.
Import ListNotations.
Local Open Scope bool_scope.

(* ---------------------------------------------------------------- the flatten graph *)
Definition targets_of (st : sset) (a : ref) : list ref :=
  match lookup st a with Some e => entry_targets e | None => [] end.
Definition edge (st : sset) (a b : ref) : Prop := In b (targets_of st a).

Inductive reach (st : sset) : ref -> ref -> Prop :=
| reach_one a b : edge st a b -> reach st a b
| reach_step a b c : edge st a b -> reach st b c -> reach st a c.

Definition acyclic (st : sset) : Prop := forall k, ~ reach st k k.

Lemma reach_trans st a b c : reach st a b -> reach st b c -> reach st a c.
Proof.
  induction 1 as [a b H|a b b' H H1 IH]; intros H2.
  - eapply reach_step; eauto.
  - eapply reach_step; [exact H|]. apply IH. exact H2.
Qed.

Lemma reach_sub st st' : (forall a b, edge st' a b -> edge st a b) -> forall a b, reach st' a b -> reach st a b.
Proof.
  intros Hs a b H. induction H as [a b H|a b c H H1 IH].
  - apply reach_one. apply Hs. exact H.
  - eapply reach_step; [apply Hs; exact H|exact IH].
Qed.

Lemma acyclic_sub st st' : (forall a b, edge st' a b -> edge st a b) -> acyclic st -> acyclic st'.
Proof. intros Hs Ha k Hk. apply (Ha k). eapply reach_sub; eauto. Qed.

Lemma acyclic_nil : acyclic [].
Proof. intros k H. inversion H as [a b He|a b c He]; subst; destruct He. Qed.

(* an entry without flattened properties adds no edge *)
Lemma acyclic_cons st k e : entry_targets e = [] -> acyclic st -> acyclic ((k, e) :: st).
Proof.
  intros He. apply acyclic_sub. intros a b. unfold edge, targets_of. rewrite lookup_cons.
  destruct (ref_eqb k a); [rewrite He; intros []|exact (fun H => H)].
Qed.

Lemma acyclic_update_leaf st k e : entry_targets e = [] -> acyclic st -> acyclic (update st k e).
Proof.
  intros He. apply acyclic_sub. intros a b. unfold edge, targets_of. rewrite lookup_update.
  destruct (ref_eqb k a); [|exact (fun H => H)].
  destruct (lookup st k); [rewrite He|]; intros [].
Qed.

(* ---------------------------------------------------------------- the search is a closed-set search *)
Definition closed_upto (st : sset) (seen todo : list ref) : Prop :=
  forall a b, In a seen -> edge st a b -> In b seen \/ In b todo.

Lemma flatten_walk_closed st rootk : forall fuel seen todo,
  flatten_walk fuel st rootk seen todo = Some false ->
  ~ In rootk seen -> closed_upto st seen todo ->
  exists seen', incl seen seen' /\ incl todo seen' /\ ~ In rootk seen' /\ closed_upto st seen' [].
Proof.
  induction fuel as [|fuel IH]; intros seen todo H Hr Hc; cbn [flatten_walk] in H; [discriminate|].
  destruct todo as [|k rest].
  - exists seen. split; [apply incl_refl|]. split; [intros x []|]. split; [exact Hr|exact Hc].
  - destruct (ref_eqb k rootk) eqn:Ek; [discriminate|].
    destruct (existsb (ref_eqb k) seen) eqn:Es.
    + apply existsb_exists in Es as (k' & Hin & Hk'). apply ref_eqb_eq in Hk'. subst k'.
      destruct (IH seen rest H Hr) as (seen' & I1 & I2 & I3 & I4).
      { intros a b Ha He. destruct (Hc a b Ha He) as [Hb|[Hb|Hb]]; [left; exact Hb|subst b; left; exact Hin|right; exact Hb]. }
      exists seen'. split; [exact I1|]. split; [|split; [exact I3|exact I4]].
      intros x [Hx|Hx]; [subst x; apply I1; exact Hin|apply I2; exact Hx].
    + destruct (IH (k :: seen) (targets_of st k ++ rest) H) as (seen' & I1 & I2 & I3 & I4).
      { intros [Hx|Hx]; [subst k; rewrite ref_eqb_refl in Ek; discriminate|exact (Hr Hx)]. }
      { intros a b [Ha|Ha] He.
        - subst a. right. apply in_or_app. left. exact He.
        - destruct (Hc a b Ha He) as [Hb|[Hb|Hb]]; [left; right; exact Hb|left; left; exact Hb|right; apply in_or_app; right; exact Hb]. }
      exists seen'. split; [intros x Hx; apply I1; right; exact Hx|]. split; [|split; [exact I3|exact I4]].
      intros x [Hx|Hx]; [subst x; apply I1; left; reflexivity|apply I2; apply in_or_app; right; exact Hx].
Qed.

(* "no cycle": a set of keys that contains the flattened targets, is closed under the edges and
   does not contain the root *)
Lemma flatten_cycle_closed st rootk ps :
  flatten_cycle st rootk ps = Some false ->
  exists seen, incl (flat_targets ps) seen /\ ~ In rootk seen /\
               (forall a b, In a seen -> edge st a b -> In b seen).
Proof.
  intros H. unfold flatten_cycle in H.
  destruct (flatten_walk_closed st rootk _ [] _ H (fun x => x)) as (seen & _ & I2 & I3 & I4).
  { intros a b []. }
  exists seen. split; [exact I2|]. split; [exact I3|].
  intros a b Ha He. destruct (I4 a b Ha He) as [Hb|[]]. exact Hb.
Qed.

(* linking the root after the check keeps the graph acyclic *)
Lemma acyclic_link st k r :
  acyclic st ->
  (exists seen, incl (entry_targets (Linked r)) seen /\ ~ In k seen /\
                (forall a b, In a seen -> edge st a b -> In b seen)) ->
  acyclic (update st k (Linked r)).
Proof.
  intros Ha (seen & Ht & Hk & Hcl). set (st2 := update st k (Linked r)).
  (* edges of nodes other than k are unchanged *)
  assert (Hsame : forall a b, a <> k -> (edge st2 a b <-> edge st a b)).
  { intros a b Hne. unfold edge, targets_of, st2. rewrite lookup_update.
    destruct (ref_eqb k a) eqn:E; [apply ref_eqb_eq in E; congruence|reflexivity]. }
  assert (Hk2 : forall b, edge st2 k b -> In b seen).
  { intros b He. unfold edge, targets_of, st2 in He. rewrite lookup_update, ref_eqb_refl in He.
    destruct (lookup st k); [apply Ht; exact He|destruct He]. }
  (* seen is closed in the new graph as well *)
  assert (Hcl2 : forall a b, In a seen -> reach st2 a b -> In b seen).
  { intros a b Hin H. induction H as [a b He|a b c He H1 IH].
    - apply (Hcl a b Hin). apply Hsame; [intros ->; exact (Hk Hin)|exact He].
    - apply IH. apply (Hcl a b Hin). apply Hsame; [intros ->; exact (Hk Hin)|exact He]. }
  (* a path of the new graph is a path of the old one, or passes through k *)
  assert (Hdec : forall a b, reach st2 a b ->
            reach st a b \/ ((a = k \/ reach st a k) /\ exists t, In t seen /\ (t = b \/ reach st2 t b))).
  { intros a b H. induction H as [a b He|a b c He H1 IH].
    - destruct (ref_eqb a k) eqn:E.
      + apply ref_eqb_eq in E. subst a. right. split; [left; reflexivity|]. exists b. split; [apply Hk2; exact He|left; reflexivity].
      + left. apply reach_one. apply Hsame; [intros ->; rewrite ref_eqb_refl in E; discriminate|exact He].
    - destruct (ref_eqb a k) eqn:E.
      + apply ref_eqb_eq in E. subst a. right. split; [left; reflexivity|]. exists b. split; [apply Hk2; exact He|right; exact H1].
      + assert (He' : edge st a b) by (apply Hsame; [intros ->; rewrite ref_eqb_refl in E; discriminate|exact He]).
        destruct IH as [IH|[[Hb|Hb] Ht2]].
        * left. eapply reach_step; eauto.
        * subst b. right. split; [right; apply reach_one; exact He'|exact Ht2].
        * right. split; [right; eapply reach_step; eauto|exact Ht2]. }
  intros x Hx. destruct (Hdec x x Hx) as [H|[Hxk (t & Hts & Htx)]]; [exact (Ha x H)|].
  assert (Hxs : In x seen) by (destruct Htx as [->|Htx]; [exact Hts|exact (Hcl2 t x Hts Htx)]).
  destruct Hxk as [->|Hxk]; [exact (Hk Hxs)|].
  apply Hk. clear -Hcl Hxs Hxk. induction Hxk as [a b He|a b c He H1 IH].
  - exact (Hcl a b Hxs He).
  - apply IH. exact (Hcl a b Hxs He).
Qed.

(* ---------------------------------------------------------------- the pass over the reader *)
Section Pass.
Variable D : desc.

Lemma build_enum_no_targets e r : build_enum e = Ok r -> entry_targets (Linked r) = [].
Proof. intros H. pose proof (build_enum_is_enum e r H) as Hr. destruct r; try discriminate. reflexivity. Qed.

Lemma build_enum_field_acyc st f x st1 s :
  acyclic st -> build_enum_field D st f x = Ok (st1, s) -> acyclic st1.
Proof.
  intros HA H. unfold build_enum_field in H.
  destruct (f_ty f) as [|full|full]; try discriminate.
  destruct (find_enum D full) as [e|]; [|discriminate].
  assert (Hst : exists st0, enum_ref st e = Ok st0 /\ acyclic st0).
  { destruct (enum_ref st e) as [st0| | |] eqn:Er; cbn [obind] in H; try discriminate.
    exists st0. split; [reflexivity|].
    destruct (enum_ref_inv st e st0 Er) as [[-> _]|(_ & r & Eb & ->)]; [exact HA|].
    apply acyclic_cons; [eapply build_enum_no_targets; eauto|exact HA]. }
  destruct Hst as (st0 & Hst0 & HA0). rewrite Hst0 in H. cbn [obind] in H.
  match type of H with obind ?o _ = _ => destruct o as [rules| | |]; cbn [obind] in H; try discriminate end.
  inversion H; subst st1 s. exact HA0.
Qed.

Section LevelA.
Variable rec : sset -> msgd -> outcome (sset * root).
Hypothesis HrecA : forall st m st1 r, acyclic st -> rec st m = Ok (st1, r) -> acyclic (update st1 (msg_key m) (Linked r)).

Lemma build_message_field_acyc st f x st1 s :
  acyclic st -> build_message_field D rec st f x = Ok (st1, s) -> acyclic st1.
Proof.
  intros HA H. unfold build_message_field in H.
  destruct (f_ty f) as [|full|full]; try discriminate.
  destruct (wkt_schema full x) as [[w|]|cls]; cbn [lift obind] in H; try discriminate.
  - inversion H; subst st1 s. exact HA.
  - destruct (has_prefix s_google_protobuf full); [discriminate|].
    destruct (find_msg D full) as [m|]; [|discriminate].
    destruct (lookup st (msg_key m)) as [en|] eqn:El; [destruct (is_enum_entry en); cbn [obind] in H; [discriminate|]|cbn [obind] in H].
    + inversion H; subst st1 s. exact HA.
    + destruct (rec ((msg_key m, Placeholder) :: st) m) as [[st2 r]| | |] eqn:Er; cbn [obind] in H; try discriminate.
      inversion H; subst st1 s.
      apply (HrecA ((msg_key m, Placeholder) :: st) m st2 r); [apply acyclic_cons; [reflexivity|exact HA]|exact Er].
Qed.

Lemma build_schema_acyc st f x st1 s :
  acyclic st -> build_schema D rec st f x = Ok (st1, s) -> acyclic st1.
Proof.
  intros HA H. unfold build_schema in H.
  destruct (f_kind f);
    try (destruct (build_scalar _ x) as [p|cls]; cbn [lift obind] in H; [|discriminate];
         inversion H; subst st1 s; exact HA).
  - eapply build_enum_field_acyc; eauto.
  - eapply build_message_field_acyc; eauto.
Qed.

Lemma build_field_prop_acyc st f st1 p :
  acyclic st -> build_field_prop D rec st f = Ok (st1, p) -> acyclic st1.
Proof.
  intros HA H. unfold build_field_prop in H.
  destruct (f_card f) as [| | |kk].
  - destruct (build_schema D rec st f (field_exts f)) as [[a b]| | |] eqn:Eb; cbn [obind] in H; try discriminate.
    inversion H; subst st1 p. eapply build_schema_acyc; eauto.
  - destruct (build_schema D rec st f (field_exts f)) as [[a b]| | |] eqn:Eb; cbn [obind] in H; try discriminate.
    inversion H; subst st1 p. eapply build_schema_acyc; eauto.
  - destruct (x_vty (field_exts f)); cbn in H;
      match type of H with obind ?o _ = _ => destruct o as [[a b]| | |] eqn:Eb; cbn [obind] in H; try discriminate end;
      inversion H; subst st1 p; eapply build_schema_acyc; eauto.
  - destruct (negb (kind_eqb kk KString)); [discriminate|].
    destruct (x_vty (field_exts f)); cbn in H;
      match type of H with obind ?o _ = _ => destruct o as [[a b]| | |] eqn:Eb; cbn [obind] in H; try discriminate end;
      inversion H; subst st1 p; eapply build_schema_acyc; eauto.
Qed.

Lemma fields_loop_acyc m fs : forall st exs st2 exs2 ps,
  acyclic st -> fields_loop D rec m st exs fs = Ok (st2, exs2, ps) -> acyclic st2.
Proof.
  induction fs as [|f r IH]; intros st exs st2 exs2 ps HA H; cbn [fields_loop] in H.
  - inversion H; subst. exact HA.
  - destruct (build_field_prop D rec st f) as [[st1 p]| | |] eqn:Eb; cbn [obind] in H; try discriminate.
    pose proof (build_field_prop_acyc _ _ _ _ HA Eb) as HA1.
    assert (Hdirect : forall exs', obind (fields_loop D rec m st1 exs' r) (fun '(st2, exs2, ps) => Ok (st2, exs2, p :: ps)) = Ok (st2, exs2, ps) ->
              acyclic st2).
    { intros exs' H'. destruct (fields_loop D rec m st1 exs' r) as [[[a b] c]| | |] eqn:E; cbn [obind] in H'; try discriminate.
      inversion H'; subst. eapply IH; eauto. }
    destruct (f_card f); try (eapply Hdirect; exact H);
      (destruct (f_oneof f) as [idx|]; [|eapply Hdirect; exact H];
       destruct (oneof_is_synthetic m idx); [eapply Hdirect; exact H|];
       destruct (add_to_exposed exs idx p) as [[exs1 pending]|] eqn:Ea; [|eapply Hdirect; exact H]).
    all: destruct (fields_loop D rec m st1 exs1 r) as [[[a b] c]| | |] eqn:E; cbn [obind] in H; try discriminate.
    all: inversion H; subst a b ps; clear H.
    all: eapply IH; eauto.
Qed.
End LevelA.

Lemma register_oneofs_acyc m : forall os idx st st1 exs,
  acyclic st -> register_oneofs m st idx os = ROk (st1, exs) -> acyclic st1.
Proof.
  induction os as [|[name jname syn ext0 d] r IH]; intros idx st st1 exs HA H; cbn [register_oneofs] in H.
  - inversion H; subst. exact HA.
  - destruct syn; [eapply IH; eauto|].
    destruct ext0 as [[|]|]; try (eapply IH; eauto; fail).
    destruct (lookup st (oneof_key m name)); [discriminate|].
    destruct (register_oneofs m _ (N.succ idx) r) as [[st2 exs2]|] eqn:E; cbn [rbind] in H; [|discriminate].
    inversion H; subst st1 exs. eapply IH; [|exact E]. apply acyclic_cons; [reflexivity|exact HA].
Qed.

Lemma finish_oneofs_acyc : forall exs st, acyclic st -> acyclic (finish_oneofs st exs).
Proof.
  unfold finish_oneofs. induction exs as [|e r IH]; intros st HA; cbn [fold_left]; [exact HA|].
  destruct (lookup st (ex_key e)) as [[|[| nm dd ps|]]|] eqn:El; try (apply IH; assumption).
  apply IH. apply acyclic_update_leaf; [reflexivity|exact HA].
Qed.

Section BuildA.
Variable rec : sset -> msgd -> outcome (sset * root).
Hypothesis HrecA : forall st m st1 r, acyclic st -> rec st m = Ok (st1, r) -> acyclic (update st1 (msg_key m) (Linked r)).

Lemma message_properties_acyc st m st1 ps :
  acyclic st -> message_properties D rec st m = Ok (st1, ps) -> acyclic st1.
Proof.
  intros HA H. unfold message_properties in H.
  destruct (register_oneofs m st 0 (m_oneofs m)) as [[sta exs]|cls] eqn:Ereg; cbn [lift obind] in H; [|discriminate].
  pose proof (register_oneofs_acyc m _ _ _ _ _ HA Ereg) as HAa.
  destruct (fields_loop D rec m sta exs (m_fields m)) as [[[stb exs2] ps2]| | |] eqn:Ef; cbn [obind] in H; try discriminate.
  pose proof (fields_loop_acyc rec HrecA m _ _ _ _ _ _ HAa Ef) as HAb.
  destruct (existsb ex_pending exs2); [discriminate|]. destruct (negb (exs_names_ok exs2)); [discriminate|]. inversion H; subst st1 ps.
  apply finish_oneofs_acyc. exact HAb.
Qed.

Lemma build_root_acyc st m st1 r :
  acyclic st -> build_root D rec st m = Ok (st1, r) -> acyclic (update st1 (msg_key m) (Linked r)).
Proof.
  intros HA H. unfold build_root in H.
  destruct (message_properties D rec st m) as [[sta ps]| | |] eqn:Em; cbn [obind] in H; try discriminate.
  pose proof (message_properties_acyc _ _ _ _ HA Em) as HAa.
  destruct (negb (props_valid ps)); [discriminate|].
  destruct (is_oneof_wrapper m).
  - inversion H; subst st1 r. apply acyclic_update_leaf; [reflexivity|exact HAa].
  - destruct (flatten_cycle sta (msg_key m) ps) as [[|]|] eqn:Efc; try discriminate.
    destruct (find_psm D m) as [ent|cls]; cbn [lift obind] in H; [|discriminate].
    inversion H; subst st1 r. apply acyclic_link; [exact HAa|].
    cbn [entry_targets]. apply flatten_cycle_closed. exact Efc.
Qed.
End BuildA.

Lemma build_msg_acyc : forall fuel st m st1 r,
  acyclic st -> build_msg D fuel st m = Ok (st1, r) -> acyclic (update st1 (msg_key m) (Linked r)).
Proof.
  induction fuel as [|fuel IH]; intros st m st1 r HA H; [discriminate|].
  cbn [build_msg] in H. eapply build_root_acyc; [|exact HA|exact H].
  intros st' m' st1' r' HA' H'. eapply IH; eauto.
Qed.

Lemma message_schema_acyc fuel st m st1 r :
  acyclic st -> message_schema D fuel st m = Ok (st1, r) -> acyclic st1.
Proof.
  intros HA H. unfold message_schema in H.
  destruct (lookup st (msg_key m)) as [[|r0]|] eqn:El; try discriminate.
  - inversion H; subst. exact HA.
  - destruct (build_msg D fuel ((msg_key m, Placeholder) :: st) m) as [[st2 r2]| | |] eqn:Eb; cbn [obind] in H; try discriminate.
    inversion H; subst st1 r.
    apply (build_msg_acyc fuel ((msg_key m, Placeholder) :: st) m st2 r2); [apply acyclic_cons; [reflexivity|exact HA]|exact Eb].
Qed.

Lemma messages_loop_acyc fuel : forall ms st st1, acyclic st -> messages_loop D fuel st ms = Ok st1 -> acyclic st1.
Proof.
  induction ms as [|full r IH]; intros st st1 HA H; cbn [messages_loop] in H; [inversion H; subst; exact HA|].
  destruct (find_msg D full) as [m|]; [|discriminate].
  destruct (message_schema D fuel st m) as [[st2 r2]| | |] eqn:Em; cbn [obind] in H; try discriminate.
  eapply IH; [|exact H]. eapply message_schema_acyc; eauto.
Qed.

Lemma enums_loop_acyc : forall es st st1, acyclic st -> enums_loop D st es = Ok st1 -> acyclic st1.
Proof.
  induction es as [|full r IH]; intros st st1 HA H; cbn [enums_loop] in H; [inversion H; subst; exact HA|].
  destruct (find_enum D full) as [e|]; [|discriminate].
  destruct (lookup st (enum_key e)); [eapply IH; eauto|].
  destruct (build_enum e) as [root| | |] eqn:Eb; cbn [obind] in H; try discriminate.
  eapply IH; [|exact H]. apply acyclic_cons; [eapply build_enum_no_targets; eauto|exact HA].
Qed.

(* the flatten graph of every successfully reflected set is acyclic (no hypothesis on D) *)
Theorem reflect_acyclic fs S : reflect D fs = Ok S -> acyclic S.
Proof.
  unfold reflect, reflect_files. destruct (collect fs) as [ms es]. intros H.
  destruct (messages_loop D (size D) [] ms) as [st| | |] eqn:Em; cbn [obind] in H; try discriminate.
  eapply enums_loop_acyc; [|exact H]. eapply messages_loop_acyc; [apply acyclic_nil|exact Em].
Qed.
End Pass.

(* ---------------------------------------------------------------- ClientProperties terminates *)
Lemma client_props_cons f st p r :
  client_props (S f) st (p :: r) =
  match p with
  | Prop_ _ path _ _ _ (FObject k true _ _) =>
      match lookup st k with
      | Some (Linked (RObject _ _ _ _ cps)) =>
          obind (client_props f st cps) (fun children =>
          obind (client_props (S f) st r) (fun rest =>
          Ok (map (fun c => match c with Prop_ j cp rq eo d s => Prop_ j (path ++ cp) rq eo d s end) children ++ rest)))
      | _ => Panic "ObjectField.Schema: Ref.To.(ObjectSchema)"
      end
  | _ => obind (client_props (S f) st r) (fun rest => Ok (p :: rest))
  end.
Proof. reflexivity. Qed.

Lemma flat_target_in ps t :
  In t (flat_targets ps) -> exists p, In p ps /\ exists rl ex, p_schema p = FObject t true rl ex.
Proof.
  unfold flat_targets. intros H. apply in_flat_map in H as (p & Hp & Ht). exists p. split; [exact Hp|].
  destruct (p_schema p) as [| | |r fl rl ex| | |]; try destruct Ht. destruct fl; [|destruct Ht].
  destruct Ht as [->|[]]. eauto.
Qed.

Section Terminates.
Variable D : desc.
Hypothesis Hwk : wf_keys D.
Variable S : sset.
Hypothesis HO : InvO D S.
Hypothesis HA : acyclic S.
Hypothesis Hclosed : forall k r, lookup S k = Some (Linked r) ->
  forall k2, In k2 (root_refs r) -> exists r2, lookup S k2 = Some (Linked r2).

(* a flattened property of a linked object refers to a linked object *)
Lemma flat_target_object k r t :
  lookup S k = Some (Linked r) -> In t (entry_targets (Linked r)) ->
  exists a b c d cps, lookup S t = Some (Linked (RObject a b c d cps)).
Proof.
  intros Hl Ht. destruct r as [a0 b0 c0 d0 ps| |]; try destruct Ht. cbn [entry_targets] in Ht.
  destruct (flat_target_in ps t Ht) as (p & Hp & rl & ex & Hps).
  destruct (Hclosed k _ Hl t) as (r2 & Hl2).
  { unfold root_refs. cbn [root_props]. apply (refs_of_prop_in ps p Hp). rewrite Hps. left. reflexivity. }
  pose proof (HO _ _ Hl) as Ho. unfold origin_b in Ho.
  apply orb_true_iff in Ho as [Ho|Ho]; [apply orb_true_iff in Ho as [Ho|Ho]|].
  - apply existsb_exists in Ho as (m & Hm & Hc). apply andb_prop in Hc as [_ Hall]. cbn [root_props] in Hall.
    pose proof (proj1 (forallb_forall _ _) Hall p Hp) as Hfrom. unfold prop_from_b in Hfrom.
    assert (Hmem : member_from_b D m p = true).
    { destruct (p_path p); [rewrite Hps in Hfrom; discriminate|exact Hfrom]. }
    unfold member_from_b in Hmem. destruct (p_path p) as [|n [|n2 rest]]; try discriminate.
    apply existsb_exists in Hmem as (f & Hf & Hc). apply andb_prop in Hc as [_ Hs]. rewrite Hps in Hs.
    cbn [shape_b] in Hs. apply andb_prop in Hs as [_ Hs]. apply andb_prop in Hs as [_ Hs].
    destruct (find_msg D (value_full f)) as [m2|] eqn:Ef; [|discriminate].
    apply andb_prop in Hs as [H1 H2]. apply ref_eqb_eq in H1. subst t. apply negb_true_iff in H2.
    assert (Hm2 : In m2 (d_msgs D)) by (eapply find_msg_In; eauto).
    destruct (msg_entry_kind D Hwk S HO m2 r2 Hm2 Hl2) as [E1 E2]. rewrite H2 in E2.
    destruct r2 as [a b c d cps| |]; try discriminate. eauto 6.
  - apply existsb_exists in Ho as (m & Hm & Hc). apply andb_prop in Hc as [Hc _]. apply andb_prop in Hc as [_ Hc]. discriminate.
  - apply existsb_exists in Ho as (e & He & Hc). apply andb_prop in Hc as [_ Hc]. discriminate.
Qed.

Lemma lookup_key_in k e : lookup S k = Some e -> In k (map fst S).
Proof. intros H. apply lookup_Some_In in H. apply (in_map fst) in H. exact H. Qed.

Lemma client_props_ok : forall f anc cur ps,
  (forall t, In t (flat_targets ps) -> edge S cur t) ->
  NoDup anc -> incl anc (map fst S) -> (forall a, In a anc -> a = cur \/ reach S a cur) ->
  length S < f + length anc ->
  exists out, client_props f S ps = Ok out.
Proof.
  induction f as [|f IH]; intros anc cur ps Hedge Hnd Hincl Hreach Hlen.
  - exfalso. pose proof (NoDup_incl_length Hnd Hincl) as H. rewrite map_length in H. lia.
  - induction ps as [|p r IHps]; [exists []; reflexivity|].
    destruct IHps as (rest & Hrest).
    { intros t Ht. apply Hedge. unfold flat_targets in *. cbn [flat_map]. apply in_or_app. right. exact Ht. }
    rewrite client_props_cons, Hrest.
    destruct p as [j path rq eo d s].
    destruct s as [| | |k fl rl ex| | |]; try (cbn [obind]; eauto; fail).
    destruct fl; [|cbn [obind]; eauto].
    assert (He : edge S cur k).
    { apply Hedge. unfold flat_targets. cbn [flat_map p_schema]. left. reflexivity. }
    assert (Hobj : exists a b c d0 cps, lookup S k = Some (Linked (RObject a b c d0 cps))).
    { unfold edge, targets_of in He. destruct (lookup S cur) as [[|rc]|] eqn:Ec; try destruct He.
      eapply flat_target_object; eauto. }
    destruct Hobj as (a & b & c & d0 & cps & Hk). rewrite Hk.
    assert (Hnotin : ~ In k anc).
    { intros Hin. destruct (Hreach k Hin) as [->|Hr].
      - apply (HA cur). apply reach_one. exact He.
      - apply (HA cur). eapply reach_step; eauto. }
    destruct (IH (k :: anc) k cps) as (children & Hch).
    + intros t Ht. unfold edge, targets_of. rewrite Hk. exact Ht.
    + constructor; assumption.
    + intros x [<-|Hx]; [eapply lookup_key_in; eauto|apply Hincl; exact Hx].
    + intros x [<-|Hx]; [left; reflexivity|]. right.
      destruct (Hreach x Hx) as [->|Hr]; [apply reach_one; exact He|].
      eapply reach_trans; [exact Hr|apply reach_one; exact He].
    + cbn [length]. lia.
    + rewrite Hch. cbn [obind]. eauto.
Qed.

Theorem client_props_terminates k r :
  lookup S k = Some (Linked r) -> exists out, client_props_of S r = Ok out.
Proof.
  intros Hl. destruct r as [a b c d ps|a b ps|a b c d e]; cbn [client_props_of]; eauto.
  apply (client_props_ok (length S + 1) [k] k ps).
  - intros t Ht. unfold edge, targets_of. rewrite Hl. exact Ht.
  - constructor; [intros []|constructor].
  - intros x [<-|[]]. eapply lookup_key_in; eauto.
  - intros x [<-|[]]. left. reflexivity.
  - cbn [length]. lia.
Qed.
End Terminates.

(* for every descriptor set whose split names are distinct: on every successfully reflected set,
   ClientProperties of every entry returns (no stack overflow, no failed type assertion) *)
Theorem reflect_client_props_terminate D fs S :
  wf_keys D -> reflect D fs = Ok S ->
  forall k r, lookup S k = Some (Linked r) -> exists out, client_props_of S r = Ok out.
Proof.
  intros Hwk HS k r Hl.
  destruct (reflect_ok_guarantees D Hwk fs S HS) as (_ & _ & Hcl & _ & Hnp).
  apply (client_props_terminates D Hwk S (reflect_origin D fs S HS) (reflect_acyclic D fs S HS)) with (k := k); [|exact Hl].
  intros k1 r1 Hl1 k2 Hk2. unfold set_closed, refs_resolved in Hcl.
  pose proof (proj1 (forallb_forall _ _) Hcl (k1, Linked r1) (lookup_Some_In S k1 _ Hl1)) as H. cbn [snd] in H.
  pose proof (proj1 (forallb_forall _ _) H k2 Hk2) as H2. cbn beta in H2.
  destruct (lookup S k2) as [[|r2]|]; try discriminate. eauto.
Qed.

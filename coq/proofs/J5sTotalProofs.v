(* J5sTotalProofs.v — acceptance: every valid source file converts (no error, no panic, no
   fuel), for whole files with services and topics. *)
From Coq Require Import String List NArith Bool Lia.
From J5V.lib Require Import Outcome Corr.
From J5V.model Require Import J5sAst Desc J5sWalk J5sLink J5sConvert J5sContract J5sValid.
From J5V.proofs Require Import J5sProofs J5sContractProofs J5sLinkProofs.
Import ListNotations.
Local Open Scope N_scope.

Section Total.
Variables snake camel screaming : str -> str.
Variable ev : env.
Notation cv_props := (cv_props snake camel screaming).
Notation cv_virtual := (cv_virtual snake camel screaming).
Notation cv_nested := (cv_nested snake camel screaming).
Notation cv_nesteds := (cv_nesteds snake camel screaming).
Notation wf_props := (wf_props snake camel).
Notation wf_nested := (wf_nested snake camel).
Notation wf_nesteds := (wf_nesteds snake camel).

Lemma props_total ps io : wf_props ev io ps = true -> forall path num, exists r, cv_props ev path io num ps = Ok r.
Proof. exact (proj1 (proj2 (convert_total snake camel screaming ev)) ps io). Qed.

Lemma and4 a c d e : a && c && d && e = true -> a = true /\ c = true /\ d = true /\ e = true.
Proof. intros H. repeat (apply andb_true_iff in H; destruct H as [H ?]). auto. Qed.

Theorem nested_total :
  (forall n, wf_nested ev n = true -> forall path, exists r, cv_nested ev path n = Ok r) /\
  (forall ns, wf_nesteds ev ns = true -> forall path, exists r, cv_nesteds ev path ns = Ok r).
Proof.
  apply nested_mutind.
  - intros nm ps subs IH H path. cbn in H. repeat (apply andb_true_iff in H; destruct H as [H ?]).
    rewrite (cv_nested_obj snake camel screaming).
    destruct (props_total ps false ltac:(assumption) (path ++ [nm]) 1) as [r Hr]. rewrite Hr. cbn [obind].
    destruct (IH ltac:(assumption) (path ++ [nm])) as [[[sm se] si] Hs]. rewrite Hs. cbn [obind]. eexists; reflexivity.
  - intros nm ps subs IH H path. cbn in H. repeat (apply andb_true_iff in H; destruct H as [H ?]).
    rewrite (cv_nested_oneof snake camel screaming).
    destruct (props_total ps true ltac:(assumption) (path ++ [nm]) 1) as [r Hr]. rewrite Hr. cbn [obind].
    destruct (IH ltac:(assumption) (path ++ [nm])) as [[[sm se] si] Hs]. rewrite Hs. cbn [obind]. eexists; reflexivity.
  - intros e _ path. eexists; reflexivity.
  - intros _ path. eexists; reflexivity.
  - intros n IHn r IHr H path. cbn in H. apply andb_true_iff in H. destruct H as [H1 H2].
    rewrite (cv_nesteds_cons snake camel screaming).
    destruct (IHn H1 path) as [[[am ae] ai] Ha]. rewrite Ha. cbn [obind].
    destruct (IHr H2 path) as [[[cm ce] ci] Hc]. rewrite Hc. cbn [obind]. eexists; reflexivity.
Qed.

Lemma virtual_total name virt ps :
  wf_virtual snake camel ev (papp virt ps) = true -> exists r, cv_virtual ev name virt ps = Ok r.
Proof.
  unfold wf_virtual, J5sConvert.cv_virtual. intros H. apply andb_true_iff in H. destruct H as [H _].
  destruct (props_total _ false H [name] 1) as [r Hr]. rewrite Hr. eexists; reflexivity.
Qed.

(* ---- services *)
Lemma has_prop_b_eq nm ps : has_prop_b nm ps = has_prop nm ps.
Proof. induction ps as [|p r IH]; cbn; [reflexivity|]. rewrite IH. reflexivity. Qed.

Lemma rewrite_segs_total req segs : params_ok req segs = true -> exists l, rewrite_segs snake req segs = Ok l.
Proof.
  induction segs as [|s r IH]; intros H; cbn in H |- *; [eexists; reflexivity|].
  destruct s as [|c nm].
  - destruct (IH H) as [l Hl]. rewrite Hl. eexists; reflexivity.
  - unfold colon. destruct (c =? 58).
    + apply andb_true_iff in H. destruct H as [H1 H2]. destruct (IH H2) as [l Hl]. rewrite Hl. cbn [obind].
      rewrite has_prop_b_eq in H1. rewrite H1. eexists; reflexivity.
    + destruct (IH H) as [l Hl]. rewrite Hl. eexists; reflexivity.
Qed.

Lemma method_total base m : wf_method snake camel ev base m = true ->
  exists r, cv_method snake camel screaming ev base m = Ok r.
Proof.
  unfold wf_method, J5sConvert.cv_method. intros H. apply and4 in H. destruct H as (Hn & Hrq & Hrs & Hp).
  destruct (virtual_total (m_name m ++ b "Request") PNil (m_request m) Hrq) as [[rq rqi] Hq]. rewrite Hq. cbn [obind].
  unfold J5sConvert.http_rule. destruct (rewrite_segs_total _ _ Hp) as [l Hl]. rewrite Hl. cbn [obind].
  destruct (m_response m) as [rs|].
  - destruct (virtual_total (m_name m ++ b "Response") PNil rs Hrs) as [[rm rmi] Hm]. rewrite Hm. cbn [obind].
    eexists; reflexivity.
  - cbn [obind]. eexists; reflexivity.
Qed.

Lemma methods_total base l : forallb (wf_method snake camel ev base) l = true ->
  exists r, cv_methods snake camel screaming ev base l = Ok r.
Proof.
  induction l as [|m r IH]; intros H; cbn in H |- *; [eexists; reflexivity|].
  apply andb_true_iff in H. destruct H as [H1 H2].
  destruct (method_total _ _ H1) as [[[am ad] ai] Ha]. rewrite Ha. cbn [obind].
  destruct (IH H2) as [[[cm cd] ci] Hc]. rewrite Hc. cbn [obind]. eexists; reflexivity.
Qed.

Lemma service_total s : wf_service snake camel ev s = true -> exists r, cv_service snake camel screaming ev s = Ok r.
Proof.
  unfold wf_service, J5sConvert.cv_service. intros H. repeat (apply andb_true_iff in H; destruct H as [H ?]).
  destruct (methods_total _ _ ltac:(eassumption)) as [[[ms ds] is] Hm]. rewrite Hm. cbn [obind]. eexists; reflexivity.
Qed.

(* ---- topics *)
Lemma tmsgs_total tname single virt l :
  forallb (wf_tmsg snake camel ev single virt) l = true ->
  exists r, cv_tmsgs snake camel screaming ev tname single virt l = Ok r.
Proof.
  induction l as [|t r IH]; intros H; cbn [forallb J5sConvert.cv_tmsgs] in H |- *; [eexists; reflexivity|].
  apply andb_true_iff in H. destruct H as [H1 H2]. unfold wf_tmsg in H1. apply andb_true_iff in H1. destruct H1 as [Hv Hn].
  assert (Hname : exists mn, match tm_name t with Some n => Ok n | None => if single then Ok tname else Err "method name is required" end = Ok mn).
  { destruct (tm_name t); [eexists; reflexivity|]. rewrite Hn. eexists; reflexivity. }
  destruct Hname as [mn Hmn]. rewrite Hmn. cbn [obind].
  destruct (virtual_total (mn ++ b "Message") virt (tm_fields t) Hv) as [[m1 i1] Hm]. rewrite Hm. cbn [obind].
  destruct (IH H2) as [[[cm cd] ci] Hc]. rewrite Hc. cbn [obind]. eexists; reflexivity.
Qed.

Lemma accept_total tname topic_name rl virt l :
  forallb (wf_tmsg snake camel ev (is_single_b l) virt) l = true ->
  exists r, accept_topic snake camel screaming ev tname topic_name rl virt l = Ok r.
Proof.
  intros H. unfold J5sConvert.accept_topic.
  assert (Hs : is_single l = is_single_b l) by (destruct l as [|? [|? ?]]; reflexivity). rewrite Hs.
  destruct (tmsgs_total tname _ _ _ H) as [[[ms ds] is] Hm]. rewrite Hm. cbn [obind]. eexists; reflexivity.
Qed.

Lemma topic_total t : wf_topic snake camel ev t = true -> exists r, cv_topic snake camel screaming ev t = Ok r.
Proof.
  destruct t as [name msgs|name req reply|name entity msg|name entity msg]; cbn [wf_topic J5sConvert.cv_topic]; intros H.
  - apply andb_true_iff in H. destruct H as [_ H]. apply accept_total. exact H.
  - apply andb_true_iff in H. destruct H as [H Hr]. apply andb_true_iff in H. destruct H as [_ Hq].
    destruct (accept_total (name ++ b "Request") (snake name) RRequest _ _ Hq) as [[[am asv] ai] Ha]. rewrite Ha. cbn [obind].
    destruct (accept_total (name ++ b "Reply") (snake name) RReply _ _ Hr) as [[[cm csv] ci] Hc]. rewrite Hc. cbn [obind].
    eexists; reflexivity.
  - apply andb_true_iff in H. destruct H as [Hid H]. apply accept_total. cbn [forallb is_single_b]. rewrite andb_true_r.
    unfold wf_tmsg, default_tm_name in *. apply andb_true_iff in H. destruct H as [Hv Hn].
    destruct (tm_name msg) eqn:E; cbn [tm_fields tm_name]; rewrite Hv; [rewrite E; exact Hn|exact Hid].
  - apply andb_true_iff in H. destruct H as [_ H]. apply accept_total. cbn [forallb is_single_b]. rewrite andb_true_r. exact H.
Qed.

(* ---- elements and files *)
Lemma elements_total pkg els : forallb (wf_element snake camel ev) els = true ->
  forall m s t, exists r, cv_elements snake camel screaming ev pkg els m s t = Ok r.
Proof.
  induction els as [|e r IH]; intros H m s t; cbn [forallb J5sConvert.cv_elements] in H |- *; [eexists; reflexivity|].
  apply andb_true_iff in H. destruct H as [H1 H2]. destruct e as [nm ps subs|nm ps subs|en|sv|tp]; cbn [wf_element] in H1.
  - destruct (proj1 nested_total _ H1 []) as [[[ms es] is] Hn]. rewrite Hn. cbn [obind]. apply IH. exact H2.
  - destruct (proj1 nested_total _ H1 []) as [[[ms es] is] Hn]. rewrite Hn. cbn [obind]. apply IH. exact H2.
  - apply IH. exact H2.
  - destruct (service_total _ H1) as [[[ms ss] is] Hn]. rewrite Hn. cbn [obind]. apply IH. exact H2.
  - destruct (topic_total _ H1) as [[[ms ss] is] Hn]. rewrite Hn. cbn [obind]. apply IH. exact H2.
Qed.

End Total.

Section TotalFiles.
Variables snake camel screaming : str -> str.

(* ConvertJ5File accepts every valid source file *)
Theorem cv_file_total bd f :
  valid_file snake camel bd f = true ->
  exists D, cv_file snake camel screaming (pkg_exports camel bd) f = Ok D.
Proof.
  unfold valid_file, cv_file. intros H. apply andb_true_iff in H. destruct H as [_ H].
  destruct (import_map (jf_imports f) []) as [im| | |]; try discriminate. cbn [obind].
  destruct (elements_total snake camel screaming _ (j5s_pkg f) _ H facc_nil facc_nil facc_nil) as [[[m s] t] Hr].
  rewrite Hr. cbn [obind]. eexists; reflexivity.
Qed.

Lemma cv_files_total bd fs :
  (forall f, In (BJ f) fs -> valid_file snake camel bd f = true) ->
  exists D, cv_files snake camel screaming (pkg_exports camel bd) fs = Ok D.
Proof.
  induction fs as [|x r IH]; intros H; cbn [J5sConvert.cv_files]; [eexists; reflexivity|].
  destruct x as [j|p].
  - assert (Hl : file_lists_ok j = true).
    { pose proof (H j (or_introl eq_refl)) as Hv. unfold valid_file in Hv.
      apply andb_true_iff in Hv. destruct Hv as [Hv _]. apply andb_true_iff in Hv. exact (proj2 Hv). }
    rewrite Hl.
    destruct (cv_file_total bd j (H j (or_introl eq_refl))) as [a Ha]. rewrite Ha. cbn [obind].
    destruct IH as [c Hc]; [intros f Hf; apply H; right; exact Hf|]. rewrite Hc. cbn [obind]. eexists; reflexivity.
  - apply IH. intros f Hf. apply H. right. exact Hf.
Qed.

(* every source file of every package of a valid bundle converts: loadLocalPackage succeeds *)
Theorem convert_package_total bd pkg :
  valid_bundle snake camel screaming bd = true -> (exists f, In f bd /\ bfile_pkg f = pkg) ->
  exists D, convert_package snake camel screaming bd pkg = Ok D.
Proof.
  unfold valid_bundle, convert_package. intros H (f0 & Hin0 & Hp0).
  apply andb_true_iff in H. destruct H as [H _]. apply andb_true_iff in H. destruct H as [H _].
  apply andb_true_iff in H. destruct H as [H _].
  rewrite forallb_forall in H.
  assert (Hne : pkg_files bd pkg <> []).
  { intros E. assert (Hi : In f0 (pkg_files bd pkg)).
    { unfold pkg_files. apply in_sort_by. apply filter_In. split; [exact Hin0|]. rewrite Hp0. apply str_eqb_refl. }
    rewrite E in Hi. destruct Hi. }
  destruct (pkg_files bd pkg) as [|x r] eqn:Epf; [contradiction|].
  apply cv_files_total. intros f Hf. rewrite <- Epf in Hf.
  assert (Hb : In (BJ f) bd).
  { unfold pkg_files in Hf. apply in_sort_by in Hf. apply filter_In in Hf. destruct Hf. assumption. }
  exact (H _ Hb).
Qed.

End TotalFiles.

(* BclLexerCoverProofs.v — more facts about the lexer model, used by C19:
   every rune of the input is inside a token or is white space that the lexer
   skipped; a token that is not EOL ends on the line where the next token starts;
   line comments and EOL tokens do not span lines. *)
From Coq Require Import String List NArith ZArith Bool Lia ZifyN ZifyNat ZifyBool.
From J5V.lib Require Import Text.
From J5V.model Require Import BclLexer.
From J5V.proofs Require Import BclPosProofs BclLexerProofs.
Import ListNotations.
Local Open Scope Z_scope.
Arguments Nat.sub : simpl never.

(* ---- prefixes of one list are comparable; P is injective on them ----------------------- *)
Lemma pfx_total (a b l : list N) : pfx a l -> pfx b l -> pfx a b \/ pfx b a.
Proof.
  revert b l. induction a as [|x a IH]; intros b l Ha Hb; [left; apply pfx_nil|].
  destruct b as [|y b]; [right; apply pfx_nil|].
  destruct Ha as [u Hu], Hb as [v Hv]. subst l. cbn in Hv. injection Hv as <- Hv.
  destruct (IH b (a ++ u)) as [[w ->]|[w ->]]; [apply pfx_app|exists v; exact Hv| |].
  - left. exists w. reflexivity.
  - right. exists w. reflexivity.
Qed.

Lemma pfx_strict_P a b : pfx a b -> a <> b -> pos_lt (P a) (P b).
Proof.
  intros [x ->] Hne. destruct x as [|c x]; [rewrite app_nil_r in Hne; congruence|]. apply P_strict.
Qed.

Lemma P_inj a b l : pfx a l -> pfx b l -> P a = P b -> a = b.
Proof.
  intros Ha Hb E. destruct (list_eq_dec N.eq_dec a b) as [|Hne]; [assumption|]. exfalso.
  destruct (pfx_total a b l Ha Hb) as [H|H].
  - apply (pos_lt_irrefl (P a)). rewrite E at 2. apply pfx_strict_P; assumption.
  - apply (pos_lt_irrefl (P a)). rewrite E at 1. apply pfx_strict_P; [assumption|congruence].
Qed.

(* white space the lexer skips between tokens *)
Definition skippable (c : N) : Prop := is_space c = true /\ c <> 10%N.

Lemma adv_same_line p c : c <> 10%N -> fst (adv p c) = fst p.
Proof. intros H. unfold adv. replace (N.eqb c 10) with false by lia. reflexivity. Qed.
Lemma adv_all_same_line x : forall p, Forall (fun c => c <> 10%N) x -> fst (adv_all p x) = fst p.
Proof.
  induction x as [|c r IH]; intros p H; [reflexivity|]. inversion H; subst. cbn.
  fold (adv_all (adv p c) r). rewrite IH by assumption. apply adv_same_line. assumption.
Qed.
Lemma P_app_same_line pre x : Forall (fun c => c <> 10%N) x -> fst (P (pre ++ x)) = fst (P pre).
Proof. intros H. unfold P. rewrite adv_all_app. apply adv_all_same_line. exact H. Qed.

(* ---- state-level facts: isEOL mirrors the current rune ------------------------------------- *)
Definition eol_ok (s : lstate) : Prop := is_eol s = opt_eq (ch s) 10.
Lemma next_eol_ok s : eol_ok (next s).
Proof. unfold eol_ok, next. destruct (rest s); cbn; reflexivity. Qed.
Lemma next_line s : is_eol s = false -> line (next s) = line s.
Proof. intros H. unfold next. rewrite H. destruct (rest s); reflexivity. Qed.

Definition not_nl (s : lstate) : Prop := ch s <> Some 10%N.
Lemma not_nl_eol s : eol_ok s -> not_nl s -> is_eol s = false.
Proof.
  unfold eol_ok, not_nl. intros -> H. destruct (ch s) as [c|]; cbn; [|reflexivity].
  apply N.eqb_neq. intros ->. apply H. reflexivity.
Qed.

(* take_line and skip_whitespace consume no newline: same line, not on a newline at the end *)
Lemma take_line_line : forall fuel s acc l s', eol_ok s -> not_nl s ->
  take_line fuel s acc = ROk l s' -> line s' = line s /\ eol_ok s' /\ not_nl s'.
Proof.
  induction fuel as [|f IH]; intros s acc l s' He Hn; cbn [take_line]; [discriminate|].
  unfold peek. destruct (rest s) as [|v t] eqn:Hr; cbn [hd_error].
  - intros [= <- <-]. auto.
  - destruct (N.eqb v 10) eqn:Ev; [intros [= <- <-]; auto|].
    intros H. apply IH in H.
    + destruct H as (A & B & C). rewrite A. split; [apply next_line, not_nl_eol; assumption|auto].
    + apply next_eol_ok.
    + unfold not_nl, next. rewrite Hr. cbn. intros [= ->]. discriminate.
Qed.

Lemma skip_whitespace_line : forall fuel s s', eol_ok s -> not_nl s ->
  skip_whitespace fuel s = Some s' -> line s' = line s /\ eol_ok s' /\ not_nl s'.
Proof.
  induction fuel as [|f IH]; intros s s' He Hn; cbn [skip_whitespace]; [discriminate|].
  unfold peek. destruct (rest s) as [|v t] eqn:Hr; cbn [hd_error].
  - intros [= <-]. auto.
  - destruct (is_space v && negb (N.eqb v 10))%bool eqn:Ev; [|intros [= <-]; auto].
    intros H. apply IH in H.
    + destruct H as (A & B & C). rewrite A. split; [apply next_line, not_nl_eol; assumption|auto].
    + apply next_eol_ok.
    + unfold not_nl, next. rewrite Hr. cbn. intros [= ->]. apply andb_true_iff in Ev. destruct Ev as [_ Ev]. discriminate.
Qed.

(* the other loops: where they stop is not a newline *)
Lemma block_comment_not_nl : forall fuel s acc l s', block_comment_loop fuel s acc = ROk l s' -> not_nl s'.
Proof.
  induction fuel as [|f IH]; intros s acc l s'; cbn [block_comment_loop]; [discriminate|].
  destruct (opt_eq (ch (next s)) 42 && opt_eq (peek (next s)) 47)%bool eqn:E.
  - intros [= <- <-]. apply andb_true_iff in E. destruct E as [_ E]. unfold peek, opt_eq in E.
    destruct (rest (next s)) as [|w t] eqn:Hr; [discriminate|]. cbn in E. apply N.eqb_eq in E. subst w.
    unfold not_nl, next at 1. rewrite Hr. cbn. discriminate.
  - destruct (ch (next s)) as [c|] eqn:Ec.
    + apply IH.
    + intros [= <- <-]. unfold not_nl. rewrite Ec. discriminate.
Qed.

Lemma regex_not_nl : forall fuel s acc l s', regex_loop fuel s acc = ROk l s' -> not_nl s'.
Proof.
  induction fuel as [|f IH]; intros s acc l s'; cbn [regex_loop]; [discriminate|].
  destruct (ch (next s)) as [c|] eqn:Ec; [|discriminate].
  destruct (N.eqb c 10); [discriminate|]. destruct (N.eqb c 47) eqn:E47.
  - destruct (opt_eq (peek (next s)) 47); [apply IH|].
    intros [= <- <-]. unfold not_nl. rewrite Ec. apply N.eqb_eq in E47. subst c. discriminate.
  - apply IH.
Qed.

Lemma string_not_nl : forall fuel q s acc l s', q <> 10%N -> string_loop fuel q s acc = ROk l s' -> not_nl s'.
Proof.
  induction fuel as [|f IH]; intros q s acc l s' Hq; cbn [string_loop]; [discriminate|].
  destruct (ch (next s)) as [c|] eqn:Ec; [|discriminate].
  destruct (N.eqb c q) eqn:Eq.
  - intros [= <- <-]. unfold not_nl. rewrite Ec. apply N.eqb_eq in Eq. subst c. congruence.
  - destruct (N.eqb c 10); [discriminate|]. destruct (N.eqb c 92).
    + destruct (lex_escape q (next s)); [apply IH; exact Hq|discriminate].
    + apply IH. exact Hq.
Qed.

Lemma ident_not_nl : forall fuel s acc l s', not_nl s -> ident_loop fuel s acc = ROk l s' -> not_nl s'.
Proof.
  induction fuel as [|f IH]; intros s acc l s' Hn; cbn [ident_loop]; [discriminate|].
  unfold peek. destruct (rest s) as [|v t] eqn:Hr; cbn [hd_error]; [intros [= <- <-]; exact Hn|].
  destruct (is_letter v || is_digit v || N.eqb v 95)%bool eqn:Ev; [|intros [= <- <-]; exact Hn].
  apply IH. unfold not_nl, next. rewrite Hr. cbn. intros [= ->].
  revert Ev. vm_compute. discriminate.
Qed.

Lemma number_not_nl : forall fuel s sd acc a s', not_nl s -> number_loop fuel s sd acc = ROk a s' -> not_nl s'.
Proof.
  induction fuel as [|f IH]; intros s sd acc a s' Hn; cbn [number_loop]; [discriminate|].
  unfold peek. destruct (rest s) as [|v t] eqn:Hr; cbn [hd_error]; [intros [= <- <-]; exact Hn|].
  destruct (is_digit v) eqn:Ev.
  - apply IH. unfold not_nl, next. rewrite Hr. cbn. intros [= ->]. revert Ev. vm_compute. discriminate.
  - destruct (N.eqb v 46) eqn:E46; [|intros [= <- <-]; exact Hn].
    destruct sd; [discriminate|]. apply IH. unfold not_nl, next. rewrite Hr. cbn. intros [= ->]. discriminate.
Qed.

Lemma op_of_10 : op_of 10 = None. Proof. reflexivity. Qed.

Lemma number_loop_type : forall fuel s sd acc typ l s',
  number_loop fuel s sd acc = ROk (typ, l) s' -> typ = INT \/ typ = DECIMAL.
Proof.
  induction fuel as [|f IH]; intros s sd acc typ l s'; cbn [number_loop]; [discriminate|].
  destruct (peek s) as [v|].
  - destruct (is_digit v); [apply IH|]. destruct (N.eqb v 46).
    + destruct sd; [discriminate|apply IH].
    + intros [= <- _ _]. destruct sd; auto.
  - intros [= <- _ _]. destruct sd; auto.
Qed.

(* ---- NextToken: where the token starts, and what the lexer is on afterwards ------------ *)
Section Cover.
Variable inp : list N.

Lemma next_token_start : forall fuel s pre,
  linv inp s pre -> (length (rest s) < fuel)%nat ->
  match next_token_fuel fuel s with
  | (LTok t, s') =>
      (exists x, Forall skippable x /\ pfx (pre ++ x) inp /\ tstart t = P (pre ++ x) /\
                 (ty t = EOL -> pfx ((pre ++ x) ++ [10%N]) inp /\ tend t = tstart t)) /\
      (ty t <> EOL -> not_nl s') /\
      (ty t = COMMENT \/ ty t = EOL -> fst (tend t) = fst (tstart t))
  | (LEof, _) => exists x, Forall skippable x /\ inp = pre ++ x
  | _ => True
  end.
Proof.
  induction fuel as [|f IH]; intros s pre Hi Hf; [lia|].
  cbn [next_token_fuel].
  destruct (rest s) as [|c t] eqn:Hr.
  - destruct (next_eof inp s pre Hi Hr) as [He Hp]. rewrite (le_ch _ _ He).
    exists []. split; [constructor|]. rewrite app_nil_r. symmetry. exact Hp.
  - pose proof (next_cur inp s pre c t Hi Hr) as Hc.
    rewrite (lc_ch _ _ _ _ Hc).
    pose proof (lc_pos _ _ _ _ Hc) as Hpos.
    assert (Hfull : pfx (pre ++ []) inp).
    { rewrite app_nil_r. eapply pfx_trans; [apply pfx_app|apply (lcur_full inp _ _ _ Hc)]. }
    assert (Hstart : forall typ en, (typ = EOL -> c = 10%N /\ en = get_pos (next s)) ->
              exists x, Forall skippable x /\ pfx (pre ++ x) inp /\ get_pos (next s) = P (pre ++ x) /\
                        (typ = EOL -> pfx ((pre ++ x) ++ [10%N]) inp /\ en = get_pos (next s))).
    { intros typ en Hty. exists []. split; [constructor|]. split; [exact Hfull|]. rewrite app_nil_r.
      split; [exact Hpos|]. intros H. destruct (Hty H) as [-> Hen]. split; [apply (lcur_full inp _ _ _ Hc)|exact Hen]. }
    assert (Heol : eol_ok (next s)) by apply next_eol_ok.
    assert (Hlen : (length (rest (next s)) < f)%nat).
    { destruct (next_rest_cons s c t Hr) as [-> _]. cbn in Hf. lia. }
    assert (Hch : ch (next s) = Some c) by apply Hc.
    assert (Hlit : forall typ (r : lres (list N)),
              (forall l s', r = ROk l s' -> (typ <> EOL -> not_nl s') /\
                                           (typ = COMMENT \/ typ = EOL -> fst (get_pos s') = fst (get_pos (next s)))) ->
              typ <> EOL ->
              match lift_lit typ (get_pos (next s)) r (next s) with
              | (LTok t0, s') =>
                  (exists x, Forall skippable x /\ pfx (pre ++ x) inp /\ tstart t0 = P (pre ++ x) /\
                             (ty t0 = EOL -> pfx ((pre ++ x) ++ [10%N]) inp /\ tend t0 = tstart t0)) /\
                  (ty t0 <> EOL -> not_nl s') /\
                  (ty t0 = COMMENT \/ ty t0 = EOL -> fst (tend t0) = fst (tstart t0))
              | (LEof, _) => exists x, Forall skippable x /\ inp = pre ++ x
              | _ => True
              end).
    { intros typ r Hr0 Hne. destruct r as [l s'|d s'|]; cbn; auto.
      destruct (Hr0 l s' eq_refl) as [A B]. split; [apply Hstart; intros H; congruence|]. split; assumption. }
    destruct (op_of c) as [op|] eqn:Eop.
    { cbn. split; [apply Hstart; intros ->; exfalso; revert Eop; unfold op_of, model_operators; cbn [assoc_N];
                   repeat (match goal with |- context [N.eqb ?k c] => destruct (N.eqb k c) end; [intros [= H]; discriminate|]);
                   discriminate|]. split; [|reflexivity].
      intros _. unfold not_nl. rewrite Hch. intros [= ->]. rewrite op_of_10 in Eop. discriminate. }
    destruct (N.eqb c 47) eqn:E47.
    { destruct (opt_eq (peek (next s)) 47) eqn:E1.
      - apply Hlit; [|discriminate]. intros l s' E. unfold lex_line_comment in E.
        assert (Hn1 : not_nl (next (next s))).
        { unfold peek, opt_eq in E1. destruct (rest (next s)) as [|w t2] eqn:Hr2; [discriminate|].
          apply N.eqb_eq in E1. subst w. unfold not_nl, next at 1. rewrite Hr2. cbn. discriminate. }
        destruct (take_line_line _ _ _ _ _ (next_eol_ok _) Hn1 E) as (A & B & C).
        split; [intros _; exact C|]. intros _. unfold get_pos. cbn [fst]. rewrite A.
        apply next_line. apply not_nl_eol; [exact Heol|]. unfold not_nl. rewrite Hch.
        apply N.eqb_eq in E47. subst c. discriminate.
      - destruct (opt_eq (peek (next s)) 42) eqn:E2.
        + apply Hlit; [|discriminate]. intros l s' E. unfold lex_block_comment in E.
          split; [intros _; eapply block_comment_not_nl; eauto|]. intros [H|H]; discriminate.
        + apply Hlit; [|discriminate]. intros l s' E. unfold lex_regex in E.
          split; [intros _; eapply regex_not_nl; eauto|]. intros [H|H]; discriminate. }
    destruct (N.eqb c 34) eqn:E34.
    { apply Hlit; [|discriminate]. intros l s' E. unfold lex_string in E. rewrite Hch in E.
      split; [intros _; eapply string_not_nl; [|exact E]; apply N.eqb_eq in E34; subst c; discriminate|].
      intros [H|H]; discriminate. }
    destruct (N.eqb c 124) eqn:E124.
    { apply Hlit; [|discriminate]. intros l s' E. unfold lex_description_line in E.
      destruct (skip_whitespace (S (length (rest (next s)))) (next s)) as [s1|] eqn:Es; [|discriminate].
      assert (Hn0 : not_nl (next s)).
      { unfold not_nl. rewrite Hch. apply N.eqb_eq in E124. subst c. discriminate. }
      destruct (skip_whitespace_line _ _ _ Heol Hn0 Es) as (A1 & B1 & C1).
      destruct (take_line_line _ _ _ _ _ B1 C1 E) as (A & B & C).
      split; [intros _; exact C|]. intros [H|H]; discriminate. }
    destruct (N.eqb c 10) eqn:E10.
    { cbn. split; [apply Hstart; intros _; split; [lia|reflexivity]|]. split; [intros H; exfalso; apply H; reflexivity|reflexivity]. }
    destruct (is_space c) eqn:Esp.
    { specialize (IH (next s) (pre ++ [c]) (lc_inv _ _ _ _ Hc) Hlen).
      destruct (next_token_fuel f (next s)) as [[t0|d| |] s']; auto.
      - destruct IH as ((x & Hx & Hp & Hs & He) & Hrest). split; [|exact Hrest].
        exists (c :: x). split; [constructor; [split; [exact Esp|lia]|exact Hx]|].
        assert (Heq : pre ++ c :: x = (pre ++ [c]) ++ x) by (rewrite <- app_assoc; reflexivity).
        rewrite Heq. auto.
      - destruct IH as (x & Hx & Hp). exists (c :: x). split; [constructor; [split; [exact Esp|lia]|exact Hx]|].
        rewrite <- app_assoc in Hp. exact Hp. }
    assert (Hn0 : not_nl (next s)).
    { unfold not_nl. rewrite Hch. intros [= ->]. discriminate. }
    destruct (is_digit c).
    { unfold lex_number.
      destruct (number_loop (S (length (rest (next s)))) (next s) false (ch_list (next s))) as [[typ l] s'|d s'|] eqn:En; auto.
      cbn. destruct (number_loop_type _ _ _ _ _ _ _ En) as [-> | ->];
        (split; [apply Hstart; intros H; discriminate|]; split; [intros _; eapply number_not_nl; eauto|intros [H|H]; discriminate]). }
    destruct (is_letter c).
    { unfold lex_ident.
      destruct (ident_loop (S (length (rest (next s)))) (next s) (ch_list (next s))) as [l s'|d s'|] eqn:Ei; auto.
      destruct (list_N_eqb l lit_true || list_N_eqb l lit_false)%bool; cbn;
        (split; [apply Hstart; intros H; discriminate|]; split; [intros _; eapply ident_not_nl; eauto|intros [H|H]; discriminate]). }
    exact I.
Qed.
End Cover.

Lemma ttype_eq_dec (a b : ttype) : {a = b} + {a <> b}.
Proof. decide equality. Qed.

(* ---- AllTokens: line structure and coverage ----------------------------------------------- *)
(* after a token that is not EOL, the next token starts on the line where it ended;
   line comments and EOL tokens start and end on the same line *)
Fixpoint lchain (prev : option token) (ts : list token) : Prop :=
  match ts with
  | [] => True
  | t :: r => (match prev with Some p => ty p <> EOL -> fst (tstart t) = fst (tend p) | None => True end)
              /\ (ty t = COMMENT \/ ty t = EOL -> fst (tend t) = fst (tstart t))
              /\ lchain (Some t) r
  end.

(* the rune c that follows prefix q is white space or lies inside a token *)
Definition covered (inp : list N) (ts : list token) (q : list N) (c : N) : Prop :=
  is_space c = true \/ exists t, In t ts /\ ty t <> EOL /\ pos_le (tstart t) (P q) /\ pos_le (P q) (tend t).

Lemma pfx_of_len (a b l : list N) : pfx a l -> pfx b l -> (length a <= length b)%nat -> pfx a b.
Proof.
  intros Ha Hb Hl. destruct (pfx_total a b l Ha Hb) as [H|[x Hx]]; [exact H|].
  subst a. rewrite app_length in Hl. destruct x; [rewrite app_nil_r; apply pfx_refl|cbn in Hl; lia].
Qed.

Lemma in_gap (pre q x : list N) c : pfx pre q -> pfx (q ++ [c]) (pre ++ x) -> In c x.
Proof.
  intros [u ->] [v Hv]. rewrite <- !app_assoc in Hv. apply app_inv_head in Hv. subst x.
  apply in_or_app. right. apply in_or_app. left. left. reflexivity.
Qed.

Lemma covered_weaken inp t ts q c : covered inp ts q c -> covered inp (t :: ts) q c.
Proof. intros [H|(t0 & Hi & H0 & H1 & H2)]; [left; exact H|]. right. exists t0. split; [right; exact Hi|auto]. Qed.

Lemma all_tokens_loop_cover inp ff : forall fuel s pre prev,
  linv inp s pre -> (length (rest s) + 1 < fuel)%nat ->
  (forall p, prev = Some p -> ty p <> EOL -> fst (P pre) = fst (tend p)) ->
  let '(ts, ds, b) := all_tokens_loop fuel ff s in
  ds = [] ->
  lchain prev ts /\ (forall q c, pfx pre q -> pfx (q ++ [c]) inp -> covered inp ts q c).
Proof.
  induction fuel as [|f IH]; intros s pre prev Hi Hf Hprev; [lia|].
  cbn [all_tokens_loop].
  pose proof (next_token_fuel_spec inp (S (length (rest s))) s pre Hi) as Hn.
  pose proof (next_token_start inp (S (length (rest s))) s pre Hi) as Hn2.
  unfold next_token.
  destruct (next_token_fuel (S (length (rest s))) s) as [[t|d| |] s'] eqn:E; cbn in Hn.
  - (* token *)
    destruct Hn as [(ps & pe & c0 & H1 & H2 & H3 & H4 & H5 & H6) Hty]; [lia|].
    destruct Hn2 as ((x & Hx & Hpx & Hsx & Heolr) & Hnn & Hsl); [lia|].
    assert (Hps : ps = pre ++ x).
    { apply (P_inj _ _ inp); [eapply pfx_trans; [apply pfx_app|exact H2]|exact Hpx|congruence]. }
    assert (Hxnl : Forall (fun c => c <> 10%N) x).
    { eapply Forall_impl; [|exact Hx]. intros a [_ Ha]. exact Ha. }
    assert (Hhead : match prev with Some p => ty p <> EOL -> fst (tstart t) = fst (tend p) | None => True end).
    { destruct prev as [p|]; [|exact I]. intros Hp. rewrite Hsx, P_app_same_line by exact Hxnl. apply Hprev; auto. }
    assert (Hpsinp : pfx ps inp) by (eapply pfx_trans; [apply pfx_app|exact H2]).
    assert (Hpeinp : pfx pe inp) by (eapply lon_pfx; eauto).
    (* coverage of the part up to and including this token *)
    assert (Hcov_here : forall ts' q c, pfx pre q -> pfx (q ++ [c]) inp -> (length q <= length pe)%nat ->
                                        covered inp (t :: ts') q c).
    { intros ts' q c Hq Hqc Hl.
      assert (Hqinp : pfx q inp) by (eapply pfx_trans; [apply pfx_app|exact Hqc]).
      destruct (Nat.lt_ge_cases (length q) (length ps)) as [Hlt|Hge].
      - left. assert (Hin : In c x).
        { apply (in_gap pre q x c Hq). rewrite <- Hps. apply (pfx_of_len _ _ inp); auto.
          rewrite app_length. cbn. lia. }
        rewrite Forall_forall in Hx. apply (Hx c Hin).
      - destruct (ttype_eq_dec (ty t) EOL) as [Heq|Hneq].
        + (* an EOL token is the newline rune itself *)
          left. destruct (Heolr Heq) as [Hnl Hse].
          assert (Hpe : pe = ps).
          { apply (P_inj _ _ inp); auto. congruence. }
          assert (Hqps : q = ps).
          { subst pe. destruct (pfx_of_len ps q inp Hpsinp Hqinp Hge) as [u ->].
            rewrite app_length in Hl. destruct u; [apply app_nil_r|cbn in Hl; lia]. }
          subst q. rewrite <- Hps in Hnl. destruct Hqc as [u Hu], Hnl as [v Hv]. rewrite Hv in Hu.
          rewrite <- !app_assoc in Hu. apply app_inv_head in Hu. cbn in Hu. injection Hu as <- _.
          vm_compute. reflexivity.
        + right. exists t. split; [left; reflexivity|]. split; [exact Hneq|]. rewrite H4, H5. split; apply P_mono.
          * apply (pfx_of_len _ _ inp); auto.
          * apply (pfx_of_len _ _ inp); auto. }
    destruct H6 as [[c Hc]|[He Hpe]].
    + specialize (IH s' (pe ++ [c]) (Some t) (lc_inv _ _ _ _ Hc)).
      destruct (all_tokens_loop f ff s') as [[ts ds] b].
      intros Hds. destruct IH as (Hl & Hcov); auto.
      { pose proof (linv_len _ _ _ Hi). pose proof (linv_len _ _ _ (lc_inv _ _ _ _ Hc)) as Hl2.
        rewrite app_length in Hl2. cbn in Hl2.
        pose proof (pfx_len _ _ H1). pose proof (pfx_len _ _ H3). lia. }
      { intros p [= <-] Hp. rewrite P_snoc, H5. apply adv_same_line.
        specialize (Hnn Hp). unfold not_nl in Hnn. rewrite (lc_ch _ _ _ _ Hc) in Hnn. congruence. }
      split; [cbn; auto|].
      intros q c1 Hq Hqc. destruct (Nat.le_gt_cases (length q) (length pe)) as [Hle|Hgt].
      * apply Hcov_here; auto.
      * apply covered_weaken. apply Hcov; [|exact Hqc].
        apply (pfx_of_len _ _ inp); [apply (lcur_full inp _ _ _ Hc)|eapply pfx_trans; [apply pfx_app|exact Hqc]|].
        rewrite app_length. cbn. lia.
    + destruct f as [|f']; [lia|]. rewrite (leof_loop inp ff s' f' He).
      intros _. split; [cbn; auto|].
      intros q c1 Hq Hqc. apply Hcov_here; auto. subst pe.
      apply pfx_len. eapply pfx_trans; [apply pfx_app|exact Hqc].
  - (* error: the list of diagnostics is not empty *)
    destruct ff; [intros H; discriminate|].
    destruct (all_tokens_loop f false s') as [[ts ds] b]. intros H. discriminate.
  - (* EOF *)
    destruct Hn2 as (x & Hx & Hp); [lia|]. intros _. split; [exact I|].
    intros q c Hq Hqc. left. subst inp. rewrite Forall_forall in Hx. apply (Hx c). apply (in_gap pre q x c Hq Hqc).
  - exfalso. apply Hn. lia.
Qed.

Theorem all_tokens_cover ff data ts : all_tokens ff data = LexOk ts ->
  lchain None ts /\ (forall q c, pfx (q ++ [c]) data -> covered data ts q c).
Proof.
  unfold all_tokens.
  pose proof (all_tokens_loop_cover data ff (S (S (length data))) (new_lexer data) [] None (new_lexer_inv data)) as H.
  destruct (all_tokens_loop (S (S (length data))) ff (new_lexer data)) as [[ts' ds] b].
  destruct b; [discriminate|]. destruct ds as [|d r]; [|discriminate]. intros [= <-].
  destruct H as [A B]; [cbn; lia|intros p Hp; discriminate|reflexivity|].
  split; [exact A|]. intros q c Hqc. apply B; [apply pfx_nil|exact Hqc].
Qed.

(* ---- a line comment or a description is the last token of its line ------------------------- *)
Lemma take_line_stops : forall fuel s acc l s', take_line fuel s acc = ROk l s' ->
  rest s' = [] \/ hd_error (rest s') = Some 10%N.
Proof.
  induction fuel as [|f IH]; intros s acc l s'; cbn [take_line]; [discriminate|].
  unfold peek. destruct (rest s) as [|v t] eqn:Hr; cbn [hd_error].
  - intros [= <- <-]. left. exact Hr.
  - destruct (N.eqb v 10) eqn:Ev; [|apply IH].
    intros [= <- <-]. right. rewrite Hr. cbn. f_equal. lia.
Qed.

Lemma next_token_after_line fuel s t s' : next_token_fuel fuel s = (LTok t, s') ->
  ty t = COMMENT \/ ty t = DESCRIPTION -> rest s' = [] \/ hd_error (rest s') = Some 10%N.
Proof.
  revert s t s'. induction fuel as [|f IH]; intros s t s'; cbn [next_token_fuel]; [discriminate|].
  destruct (ch (next s)) as [c|]; [|discriminate].
  destruct (op_of c) as [op|] eqn:Eop.
  { intros [= <- <-] [H|H]; cbn in H; subst op; revert Eop; unfold op_of, model_operators; cbn [assoc_N];
      repeat (match goal with |- context [N.eqb ?k c] => destruct (N.eqb k c) end; [discriminate|]); discriminate. }
  destruct (N.eqb c 47).
  { destruct (opt_eq (peek (next s)) 47).
    - unfold lift_lit, lex_line_comment. destruct (take_line _ (next (next s)) []) as [l s1|d s1|] eqn:E; try discriminate.
      intros [= <- <-] _. eapply take_line_stops; eauto.
    - destruct (opt_eq (peek (next s)) 42); unfold lift_lit.
      + destruct (lex_block_comment (next s)); try discriminate. intros [= <- <-] [H|H]; discriminate.
      + destruct (lex_regex (next s)); try discriminate. intros [= <- <-] [H|H]; discriminate. }
  destruct (N.eqb c 34).
  { unfold lift_lit. destruct (lex_string (next s)); try discriminate. intros [= <- <-] [H|H]; discriminate. }
  destruct (N.eqb c 124).
  { unfold lift_lit, lex_description_line. destruct (skip_whitespace _ (next s)) as [s1|]; [|discriminate].
    destruct (take_line _ s1 []) as [l s2|d s2|] eqn:E; try discriminate.
    intros [= <- <-] _. eapply take_line_stops; eauto. }
  destruct (N.eqb c 10).
  { intros [= <- <-] [H|H]; discriminate. }
  destruct (is_space c); [apply IH|].
  destruct (is_digit c).
  { unfold lex_number. destruct (number_loop _ (next s) false _) as [[typ l] s1|d s1|] eqn:E; try discriminate.
    intros [= <- <-]. destruct (number_loop_type _ _ _ _ _ _ _ E) as [-> | ->]; intros [H|H]; discriminate. }
  destruct (is_letter c); [|discriminate].
  unfold lex_ident. destruct (ident_loop _ (next s) _) as [l s1|d s1|]; try discriminate.
  destruct (_ || _)%bool; intros [= <- <-] [H|H]; discriminate.
Qed.

(* from a state whose next rune is a newline, NextToken returns the EOL token *)
Lemma next_token_at_nl s r : rest s = 10%N :: r -> exists st s', next_token s = (LTok (mkTok EOL [10%N] st st), s').
Proof.
  intros Hr. unfold next_token. rewrite Hr. cbn [length next_token_fuel].
  assert (Hc : ch (next s) = Some 10%N) by (unfold next; rewrite Hr; reflexivity).
  rewrite Hc. cbn. eauto.
Qed.

(* in the token list: after COMMENT / DESCRIPTION comes EOL (or nothing) *)
Fixpoint line_enders (ts : list token) : Prop :=
  match ts with
  | [] => True
  | t :: r => (ty t = COMMENT \/ ty t = DESCRIPTION -> match r with [] => True | u :: _ => ty u = EOL end)
              /\ line_enders r
  end.

Lemma all_tokens_loop_enders ff : forall fuel s,
  let '(ts, ds, b) := all_tokens_loop fuel ff s in
  line_enders ts /\ (rest s = [] \/ hd_error (rest s) = Some 10%N -> match ts with [] => True | u :: _ => ty u = EOL end).
Proof.
  induction fuel as [|f IH]; intros s; cbn [all_tokens_loop]; [split; [exact I|intros; exact I]|].
  destruct (next_token s) as [[t|d| |] s'] eqn:E.
  - specialize (IH s'). destruct (all_tokens_loop f ff s') as [[ts ds] b]. destruct IH as [A B].
    split.
    + cbn. split; [|exact A]. intros Ht. apply B. eapply next_token_after_line; eauto.
    + intros [Hr|Hr].
      * exfalso. unfold next_token in E. rewrite Hr in E. cbn in E. unfold next in E. rewrite Hr in E. cbn in E. discriminate.
      * destruct (rest s) as [|c r] eqn:Hrs; [discriminate|]. cbn in Hr. injection Hr as ->.
        destruct (next_token_at_nl s r Hrs) as (st & s2 & E2). rewrite E in E2. injection E2 as -> _. reflexivity.
  - destruct ff; [split; [exact I|intros; exact I]|].
    specialize (IH s'). destruct (all_tokens_loop f false s') as [[ts ds] b]. destruct IH as [A B].
    split; [exact A|]. intros [Hr|Hr].
    + exfalso. unfold next_token in E. rewrite Hr in E. cbn in E. unfold next in E. rewrite Hr in E. cbn in E. discriminate.
    + destruct (rest s) as [|c r] eqn:Hrs; [discriminate|]. cbn in Hr. injection Hr as ->.
      destruct (next_token_at_nl s r Hrs) as (st & s2 & E2). rewrite E in E2. discriminate.
  - split; [exact I|intros; exact I].
  - split; [exact I|intros; exact I].
Qed.

Theorem all_tokens_enders ff data ts : all_tokens ff data = LexOk ts -> line_enders ts.
Proof.
  unfold all_tokens. pose proof (all_tokens_loop_enders ff (S (S (length data))) (new_lexer data)) as H.
  destruct (all_tokens_loop (S (S (length data))) ff (new_lexer data)) as [[ts' ds] b].
  destruct b; [discriminate|]. destruct ds; [|discriminate]. intros [= <-]. apply H.
Qed.


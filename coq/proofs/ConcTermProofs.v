(* ConcTermProofs.v — no deadlock and termination of the guarded discipline (C10):
   a measure that every effective step decreases, progress, and completion of every
   fair schedule within an explicit number of rounds. *)
From Coq Require Import List NArith Bool Arith Lia.
From J5V.model Require Import Conc.
From J5V.proofs Require Import ConcInvProofs.
Import ListNotations.

(* ---- a measure that every effective step decreases ----------------------------- *)

Definition unbound_cost (g : graph) (U : list name) (m : list (name * cellid)) : nat :=
  list_sum (map (fun n => match lookup m n with Some _ => 0 | None => node_cost g n end) U).

Definition frame_cost (f : frame) : nat := 2 * length (f_todo f) + 1.
Definition stack_cost (stk : list frame) : nat := list_sum (map frame_cost stk).

Definition pc_cost (p : pc) : nat :=
  match p with
  | PEnter => 4
  | PWait => 3
  | PLookup => 2
  | PInsert => 1
  | PRefLookup stk => stack_cost stk
  | PRefInsert stk => pred (stack_cost stk)
  | PLinked stk => S (stack_cost stk)
  | PReturn _ => 1
  | PFail stk => S (length stk)
  | PFailRoot => 1
  end.

(* B pays for the types a call may register again after a failed call has taken them out *)
Definition thread_cost (B : nat) (th : thread) : nat :=
  match t_calls th with
  | [] => 0
  | _ :: rest => pc_cost (t_pc th) + B + (4 + B) * length rest
  end.

Definition mu (g : graph) (U : list name) (st : state) : nat :=
  unbound_cost g U (cmap (s_sh st)) +
  list_sum (map (thread_cost (list_sum (map (node_cost g) U))) (s_thr st)).

Lemma unbound_le g U m : unbound_cost g U m <= list_sum (map (node_cost g) U).
Proof.
  unfold unbound_cost. induction U as [|x U IH]; [cbn; lia|].
  cbn [map]. change (list_sum (?a :: ?l)) with (a + list_sum l).
  destruct (lookup m x); lia.
Qed.


Lemma refs_in_gnames g n m : In m (refs g n) -> In m (gnames g).
Proof.
  induction g as [|[k rs] r IH]; cbn; [tauto|].
  destruct (N.eqb k n); intros H.
  - right. apply in_or_app. left. exact H.
  - right. apply in_or_app. right. apply IH. exact H.
Qed.

Lemma universe_nodup g calls : NoDup (universe g calls).
Proof. apply NoDup_nodup. Qed.

Lemma universe_gnames g calls m : In m (gnames g) -> In m (universe g calls).
Proof. intros H. apply nodup_In. apply in_or_app. right. exact H. Qed.

Lemma universe_calls g calls t n : In n (nth t calls []) -> In n (universe g calls).
Proof.
  intros H. apply nodup_In. apply in_or_app. left. apply in_concat.
  exists (nth t calls []). split; [|exact H].
  destruct (Nat.lt_ge_cases t (length calls)) as [Hlt|Hge]; [apply nth_In; exact Hlt|].
  rewrite nth_overflow in H by exact Hge. destruct H.
Qed.

Lemma unbound_other g U m n c :
  ~ In n U -> unbound_cost g U ((n, c) :: m) = unbound_cost g U m.
Proof.
  intros Hn. unfold unbound_cost. f_equal. apply map_ext_in. intros a Ha.
  cbn [lookup]. destruct (N.eqb_spec n a); [subst; contradiction | reflexivity].
Qed.

Lemma unbound_cons g x U m :
  unbound_cost g (x :: U) m =
  match lookup m x with Some _ => 0 | None => node_cost g x end + unbound_cost g U m.
Proof. reflexivity. Qed.

Lemma unbound_alloc g U m n c :
  NoDup U -> In n U -> lookup m n = None ->
  unbound_cost g U ((n, c) :: m) + node_cost g n = unbound_cost g U m.
Proof.
  induction U as [|x U IH]; intros ND Hin Hn; [destruct Hin|].
  inversion ND as [|? ? Hx NDU]; subst. rewrite !unbound_cons.
  destruct Hin as [->|Hin].
  - rewrite (unbound_other g U m n c Hx). cbn [lookup]. rewrite N.eqb_refl, Hn. lia.
  - specialize (IH NDU Hin Hn). cbn [lookup].
    destruct (N.eqb_spec n x) as [->|Hne]; [contradiction|]. lia.
Qed.

Lemma list_sum_cons a l : list_sum (a :: l) = a + list_sum l.
Proof. reflexivity. Qed.

Lemma list_sum_set_nth {A} (f : A -> nat) l t x y :
  nth_error l t = Some x ->
  list_sum (map f (set_nth l t y)) + f x = list_sum (map f l) + f y.
Proof.
  revert t; induction l as [|z l IH]; intros [|t] H; cbn [nth_error] in H; try discriminate;
    cbn [set_nth map]; rewrite !list_sum_cons.
  - inversion H; subst. lia.
  - specialize (IH _ H). lia.
Qed.

Lemma stack_cost_cons f r : stack_cost (f :: r) = 2 * length (f_todo f) + 1 + stack_cost r.
Proof. reflexivity. Qed.
Lemma stack_cost_nil : stack_cost [] = 0.
Proof. reflexivity. Qed.

Lemma stack_cost_len stk : length stk <= stack_cost stk.
Proof. induction stk as [|f r IH]; [cbn; lia|]. rewrite stack_cost_cons. cbn [length]. lia. Qed.

(* advance stops at a pc that costs at most the stack it was given, and does not touch the map *)
Lemma advance_cost sh stk : stk <> [] ->
  pc_cost (snd (advance sh stk)) <= stack_cost stk /\ cmap (fst (advance sh stk)) = cmap sh.
Proof.
  destruct stk as [|f rest]; [congruence|]. intros _. unfold advance.
  destruct (f_todo f) as [|m todo'] eqn:Et.
  - destruct rest as [|f2 r2]; cbn [fst snd pc_cost]; rewrite set_to_cmap; (split; [|reflexivity]).
    + rewrite stack_cost_cons, stack_cost_nil, Et. cbn. lia.
    + rewrite (stack_cost_cons f), Et. cbn [length]. lia.
  - destruct (N.eqb m unsupported).
    + pose proof (stack_cost_len rest) as L. rewrite stack_cost_cons, Et. cbn [length].
      destruct rest as [|f2 r2]; cbn [fst snd pc_cost cmap fail_to]; (split; [|reflexivity]); cbn [length] in *; lia.
    + cbn. split; [lia | reflexivity].
Qed.

Section Measure.
Variables (k : nat) (g : graph) (U : list name).
Hypothesis U_nodup : NoDup U.
Hypothesis U_gnames : forall m, In m (gnames g) -> In m U.

Lemma todo_in_U sh root f m todo' : frame_ok g sh root f -> f_todo f = m :: todo' -> In m U.
Proof.
  intros (n' & dn & _ & Er & _) Et. apply U_gnames. apply (refs_in_gnames g n').
  rewrite Er, Et. apply in_or_app. right. left. reflexivity.
Qed.

Lemma lstep_measure n sh p :
  tinv g sh n p -> In n U ->
  match lstep k g n sh p with
  | (sh', inl p') => unbound_cost g U (cmap sh') + pc_cost p' < unbound_cost g U (cmap sh) + pc_cost p
  | (sh', inr _) => unbound_cost g U (cmap sh') <= unbound_cost g U (cmap sh) /\ 1 <= pc_cost p
  end.
Proof.
  destruct p as [| | | |stk|stk|stk|c|stk|]; cbn [tinv]; intros H HnU; try contradiction.
  - cbn [lstep]. destruct (lookup (cmap sh) n) as [c|]; [destruct (cell_to sh c)|]; cbn; lia.
  - destruct H as [W Hn]. cbn [lstep].
    pose proof (unbound_alloc g U (cmap sh) n (length (heap sh)) U_nodup HnU Hn) as Ua.
    unfold alloc.
    match goal with |- context [advance ?a ?b] =>
      destruct (advance_cost a b) as [Ec Em]; [discriminate|]; destruct (advance a b) as [sh2 p'] end.
    cbn [fst snd] in Ec, Em. rewrite Em. rewrite stack_cost_cons, stack_cost_nil in Ec. cbn [f_todo] in Ec.
    cbn [cmap pc_cost]. unfold node_cost, name, cellid in *. lia.
  - destruct H as (W & [FA ND] & _ & (f & rest & m & todo' & -> & Et & _)).
    cbn [lstep]. rewrite Et. destruct (lookup (cmap sh) m) as [c|].
    + match goal with |- context [advance ?a ?b] =>
        destruct (advance_cost a b) as [Ec Em]; [discriminate|]; destruct (advance a b) as [sh2 p'] end.
      cbn [fst snd] in Ec, Em. rewrite Em. rewrite !stack_cost_cons in Ec. cbn [f_todo] in Ec.
      cbn [pc_cost]. rewrite !stack_cost_cons, Et. cbn [f_todo length]. lia.
    + cbn [pc_cost]. rewrite !stack_cost_cons, Et. cbn [length]. lia.
  - destruct H as (W & [FA ND] & _ & (f & rest & m & todo' & -> & Et & _ & Hm)).
    cbn [lstep]. rewrite Et.
    assert (HmU : In m U).
    { inversion FA; subst. eapply todo_in_U; eauto. }
    pose proof (unbound_alloc g U (cmap sh) m (length (heap sh)) U_nodup HmU Hm) as Ua.
    unfold alloc.
    match goal with |- context [advance ?a ?b] =>
      destruct (advance_cost a b) as [Ec Em]; [discriminate|]; destruct (advance a b) as [sh2 p'] end.
    cbn [fst snd] in Ec, Em. rewrite Em. rewrite !stack_cost_cons in Ec. cbn [f_todo] in Ec.
    cbn [cmap pc_cost]. rewrite !stack_cost_cons, Et. cbn [f_todo length]. unfold node_cost, name, cellid in *. lia.
  - destruct H as (W & [FA ND] & (fb & Hl & _)). cbn [lstep].
    destruct (advance_cost sh stk) as [Ec Em]; [intros ->; discriminate Hl|].
    destruct (advance sh stk) as [sh2 p']. cbn [fst snd] in Ec, Em. rewrite Em. cbn [pc_cost]. lia.
  - cbn. lia.
  - destruct H as (_ & _ & Hne). destruct stk as [|f rest]; [congruence|]. cbn [lstep].
    destruct rest as [|f2 r2]; cbn [cmap fail_to pc_cost length]; lia.
  - cbn. lia.
Qed.

End Measure.


Lemma gstep_stutter d k g t st : ~ can_step st t -> gstep d k g t st = st.
Proof.
  intros H. unfold gstep. destruct (nth_error (s_thr st) t) as [th|] eqn:Ht; [|reflexivity].
  destruct (t_calls th) as [|n rest] eqn:Hc; [reflexivity|].
  destruct (t_pc th) eqn:Hp;
    try (exfalso; apply H; exists th, n, rest; split; [exact Ht|]; split; [exact Hc|]; left; rewrite Hp; discriminate).
  (* PWait *)
  destruct d; [reflexivity|]. destruct (s_lock st) eqn:El; [reflexivity|].
  exfalso; apply H; exists th, n, rest. split; [exact Ht|]. split; [exact Hc|]. right. exact El.
Qed.

Lemma In_skipn {A} (l : list A) j x : In x (skipn j l) -> In x l.
Proof.
  revert l; induction j as [|j IH]; intros l H; [exact H|].
  destruct l as [|y l]; [destruct H|]. right. apply IH. exact H.
Qed.

Lemma thread_cost_finish B th n rest res :
  t_calls th = n :: rest -> thread_cost B (finish_thread th res) = (4 + B) * length rest.
Proof.
  intros Hc. unfold thread_cost, finish_thread. cbn [t_calls t_pc]. rewrite Hc. cbn [tl].
  destruct rest as [|m r]; cbn [length pc_cost]; lia.
Qed.

Lemma thread_cost_with_pc B th n rest p :
  t_calls th = n :: rest -> thread_cost B (with_pc th p) = pc_cost p + B + (4 + B) * length rest.
Proof. intros Hc. unfold thread_cost, with_pc. cbn [t_calls t_pc]. rewrite Hc. reflexivity. Qed.

Lemma thread_cost_at B th n rest :
  t_calls th = n :: rest -> thread_cost B th = pc_cost (t_pc th) + B + (4 + B) * length rest.
Proof. intros Hc. unfold thread_cost. rewrite Hc. reflexivity. Qed.

Lemma classic_can_step st t : can_step st t \/ ~ can_step st t.
Proof.
  unfold can_step. destruct (nth_error (s_thr st) t) as [th|] eqn:Ht.
  - destruct (t_calls th) as [|n rest] eqn:Hc.
    + right. intros (th' & n' & r' & H1 & H2 & _). inversion H1; subst. congruence.
    + destruct (t_pc th) eqn:Hp.
      2: { destruct (s_lock st) eqn:El.
           - right. intros (th' & n' & r' & H1 & _ & [H3|H3]); [inversion H1; subst; congruence | discriminate].
           - left. exists th, n, rest. repeat split; try assumption. right. reflexivity. }
      all: left; exists th, n, rest; repeat split; try assumption; left; rewrite Hp; discriminate.
  - right. intros (th' & n' & r' & H1 & _). discriminate.
Qed.

Section Progress.
Variables (k : nat) (g : graph) (calls : list (list name)).
Let U := universe g calls.

Lemma current_in_U st t th n rest :
  ginv k g calls st -> nth_error (s_thr st) t = Some th -> t_calls th = n :: rest -> In n U.
Proof.
  intros I Ht Hc. destruct (gi_results _ _ _ _ I _ _ Ht) as (j & _ & Hs).
  apply (universe_calls g calls t). apply (In_skipn _ j). rewrite <- Hs, Hc. left. reflexivity.
Qed.

Lemma gstep_decreases_inside st t th n rest :
  ginv k g calls st -> nth_error (s_thr st) t = Some th -> t_calls th = n :: rest ->
  ~ outside (t_pc th) -> mu g U (gstep Guarded k g t st) < mu g U st.
Proof.
  intros I Ht Hc Hin.
  pose proof (current_in_U _ _ _ _ _ I Ht Hc) as HnU.
  pose proof (inside_is_holder _ _ _ _ _ _ I Ht Hin) as El.
  destruct (gi_held _ _ _ _ I t El) as (thh & nh & resth & Hh & Hch & Ti & _).
  rewrite Ht in Hh. inversion Hh; subst thh. clear Hh.
  rewrite Hc in Hch. inversion Hch; subst nh resth. clear Hch.
  rewrite (gstep_inside k g t st th n rest Ht Hc Hin).
  pose proof (lstep_measure k g U (universe_nodup g calls) (universe_gnames g calls) n (s_sh st) (t_pc th) Ti HnU) as L.
  unfold mu. set (B := list_sum (map (node_cost g) U)).
  pose proof (thread_cost_at B _ _ _ Hc) as Cth.
  destruct (lstep k g n (s_sh st) (t_pc th)) as [sh' [p'|res]].
  - cbn [s_sh s_thr].
    pose proof (list_sum_set_nth (thread_cost B) (s_thr st) t th (with_pc th p') Ht) as S.
    rewrite (thread_cost_with_pc B _ _ _ _ Hc) in S. lia.
  - destruct L as [Lu Lp].
    (* the map after the call: unchanged, or rolled back — never costlier than the whole universe *)
    assert (Ecm : unbound_cost g U (cmap (finish_shared res sh')) <= unbound_cost g U (cmap sh') \/
                  unbound_cost g U (cmap (finish_shared res sh')) <= B).
    { destruct res; [right; apply unbound_le | right; apply unbound_le | left; cbn; lia | left; cbn; lia]. }
    pose proof (list_sum_set_nth (thread_cost B) (s_thr st) t th (finish_thread th res) Ht) as S.
    rewrite (thread_cost_finish B _ _ _ res Hc) in S.
    unfold release; cbn [s_sh s_lock s_waitq s_thr]. lia.
Qed.

(* every step of a thread that can step decreases the measure *)
Lemma gstep_decreases st t :
  ginv k g calls st -> can_step st t -> mu g U (gstep Guarded k g t st) < mu g U st.
Proof.
  intros I (th & n & rest & Ht & Hc & Hnw).
  destruct (t_pc th) eqn:Hp.
  - (* PEnter *)
    unfold gstep. rewrite Ht, Hc, Hp. unfold mu. set (B := list_sum (map (node_cost g) U)).
    pose proof (thread_cost_at B _ _ _ Hc) as Cth.
    destruct (s_lock st) as [h|]; cbn [s_sh s_thr reset_reg cmap].
    + pose proof (list_sum_set_nth (thread_cost B) (s_thr st) t th (with_pc th PWait) Ht) as S.
      rewrite (thread_cost_with_pc B _ _ _ _ Hc) in S. rewrite Hp in Cth. cbn [pc_cost] in *. lia.
    + pose proof (list_sum_set_nth (thread_cost B) (s_thr st) t th (with_pc th PLookup) Ht) as S.
      rewrite (thread_cost_with_pc B _ _ _ _ Hc) in S. rewrite Hp in Cth. cbn [pc_cost] in *. lia.
  - (* PWait: the lock is free, the blocked thread takes it *)
    destruct Hnw as [Hnw|El]; [congruence|].
    unfold gstep. rewrite Ht, Hc, Hp, El. unfold mu. set (B := list_sum (map (node_cost g) U)).
    pose proof (thread_cost_at B _ _ _ Hc) as Cth. cbn [s_sh s_thr reset_reg cmap].
    pose proof (list_sum_set_nth (thread_cost B) (s_thr st) t th (with_pc th PLookup) Ht) as S.
    rewrite (thread_cost_with_pc B _ _ _ _ Hc) in S. rewrite Hp in Cth. cbn [pc_cost] in *. lia.
  - eapply gstep_decreases_inside; eauto. rewrite Hp. intros [E|E]; discriminate E.
  - eapply gstep_decreases_inside; eauto. rewrite Hp. intros [E|E]; discriminate E.
  - eapply gstep_decreases_inside; eauto. rewrite Hp. intros [E|E]; discriminate E.
  - eapply gstep_decreases_inside; eauto. rewrite Hp. intros [E|E]; discriminate E.
  - eapply gstep_decreases_inside; eauto. rewrite Hp. intros [E|E]; discriminate E.
  - eapply gstep_decreases_inside; eauto. rewrite Hp. intros [E|E]; discriminate E.
  - eapply gstep_decreases_inside; eauto. rewrite Hp. intros [E|E]; discriminate E.
  - eapply gstep_decreases_inside; eauto. rewrite Hp. intros [E|E]; discriminate E.
Qed.

Lemma gstep_mono st t : ginv k g calls st -> mu g U (gstep Guarded k g t st) <= mu g U st.
Proof.
  intros I. destruct (classic_can_step st t) as [H|H].
  - apply Nat.lt_le_incl. apply gstep_decreases; assumption.
  - rewrite gstep_stutter by exact H. lia.
Qed.

End Progress.


Lemma run_from_app d k g s1 s2 st :
  run_from d k g (s1 ++ s2) st = run_from d k g s2 (run_from d k g s1 st).
Proof. unfold run_from. apply fold_left_app. Qed.

Lemma run_from_cons d k g t r st :
  run_from d k g (t :: r) st = run_from d k g r (gstep d k g t st).
Proof. reflexivity. Qed.

Lemma all_done_no_step st t : all_done st = true -> ~ can_step st t.
Proof.
  unfold all_done. rewrite forallb_forall. intros H (th & n & rest & Ht & Hc & _).
  apply nth_error_In in Ht. specialize (H _ Ht). rewrite Hc in H. discriminate.
Qed.

Lemma all_done_stable d k g sched : forall st, all_done st = true -> run_from d k g sched st = st.
Proof.
  induction sched as [|t r IH]; intros st H; [reflexivity|]. rewrite run_from_cons.
  rewrite gstep_stutter by (apply all_done_no_step; exact H). apply IH. exact H.
Qed.

Section Fair.
Variables (k : nat) (g : graph) (calls : list (list name)).
Let U := universe g calls.

(* no deadlock: while a call is outstanding some thread can step — the lock holder if
   the lock is held, otherwise ANY thread with a call left (at the entry or blocked in Lock():
   no assumption on who is granted the lock) *)
Lemma progress st :
  ginv k g calls st -> all_done st = false -> exists t, t < length calls /\ can_step st t.
Proof.
  intros I Hnd.
  assert (Hex : exists t th, nth_error (s_thr st) t = Some th /\ t_calls th <> []).
  { unfold all_done in Hnd.
    assert (E : existsb (fun th => negb (match t_calls th with [] => true | _ => false end)) (s_thr st) = true).
    { clear I. induction (s_thr st) as [|x l IH]; cbn in *; [discriminate|].
      destruct (t_calls x); cbn in *; [apply IH; exact Hnd | reflexivity]. }
    apply existsb_exists in E. destruct E as (th & Hin & Hth).
    apply In_nth_error in Hin. destruct Hin as (t & Ht). exists t, th. split; [exact Ht|].
    destruct (t_calls th); [discriminate | discriminate]. }
  destruct Hex as (t & th & Ht & Hc).
  destruct (s_lock st) as [h|] eqn:El.
  - destruct (gi_held _ _ _ _ I h El) as (thh & n & rest & Hh & Hch & Ti & _).
    exists h. split.
    + rewrite <- (gi_len _ _ _ _ I). eapply nth_error_lt; eauto.
    + exists thh, n, rest. split; [exact Hh|]. split; [exact Hch|].
      left. intros Hp. rewrite Hp in Ti. exact Ti.
  - exists t. split.
    + rewrite <- (gi_len _ _ _ _ I). eapply nth_error_lt; eauto.
    + destruct (t_calls th) as [|n rest] eqn:Ec; [congruence|].
      exists th, n, rest. split; [exact Ht|]. split; [exact Ec|]. right. exact El.
Qed.

Lemma run_mono sched : forall st, ginv k g calls st -> mu g U (run_from Guarded k g sched st) <= mu g U st.
Proof.
  induction sched as [|t r IH]; intros st I; [cbn; lia|]. rewrite run_from_cons.
  pose proof (gstep_mono k g calls st t I) as M.
  pose proof (IH _ (ginv_step k g calls st t I)) as M2. unfold U in *. lia.
Qed.

Lemma round_decreases round : forall st,
  ginv k g calls st -> (exists t, In t round /\ can_step st t) ->
  mu g U (run_from Guarded k g round st) < mu g U st.
Proof.
  induction round as [|x r IH]; intros st I (t & Hin & Hcs); [destruct Hin|]. rewrite run_from_cons.
  destruct (classic_can_step st x) as [Hx|Hx].
  - pose proof (gstep_decreases k g calls st x I Hx) as D.
    pose proof (run_mono r _ (ginv_step k g calls st x I)) as M. unfold U in *. lia.
  - rewrite (gstep_stutter Guarded k g x st Hx). apply IH; [exact I|].
    exists t. split; [|exact Hcs]. destruct Hin as [->|Hin]; [contradiction | exact Hin].
Qed.

(* every fair schedule of at least [mu] rounds completes all calls *)
Theorem fair_terminates rounds : forall st,
  ginv k g calls st -> Forall (covers (length calls)) rounds -> mu g U st <= length rounds ->
  all_done (run_from Guarded k g (concat rounds) st) = true.
Proof.
  induction rounds as [|r rs IH]; intros st I Hcov Hmu.
  - cbn in *. destruct (all_done st) eqn:Hd; [reflexivity|].
    destruct (progress st I Hd) as (t & _ & Hcs).
    pose proof (gstep_decreases k g calls st t I Hcs) as D. unfold U in *. lia.
  - cbn [concat]. rewrite run_from_app.
    destruct (all_done st) eqn:Hd.
    + rewrite (all_done_stable Guarded k g r st Hd). rewrite (all_done_stable Guarded k g (concat rs) st Hd). exact Hd.
    + inversion Hcov as [|? ? Hr Hrs]; subst.
      destruct (progress st I Hd) as (t & Hlt & Hcs).
      pose proof (round_decreases r st I (ex_intro _ t (conj (Hr t Hlt) Hcs))) as D.
      apply IH; [apply ginv_run; exact I | exact Hrs | cbn in Hmu; unfold U in *; lia].
Qed.

End Fair.

(* ---- the bound, explicitly ---------------------------------------------------------- *)

Lemma sum_init B calls :
  list_sum (map (thread_cost B) (map init_thread calls)) = (4 + B) * length (concat calls).
Proof.
  induction calls as [|c cs IH]; [cbn; lia|].
  cbn [map concat]. rewrite list_sum_cons, IH, app_length.
  unfold thread_cost, init_thread. cbn [t_calls t_pc]. destruct c; cbn [length pc_cost]; lia.
Qed.

Lemma mu_init g calls : mu g (universe g calls) (init calls) = fuel_bound g calls.
Proof.
  unfold mu, fuel_bound, universe_cost, init. cbn [s_sh s_thr cmap empty_shared].
  rewrite sum_init. f_equal.
Qed.

(* CmpbFieldsProofs.v — lemmas behind props/C07.v.
   The abstract field space of model/CmpbFields.v is finite by construction (every parameter is
   an enumeration), so the theorems are proved by a complete enumeration [all_props] with a
   completeness lemma ([all_props_complete : forall p, In p all_props]) and vm_compute over it. *)
From Coq Require Import Ascii String List Bool Arith Lia.
From J5V.lib Require Import Outcome.
From J5V.gen Require SetExtGen.
From J5V.model Require Import CmpbFields.
Import ListNotations.
Local Open Scope string_scope.
Local Open Scope bool_scope.

(* ------------------------------------------------------------ enumerations *)
Definition bools := [false; true].
Definition obools : list (option bool) := [None; Some false; Some true].
Definition all_rfile := [FSame; FOther].
Definition all_refkind := [KMsg; KEnum].
Definition all_ref_out : list ref_out :=
  [RNil; RInlineObject; RInlineOneof; RInlineEnum; RInlineEmpty; RNotFound]
  ++ map (fun kf => RFound (fst kf) (snd kf)) (list_prod all_refkind all_rfile).
Definition all_intfmt := [I32; I64; U32; U64; IUnspec; IBad].
Definition all_fltfmt := [F32; F64; FUnspec; FBad].
Definition all_keyfmt := [KNone; KInformal; KCustom; KUuid; KId62; KNilType].
Definition all_entkey := [ENone; EPrimary false; EPrimary true; EForeign; ENilType].
Definition all_int_rules : list int_rules :=
  map (fun x => match x with (a, b, c, d, e) => mkIR a b c d e end)
      (list_prod (list_prod (list_prod (list_prod bools bools) obools) obools) bools).
Definition all_oint_rules : list (option int_rules) := None :: map Some all_int_rules.

Definition all_fty : list fty :=
  map (fun x => match x with (r, f, u) => TObject r f u end) (list_prod (list_prod all_ref_out bools) bools)
  ++ map (fun x => match x with (r, u, l) => TOneof r u l end) (list_prod (list_prod all_ref_out bools) bools)
  ++ map (fun x => match x with (r, u, l) => TEnum r u l end) (list_prod (list_prod all_ref_out obools) bools)
  ++ map (fun x => TBool (fst x) (snd x)) (list_prod bools bools)
  ++ map TBytes bools
  ++ map (fun x => TDate (fst x) (snd x)) (list_prod bools bools)
  ++ map (fun x => TDecimal (fst x) (snd x)) (list_prod bools bools)
  ++ map (fun x => match x with (f, u, l) => TFloat f u l end) (list_prod (list_prod all_fltfmt bools) bools)
  ++ map (fun x => match x with (f, u, l) => TInteger f u l end) (list_prod (list_prod all_intfmt all_oint_rules) bools)
  ++ map (fun x => match x with (e, t, f, l) => TKey e t f l end) (list_prod (list_prod (list_prod all_entkey bools) all_keyfmt) bools)
  ++ map (fun x => TString (fst x) (snd x)) (list_prod bools bools)
  ++ map (fun x => TTimestamp (fst x) (snd x)) (list_prod bools bools)
  ++ map TAny bools
  ++ [TOther].
Definition all_ofty : list (option fty) := None :: map Some all_fty.
Definition all_shape : list shape :=
  map Plain all_fty
  ++ map (fun x => match x with (i, e, r) => Array i e r end) (list_prod (list_prod all_ofty obools) bools)
  ++ map (fun x => Map (fst x) (snd x)) (list_prod all_ofty bools).
Definition all_props : list prop :=
  map (fun x => match x with (n, s, r, o) => mkProp n s r o end)
      (list_prod (list_prod (list_prod bools all_shape) bools) bools).

(* ------------------------------------------------------------ completeness *)
Lemma bools_complete b : In b bools.
Proof. destruct b; simpl; tauto. Qed.
Lemma obools_complete b : In b obools.
Proof. destruct b as [[|]|]; simpl; tauto. Qed.
Lemma ref_out_complete r : In r all_ref_out.
Proof. destruct r as [| | | | | |[|] [|]]; vm_compute; tauto. Qed.
Lemma intfmt_complete f : In f all_intfmt.
Proof. destruct f; simpl; tauto. Qed.
Lemma fltfmt_complete f : In f all_fltfmt.
Proof. destruct f; simpl; tauto. Qed.
Lemma keyfmt_complete f : In f all_keyfmt.
Proof. destruct f; simpl; tauto. Qed.
Lemma entkey_complete e : In e all_entkey.
Proof. destruct e as [|[|]| |]; simpl; tauto. Qed.
Lemma int_rules_complete r : In r all_int_rules.
Proof.
  destruct r as [a b c d e]. unfold all_int_rules. apply in_map_iff. exists (a, b, c, d, e). split; [reflexivity|].
  repeat apply in_prod; auto using bools_complete, obools_complete.
Qed.
Lemma oint_rules_complete r : In r all_oint_rules.
Proof. destruct r as [r|]; [right; apply in_map; apply int_rules_complete|left; reflexivity]. Qed.

Ltac fin :=
  repeat apply in_prod;
  auto using bools_complete, obools_complete, ref_out_complete, intfmt_complete, fltfmt_complete,
    keyfmt_complete, entkey_complete, int_rules_complete, oint_rules_complete.

(* walk down a ++ chain to the block whose map produces the term *)
Ltac pick w :=
  first [ apply in_or_app; left; apply in_map_iff; exists w; split; [reflexivity|fin]
        | apply in_or_app; right; pick w ].

Lemma fty_complete t : In t all_fty.
Proof.
  unfold all_fty. destruct t as [r f u|r u l|r u l|u l|u|u l|u l|f u l|f u l|e t f l|u l|u l|l|].
  - pick (r, f, u).
  - pick (r, u, l).
  - pick (r, u, l).
  - pick (u, l).
  - pick u.
  - pick (u, l).
  - pick (u, l).
  - pick (f, u, l).
  - pick (f, u, l).
  - pick (e, t, f, l).
  - pick (u, l).
  - pick (u, l).
  - pick l.
  - repeat (apply in_or_app; right). simpl; tauto.
Qed.
Lemma ofty_complete t : In t all_ofty.
Proof. destruct t as [t|]; [right; apply in_map; apply fty_complete|left; reflexivity]. Qed.
Lemma shape_complete s : In s all_shape.
Proof.
  unfold all_shape. destruct s as [t|i e r|i r].
  - apply in_or_app; left. apply in_map. apply fty_complete.
  - apply in_or_app; right. apply in_or_app; left. apply in_map_iff. exists (i, e, r). split; [reflexivity|].
    repeat apply in_prod; auto using ofty_complete, obools_complete, bools_complete.
  - apply in_or_app; right. apply in_or_app; right. apply in_map_iff. exists (i, r). split; [reflexivity|].
    apply in_prod; auto using ofty_complete, bools_complete.
Qed.
Lemma all_props_complete p : In p all_props.
Proof.
  destruct p as [n s r o]. unfold all_props. apply in_map_iff. exists (n, s, r, o). split; [reflexivity|].
  repeat apply in_prod; auto using bools_complete, shape_complete.
Qed.

Lemma by_enumeration (P : prop -> bool) : forallb P all_props = true -> forall p, P p = true.
Proof. intros H p. rewrite forallb_forall in H. apply H. apply all_props_complete. Qed.

(* ------------------------------------------------------------ tie to the regenerated tables *)
(* (function, arm, extension variable, value type, destination type) of a generated row / a model site *)
Definition gen_key (r : string * string * string * string * string * string * list string * bool) :=
  match r with (_, fn, arm, x, vt, dst, _, _) => (fn, arm, x, vt, dst) end.
Definition site_key (s : site) := (s_func s, s_arm s, ext_var (s_ext s), s_vtype s, s_dest s).

(* every proto.SetExtension call of j5convert is a site of the model with the same static types, and
   every site of the model exists in the code: equality of the two tables as SETS of keys (function,
   type-switch arm, extension, value type, destination type).  Reordering functions or moving a call
   inside its arm does not matter; a call in a new place, a removed call or a retyped call does. *)
Definition key5 := (string * string * string * string * string)%type.
Definition key5_eqb (a b : key5) : bool :=
  match a, b with
  | (a1, a2, a3, a4, a5), (b1, b2, b3, b4, b5) =>
      String.eqb a1 b1 && String.eqb a2 b2 && String.eqb a3 b3 && String.eqb a4 b4 && String.eqb a5 b5
  end.
Definition keys_subset (a b : list key5) : bool := forallb (fun k => existsb (key5_eqb k) b) a.
Definition sites_same_set : bool :=
  keys_subset (map site_key model_sites) (map gen_key SetExtGen.sites)
  && keys_subset (map gen_key SetExtGen.sites) (map site_key model_sites).
Lemma sites_agree : sites_same_set = true.
Proof. vm_compute. reflexivity. Qed.

(* every extension the model knows exists in the generated table *)
Lemma exts_known : forallb (fun e => match ext_row e with Some _ => true | None => false end) all_exts = true.
Proof. vm_compute. reflexivity. Qed.
(* ... and its defining file is one of the import constants (so ext_imp is total on them) *)
Lemma exts_have_imports : forallb (fun e => match ext_imp e with Some _ => true | None => false end) all_exts = true.
Proof. vm_compute. reflexivity. Qed.

(* every import constant is a path ensureImport accepts (non-empty, contains "/") *)
Lemma import_paths_ok :
  forallb (fun i => negb (String.eqb (imp_path i) "") && has_slash (imp_path i)) (IRefFile :: const_imps) = true.
Proof. vm_compute. reflexivity. Qed.

(* setJ5Ext: every literal type name passed is a singular message field of FieldOptions, and every
   field of the source Ext message has a same-named, same-kind, same-cardinality, non-message
   counterpart in the destination: the reflection copy can neither fail nor panic *)
Definition j5ext_call_ok (r : string * string * string * string * string) : bool :=
  match r with
  | (_, _, name, _, src) =>
      match fo_field name with
      | Some (_, kind, card, dst) =>
          String.eqb kind "message" && String.eqb card "single"
          && match copy_fields src dst (map (fun f => match f with (n, _, _, _) => n end) (fields_of src)) with
             | CopyOk => true | _ => false end
      | None => false
      end
  end.
Lemma setj5ext_calls_ok : forallb j5ext_call_ok SetExtGen.setj5ext_calls = true.
Proof. vm_compute. reflexivity. Qed.

(* site_ok on the generated rows: value type = the extension's Go type, destination = its extendee,
   and the extension's file is imported: by an ensureImport among the direct statements of the
   enclosing blocks, by a direct setJ5Ext call (which ensures j5ExtImport), or by the listed context *)
Definition j5ext_path := imp_path IJ5Ext.
Definition gen_ext (v : string) := find (fun r => match r with (v', _, _, _, _, _) => String.eqb v v' end) SetExtGen.exts.
(* sites whose import comes from the enclosing declaration rather than from their own block *)
Definition import_by_context (fn x : string) : bool :=
  (* a value is added by visitEnumNode, which ensures the import when any option has info *)
  (String.eqb fn "enumBuilder.addValue" && String.eqb x "ext_j5pb.E_EnumValue")
  (* a field lives in an object/oneof; visitObjectNode / visitOneofNode ensure j5ExtImport *)
  || (String.eqb fn "buildField" && String.eqb x "ext_j5pb.E_Field").
Definition gen_site_typed (r : string * string * string * string * string * string * list string * bool) : bool :=
  match r with
  | (_, _, _, x, vt, dst, _, _) =>
      match gen_ext x with
      | Some (_, _, extendee, gotype, _, _) => String.eqb vt gotype && String.eqb dst extendee
      | None => false
      end
  end.
Definition gen_site_imported (r : string * string * string * string * string * string * list string * bool) : bool :=
  match r with
  | (_, fn, _, x, _, _, ensured, setj5) =>
      match gen_ext x with
      | Some (_, _, _, _, file, _) =>
          existsb (String.eqb file) ensured
          || (setj5 && String.eqb file j5ext_path)
          || (import_by_context fn x && String.eqb file j5ext_path)
      | None => false
      end
  end.
Definition gen_site_ok r := gen_site_typed r && gen_site_imported r.
(* every SetExtension call passes the extension's declared Go type to the options message the extension extends,
   in a branch that imports the extension's file.  (Before fix 985f10a the list_request call in
   visitServiceMethodNode was the one ill-typed site: it is gone, a list request is reported as an error.) *)
Lemma setext_typed : forallb gen_site_ok SetExtGen.sites = true.
Proof. vm_compute. reflexivity. Qed.
(* the enum-value import really is ensured by the caller (twice: info fields and option info) *)
Lemma enum_value_import_in_caller :
  2 <= length (filter (fun r => match r with (_, fn, p) =>
        String.eqb fn "conversionVisitor.visitEnumNode" && String.eqb p j5ext_path end) SetExtGen.ensure_sites).
Proof. vm_compute. lia. Qed.

(* ------------------------------------------------------------ the theorems, by enumeration *)
Definition verdict_is (v : verdict) (o : iso_obs) : bool :=
  match v, o_verdict o with
  | VOk, VOk | VConvErr, VConvErr | VLinkErr, VLinkErr | VPanic, VPanic => true
  | _, _ => false
  end.

(* imports ensured by buildProperty alone, without the enclosing object's visit *)
Definition field_cover (p : prop) : bool :=
  match build_property p st0 with
  | Ok (_, s) => forallb (ext_imported (imps s)) (opts s) && forallb (ext_imported (imps s)) (vopts s)
  | _ => true
  end.
Definition has_any (p : prop) : bool :=
  match p_shape p with
  | Plain (TAny _) | Array (Some (TAny _)) _ _ | Map (Some (TAny _)) _ => true
  | _ => false
  end.
Definition accepted_language (p : prop) : bool :=
  in_language p && negb (uses_float_rules p).

(* everything that is proved about one property, evaluated once over the whole space *)
Definition iso_spec (p : prop) : bool :=
  let o := compile_iso p in
  negb (verdict_is VPanic o)
  && negb (verdict_is VLinkErr o)
  && (negb (accepted_language p) || verdict_is VOk o)
  && (negb (verdict_is VConvErr o) || negb (accepted_language p))
  && (negb (verdict_is VConvErr o) || Nat.leb 1 (iso_nerr p))
  && (negb (verdict_is VOk o) || (ext_imported (o_imps o) XMessage && forallb (ext_imported (o_imps o)) (o_exts o)))
  && (has_any p || field_cover p).

Lemma iso_spec_all : forallb iso_spec all_props = true.
Proof. vm_compute. reflexivity. Qed.

Lemma iso_spec_holds p : iso_spec p = true.
Proof. apply (by_enumeration iso_spec iso_spec_all). Qed.

Ltac spec_parts p H :=
  pose proof (iso_spec_holds p) as H; unfold iso_spec in H; cbv zeta in H;
  repeat (apply andb_prop in H; let H2 := fresh "Hs" in destruct H as [H H2]).

Lemma verdict_is_iff v o : verdict_is v o = true <-> o_verdict o = v.
Proof. unfold verdict_is. destruct v, (o_verdict o); split; intros; try reflexivity; try discriminate. Qed.
Lemma verdict_is_false v o : verdict_is v o = false <-> o_verdict o <> v.
Proof.
  rewrite <- verdict_is_iff. destruct (verdict_is v o); split; intros; try reflexivity; try discriminate; try congruence.
Qed.

Lemma iso_no_panic p : o_verdict (compile_iso p) <> VPanic.
Proof. spec_parts p H. apply verdict_is_false. apply negb_true_iff. exact H. Qed.

Lemma iso_no_link_error p : o_verdict (compile_iso p) <> VLinkErr.
Proof. spec_parts p H. apply verdict_is_false. apply negb_true_iff. exact Hs4. Qed.

Lemma iso_language_accepted p : accepted_language p = true -> o_verdict (compile_iso p) = VOk.
Proof.
  intros Hl. spec_parts p H. rewrite Hl in Hs3. simpl in Hs3. apply verdict_is_iff. exact Hs3.
Qed.

Lemma iso_rejects_only_outside p : o_verdict (compile_iso p) = VConvErr -> accepted_language p = false.
Proof.
  intros Hv. spec_parts p H. apply verdict_is_iff in Hv. rewrite Hv in Hs2. simpl in Hs2.
  apply negb_true_iff. exact Hs2.
Qed.

Lemma iso_errors_nonempty p : o_verdict (compile_iso p) = VConvErr -> 1 <= iso_nerr p.
Proof.
  intros Hv. spec_parts p H. apply verdict_is_iff in Hv. rewrite Hv in Hs1. simpl in Hs1.
  apply Nat.leb_le. exact Hs1.
Qed.

Lemma iso_imports_cover p : o_verdict (compile_iso p) = VOk ->
  forall e, In e (XMessage :: o_exts (compile_iso p)) -> ext_imported (o_imps (compile_iso p)) e = true.
Proof.
  intros Hv e He. spec_parts p H. apply verdict_is_iff in Hv. rewrite Hv in Hs0. simpl in Hs0.
  apply andb_prop in Hs0. destruct Hs0 as [Hm Hf]. destruct He as [He|He]; [subst e; exact Hm|].
  rewrite forallb_forall in Hf. apply Hf. exact He.
Qed.

Lemma field_imports_cover p : has_any p = false -> field_cover p = true.
Proof. intros Ha. spec_parts p H. rewrite Ha in Hs. exact Hs. Qed.

(* in the model every recorded error goes through addError, which attaches the node's position: the shape of
   addError and GetPos is read from the Go source on every run *)
Lemma errors_positioned_holds : errors_positioned = true.
Proof. vm_compute. reflexivity. Qed.

(* the documented language at full strength is NOT accepted: float rules, and list rules on an
   informal key, are rejected with a conversion error *)
Definition float_rules_witness := mkProp false (Plain (TFloat F32 true false)) false false.
Lemma language_refuted :
  in_language float_rules_witness = true /\ o_verdict (compile_iso float_rules_witness) = VConvErr.
Proof. vm_compute. repeat split. Qed.
(* list rules on an informal key are accepted since fix dc2b724 (they were the second gap) *)
Lemma informal_key_listrules_accepted :
  o_verdict (compile_iso (mkProp false (Plain (TKey ENone false KInformal true)) false false)) = VOk.
Proof. vm_compute. reflexivity. Qed.

(* Any is the one field type that relies on the enclosing object's import *)
Lemma any_needs_context : field_cover (mkProp false (Plain (TAny false)) false false) = false.
Proof. vm_compute. reflexivity. Qed.

(* statements used verbatim by props/C07.v *)
Definition full_language_statement : Prop :=
  forall p, in_language p = true -> o_verdict (compile_iso p) = VOk.
Lemma full_language_refuted : ~ full_language_statement.
Proof.
  intros H. pose proof (H float_rules_witness) as Hf.
  destruct language_refuted as [Hl Hv]. rewrite (Hf Hl) in Hv. discriminate.
Qed.
Lemma language_accepted_partial : forall p,
  in_language p = true -> uses_float_rules p = false -> o_verdict (compile_iso p) = VOk.
Proof.
  intros p H1 H2. apply iso_language_accepted. unfold accepted_language. rewrite H1, H2. reflexivity.
Qed.

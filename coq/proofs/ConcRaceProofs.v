(* ConcRaceProofs.v — data-race freedom of the guarded discipline (C10) at the level of
   the model's access events: a lock discipline on traces (holder, cells written, cells
   visible to a thread) that implies [race_free] and [write_once], and the proof that
   every trace of the guarded machine follows it. *)
From Coq Require Import List NArith Bool Arith Lia.
From J5V.model Require Import Conc ConcRace.
From J5V.proofs Require Import ConcInvProofs.
Import ListNotations.

(* ---- a lock discipline on traces that implies race freedom ------------------------- *)
(* holder of the mutex; cells whose To has been written; per thread the cells whose
   write it is ordered after (its own writes, and everything written before its latest
   acquire) *)
Record dstate := mkD { d_holder : option tid; d_written : list cellid; d_vis : tid -> list cellid }.

Definition d_init : dstate := mkD None [] (fun _ => []).

Definition holds (s : dstate) (t : tid) : bool :=
  match d_holder s with Some h => Nat.eqb h t | None => false end.

Definition memb (c : cellid) (l : list cellid) : bool := existsb (Nat.eqb c) l.

Definition dstep (s : dstate) (e : event) : option dstate :=
  match e with
  | EAcq t =>
      match d_holder s with
      | None => Some (mkD (Some t) (d_written s) (fun u => if Nat.eqb u t then d_written s else d_vis s u))
      | Some _ => None
      end
  | ERel t => if holds s t then Some (mkD None (d_written s) (d_vis s)) else None
  | ERd t _ => if holds s t then Some s else None
  | EWr t l =>
      if holds s t then
        match l with
        | LCell c =>
            if memb c (d_written s) then None
            else Some (mkD (d_holder s) (c :: d_written s) (fun u => if Nat.eqb u t then c :: d_vis s u else d_vis s u))
        | _ => Some s
        end
      else None
  | EObs t c => if memb c (d_vis s t) then Some s else None
  end.

Fixpoint drun (s : dstate) (tr : list event) : option dstate :=
  match tr with
  | [] => Some s
  | e :: r => match dstep s e with Some s' => drun s' r | None => None end
  end.

Definition disciplined (tr : list event) : Prop := exists s, drun d_init tr = Some s.

Lemma drun_app s a b :
  drun s (a ++ b) = match drun s a with Some s' => drun s' b | None => None end.
Proof.
  revert s; induction a as [|e a IH]; intros s; cbn; [reflexivity|].
  destruct (dstep s e); [apply IH | reflexivity].
Qed.

Lemma memb_In c l : memb c l = true <-> In c l.
Proof.
  unfold memb. rewrite existsb_exists. split.
  - intros (x & Hin & E). apply Nat.eqb_eq in E. subst. exact Hin.
  - intros H. exists c. split; [exact H | apply Nat.eqb_refl].
Qed.

Lemma holds_spec s t : holds s t = true <-> d_holder s = Some t.
Proof.
  unfold holds. destruct (d_holder s) as [h|]; [|split; discriminate].
  rewrite Nat.eqb_eq. split; [intros ->; reflexivity | intros E; inversion E; reflexivity].
Qed.

Lemma nth_error_snoc_cases {A} (P : list A) e i x :
  nth_error (P ++ [e]) i = Some x -> nth_error P i = Some x \/ (i = length P /\ x = e).
Proof.
  intros H. destruct (Nat.lt_ge_cases i (length P)) as [Hlt|Hge].
  - left. rewrite nth_error_app1 in H by exact Hlt. exact H.
  - right. rewrite nth_error_app2 in H by exact Hge.
    destruct (i - length P) as [|m] eqn:E.
    + cbn in H. inversion H. split; [lia | reflexivity].
    + cbn in H. destruct m; discriminate H.
Qed.

Lemma nth_error_prefix {A} (P Q : list A) i x : nth_error P i = Some x -> nth_error (P ++ Q) i = Some x.
Proof. intros H. rewrite nth_error_app1; [exact H | apply nth_error_Some; congruence]. Qed.

Lemma nth_error_lt' {A} (l : list A) i x : nth_error l i = Some x -> i < length l.
Proof. intros H. apply nth_error_Some. congruence. Qed.

(* e is an access made inside Schema by thread t *)
Definition cs_event (e : event) (t : tid) : Prop :=
  (exists l, e = ERd t l) \/ (exists l, e = EWr t l).

(* what the state of the discipline says about the prefix it has seen *)
Record dinv (P : list event) (s : dstate) : Prop := mkDinv {
  (* A: an access inside Schema by t1 is either in the critical section still open,
     or t1 has released since, and whoever holds the lock now acquired it after that *)
  di_cs : forall i e t1, nth_error P i = Some e -> cs_event e t1 ->
      d_holder s = Some t1 \/
      exists r, i < r /\ nth_error P r = Some (ERel t1) /\
                forall t2, d_holder s = Some t2 -> exists a, r < a /\ nth_error P a = Some (EAcq t2);
  (* W: the written cells are those with a write event, and each has exactly one *)
  di_written : forall c, In c (d_written s) <-> exists i t, nth_error P i = Some (EWr t (LCell c));
  di_once : forall i j t1 t2 c, nth_error P i = Some (EWr t1 (LCell c)) ->
      nth_error P j = Some (EWr t2 (LCell c)) -> i = j;
  (* V: a cell visible to t was written by t, or by t' who released before t acquired *)
  di_vis : forall t c, In c (d_vis s t) ->
      In c (d_written s) /\
      exists i t', nth_error P i = Some (EWr t' (LCell c)) /\
        (t' = t \/ exists r a, i < r /\ r < a /\ a < length P /\
                    nth_error P r = Some (ERel t') /\ nth_error P a = Some (EAcq t));
  (* a cell read by a caller had been written *)
  di_obs : forall i t c, nth_error P i = Some (EObs t c) -> In c (d_written s)
}.

Lemma dinv_init : dinv [] d_init.
Proof.
  split; cbn.
  - intros i e t1 H. destruct i; discriminate H.
  - intros c. split; [intros [] | intros (i & t & H); destruct i; discriminate H].
  - intros i j t1 t2 c H. destruct i; discriminate H.
  - intros t c [].
  - intros i t c H. destruct i; discriminate H.
Qed.

Lemma nth_snoc_last {A} (P : list A) e : nth_error (P ++ [e]) (length P) = Some e.
Proof. rewrite nth_error_app2 by lia. rewrite Nat.sub_diag. reflexivity. Qed.

(* facts about a prefix carry over to the extended trace *)
Lemma lift_cs P e s s' :
  (forall t2, d_holder s' = Some t2 -> d_holder s = Some t2) ->
  forall i t1,
  (d_holder s = Some t1 \/
   exists r, i < r /\ nth_error P r = Some (ERel t1) /\
             forall t2, d_holder s = Some t2 -> exists a, r < a /\ nth_error P a = Some (EAcq t2)) ->
  d_holder s = d_holder s' ->
  (d_holder s' = Some t1 \/
   exists r, i < r /\ nth_error (P ++ [e]) r = Some (ERel t1) /\
             forall t2, d_holder s' = Some t2 -> exists a, r < a /\ nth_error (P ++ [e]) a = Some (EAcq t2)).
Proof.
  intros _ i t1 [H | (r & Hr & Hrel & Hacq)] Eh.
  - left. rewrite <- Eh. exact H.
  - right. exists r. split; [exact Hr|]. split; [apply nth_error_prefix; exact Hrel|].
    intros t2 H2. rewrite <- Eh in H2. destruct (Hacq t2 H2) as (a & Ha & Hacq').
    exists a. split; [exact Ha | apply nth_error_prefix; exact Hacq'].
Qed.

Lemma lift_vis P e t c (W W' : Prop) :
  (W -> W') ->
  (W /\ exists i t', nth_error P i = Some (EWr t' (LCell c)) /\
        (t' = t \/ exists r a, i < r /\ r < a /\ a < length P /\
                    nth_error P r = Some (ERel t') /\ nth_error P a = Some (EAcq t))) ->
  (W' /\ exists i t', nth_error (P ++ [e]) i = Some (EWr t' (LCell c)) /\
        (t' = t \/ exists r a, i < r /\ r < a /\ a < length (P ++ [e]) /\
                    nth_error (P ++ [e]) r = Some (ERel t') /\ nth_error (P ++ [e]) a = Some (EAcq t))).
Proof.
  intros HW (Hw & i & t' & Hi & Hor). split; [apply HW; exact Hw|].
  exists i, t'. split; [apply nth_error_prefix; exact Hi|].
  destruct Hor as [E | (r & a & H1 & H2 & H3 & H4 & H5)]; [left; exact E|].
  right. exists r, a. rewrite app_length. cbn. repeat split; try lia; apply nth_error_prefix; assumption.
Qed.

Lemma lift_obs P e (w w' : list cellid) :
  (forall c, In c w -> In c w') -> (forall t c, e <> EObs t c) ->
  (forall i t c, nth_error P i = Some (EObs t c) -> In c w) ->
  forall i t c, nth_error (P ++ [e]) i = Some (EObs t c) -> In c w'.
Proof.
  intros Hw He H i t c Hi. apply nth_error_snoc_cases in Hi. destruct Hi as [Hi | [_ E]].
  - apply Hw. eapply H; eauto.
  - exfalso. eapply He; eauto.
Qed.

Lemma dinv_snoc P s e s' : dinv P s -> dstep s e = Some s' -> dinv (P ++ [e]) s'.
Proof.
  intros I Hs. destruct e as [t|t|t l|t l|t c]; cbn [dstep] in Hs.
  - (* EAcq *)
    destruct (d_holder s) eqn:Eh; [discriminate|]. inversion Hs; subst s'; clear Hs. split; cbn [d_holder d_written d_vis].
    + intros i e0 t1 Hi Hcs. apply nth_error_snoc_cases in Hi. destruct Hi as [Hi | [-> ->]].
      * destruct (di_cs _ _ I _ _ _ Hi Hcs) as [H | (r & Hr & Hrel & _)]; [rewrite Eh in H; discriminate|].
        right. exists r. split; [exact Hr|]. split; [apply nth_error_prefix; exact Hrel|].
        intros t2 E2. inversion E2; subst t2. exists (length P). split; [eapply nth_error_lt'; eauto | apply nth_snoc_last].
      * destruct Hcs as [(l & E) | (l & E)]; discriminate E.
    + intros c. rewrite (di_written _ _ I c). split.
      * intros (i & t0 & Hi). exists i, t0. apply nth_error_prefix. exact Hi.
      * intros (i & t0 & Hi). apply nth_error_snoc_cases in Hi. destruct Hi as [Hi | [_ E]]; [eauto | discriminate E].
    + intros i j t1 t2 c Hi Hj. apply nth_error_snoc_cases in Hi. apply nth_error_snoc_cases in Hj.
      destruct Hi as [Hi | [_ E]]; [|discriminate E]. destruct Hj as [Hj | [_ E]]; [|discriminate E].
      eapply di_once; eauto.
    + intros u c Hin. destruct (Nat.eqb_spec u t) as [->|Hne].
      * split; [exact Hin|]. apply (di_written _ _ I) in Hin. destruct Hin as (i & t' & Hi).
        exists i, t'. split; [apply nth_error_prefix; exact Hi|].
        assert (Hcs : cs_event (EWr t' (LCell c)) t') by (right; eexists; reflexivity).
        destruct (di_cs _ _ I _ _ _ Hi Hcs) as [H | (r & Hr & Hrel & _)]; [rewrite Eh in H; discriminate|].
        right. exists r, (length P). rewrite app_length. cbn.
        pose proof (nth_error_lt' _ _ _ Hrel). repeat split; try lia; [apply nth_error_prefix; exact Hrel | apply nth_snoc_last].
      * apply (lift_vis P (EAcq t) u c _ _ (fun x => x)). apply (di_vis _ _ I). exact Hin.
    + apply (lift_obs P (EAcq t) (d_written s)); [auto | discriminate | apply (di_obs _ _ I)].
  - (* ERel *)
    destruct (holds s t) eqn:Eh; [|discriminate]. apply holds_spec in Eh.
    inversion Hs; subst s'; clear Hs. split; cbn [d_holder d_written d_vis].
    + intros i e0 t1 Hi Hcs. apply nth_error_snoc_cases in Hi. destruct Hi as [Hi | [-> ->]].
      * right. destruct (di_cs _ _ I _ _ _ Hi Hcs) as [H | (r & Hr & Hrel & _)].
        -- rewrite Eh in H. inversion H; subst t1. exists (length P).
           split; [eapply nth_error_lt'; eauto|]. split; [apply nth_snoc_last | intros t2 E2; discriminate E2].
        -- exists r. split; [exact Hr|]. split; [apply nth_error_prefix; exact Hrel | intros t2 E2; discriminate E2].
      * destruct Hcs as [(l & E) | (l & E)]; discriminate E.
    + intros c. rewrite (di_written _ _ I c). split.
      * intros (i & t0 & Hi). exists i, t0. apply nth_error_prefix. exact Hi.
      * intros (i & t0 & Hi). apply nth_error_snoc_cases in Hi. destruct Hi as [Hi | [_ E]]; [eauto | discriminate E].
    + intros i j t1 t2 c Hi Hj. apply nth_error_snoc_cases in Hi. apply nth_error_snoc_cases in Hj.
      destruct Hi as [Hi | [_ E]]; [|discriminate E]. destruct Hj as [Hj | [_ E]]; [|discriminate E].
      eapply di_once; eauto.
    + intros u c Hin. apply (lift_vis P (ERel t) u c _ _ (fun x => x)). apply (di_vis _ _ I). exact Hin.
    + apply (lift_obs P (ERel t) (d_written s)); [auto | discriminate | apply (di_obs _ _ I)].
  - (* ERd *)
    destruct (holds s t) eqn:Eh; [|discriminate]. apply holds_spec in Eh.
    inversion Hs; subst s'; clear Hs. split.
    + intros i e0 t1 Hi Hcs. apply nth_error_snoc_cases in Hi. destruct Hi as [Hi | [-> ->]].
      * apply (lift_cs P (ERd t l) s s (fun _ x => x)); [|reflexivity]. eapply di_cs; eauto.
      * left. destruct Hcs as [(l' & E) | (l' & E)]; inversion E; subst. exact Eh.
    + intros c. rewrite (di_written _ _ I c). split.
      * intros (i & t0 & Hi). exists i, t0. apply nth_error_prefix. exact Hi.
      * intros (i & t0 & Hi). apply nth_error_snoc_cases in Hi. destruct Hi as [Hi | [_ E]]; [eauto | discriminate E].
    + intros i j t1 t2 c Hi Hj. apply nth_error_snoc_cases in Hi. apply nth_error_snoc_cases in Hj.
      destruct Hi as [Hi | [_ E]]; [|discriminate E]. destruct Hj as [Hj | [_ E]]; [|discriminate E].
      eapply di_once; eauto.
    + intros u c Hin. apply (lift_vis P (ERd t l) u c _ _ (fun x => x)). apply (di_vis _ _ I). exact Hin.
    + apply (lift_obs P (ERd t l) (d_written s)); [auto | discriminate | apply (di_obs _ _ I)].
  - (* EWr *)
    destruct (holds s t) eqn:Eh; [|discriminate]. apply holds_spec in Eh.
    assert (Hcsnew : forall s'', d_holder s'' = d_holder s ->
              forall i e0 t1, nth_error (P ++ [EWr t l]) i = Some e0 -> cs_event e0 t1 ->
              d_holder s'' = Some t1 \/
              exists r, i < r /\ nth_error (P ++ [EWr t l]) r = Some (ERel t1) /\
                forall t2, d_holder s'' = Some t2 -> exists a, r < a /\ nth_error (P ++ [EWr t l]) a = Some (EAcq t2)).
    { intros s'' Es i e0 t1 Hi Hcs. apply nth_error_snoc_cases in Hi. destruct Hi as [Hi | [-> ->]].
      * apply (lift_cs P (EWr t l) s s'' (fun t2 x => eq_trans (eq_sym Es) x)); [|symmetry; exact Es]. eapply di_cs; eauto.
      * left. rewrite Es. destruct Hcs as [(l' & E) | (l' & E)]; inversion E; subst. exact Eh. }
    destruct l as [|pq| |c].
    1,2,3: inversion Hs; subst s'; clear Hs; split;
      [ apply Hcsnew; reflexivity
      | intros c; rewrite (di_written _ _ I c); split;
        [ intros (i & t0 & Hi); exists i, t0; apply nth_error_prefix; exact Hi
        | intros (i & t0 & Hi); apply nth_error_snoc_cases in Hi; destruct Hi as [Hi | [_ E]]; [eauto | discriminate E] ]
      | intros i j t1 t2 c Hi Hj; apply nth_error_snoc_cases in Hi; apply nth_error_snoc_cases in Hj;
        destruct Hi as [Hi | [_ E]]; [|discriminate E]; destruct Hj as [Hj | [_ E]]; [|discriminate E];
        eapply di_once; eauto
      | intros u c Hin; apply (lift_vis P _ u c _ _ (fun x => x)); apply (di_vis _ _ I); exact Hin
      | apply (lift_obs P _ (d_written s)); [auto | discriminate | apply (di_obs _ _ I)] ].
    destruct (memb c (d_written s)) eqn:Em; [discriminate|].
    assert (Hnw : ~ In c (d_written s)) by (intros H; apply memb_In in H; congruence).
    inversion Hs; subst s'; clear Hs. split; cbn [d_holder d_written d_vis].
    + apply (Hcsnew s). reflexivity.
    + intros c'. cbn [In]. rewrite (di_written _ _ I c'). split.
      * intros [<- | (i & t0 & Hi)]; [exists (length P), t; apply nth_snoc_last | exists i, t0; apply nth_error_prefix; exact Hi].
      * intros (i & t0 & Hi). apply nth_error_snoc_cases in Hi. destruct Hi as [Hi | [_ E]]; [right; eauto | inversion E; left; reflexivity].
    + intros i j t1 t2 c' Hi Hj. apply nth_error_snoc_cases in Hi. apply nth_error_snoc_cases in Hj.
      destruct Hi as [Hi | [-> E1]]; destruct Hj as [Hj | [-> E2]].
      * eapply di_once; eauto.
      * inversion E2; subst. exfalso. apply Hnw. apply (di_written _ _ I). eauto.
      * inversion E1; subst. exfalso. apply Hnw. apply (di_written _ _ I). eauto.
      * reflexivity.
    + intros u c' Hin. destruct (Nat.eqb_spec u t) as [->|Hne].
      * destruct Hin as [<- | Hin].
        -- split; [left; reflexivity|]. exists (length P), t. split; [apply nth_snoc_last | left; reflexivity].
        -- apply (lift_vis P _ t c' _ _ (fun x => or_intror x)). apply (di_vis _ _ I). exact Hin.
      * apply (lift_vis P _ u c' _ _ (fun x => or_intror x)). apply (di_vis _ _ I). exact Hin.
    + apply (lift_obs P _ (d_written s)); [intros c0 H0; right; exact H0 | discriminate | apply (di_obs _ _ I)].
  - (* EObs *)
    destruct (memb c (d_vis s t)) eqn:Em; [|discriminate]. inversion Hs; subst s'; clear Hs. split.
    + intros i e0 t1 Hi Hcs. apply nth_error_snoc_cases in Hi. destruct Hi as [Hi | [-> ->]].
      * apply (lift_cs P (EObs t c) s s (fun _ x => x)); [|reflexivity]. eapply di_cs; eauto.
      * destruct Hcs as [(l & E) | (l & E)]; discriminate E.
    + intros c'. rewrite (di_written _ _ I c'). split.
      * intros (i & t0 & Hi). exists i, t0. apply nth_error_prefix. exact Hi.
      * intros (i & t0 & Hi). apply nth_error_snoc_cases in Hi. destruct Hi as [Hi | [_ E]]; [eauto | discriminate E].
    + intros i j t1 t2 c' Hi Hj. apply nth_error_snoc_cases in Hi. apply nth_error_snoc_cases in Hj.
      destruct Hi as [Hi | [_ E]]; [|discriminate E]. destruct Hj as [Hj | [_ E]]; [|discriminate E].
      eapply di_once; eauto.
    + intros u c' Hin. apply (lift_vis P _ u c' _ _ (fun x => x)). apply (di_vis _ _ I). exact Hin.
    + intros i u c' Hi. apply nth_error_snoc_cases in Hi. destruct Hi as [Hi | [_ E]].
      * eapply di_obs; eauto.
      * inversion E; subst. apply memb_In in Em. apply (di_vis _ _ I) in Em. apply Em.
Qed.

(* the invariant holds of every prefix of a disciplined trace *)
Lemma dinv_run : forall P Q s s', dinv P s -> drun s Q = Some s' -> dinv (P ++ Q) s'.
Proof.
  intros P Q; revert P; induction Q as [|e Q IH]; intros P s s' I H.
  - cbn in H. inversion H; subst. rewrite app_nil_r. exact I.
  - cbn in H. destruct (dstep s e) as [s1|] eqn:Es; [|discriminate].
    replace (P ++ e :: Q) with ((P ++ [e]) ++ Q) by (rewrite <- app_assoc; reflexivity).
    eapply IH; [eapply dinv_snoc; eauto | exact H].
Qed.

Lemma dinv_all tr s : drun d_init tr = Some s -> dinv tr s.
Proof. intros H. apply (dinv_run [] tr d_init s dinv_init H). Qed.

(* a trace that follows the discipline has no data race, and writes every To once *)
Theorem disciplined_race_free tr : disciplined tr -> race_free tr /\ write_once tr.
Proof.
  intros (s_end & Hrun). split.
  2: { intros i j t1 t2 c Hi Hj. eapply (di_once _ _ (dinv_all _ _ Hrun)); eauto. }
  intros i j e1 e2 Hij Hi Hj (Htid & l & w1 & w2 & A1 & A2 & Hw).
  destruct (nth_error_split _ _ Hj) as (P & Q & -> & Hlen).
  rewrite drun_app in Hrun. destruct (drun d_init P) as [sP|] eqn:EP; [|discriminate].
  cbn [drun] in Hrun. destruct (dstep sP e2) as [s2|] eqn:E2; [|discriminate].
  pose proof (dinv_all _ _ EP) as I.
  assert (Hi' : nth_error P i = Some e1).
  { rewrite nth_error_app1 in Hi by lia. exact Hi. }
  assert (Lift : forall x y, nth_error P x = Some y -> nth_error (P ++ e2 :: Q) x = Some y).
  { intros x y. apply nth_error_prefix. }
  destruct e2 as [t2|t2|t2 l2|t2 l2|t2 c2]; cbn in A2; try discriminate.
  - (* e2 a read inside Schema *)
    inversion A2; subst l2 w2. destruct Hw as [->|E]; [|discriminate].
    cbn [dstep] in E2. destruct (holds sP t2) eqn:Eh; [|discriminate]. apply holds_spec in Eh.
    destruct e1 as [t1|t1|t1 l1|t1 l1|t1 c1]; cbn in A1; try discriminate; inversion A1; subst.
    assert (Hcs : cs_event (EWr t1 l) t1) by (right; eexists; reflexivity).
    destruct (di_cs _ _ I _ _ _ Hi' Hcs) as [H | (r & Hr & Hrel & Hacq)].
    + rewrite Eh in H. inversion H; subst. exfalso. apply Htid. reflexivity.
    + destruct (Hacq _ Eh) as (a & Ha & Hacq'). exists r, a. cbn [ev_tid].
      pose proof (nth_error_lt' _ _ _ Hacq'). repeat split; try lia; apply Lift; assumption.
  - (* e2 a write inside Schema *)
    inversion A2; subst l2 w2. clear Hw.
    cbn [dstep] in E2. destruct (holds sP t2) eqn:Eh; [|discriminate]. apply holds_spec in Eh.
    destruct e1 as [t1|t1|t1 l1|t1 l1|t1 c1]; cbn in A1; try discriminate; inversion A1; subst.
    1,2: match goal with |- ordered _ _ _ ?e _ =>
           assert (Hcs : cs_event e t1) by ((left; eexists; reflexivity) || (right; eexists; reflexivity)) end;
         destruct (di_cs _ _ I _ _ _ Hi' Hcs) as [H | (r & Hr & Hrel & Hacq)];
         [ rewrite Eh in H; inversion H; subst; exfalso; apply Htid; reflexivity
         | destruct (Hacq _ Eh) as (a & Ha & Hacq'); exists r, a; cbn [ev_tid];
           pose proof (nth_error_lt' _ _ _ Hacq'); repeat split; try lia; apply Lift; assumption ].
    (* a caller read the cell before: then it had been written, and is not written again *)
    exfalso. pose proof (di_obs _ _ I _ _ _ Hi') as Hin.
    destruct (memb c1 (d_written sP)) eqn:Em; [discriminate|].
    apply memb_In in Hin. congruence.
  - (* e2 a read by a caller *)
    inversion A2; subst l w2. destruct Hw as [->|E]; [|discriminate].
    cbn [dstep] in E2. destruct (memb c2 (d_vis sP t2)) eqn:Em; [|discriminate].
    apply memb_In in Em. destruct (di_vis _ _ I _ _ Em) as (_ & i' & t' & Hi'' & Hor).
    destruct e1 as [t1|t1|t1 l1|t1 l1|t1 c1]; cbn in A1; try discriminate; inversion A1; subst.
    assert (i' = i) by (eapply (di_once _ _ I); eauto). subst i'.
    rewrite Hi' in Hi''. inversion Hi''; subst t'.
    destruct Hor as [E | (r & a & H1 & H2 & H3 & H4 & H5)]; [exfalso; apply Htid; exact E|].
    exists r, a. cbn [ev_tid]. repeat split; try lia; apply Lift; assumption.
Qed.

(* ---- the machine's trace follows the discipline -------------------------------------- *)
Definition linked (sh : shared) (c : cellid) : Prop := exists fs, cell_to sh c = Some fs.

Lemma linked_same sh sh' c : heap sh' = heap sh -> (linked sh' c <-> linked sh c).
Proof. intros E. unfold linked, cell_to. rewrite E. tauto. Qed.

Lemma linked_alloc sh n c : linked (fst (alloc sh n)) c <-> linked sh c.
Proof.
  unfold linked, cell_to, alloc. cbn [fst heap].
  destruct (Nat.lt_ge_cases c (length (heap sh))) as [Hlt|Hge].
  - rewrite nth_error_app1 by exact Hlt. tauto.
  - rewrite nth_error_app2 by exact Hge.
    assert (E : nth_error (heap sh) c = None) by (apply nth_error_None; exact Hge). rewrite E.
    destruct (c - length (heap sh)) as [|m]; cbn; [|destruct m; cbn];
      split; intros (fs & H); discriminate H.
Qed.

Lemma linked_set_to sh c fs x :
  c < length (heap sh) -> (linked (set_to sh c fs) x <-> x = c \/ linked sh x).
Proof.
  intros Hlt. unfold linked, cell_to, set_to.
  destruct (nth_error (heap sh) c) as [cl|] eqn:Ec; [|apply nth_error_None in Ec; lia].
  cbn [heap]. destruct (Nat.eq_dec x c) as [->|Hne].
  - rewrite nth_error_set_nth_eq by exact Hlt. cbn. split; [intros _; left; reflexivity | intros _; eexists; reflexivity].
  - rewrite nth_error_set_nth_neq by congruence. split; [intros H; right; exact H | intros [E|H]; [congruence | exact H]].
Qed.

Lemma set_to_length sh c fs : length (heap (set_to sh c fs)) = length (heap sh).
Proof. unfold set_to. destruct (nth_error (heap sh) c); [cbn; apply set_nth_length | reflexivity]. Qed.

(* the stack of the builder, including the frames that are failing *)
Definition cs_stack (p : pc) : list frame :=
  match p with
  | PRefLookup s | PRefInsert s | PLinked s | PFail s => s
  | _ => []
  end.

Definition next_stack (o : pc + result) : list frame :=
  match o with inl p' => cs_stack p' | inr _ => [] end.

(* the relation between machine and discipline, for the holder t whose builder's stack is stk:
   t holds the lock; every linked cell has been written; what has been written is visible to
   t and lies inside the heap; the cells on the stack are distinct, allocated, and not written yet *)
Record hrel (t : tid) (sh : shared) (stk : list frame) (ds : dstate) : Prop := mkHrel {
  h_holder : d_holder ds = Some t;
  h_linked : forall c, linked sh c -> In c (d_written ds);
  h_vis : forall c, In c (d_written ds) -> In c (d_vis ds t);
  h_lt : forall c, In c (d_written ds) -> c < length (heap sh);
  h_nodup : NoDup (cells stk);
  h_stack : forall c, In c (cells stk) -> c < length (heap sh) /\ ~ In c (d_written ds)
}.

Lemma hrel_access t sh stk ds e :
  hrel t sh stk ds -> (exists l, (e = ERd t l \/ e = EWr t l) /\ forall c, l <> LCell c) ->
  dstep ds e = Some ds.
Proof.
  intros R (l & [-> | ->] & Hl); cbn [dstep]; pose proof (h_holder _ _ _ _ R) as Hh;
    apply holds_spec in Hh; rewrite Hh; [reflexivity|].
  destruct l; [reflexivity | reflexivity | reflexivity | exfalso; eapply Hl; reflexivity].
Qed.

Lemma acc_rd t sh stk ds l : hrel t sh stk ds -> (forall c, l <> LCell c) -> dstep ds (ERd t l) = Some ds.
Proof. intros H Hl. eapply hrel_access; [exact H|]. exists l. split; [left; reflexivity | exact Hl]. Qed.
Lemma acc_wr t sh stk ds l : hrel t sh stk ds -> (forall c, l <> LCell c) -> dstep ds (EWr t l) = Some ds.
Proof. intros H Hl. eapply hrel_access; [exact H|]. exists l. split; [right; reflexivity | exact Hl]. Qed.

Lemma not_cell_pkgs : forall c, LPkgs <> LCell c. Proof. discriminate. Qed.
Lemma not_cell_schemas p : forall c, LSchemas p <> LCell c. Proof. discriminate. Qed.
Lemma not_cell_reg : forall c, LReg <> LCell c. Proof. discriminate. Qed.

Lemma acc_rd_pkgs t sh stk ds : hrel t sh stk ds -> dstep ds (ERd t LPkgs) = Some ds.
Proof. intros H. eapply acc_rd; [exact H | exact not_cell_pkgs]. Qed.
Lemma acc_wr_pkgs t sh stk ds : hrel t sh stk ds -> dstep ds (EWr t LPkgs) = Some ds.
Proof. intros H. eapply acc_wr; [exact H | exact not_cell_pkgs]. Qed.
Lemma acc_rd_schemas t sh stk ds p : hrel t sh stk ds -> dstep ds (ERd t (LSchemas p)) = Some ds.
Proof. intros H. eapply acc_rd; [exact H | exact (not_cell_schemas p)]. Qed.
Lemma acc_wr_schemas t sh stk ds p : hrel t sh stk ds -> dstep ds (EWr t (LSchemas p)) = Some ds.
Proof. intros H. eapply acc_wr; [exact H | exact (not_cell_schemas p)]. Qed.
Lemma acc_wr_reg t sh stk ds : hrel t sh stk ds -> dstep ds (EWr t LReg) = Some ds.
Proof. intros H. eapply acc_wr; [exact H | exact not_cell_reg]. Qed.
Lemma acc_rd_reg t sh stk ds : hrel t sh stk ds -> dstep ds (ERd t LReg) = Some ds.
Proof. intros H. eapply acc_rd; [exact H | exact not_cell_reg]. Qed.
Lemma acc_rd_cell t sh stk ds c : hrel t sh stk ds -> dstep ds (ERd t (LCell c)) = Some ds.
Proof. intros R. cbn [dstep]. pose proof (h_holder _ _ _ _ R) as Hh. apply holds_spec in Hh. rewrite Hh. reflexivity. Qed.

Lemma drun_two ds e1 e2 rest :
  dstep ds e1 = Some ds -> dstep ds e2 = Some ds -> drun ds (e1 :: e2 :: rest) = drun ds rest.
Proof. intros H1 H2. cbn [drun]. rewrite H1, H2. reflexivity. Qed.

Lemma drun_one ds e rest : dstep ds e = Some ds -> drun ds (e :: rest) = drun ds rest.
Proof. intros H. cbn [drun]. rewrite H. reflexivity. Qed.

(* events that do not change the discipline's state pass in any number *)
Lemma drun_same ds es rest : (forall e, In e es -> dstep ds e = Some ds) -> drun ds (es ++ rest) = drun ds rest.
Proof.
  induction es as [|e es IH]; intros H; [reflexivity|]. cbn [app].
  rewrite (drun_one ds e _ (H e (or_introl eq_refl))). apply IH. intros x Hx. apply H. right. exact Hx.
Qed.

(* the heap does not change, the stack shrinks or keeps its cells *)
Lemma hrel_same t sh sh' stk stk' ds :
  hrel t sh stk ds -> heap sh' = heap sh -> NoDup (cells stk') ->
  (forall c, In c (cells stk') -> In c (cells stk)) -> hrel t sh' stk' ds.
Proof.
  intros [H1 H2 H3 H4 H5 H6] Eh ND Hs. split; [exact H1 | | exact H3 | | exact ND |].
  - intros c L. apply H2. apply (linked_same sh sh' c Eh). exact L.
  - rewrite Eh. exact H4.
  - rewrite Eh. intros c Hc. apply H6. apply Hs. exact Hc.
Qed.

(* a new cell is allocated and pushed *)
Lemma hrel_alloc t sh stk stk' n ds :
  hrel t sh stk ds ->
  (forall c, In c (cells stk') -> In c (cells stk) \/ c = length (heap sh)) -> NoDup (cells stk') ->
  hrel t (fst (alloc sh n)) stk' ds.
Proof.
  intros [H1 H2 H3 H4 H5 H6] Hs ND. split; [exact H1 | | exact H3 | | exact ND |].
  - intros c L. apply H2. apply (linked_alloc sh n c). exact L.
  - intros c Hc. cbn. rewrite app_length. cbn. pose proof (H4 c Hc). lia.
  - intros c Hc. cbn [fst alloc heap]. rewrite app_length. cbn [length].
    destruct (Hs c Hc) as [Hin | ->].
    + destruct (H6 c Hin) as [Hlt Hnw]. split; [lia | exact Hnw].
    + split; [lia|]. intros Hw. pose proof (H4 _ Hw). lia.
Qed.

(* the cell on top of the stack gets its To written (linked, or failed), and is popped *)
Lemma hrel_write t sh sh' f rest ds :
  hrel t sh (f :: rest) ds -> length (heap sh') = length (heap sh) ->
  (forall x, linked sh' x -> x = f_cell f \/ linked sh x) ->
  exists ds', dstep ds (EWr t (LCell (f_cell f))) = Some ds' /\ hrel t sh' rest ds'.
Proof.
  intros [H1 H2 H3 H4 H5 H6] El Hl. cbn [dstep]. pose proof H1 as Hh. apply holds_spec in Hh. rewrite Hh.
  destruct (H6 (f_cell f) (or_introl eq_refl)) as [Hlt Hnw].
  destruct (memb (f_cell f) (d_written ds)) eqn:Em; [apply memb_In in Em; contradiction|].
  eexists. split; [reflexivity|]. cbn [cells map] in H5. inversion H5 as [|? ? Hnin NDr]; subst.
  split; cbn [d_holder d_written d_vis].
  - exact H1.
  - intros c L. destruct (Hl c L) as [->|L0]; [left; reflexivity | right; apply H2; exact L0].
  - intros c [<-|Hin]; rewrite Nat.eqb_refl; [left; reflexivity | right; apply H3; exact Hin].
  - rewrite El. intros c [<-|Hin]; [exact Hlt | apply H4; exact Hin].
  - exact NDr.
  - rewrite El. intros c Hc. destruct (H6 c (or_intror Hc)) as [Hlt' Hnw']. split; [exact Hlt'|].
    intros [E|Hw]; [subst c; contradiction | contradiction].
Qed.

Lemma advance_stack sh f rest :
  cs_stack (snd (advance sh (f :: rest))) =
  match f_todo f with
  | [] => rest
  | m :: _ => if N.eqb m unsupported then rest else f :: rest
  end.
Proof.
  unfold advance. destruct (f_todo f) as [|m todo']; [destruct rest; reflexivity|].
  destruct (N.eqb m unsupported); [destruct rest; reflexivity | reflexivity].
Qed.

(* advance: its event passes, and the relation holds for the stack it leaves *)
Lemma adv_rel t sh f rest ds :
  hrel t sh (f :: rest) ds ->
  exists ds', drun ds (adv_events t (f :: rest)) = Some ds' /\
              hrel t (fst (advance sh (f :: rest))) (cs_stack (snd (advance sh (f :: rest)))) ds'.
Proof.
  intros R. rewrite advance_stack. unfold adv_events, advance.
  destruct (f_todo f) as [|m todo'].
  - destruct (h_stack _ _ _ _ R (f_cell f) (or_introl eq_refl)) as [Hlt _].
    destruct (hrel_write t sh (set_to sh (f_cell f) (rev (f_done f))) f rest ds R) as (ds' & Hd & R').
    + apply set_to_length.
    + intros x L. apply (linked_set_to sh (f_cell f) (rev (f_done f)) x Hlt). exact L.
    + exists ds'. cbn [drun]. rewrite Hd. split; [reflexivity|]. destruct rest; exact R'.
  - destruct (N.eqb m unsupported).
    + destruct (hrel_write t sh (fail_to sh (f_cell f)) f rest ds R) as (ds' & Hd & R').
      * reflexivity.
      * intros x L. right. exact L.
      * exists ds'. cbn [drun]. rewrite Hd. split; [reflexivity|]. destruct rest; exact R'.
    + exists ds. split; [reflexivity | exact R].
Qed.

Lemma fst_let {A B C} (x : A * B) (f : B -> C) : fst (let (a, b) := x in (a, f b)) = fst x.
Proof. destruct x; reflexivity. Qed.
Lemma snd_let {A B C} (x : A * B) (f : B -> C) : snd (let (a, b) := x in (a, f b)) = f (snd x).
Proof. destruct x; reflexivity. Qed.

(* one step inside Schema: its events pass and the relation is kept *)
Lemma lstep_rel pk k g n t sh p ds :
  hrel t sh (cs_stack p) ds ->
  exists ds', drun ds (lstep_events pk g n t sh p) = Some ds' /\
              hrel t (fst (lstep k g n sh p)) (next_stack (snd (lstep k g n sh p))) ds'.
Proof.
  destruct p as [| | | |stk|stk|stk|c|stk|]; cbn [cs_stack]; intros R.
  - exists ds. split; [reflexivity | exact R].
  - exists ds. split; [reflexivity | exact R].
  - (* PLookup *)
    cbn [lstep lstep_events]. rewrite (drun_one _ _ _ (acc_rd_schemas _ _ _ _ (pk n) R)).
    destruct (lookup (cmap sh) n) as [c|].
    + rewrite (drun_one _ _ _ (acc_rd_cell _ _ _ _ c R)). exists ds. split; [reflexivity|].
      destruct (cell_to sh c); exact R.
    + exists ds. split; [reflexivity | exact R].
  - (* PInsert *)
    cbn [lstep lstep_events]. unfold alloc.
    set (f := mkFrame (length (heap sh)) (refs g n) []).
    assert (R1 : hrel t (fst (alloc sh n)) [f] ds).
    { apply (hrel_alloc t sh [] [f] n ds R).
      - intros c [<-|[]]. right. reflexivity.
      - constructor; [intros [] | constructor]. }
    unfold alloc in R1. cbn [fst] in R1.
    cbn [app]. rewrite (drun_two _ _ _ _ (acc_wr_schemas _ _ _ _ (pk n) R1) (acc_wr_reg _ _ _ _ R1)).
    destruct (adv_rel t _ f [] ds R1) as (ds' & Hd & R').
    exists ds'. split; [exact Hd|]. rewrite fst_let, snd_let. exact R'.
  - (* PRefLookup *)
    destruct stk as [|f rest]; [exists ds; split; [reflexivity | exact R]|].
    cbn [lstep lstep_events]. destruct (f_todo f) as [|m todo'] eqn:Et; [exists ds; split; [reflexivity | exact R]|].
    unfold refpkg_events. cbn [app].
    rewrite (drun_two _ _ _ _ (acc_rd_pkgs _ _ _ _ R) (acc_wr_pkgs _ _ _ _ R)).
    rewrite (drun_one _ _ _ (acc_rd_schemas _ _ _ _ (pk m) R)).
    destruct (lookup (cmap sh) m) as [c|].
    + set (f' := mkFrame (f_cell f) todo' (c :: f_done f)).
      assert (R1 : hrel t sh (f' :: rest) ds).
      { eapply hrel_same; [exact R | reflexivity | exact (h_nodup _ _ _ _ R) | intros x Hx; exact Hx]. }
      destruct (adv_rel t sh f' rest ds R1) as (ds' & Hd & R').
      exists ds'. split; [exact Hd|]. rewrite fst_let, snd_let. exact R'.
    + exists ds. split; [reflexivity | exact R].
  - (* PRefInsert *)
    destruct stk as [|f rest]; [exists ds; split; [reflexivity | exact R]|].
    cbn [lstep lstep_events]. destruct (f_todo f) as [|m todo'] eqn:Et; [exists ds; split; [reflexivity | exact R]|].
    unfold alloc.
    set (fnew := mkFrame (length (heap sh)) (refs g m) []).
    set (f' := mkFrame (f_cell f) todo' (length (heap sh) :: f_done f)).
    assert (R1 : hrel t (fst (alloc sh m)) (fnew :: f' :: rest) ds).
    { apply (hrel_alloc t sh (f :: rest) _ m ds R).
      - intros c [<-|Hc]; [right; reflexivity | left; exact Hc].
      - cbn. constructor; [|exact (h_nodup _ _ _ _ R)].
        intros Hin. destruct (h_stack _ _ _ _ R _ Hin) as [Hlt _]. lia. }
    unfold alloc in R1. cbn [fst] in R1.
    cbn [app]. rewrite (drun_two _ _ _ _ (acc_wr_schemas _ _ _ _ (pk m) R1) (acc_wr_reg _ _ _ _ R1)).
    destruct (adv_rel t _ fnew (f' :: rest) ds R1) as (ds' & Hd & R').
    exists ds'. split; [exact Hd|]. rewrite fst_let, snd_let. exact R'.
  - (* PLinked *)
    cbn [lstep lstep_events]. destruct stk as [|f rest]; [exists ds; split; [reflexivity | exact R]|].
    destruct (adv_rel t sh f rest ds R) as (ds' & Hd & R').
    exists ds'. split; [exact Hd|]. rewrite fst_let, snd_let. exact R'.
  - (* PReturn *)
    cbn [lstep lstep_events]. exists ds. split; [reflexivity | exact R].
  - (* PFail *)
    destruct stk as [|f rest]; [exists ds; split; [reflexivity | exact R]|].
    cbn [lstep lstep_events].
    destruct (hrel_write t sh (fail_to sh (f_cell f)) f rest ds R) as (ds' & Hd & R').
    + reflexivity.
    + intros x L. right. exact L.
    + exists ds'. cbn [drun]. rewrite Hd. split; [reflexivity|]. cbn [fst snd next_stack].
      destruct rest; exact R'.
  - (* PFailRoot *)
    cbn [lstep lstep_events]. exists ds. split; [reflexivity | exact R].
Qed.

(* ---- the whole machine ------------------------------------------------------------------ *)
Record rel (st : state) (ds : dstate) : Prop := mkRel {
  r_holder : d_holder ds = s_lock st;
  r_linked : forall c, linked (s_sh st) c -> In c (d_written ds);
  r_lt : forall c, In c (d_written ds) -> c < length (heap (s_sh st));
  r_held : forall h th, s_lock st = Some h -> nth_error (s_thr st) h = Some th ->
      (forall c, In c (d_written ds) -> In c (d_vis ds h)) /\
      NoDup (cells (cs_stack (t_pc th))) /\
      (forall c, In c (cells (cs_stack (t_pc th))) -> c < length (heap (s_sh st)) /\ ~ In c (d_written ds))
}.

Lemma rel_init calls : rel (init calls) d_init.
Proof.
  split; cbn.
  - reflexivity.
  - intros c (fs & H). unfold cell_to in H. cbn in H. destruct c; discriminate H.
  - intros c [].
  - intros h th H. discriminate H.
Qed.

Lemma Forall2_in_r {A B} (P : A -> B -> Prop) l1 l2 y :
  Forall2 P l1 l2 -> In y l2 -> exists x, In x l1 /\ P x y.
Proof.
  intros F; induction F as [|a b la lb Hab F IH]; intros Hin; [destruct Hin|].
  destruct Hin as [<-|Hin]; [exists a; split; [left; reflexivity | exact Hab]|].
  destruct (IH Hin) as (x & Hx & Hp). exists x. split; [right; exact Hx | exact Hp].
Qed.

(* every cell the caller reads from a schema handed out of a fully linked cache is linked *)
Lemma obs_cells_linked g sh : wf g sh [] ->
  forall k n c, bound sh n c -> forall x, In x (obs_cells k (heap sh) c) -> linked sh x.
Proof.
  intros W. induction k as [|k IH]; intros n c B x Hin;
    destruct (wf_cells _ _ _ W _ _ B) as (cl & Hc & Hn & [[[] _] | [_ (fs & Hto & F)]]);
    cbn [obs_cells] in Hin; rewrite Hc, Hto in Hin.
  - destruct Hin as [<-|[]]. exists fs. unfold cell_to. rewrite Hc. exact Hto.
  - destruct Hin as [<-|Hin]; [exists fs; unfold cell_to; rewrite Hc; exact Hto|].
    apply in_flat_map in Hin. destruct Hin as (f & Hf & Hx).
    destruct (Forall2_in_r _ _ _ _ F Hf) as (m & _ & Bm). eapply IH; eauto.
Qed.

Lemma drun_obs ds t l rest :
  (forall x, In x l -> In x (d_vis ds t)) -> drun ds (map (EObs t) l ++ rest) = drun ds rest.
Proof.
  induction l as [|x l IH]; intros H; [reflexivity|]. cbn [map app drun dstep].
  assert (E : memb x (d_vis ds t) = true) by (apply memb_In; apply H; left; reflexivity).
  rewrite E. apply IH. intros y Hy. apply H. right. exact Hy.
Qed.

Lemma enter_ok ds w :
  d_holder ds = None ->
  drun ds (EAcq w :: enter_events w) =
  Some (mkD (Some w) (d_written ds) (fun u => if Nat.eqb u w then d_written ds else d_vis ds u)).
Proof.
  intros H. unfold enter_events, refpkg_events. cbn [drun]. cbn [dstep]. rewrite H.
  do 3 (cbn [drun dstep]; unfold holds; cbn [d_holder]; rewrite Nat.eqb_refl).
  reflexivity.
Qed.

Lemma gstep_events_inside pk k g t st th n rest :
  nth_error (s_thr st) t = Some th -> t_calls th = n :: rest -> ~ outside (t_pc th) ->
  gstep_events Guarded pk k g t st =
    let (sh', o) := lstep k g n (s_sh st) (t_pc th) in
    lstep_events pk g n t (s_sh st) (t_pc th) ++
    match o with
    | inl _ => []
    | inr res =>
        fin_events pk t res sh' ++
        ERel t :: obs_events k t res sh' (result_cell n (s_sh st) (t_pc th))
    end.
Proof.
  intros Ht Hc Hin. unfold gstep_events. rewrite Ht, Hc.
  destruct (t_pc th); try reflexivity; exfalso; apply Hin; [left | right]; reflexivity.
Qed.

(* the new holder w, at cache.lookup with an empty stack, sees everything written so far *)
Lemma rel_new_holder sh q thr w tw ds :
  d_holder ds = None ->
  (forall c, linked sh c -> In c (d_written ds)) ->
  (forall c, In c (d_written ds) -> c < length (heap sh)) ->
  nth_error thr w = Some tw -> t_pc tw = PLookup ->
  rel (mkState sh (Some w) q thr)
      (mkD (Some w) (d_written ds) (fun u => if Nat.eqb u w then d_written ds else d_vis ds u)).
Proof.
  intros Hh Hl Hlt Htw Hp. split; cbn [s_sh s_lock s_thr d_holder d_written d_vis].
  - reflexivity.
  - exact Hl.
  - exact Hlt.
  - intros h th Eh Hth. inversion Eh; subst h. rewrite Htw in Hth. inversion Hth; subst th.
    rewrite Hp. cbn [cs_stack cells map]. split; [|split; [constructor | intros c []]].
    intros c Hc. rewrite Nat.eqb_refl. exact Hc.
Qed.

Section Rel.
Variables (pk : name -> N) (k : nat) (g : graph) (calls : list (list name)).

Lemma gstep_rel_inside st t th n rest ds :
  ginv k g calls st -> rel st ds ->
  nth_error (s_thr st) t = Some th -> t_calls th = n :: rest -> ~ outside (t_pc th) ->
  exists ds', drun ds (gstep_events Guarded pk k g t st) = Some ds' /\ rel (gstep Guarded k g t st) ds'.
Proof.
  intros I R Ht Hc Hin.
  pose proof (inside_is_holder _ _ _ _ _ _ I Ht Hin) as El.
  destruct (gi_held _ _ _ _ I t El) as (thh & nh & resth & Hh & Hch & Ti & _).
  rewrite Ht in Hh. inversion Hh; subst thh. clear Hh.
  rewrite Hc in Hch. inversion Hch; subst nh resth. clear Hch.
  assert (Hnm : n <> unsupported).
  { eapply (gi_calls_ok _ _ _ _ I); eauto. rewrite Hc. left. reflexivity. }
  rewrite (gstep_inside k g t st th n rest Ht Hc Hin).
  rewrite (gstep_events_inside pk k g t st th n rest Ht Hc Hin).
  destruct (r_held _ _ R t th El Ht) as (Hvis & Hnd & Hstk).
  assert (HR : hrel t (s_sh st) (cs_stack (t_pc th)) ds).
  { split; [rewrite (r_holder _ _ R); exact El | apply (r_linked _ _ R) | exact Hvis | apply (r_lt _ _ R) | exact Hnd | exact Hstk]. }
  destruct (lstep_rel pk k g n t (s_sh st) (t_pc th) ds HR) as (ds1 & Hd1 & R1).
  pose proof (lstep_ok k g n (s_sh st) (t_pc th) Ti Hnm) as LO.
  assert (Hrc : forall sh' res, lstep k g n (s_sh st) (t_pc th) = (sh', inr res) ->
            match result_cell n (s_sh st) (t_pc th) with
            | Some c => (forall tr, res <> ROk tr) \/ bound sh' n c
            | None => True
            end).
  { intros sh' res E. destruct (t_pc th) eqn:Ep; cbn [result_cell]; try exact Logic.I; cbn [tinv] in Ti.
    - cbn [lstep] in E. destruct (lookup (cmap (s_sh st)) n) as [c|] eqn:Elk; [|inversion E].
      destruct (cell_to (s_sh st) c); inversion E; subst; [right; exact Elk|].
      left. intros tr. destruct (existsb (Nat.eqb c) (failed _)); discriminate.
    - cbn [lstep] in E. inversion E; subst. right. apply Ti. }
  destruct (lstep k g n (s_sh st) (t_pc th)) as [sh' [p'|res]] eqn:El'.
  - (* the call goes on *)
    rewrite app_nil_r. exists ds1. split; [exact Hd1|]. cbn [fst snd next_stack] in R1.
    destruct R1 as [H1 H2 H3 H4 H5 H6]. split; cbn [s_sh s_lock s_thr].
    + rewrite El. exact H1.
    + exact H2.
    + exact H4.
    + intros h th' Eh Hth. rewrite El in Eh. inversion Eh; subst h.
      rewrite (nth_set_eq _ _ _ _ Ht) in Hth. inversion Hth; subst th'. cbn [with_pc t_pc].
      split; [exact H3|]. split; [exact H5 | exact H6].
  - (* the call returns *)
    cbn [fst snd next_stack] in R1. specialize (Hrc _ _ eq_refl).
    rewrite drun_app, Hd1.
    (* the end of Schema: its events pass and do not change the discipline's state *)
    assert (Hfin : forall tail, drun ds1 (fin_events pk t res sh' ++ tail) = drun ds1 tail).
    { intros tail. unfold fin_events.
      assert (Hdel : forall tl, drun ds1 ((ERd t LReg :: map (fun n0 => EWr t (LSchemas (pk n0))) (reg sh')) ++ [EWr t LReg] ++ tl) = drun ds1 tl).
      { intros tl. rewrite drun_same.
        - apply (drun_one _ _ _ (acc_wr_reg _ _ _ _ R1)).
        - intros e [<-|He]; [apply (acc_rd_reg _ _ _ _ R1)|].
          apply in_map_iff in He. destruct He as (n0 & <- & _). apply (acc_wr_schemas _ _ _ _ (pk n0) R1). }
      destruct res; rewrite <- app_assoc.
      - apply Hdel.
      - apply Hdel.
      - apply (drun_one _ _ _ (acc_wr_reg _ _ _ _ R1)).
      - apply (drun_one _ _ _ (acc_wr_reg _ _ _ _ R1)). }
    rewrite Hfin.
    destruct R1 as [H1 H2 H3 H4 _ _].
    cbn [drun dstep]. pose proof H1 as H1'. apply holds_spec in H1'. rewrite H1'.
    set (ds2 := mkD None (d_written ds1) (d_vis ds1)).
    assert (Hobs : drun ds2 (obs_events k t res sh' (result_cell n (s_sh st) (t_pc th))) = Some ds2).
    { rewrite <- (app_nil_r (obs_events _ _ _ _ _)).
      unfold obs_events. destruct res as [| | |tr]; [reflexivity | reflexivity | reflexivity|].
      destruct (result_cell n (s_sh st) (t_pc th)) as [c|]; [|reflexivity].
      destruct Hrc as [E|Bc]; [exfalso; exact (E tr eq_refl)|].
      destruct LO as [(_ & W' & _) | (E & _)]; [|discriminate E].
      rewrite drun_obs; [reflexivity|]. intros x Hx. cbn [ds2 d_vis]. apply H3. apply H2.
      eapply obs_cells_linked; eauto. }
    rewrite Hobs. subst ds2.
    (* the cache after the call has the same heap *)
    assert (Hheap : heap (finish_shared res sh') = heap sh') by (destruct res; reflexivity).
    eexists. split; [reflexivity|]. unfold release. split; cbn [s_sh s_lock s_thr d_holder d_written].
    + reflexivity.
    + intros c L. apply H2. apply (linked_same sh' _ c Hheap). exact L.
    + rewrite Hheap. exact H4.
    + intros h th' Eh. discriminate Eh.
Qed.

Lemma gstep_rel st t ds :
  ginv k g calls st -> rel st ds ->
  exists ds', drun ds (gstep_events Guarded pk k g t st) = Some ds' /\ rel (gstep Guarded k g t st) ds'.
Proof.
  intros I R. unfold gstep_events, gstep.
  destruct (nth_error (s_thr st) t) as [th|] eqn:Ht; [|exists ds; split; [reflexivity | exact R]].
  destruct (t_calls th) as [|n rest] eqn:Hc; [exists ds; split; [reflexivity | exact R]|].
  destruct (t_pc th) eqn:Hp.
  - (* PEnter *)
    destruct (s_lock st) as [h|] eqn:El.
    + exists ds. split; [reflexivity|]. destruct R as [H1 H2 H3 H4]. split; cbn [s_sh s_lock s_thr].
      * rewrite El in H1. exact H1.
      * exact H2.
      * exact H3.
      * intros h' th' Eh Hth. inversion Eh; subst h'.
        destruct (gi_held _ _ _ _ I h El) as (thh & nh & resth & Hh & _ & Ti & _).
        assert (t <> h).
        { intros ->. rewrite Ht in Hh. inversion Hh; subst thh. rewrite Hp in Ti. exact Ti. }
        rewrite nth_error_set_nth_neq in Hth by congruence. apply H4; [exact El | exact Hth].
    + destruct R as [H1 H2 H3 H4]. rewrite El in H1.
      eexists. split; [apply enter_ok; exact H1|].
      apply rel_new_holder with (tw := with_pc th PLookup).
      * exact H1.
      * intros c L. apply H2. apply (linked_same (s_sh st) _ c eq_refl). exact L.
      * exact H3.
      * eapply nth_set_eq; eauto.
      * reflexivity.
  - (* PWait *)
    destruct (s_lock st) as [h|] eqn:El; [exists ds; split; [reflexivity | exact R]|].
    destruct R as [H1 H2 H3 H4]. rewrite El in H1.
    eexists. split; [apply enter_ok; exact H1|].
    apply rel_new_holder with (tw := with_pc th PLookup).
    * exact H1.
    * intros c L. apply H2. apply (linked_same (s_sh st) _ c eq_refl). exact L.
    * exact H3.
    * eapply nth_set_eq; eauto.
    * reflexivity.
  - assert (Hin : ~ outside (t_pc th)) by (rewrite Hp; intros [E|E]; discriminate E).
    destruct (gstep_rel_inside st t th n rest ds I R Ht Hc Hin) as (ds' & Hd & R').
    unfold gstep_events, gstep in Hd, R'; rewrite Ht, Hc, Hp in Hd, R'.
    exists ds'; split; [exact Hd | exact R'].
  - assert (Hin : ~ outside (t_pc th)) by (rewrite Hp; intros [E|E]; discriminate E).
    destruct (gstep_rel_inside st t th n rest ds I R Ht Hc Hin) as (ds' & Hd & R').
    unfold gstep_events, gstep in Hd, R'; rewrite Ht, Hc, Hp in Hd, R'.
    exists ds'; split; [exact Hd | exact R'].
  - assert (Hin : ~ outside (t_pc th)) by (rewrite Hp; intros [E|E]; discriminate E).
    destruct (gstep_rel_inside st t th n rest ds I R Ht Hc Hin) as (ds' & Hd & R').
    unfold gstep_events, gstep in Hd, R'; rewrite Ht, Hc, Hp in Hd, R'.
    exists ds'; split; [exact Hd | exact R'].
  - assert (Hin : ~ outside (t_pc th)) by (rewrite Hp; intros [E|E]; discriminate E).
    destruct (gstep_rel_inside st t th n rest ds I R Ht Hc Hin) as (ds' & Hd & R').
    unfold gstep_events, gstep in Hd, R'; rewrite Ht, Hc, Hp in Hd, R'.
    exists ds'; split; [exact Hd | exact R'].
  - assert (Hin : ~ outside (t_pc th)) by (rewrite Hp; intros [E|E]; discriminate E).
    destruct (gstep_rel_inside st t th n rest ds I R Ht Hc Hin) as (ds' & Hd & R').
    unfold gstep_events, gstep in Hd, R'; rewrite Ht, Hc, Hp in Hd, R'.
    exists ds'; split; [exact Hd | exact R'].
  - assert (Hin : ~ outside (t_pc th)) by (rewrite Hp; intros [E|E]; discriminate E).
    destruct (gstep_rel_inside st t th n rest ds I R Ht Hc Hin) as (ds' & Hd & R').
    unfold gstep_events, gstep in Hd, R'; rewrite Ht, Hc, Hp in Hd, R'.
    exists ds'; split; [exact Hd | exact R'].
  - assert (Hin : ~ outside (t_pc th)) by (rewrite Hp; intros [E|E]; discriminate E).
    destruct (gstep_rel_inside st t th n rest ds I R Ht Hc Hin) as (ds' & Hd & R').
    unfold gstep_events, gstep in Hd, R'; rewrite Ht, Hc, Hp in Hd, R'.
    exists ds'; split; [exact Hd | exact R'].
  - assert (Hin : ~ outside (t_pc th)) by (rewrite Hp; intros [E|E]; discriminate E).
    destruct (gstep_rel_inside st t th n rest ds I R Ht Hc Hin) as (ds' & Hd & R').
    unfold gstep_events, gstep in Hd, R'; rewrite Ht, Hc, Hp in Hd, R'.
    exists ds'; split; [exact Hd | exact R'].
Qed.

(* the whole trace of a guarded run follows the discipline *)
Lemma events_rel sched : forall st ds,
  ginv k g calls st -> rel st ds ->
  exists ds', drun ds (events_from Guarded pk k g sched st) = Some ds'.
Proof.
  induction sched as [|t r IH]; intros st ds I R; [exists ds; reflexivity|].
  cbn [events_from]. destruct (gstep_rel st t ds I R) as (ds1 & Hd & R1).
  destruct (IH _ ds1 (ginv_step k g calls st t I) R1) as (ds2 & Hd2).
  exists ds2. rewrite drun_app, Hd. exact Hd2.
Qed.

End Rel.

Theorem guarded_disciplined pk k g calls sched : calls_ok calls -> disciplined (events Guarded pk k g calls sched).
Proof.
  intros Hok. unfold disciplined, events. apply (events_rel pk k g calls sched (init calls) d_init).
  - apply ginv_init. exact Hok.
  - apply rel_init.
Qed.

(* no data race in any guarded run, and every To field is written once *)
Theorem guarded_race_free pk k g calls sched : calls_ok calls ->
  race_free (events Guarded pk k g calls sched) /\ write_once (events Guarded pk k g calls sched).
Proof. intros Hok. apply disciplined_race_free. apply guarded_disciplined. exact Hok. Qed.

(* ---- without the lock the model's own trace has a race ------------------------------- *)
Lemma unguarded_has_race :
  ~ race_free (events Unguarded (fun _ => 0%N) 3 [(1%N, [2%N]); (2%N, [])] [[1%N]; [1%N]] [0; 0; 0; 1; 1]).
Proof.
  intros H.
  assert (E : events Unguarded (fun _ => 0%N) 3 [(1%N, [2%N]); (2%N, [])] [[1%N]; [1%N]] [0; 0; 0; 1; 1] =
              [EWr 0 LReg; ERd 0 LPkgs; EWr 0 LPkgs; ERd 0 (LSchemas 0); EWr 0 (LSchemas 0); EWr 0 LReg;
               EWr 1 LReg; ERd 1 LPkgs; EWr 1 LPkgs; ERd 1 (LSchemas 0); ERd 1 (LCell 0); ERd 1 LReg;
               EWr 1 LReg]) by (vm_compute; reflexivity).
  rewrite E in H. clear E.
  (* thread 0 appends to sc.registered (position 5), thread 1 resets it (position 6): no lock operation at all *)
  destruct (H 5 6 (EWr 0 LReg) (EWr 1 LReg)) as (r & a & H1 & H2 & H3 & _).
  - lia.
  - reflexivity.
  - reflexivity.
  - split; [cbn; discriminate|]. exists LReg, true, true. repeat split; left; reflexivity.
  - lia.
Qed.

(* ---- "fatal error: concurrent map writes" ------------------------------------------------ *)
(* with the lock no run meets the condition under which the Go runtime aborts *)
Theorem guarded_no_concurrent_map_access pk k g calls sched : calls_ok calls ->
  ~ concurrent_map_access (events Guarded pk k g calls sched).
Proof.
  intros Hok (i & j & e1 & e2 & l & w1 & w2 & Hij & Hi & Hj & Ht & A1 & A2 & _ & Hw & Hno).
  destruct (guarded_race_free pk k g calls sched Hok) as [RF _].
  apply Hno. apply (RF i j e1 e2 Hij Hi Hj). split; [exact Ht|]. exists l, w1, w2. repeat split; assumption.
Qed.

(* without it the model meets it: thread 0 inserts into the Schemas map of package 0 (position 4)
   while thread 1 reads that map (position 9), no lock operation in between *)
Theorem unguarded_concurrent_map_access :
  concurrent_map_access (events Unguarded (fun _ => 0%N) 3 [(1%N, [2%N]); (2%N, [])] [[1%N]; [1%N]] [0; 0; 0; 1; 1]).
Proof.
  assert (E : events Unguarded (fun _ => 0%N) 3 [(1%N, [2%N]); (2%N, [])] [[1%N]; [1%N]] [0; 0; 0; 1; 1] =
              [EWr 0 LReg; ERd 0 LPkgs; EWr 0 LPkgs; ERd 0 (LSchemas 0); EWr 0 (LSchemas 0); EWr 0 LReg;
               EWr 1 LReg; ERd 1 LPkgs; EWr 1 LPkgs; ERd 1 (LSchemas 0); ERd 1 (LCell 0); ERd 1 LReg;
               EWr 1 LReg]) by (vm_compute; reflexivity).
  rewrite E. clear E.
  exists 4, 9, (EWr 0 (LSchemas 0)), (ERd 1 (LSchemas 0)), (LSchemas 0), true, false.
  split; [lia|]. split; [reflexivity|]. split; [reflexivity|]. split; [cbn; discriminate|].
  split; [reflexivity|]. split; [reflexivity|]. split; [reflexivity|]. split; [left; reflexivity|].
  intros (r & a & H1 & H2 & H3 & Hr & Ha).
  (* a release by thread 0 strictly between positions 4 and 9: there is no ERel at all *)
  cbn [ev_tid] in Hr.
  do 10 (destruct r as [|r]; [cbn in Hr; try discriminate Hr; try lia|]); lia.
Qed.

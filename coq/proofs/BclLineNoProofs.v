(* BclLineNoProofs.v — exact line numbers of the lexer's tokens relative to their predecessor:
   a token starts on the line where the previous one ended, or on the next line when the
   previous one is an EOL; the first token starts on line 0.  Used for the blank-line decisions
   of Fmt when it reads its own output (C09 idempotence). *)
From Coq Require Import String List NArith ZArith Bool Lia ZifyN ZifyNat ZifyBool.
From J5V.lib Require Import Text Outcome.
From J5V.model Require Import BclLexer BclParser.
From J5V.proofs Require Import BclPosProofs BclLexerProofs BclLexerCoverProofs BclParserProofs.
Import ListNotations.
Local Open Scope Z_scope.
Arguments Nat.sub : simpl never.

(* the line on which the next token starts *)
Definition vl (prev : option token) : Z :=
  match prev with
  | None => 0
  | Some p => if tt_eqb (ty p) EOL then fst (tstart p) + 1 else fst (tend p)
  end.

Fixpoint vchain (prev : option token) (ts : list token) : Prop :=
  match ts with
  | [] => True
  | t :: r => fst (tstart t) = vl prev /\ vchain (Some t) r
  end.

Lemma all_tokens_loop_vchain inp ff : forall fuel s pre prev,
  linv inp s pre -> (length (rest s) + 1 < fuel)%nat ->
  fst (P pre) = vl prev ->
  let '(ts, ds, b) := all_tokens_loop fuel ff s in
  ds = [] -> vchain prev ts.
Proof.
  induction fuel as [|f IH]; intros s pre prev Hi Hf Hprev; [lia|].
  cbn [all_tokens_loop].
  pose proof (next_token_fuel_spec inp (S (length (rest s))) s pre Hi) as Hn.
  pose proof (next_token_start inp (S (length (rest s))) s pre Hi) as Hn2.
  unfold next_token.
  destruct (next_token_fuel (S (length (rest s))) s) as [[t|d| |] s'] eqn:E; cbn in Hn.
  - destruct Hn as [(ps & pe & c0 & H1 & H2 & H3 & H4 & H5 & H6) Hty]; [lia|].
    destruct Hn2 as ((x & Hx & Hpx & Hsx & Heolr) & Hnn & Hsl); [lia|].
    assert (Hps : ps = pre ++ x).
    { apply (P_inj _ _ inp); [eapply pfx_trans; [apply pfx_app|exact H2]|exact Hpx|congruence]. }
    assert (Hxnl : Forall (fun c => c <> 10%N) x).
    { eapply Forall_impl; [|exact Hx]. intros a [_ Ha]. exact Ha. }
    assert (Hhead : fst (tstart t) = vl prev).
    { rewrite Hsx, P_app_same_line by exact Hxnl. exact Hprev. }
    assert (Hpsinp : pfx ps inp) by (eapply pfx_trans; [apply pfx_app|exact H2]).
    assert (Hpeinp : pfx pe inp) by (eapply lon_pfx; eauto).
    destruct H6 as [[c Hc]|[He Hpe]].
    + specialize (IH s' (pe ++ [c]) (Some t) (lc_inv _ _ _ _ Hc)).
      destruct (all_tokens_loop f ff s') as [[ts ds] b].
      intros Hds. split; [exact Hhead|]. apply IH; auto.
      { pose proof (linv_len _ _ _ Hi). pose proof (linv_len _ _ _ (lc_inv _ _ _ _ Hc)) as Hl2.
        rewrite app_length in Hl2. cbn in Hl2.
        pose proof (pfx_len _ _ H1). pose proof (pfx_len _ _ H3). lia. }
      cbn [vl]. destruct (tt_eqb (ty t) EOL) eqn:Et.
      * apply tt_eqb_true in Et. destruct (Heolr Et) as [Hnl Hse].
        assert (Hpe : pe = ps) by (apply (P_inj _ _ inp); auto; congruence).
        subst pe. pose proof (lcur_full inp _ _ _ Hc) as Hfull. rewrite <- Hps in Hnl.
        assert (Hc10 : c = 10%N).
        { destruct Hfull as [u Hu], Hnl as [v Hv]. rewrite Hv in Hu. rewrite <- !app_assoc in Hu.
          apply app_inv_head in Hu. cbn in Hu. injection Hu as <- _. reflexivity. }
        subst c. rewrite P_snoc, H4. unfold adv. cbn. reflexivity.
      * apply tt_eqb_false in Et. rewrite P_snoc, H5. apply adv_same_line.
        specialize (Hnn Et). unfold not_nl in Hnn. rewrite (lc_ch _ _ _ _ Hc) in Hnn. congruence.
    + destruct f as [|f']; [lia|]. rewrite (leof_loop inp ff s' f' He). intros _. split; [exact Hhead|exact I].
  - destruct ff; [intros H; discriminate|].
    destruct (all_tokens_loop f false s') as [[ts ds] b]. intros H. discriminate.
  - intros _. exact I.
  - exfalso. apply Hn. lia.
Qed.

Theorem all_tokens_vchain ff data ts : all_tokens ff data = LexOk ts -> vchain None ts.
Proof.
  unfold all_tokens.
  pose proof (all_tokens_loop_vchain data ff (S (S (length data))) (new_lexer data) [] None (new_lexer_inv data)) as H.
  destruct (all_tokens_loop (S (S (length data))) ff (new_lexer data)) as [[ts' ds] b].
  destruct b; [discriminate|]. destruct ds as [|d r]; [|discriminate]. intros [= <-].
  apply H; [cbn; lia|reflexivity|reflexivity].
Qed.

Lemma vchain_app : forall a prev b, vchain prev (a ++ b) -> vchain (last (map Some a) prev) b.
Proof.
  induction a as [|x r IH]; intros prev b H; [exact H|].
  cbn [app vchain] in H. destruct H as (_ & H). cbn [map]. rewrite last_cons_dflt. apply IH. exact H.
Qed.

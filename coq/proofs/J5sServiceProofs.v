(* J5sServiceProofs.v — services and topics: the converter model meets the contract written
   from the README (names, request/response/message objects, HTTP rule, messaging role). *)
From Coq Require Import String List NArith Bool Lia.
From J5V.lib Require Import Outcome Corr.
From J5V.model Require Import J5sAst Desc J5sWalk J5sLink J5sConvert J5sContract.
From J5V.proofs Require Import J5sProofs J5sContractProofs.
Import ListNotations.
Local Open Scope N_scope.

Section Services.
Variables snake camel screaming : str -> str.
Notation cv_props := (cv_props snake camel screaming).
Notation cv_virtual := (cv_virtual snake camel screaming).
Notation cv_method := (cv_method snake camel screaming).
Notation cv_methods := (cv_methods snake camel screaming).
Notation cv_service := (cv_service snake camel screaming).
Notation cv_tmsgs := (cv_tmsgs snake camel screaming).
Notation accept_topic := (accept_topic snake camel screaming).
Notation cv_topic := (cv_topic snake camel screaming).
Notation virtual_ok := (virtual_ok snake camel screaming).
Notation method_ok := (method_ok snake).
Notation method_msgs_ok := (method_msgs_ok snake camel screaming).
Notation topic_service_ok := (topic_service_ok snake camel screaming).

Lemma cv_virtual_ok ev name virt decl m is :
  cv_virtual ev name virt decl = Ok (m, is) -> virtual_ok name virt decl m.
Proof.
  unfold J5sConvert.cv_virtual. intros H. inv_ok H. inversion H. subst m is. clear H.
  destruct (proj1 (proj2 (convert_refines snake camel screaming)) _ _ _ _ _ _ E) as (Hf & Hmn & Hen & Hin).
  unfold J5sContract.virtual_ok. cbn [dm_name dm_kind dm_fields dm_msgs dm_enums].
  split; [reflexivity|]. split; [reflexivity|]. split; [exact Hf|].
  split; [apply Hin; apply incl_refl|]. split; assumption.
Qed.

Lemma rewrite_segs_spec req segs l :
  rewrite_segs snake req segs = Ok l -> l = map (rewrite_segment snake) segs.
Proof.
  revert l. induction segs as [|s r IH]; intros l H; cbn in H |- *.
  - inversion H. reflexivity.
  - inv_ok H. rewrite <- (IH _ E). destruct s as [|c nm]; [inversion H; reflexivity|].
    unfold rewrite_segment. unfold colon in H. destruct (c =? 58).
    + destruct (has_prop nm req); inversion H; reflexivity.
    + inversion H. reflexivity.
Qed.

Lemma http_rule_ok base m h :
  http_rule snake base m = Ok h ->
  h_verb h = m_verb m /\ h_path h = declared_path snake base m /\
  h_body h = (match m_verb m with VGet => [] | _ => [42] end).
Proof.
  unfold J5sConvert.http_rule, declared_path. intros H. inv_ok H. inversion H. subst h. cbn.
  rewrite (rewrite_segs_spec _ _ _ E). repeat split; reflexivity.
Qed.

Theorem cv_method_ok ev base m ms dm is :
  cv_method ev base m = Ok (ms, dm, is) -> method_ok base m dm /\ method_msgs_ok m ms.
Proof.
  unfold J5sConvert.cv_method. intros H.
  apply obind_ok in H. destruct H as ([rq rqi] & Erq & H).
  apply obind_ok in H. destruct H as ([[rmsgs outn] rimps] & Ers & H).
  apply obind_ok in H. destruct H as (h & Eh & H). inversion H. subst ms dm is. clear H.
  destruct (http_rule_ok _ _ _ Eh) as (Hv & Hp & Hb). pose proof (cv_virtual_ok _ _ _ _ _ _ Erq) as Hrq.
  unfold J5sContract.method_ok, J5sContract.method_msgs_ok. cbn [me_name me_in me_out me_http fst].
  destruct (m_response m) as [rs|].
  - apply obind_ok in Ers. destruct Ers as ([rm rmi] & Erm & Ers). inversion Ers. subst. cbn [fst].
    split; [|split; [exact Hrq|eapply cv_virtual_ok; exact Erm]].
    split; [reflexivity|]. split; [reflexivity|]. split; [reflexivity|]. exists h. auto.
  - inversion Ers. subst. split; [|exact Hrq].
    split; [reflexivity|]. split; [reflexivity|]. split; [reflexivity|]. exists h. auto.
Qed.

Theorem cv_methods_ok ev base l : forall ms ds is,
  cv_methods ev base l = Ok (ms, ds, is) ->
  Forall2 (method_ok base) l ds /\
  exists mss, ms = concat mss /\ Forall2 method_msgs_ok l mss.
Proof.
  induction l as [|m r IH]; intros ms ds is H; cbn [J5sConvert.cv_methods] in H.
  - inversion H. subst. split; [constructor|]. exists []. split; [reflexivity|constructor].
  - apply obind_ok in H. destruct H as ([[am ad] ai] & Ea & H).
    apply obind_ok in H. destruct H as ([[cm cd] ci] & Ec & H). inversion H. subst. clear H.
    destruct (cv_method_ok _ _ _ _ _ _ Ea) as [H1 H2]. destruct (IH _ _ _ Ec) as (H3 & mss & -> & H4).
    split; [constructor; assumption|]. exists (am :: mss). split; [reflexivity|constructor; assumption].
Qed.

(* a declared service: <Name>Service with exactly the declared methods, no messaging role *)
Theorem cv_service_ok ev s ms ss is :
  cv_service ev s = Ok (ms, ss, is) ->
  exists ds, ss = [ds] /\ ds_name ds = sv_name s ++ b "Service" /\ ds_topic ds = None /\
             Forall2 (method_ok (sv_base s)) (sv_methods s) (ds_methods ds) /\
             exists mss, ms = concat mss /\ Forall2 method_msgs_ok (sv_methods s) mss.
Proof.
  unfold J5sConvert.cv_service. intros H. apply obind_ok in H. destruct H as ([[m1 d1] i1] & E & H).
  inversion H. subst. clear H. destruct (cv_methods_ok _ _ _ _ _ _ E) as (H1 & H2).
  eexists. split; [reflexivity|]. cbn. auto.
Qed.

(* ------------------------------------------------------------------ topics *)
Lemma cv_tmsgs_ok ev tname single virt l : forall ms ds is,
  cv_tmsgs ev tname single virt l = Ok (ms, ds, is) ->
  Forall2 (topic_method_ok tname) l ds /\
  Forall2 (fun t m => virtual_ok (tmsg_name tname t ++ b "Message") virt (tm_fields t) m) l ms.
Proof.
  induction l as [|t r IH]; intros ms ds is H; cbn [J5sConvert.cv_tmsgs] in H.
  - inversion H. subst. split; constructor.
  - apply obind_ok in H. destruct H as (mn & Emn & H).
    apply obind_ok in H. destruct H as ([m1 i1] & Ev & H).
    apply obind_ok in H. destruct H as ([[cm cd] ci] & Er & H). inversion H. subst. clear H.
    assert (Hmn : mn = tmsg_name tname t).
    { unfold tmsg_name. destruct (tm_name t); [inversion Emn; reflexivity|].
      destruct single; inversion Emn. reflexivity. }
    subst mn. destruct (IH _ _ _ Er) as [H1 H2]. cbn [fst].
    split; constructor; try assumption.
    + unfold topic_method_ok. cbn. auto.
    + eapply cv_virtual_ok. exact Ev.
Qed.

Theorem accept_topic_ok ev tname topic_name rl virt l ms ss is :
  accept_topic ev tname topic_name rl virt l = Ok (ms, ss, is) ->
  exists ds, ss = [ds] /\ topic_service_ok tname topic_name rl virt l ms ds.
Proof.
  unfold J5sConvert.accept_topic. intros H. apply obind_ok in H. destruct H as ([[m1 d1] i1] & E & H).
  inversion H. subst. clear H. destruct (cv_tmsgs_ok _ _ _ _ _ _ _ _ E) as [H1 H2].
  eexists. split; [reflexivity|]. unfold J5sContract.topic_service_ok. cbn. auto.
Qed.

(* the four kinds of topic: documented role, topic name, implicit leading metadata field *)
Theorem cv_topic_ok ev t ms ss is :
  cv_topic ev t = Ok (ms, ss, is) ->
  match t with
  | TPublish name msgs =>
      exists ds, ss = [ds] /\ topic_service_ok name (snake name) RPublish PNil msgs ms ds
  | TReqRes name req reply =>
      exists ds1 ds2 ms1 ms2, ss = [ds1; ds2] /\ ms = ms1 ++ ms2 /\
        topic_service_ok (name ++ b "Request") (snake name) RRequest virt_request req ms1 ds1 /\
        topic_service_ok (name ++ b "Reply") (snake name) RReply virt_request reply ms2 ds2
  | TUpsert name entity msg =>
      exists ds, ss = [ds] /\
        topic_service_ok name (snake name) (RUpsert entity) virt_upsert [default_tm_name name msg] ms ds
  | TEvent name entity msg =>
      exists ds, ss = [ds] /\ topic_service_ok name (snake name) (REvent entity) PNil [msg] ms ds
  end.
Proof.
  destruct t as [name msgs|name req reply|name entity msg|name entity msg]; cbn [J5sConvert.cv_topic]; intros H.
  - eapply accept_topic_ok. exact H.
  - apply obind_ok in H. destruct H as ([[am asv] ai] & Ea & H).
    apply obind_ok in H. destruct H as ([[cm csv] ci] & Ec & H). inversion H. subst. clear H.
    destruct (accept_topic_ok _ _ _ _ _ _ _ _ _ Ea) as (d1 & -> & H1).
    destruct (accept_topic_ok _ _ _ _ _ _ _ _ _ Ec) as (d2 & -> & H2).
    exists d1, d2, am, cm. auto.
  - eapply accept_topic_ok. exact H.
  - eapply accept_topic_ok. exact H.
Qed.

End Services.

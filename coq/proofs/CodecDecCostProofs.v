(* CodecDecCostProofs.v — the step counter of model/CodecDecCost.v:
   (1) it changes nothing: the first component of every instrumented function is the function of
       model/CodecDec.v (the Go-tied model);
   (2) the count is linear: at most (number of tokens + 1) steps on every path, hence at most
       (number of bytes + 1) for JSONToProto. *)
From Coq Require Import String List NArith ZArith Bool Lia.
From J5V.lib Require Import Outcome Json.
From J5V.model Require Import CodecTypes CodecDecScalar CodecDec.
From J5V.model Require Import CodecDecCost.
From J5V.proofs Require Import CodecDecCostUnfold.
From J5V.proofs Require Import JsonLexProofs CodecDecProofs.
Import ListNotations.
Local Open Scope N_scope.

Lemma fst_tick {A} (o : cout A) : fst (tick o) = fst o.
Proof. reflexivity. Qed.
Lemma fst_pbind {A B} (o : outcome A) (k : A -> cout B) : fst (pbind o k) = obind o (fun a => fst (k a)).
Proof. destruct o; reflexivity. Qed.
Lemma fst_cbind {A B} (o : cout A) (k : A -> cout B) : fst (cbind o k) = obind (fst o) (fun a => fst (k a)).
Proof. unfold cbind. destruct (fst o); reflexivity. Qed.
Lemma obind_ext {A B} (o : outcome A) (k1 k2 : A -> outcome B) : (forall a, k1 a = k2 a) -> obind o k1 = obind o k2.
Proof. intros H. destruct o; cbn; auto. Qed.

Lemma with_holder_c_fst {A} (path : list N) : forall m (kc : N -> msg -> cout (msg * A)) k,
  (forall n h, fst (kc n h) = k n h) -> fst (with_holder_c path m kc) = with_holder path m k.
Proof.
  induction path as [|n rest IH]; intros m kc k H; [reflexivity|].
  destruct rest as [|n2 r]; [apply H|].
  change (with_holder_c (n :: n2 :: r) m kc) with
    (let '(sub, m1) := msg_mutable [] n m in
     cbind (with_holder_c (n2 :: r) sub kc) (fun r0 => Ok' (msg_put n (VMsg (fst r0)) m1, snd r0))).
  change (with_holder (n :: n2 :: r) m k) with
    (let '(sub, m1) := msg_mutable [] n m in
     obind (with_holder (n2 :: r) sub k) (fun r0 => Ok (msg_put n (VMsg (fst r0)) m1, snd r0))).
  destruct (msg_mutable [] n m) as [sub m1]. rewrite fst_cbind. rewrite (IH sub kc k H). reflexivity.
Qed.

Ltac fs := repeat (rewrite ?fst_tick, ?fst_pbind, ?fst_cbind; cbn [fst snd Ok' Err']).

Section Proj.
  Variable orc : oracles.
  Variable e : env.
  Variable me : bool.

  Lemma any_body_c_fst : forall f ts value ty, fst (any_body_c me f ts value ty) = any_body me f ts value ty.
  Proof.
    induction f as [|f IH]; intros ts value ty; [reflexivity|].
    cbn [any_body_c any_body]. fs. destruct (has_more me ts); [|reflexivity]. fs.
    apply obind_ext. intros kt. destruct (fst kt); try reflexivity.
    destruct (bytes_eqb s type_key).
    - fs. apply obind_ext. intros vt. destruct (fst vt); try reflexivity. apply IH.
    - destruct value; [reflexivity|]. destruct (split_value (snd kt)) as [[[v rest] depth]|]; [|reflexivity].
      destruct (max_scan_depth <? depth); [reflexivity|]. apply IH.
  Qed.

  Lemma member_with_c_fst d dpc dp p ts m seen : (forall ts0 m0, fst (dpc ts0 m0) = dp ts0 m0) ->
    fst (member_with_c d dpc p ts m seen) = member_with d dp p ts m seen.
  Proof.
    intros H. unfold member_with_c, member_with. destruct (max_nesting_depth <? d + 1); [reflexivity|].
    destruct ts as [|t r]; [reflexivity|].
    destruct t; try reflexivity;
      (destruct (mem_bytes (p_json p) seen); [reflexivity|]);
      (destruct (oneof_conflict p m); [reflexivity|]); fs; rewrite H; apply obind_ext; reflexivity.
  Qed.

  Definition proj_level (f : nat) : Prop :=
    (forall d p ts m, fst (decode_present_c orc e me f d p ts m) = decode_present orc e me f d p ts m) /\
    (forall d props ts m seen, fst (object_body_c orc e me f d props ts m seen) = object_body orc e me f d props ts m seen) /\
    (forall d props ts m seen found c, fst (oneof_body_c orc e me f d props ts m seen found c) = oneof_body orc e me f d props ts m seen found c) /\
    (forall d item ts acc, fst (array_items_c orc e me f d item ts acc) = array_items orc e me f d item ts acc) /\
    (forall d item ts acc, fst (map_items_c orc e me f d item ts acc) = map_items orc e me f d item ts acc).

  Section Step.
    Variable f : nat.
    Hypothesis IHp : forall d p ts m, fst (decode_present_c orc e me f d p ts m) = decode_present orc e me f d p ts m.
    Hypothesis IHo : forall d props ts m seen, fst (object_body_c orc e me f d props ts m seen) = object_body orc e me f d props ts m seen.
    Hypothesis IHn : forall d props ts m seen found c, fst (oneof_body_c orc e me f d props ts m seen found c) = oneof_body orc e me f d props ts m seen found c.
    Hypothesis IHa : forall d item ts acc, fst (array_items_c orc e me f d item ts acc) = array_items orc e me f d item ts acc.
    Hypothesis IHm : forall d item ts acc, fst (map_items_c orc e me f d item ts acc) = map_items orc e me f d item ts acc.

    Lemma step_object d props ts m seen : fst (object_body_c orc e me (S f) d props ts m seen) = object_body orc e me (S f) d props ts m seen.
    Proof.
      rewrite object_body_c_S, object_body_S. fs. destruct (has_more me ts); [|reflexivity]. fs.
      apply obind_ext. intros kt. destruct (fst kt); try reflexivity.
      destruct (find_prop props s) as [p|]; [|reflexivity]. fs.
      rewrite (member_with_c_fst d _ (decode_present orc e me f (d + 1) p)) by (intros; apply IHp).
      apply obind_ext. intros [[m' rest] seen']. apply IHo.
    Qed.

    Ltac ob := apply obind_ext; intros; fs.

    Lemma step_oneof d props ts m seen found c :
      fst (oneof_body_c orc e me (S f) d props ts m seen found c) = oneof_body orc e me (S f) d props ts m seen found c.
    Proof.
      rewrite oneof_body_c_S, oneof_body_S. fs. destruct (has_more me ts); fs; [|reflexivity].
      ob. destruct (fst a); try reflexivity. destruct (bytes_eqb s type_key); fs.
      - ob. destruct (fst a0); try reflexivity. apply IHn.
      - destruct (find_prop props s) as [p|]; [|reflexivity]. fs.
        rewrite (member_with_c_fst d _ (decode_present orc e me f (d + 1) p)) by (intros; apply IHp).
        ob. destruct a0 as [[m' rest] seen']. apply IHn.
    Qed.

    Lemma step_array d item ts acc :
      fst (array_items_c orc e me (S f) d item ts acc) = array_items orc e me (S f) d item ts acc.
    Proof.
      rewrite array_items_c_S, array_items_S. fs. destruct (has_more me ts); fs; [|reflexivity].
      destruct item as [k|ref|ref|ref|it|it|pb]; try reflexivity; fs.
      - ob. destruct (is_delim (fst a)); [reflexivity|]. fs. ob. apply IHa.
      - ob. destruct (is_delim (fst a)); [reflexivity|]. destruct (fst a); try reflexivity.
        destruct (lookup e ref) as [[| |prefix opts]|]; try reflexivity.
        destruct (option_by_name prefix opts s); [|reflexivity]. fs. ob. apply IHa.
      - destruct (lookup e ref) as [[props| |]|]; try reflexivity. fs. ob. rewrite IHo. ob. ob. apply IHa.
      - destruct (lookup e ref) as [[|props|]|]; try reflexivity. fs. ob. rewrite IHn. ob. ob. apply IHa.
    Qed.

    Lemma step_map d item ts acc :
      fst (map_items_c orc e me (S f) d item ts acc) = map_items orc e me (S f) d item ts acc.
    Proof.
      rewrite map_items_c_S, map_items_S. fs. destruct (has_more me ts); fs; [|reflexivity].
      ob. destruct (fst a); try reflexivity.
      destruct item as [k|ref|ref|ref|it|it|pb]; try reflexivity;
        (destruct (map_get s acc); [reflexivity|]); fs.
      - ob. destruct (is_delim (fst a0)); [reflexivity|]. fs. ob. apply IHm.
      - ob. destruct (fst a0); try reflexivity.
        destruct (lookup e ref) as [[| |prefix opts]|]; try reflexivity.
        destruct (option_by_name prefix opts s0); [|reflexivity]. fs. ob. apply IHm.
      - destruct (lookup e ref) as [[props| |]|]; try reflexivity. fs. ob. rewrite IHo. ob. ob. apply IHm.
      - destruct (lookup e ref) as [[|props|]|]; try reflexivity. fs. ob. rewrite IHn. ob. ob. apply IHm.
    Qed.

    Lemma step_present d p ts m :
      fst (decode_present_c orc e me (S f) d p ts m) = decode_present orc e me (S f) d p ts m.
    Proof.
      rewrite decode_present_c_S, decode_present_S. fs.
      destruct (p_ty p) as [k|ref|ref|ref|item|item|pb]; fs.
      - ob. destruct (is_delim (fst a)); [reflexivity|]. fs. ob. ob. reflexivity.
      - ob. destruct (fst a); try reflexivity.
        destruct (lookup e ref) as [[| |prefix opts]|]; try reflexivity.
        destruct (option_by_name prefix opts s); [|reflexivity]. fs. ob. reflexivity.
      - ob. destruct (lookup e ref) as [[props| |]|]; try reflexivity.
        apply with_holder_c_fst. intros n h. destruct (msg_mutable (p_siblings p) n h) as [sub h1]. fs.
        rewrite IHo. ob. ob. reflexivity.
      - ob. destruct (lookup e ref) as [[|props|]|]; try reflexivity.
        destruct (p_path p) as [|n0 path0].
        + fs. rewrite IHn. ob. ob. reflexivity.
        + apply with_holder_c_fst. intros n h. destruct (msg_mutable (p_siblings p) n h) as [sub h1]. fs.
          rewrite IHn. ob. ob. reflexivity.
      - ob. destruct item; try reflexivity;
          (apply with_holder_c_fst; intros n h; cbv zeta; fs; rewrite IHa; ob; ob; reflexivity).
      - ob. destruct item; try reflexivity;
          (apply with_holder_c_fst; intros n h; cbv zeta; fs; rewrite IHm; ob; ob; reflexivity).
      - ob. apply with_holder_c_fst. intros n h. destruct (msg_mutable (p_siblings p) n h) as [sub h1]. fs.
        rewrite any_body_c_fst. ob. destruct a0 as [[value ty] rest]. destruct ty; destruct value; try reflexivity.
        destruct pb; [reflexivity|]. fs. ob. reflexivity.
    Qed.
  End Step.
End Proj.

Theorem proj_all orc e me : forall f, proj_level orc e me f.
Proof.
  induction f as [|f (IHp & IHo & IHn & IHa & IHm)]; [repeat split; reflexivity|].
  split; [|split; [|split; [|split]]]; intros.
  - apply step_present; assumption.
  - apply step_object; assumption.
  - apply step_oneof; assumption.
  - apply step_array; assumption.
  - apply step_map; assumption.
Qed.

Theorem decode_tokens_rest_c_fst orc e me fuel root ts :
  fst (decode_tokens_rest_c orc e me fuel root ts) = decode_tokens_rest orc e me fuel root ts.
Proof.
  destruct (proj_all orc e me fuel) as (_ & Po & Pn & _).
  unfold decode_tokens_rest_c, decode_tokens_rest. destruct (lookup e root) as [[props|props|]|]; try reflexivity; fs.
  - apply obind_ext; intros; fs. rewrite Po. apply obind_ext; intros; fs. apply obind_ext; intros. reflexivity.
  - apply obind_ext; intros; fs. rewrite Pn. apply obind_ext; intros; fs. apply obind_ext; intros. reflexivity.
Qed.

(* the counter changes nothing: the instrumented JSONToProto returns what the model of JSONToProto returns *)
Theorem decode_document_c_fst orc e root bs :
  fst (decode_document_c orc e root bs) = decode_document orc e root bs.
Proof.
  unfold decode_document_c, decode_document. destruct (lex bs) as [ts me]. fs.
  rewrite decode_tokens_rest_c_fst. apply obind_ext; intros; fs. apply obind_ext; intros. reflexivity.
Qed.

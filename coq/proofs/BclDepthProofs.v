(* BclDepthProofs.v — the recursion bound of popValue as an obligation, not an observation.
   (1) the constant of the code lies in the range for which "never overflows the stack" is argued
       and exercised (the run parses maxValueDepth nested brackets with the real code; 100000 frames
       of popValue/popElems stay far below Go's 1 GB goroutine stack limit);
   (2) the guard of the code (gen/BclDepthGen.pop_value_guard, a GoExpr term) is evaluated against the
       MODEL's pop_value at the depths around the constant: same decision;
   (3) one recursion adds exactly one to the depth (the model's N.succ / the code's ww.depth++ with the
       deferred ww.depth--), probed through the model on [[ at the bound;
   (4) the model at the generated constant: maxValueDepth nested brackets parse, one more is the
       "arrays nested more than N deep" diagnostic at the bracket that exceeds the bound;
   (5) every array value of every accepted file nests at most maxValueDepth deep (from frag_lx). *)
From Coq Require Import String List NArith ZArith Bool Lia ZifyN ZifyNat ZifyBool.
From J5V.lib Require Import Text Outcome GoExpr.
From J5V.gen Require TokensGen BclDepthGen.
From J5V.model Require Import BclLexer BclParser BclFmt.
From J5V.proofs Require Import BclFragWfProofs.
Import ListNotations.
Local Open Scope string_scope.
Local Open Scope list_scope.

(* the largest nesting bound the stack argument covers *)
Definition stack_safe_depth : N := 100000.

Lemma max_value_depth_in_range :
  N.leb 16 max_value_depth && N.leb max_value_depth stack_safe_depth = true /\
  Z.of_N max_value_depth = BclDepthGen.max_value_depth.
Proof. split; vm_compute; reflexivity. Qed.

Lemma pop_value_guard_shape :
  BclDepthGen.pop_value_guard_returns = true /\ BclDepthGen.pop_value_guard_before_recursion = true /\
  BclDepthGen.pop_value_depth_steps = [("ww.depth", "++"); ("ww.depth", "--")].
Proof. repeat split. Qed.

(* (2) the guard, probed on the model: [ ] at depth d is refused iff the Go condition holds *)
Definition lb (c : Z) : token := mkTok LBRACK [91%N] (0, c)%Z (0, c)%Z.
Definition rb (c : Z) : token := mkTok RBRACK [93%N] (0, c)%Z (0, c)%Z.
Definition too_deep_at (r : wres value) (c : Z) : bool :=
  match r with WErr t TooDeep _ => Z.eqb (snd (tstart t)) c | _ => false end.
Definition guard_at (d : N) : bool :=
  match g_eval (g_lookup [("ww.depth", VZ (Z.of_N d)); ("maxValueDepth", VZ BclDepthGen.max_value_depth)]) no_calls []
               BclDepthGen.pop_value_guard with
  | VB b => b
  | _ => false
  end.
Lemma pop_value_guard_agrees :
  forallb (fun d => Bool.eqb (too_deep_at (pop_value 4 d (mkW [lb 0; rb 1] None)) 0) (guard_at d))
    [0; 1; max_value_depth - 2; max_value_depth - 1; max_value_depth; max_value_depth + 1; max_value_depth + 2; 2 * max_value_depth]%N = true /\
  guard_at (max_value_depth - 1) = false /\ guard_at max_value_depth = true.
Proof. split; [|split]; vm_compute; reflexivity. Qed.

(* (3) one level of recursion is one step of depth: [[ ]] two below the bound is accepted, one below
   the bound the INNER bracket is refused *)
Lemma pop_value_depth_step :
  too_deep_at (pop_value 6 (max_value_depth - 1) (mkW [lb 0; lb 1; rb 2; rb 3] None)) 1 = true /\
  match pop_value 6 (max_value_depth - 2) (mkW [lb 0; lb 1; rb 2; rb 3] None) with WOk (VArr [VArr [] _ _] _ _) _ => true | _ => false end = true.
Proof. split; vm_compute; reflexivity. Qed.

(* (4) the whole parser at the generated constant *)
Definition nest_src (n : nat) : list N := [97; 32; 61; 32]%N ++ repeat 91%N n ++ repeat 93%N n ++ [10%N].
Definition parse_summary (ff : bool) (data : list N) : option (bool * list (pos * pos)) :=
  match parse_runes ff data with
  | Ok p => Some (match ptree p with Some (_ :: _) => true | _ => false end, map (fun d => (dstart d, dend d)) (pdiags p))
  | _ => None
  end.
Lemma max_value_depth_boundary :
  let n := N.to_nat max_value_depth in
  parse_summary true (nest_src n) = Some (true, []) /\
  parse_summary true (nest_src (S n)) =
    Some (false, [((0, 4 + Z.of_N max_value_depth), (0, 4 + Z.of_N max_value_depth))%Z]).
Proof. split; vm_compute; reflexivity. Qed.

(* (5) no accepted file holds an array value nested deeper than the bound *)
Definition assign_depth_ok (f : fragment) : Prop :=
  match f with FAssign a => (vdepth (avalue a) <= max_value_depth)%N | _ => True end.
Theorem accepted_values_nest_within_bound data fs :
  collect_fragments data = Ok fs -> Forall assign_depth_ok fs.
Proof.
  intros H. pose proof (collect_fragments_lx data fs H) as Hl.
  eapply Forall_impl; [|exact Hl]. intros f Hf. destruct f as [h|a|d|t|t]; cbn; auto.
  cbn [frag_lx] in Hf. destruct Hf as (_ & _ & _ & _ & Hd). exact Hd.
Qed.

(* BclLspClampProofs.v — the protocol's position clamping is the identity on the TextEdits genlsp sends,
   except for an end position on line = number of lines (which denotes the end of the document), and a
   client that applies the edits by byte offsets under that rule gets exactly the text of
   BclFmt.lsp_apply, the application C19_lsp is stated with. *)
From Coq Require Import String List NArith ZArith Bool Lia ZifyN ZifyNat ZifyBool.
From J5V.lib Require Import Text Outcome.
From J5V.model Require Import BclLexer BclParser BclFmt BclLsp.
From J5V.proofs Require Import BclPosProofs BclTextProofs BclFmtProofs BclFmtFullProofs BclLspProofs.
Import ListNotations.
Local Open Scope Z_scope.
Arguments Nat.sub : simpl never.

Lemma u16_len_nonneg rs : 0 <= u16_len rs.
Proof.
  unfold u16_len. induction rs as [|r t IH]; cbn [fold_right]; [lia|].
  unfold u16_units in *. destruct (r <? 65536)%N; lia.
Qed.

(* ---- clamping positions ------------------------------------------------------------------------ *)
Lemma clamp_inside lines L : 0 <= L < Z.of_nat (length lines) -> clamp_pos lines (mkLP L 0) = mkLP L 0.
Proof.
  intros H. unfold clamp_pos. cbn [lp_line lp_char].
  replace (Z.of_nat (length lines) <=? L) with false by lia.
  rewrite Z.min_l by apply u16_len_nonneg. reflexivity.
Qed.

Lemma clamp_end lines : clamp_pos lines (mkLP (Z.of_nat (length lines)) 0) =
  mkLP (Z.of_nat (length lines) - 1) (u16_len (utf8_decode (last lines []))).
Proof. unfold clamp_pos. cbn [lp_line]. rewrite Z.leb_refl. reflexivity. Qed.

(* every position of well-formed character-0 edits is unchanged by clamping, except an end on line n *)
Definition pos_unclamped (lines : list (list N)) (p : lsp_pos) : Prop := clamp_pos lines p = p.
Fixpoint tes_clamp_free (lines : list (list N)) (tes : list text_edit) : Prop :=
  match tes with
  | [] => True
  | te :: r =>
    (pos_unclamped lines (te_start te) \/ (te_start te = te_end te /\ lp_line (te_start te) = Z.of_nat (length lines))) /\
    (pos_unclamped lines (te_end te) \/ lp_line (te_end te) = Z.of_nat (length lines)) /\
    tes_clamp_free lines r
  end.

Lemma tes_wf_clamp_free lines : forall tes lo, 0 <= lo -> tes_wf (Z.of_nat (length lines)) lo tes -> tes_clamp_free lines tes.
Proof.
  induction tes as [|te r IH]; intros lo Hlo H; [exact I|].
  cbn [tes_wf] in H. destruct H as (C0 & C1 & A & B & C & D). cbn [tes_clamp_free].
  destruct (te_start te) as [sl sc] eqn:Es. destruct (te_end te) as [el ec] eqn:Ee. cbn [lp_line lp_char] in *. subst sc ec.
  split; [|split].
  - destruct (Z.eq_dec sl (Z.of_nat (length lines))) as [E|E].
    + right. split; [f_equal; lia|exact E].
    + left. apply clamp_inside. lia.
  - destruct (Z.eq_dec el (Z.of_nat (length lines))) as [E|E]; [right; exact E|left; apply clamp_inside; lia].
  - apply (IH el); [lia|exact D].
Qed.

(* ---- offsets -------------------------------------------------------------------------------------- *)
Lemma prefix_bytes_zero fuel bs : prefix_bytes fuel 0 bs = 0.
Proof.
  destruct fuel as [|f]; [reflexivity|]. cbn [prefix_bytes].
  destruct (decode_rune bs) as [[r k]|]; [|reflexivity].
  unfold u16_units. destruct (r <? 65536)%N; reflexivity.
Qed.

Section Doc.
Variable lines : list (list N).
Let n := Z.of_nat (length lines).
Let doc := join_with 10 lines.

Lemma off_inside L : 0 <= L < n -> pos_offset lines (mkLP L 0) = Z.of_nat (length (NL (firstn (Z.to_nat L) lines))).
Proof.
  intros H. unfold pos_offset. cbn [lp_line lp_char]. fold n. replace (n <=? L) with false by lia.
  rewrite prefix_bytes_zero. unfold line_start, NL. lia.
Qed.
Lemma off_end : pos_offset lines (mkLP n 0) = Z.of_nat (length doc).
Proof. unfold pos_offset. cbn [lp_line]. fold n. rewrite Z.leb_refl. reflexivity. Qed.

Lemma doc_split k : (k < length lines)%nat -> doc = NL (firstn k lines) ++ join_with 10 (skipn k lines).
Proof.
  intros H. unfold doc. rewrite <- (firstn_skipn k lines) at 1. apply join_NL.
  intros E. pose proof (f_equal (@length _) E) as E'. rewrite skipn_length in E'. cbn in E'. lia.
Qed.

Lemma skipn_app_len {A} (a b : list A) : skipn (length a) (a ++ b) = b.
Proof. induction a; [reflexivity|assumption]. Qed.
Lemma firstn_app_len {A} (a b : list A) : firstn (length a) (a ++ b) = a.
Proof. induction a as [|x r IH]; [reflexivity|cbn; rewrite IH; reflexivity]. Qed.

(* the text between two character-0 positions is the segment the line model speaks of *)
Lemma slice_seg a b : 0 <= a -> a <= b -> b <= n ->
  slice doc (pos_offset lines (mkLP a 0)) (pos_offset lines (mkLP b 0)) = seg lines a b.
Proof.
  intros Ha Hab Hb. destruct (Z.eq_dec b n) as [Eb|Eb].
  - subst b. rewrite seg_tail. rewrite off_end. unfold slice. destruct (Z.eq_dec a n) as [Ea|Ea].
    + rewrite Ea, off_end. rewrite Z.sub_diag. cbn [Z.to_nat firstn]. unfold n. rewrite Nat2Z.id, skipn_all. reflexivity.
    + rewrite off_inside by lia. rewrite Nat2Z.id.
      rewrite (doc_split (Z.to_nat a)) by lia. rewrite skipn_app_len.
      apply firstn_all2. rewrite app_length. lia.
  - assert (Hbn : b < n) by lia. rewrite seg_inner by lia. rewrite !off_inside by lia. unfold slice. rewrite !Nat2Z.id.
    rewrite (doc_split (Z.to_nat b)) by lia.
    assert (Ef : firstn (Z.to_nat b) lines = firstn (Z.to_nat a) lines ++ firstn (Z.to_nat (b - a)) (skipn (Z.to_nat a) lines)).
    { rewrite <- (firstn_skipn (Z.to_nat a) (firstn (Z.to_nat b) lines)). f_equal.
      - rewrite firstn_firstn. f_equal. lia.
      - rewrite skipn_firstn_comm. f_equal. lia. }
    rewrite Ef, NL_app, <- app_assoc, skipn_app_len.
    replace (Z.to_nat (Z.of_nat (length (NL (firstn (Z.to_nat a) lines) ++ NL (firstn (Z.to_nat (b - a)) (skipn (Z.to_nat a) lines)))) -
                       Z.of_nat (length (NL (firstn (Z.to_nat a) lines)))))
      with (length (NL (firstn (Z.to_nat (b - a)) (skipn (Z.to_nat a) lines)))) by (rewrite app_length; lia).
    apply firstn_app_len.
Qed.

Lemma client_apply_lsp_apply : forall tes c, 0 <= c <= n -> tes_wf n c tes ->
  client_apply lines doc (pos_offset lines (mkLP c 0)) tes = lsp_apply lines c tes.
Proof.
  induction tes as [|te r IH]; intros c Hc Hw.
  - cbn [client_apply lsp_apply]. fold n. rewrite <- (slice_seg c n) by lia. rewrite off_end. unfold slice.
    symmetry. apply firstn_all2. rewrite skipn_length. lia.
  - cbn [tes_wf] in Hw. destruct Hw as (C0 & C1 & A & B & C & D).
    destruct (te_start te) as [sl sc] eqn:Es. destruct (te_end te) as [el ec] eqn:Ee. cbn [lp_line lp_char] in *. subst sc ec.
    cbn [client_apply lsp_apply]. rewrite Es, Ee. cbn [lp_line].
    rewrite (slice_seg c sl) by lia. rewrite (IH el) by (auto; lia). reflexivity.
Qed.
End Doc.

Theorem lsp_client_apply_is_lsp_apply input tes :
  tes_wf (Z.of_nat (length (split_on 10 input))) 0 tes ->
  lsp_client_apply input tes = lsp_apply (split_on 10 input) 0 tes.
Proof.
  intros Hw. unfold lsp_client_apply.
  pose proof (client_apply_lsp_apply (split_on 10 input) tes 0 ltac:(lia) Hw) as H.
  rewrite join_split in H.
  assert (E0 : pos_offset (split_on 10 input) (mkLP 0 0) = 0).
  { destruct (Z.eq_dec (Z.of_nat (length (split_on 10 input))) 0) as [E|E].
    - pose proof (split_on_nonempty 10 input) as Hn. destruct (split_on 10 input); [contradiction|cbn in E; lia].
    - rewrite off_inside by lia. reflexivity. }
  rewrite E0 in H. exact H.
Qed.

(* C19 at the level of a protocol-conforming client: the TextEdits are computed, clamping changes no
   position except an end on line = #lines, and the client's buffer after applying them is the formatter's
   output up to trailing blank lines *)
Theorem lsp_client_statement input out : fmt_bytes input = Ok out ->
  Z.of_nat (length (split_on 10 input)) < 4294967296 ->
  exists tes, lsp_format input = Ok tes /\ tes_clamp_free (split_on 10 input) tes /\
    strip_trailing_blank (split_on 10 (lsp_client_apply input tes)) = strip_trailing_blank (split_on 10 out).
Proof.
  intros Eo Hn. destruct (lsp_format_statement input out Eo Hn) as (tes & El & Hw & Happ).
  exists tes. split; [exact El|]. split; [apply (tes_wf_clamp_free _ tes 0); [lia|exact Hw]|].
  rewrite (lsp_client_apply_is_lsp_apply input tes Hw). exact Happ.
Qed.

From Coq Require Import String List NArith ZArith Bool.
From J5V.lib Require Import Outcome.
From J5V.model Require Import RulesDecl RulesWrite RulesRead RulesNested RulesClientNames.
Import ListNotations.

Lemma read_tree_checked_ok fixed env path m t :
  tree_names_ok fixed path m = true ->
  read_tree env path m = Ok t -> read_tree_checked fixed env path m = Ok t.
Proof. intros Hn Hr. unfold read_tree_checked. rewrite Hr, Hn. reflexivity. Qed.

Lemma read_tree_checked_clash fixed env path m :
  tree_names_ok fixed path m = false ->
  forall t, read_tree_checked fixed env path m <> Ok t.
Proof.
  intros Hn t. unfold read_tree_checked.
  destruct (read_tree env path m); try discriminate. rewrite Hn. discriminate.
Qed.

Lemma read_tree_checked_exact fixed env path m t :
  read_tree_checked fixed env path m = Ok t <->
  read_tree env path m = Ok t /\ tree_names_ok fixed path m = true.
Proof.
  unfold read_tree_checked. split.
  - destruct (read_tree env path m) as [t'| | |]; try discriminate.
    destruct (tree_names_ok fixed path m); [|discriminate]. intros H. split; [exact H|reflexivity].
  - intros [Hr Hn]. rewrite Hr, Hn. reflexivity.
Qed.

Lemma read_object_checked_exact fixed env k name fs ps :
  read_object_checked fixed env k name fs = Ok ps <->
  read_object env fs = Ok ps /\ tree_names_ok fixed [] (flat_msg k name fs) = true.
Proof.
  unfold read_object_checked. split.
  - destruct (read_object env fs) as [p'| | |]; try discriminate.
    destruct (tree_names_ok fixed [] (flat_msg k name fs)); [|discriminate]. intros H. split; [exact H|reflexivity].
  - intros [Hr Hn]. rewrite Hr, Hn. reflexivity.
Qed.

Lemma oneof_root_not_checked fixed name fs : tree_names_ok fixed [] (flat_msg ROneof name fs) = true.
Proof. reflexivity. Qed.

From J5V.proofs Require Import RulesNestedProofs.

(* the round trip of declaration trees, with the reader of /repo 96a1ec3 *)
Lemma c04_tree_checked fixed env s path name m :
  zero_std env = true -> tree_rt s = true ->
  write_schema env path name s = Ok m ->
  tree_names_ok fixed path m = true ->
  read_tree_checked fixed env path m = Ok (norm_schema env path name s).
Proof.
  intros Hstd Hrt Hw Hn. apply read_tree_checked_ok; [exact Hn|].
  exact (c04_tree env Hstd s path name m Hrt Hw).
Qed.

Lemma c04_tree_clash_refused fixed env s path name m :
  write_schema env path name s = Ok m ->
  tree_names_ok fixed path m = false ->
  forall t, read_tree_checked fixed env path m <> Ok t.
Proof. intros _ Hn. exact (read_tree_checked_clash fixed env path m Hn). Qed.

(* BclTokEndProofs.v — first step towards extent_ok (BclFmtDiffsIdemProofs): the END position of a token.
   The line of P pre is the number of newlines of pre, so a token NextToken returns (tok_range: start = P ps,
   end = P pe, ps a prefix of pe, pe a prefix of the input) ends exactly (newlines of the consumed segment)
   lines after it starts: [tok_end_exact].  Still to do for extent_ok: the consumed segment of a token of
   formatted text has the newlines of token_source t, and the sum over the tokens of a fragment. *)
From Coq Require Import String List NArith ZArith Bool Lia ZifyN ZifyNat ZifyBool.
From J5V.lib Require Import Text Outcome.
From J5V.model Require Import BclLexer.
From J5V.proofs Require Import BclPosProofs BclLexerProofs BclParserProofs BclTextProofs BclLineNoProofs.
Import ListNotations.
Local Open Scope Z_scope.

Lemma adv_all_line : forall seg p, fst (adv_all p seg) = fst p + Z.of_nat (count_nl seg).
Proof.
  induction seg as [|c r IH]; intros p; [cbn; lia|].
  unfold adv_all in *. cbn [fold_left count_nl]. rewrite IH. unfold adv.
  destruct (N.eqb c 10) eqn:E; cbn [fst]; lia.
Qed.

Lemma P_line pre : fst (P pre) = Z.of_nat (count_nl pre).
Proof. unfold P. rewrite adv_all_line. reflexivity. Qed.

Lemma P_app_line pre seg : fst (P (pre ++ seg)) = fst (P pre) + Z.of_nat (count_nl seg).
Proof. rewrite !P_line, count_nl_app. lia. Qed.

(* a token NextToken returns ends (newlines of the runes it consumed) lines after it starts; the consumed
   runes are a segment of the input that begins where the token begins *)
Theorem tok_end_exact inp pre t s' : tok_range inp pre t s' ->
  exists ps seg post, inp = ps ++ seg ++ post /\ pfx pre ps /\
    tstart t = P ps /\ tend t = P (ps ++ seg) /\
    fst (tend t) = fst (tstart t) + Z.of_nat (count_nl seg).
Proof.
  intros (ps & pe & c0 & Hpre & Hfull & [seg ->] & Hs & He & Hon).
  pose proof (lon_pfx _ _ _ Hon) as [post Hpost].
  exists ps, seg, post. split; [rewrite Hpost, <- app_assoc; reflexivity|]. split; [exact Hpre|].
  split; [exact Hs|]. split; [exact He|]. rewrite Hs, He. apply P_app_line.
Qed.

(* a token without a newline among the runes it consumed ends on the line where it starts *)
Corollary tok_single_line inp pre t s' : tok_range inp pre t s' ->
  forall ps seg, tstart t = P ps -> tend t = P (ps ++ seg) -> no_nl seg -> fst (tend t) = fst (tstart t).
Proof.
  intros _ ps seg Hs He Hn. rewrite Hs, He, P_app_line, (no_nl_count seg Hn). lia.
Qed.

(* ---- every token of AllTokens ------------------------------------------------------------------- *)
Definition tok_seg (inp : list N) (t : token) : Prop :=
  exists ps seg post, inp = ps ++ seg ++ post /\ tstart t = P ps /\ tend t = P (ps ++ seg) /\
    fst (tend t) = fst (tstart t) + Z.of_nat (count_nl seg).

Lemma tok_range_seg inp pre t s' : tok_range inp pre t s' -> tok_seg inp t.
Proof.
  intros H. destruct (tok_end_exact inp pre t s' H) as (ps & seg & post & H1 & _ & H3 & H4 & H5).
  exists ps, seg, post. auto.
Qed.

Lemma all_tokens_loop_seg inp ff : forall fuel s pre,
  linv inp s pre -> (length (rest s) + 1 < fuel)%nat ->
  let '(ts, ds, b) := all_tokens_loop fuel ff s in Forall (tok_seg inp) ts.
Proof.
  induction fuel as [|f IH]; intros s pre Hi Hf; [lia|].
  cbn [all_tokens_loop].
  pose proof (next_token_fuel_spec inp (S (length (rest s))) s pre Hi) as Hn.
  unfold next_token.
  destruct (next_token_fuel (S (length (rest s))) s) as [[t|d| |] s'] eqn:E; cbn in Hn.
  - destruct Hn as [Hr Hty]; [lia|]. pose proof (tok_range_seg _ _ _ _ Hr) as Hseg.
    destruct Hr as (ps & pe & c0 & H1 & H2 & H3 & H4 & H5 & H6).
    destruct H6 as [[c Hc]|[He Hpe]].
    + specialize (IH s' (pe ++ [c]) (lc_inv _ _ _ _ Hc)).
      destruct (all_tokens_loop f ff s') as [[ts ds] b].
      constructor; [exact Hseg|]. apply IH.
      pose proof (linv_len _ _ _ Hi). pose proof (linv_len _ _ _ (lc_inv _ _ _ _ Hc)) as Hl2.
      rewrite app_length in Hl2. cbn in Hl2.
      pose proof (pfx_len _ _ H1). pose proof (pfx_len _ _ H3). lia.
    + destruct f as [|f']; [lia|]. rewrite (leof_loop inp ff s' f' He). constructor; [exact Hseg|constructor].
  - destruct Hn as (pd & m & H1 & H2 & H3); [lia|].
    destruct ff; [constructor|].
    destruct H2 as [[c Hc]|[He Hpe]].
    + specialize (IH s' (pd ++ [c]) (lc_inv _ _ _ _ Hc)).
      destruct (all_tokens_loop f false s') as [[ts ds] b]. apply IH.
      pose proof (linv_len _ _ _ Hi). pose proof (linv_len _ _ _ (lc_inv _ _ _ _ Hc)) as Hl2.
      rewrite app_length in Hl2. cbn in Hl2. pose proof (pfx_len _ _ H1). lia.
    + destruct f as [|f']; [lia|]. rewrite (leof_loop inp false s' f' He). constructor.
  - constructor.
  - constructor.
Qed.

(* every token AllTokens returns ends exactly (newlines of the segment of the input it covers) lines after its start *)
Theorem all_tokens_end_exact ff data ts : all_tokens ff data = LexOk ts -> Forall (tok_seg data) ts.
Proof.
  unfold all_tokens. intros H.
  pose proof (all_tokens_loop_seg data ff (S (S (length data))) (new_lexer data) [] (new_lexer_inv data)) as Hs.
  destruct (all_tokens_loop (S (S (length data))) ff (new_lexer data)) as [[ts0 ds] b].
  destruct b; [discriminate|]. destruct ds; [|discriminate]. injection H as <-. apply Hs. cbn. lia.
Qed.

Lemma last_cons_some (l : list (option token)) x d : last (x :: l) d = last l x.
Proof. revert x d. induction l as [|y r IH]; intros x d; [reflexivity|]. change (last (x :: y :: r) d) with (last (y :: r) d). rewrite !IH. reflexivity. Qed.

(* ---- a run of tokens without EOL: the line on which the next token starts ------------------------ *)
Fixpoint span_sum (ts : list token) : Z :=
  match ts with [] => 0 | t :: r => (fst (tend t) - fst (tstart t)) + span_sum r end.

Lemma vchain_extent : forall ts prev, vchain prev ts -> Forall (fun t => ty t <> EOL) ts ->
  vl (last (map Some ts) prev) = vl prev + span_sum ts.
Proof.
  induction ts as [|t r IH]; intros prev Hv Hne; [cbn; lia|].
  cbn [vchain] in Hv. destruct Hv as [Hs Hr]. inversion Hne as [|x y Ht Hrn]; subst.
  cbn [map span_sum]. rewrite last_cons_some.
  rewrite (IH (Some t) Hr Hrn). cbn [vl]. apply tt_eqb_false in Ht. rewrite Ht. lia.
Qed.

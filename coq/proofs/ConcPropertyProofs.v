(* ConcPropertyProofs.v — the property as a whole: refuted on type sets with shared keys, proved without them. *)
From Coq Require Import List NArith Bool Arith.
From J5V.model Require Import Conc ConcKey ConcSites ConcRace ConcHB ConcStatement ConcProperty.
From J5V.proofs Require Import ConcProofs ConcFullProofs ConcKeyProofs ConcHBProofs.
Import ListNotations.

Lemma property_refuted pol : ~ C10_property pol Guarded.
Proof. intros [H _]. exact (keyed_statement_refuted pol H). Qed.

Lemma property_collision_free pol : C10_property_collision_free pol Guarded.
Proof.
  split; [|split].
  - intros key Hinj k g calls Hok. exact (keyed_results_injective key Hinj pol g k calls Hok).
  - split; [exact logic_guarded|exact memory_guarded].
  - exact guarded_drf.
Qed.

(* for the code as it is: whatever code_hitpol the tables yield, under the discipline they yield *)
Lemma property_refuted_for_code : ~ C10_property code_hitpol code_disc.
Proof. rewrite code_disc_guarded. apply property_refuted. Qed.

Lemma property_collision_free_for_code : C10_property_collision_free code_hitpol code_disc.
Proof. rewrite code_disc_guarded. apply property_collision_free. Qed.

(* RulesEnumExactProofs.v — the enum fragment is exact: an enum declaration reads back as
   declared iff it lies in RulesEnum.enum_rt (every description survives commentDescription,
   an explicit first option ending in UNSPECIFIED is spelled the standard way). Hence the
   same for inline enum fields. *)
From Coq Require Import String List NArith ZArith Bool Lia.
From J5V.lib Require Import Outcome Strcase.
From J5V.model Require Import RulesDecl RulesWrite RulesRead RulesEnum RulesNested RulesInlineEnum.
From J5V.proofs Require Import RulesProofs RulesReadProofs RulesInlineEnumProofs.
Import ListNotations.

Lemma has_prefix_split p : forall s, has_prefix p s = true -> exists t, s = (p ++ t)%list.
Proof.
  induction p as [|c r IH]; intros s H; [exists s; reflexivity|].
  destruct s as [|y t]; [discriminate|]. cbn in H. apply andb_true_iff in H as [Hc Hr].
  apply N.eqb_eq in Hc. subst y. destruct (IH t Hr) as [u ->]. exists u. reflexivity.
Qed.

Lemma has_suffix_split suf s : has_suffix suf s = true -> exists x, s = (x ++ suf)%list.
Proof.
  unfold has_suffix. intro H. destruct (has_prefix_split _ _ H) as [t Ht].
  exists (rev t). rewrite <- (rev_involutive s), Ht, rev_app_distr, rev_involutive. reflexivity.
Qed.

Lemma pfx_suffix p n : has_suffix unspecified n = true -> has_suffix unspecified (pfx p n) = true.
Proof.
  intro H. unfold pfx. destruct (has_prefix p n); [exact H|].
  destruct (has_suffix_split _ _ H) as [x ->]. rewrite app_assoc. apply has_suffix_app.
Qed.

Lemma number_from_length p os : forall i, length (number_from p i os) = length os.
Proof. induction os as [|[[n d] inf] r IH]; intro i; [reflexivity|]. cbn. rewrite IH. reflexivity. Qed.
Lemma number_options_length p os : forall i, length (number_options p i os) = length os.
Proof. induction os as [|[[n d] inf] r IH]; intro i; [reflexivity|]. cbn. rewrite IH. reflexivity. Qed.

(* if the values read back as the declared options, every option description is plain *)
Lemma read_numbered_conv p os : forall i,
  map (fun v => match v with (n, k, d, inf) => (trim_prefix p n, k, clean_desc d, inf) end) (number_from p i os)
  = number_options p i os ->
  forallb (fun o => desc_plain (snd (fst o))) os = true.
Proof.
  induction os as [|[[n d] inf] r IH]; intros i H; [reflexivity|].
  cbn [number_from number_options map] in H. injection H as _ Hd Hr.
  cbn [forallb snd fst]. unfold desc_plain at 1. rewrite Hd, str_eqb_refl. exact (IH (i + 1)%Z Hr).
Qed.

Theorem c04_enum_only_if e : read_enum (write_enum e) = Ok (norm_enum e) -> enum_rt e = true.
Proof.
  unfold read_enum, write_enum, norm_enum, enum_rt, unspec_ok. cbn [eo_values eo_desc eo_info].
  destruct (ed_options e) as [|[[n d] inf] r] eqn:Eo.
  - rewrite has_suffix_app. cbn [negb]. intro H. injection H as Hdesc _ _.
    unfold desc_plain. rewrite Hdesc, str_eqb_refl. reflexivity.
  - destruct (is_zero_opt (ed_prefix e) n) eqn:Ez.
    + pose proof Ez as Ep. apply str_eqb_eq in Ep. rewrite Ep.
      rewrite has_suffix_app. cbn [negb]. rewrite trim_suffix_app. intro H. injection H as Hdesc Hopts.
      assert (Hnames : names_unspecified (ed_prefix e) n = true).
      { destruct (names_unspecified (ed_prefix e) n) eqn:En; [reflexivity|]. exfalso.
        apply (f_equal (@length _)) in Hopts. cbn [map length] in Hopts.
        rewrite map_length, number_from_length, number_options_length in Hopts. cbn [length] in Hopts. lia. }
      rewrite Hnames in Hopts. cbn [map] in Hopts. injection Hopts as _ Hd Hrest.
      rewrite Hnames. cbn [Bool.eqb andb].
      unfold desc_plain at 1. rewrite Hdesc, str_eqb_refl. cbn [andb forallb snd fst].
      unfold desc_plain at 1. rewrite Hd, str_eqb_refl. cbn [andb].
      exact (read_numbered_conv (ed_prefix e) r 1%Z Hrest).
    + rewrite has_suffix_app. cbn [negb]. rewrite trim_suffix_app. intro H. injection H as Hdesc Hopts.
      assert (Hn : names_unspecified (ed_prefix e) n = false).
      { destruct (names_unspecified (ed_prefix e) n) eqn:En; [|reflexivity]. exfalso.
        apply (f_equal (@length _)) in Hopts. cbn [map length] in Hopts.
        rewrite map_length, number_from_length, number_options_length in Hopts. cbn [length] in Hopts. lia. }
      rewrite Hn in Hopts. assert (Hrest := f_equal (@tl _) Hopts). cbn [map tl] in Hrest.
      rewrite Hn. cbn [Bool.eqb andb].
      unfold desc_plain at 1. rewrite Hdesc, str_eqb_refl. cbn [andb].
      exact (read_numbered_conv (ed_prefix e) ((n, d, inf) :: r) 1%Z Hrest).
Qed.

Theorem c04_enum_exact e : read_enum (write_enum e) = Ok (norm_enum e) <-> enum_rt e = true.
Proof. split; [apply c04_enum_only_if|apply c04_enum]. Qed.

(* ---- inline enum fields ---- *)
Theorem c04_inline_enum_exact here idx d i c :
  write_inline_enum idx d i = Ok c ->
  (read_inline_enum (env_of_decl (ie_decl (p_name d) i)) here c = Ok (norm_inline_enum here idx d i)
   <-> inline_enum_rt d i = true).
Proof.
  intros Hw. split; [|intro H; exact (c04_inline_enum here idx d i c H Hw)].
  unfold write_inline_enum in Hw. apply obind_ok in Hw as [o [Ho Hw]]. inversion Hw; subst c; clear Hw.
  unfold read_inline_enum, norm_inline_enum, inline_enum_rt. cbn [fst snd].
  destruct (read_prop (env_of_decl (ie_decl (p_name d) i)) o) as [p| | |] eqn:Ep; cbn [obind]; try discriminate.
  destruct (read_enum (write_enum (ie_decl (p_name d) i))) as [en| | |] eqn:Ee; cbn [obind]; try discriminate.
  intro H. injection H as Hp Hen. subst p en.
  assert (He : enum_rt (ie_decl (p_name d) i) = true) by (apply c04_enum_only_if; exact Ee).
  assert (Hstd : zero_std (env_of_decl (ie_decl (p_name d) i)) = true).
  { apply unspec_ok_zero_std. unfold enum_rt in He. apply andb_true_iff in He as [He' _]. apply andb_true_iff in He' as [He' _]. exact He'. }
  apply andb_true_iff. split; [|exact He].
  apply (c04_prop_exact _ idx d o Hstd Ho). exact Ep.
Qed.

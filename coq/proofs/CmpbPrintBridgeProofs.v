(* CmpbPrintBridgeProofs.v — C14's option-order result carried onto the `tool` family's model of the printer
   (model/ProtoPrintFile.v): the option lists of an element are the only place where protobuf's Range order
   enters the printed text; the printer's model sorts them with Go's insertion sort under optionsByLocation.Less
   ([opt_less]) and, for fields and enum values, once more by the printed name.  Here: that sort does not depend
   on the order the options arrive in, whenever their sort keys are distinct — so [lay_sopts] / [lay_fopts]
   (what printSection / printFieldStyle lay out) are functions of the SET of options.
   Method: [opt_less a b] is "key a < key b" for the lexicographic key of model/CmpbOrder.v ([opt_key_leb]); an
   insertion sort under an asymmetric [less] yields an ascending list; ascending + total + transitive key order
   = strongly sorted; two strongly sorted permutations with separated keys are equal (sorted_perm_eq). *)
From Coq Require Import String List Arith NArith Bool Lia ZifyN ZifyNat ZifyBool Permutation Sorted.
From J5V.model Require Import ProtoPrintLit ProtoPrint ProtoPrintFile CmpbOrder.
From J5V.proofs Require Import ProtoPrintFileSortProofs CmpbOrderProofs.
Import ListNotations.
Local Open Scope N_scope.

(* ---- tool's strict byte order is the complement of cmpb's non-strict one *)
Lemma bytes_ltb_bleb : forall a b, bytes_ltb a b = negb (bleb b a).
Proof.
  induction a as [|x r IH]; intros [|y s]; cbn [bytes_ltb bleb negb]; try reflexivity.
  destruct (x <? y) eqn:E1; destruct (y <? x) eqn:E2; try reflexivity; try lia; apply IH.
Qed.

(* ---- generic: insertion sort under [less] = negation of a total, transitive [leb] on keys *)
Section Bridge.
  Context {A K : Type}.
  Variable key : A -> K.
  Variable leb : K -> K -> bool.
  Variable less : A -> A -> bool.
  Hypothesis leb_total : forall a b, leb a b = true \/ leb b a = true.
  Hypothesis leb_trans : forall a b c, leb a b = true -> leb b c = true -> leb a c = true.
  Hypothesis less_leb : forall a b, less a b = negb (leb (key b) (key a)).

  Lemma less_asym a b : less a b = true -> less b a = false.
  Proof.
    rewrite !less_leb. intro H. apply negb_true_iff in H. apply negb_false_iff.
    destruct (leb_total (key a) (key b)) as [E|E]; [exact E|congruence].
  Qed.

  Notation kle := (fun a b : A => leb (key a) (key b) = true).

  (* ascending (no element less than its left neighbour) = each element's key is at least its left neighbour's *)
  Lemma asc_from_sorted : forall l prev,
    asc_from less prev l ->
    (match prev with Some p => Forall (fun x => kle p x) l | None => True end) /\ StronglySorted kle l.
  Proof.
    induction l as [|x r IH]; intros prev H; cbn [asc_from] in H.
    - split; [destruct prev; constructor|constructor].
    - destruct H as [Hx Hr]. destruct (IH (Some x) Hr) as [Hall Hs].
      split.
      + destruct prev as [p|]; [|exact I]. rewrite less_leb in Hx. apply negb_false_iff in Hx.
        constructor; [exact Hx|]. eapply Forall_impl; [|exact Hall]. intros y Hy. cbn in *. eapply leb_trans; eassumption.
      + constructor; [exact Hs|exact Hall].
  Qed.

  Lemma isort_strongly_sorted l : StronglySorted kle (ProtoPrintFile.isort less l).
  Proof.
    pose proof (ProtoPrintFileSortProofs.isort_is_asc less less_asym l) as H. unfold asc in H.
    exact (proj2 (asc_from_sorted _ None H)).
  Qed.

  (* the sort result depends only on the multiset of elements, when equal keys mean equal elements *)
  Theorem isort_less_perm_invariant l1 l2 :
    Permutation l1 l2 ->
    (forall a b, In a l1 -> In b l1 -> leb (key a) (key b) = true -> leb (key b) (key a) = true -> a = b) ->
    ProtoPrintFile.isort less l1 = ProtoPrintFile.isort less l2.
  Proof.
    intros Hp Hanti.
    apply (sorted_perm_eq key leb); try apply isort_strongly_sorted.
    - eapply perm_trans; [apply ProtoPrintFileSortProofs.isort_perm|]. eapply perm_trans; [exact Hp|]. apply Permutation_sym. apply ProtoPrintFileSortProofs.isort_perm.
    - intros a b Ha Hb. apply Hanti; apply (Permutation_in _ (ProtoPrintFileSortProofs.isort_perm less l1)); assumption.
  Qed.
End Bridge.

(* ---- the printer's option order *)
(* the sort key of an option in the printer's descriptor, in the form of model/CmpbOrder.v opt_key *)
Definition dopt_key (o : dopt) : N * (N * (N * bytes)) :=
  let l := k_line (o_key o) in
  (if l =? 0 then 1 else 0, (l, (if l =? 0 then k_idx (o_key o) else 0, join_dot (ProtoPrintFile.o_full o)))).

(* decide every N comparison in the goal / in H from the arithmetic facts in the context *)
Ltac norm_cmp :=
  repeat match goal with
         | |- context [?x <? ?y] =>
             first [replace (x <? y) with true by (symmetry; apply N.ltb_lt; lia)
                   |replace (x <? y) with false by (symmetry; apply N.ltb_ge; lia)]
         | |- context [?x =? ?y] =>
             first [replace (x =? y) with true by (symmetry; apply N.eqb_eq; lia)
                   |replace (x =? y) with false by (symmetry; apply N.eqb_neq; lia)]
         end.
Ltac norm_cmp_in H :=
  repeat match type of H with
         | context [?x <? ?y] =>
             first [replace (x <? y) with true in H by (symmetry; apply N.ltb_lt; lia)
                   |replace (x <? y) with false in H by (symmetry; apply N.ltb_ge; lia)]
         | context [?x =? ?y] =>
             first [replace (x =? y) with true in H by (symmetry; apply N.eqb_eq; lia)
                   |replace (x =? y) with false in H by (symmetry; apply N.eqb_neq; lia)]
         end.

Lemma opt_less_is_key_lt a b : opt_less a b = negb (opt_key_leb (dopt_key b) (dopt_key a)).
Proof.
  unfold opt_less, opt_key_leb, dopt_key, lexN; cbn [fst snd].
  rewrite bytes_ltb_bleb.
  generalize (k_line (o_key a)) (k_line (o_key b)) (k_idx (o_key a)) (k_idx (o_key b))
             (bleb (join_dot (ProtoPrintFile.o_full b)) (join_dot (ProtoPrintFile.o_full a))).
  intros la lb ia ib fb.
  destruct (N.eq_dec la 0) as [Za|Za]; destruct (N.eq_dec lb 0) as [Zb|Zb];
    destruct (N.lt_trichotomy la lb) as [Hl|[Hl|Hl]]; destruct (N.lt_trichotomy ia ib) as [Hi|[Hi|Hi]];
    try lia; norm_cmp; cbn [Bool.eqb negb andb]; norm_cmp; reflexivity.
Qed.

(* optionsByLocation.Less orders options with distinct full names totally: printSection's option list does not
   depend on the order protobuf ranged over the extension fields *)
(* the lexicographic key order is antisymmetric on the keys themselves *)
Lemma opt_key_leb_antisym (u v : N * (N * (N * bytes))) :
  opt_key_leb u v = true -> opt_key_leb v u = true -> u = v.
Proof.
  assert (A1 : forall p q : N * bytes, lex1 p q = true -> lex1 q p = true -> p = q).
  { intros [p1 p2] [q1 q2] Hp Hq.
    destruct (lexN_antisym bleb bleb_total bleb_trans (fun x y => x = y) (fun x y => bleb_antisym x y) _ _ Hp Hq) as [E1 E2].
    cbn [fst snd] in *. subst. reflexivity. }
  assert (A2 : forall p q : N * (N * bytes), lex2 p q = true -> lex2 q p = true -> p = q).
  { intros [p1 p2] [q1 q2] Hp Hq.
    destruct (lexN_antisym lex1 lex1_total lex1_trans (fun x y => x = y) A1 _ _ Hp Hq) as [E1 E2].
    cbn [fst snd] in *. subst. reflexivity. }
  intros Hu Hv. destruct u as [u1 u2], v as [v1 v2].
  destruct (lexN_antisym lex2 lex2_total lex2_trans (fun x y => x = y) A2 _ _ Hu Hv) as [E1 E2].
  cbn [fst snd] in *. subst. reflexivity.
Qed.

Theorem lay_sopts_perm o1 o2 :
  Permutation o1 o2 ->
  (forall a b, In a o1 -> In b o1 -> dopt_key a = dopt_key b -> a = b) ->
  lay_sopts o1 = lay_sopts o2.
Proof.
  intros Hp Hd. unfold lay_sopts. f_equal.
  apply (isort_less_perm_invariant dopt_key opt_key_leb opt_less opt_key_leb_total opt_key_leb_trans opt_less_is_key_lt); [exact Hp|].
  intros a b Ha Hb H1 H2. apply Hd; try assumption. apply opt_key_leb_antisym; assumption.
Qed.

(* ... and the same for fields and enum values, whose options are re-sorted by printed name afterwards *)
Corollary lay_fopts_perm o1 o2 :
  Permutation o1 o2 ->
  (forall a b, In a o1 -> In b o1 -> dopt_key a = dopt_key b -> a = b) ->
  lay_fopts o1 = lay_fopts o2.
Proof. intros Hp Hd. unfold lay_fopts. rewrite (lay_sopts_perm o1 o2 Hp Hd). reflexivity. Qed.

(* ======== the whole printed file, in tool's model, does not depend on ANY Range order =====================
   Two descriptors are Range-equivalent when they differ only in the order of their option lists - of messages,
   oneofs, fields, enums, enum values, services, methods and extension fields, at every nesting depth - and the
   options of each list have distinct sort keys.  Everything else in tool's descriptor (element lists, imports,
   file options) is in declaration order, which the linker fixes.  print_file_tokens agrees on them. *)
Definition opts_equiv (o1 o2 : list dopt) : Prop :=
  Permutation o1 o2 /\ (forall a b, In a o1 -> In b o1 -> dopt_key a = dopt_key b -> a = b).

Definition field_equiv (f1 f2 : dfield) : Prop :=
  f_key f1 = f_key f2 /\ f_cm f1 = f_cm f2 /\ f_label f1 = f_label f2 /\ f_type f1 = f_type f2
  /\ ProtoPrintFile.f_name f1 = ProtoPrintFile.f_name f2 /\ f_num f1 = f_num f2 /\ f_json f1 = f_json f2 /\ opts_equiv (f_opts f1) (f_opts f2).
Definition value_equiv (v1 v2 : dvalue) : Prop :=
  v_key v1 = v_key v2 /\ v_cm v1 = v_cm v2 /\ v_name v1 = v_name v2 /\ v_num v1 = v_num v2 /\ opts_equiv (v_opts v1) (v_opts v2).
Definition method_equiv (m1 m2 : dmethod) : Prop :=
  m_key m1 = m_key m2 /\ m_cm m1 = m_cm m2 /\ m_name m1 = m_name m2 /\ m_in m1 = m_in m2 /\ m_out m1 = m_out m2
  /\ opts_equiv (m_opts m1) (m_opts m2).

Fixpoint delem_equiv (e1 e2 : delem) {struct e1} : Prop :=
  match e1 with
  | DField f1 => match e2 with DField f2 => field_equiv f1 f2 | _ => False end
  | DOneof k1 c1 n1 o1 fs1 =>
      match e2 with
      | DOneof k2 c2 n2 o2 fs2 => k1 = k2 /\ c1 = c2 /\ n1 = n2 /\ opts_equiv o1 o2 /\ Forall2 field_equiv fs1 fs2
      | _ => False
      end
  | DMsg k1 c1 n1 o1 b1 =>
      match e2 with
      | DMsg k2 c2 n2 o2 b2 =>
          k1 = k2 /\ c1 = c2 /\ n1 = n2 /\ opts_equiv o1 o2
          /\ (fix go (l1 l2 : list delem) {struct l1} : Prop :=
                match l1, l2 with
                | [], [] => True
                | x :: r, y :: s => delem_equiv x y /\ go r s
                | _, _ => False
                end) b1 b2
      | _ => False
      end
  | DEnum k1 c1 n1 o1 vs1 =>
      match e2 with
      | DEnum k2 c2 n2 o2 vs2 => k1 = k2 /\ c1 = c2 /\ n1 = n2 /\ opts_equiv o1 o2 /\ Forall2 value_equiv vs1 vs2
      | _ => False
      end
  | DService k1 c1 n1 o1 ms1 =>
      match e2 with
      | DService k2 c2 n2 o2 ms2 => k1 = k2 /\ c1 = c2 /\ n1 = n2 /\ opts_equiv o1 o2 /\ Forall2 method_equiv ms1 ms2
      | _ => False
      end
  end.
Fixpoint delems_equiv (l1 l2 : list delem) : Prop :=
  match l1, l2 with
  | [], [] => True
  | x :: r, y :: s => delem_equiv x y /\ delems_equiv r s
  | _, _ => False
  end.

Definition dfile_equiv (d1 d2 : dfile) : Prop :=
  d_pkg d1 = d_pkg d2 /\ d_imports d1 = d_imports d2 /\ d_fopts d1 = d_fopts d2
  /\ Forall2 (fun x y => fst x = fst y /\ field_equiv (snd x) (snd y)) (d_exts d1) (d_exts d2)
  /\ delems_equiv (d_body d1) (d_body d2).

Lemma opts_equiv_refl o : (forall a b, In a o -> In b o -> dopt_key a = dopt_key b -> a = b) -> opts_equiv o o.
Proof. intro H. split; [apply Permutation_refl|exact H]. Qed.

Lemma map_Forall2_eq {A B} (R : A -> A -> Prop) (g : A -> B) l1 l2 :
  Forall2 R l1 l2 -> (forall a b, R a b -> g a = g b) -> map g l1 = map g l2.
Proof. intros H Hg. induction H as [|a b r s Hab _ IH]; cbn [map]; [reflexivity|]. rewrite (Hg a b Hab), IH. reflexivity. Qed.

Lemma lay_field_equiv st pkg ctx x f1 f2 : field_equiv f1 f2 -> lay_field st pkg ctx x f1 = lay_field st pkg ctx x f2.
Proof.
  intros (E1 & E2 & E3 & E4 & E5 & E6 & E7 & Hp & Hd). unfold lay_field.
  rewrite E2, E3, E4, E5, E6, E7, (lay_fopts_perm _ _ Hp Hd). reflexivity.
Qed.
Lemma lay_fields_equiv st pkg ctx fs1 fs2 : Forall2 field_equiv fs1 fs2 -> lay_fields st pkg ctx fs1 = lay_fields st pkg ctx fs2.
Proof.
  intro H. unfold lay_fields. f_equal. apply (map_Forall2_eq field_equiv); [exact H|].
  intros a b Hab. rewrite (lay_field_equiv st pkg ctx false a b Hab). destruct Hab as (E & _). rewrite E. reflexivity.
Qed.
Lemma lay_value_equiv v1 v2 : value_equiv v1 v2 -> lay_value v1 = lay_value v2.
Proof. intros (E1 & E2 & E3 & E4 & Hp & Hd). unfold lay_value. rewrite E2, E3, E4, (lay_fopts_perm _ _ Hp Hd). reflexivity. Qed.
Lemma lay_method_equiv st pkg n m1 m2 : method_equiv m1 m2 -> lay_method st pkg n m1 = lay_method st pkg n m2.
Proof.
  intros (E1 & E2 & E3 & E4 & E5 & Hp & Hd). unfold lay_method. rewrite E2, E3, E4, E5, (lay_sopts_perm _ _ Hp Hd). reflexivity.
Qed.

(* induction over the nested element tree with Forall on a message's body *)
Section DelemInd.
  Variable P : delem -> Prop.
  Hypothesis HF : forall f, P (DField f).
  Hypothesis HO : forall k c n o fs, P (DOneof k c n o fs).
  Hypothesis HM : forall k c n o body, Forall P body -> P (DMsg k c n o body).
  Hypothesis HE : forall k c n o vs, P (DEnum k c n o vs).
  Hypothesis HS : forall k c n o ms, P (DService k c n o ms).
  Fixpoint delem_forall_ind (e : delem) : P e :=
    match e with
    | DField f => HF f
    | DOneof k c n o fs => HO k c n o fs
    | DMsg k c n o body =>
        HM k c n o body ((fix go (l : list delem) : Forall P l :=
                            match l with
                            | [] => Forall_nil P
                            | x :: r => Forall_cons x (delem_forall_ind x) (go r)
                            end) body)
    | DEnum k c n o vs => HE k c n o vs
    | DService k c n o ms => HS k c n o ms
    end.
End DelemInd.

Lemma lay_msg_body_is_keyed st pkg ctx body :
  (fix go (l : list delem) : list (key3 * selem) :=
     match l with [] => [] | x :: r => (ekey x, lay_elem st pkg ctx x) :: go r end) body = lay_keyed st pkg ctx body.
Proof. induction body as [|x r IH]; cbn [lay_keyed]; [reflexivity|]. rewrite IH. reflexivity. Qed.

Lemma lay_elem_equiv e1 : forall e2 st pkg ctx, delem_equiv e1 e2 ->
  ekey e1 = ekey e2 /\ lay_elem st pkg ctx e1 = lay_elem st pkg ctx e2.
Proof.
  induction e1 as [f1|k1 c1 n1 o1 fs1|k1 c1 n1 o1 b1 IH|k1 c1 n1 o1 vs1|k1 c1 n1 o1 ms1] using delem_forall_ind;
    intros e2 st pkg ctx H; destruct e2 as [f2|k2 c2 n2 o2 fs2|k2 c2 n2 o2 b2|k2 c2 n2 o2 vs2|k2 c2 n2 o2 ms2];
    cbn [delem_equiv] in H; try contradiction.
  - split; [cbn [ekey]; destruct H as (E & _); rewrite E; reflexivity|].
    cbn [lay_elem]. rewrite (lay_field_equiv st pkg ctx false f1 f2 H). reflexivity.
  - destruct H as (-> & -> & -> & [Hp Hd] & Hfs). split; [reflexivity|].
    cbn [lay_elem]. rewrite (lay_sopts_perm _ _ Hp Hd), (lay_fields_equiv st pkg ctx _ _ Hfs). reflexivity.
  - destruct H as (-> & -> & -> & [Hp Hd] & Hb). split; [reflexivity|].
    cbn [lay_elem]. rewrite (lay_sopts_perm _ _ Hp Hd), !lay_msg_body_is_keyed. f_equal. f_equal.
    clear Hp Hd. revert b2 Hb. induction IH as [|x r Hx _ IHr]; intros [|y s] Hb; try contradiction; [reflexivity|].
    destruct Hb as [Hxy Hrs]. cbn [lay_keyed]. destruct (Hx y st pkg (ctx ++ [n2]) Hxy) as [Ek El].
    rewrite Ek, El, (IHr s Hrs). reflexivity.
  - destruct H as (-> & -> & -> & [Hp Hd] & Hvs). split; [reflexivity|].
    cbn [lay_elem]. rewrite (lay_sopts_perm _ _ Hp Hd). f_equal. f_equal.
    apply (map_Forall2_eq value_equiv); [exact Hvs|]. intros a b Hab. rewrite (lay_value_equiv a b Hab).
    destruct Hab as (E & _). rewrite E. reflexivity.
  - destruct H as (-> & -> & -> & [Hp Hd] & Hms). split; [reflexivity|].
    cbn [lay_elem]. rewrite (lay_sopts_perm _ _ Hp Hd). f_equal. f_equal.
    apply (map_Forall2_eq method_equiv); [exact Hms|]. intros a b Hab. rewrite (lay_method_equiv st pkg n2 a b Hab).
    destruct Hab as (E & _). rewrite E. reflexivity.
Qed.

Lemma lay_keyed_equiv st pkg ctx : forall l1 l2, delems_equiv l1 l2 -> lay_keyed st pkg ctx l1 = lay_keyed st pkg ctx l2.
Proof.
  induction l1 as [|x r IH]; intros [|y s] H; cbn [delems_equiv] in H; try contradiction; [reflexivity|].
  destruct H as [Hxy Hrs]. cbn [lay_keyed]. destruct (lay_elem_equiv x y st pkg ctx Hxy) as [Ek El].
  rewrite Ek, El, (IH s Hrs). reflexivity.
Qed.

Theorem print_file_tokens_range_order_free st d1 d2 :
  dfile_equiv d1 d2 -> print_file_tokens st d1 = print_file_tokens st d2.
Proof.
  intros (E1 & E2 & E3 & Hx & Hb). unfold print_file_tokens. f_equal. unfold lay_file. rewrite E1, E2, E3.
  f_equal.
  - f_equal. apply (map_Forall2_eq (fun x y => fst x = fst y /\ field_equiv (snd x) (snd y))); [exact Hx|].
    intros a b [Ea Hf]. rewrite Ea, (lay_field_equiv st (d_pkg d2) [] true _ _ Hf). reflexivity.
  - unfold lay_body. f_equal. apply lay_keyed_equiv. exact Hb.
Qed.

(* CmpbPrintBridgeProofs.v — C14's option-order result carried onto the `tool` family's model of the printer
   (model/ProtoPrintFile.v): the option lists of an element are the only place where protobuf's Range order
   enters the printed text; the printer's model sorts them with Go's insertion sort under optionsByLocation.Less
   ([opt_less]) and, for fields and enum values, once more by the printed name.  Here: that sort does not depend
   on the order the options arrive in, whenever their sort keys are distinct — so [lay_sopts] / [lay_fopts]
   (what printSection / printFieldStyle lay out) are functions of the SET of options.
   Method: [opt_less a b] is "key a < key b" for the lexicographic key of model/CmpbOrder.v ([opt_key_leb]); an
   insertion sort under an asymmetric [less] yields an ascending list; ascending + total + transitive key order
   = strongly sorted; two strongly sorted permutations with separated keys are equal (sorted_perm_eq). *)
From Coq Require Import String List Arith NArith Bool Lia ZifyN ZifyNat ZifyBool Permutation Sorted.
From J5V.model Require Import ProtoPrintLit ProtoPrint ProtoPrintFile CmpbOrder.
From J5V.proofs Require Import ProtoPrintFileSortProofs CmpbOrderProofs.
Import ListNotations.
Local Open Scope N_scope.

(* ---- tool's strict byte order is the complement of cmpb's non-strict one *)
Lemma bytes_ltb_bleb : forall a b, bytes_ltb a b = negb (bleb b a).
Proof.
  induction a as [|x r IH]; intros [|y s]; cbn [bytes_ltb bleb negb]; try reflexivity.
  destruct (x <? y) eqn:E1; destruct (y <? x) eqn:E2; try reflexivity; try lia; apply IH.
Qed.

(* ---- generic: insertion sort under [less] = negation of a total, transitive [leb] on keys *)
Section Bridge.
  Context {A K : Type}.
  Variable key : A -> K.
  Variable leb : K -> K -> bool.
  Variable less : A -> A -> bool.
  Hypothesis leb_total : forall a b, leb a b = true \/ leb b a = true.
  Hypothesis leb_trans : forall a b c, leb a b = true -> leb b c = true -> leb a c = true.
  Hypothesis less_leb : forall a b, less a b = negb (leb (key b) (key a)).

  Lemma less_asym a b : less a b = true -> less b a = false.
  Proof.
    rewrite !less_leb. intro H. apply negb_true_iff in H. apply negb_false_iff.
    destruct (leb_total (key a) (key b)) as [E|E]; [exact E|congruence].
  Qed.

  Notation kle := (fun a b : A => leb (key a) (key b) = true).

  (* ascending (no element less than its left neighbour) = each element's key is at least its left neighbour's *)
  Lemma asc_from_sorted : forall l prev,
    asc_from less prev l ->
    (match prev with Some p => Forall (fun x => kle p x) l | None => True end) /\ StronglySorted kle l.
  Proof.
    induction l as [|x r IH]; intros prev H; cbn [asc_from] in H.
    - split; [destruct prev; constructor|constructor].
    - destruct H as [Hx Hr]. destruct (IH (Some x) Hr) as [Hall Hs].
      split.
      + destruct prev as [p|]; [|exact I]. rewrite less_leb in Hx. apply negb_false_iff in Hx.
        constructor; [exact Hx|]. eapply Forall_impl; [|exact Hall]. intros y Hy. cbn in *. eapply leb_trans; eassumption.
      + constructor; [exact Hs|exact Hall].
  Qed.

  Lemma isort_strongly_sorted l : StronglySorted kle (ProtoPrintFile.isort less l).
  Proof.
    pose proof (ProtoPrintFileSortProofs.isort_is_asc less less_asym l) as H. unfold asc in H.
    exact (proj2 (asc_from_sorted _ None H)).
  Qed.

  (* the sort result depends only on the multiset of elements, when equal keys mean equal elements *)
  Theorem isort_less_perm_invariant l1 l2 :
    Permutation l1 l2 ->
    (forall a b, In a l1 -> In b l1 -> leb (key a) (key b) = true -> leb (key b) (key a) = true -> a = b) ->
    ProtoPrintFile.isort less l1 = ProtoPrintFile.isort less l2.
  Proof.
    intros Hp Hanti.
    apply (sorted_perm_eq key leb); try apply isort_strongly_sorted.
    - eapply perm_trans; [apply ProtoPrintFileSortProofs.isort_perm|]. eapply perm_trans; [exact Hp|]. apply Permutation_sym. apply ProtoPrintFileSortProofs.isort_perm.
    - intros a b Ha Hb. apply Hanti; apply (Permutation_in _ (ProtoPrintFileSortProofs.isort_perm less l1)); assumption.
  Qed.
End Bridge.

(* ---- the printer's option order *)
(* the sort key of an option in the printer's descriptor, in the form of model/CmpbOrder.v opt_key *)
Definition dopt_key (o : dopt) : N * (N * (N * bytes)) :=
  let l := k_line (o_key o) in
  (if l =? 0 then 1 else 0, (l, (if l =? 0 then k_idx (o_key o) else 0, join_dot (ProtoPrintFile.o_full o)))).

(* decide every N comparison in the goal / in H from the arithmetic facts in the context *)
Ltac norm_cmp :=
  repeat match goal with
         | |- context [?x <? ?y] =>
             first [replace (x <? y) with true by (symmetry; apply N.ltb_lt; lia)
                   |replace (x <? y) with false by (symmetry; apply N.ltb_ge; lia)]
         | |- context [?x =? ?y] =>
             first [replace (x =? y) with true by (symmetry; apply N.eqb_eq; lia)
                   |replace (x =? y) with false by (symmetry; apply N.eqb_neq; lia)]
         end.
Ltac norm_cmp_in H :=
  repeat match type of H with
         | context [?x <? ?y] =>
             first [replace (x <? y) with true in H by (symmetry; apply N.ltb_lt; lia)
                   |replace (x <? y) with false in H by (symmetry; apply N.ltb_ge; lia)]
         | context [?x =? ?y] =>
             first [replace (x =? y) with true in H by (symmetry; apply N.eqb_eq; lia)
                   |replace (x =? y) with false in H by (symmetry; apply N.eqb_neq; lia)]
         end.

Lemma opt_less_is_key_lt a b : opt_less a b = negb (opt_key_leb (dopt_key b) (dopt_key a)).
Proof.
  unfold opt_less, opt_key_leb, dopt_key, lexN; cbn [fst snd].
  rewrite bytes_ltb_bleb.
  generalize (k_line (o_key a)) (k_line (o_key b)) (k_idx (o_key a)) (k_idx (o_key b))
             (bleb (join_dot (ProtoPrintFile.o_full b)) (join_dot (ProtoPrintFile.o_full a))).
  intros la lb ia ib fb.
  destruct (N.eq_dec la 0) as [Za|Za]; destruct (N.eq_dec lb 0) as [Zb|Zb];
    destruct (N.lt_trichotomy la lb) as [Hl|[Hl|Hl]]; destruct (N.lt_trichotomy ia ib) as [Hi|[Hi|Hi]];
    try lia; norm_cmp; cbn [Bool.eqb negb andb]; norm_cmp; reflexivity.
Qed.

(* optionsByLocation.Less orders options with distinct full names totally: printSection's option list does not
   depend on the order protobuf ranged over the extension fields *)
(* the lexicographic key order is antisymmetric on the keys themselves *)
Lemma opt_key_leb_antisym (u v : N * (N * (N * bytes))) :
  opt_key_leb u v = true -> opt_key_leb v u = true -> u = v.
Proof.
  assert (A1 : forall p q : N * bytes, lex1 p q = true -> lex1 q p = true -> p = q).
  { intros [p1 p2] [q1 q2] Hp Hq.
    destruct (lexN_antisym bleb bleb_total bleb_trans (fun x y => x = y) (fun x y => bleb_antisym x y) _ _ Hp Hq) as [E1 E2].
    cbn [fst snd] in *. subst. reflexivity. }
  assert (A2 : forall p q : N * (N * bytes), lex2 p q = true -> lex2 q p = true -> p = q).
  { intros [p1 p2] [q1 q2] Hp Hq.
    destruct (lexN_antisym lex1 lex1_total lex1_trans (fun x y => x = y) A1 _ _ Hp Hq) as [E1 E2].
    cbn [fst snd] in *. subst. reflexivity. }
  intros Hu Hv. destruct u as [u1 u2], v as [v1 v2].
  destruct (lexN_antisym lex2 lex2_total lex2_trans (fun x y => x = y) A2 _ _ Hu Hv) as [E1 E2].
  cbn [fst snd] in *. subst. reflexivity.
Qed.

Theorem lay_sopts_perm o1 o2 :
  Permutation o1 o2 ->
  (forall a b, In a o1 -> In b o1 -> dopt_key a = dopt_key b -> a = b) ->
  lay_sopts o1 = lay_sopts o2.
Proof.
  intros Hp Hd. unfold lay_sopts. f_equal.
  apply (isort_less_perm_invariant dopt_key opt_key_leb opt_less opt_key_leb_total opt_key_leb_trans opt_less_is_key_lt); [exact Hp|].
  intros a b Ha Hb H1 H2. apply Hd; try assumption. apply opt_key_leb_antisym; assumption.
Qed.

(* ... and the same for fields and enum values, whose options are re-sorted by printed name afterwards *)
Corollary lay_fopts_perm o1 o2 :
  Permutation o1 o2 ->
  (forall a b, In a o1 -> In b o1 -> dopt_key a = dopt_key b -> a = b) ->
  lay_fopts o1 = lay_fopts o2.
Proof. intros Hp Hd. unfold lay_fopts. rewrite (lay_sopts_perm o1 o2 Hp Hd). reflexivity. Qed.
